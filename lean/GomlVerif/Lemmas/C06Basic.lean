import GomlVerif.Model.Match
/-!
Helper lemmas for `Props/C06.lean`, part 1: option/list algebra of pattern bindings, environments,
`firstMatch` under row-wise transformations.
-/
namespace Goml.Match
open Goml Goml.Sem

variable {β : Type}

/-! ### binding lists compared as sets -/

def SetEq {α : Type} (a b : List α) : Prop := ∀ x, x ∈ a ↔ x ∈ b

theorem SetEq.refl {α : Type} (a : List α) : SetEq a a := fun _ => Iff.rfl
theorem SetEq.symm {α : Type} {a b : List α} (h : SetEq a b) : SetEq b a := fun x => (h x).symm
theorem SetEq.trans {α : Type} {a b c : List α} (h : SetEq a b) (h' : SetEq b c) : SetEq a c :=
  fun x => (h x).trans (h' x)

def OEq {α : Type} (a b : Option (List α)) : Prop :=
  match a, b with
  | none, none => True
  | some x, some y => SetEq x y
  | _, _ => False

theorem OEq.refl {α : Type} (a : Option (List α)) : OEq a a := by
  cases a <;> simp [OEq, SetEq]

theorem OEq.of_eq {α : Type} {a b : Option (List α)} (h : a = b) : OEq a b := h ▸ OEq.refl a

theorem OEq.symm {α : Type} {a b : Option (List α)} (h : OEq a b) : OEq b a := by
  cases a <;> cases b <;> simp_all [OEq, SetEq]

theorem OEq.trans {α : Type} {a b c : Option (List α)} (h : OEq a b) (h' : OEq b c) : OEq a c := by
  cases a <;> cases b <;> cases c <;> simp_all [OEq, SetEq]

theorem OEq.none_iff {α : Type} {a b : Option (List α)} (h : OEq a b) : a = none ↔ b = none := by
  cases a <;> cases b <;> simp_all [OEq]

theorem oapp_congr {α : Type} {a a' b b' : Option (List α)} (h : OEq a a') (h' : OEq b b') :
    OEq (oapp a b) (oapp a' b') := by
  cases a <;> cases a' <;> cases b <;> cases b' <;> simp_all [OEq, oapp, SetEq]

theorem oapp_comm {α : Type} (a b : Option (List α)) : OEq (oapp a b) (oapp b a) := by
  cases a <;> cases b <;> simp [OEq, oapp, SetEq, or_comm]

theorem oapp_assoc {α : Type} (a b c : Option (List α)) : oapp (oapp a b) c = oapp a (oapp b c) := by
  cases a <;> cases b <;> cases c <;> simp [oapp]

@[simp] theorem oapp_nil_left {α : Type} (a : Option (List α)) : oapp (some []) a = a := by
  cases a <;> simp [oapp]

@[simp] theorem oapp_nil_right {α : Type} (a : Option (List α)) : oapp a (some []) = a := by
  cases a <;> simp [oapp]

@[simp] theorem oapp_none_left {α : Type} (a : Option (List α)) : oapp none a = none := by
  cases a <;> simp [oapp]

@[simp] theorem oapp_none_right {α : Type} (a : Option (List α)) : oapp a none = none := by
  cases a <;> simp [oapp]

@[simp] theorem oapp_some_some {α : Type} (a b : List α) : oapp (some a) (some b) = some (a ++ b) := rfl

theorem oapp_left_comm {α : Type} (a b c : Option (List α)) : OEq (oapp a (oapp b c)) (oapp b (oapp a c)) := by
  cases a <;> cases b <;> cases c <;> simp [OEq, oapp, SetEq, or_left_comm]

theorem oapp_snoc_left {α : Type} (B x : List α) (F : Option (List α)) :
    OEq (oapp (some (B ++ x)) F) (oapp (some x) (oapp (some B) F)) := by
  cases F <;> simp [OEq, oapp, SetEq, or_comm, or_left_comm]

/-! ### environments -/

theorem lookupEnv_cons (ρ : Env) (x y : String) (v : Val) :
    lookupEnv ((x, v) :: ρ) y = if x = y then some v else lookupEnv ρ y := by
  unfold lookupEnv
  by_cases h : x = y
  · simp [List.find?, h]
  · have : (x == y) = false := by simpa using h
    simp [List.find?, this, h]

theorem lookupVar_cons_ne (ρ : Env) (x y : String) (v : Val) (h : x ≠ y) :
    lookupVar ((x, v) :: ρ) y = lookupVar ρ y := by
  simp [lookupVar, lookupEnv_cons, h]

theorem lookupVar_cons_eq (ρ : Env) (x : String) (v : Val) :
    lookupVar ((x, v) :: ρ) x = v := by
  simp [lookupVar, lookupEnv_cons]

theorem lookupVar_append_notin (τ ρ : Env) (y : String) (h : ∀ p ∈ τ, p.1 ≠ y) :
    lookupVar (τ ++ ρ) y = lookupVar ρ y := by
  induction τ with
  | nil => rfl
  | cons p τ ih =>
    obtain ⟨x, v⟩ := p
    have hx : x ≠ y := h (x, v) (by simp)
    rw [List.cons_append, lookupVar_cons_ne _ _ _ _ hx]
    exact ih (fun q hq => h q (by simp [hq]))

/-- `bindParams xs vs ρ` pushes the pairs one after the other -/
theorem bindParams_eq (xs : List String) (vs : List Val) (ρ : Env) :
    bindParams xs vs ρ = (xs.zip vs).reverse ++ ρ := by
  induction xs generalizing vs ρ with
  | nil => simp [bindParams]
  | cons x xs ih =>
    cases vs with
    | nil => simp [bindParams]
    | cons v vs => simp [bindParams, ih]

/-! ### columns -/

theorem colsMatch_append (ρ : Env) (a b : List (String × Pat)) :
    colsMatch ρ (a ++ b) = oapp (colsMatch ρ a) (colsMatch ρ b) := by
  induction a with
  | nil => simp [colsMatch]
  | cons c a ih => simp [colsMatch, ih, oapp_assoc]

theorem colsMatch_congr (ρ ρ' : Env) (cols : List (String × Pat))
    (h : ∀ c ∈ cols, lookupVar ρ' c.1 = lookupVar ρ c.1) : colsMatch ρ' cols = colsMatch ρ cols := by
  induction cols with
  | nil => rfl
  | cons c cs ih =>
    simp only [colsMatch]
    rw [h c (by simp), ih (fun d hd => h d (by simp [hd]))]

theorem bindVals_congr (ρ ρ' : Env) (bs : List Bind)
    (h : ∀ b ∈ bs, lookupVar ρ' b.var = lookupVar ρ b.var) : bindVals ρ' bs = bindVals ρ bs := by
  induction bs with
  | nil => rfl
  | cons b bs ih =>
    simp only [bindVals, List.map_cons] at *
    rw [h b (by simp)]
    congr 1
    exact ih (fun c hc => h c (by simp [hc]))

theorem removeCol_none {x : String} {cols : List (String × Pat)} (h : removeCol x cols = none) :
    ∀ c ∈ cols, c.1 ≠ x := by
  induction cols with
  | nil => simp
  | cons c cs ih =>
    simp only [removeCol] at h
    split at h
    · cases h
    · rename_i hne
      split at h
      · cases h
      · rename_i hr
        intro d hd
        rcases List.mem_cons.mp hd with rfl | hd
        · exact hne
        · exact ih hr d hd

theorem removeCol_some {x : String} {cols cs : List (String × Pat)} {p : Pat}
    (h : removeCol x cols = some (p, cs)) :
    (x, p) ∈ cols ∧ (∀ c ∈ cs, c ∈ cols) ∧
      ∀ ρ, OEq (colsMatch ρ cols) (oapp (matchPat p (lookupVar ρ x)) (colsMatch ρ cs)) := by
  induction cols generalizing cs with
  | nil => simp [removeCol] at h
  | cons c cols ih =>
    simp only [removeCol] at h
    split at h
    · rename_i heq
      cases h
      refine ⟨by rw [← heq]; simp, fun d hd => by simp [hd], fun ρ => ?_⟩
      simp only [colsMatch]
      rw [heq]
      exact OEq.refl _
    · split at h
      · rename_i q cs' hr
        cases h
        obtain ⟨h1, h2, h3⟩ := ih hr
        refine ⟨by simp [h1], ?_, fun ρ => ?_⟩
        · intro d hd
          rcases List.mem_cons.mp hd with rfl | hd
          · simp
          · simp [h2 d hd]
        · simp only [colsMatch]
          exact (oapp_congr (OEq.refl _) (h3 ρ)).trans (oapp_left_comm _ _ _)
      · cases h

/-! ### `move_variable_patterns` keeps the meaning of a row -/

theorem bindVals_append (ρ : Env) (a b : List Bind) : bindVals ρ (a ++ b) = bindVals ρ a ++ bindVals ρ b := by
  simp [bindVals]

theorem moveVars_cols (ρ : Env) (cols : List (String × Pat)) :
    OEq (oapp (some (bindVals ρ (varBinds cols))) (colsMatch ρ (cols.filter (fun c => !isVarOrWild c.2))))
      (colsMatch ρ cols) := by
  induction cols with
  | nil => simp [varBinds, colsMatch, bindVals, OEq, SetEq]
  | cons c cs ih =>
    obtain ⟨x, p⟩ := c
    cases p with
    | wild t =>
      simp only [varBinds, List.filter, isVarOrWild, Bool.not_true, colsMatch, matchPat, oapp_nil_left]
      exact ih
    | var a t =>
      simp only [varBinds, List.filter, isVarOrWild, Bool.not_true, colsMatch, matchPat, bindVals_append]
      have : bindVals ρ [⟨a, x, t⟩] = [(a, lookupVar ρ x)] := rfl
      rw [this]
      exact (oapp_snoc_left _ _ _).trans (oapp_congr (OEq.refl _) ih)
    | prim q t =>
      simp only [varBinds, List.filter, isVarOrWild, Bool.not_false, colsMatch]
      exact (oapp_left_comm _ _ _).trans (oapp_congr (OEq.refl _) ih)
    | tuple ps t =>
      simp only [varBinds, List.filter, isVarOrWild, Bool.not_false, colsMatch]
      exact (oapp_left_comm _ _ _).trans (oapp_congr (OEq.refl _) ih)
    | constr k ps t =>
      simp only [varBinds, List.filter, isVarOrWild, Bool.not_false, colsMatch]
      exact (oapp_left_comm _ _ _).trans (oapp_congr (OEq.refl _) ih)

theorem moveVars_rowMatch (ρ : Env) (r : Row β) : OEq (rowMatch ρ (moveVars r)) (rowMatch ρ r) := by
  simp only [rowMatch, moveVars, bindVals_append]
  have h := moveVars_cols ρ r.cols
  have e : oapp (some (bindVals ρ (varBinds r.cols) ++ bindVals ρ r.binds))
        (colsMatch ρ (r.cols.filter (fun c => !isVarOrWild c.2)))
      = oapp (oapp (some (bindVals ρ (varBinds r.cols))) (some (bindVals ρ r.binds)))
        (colsMatch ρ (r.cols.filter (fun c => !isVarOrWild c.2))) := rfl
  rw [e, oapp_assoc]
  exact (oapp_left_comm _ _ _).trans (oapp_congr (OEq.refl _) h)

/-! ### `firstMatch` under row-wise transformations -/

def SpecEq (a b : Option (β × List (String × Val))) : Prop :=
  match a, b with
  | none, none => True
  | some x, some y => x.1 = y.1 ∧ SetEq x.2 y.2
  | _, _ => False

theorem SpecEq.refl (a : Option (β × List (String × Val))) : SpecEq a a := by
  cases a <;> simp [SpecEq, SetEq]

theorem SpecEq.trans {a b c : Option (β × List (String × Val))} (h : SpecEq a b) (h' : SpecEq b c) :
    SpecEq a c := by
  cases a <;> cases b <;> cases c <;> simp_all [SpecEq, SetEq]

/-- what a row-wise step may do: drop a row that does not match, or replace it by one with the
    same body and the same meaning (in the extended environment `ρ'`) -/
def RowStep (ρ ρ' : Env) (r : Row β) : Option (Row β) → Prop
  | none => rowMatch ρ r = none
  | some r' => r'.body = r.body ∧ OEq (rowMatch ρ' r') (rowMatch ρ r)

/-- a row-wise filter/rewrite that drops only rows that do not match and keeps the meaning of the
    others keeps the first match -/
theorem firstMatch_filterMapE (ρ ρ' : Env) (f : Row β → M (Option (Row β))) :
    ∀ (rows rows' : List (Row β)), filterMapE f rows = .ok rows' →
    (∀ r ∈ rows, ∀ o, f r = .ok o → RowStep ρ ρ' r o) →
    SpecEq (firstMatch ρ' rows') (firstMatch ρ rows) := by
  intro rows
  induction rows with
  | nil =>
    intro rows' h _
    simp only [filterMapE] at h
    cases h
    simp [firstMatch, SpecEq]
  | cons r rs ih =>
    intro rows' h hr
    simp only [filterMapE] at h
    split at h
    · cases h
    · rename_i o ho
      split at h
      · cases h
      · rename_i rest hrest
        have ih' := ih rest hrest (fun q hq => hr q (by simp [hq]))
        have h0 := hr r (by simp) o ho
        cases o with
        | none =>
          simp only [RowStep] at h0
          cases h
          simp only [firstMatch, h0]
          exact ih'
        | some r' =>
          simp only [RowStep] at h0
          cases h
          obtain ⟨hb, hm⟩ := h0
          simp only [firstMatch]
          cases h1 : rowMatch ρ' r' <;> cases h2 : rowMatch ρ r <;> rw [h1, h2] at hm <;> simp only [OEq] at hm
          · exact ih'
          · exact ⟨hb, hm⟩

theorem firstMatch_map (ρ : Env) (f : Row β → Row β) (rows : List (Row β))
    (h : ∀ r ∈ rows, (f r).body = r.body ∧ OEq (rowMatch ρ (f r)) (rowMatch ρ r)) :
    SpecEq (firstMatch ρ (rows.map f)) (firstMatch ρ rows) := by
  induction rows with
  | nil => simp [firstMatch, SpecEq]
  | cons r rs ih =>
    have ih' := ih (fun q hq => h q (by simp [hq]))
    obtain ⟨hb, hm⟩ := h r (by simp)
    simp only [List.map_cons, firstMatch]
    cases h1 : rowMatch ρ (f r) <;> cases h2 : rowMatch ρ r <;> rw [h1, h2] at hm <;> simp only [OEq] at hm
    · exact ih'
    · exact ⟨hb, hm⟩

theorem filterMapE_mem {α γ : Type} (f : α → M (Option γ)) :
    ∀ (l : List α) (l' : List γ), filterMapE f l = .ok l' →
      (∀ b ∈ l', ∃ a ∈ l, f a = .ok (some b)) ∧ (∀ a ∈ l, ∃ o, f a = .ok o) := by
  intro l
  induction l with
  | nil =>
    intro l' h
    simp only [filterMapE] at h
    cases h
    simp
  | cons a as ih =>
    intro l' h
    simp only [filterMapE] at h
    split at h
    · cases h
    · rename_i o ho
      split at h
      · cases h
      · rename_i rest hrest
        obtain ⟨i1, i2⟩ := ih rest hrest
        cases h
        constructor
        · intro b hb
          cases o with
          | none =>
            obtain ⟨a', ha', hf⟩ := i1 b hb
            exact ⟨a', by simp [ha'], hf⟩
          | some b0 =>
            rcases List.mem_cons.mp hb with rfl | hb
            · exact ⟨a, by simp, ho⟩
            · obtain ⟨a', ha', hf⟩ := i1 b hb
              exact ⟨a', by simp [ha'], hf⟩
        · intro a' ha'
          rcases List.mem_cons.mp ha' with rfl | ha'
          · exact ⟨o, ho⟩
          · exact i2 a' ha'

end Goml.Match
