import GomlVerif.Lemmas.C06Lits
/-!
Helper lemmas for `Props/C06.lean`, part 4: the destructuring cases (tuple, struct, enum).
-/
namespace Goml.Match
open Goml Goml.Sem

variable {β : Type}

/-- facts about the environment after the components `vs` were bound to the fresh `names` -/
structure Ext (ρ ρ' : Env) (names : List String) (vs : List Val) : Prop where
  hmap : names.map (lookupVar ρ') = vs
  hother : ∀ y, y ∉ names → lookupVar ρ' y = lookupVar ρ y

theorem ext_bindParams (ρ : Env) (names : List String) (vs : List Val) (hnd : names.Nodup)
    (hlen : names.length = vs.length) : Ext ρ (bindParams names vs ρ) names vs :=
  ⟨map_lookup_bindParams names vs ρ hnd hlen, fun y hy => lookupVar_bindParams_notin names vs ρ y hy⟩

/-! ### tuple -/

theorem expandTuple_spec (S : Sig) (bv : String) (names : List String) (vs : List Val) (ρ ρ' : Env)
    (hv : lookupVar ρ bv = .tuple vs) (hx : Ext ρ ρ' names vs) :
    ∀ (cols cols' : List (String × Pat)), expandTuple bv names cols = .ok cols' →
      (∀ c ∈ cols, c.1 ∉ names) → (∀ c ∈ cols, conf S c.2 (lookupVar ρ c.1) = true) →
      colsMatch ρ' cols' = colsMatch ρ cols ∧
      (∀ c ∈ cols', conf S c.2 (lookupVar ρ' c.1) = true) ∧
      (∀ c ∈ cols', c.1 ∈ names ∨ c ∈ cols) := by
  intro cols
  induction cols with
  | nil =>
    intro cols' h _ _
    simp only [expandTuple] at h
    cases h
    simp [colsMatch]
  | cons c cs ih =>
    intro cols' h hfr hcf
    simp only [expandTuple] at h
    split at h
    · cases h
    · rename_i rest hrest
      obtain ⟨i1, i2, i3⟩ := ih rest hrest (fun d hd => hfr d (by simp [hd])) (fun d hd => hcf d (by simp [hd]))
      split at h
      · rename_i hcbv
        split at h
        · rename_i items ty hpat
          split at h
          · cases h
          · cases h
            have hc := hcf c (by simp)
            rw [hcbv, hv, hpat] at hc
            simp only [conf] at hc
            split at hc
            · rename_i typs vs' heq1 heq2
              cases heq2
              simp only [Bool.and_eq_true, decide_eq_true_eq] at hc
              obtain ⟨⟨_, hl⟩, hcs⟩ := hc
              refine ⟨?_, ?_, ?_⟩
              · rw [colsMatch_append, colsMatch_zip ρ' items names vs hx.hmap hl, i1]
                simp only [colsMatch]
                rw [hcbv, hv, hpat]
                simp only [matchPat]
              · intro d hd
                rcases List.mem_append.mp hd with hd | hd
                · exact confs_zip S ρ' items names vs hx.hmap hcs d hd
                · exact i2 d hd
              · intro d hd
                rcases List.mem_append.mp hd with hd | hd
                · left
                  obtain ⟨a, b⟩ := d
                  exact (List.of_mem_zip hd).1
                · rcases i3 d hd with h' | h'
                  · exact Or.inl h'
                  · exact Or.inr (by simp [h'])
            · simp at hc
        · cases h
      · cases h
        have hne : c.1 ∉ names := hfr c (by simp)
        refine ⟨?_, ?_, ?_⟩
        · simp only [colsMatch, i1, hx.hother _ hne]
        · intro d hd
          rcases List.mem_cons.mp hd with rfl | hd
          · rw [hx.hother _ hne]; exact hcf d (by simp)
          · exact i2 d hd
        · intro d hd
          rcases List.mem_cons.mp hd with rfl | hd
          · exact Or.inr (by simp)
          · rcases i3 d hd with h' | h'
            · exact Or.inl h'
            · exact Or.inr (by simp [h'])

/-- what a destructuring row step guarantees -/
structure DestrRow (S : Sig) (ρ ρ' : Env) (names : List String) (r r' : Row β) : Prop where
  body : r'.body = r.body
  binds : r'.binds = r.binds
  meaning : OEq (rowMatch ρ' r') (rowMatch ρ r)
  conf : RowConf S ρ' r'
  cols : ∀ c ∈ r'.cols, c.1 ∈ names ∨ c ∈ r.cols

theorem specTuple_row (S : Sig) (bv : String) (names : List String) (vs : List Val) (ρ ρ' : Env)
    (hv : lookupVar ρ bv = .tuple vs) (hx : Ext ρ ρ' names vs) (r r' : Row β)
    (h : specTuple bv names r = .ok (some r'))
    (hfr : (∀ c ∈ r.cols, c.1 ∉ names) ∧ (∀ b ∈ r.binds, b.var ∉ names)) (hcf : RowConf S ρ r) :
    DestrRow S ρ ρ' names r r' := by
  unfold specTuple at h
  split at h
  · cases h
  · rename_i cs hcs
    cases h
    obtain ⟨i1, i2, i3⟩ := expandTuple_spec S bv names vs ρ ρ' hv hx r.cols cs hcs hfr.1 hcf
    refine ⟨rfl, rfl, ?_, i2, i3⟩
    simp only [rowMatch, i1]
    rw [bindVals_congr ρ ρ' r.binds (fun b hb => hx.hother _ (hfr.2 b hb))]
    exact OEq.refl _

/-! ### struct -/

theorem expandStruct_spec (S : Sig) (bv : String) (names : List String) (tn : String) (vs : List Val)
    (ρ ρ' : Env) (hv : lookupVar ρ bv = .structV tn vs) (hx : Ext ρ ρ' names vs) :
    ∀ (cols cols' : List (String × Pat)), expandStruct bv names cols = .ok cols' →
      (∀ c ∈ cols, c.1 ∉ names) → (∀ c ∈ cols, conf S c.2 (lookupVar ρ c.1) = true) →
      colsMatch ρ' cols' = colsMatch ρ cols ∧
      (∀ c ∈ cols', conf S c.2 (lookupVar ρ' c.1) = true) ∧
      (∀ c ∈ cols', c.1 ∈ names ∨ c ∈ cols) := by
  intro cols
  induction cols with
  | nil =>
    intro cols' h _ _
    simp only [expandStruct] at h
    cases h
    simp [colsMatch]
  | cons c cs ih =>
    intro cols' h hfr hcf
    simp only [expandStruct] at h
    split at h
    · cases h
    · rename_i rest hrest
      obtain ⟨i1, i2, i3⟩ := ih rest hrest (fun d hd => hfr d (by simp [hd])) (fun d hd => hcf d (by simp [hd]))
      split at h
      · rename_i hcbv
        split at h
        · rename_i sn args ty hpat
          cases h
          have hc := hcf c (by simp)
          rw [hcbv, hv, hpat] at hc
          simp only [conf] at hc
          split at hc
          · rename_i d hd
            simp only [Bool.and_eq_true, decide_eq_true_eq] at hc
            obtain ⟨⟨_, hl⟩, hcs⟩ := hc
            refine ⟨?_, ?_, ?_⟩
            · rw [colsMatch_append, colsMatch_zip ρ' args names vs hx.hmap hl, i1]
              simp only [colsMatch]
              rw [hcbv, hv, hpat]
              simp only [matchPat]
            · intro d hd
              rcases List.mem_append.mp hd with hd | hd
              · exact confs_zip S ρ' args names vs hx.hmap hcs d hd
              · exact i2 d hd
            · intro d hd
              rcases List.mem_append.mp hd with hd | hd
              · left
                obtain ⟨a, b⟩ := d
                exact (List.of_mem_zip hd).1
              · rcases i3 d hd with h' | h'
                · exact Or.inl h'
                · exact Or.inr (by simp [h'])
          · simp at hc
        · cases h
      · cases h
        have hne : c.1 ∉ names := hfr c (by simp)
        refine ⟨?_, ?_, ?_⟩
        · simp only [colsMatch, i1, hx.hother _ hne]
        · intro d hd
          rcases List.mem_cons.mp hd with rfl | hd
          · rw [hx.hother _ hne]; exact hcf d (by simp)
          · exact i2 d hd
        · intro d hd
          rcases List.mem_cons.mp hd with rfl | hd
          · exact Or.inr (by simp)
          · rcases i3 d hd with h' | h'
            · exact Or.inl h'
            · exact Or.inr (by simp [h'])

theorem specStruct_row (S : Sig) (bv : String) (names : List String) (tn : String) (vs : List Val) (ρ ρ' : Env)
    (hv : lookupVar ρ bv = .structV tn vs) (hx : Ext ρ ρ' names vs) (r r' : Row β)
    (h : specStruct bv names r = .ok (some r'))
    (hfr : (∀ c ∈ r.cols, c.1 ∉ names) ∧ (∀ b ∈ r.binds, b.var ∉ names)) (hcf : RowConf S ρ r) :
    DestrRow S ρ ρ' names r r' := by
  unfold specStruct at h
  split at h
  · cases h
  · rename_i cs hcs
    cases h
    obtain ⟨i1, i2, i3⟩ := expandStruct_spec S bv names tn vs ρ ρ' hv hx r.cols cs hcs hfr.1 hcf
    refine ⟨rfl, rfl, ?_, i2, i3⟩
    simp only [rowMatch, i1]
    rw [bindVals_congr ρ ρ' r.binds (fun b hb => hx.hother _ (hfr.2 b hb))]
    exact OEq.refl _

/-! ### enum -/

def DestrStep (S : Sig) (ρ ρ' : Env) (names : List String) (r : Row β) : Option (Row β) → Prop
  | none => rowMatch ρ r = none
  | some r' => DestrRow S ρ ρ' names r r'

theorem specEnum_row (S : Sig) (bv : String) (nv idx : Nat) (names : List String) (tn : String)
    (vs : List Val) (ρ ρ' : Env) (hv : lookupVar ρ bv = .enumV tn idx vs) (hx : Ext ρ ρ' names vs)
    (r : Row β) (o : Option (Row β)) (h : specEnum bv nv idx names r = .ok o)
    (hfr : (∀ c ∈ r.cols, c.1 ∉ names) ∧ (∀ b ∈ r.binds, b.var ∉ names)) (hcf : RowConf S ρ r) :
    DestrStep S ρ ρ' names r o := by
  have hb : bindVals ρ' r.binds = bindVals ρ r.binds :=
    bindVals_congr ρ ρ' r.binds (fun b hb => hx.hother _ (hfr.2 b hb))
  have hcols : ∀ cs : List (String × Pat), (∀ c ∈ cs, c ∈ r.cols) → colsMatch ρ' cs = colsMatch ρ cs :=
    fun cs hcs => colsMatch_congr ρ ρ' cs (fun c hc => hx.hother _ (hfr.1 c (hcs c hc)))
  unfold specEnum at h
  split at h
  · cases h
    refine ⟨rfl, rfl, ?_, ?_, fun c hc => Or.inr hc⟩
    · simp only [rowMatch, hb, hcols r.cols (fun _ hc => hc)]
      exact OEq.refl _
    · intro c hc
      rw [hx.hother _ (hfr.1 c hc)]
      exact hcf c hc
  · rename_i a b i args ty cs hr
    obtain ⟨hmem, hsub, _⟩ := removeCol_some hr
    have hm := rowMatch_removeCol ρ r bv _ cs hr
    split at h
    · cases h
    · cases h
      have hc := hcf _ hmem
      simp only [hv, conf] at hc
      by_cases hi : i = idx
      · subst hi
        simp only [if_true]
        split at hc
        · rename_i d hd
          split at hc
          · rename_i vr hvr
            simp only [if_true, Bool.and_eq_true, decide_eq_true_eq] at hc
            obtain ⟨_, hl, hcs⟩ := hc
            refine ⟨rfl, rfl, ?_, ?_, ?_⟩
            · simp only [hv, matchPat, if_true] at hm
              refine OEq.trans ?_ hm.symm
              simp only [rowMatch, hb, colsMatch_append, hcols cs hsub,
                colsMatch_zip ρ' args names vs hx.hmap hl]
              exact (oapp_congr (OEq.refl _) (oapp_comm _ _)).trans (oapp_left_comm _ _ _)
            · intro c hc'
              rcases List.mem_append.mp hc' with hc' | hc'
              · rw [hx.hother _ (hfr.1 c (hsub c hc'))]
                exact hcf c (hsub c hc')
              · exact confs_zip S ρ' args names vs hx.hmap hcs c hc'
            · intro c hc'
              rcases List.mem_append.mp hc' with hc' | hc'
              · exact Or.inr (hsub c hc')
              · left
                obtain ⟨x, y⟩ := c
                exact (List.of_mem_zip hc').1
          · simp at hc
        · simp at hc
      · simp only [hi, if_false]
        simp only [hv, matchPat, hi, if_false, oapp_none_left] at hm
        exact (OEq.none_iff hm).mpr rfl
  · cases h
  · cases h

end Goml.Match
