import GomlVerif.Lemmas.C06Total
/-!
Helper lemmas for `Props/C06.lean`, part 9: `leavesOK` of the output follows from a separation of
names in the INPUT (pattern variables are never spelled like column variables).
-/
namespace Goml.Match
open Goml Goml.Sem

variable {β : Type}

mutual
/-- variables a pattern binds -/
def Pat.names : Pat → List String
  | .wild _ => []
  | .var x _ => [x]
  | .prim _ _ => []
  | .tuple ps _ => Pat.namesL ps
  | .constr _ ps _ => Pat.namesL ps
def Pat.namesL : List Pat → List String
  | [] => []
  | p :: ps => p.names ++ Pat.namesL ps
end

/-- `CV` holds of every column variable and of no pattern variable -/
def RowSep (CV : String → Prop) (r : Row β) : Prop :=
  (∀ c ∈ r.cols, CV c.1 ∧ ∀ a ∈ c.2.names, ¬ CV a) ∧ (∀ b ∈ r.binds, CV b.var ∧ ¬ CV b.name)

theorem mem_namesL {ps : List Pat} {p : Pat} {a : String} (hp : p ∈ ps) (ha : a ∈ p.names) :
    a ∈ Pat.namesL ps := by
  induction ps with
  | nil => cases hp
  | cons q qs ih =>
    simp only [Pat.namesL, List.mem_append]
    rcases List.mem_cons.mp hp with rfl | hp
    · exact Or.inl ha
    · exact Or.inr (ih hp)

theorem bindsOK_of_sep {CV : String → Prop} : ∀ (bs : List Bind), (∀ b ∈ bs, CV b.var ∧ ¬ CV b.name) →
    bindsOK bs = true := by
  intro bs
  induction bs with
  | nil => intro _; rfl
  | cons b bs ih =>
    intro h
    simp only [bindsOK, Bool.and_eq_true, List.all_eq_true]
    refine ⟨?_, ih (fun c hc => h c (by simp [hc]))⟩
    intro c hc
    have h1 := (h c (by simp [hc])).1
    have h2 := (h b (by simp)).2
    have : c.var ≠ b.name := fun e => h2 (e ▸ h1)
    simpa using this

theorem varBinds_sep {CV : String → Prop} : ∀ (cols : List (String × Pat)),
    (∀ c ∈ cols, CV c.1 ∧ ∀ a ∈ c.2.names, ¬ CV a) → ∀ b ∈ varBinds cols, CV b.var ∧ ¬ CV b.name := by
  intro cols
  induction cols with
  | nil => intro _ b hb; cases hb
  | cons c cs ih =>
    intro h b hb
    have ih' := ih (fun d hd => h d (by simp [hd]))
    simp only [varBinds] at hb
    split at hb
    · rename_i a ty hpat
      rcases List.mem_append.mp hb with hb | hb
      · exact ih' b hb
      · simp only [List.mem_singleton] at hb
        subst hb
        have := h c (by simp)
        refine ⟨this.1, this.2 a ?_⟩
        rw [hpat]; simp [Pat.names]
    · exact ih' b hb

theorem moveVars_sep {CV : String → Prop} {r : Row β} (h : RowSep CV r) : RowSep CV (moveVars r) := by
  refine ⟨fun c hc => h.1 c (List.mem_filter.mp hc).1, ?_⟩
  intro b hb
  rcases List.mem_append.mp hb with hb | hb
  · exact varBinds_sep r.cols h.1 b hb
  · exact h.2 b hb

theorem RowSub.sep {CV : String → Prop} {r' r : Row β} (h : RowSub r' r) (hs : RowSep CV r) : RowSep CV r' :=
  ⟨fun c hc => hs.1 c (h.2.2 c hc), fun b hb => hs.2 b (h.2.1 ▸ hb)⟩

theorem zip_sep {CV : String → Prop} {names : List String} {args : List Pat}
    (hn : ∀ x ∈ names, CV x) (ha : ∀ a ∈ Pat.namesL args, ¬ CV a) :
    ∀ c ∈ names.zip args, CV c.1 ∧ ∀ a ∈ c.2.names, ¬ CV a := by
  intro c hc
  obtain ⟨x, p⟩ := c
  have := List.of_mem_zip hc
  exact ⟨hn x this.1, fun a haa => ha a (mem_namesL this.2 haa)⟩

theorem specEnum_sep {CV : String → Prop} {bv : String} {nv idx : Nat} {names : List String}
    (hn : ∀ x ∈ names, CV x) {r r' : Row β} (h : specEnum bv nv idx names r = .ok (some r'))
    (hs : RowSep CV r) : RowSep CV r' := by
  unfold specEnum at h
  split at h
  · cases h; exact hs
  · rename_i a b i args ty cs hr
    obtain ⟨hmem, hsub, _⟩ := removeCol_some hr
    split at h
    · cases h
    · split at h
      · cases h
        refine ⟨?_, hs.2⟩
        intro c hc
        rcases List.mem_append.mp hc with hc | hc
        · exact hs.1 c (hsub c hc)
        · exact zip_sep hn (fun a ha => (hs.1 _ hmem).2 a (by simpa [Pat.names] using ha)) c hc
      · cases h
  · cases h
  · cases h

theorem expandTuple_sep {CV : String → Prop} {bv : String} {names : List String} (hn : ∀ x ∈ names, CV x) :
    ∀ (cols cols' : List (String × Pat)), expandTuple bv names cols = .ok cols' →
      (∀ c ∈ cols, CV c.1 ∧ ∀ a ∈ c.2.names, ¬ CV a) → ∀ c ∈ cols', CV c.1 ∧ ∀ a ∈ c.2.names, ¬ CV a := by
  intro cols
  induction cols with
  | nil => intro cols' h _; simp only [expandTuple] at h; cases h; intro c hc; cases hc
  | cons c cs ih =>
    intro cols' h hs
    simp only [expandTuple] at h
    split at h
    · cases h
    · rename_i rest hrest
      have ih' := ih rest hrest (fun d hd => hs d (by simp [hd]))
      split at h
      · split at h
        · rename_i items ty hpat
          split at h
          · cases h
          · cases h
            intro d hd
            rcases List.mem_append.mp hd with hd | hd
            · exact zip_sep hn (fun a ha => (hs c (by simp)).2 a (by rw [hpat]; simpa [Pat.names] using ha)) d hd
            · exact ih' d hd
        · cases h
      · cases h
        intro d hd
        rcases List.mem_cons.mp hd with rfl | hd
        · exact hs d (by simp)
        · exact ih' d hd

theorem expandStruct_sep {CV : String → Prop} {bv : String} {names : List String} (hn : ∀ x ∈ names, CV x) :
    ∀ (cols cols' : List (String × Pat)), expandStruct bv names cols = .ok cols' →
      (∀ c ∈ cols, CV c.1 ∧ ∀ a ∈ c.2.names, ¬ CV a) → ∀ c ∈ cols', CV c.1 ∧ ∀ a ∈ c.2.names, ¬ CV a := by
  intro cols
  induction cols with
  | nil => intro cols' h _; simp only [expandStruct] at h; cases h; intro c hc; cases hc
  | cons c cs ih =>
    intro cols' h hs
    simp only [expandStruct] at h
    split at h
    · cases h
    · rename_i rest hrest
      have ih' := ih rest hrest (fun d hd => hs d (by simp [hd]))
      split at h
      · split at h
        · rename_i sn args ty hpat
          cases h
          intro d hd
          rcases List.mem_append.mp hd with hd | hd
          · exact zip_sep hn (fun a ha => (hs c (by simp)).2 a (by rw [hpat]; simpa [Pat.names] using ha)) d hd
          · exact ih' d hd
        · cases h
      · cases h
        intro d hd
        rcases List.mem_cons.mp hd with rfl | hd
        · exact hs d (by simp)
        · exact ih' d hd

theorem filterMapE_sep {CV : String → Prop} (f : Row β → M (Option (Row β)))
    (hf : ∀ r r', f r = .ok (some r') → RowSep CV r → RowSep CV r') {rows sub : List (Row β)}
    (h : filterMapE f rows = .ok sub) (hs : ∀ r ∈ rows, RowSep CV r) : ∀ r ∈ sub, RowSep CV r := by
  intro r' hr'
  obtain ⟨r, hr, hfr⟩ := (filterMapE_mem f rows sub h).1 r' hr'
  exact hf r r' hfr (hs r hr)

theorem genNames_cv {CV : String → Prop} {g : Nat → String} (hgen : ∀ j, CV (g j)) (n k : Nat) :
    ∀ x ∈ genNames g n k, CV x := by
  intro x hx
  obtain ⟨j, _, _, rfl⟩ := mem_genNames.mp hx
  exact hgen j

theorem enumSubs_sep {CV : String → Prop} {g : Nat → String} (hgen : ∀ j, CV (g j)) {bv : String} {nv : Nat}
    {rows : List (Row β)} (hs : ∀ r ∈ rows, RowSep CV r) (tname : String) (σ : List (String × Ty)) :
    ∀ (variants : List (String × List Ty)) (m idx : Nat) (subs : List (List (Row β))),
      enumSubs bv nv rows (enumHeads g tname σ m idx variants).1 idx = .ok subs →
      ∀ sub ∈ subs, ∀ r ∈ sub, RowSep CV r := by
  intro variants
  induction variants with
  | nil => intro m idx subs h; simp only [enumHeads, enumSubs] at h; cases h; intro sub hsub; cases hsub
  | cons v rest ih =>
    intro m idx subs h
    simp only [enumHeads, enumSubs] at h
    split at h
    · cases h
    · rename_i s hs'
      split at h
      · cases h
      · rename_i rest' hrest
        cases h
        intro sub hsub
        rcases List.mem_cons.mp hsub with rfl | hsub
        · refine filterMapE_sep _ (fun r r' hf => specEnum_sep ?_ hf) hs' hs
          intro x hx
          obtain ⟨p, hp, rfl⟩ := List.mem_map.mp hx
          exact genNames_cv hgen _ _ _ (List.of_mem_zip (show (p.1, p.2) ∈ _ from hp)).1
        · exact ih _ _ rest' hrest sub hsub

theorem litPlan_sep {CV : String → Prop} {okP : Prim → Bool} {n : Nat} {bv : String} {subTy : Ty}
    {keys : List Prim} {dflt : Bool} {rows : List (Row β)} {pl : Plan β}
    (hpl : litPlan okP n bv subTy keys dflt rows = .ok pl) (hs : ∀ r ∈ rows, RowSep CV r) :
    ∀ sub ∈ pl.subs, ∀ r ∈ sub, RowSep CV r := by
  unfold litPlan at hpl
  split at hpl
  · cases hpl
  · rename_i subs hsubs
    have hk : ∀ sub ∈ subs, ∀ r ∈ sub, RowSep CV r := by
      intro sub hsub
      obtain ⟨k, _, hf⟩ := mapE_mem _ keys subs hsubs sub hsub
      exact filterMapE_sep _ (fun r r' h => (specLit_sub h).sep) hf hs
    cases dflt with
    | true =>
      simp only [if_true] at hpl
      split at hpl
      · cases hpl
      · rename_i d hd
        cases hpl
        intro sub hsub
        rcases List.mem_append.mp hsub with hsub | hsub
        · exact hk sub hsub
        · simp only [List.mem_singleton] at hsub
          subst hsub
          exact filterMapE_sep _ (fun r r' h => (specDflt_sub h).sep) hd hs
    | false =>
      simp only [Bool.false_eq_true, if_false] at hpl
      cases hpl
      exact hk

theorem plan_sep {CV : String → Prop} (S : Sig) (hgen : ∀ j, CV (S.gen j)) {n : Nat} {bv : String} {bty ty : Ty}
    {rows : List (Row β)} {pl : Plan β} (hplan : plan S n bv bty ty rows = .ok pl)
    (hs : ∀ r ∈ rows, RowSep CV r) : ∀ sub ∈ pl.subs, ∀ r ∈ sub, RowSep CV r := by
  unfold plan at hplan
  split at hplan
  · cases hplan
  · exact litPlan_sep hplan hs
  · exact litPlan_sep hplan hs
  · split at hplan
    · cases hplan
    · split at hplan
      · cases hplan
      · cases hplan
      · exact litPlan_sep hplan hs
  · split at hplan
    · cases hplan
    · exact litPlan_sep hplan hs
  · split at hplan
    · cases hplan
    · split at hplan
      · cases hplan
      · dsimp only at hplan
        split at hplan
        · cases hplan
        · rename_i subs hsubs
          cases hplan
          exact enumSubs_sep hgen hs _ _ _ _ _ subs hsubs
  · split at hplan
    · cases hplan
    · split at hplan
      · cases hplan
      · dsimp only at hplan
        split at hplan
        · cases hplan
        · rename_i s hs'
          cases hplan
          intro sub hsub
          simp only [List.mem_singleton] at hsub
          subst hsub
          refine filterMapE_sep _ ?_ hs' hs
          intro r r' hf hr
          unfold specStruct at hf
          split at hf
          · cases hf
          · rename_i cs hcs
            cases hf
            exact ⟨expandStruct_sep (genNames_cv hgen _ _) _ _ hcs hr.1, hr.2⟩
  · dsimp only at hplan
    split at hplan
    · cases hplan
    · rename_i s hs'
      cases hplan
      intro sub hsub
      simp only [List.mem_singleton] at hsub
      subst hsub
      refine filterMapE_sep _ ?_ hs' hs
      intro r r' hf hr
      unfold specTuple at hf
      split at hf
      · cases hf
      · rename_i cs hcs
        cases hf
        exact ⟨expandTuple_sep (genNames_cv hgen _ _) _ _ hcs hr.1, hr.2⟩

/-! ### assembling -/

theorem leavesOK_wrapProj (bv : String) (bty : Ty) (t : DT β) : ∀ (vars : List (String × Ty)) (i : Nat),
    leavesOK (wrapProj bv bty i vars t) = leavesOK t := by
  intro vars
  induction vars with
  | nil => intro i; rfl
  | cons x xs ih => intro i; simp only [wrapProj, leavesOK]; exact ih _

theorem leavesOK_wrapGet (c : Ctor) (bv : String) (bty : Ty) (t : DT β) : ∀ (vars : List (String × Ty)) (i : Nat),
    leavesOK (wrapGet c bv bty i vars t) = leavesOK t := by
  intro vars
  induction vars with
  | nil => intro i; rfl
  | cons x xs ih => intro i; simp only [wrapGet, leavesOK]; exact ih _

theorem casesOK_litCases (d : Bool) : ∀ (keys : List Prim) (ts : List (DT β)),
    (∀ t ∈ ts, leavesOK t = true) → casesOK (litCases keys ts d) = true := by
  intro keys
  induction keys with
  | nil =>
    intro ts h
    simp only [litCases]
    split
    · rename_i t; simp only [casesOK]; exact h t (by simp)
    · rfl
  | cons k ks ih =>
    intro ts h
    simp only [litCases]
    split
    · rename_i t ts'
      simp only [casesOK, Bool.and_eq_true]
      exact ⟨h t (by simp), ih ts' (fun u hu => h u (by simp [hu]))⟩
    · rfl

theorem casesOK_enumCases (bv : String) (bty : Ty) : ∀ (hs : List (Ctor × List (String × Ty))) (ts : List (DT β)),
    (∀ t ∈ ts, leavesOK t = true) → casesOK (enumCases bv bty hs ts) = true := by
  intro hs
  induction hs with
  | nil => intro ts _; rfl
  | cons h hs ih =>
    intro ts ht
    simp only [enumCases]
    split
    · rename_i t ts'
      simp only [casesOK, Bool.and_eq_true, leavesOK_wrapGet]
      exact ⟨ht t (by simp), ih ts' (fun u hu => ht u (by simp [hu]))⟩
    · rfl

theorem leavesOK_build (bodyTy : Ty) (bv : String) (bty : Ty) (sh : Shape) (ts : List (DT β))
    (h : ∀ t ∈ ts, leavesOK t = true) : leavesOK (build bodyTy bv bty sh ts) = true := by
  cases sh with
  | lits keys d => simp only [build, leavesOK]; exact casesOK_litCases d keys ts h
  | enumS hs => simp only [build, leavesOK]; exact casesOK_enumCases bv bty hs ts h
  | tupleS vars =>
    simp only [build]
    split
    · rename_i t; rw [leavesOK_wrapProj]; exact h t (by simp)
    · rfl
  | structS c vars =>
    simp only [build]
    split
    · rename_i t; rw [leavesOK_wrapGet]; exact h t (by simp)
    · rfl

theorem compileSeq_leaves {rec : Nat → List (Row β) → Option (M (DT β × Nat))} :
    ∀ (subs : List (List (Row β))) (n : Nat) (ts : List (DT β)) (n' : Nat),
      (∀ sub ∈ subs, ∀ m t m', rec m sub = some (.ok (t, m')) → leavesOK t = true) →
      compileSeq rec n subs = some (.ok (ts, n')) → ∀ t ∈ ts, leavesOK t = true := by
  intro subs
  induction subs with
  | nil => intro n ts n' _ h; simp only [compileSeq] at h; cases h; intro t ht; cases ht
  | cons rs rest ih =>
    intro n ts n' hrec h
    simp only [compileSeq] at h
    split at h
    · cases h
    · cases h
    · rename_i r hr
      split at h
      · cases h
      · cases h
      · rename_i q hq
        cases h
        intro t ht
        rcases List.mem_cons.mp ht with rfl | ht
        · exact hrec rs (by simp) n r.1 r.2 hr
        · exact ih r.2 q.1 q.2 (fun sub hsub => hrec sub (by simp [hsub])) hq t ht

theorem compileRows_leaves (S : Sig) (CV : String → Prop) (hgen : ∀ j, CV (S.gen j)) :
    ∀ (fuel : Nat) (ty : Ty) (n : Nat) (rows : List (Row β)) (t : DT β) (n' : Nat),
      compileRows S fuel ty n rows = some (.ok (t, n')) → (∀ r ∈ rows, RowSep CV r) → leavesOK t = true := by
  intro fuel
  induction fuel with
  | zero => intro ty n rows t n' h; simp [compileRows] at h
  | succ fuel ih =>
    intro ty n rows t n' h hs
    have hs1 : ∀ r1 ∈ rows.map moveVars, RowSep CV r1 := by
      intro r1 hr1
      obtain ⟨r, hr, rfl⟩ := List.mem_map.mp hr1
      exact moveVars_sep (hs r hr)
    simp only [compileRows] at h
    split at h
    · cases h; rfl
    · rename_i r0 rest heq
      rw [heq] at hs1
      split at h
      · cases h
        simp only [leavesOK]
        exact bindsOK_of_sep _ (hs1 r0 (by simp)).2
      · split at h
        · cases h
        · rename_i bvt hbvt
          split at h
          · cases h
          · rename_i pl hpl
            split at h
            · cases h
            · cases h
            · rename_i q hq
              cases h
              have hsub := plan_sep S hgen hpl hs1
              apply leavesOK_build
              exact compileSeq_leaves pl.subs pl.n1 q.1 q.2
                (fun sub hsubm m t m' hc => ih pl.subTy m sub t m' hc (hsub sub hsubm)) hq

end Goml.Match
