import GomlVerif.Lemmas.C06Sound
/-!
Helper lemmas for `Props/C06.lean`, part 3: the literal switch (unit, bool, integer, string cases).
-/
namespace Goml.Match
open Goml Goml.Sem

variable {β : Type}

/-- pointwise relation of two lists of the same length -/
inductive All2 {α γ : Type} (R : α → γ → Prop) : List α → List γ → Prop where
  | nil : All2 R [] []
  | cons {a : α} {b : γ} {as : List α} {bs : List γ} : R a b → All2 R as bs → All2 R (a :: as) (b :: bs)

def SoundAt (S : Sig) (n n' : Nat) (rows : List (Row β)) (t : DT β) : Prop :=
  leavesOK t = true → ∀ ρ, Inv S n ρ rows → Sound S.gen n n' ρ rows t

/-- `r'` tests a subset of the columns of `r` and is otherwise the same row -/
def RowSub (r' r : Row β) : Prop :=
  r'.body = r.body ∧ r'.binds = r.binds ∧ ∀ c ∈ r'.cols, c ∈ r.cols

theorem RowSub.fresh {g : Nat → String} {n : Nat} {r' r : Row β} (h : RowSub r' r) (hf : RowFresh g n r) :
    RowFresh g n r' :=
  ⟨fun c hc => hf.1 c (h.2.2 c hc), fun b hb => hf.2 b (h.2.1 ▸ hb)⟩

theorem RowSub.conf {S : Sig} {ρ : Env} {r' r : Row β} (h : RowSub r' r) (hc : RowConf S ρ r) :
    RowConf S ρ r' := fun c hcm => hc c (h.2.2 c hcm)

theorem Inv_filterMapE_sub {S : Sig} {n : Nat} {ρ : Env} (f : Row β → M (Option (Row β)))
    (rows rows' : List (Row β)) (h : filterMapE f rows = .ok rows')
    (hsub : ∀ r r', f r = .ok (some r') → RowSub r' r) (hinv : Inv S n ρ rows) : Inv S n ρ rows' := by
  intro r' hr'
  obtain ⟨r, hr, hf⟩ := (filterMapE_mem f rows rows' h).1 r' hr'
  have hs := hsub r r' hf
  exact ⟨hs.fresh (hinv r hr).1, hs.conf (hinv r hr).2⟩

def OkUnique (okP : Prim → Bool) : Prop :=
  ∀ p k v, okP p = true → okP k = true → litMatches p v = true → litMatches k v = true → p = k

theorem okUnique_unit : OkUnique isUnitP := by
  intro p k v hp hk _ _
  cases p <;> cases k <;> simp_all [isUnitP]

theorem okUnique_bool : OkUnique isBoolP := by
  intro p k v hp hk h1 h2
  cases p <;> cases k <;> simp_all [isBoolP]
  cases v <;> simp_all [litMatches, valEq, primVal]

theorem okUnique_int (b : Nat) (s : Bool) : OkUnique (isIntP b s) := by
  intro p k v hp hk h1 h2
  cases p <;> cases k <;> simp_all [isIntP]
  cases v <;> simp_all [litMatches, valEq, primVal]

theorem okUnique_str : OkUnique isStrP := by
  intro p k v hp hk h1 h2
  cases p <;> cases k <;> simp_all [isStrP]
  cases v <;> simp_all [litMatches, valEq, primVal]

theorem armMatches_lit (k : Prim) (v : Val) : armMatches (Head.lit k).toExpr v = litMatches k v := by
  cases v <;> rfl

theorem rowMatch_removeCol (ρ : Env) (r : Row β) (x : String) (p : Pat) (cs : List (String × Pat))
    (h : removeCol x r.cols = some (p, cs)) :
    OEq (rowMatch ρ r)
      (oapp (matchPat p (lookupVar ρ x)) (rowMatch ρ { r with cols := cs })) := by
  simp only [rowMatch]
  exact (oapp_congr (OEq.refl _) ((removeCol_some h).2.2 ρ)).trans (oapp_left_comm _ _ _)

theorem specLit_sub {okP : Prim → Bool} {bv : String} {k : Prim} {r r' : Row β}
    (h : specLit okP bv k r = .ok (some r')) : RowSub r' r := by
  unfold specLit at h
  split at h
  · cases h; exact ⟨rfl, rfl, fun _ hc => hc⟩
  · rename_i p t cs hr
    split at h
    · split at h
      · cases h
        exact ⟨rfl, rfl, (removeCol_some hr).2.1⟩
      · cases h
    · cases h
  · cases h

theorem specLit_row {okP : Prim → Bool} (hu : OkUnique okP) {bv : String} {k : Prim} {ρ : Env}
    (hk : okP k = true) (hkv : litMatches k (lookupVar ρ bv) = true)
    (r : Row β) (o : Option (Row β)) (h : specLit okP bv k r = .ok o) :
    RowStep ρ ρ r o := by
  unfold specLit at h
  split at h
  · cases h; exact ⟨rfl, OEq.refl _⟩
  · rename_i p t cs hr
    have hm := rowMatch_removeCol ρ r bv _ cs hr
    split at h
    · rename_i hp
      by_cases hpk : p = k
      · subst hpk
        simp only [if_true] at h
        cases h
        refine ⟨rfl, ?_⟩
        simp only [matchPat, hkv, if_true, oapp_nil_left] at hm
        exact hm.symm
      · simp only [hpk, if_false] at h
        cases h
        have hnm : litMatches p (lookupVar ρ bv) = false := by
          cases hl : litMatches p (lookupVar ρ bv)
          · rfl
          · exact absurd (hu p k _ hp hk hl hkv) hpk
        simp only [matchPat, hnm] at hm
        exact (OEq.none_iff hm).mpr rfl
    · cases h
  · cases h

theorem specDflt_sub {okP : Prim → Bool} {bv : String} {r r' : Row β}
    (h : specDflt okP bv r = .ok (some r')) : RowSub r' r := by
  unfold specDflt at h
  split at h
  · cases h; exact ⟨rfl, rfl, fun _ hc => hc⟩
  · split at h <;> cases h
  · cases h

theorem specDflt_row {okP : Prim → Bool} {bv : String} {ρ : Env}
    (r : Row β) (o : Option (Row β)) (h : specDflt okP bv r = .ok o)
    (hno : ∀ p t cs, removeCol bv r.cols = some (.prim p t, cs) → litMatches p (lookupVar ρ bv) = false) :
    RowStep ρ ρ r o := by
  unfold specDflt at h
  split at h
  · cases h; exact ⟨rfl, OEq.refl _⟩
  · rename_i p t cs hr
    have hm := rowMatch_removeCol ρ r bv _ cs hr
    split at h
    · cases h
      simp only [matchPat, hno p t cs hr, oapp_none_left] at hm
      exact (OEq.none_iff hm).mpr rfl
    · cases h
  · cases h

theorem litCases_sound (S : Sig) {okP : Prim → Bool} (hu : OkUnique okP) {bv : String} {n n' : Nat}
    {rows : List (Row β)} {ρ : Env} (hinv : Inv S n ρ rows) (dflt : Bool)
    (dsub : List (List (Row β)))
    (hd1 : dflt = true → ∃ d, dsub = [d] ∧ filterMapE (specDflt okP bv) rows = .ok d)
    (hd2 : dflt = false → dsub = []) :
    ∀ (keys : List Prim) (subs : List (List (Row β))) (ts : List (DT β)),
      (∀ k ∈ keys, okP k = true) →
      All2 (fun k s => filterMapE (specLit okP bv k) rows = .ok s) keys subs →
      All2 (SoundAt S n n') (subs ++ dsub) ts →
      (∀ r ∈ rows, ∀ p t cs, removeCol bv r.cols = some (.prim p t, cs) → p ∉ keys →
        litMatches p (lookupVar ρ bv) = false) →
      (dflt = false → ∃ k ∈ keys, litMatches k (lookupVar ρ bv) = true) →
      casesOK (litCases keys ts dflt) = true →
      SoundR S.gen n n' ρ rows ((litCases keys ts dflt).eval (lookupVar ρ bv) ρ) := by
  intro keys
  induction keys with
  | nil =>
    intro subs ts _ hks hts hno hcov hok
    cases hks
    cases dflt with
    | false =>
      obtain ⟨k, hk, _⟩ := hcov rfl
      cases hk
    | true =>
      obtain ⟨d, hd, hfd⟩ := hd1 rfl
      subst hd
      simp only [List.nil_append] at hts
      cases hts with
      | cons ht hrest =>
        cases hrest
        rename_i t
        simp only [litCases, casesOK] at hok
        simp only [litCases, Cases.eval]
        have hinvd : Inv S n ρ d :=
          Inv_filterMapE_sub _ rows d hfd (fun r r' h => specDflt_sub h) hinv
        refine SoundR.of_spec (ht hok ρ hinvd) ?_
        apply firstMatch_filterMapE ρ ρ _ rows d hfd
        intro r hr o ho
        exact specDflt_row r o ho (fun p t cs hrc => hno r hr p t cs hrc (by simp))
  | cons k keys ih =>
    intro subs ts hokp hks hts hno hcov hok
    cases hks with
    | cons hs hks' =>
      rename_i s subs'
      simp only [List.cons_append] at hts
      cases hts with
      | cons ht hts' =>
        rename_i t ts'
        simp only [litCases, casesOK, Bool.and_eq_true] at hok
        simp only [litCases, Cases.eval, armMatches_lit]
        by_cases hkv : litMatches k (lookupVar ρ bv) = true
        · simp only [hkv, if_true]
          have hinvs : Inv S n ρ s :=
            Inv_filterMapE_sub _ rows s hs (fun r r' h => specLit_sub h) hinv
          refine SoundR.of_spec (ht hok.1 ρ hinvs) ?_
          apply firstMatch_filterMapE ρ ρ _ rows s hs
          intro r _ o ho
          exact specLit_row hu (hokp k (by simp)) hkv r o ho
        · have hkv' : litMatches k (lookupVar ρ bv) = false := by
            cases h : litMatches k (lookupVar ρ bv) <;> simp_all
          simp only [hkv', Bool.false_eq_true, if_false]
          apply ih subs' ts' (fun k' hk' => hokp k' (by simp [hk'])) hks' hts'
          · intro r hr p t cs hrc hp
            by_cases hpk : p = k
            · subst hpk; exact hkv'
            · exact hno r hr p t cs hrc (by simp [hpk, hp])
          · intro hd
            obtain ⟨k', hk', hm⟩ := hcov hd
            rcases List.mem_cons.mp hk' with rfl | hk'
            · rw [hkv'] at hm; cases hm
            · exact ⟨k', hk', hm⟩
          · exact hok.2

end Goml.Match
