import GomlVerif.Lemmas.C06Shapes
/-!
Helper lemmas for `Props/C06.lean`, part 6: `branch_variable`, `plan`, and the induction over
`compile_rows`.
-/
namespace Goml.Match
open Goml Goml.Sem

variable {β : Type}

/-! ### `branch_variable` -/

theorem foldl_max_mem (f : String → Nat) : ∀ (xs : List String) (acc : String),
    xs.foldl (fun acc y => if f acc > f y then acc else y) acc ∈ acc :: xs := by
  intro xs
  induction xs with
  | nil => intro acc; simp
  | cons x xs ih =>
    intro acc
    simp only [List.foldl_cons]
    have := ih (if f acc > f x then acc else x)
    rcases List.mem_cons.mp this with h | h
    · rw [h]; split <;> simp
    · simp [h]

theorem lastMaxBy_mem {f : String → Nat} {l : List String} {x : String} (h : lastMaxBy f l = some x) :
    x ∈ l := by
  cases l with
  | nil => simp [lastMaxBy] at h
  | cons a as =>
    simp only [lastMaxBy, Option.some.injEq] at h
    rw [← h]
    exact foldl_max_mem f as a

theorem colTy_spec (x : String) : ∀ (cols : List (String × Pat)) (acc : Option Ty) (t : Ty),
    colTy x cols acc = some t → acc = some t ∨ ∃ p, (x, p) ∈ cols ∧ p.ty = t := by
  intro cols
  induction cols with
  | nil => intro acc t h; exact Or.inl h
  | cons c cs ih =>
    intro acc t h
    simp only [colTy] at h
    rcases ih _ t h with h' | ⟨p, hp, ht⟩
    · split at h'
      · rename_i hc
        right
        refine ⟨c.2, ?_, by simpa using h'⟩
        rw [← hc]; simp
      · exact Or.inl h'
    · exact Or.inr ⟨p, by simp [hp], ht⟩

theorem branchVar_spec {r0 : Row β} {rest : List (Row β)} {bv : String} {bty : Ty}
    (h : branchVar (r0 :: rest) = some (bv, bty)) :
    (∃ p, (bv, p) ∈ r0.cols) ∧ ∃ r ∈ r0 :: rest, ∃ p, (bv, p) ∈ r.cols ∧ p.ty = bty := by
  simp only [branchVar] at h
  split at h
  · cases h
  · rename_i x hx
    split at h
    · rename_i t ht
      cases h
      constructor
      · have := lastMaxBy_mem hx
        obtain ⟨c, hc, rfl⟩ := List.mem_map.mp this
        exact ⟨c.2, hc⟩
      · rcases colTy_spec _ _ _ _ ht with h' | ⟨p, hp, hpt⟩
        · cases h'
        · simp only [allCols, List.mem_flatMap] at hp
          obtain ⟨r, hr, hpr⟩ := hp
          exact ⟨r, hr, p, hpr, hpt⟩
    · cases h

theorem removeCol_of_mem {x : String} {p : Pat} : ∀ {cols : List (String × Pat)}, (x, p) ∈ cols →
    ∃ q cs, removeCol x cols = some (q, cs) := by
  intro cols
  induction cols with
  | nil => intro h; cases h
  | cons c cs ih =>
    intro h
    simp only [removeCol]
    split
    · exact ⟨_, _, rfl⟩
    · rename_i hne
      rcases List.mem_cons.mp h with h | h
      · exact absurd (by rw [← h]) hne
      · obtain ⟨q, cs', e⟩ := ih h
        rw [e]
        exact ⟨_, _, rfl⟩

/-! ### `Good`: what the induction over `compile_rows` carries -/

def Good (S : Sig) (rec : Nat → List (Row β) → Option (M (DT β × Nat))) : Prop :=
  ∀ n rows t n', rec n rows = some (.ok (t, n')) → n ≤ n' ∧ SoundAt S n n' rows t

theorem SoundAt.mono {S : Sig} {a b a' b' : Nat} {rows : List (Row β)} {t : DT β}
    (h : SoundAt S a b rows t) (ha : a' ≤ a) (hb : b ≤ b') : SoundAt S a' b' rows t :=
  fun hok ρ hinv => SoundR.mono (h hok ρ (hinv.mono ha)) ha hb

theorem All2.imp {α γ : Type} {R R' : α → γ → Prop} (h : ∀ a b, R a b → R' a b) :
    ∀ {l : List α} {l' : List γ}, All2 R l l' → All2 R' l l' := by
  intro l l' hl
  induction hl with
  | nil => exact .nil
  | cons hab _ ih => exact .cons (h _ _ hab) ih

theorem compileSeq_good {S : Sig} {rec : Nat → List (Row β) → Option (M (DT β × Nat))} (hrec : Good S rec) :
    ∀ (subs : List (List (Row β))) (n : Nat) (ts : List (DT β)) (n' : Nat),
      compileSeq rec n subs = some (.ok (ts, n')) → n ≤ n' ∧ All2 (SoundAt S n n') subs ts := by
  intro subs
  induction subs with
  | nil =>
    intro n ts n' h
    simp only [compileSeq] at h
    cases h
    exact ⟨Nat.le_refl _, .nil⟩
  | cons rs rest ih =>
    intro n ts n' h
    simp only [compileSeq] at h
    split at h
    · cases h
    · cases h
    · rename_i r hr
      split at h
      · cases h
      · cases h
      · rename_i q hq
        cases h
        obtain ⟨h1, h2⟩ := hrec n rs r.1 r.2 hr
        obtain ⟨h3, h4⟩ := ih r.2 q.1 q.2 hq
        refine ⟨by omega, .cons (h2.mono (Nat.le_refl _) h3) ?_⟩
        exact All2.imp (fun a b hab => hab.mono h1 (Nat.le_refl _)) h4

theorem mapE_all2 {α γ : Type} (f : α → M γ) : ∀ (l : List α) (l' : List γ), mapE f l = .ok l' →
    All2 (fun a b => f a = .ok b) l l' := by
  intro l
  induction l with
  | nil => intro l' h; simp only [mapE] at h; cases h; exact .nil
  | cons a as ih =>
    intro l' h
    simp only [mapE] at h
    split at h
    · cases h
    · rename_i b hb
      split at h
      · cases h
      · rename_i rest hrest
        cases h
        exact .cons hb (ih rest hrest)

theorem All2.append_left {α γ : Type} {R : α → γ → Prop} :
    ∀ {l1 l2 : List α} {l' : List γ}, All2 R (l1 ++ l2) l' →
      ∃ a b, l' = a ++ b ∧ All2 R l1 a ∧ All2 R l2 b := by
  intro l1
  induction l1 with
  | nil => intro l2 l' h; exact ⟨[], l', rfl, .nil, h⟩
  | cons x xs ih =>
    intro l2 l' h
    cases h with
    | cons hab hrest =>
      obtain ⟨a, b, e, h1, h2⟩ := ih hrest
      exact ⟨_ :: a, b, by simp [e], .cons hab h1, h2⟩

/-! ### literal plans -/

theorem litKeys_spec {okP : Prim → Bool} {bv : String} : ∀ (rows : List (Row β)) (keys : List Prim),
    litKeys okP bv rows = .ok keys →
    (∀ k ∈ keys, okP k = true) ∧
    (∀ r ∈ rows, ∀ p t cs, removeCol bv r.cols = some (.prim p t, cs) → p ∈ keys) := by
  intro rows
  induction rows with
  | nil => intro keys h; simp only [litKeys] at h; cases h; simp
  | cons r rs ih =>
    intro keys h
    simp only [litKeys] at h
    split at h
    · cases h
    · rename_i ks hks
      obtain ⟨i1, i2⟩ := ih ks hks
      split at h
      · rename_i hr
        cases h
        refine ⟨i1, ?_⟩
        intro r' hr' p t cs hrc
        rcases List.mem_cons.mp hr' with rfl | hr'
        · rw [hr] at hrc; cases hrc
        · exact i2 r' hr' p t cs hrc
      · rename_i p0 t0 cs0 hr
        split at h
        · rename_i hp0
          cases h
          constructor
          · intro k hk
            rcases List.mem_cons.mp hk with rfl | hk
            · exact hp0
            · exact i1 k (List.mem_filter.mp hk).1
          · intro r' hr' p t cs hrc
            rcases List.mem_cons.mp hr' with rfl | hr'
            · rw [hr] at hrc; cases hrc; simp
            · have := i2 r' hr' p t cs hrc
              by_cases hpp : p = p0
              · simp [hpp]
              · exact List.mem_cons_of_mem _ (List.mem_filter.mpr ⟨this, by simpa using hpp⟩)
        · cases h
      · cases h

theorem specLit_okP {okP : Prim → Bool} {bv : String} {k : Prim} {r : Row β} {o : Option (Row β)}
    (h : specLit okP bv k r = .ok o) {q : Pat} {cs : List (String × Pat)}
    (hr : removeCol bv r.cols = some (q, cs)) : ∃ p t, q = .prim p t ∧ okP p = true := by
  unfold specLit at h
  rw [hr] at h
  split at h
  · rename_i heq; cases heq
  · rename_i p t cs' heq
    cases heq
    split at h
    · rename_i hp; exact ⟨p, t, rfl, hp⟩
    · cases h
  · cases h

theorem specDflt_okP {okP : Prim → Bool} {bv : String} {r : Row β} {o : Option (Row β)}
    (h : specDflt okP bv r = .ok o) {q : Pat} {cs : List (String × Pat)}
    (hr : removeCol bv r.cols = some (q, cs)) : ∃ p t, q = .prim p t ∧ okP p = true := by
  unfold specDflt at h
  rw [hr] at h
  split at h
  · rename_i heq; cases heq
  · rename_i p t cs' heq
    cases heq
    split at h
    · rename_i hp; exact ⟨p, t, rfl, hp⟩
    · cases h
  · cases h

theorem litPlan_sound (S : Sig) {okP : Prim → Bool} (hu : OkUnique okP) {n : Nat} {bv : String}
    {subTy : Ty} {keys : List Prim} {dflt : Bool} {rows : List (Row β)} {pl : Plan β}
    (hpl : litPlan okP n bv subTy keys dflt rows = .ok pl) (hkeys : ∀ k ∈ keys, okP k = true)
    (hcomplete : ∀ r ∈ rows, ∀ p t cs, removeCol bv r.cols = some (.prim p t, cs) → p ∈ keys) :
    pl.n1 = n ∧ ∀ n' ts, All2 (SoundAt S n n') pl.subs ts → ∀ bodyTy bty,
      leavesOK (build bodyTy bv bty pl.shape ts) = true → ∀ ρ, Inv S n ρ rows →
      (dflt = false → ∃ k ∈ keys, litMatches k (lookupVar ρ bv) = true) →
      SoundR S.gen n n' ρ rows ((build bodyTy bv bty pl.shape ts).eval ρ) := by
  unfold litPlan at hpl
  split at hpl
  · cases hpl
  · rename_i subs hsubs
    have hks := mapE_all2 _ keys subs hsubs
    have hno : ∀ ρ : Env, ∀ r ∈ rows, ∀ p t cs, removeCol bv r.cols = some (.prim p t, cs) → p ∉ keys →
        litMatches p (lookupVar ρ bv) = false :=
      fun ρ r hr p t cs hrc hp => absurd (hcomplete r hr p t cs hrc) hp
    cases dflt with
    | true =>
      simp only [if_true] at hpl
      split at hpl
      · cases hpl
      · rename_i d hd
        cases hpl
        refine ⟨rfl, ?_⟩
        intro n' ts hts bodyTy bty hok ρ hinv hcov
        simp only [build, leavesOK] at hok
        simp only [build, DT.eval]
        exact litCases_sound S hu hinv true [d] (fun _ => ⟨d, rfl, hd⟩) (fun h => by cases h)
          keys subs ts hkeys hks hts (hno ρ) hcov hok
    | false =>
      simp only [Bool.false_eq_true, if_false] at hpl
      cases hpl
      refine ⟨rfl, ?_⟩
      intro n' ts hts bodyTy bty hok ρ hinv hcov
      simp only [build, leavesOK] at hok
      simp only [build, DT.eval]
      exact litCases_sound S hu hinv false [] (fun h => by cases h) (fun _ => rfl)
        keys subs ts hkeys hks (by simpa using hts) (hno ρ) hcov hok

theorem litPlan_rows_ok {okP : Prim → Bool} {n : Nat} {bv : String} {subTy : Ty} {k : Prim}
    {keys : List Prim} {dflt : Bool} {rows : List (Row β)} {pl : Plan β}
    (hpl : litPlan okP n bv subTy (k :: keys) dflt rows = .ok pl) :
    ∀ r ∈ rows, ∃ o, specLit okP bv k r = .ok o := by
  unfold litPlan at hpl
  split at hpl
  · cases hpl
  · rename_i subs hsubs
    simp only [mapE] at hsubs
    split at hsubs
    · cases hsubs
    · rename_i s hs
      exact (filterMapE_mem _ rows s hs).2

/-! ### value shapes from `conf` -/

theorem conf_prim_val {S : Sig} {p : Prim} {t : Ty} {v : Val} (h : conf S (.prim p t) v = true) :
    (valEq (primVal p) v).isSome = true := by simpa [conf] using h

theorem conf_enum_isEnumV {S : Sig} {a b : String} {i : Nat} {args : List Pat} {ty : Ty} {v : Val}
    (h : conf S (.constr (.enum a b i) args ty) v = true) : ∃ tn i' vs, v = .enumV tn i' vs := by
  cases v <;> simp [conf] at h
  exact ⟨_, _, _, rfl⟩

theorem enumName_of_kind {bty : Ty} {name : String} {targs : List Ty} (h : kindOf bty = .enumK name targs) :
    enumName bty = some name := by
  cases bty <;> simp [kindOf] at h
  · rename_i n; simp [enumName, h.1]
  · rename_i t args
    cases t <;> simp [kindOf] at h
    rename_i n; simp [enumName, h.1]

theorem structName_of_kind {bty : Ty} {name : String} {targs : List Ty} (h : kindOf bty = .structK name targs) :
    structName bty = some name := by
  cases bty <;> simp [kindOf] at h
  · rename_i n; simp [structName, h.1]
  · rename_i t args
    cases t <;> simp [kindOf] at h
    rename_i n; simp [structName, h.1]

theorem tuple_of_kind {bty : Ty} {typs : List Ty} (h : kindOf bty = .tupleK typs) : bty = .tuple typs := by
  cases bty <;> simp [kindOf] at h
  · rw [h]
  · rename_i t args
    cases t <;> simp [kindOf] at h

theorem conf_enumV_arity {S : Sig} {p : Pat} {tn : String} {i : Nat} {vs : List Val} {name : String}
    {d : EnumDef} (h : conf S p (.enumV tn i vs) = true) (hnv : isVarOrWild p = false)
    (hname : enumName p.ty = some name) (hd : findEnum S name = some d) :
    ∃ vr, d.variants[i]? = some vr ∧ vr.2.length = vs.length := by
  cases p with
  | wild t => simp [isVarOrWild] at hnv
  | var x t => simp [isVarOrWild] at hnv
  | prim q t => cases q <;> simp [conf, valEq, primVal] at h
  | tuple ps t => simp [conf] at h
  | constr c ps t =>
    simp only [Pat.ty] at hname
    cases c with
    | struct sn => simp [conf] at h
    | enum a b idx =>
      simp only [conf, hname, Option.bind_some, hd] at h
      split at h
      · rename_i vr hvr
        simp only [Bool.and_eq_true, decide_eq_true_eq] at h
        exact ⟨vr, hvr, h.1⟩
      · simp at h

theorem specEnum_pat {bv : String} {nv idx : Nat} {names : List String} {r : Row β} {o : Option (Row β)}
    (h : specEnum bv nv idx names r = .ok o) {q : Pat} {cs : List (String × Pat)}
    (hr : removeCol bv r.cols = some (q, cs)) : ∃ a b i args ty, q = .constr (.enum a b i) args ty := by
  unfold specEnum at h
  rw [hr] at h
  split at h
  · rename_i heq; cases heq
  · rename_i a b i args ty cs' heq
    cases heq
    exact ⟨a, b, i, args, ty, rfl⟩
  · cases h
  · cases h

theorem expandTuple_pat {bv : String} {names : List String} : ∀ {cols cols' : List (String × Pat)},
    expandTuple bv names cols = .ok cols' → ∀ q, (bv, q) ∈ cols → ∃ items ty, q = .tuple items ty := by
  intro cols
  induction cols with
  | nil => intro _ _ q hq; cases hq
  | cons c cs ih =>
    intro cols' h q hq
    simp only [expandTuple] at h
    split at h
    · cases h
    · rename_i rest hrest
      rcases List.mem_cons.mp hq with hq | hq
      · subst hq
        cases q with
        | tuple items ty => exact ⟨items, ty, rfl⟩
        | _ => simp at h
      · exact ih hrest q hq

theorem expandStruct_pat {bv : String} {names : List String} : ∀ {cols cols' : List (String × Pat)},
    expandStruct bv names cols = .ok cols' → ∀ q, (bv, q) ∈ cols →
      ∃ sn args ty, q = .constr (.struct sn) args ty := by
  intro cols
  induction cols with
  | nil => intro _ _ q hq; cases hq
  | cons c cs ih =>
    intro cols' h q hq
    simp only [expandStruct] at h
    split at h
    · cases h
    · rename_i rest hrest
      rcases List.mem_cons.mp hq with hq | hq
      · subst hq
        cases q with
        | constr c args ty =>
          cases c with
          | struct sn => exact ⟨sn, args, ty, rfl⟩
          | enum a b i => simp at h
        | _ => simp at h
      · exact ih hrest q hq

theorem all2_singleton {α γ : Type} {R : α → γ → Prop} {a : α} {l : List γ} (h : All2 R [a] l) :
    ∃ b, l = [b] ∧ R a b := by
  cases h with
  | cons hab hrest => cases hrest; exact ⟨_, rfl, hab⟩

/-! ### `plan` -/

theorem plan_sound (S : Sig) (hinj : ∀ i j, S.gen i = S.gen j → i = j) {n : Nat} {bv : String}
    {bty ty : Ty} {r0 : Row β} {rest : List (Row β)} {pl : Plan β}
    (hplan : plan S n bv bty ty (r0 :: rest) = .ok pl)
    (hbv : ∃ p, (bv, p) ∈ r0.cols)
    (hbty : ∃ r ∈ r0 :: rest, ∃ p, (bv, p) ∈ r.cols ∧ p.ty = bty)
    (hnv : ∀ r ∈ r0 :: rest, ∀ c ∈ r.cols, isVarOrWild c.2 = false) :
    n ≤ pl.n1 ∧ ∀ n' ts, pl.n1 ≤ n' → All2 (SoundAt S pl.n1 n') pl.subs ts → ∀ bodyTy,
      leavesOK (build bodyTy bv bty pl.shape ts) = true → ∀ ρ, Inv S n ρ (r0 :: rest) →
      SoundR S.gen n n' ρ (r0 :: rest) ((build bodyTy bv bty pl.shape ts).eval ρ) := by
  obtain ⟨p0, hp0⟩ := hbv
  obtain ⟨q0, cs0, hq0⟩ := removeCol_of_mem hp0
  have hq0mem := (removeCol_some hq0).1
  have hfreshbv : ∀ ρ, Inv S n ρ (r0 :: rest) → ∀ j, n ≤ j → S.gen j ≠ bv :=
    fun ρ hinv j hj => (hinv r0 (by simp)).1.1 _ hp0 j hj
  -- shared by the unit and bool cases: the value is one of the fixed keys
  have litcase : ∀ (okP : Prim → Bool) (k : Prim) (keys : List Prim) (subTy : Ty), OkUnique okP →
      litPlan okP n bv subTy (k :: keys) false (r0 :: rest) = .ok pl →
      (∀ k' ∈ k :: keys, okP k' = true) → (∀ p, okP p = true → p ∈ k :: keys) →
      (∀ p v, okP p = true → (valEq (primVal p) v).isSome = true →
        ∃ k' ∈ k :: keys, litMatches k' v = true) →
      n ≤ pl.n1 ∧ ∀ n' ts, pl.n1 ≤ n' → All2 (SoundAt S pl.n1 n') pl.subs ts → ∀ bodyTy,
        leavesOK (build bodyTy bv bty pl.shape ts) = true → ∀ ρ, Inv S n ρ (r0 :: rest) →
        SoundR S.gen n n' ρ (r0 :: rest) ((build bodyTy bv bty pl.shape ts).eval ρ) := by
    intro okP k keys subTy hu hpl hkeys hall hcovv
    have hrows := litPlan_rows_ok hpl
    obtain ⟨e, hs⟩ := litPlan_sound S hu hpl hkeys (by
      intro r hr p t cs hrc
      obtain ⟨o, ho⟩ := hrows r hr
      obtain ⟨p', t', he, hp'⟩ := specLit_okP ho hrc
      cases he
      exact hall p hp')
    refine ⟨by omega, ?_⟩
    intro n' ts _ hts bodyTy hok ρ hinv
    rw [e] at hts
    refine hs n' ts hts bodyTy bty hok ρ hinv (fun _ => ?_)
    obtain ⟨o, ho⟩ := hrows r0 (by simp)
    obtain ⟨p', t', he, hp'⟩ := specLit_okP ho hq0
    subst he
    exact hcovv p' _ hp' (conf_prim_val ((hinv r0 (by simp)).2 _ hq0mem))
  unfold plan at hplan
  split at hplan
  · cases hplan
  · -- unit
    refine litcase isUnitP .unit [] bty okUnique_unit hplan (by simp [isUnitP]) ?_ ?_
    · intro p hp; cases p <;> simp_all [isUnitP]
    · intro p v hp hv
      cases p <;> simp [isUnitP] at hp
      cases v <;> simp [valEq, primVal] at hv
      exact ⟨.unit, by simp, rfl⟩
  · -- bool
    refine litcase isBoolP (.bool true) [.bool false] bty okUnique_bool hplan ?_ ?_ ?_
    · intro k hk; simp at hk; rcases hk with rfl | rfl <;> rfl
    · intro p hp; cases p <;> simp [isBoolP] at hp
      rename_i b; cases b <;> simp
    · intro p v hp hv
      cases p <;> simp [isBoolP] at hp
      cases v <;> simp [valEq, primVal] at hv
      rename_i b c
      refine ⟨.bool c, by cases c <;> simp, ?_⟩
      simp [litMatches, valEq, primVal]
  · -- int
    rename_i b s _
    split at hplan
    · cases hplan
    · rename_i keys hkeys
      obtain ⟨k1, k2⟩ := litKeys_spec _ keys hkeys
      split at hplan
      · cases hplan
      · cases hplan
      · obtain ⟨e, hs⟩ := litPlan_sound S (okUnique_int b s) hplan k1 k2
        refine ⟨by omega, ?_⟩
        intro n' ts _ hts bodyTy hok ρ hinv
        rw [e] at hts
        exact hs n' ts hts bodyTy bty hok ρ hinv (fun h => by cases h)
  · -- string
    split at hplan
    · cases hplan
    · rename_i keys hkeys
      obtain ⟨k1, k2⟩ := litKeys_spec _ keys hkeys
      obtain ⟨e, hs⟩ := litPlan_sound S okUnique_str hplan k1 k2
      refine ⟨by omega, ?_⟩
      intro n' ts _ hts bodyTy hok ρ hinv
      rw [e] at hts
      exact hs n' ts hts bodyTy bty hok ρ hinv (fun h => by cases h)
  · -- enum
    rename_i name targs hkind
    split at hplan
    · cases hplan
    · rename_i d hd
      split at hplan
      · cases hplan
      · rename_i hne
        dsimp only at hplan
        split at hplan
        · cases hplan
        · rename_i subs hsubs
          cases hplan
          refine ⟨enumHeads_ge _ _ _ _ _ _, ?_⟩
          intro n' ts hn' hts bodyTy hok ρ hinv
          simp only [build, leavesOK] at hok
          simp only [build, DT.eval]
          -- row 0's pattern on `bv` is an enum constructor, so the value is an enum value
          have hq : ∃ a b i args tyq, q0 = .constr (.enum a b i) args tyq := by
            cases hv : d.variants with
            | nil => simp [hv] at hne
            | cons v0 vrest =>
              rw [hv] at hsubs
              simp only [enumHeads, enumSubs] at hsubs
              split at hsubs
              · cases hsubs
              · rename_i s hs
                obtain ⟨o, ho⟩ := (filterMapE_mem _ _ s hs).2 r0 (by simp)
                exact specEnum_pat ho hq0
          obtain ⟨a, b, i0, args, tyq, rfl⟩ := hq
          obtain ⟨tn, i, vs, hv⟩ := conf_enum_isEnumV ((hinv r0 (by simp)).2 _ hq0mem)
          simp only at hv
          obtain ⟨r, hr, ps, hps, hpty⟩ := hbty
          have hcp := (hinv r hr).2 _ hps
          simp only [hv] at hcp
          obtain ⟨vr, hvr1, hvr2⟩ := conf_enumV_arity hcp (hnv r hr _ hps)
            (by rw [hpty]; exact enumName_of_kind hkind) hd
          rw [hv]
          exact enumCases_sound S hinj hinv hv (hfreshbv ρ hinv) d.variants.length hn'
            d.variants n 0 subs ts (Nat.le_refl _) (Nat.le_refl _) hsubs hts (Nat.zero_le _)
            ⟨vr, by simpa using hvr1, hvr2⟩ hok
  · -- struct
    rename_i name targs hkind
    split at hplan
    · cases hplan
    · rename_i d hd
      split at hplan
      · cases hplan
      · dsimp only at hplan
        split at hplan
        · cases hplan
        · rename_i s hs
          cases hplan
          refine ⟨by simp, ?_⟩
          intro n' ts hn' hts bodyTy hok ρ hinv
          obtain ⟨t, rfl, ht⟩ := all2_singleton hts
          simp only [build, leavesOK] at hok ⊢
          obtain ⟨r, hr, ps, hps, hpty⟩ := hbty
          obtain ⟨o, ho⟩ := (filterMapE_mem _ _ s hs).2 r hr
          have hpat : ∃ sn args ty', ps = .constr (.struct sn) args ty' := by
            unfold specStruct at ho
            split at ho
            · cases ho
            · rename_i cs hcs; exact expandStruct_pat hcs ps hps
          obtain ⟨sn, args, ty', rfl⟩ := hpat
          have hcp := (hinv r hr).2 _ hps
          simp only [Pat.ty] at hpty
          subst hpty
          have hvs : ∃ tn vs, lookupVar ρ bv = .structV tn vs ∧ d.fields.length = vs.length := by
            generalize lookupVar ρ bv = v at hcp
            cases v <;> simp [conf] at hcp
            rename_i tn vs
            simp only [structName_of_kind hkind, Option.bind_some, hd, Bool.and_eq_true,
              decide_eq_true_eq] at hcp
            exact ⟨tn, vs, rfl, hcp.1.1⟩
          obtain ⟨tn, vs, hv, hlen⟩ := hvs
          have hlk : leavesOK t = true := by
            clear ht
            generalize (genNames S.gen n d.fields.length).zip _ = vars at hok
            generalize (0 : Nat) = z at hok
            induction vars generalizing z with
            | nil => simpa [wrapGet] using hok
            | cons x xs ihx => simp only [wrapGet, leavesOK] at hok; exact ihx _ hok
          exact struct_sound S hinj hinv hs hv hlen (by rw [substTys_length, List.length_map])
            (hfreshbv ρ hinv) ht hn' hlk
  · -- tuple
    rename_i typs hkind
    dsimp only at hplan
    split at hplan
    · cases hplan
    · rename_i s hs
      cases hplan
      refine ⟨by simp, ?_⟩
      intro n' ts hn' hts bodyTy hok ρ hinv
      obtain ⟨t, rfl, ht⟩ := all2_singleton hts
      simp only [build, leavesOK] at hok ⊢
      obtain ⟨r, hr, ps, hps, hpty⟩ := hbty
      obtain ⟨o, ho⟩ := (filterMapE_mem _ _ s hs).2 r hr
      have hpat : ∃ items ty', ps = .tuple items ty' := by
        unfold specTuple at ho
        split at ho
        · cases ho
        · rename_i cs hcs; exact expandTuple_pat hcs ps hps
      obtain ⟨items, ty', rfl⟩ := hpat
      have hcp := (hinv r hr).2 _ hps
      simp only [Pat.ty] at hpty
      rw [tuple_of_kind hkind] at hpty
      subst hpty
      have hvs : ∃ vs, lookupVar ρ bv = .tuple vs ∧ typs.length = vs.length := by
        generalize lookupVar ρ bv = v at hcp
        cases v <;> simp [conf] at hcp
        rename_i vs
        exact ⟨vs, rfl, hcp.1.1⟩
      obtain ⟨vs, hv, hlen⟩ := hvs
      have hlk : leavesOK t = true := by
        clear ht
        generalize (genNames S.gen n typs.length).zip typs = vars at hok
        generalize (0 : Nat) = z at hok
        induction vars generalizing z with
        | nil => simpa [wrapProj] using hok
        | cons x xs ihx => simp only [wrapProj, leavesOK] at hok; exact ihx _ hok
      exact tuple_sound S hinj hinv hs hv hlen (hfreshbv ρ hinv) ht hn' hlk

/-! ### the induction over `compile_rows` -/

theorem varBinds_var : ∀ (cols : List (String × Pat)) (b : Bind), b ∈ varBinds cols →
    ∃ c ∈ cols, b.var = c.1 := by
  intro cols
  induction cols with
  | nil => intro b hb; cases hb
  | cons c cs ih =>
    intro b hb
    simp only [varBinds] at hb
    split at hb
    · rcases List.mem_append.mp hb with hb | hb
      · obtain ⟨c', hc', e⟩ := ih b hb
        exact ⟨c', by simp [hc'], e⟩
      · simp only [List.mem_singleton] at hb
        subst hb
        exact ⟨c, by simp, rfl⟩
    · obtain ⟨c', hc', e⟩ := ih b hb
      exact ⟨c', by simp [hc'], e⟩

theorem moveVars_inv {S : Sig} {n : Nat} {ρ : Env} {r : Row β}
    (h : RowFresh S.gen n r ∧ RowConf S ρ r) :
    RowFresh S.gen n (moveVars r) ∧ RowConf S ρ (moveVars r) := by
  refine ⟨⟨?_, ?_⟩, ?_⟩
  · intro c hc
    exact h.1.1 c (List.mem_filter.mp hc).1
  · intro b hb
    rcases List.mem_append.mp hb with hb | hb
    · obtain ⟨c, hc, e⟩ := varBinds_var _ b hb
      rw [e]
      exact h.1.1 c hc
    · exact h.1.2 b hb
  · intro c hc
    exact h.2 c (List.mem_filter.mp hc).1

theorem moveVars_nv (r : Row β) : ∀ c ∈ (moveVars r).cols, isVarOrWild c.2 = false := by
  intro c hc
  have := (List.mem_filter.mp hc).2
  simpa using this

theorem compileRows_good (S : Sig) (hinj : ∀ i j, S.gen i = S.gen j → i = j) :
    ∀ (fuel : Nat) (ty : Ty), Good S (compileRows (β := β) S fuel ty) := by
  intro fuel
  induction fuel with
  | zero => intro ty n rows t n' h; simp [compileRows] at h
  | succ fuel ih =>
    intro ty n rows t n' h
    simp only [compileRows] at h
    have hspec : ∀ ρ, SpecEq (firstMatch ρ (rows.map moveVars)) (firstMatch ρ rows) :=
      fun ρ => firstMatch_map ρ moveVars rows (fun r _ => ⟨rfl, moveVars_rowMatch ρ r⟩)
    have hinv1 : ∀ ρ, Inv S n ρ rows → Inv S n ρ (rows.map moveVars) := by
      intro ρ hinv r1 hr1
      obtain ⟨r, hr, rfl⟩ := List.mem_map.mp hr1
      exact moveVars_inv (hinv r hr)
    have hnv : ∀ r1 ∈ rows.map moveVars, ∀ c ∈ r1.cols, isVarOrWild c.2 = false := by
      intro r1 hr1
      obtain ⟨r, _, rfl⟩ := List.mem_map.mp hr1
      exact moveVars_nv r
    split at h
    · rename_i heq
      cases h
      refine ⟨Nat.le_refl _, ?_⟩
      intro _ ρ _
      have hs := hspec ρ
      rw [heq] at hs
      refine SoundR.of_spec (rows' := []) ?_ hs
      simp [SoundR, firstMatch, DT.eval]
    · rename_i r0 rest heq
      rw [heq] at hspec hinv1 hnv
      split at h
      · rename_i hempty
        cases h
        refine ⟨Nat.le_refl _, ?_⟩
        intro hok ρ _
        refine SoundR.of_spec ?_ (hspec ρ)
        have hc : r0.cols = [] := by simpa using hempty
        simp only [leavesOK] at hok
        simp only [SoundR, firstMatch, rowMatch, hc, colsMatch, oapp_nil_right, DT.eval]
        refine ⟨(bindVals ρ r0.binds).reverse, [], ?_, ?_, ?_⟩
        · rw [bindSeq_eq _ _ hok]; simp
        · intro x; simp
        · intro p hp; cases hp
      · split at h
        · cases h
        · rename_i bvt hbvt
          obtain ⟨bv, bty⟩ := bvt
          obtain ⟨hb1, hb2⟩ := branchVar_spec hbvt
          split at h
          · cases h
          · rename_i pl hpl
            split at h
            · cases h
            · cases h
            · rename_i q hq
              cases h
              obtain ⟨h1, h2⟩ := compileSeq_good (ih pl.subTy) pl.subs pl.n1 q.1 q.2 hq
              obtain ⟨h3, h4⟩ := plan_sound S hinj hpl hb1 hb2 hnv
              refine ⟨by omega, ?_⟩
              intro hok ρ hinv
              exact SoundR.of_spec (h4 q.2 q.1 h1 h2 r0.bodyTy hok ρ (hinv1 ρ hinv)) (hspec ρ)

end Goml.Match
