import GomlVerif.Lemmas.C06Leaves
import GomlVerif.Lemmas.C06Sem
/-!
Helper lemmas for `Props/C06.lean`, part 10: the tree binds only generated names, so it never binds
`y` when the gensym never returns `y` (used with `y = "missing"`).
-/
namespace Goml.Match
open Goml Goml.Sem

theorem noBind_wrapProj (y bv : String) (bty : Ty) (t : DT Expr) : ∀ (vars : List (String × Ty)) (i : Nat),
    (∀ x ∈ vars, x.1 ≠ y) → t.noBind y = true → (wrapProj bv bty i vars t).noBind y = true := by
  intro vars
  induction vars with
  | nil => intro i _ h; exact h
  | cons x xs ih =>
    intro i hne h
    simp only [wrapProj, DT.noBind, Bool.and_eq_true]
    exact ⟨by simpa using hne x (by simp), ih _ (fun z hz => hne z (by simp [hz])) h⟩

theorem noBind_wrapGet (y : String) (c : Ctor) (bv : String) (bty : Ty) (t : DT Expr) :
    ∀ (vars : List (String × Ty)) (i : Nat),
    (∀ x ∈ vars, x.1 ≠ y) → t.noBind y = true → (wrapGet c bv bty i vars t).noBind y = true := by
  intro vars
  induction vars with
  | nil => intro i _ h; exact h
  | cons x xs ih =>
    intro i hne h
    simp only [wrapGet, DT.noBind, Bool.and_eq_true]
    exact ⟨by simpa using hne x (by simp), ih _ (fun z hz => hne z (by simp [hz])) h⟩

theorem noBind_litCases (y : String) (d : Bool) : ∀ (keys : List Prim) (ts : List (DT Expr)),
    (∀ t ∈ ts, t.noBind y = true) → (litCases keys ts d).noBind y = true := by
  intro keys
  induction keys with
  | nil =>
    intro ts h
    simp only [litCases]
    split
    · rename_i t; simp only [Cases.noBind]; exact h t (by simp)
    · rfl
  | cons k ks ih =>
    intro ts h
    simp only [litCases]
    split
    · rename_i t ts'
      simp only [Cases.noBind, Bool.and_eq_true]
      exact ⟨h t (by simp), ih ts' (fun u hu => h u (by simp [hu]))⟩
    · rfl

theorem noBind_enumCases (y bv : String) (bty : Ty) : ∀ (hs : List (Ctor × List (String × Ty))) (ts : List (DT Expr)),
    (∀ h ∈ hs, ∀ x ∈ h.2, x.1 ≠ y) → (∀ t ∈ ts, t.noBind y = true) →
    (enumCases bv bty hs ts).noBind y = true := by
  intro hs
  induction hs with
  | nil => intro ts _ _; rfl
  | cons h hs ih =>
    intro ts hne ht
    simp only [enumCases]
    split
    · rename_i t ts'
      simp only [Cases.noBind, Bool.and_eq_true]
      exact ⟨noBind_wrapGet y _ bv bty t _ 0 (hne h (by simp)) (ht t (by simp)),
        ih ts' (fun h' hh' => hne h' (by simp [hh'])) (fun u hu => ht u (by simp [hu]))⟩
    · rfl

/-- the variables a shape binds are generated names -/
def ShapeGen (g : Nat → String) : Shape → Prop
  | .lits _ _ => True
  | .enumS hs => ∀ h ∈ hs, ∀ x ∈ h.2, ∃ j, x.1 = g j
  | .tupleS vars => ∀ x ∈ vars, ∃ j, x.1 = g j
  | .structS _ vars => ∀ x ∈ vars, ∃ j, x.1 = g j

theorem zip_gen {g : Nat → String} {n k : Nat} {tys : List Ty} :
    ∀ x ∈ (genNames g n k).zip tys, ∃ j, x.1 = g j := by
  intro x hx
  obtain ⟨a, b⟩ := x
  obtain ⟨j, _, _, h⟩ := mem_genNames.mp (List.of_mem_zip hx).1
  exact ⟨j, h⟩

theorem enumHeads_gen (g : Nat → String) (tname : String) (σ : List (String × Ty)) :
    ∀ (variants : List (String × List Ty)) (m idx : Nat),
      ∀ h ∈ (enumHeads g tname σ m idx variants).1, ∀ x ∈ h.2, ∃ j, x.1 = g j := by
  intro variants
  induction variants with
  | nil => intro m idx h hh; simp [enumHeads] at hh
  | cons v rest ih =>
    intro m idx h hh
    simp only [enumHeads, List.mem_cons] at hh
    rcases hh with rfl | hh
    · exact zip_gen
    · exact ih _ _ h hh

theorem litPlan_shape {β : Type} {okP : Prim → Bool} {n : Nat} {bv : String} {subTy : Ty} {keys : List Prim}
    {dflt : Bool} {rows : List (Row β)} {pl : Plan β}
    (hpl : litPlan okP n bv subTy keys dflt rows = .ok pl) : ∃ ks d, pl.shape = .lits ks d := by
  unfold litPlan at hpl
  split at hpl
  · cases hpl
  · split at hpl
    · split at hpl
      · cases hpl
      · cases hpl; exact ⟨_, _, rfl⟩
    · cases hpl; exact ⟨_, _, rfl⟩

theorem plan_shapeGen {β : Type} (S : Sig) {n : Nat} {bv : String} {bty ty : Ty} {rows : List (Row β)}
    {pl : Plan β} (hplan : plan S n bv bty ty rows = .ok pl) : ShapeGen S.gen pl.shape := by
  have lit : ∀ {okP : Prim → Bool} {subTy : Ty} {keys : List Prim} {dflt : Bool},
      litPlan okP n bv subTy keys dflt rows = .ok pl → ShapeGen S.gen pl.shape := by
    intro okP subTy keys dflt h
    obtain ⟨ks, d, e⟩ := litPlan_shape h
    rw [e]; trivial
  unfold plan at hplan
  split at hplan
  · cases hplan
  · exact lit hplan
  · exact lit hplan
  · split at hplan
    · cases hplan
    · split at hplan
      · cases hplan
      · cases hplan
      · exact lit hplan
  · split at hplan
    · cases hplan
    · exact lit hplan
  · split at hplan
    · cases hplan
    · split at hplan
      · cases hplan
      · dsimp only at hplan
        split at hplan
        · cases hplan
        · cases hplan
          exact enumHeads_gen _ _ _ _ _ _
  · split at hplan
    · cases hplan
    · split at hplan
      · cases hplan
      · dsimp only at hplan
        split at hplan
        · cases hplan
        · cases hplan
          exact zip_gen
  · dsimp only at hplan
    split at hplan
    · cases hplan
    · cases hplan
      exact zip_gen

theorem noBind_build (y : String) {g : Nat → String} (hy : ∀ j, g j ≠ y) (bodyTy : Ty) (bv : String) (bty : Ty)
    (sh : Shape) (hsh : ShapeGen g sh) (ts : List (DT Expr)) (h : ∀ t ∈ ts, t.noBind y = true) :
    (build bodyTy bv bty sh ts).noBind y = true := by
  cases sh with
  | lits keys d => simp only [build, DT.noBind]; exact noBind_litCases y d keys ts h
  | enumS hs =>
    simp only [build, DT.noBind]
    refine noBind_enumCases y bv bty hs ts ?_ h
    intro h' hh' x hx
    obtain ⟨j, e⟩ := hsh h' hh' x hx
    rw [e]; exact hy j
  | tupleS vars =>
    simp only [build]
    split
    · rename_i t
      refine noBind_wrapProj y bv bty t vars 0 ?_ (h t (by simp))
      intro x hx
      obtain ⟨j, e⟩ := hsh x hx
      rw [e]; exact hy j
    · rfl
  | structS c vars =>
    simp only [build]
    split
    · rename_i t
      refine noBind_wrapGet y c bv bty t vars 0 ?_ (h t (by simp))
      intro x hx
      obtain ⟨j, e⟩ := hsh x hx
      rw [e]; exact hy j
    · rfl

theorem compileSeq_all {P : DT Expr → Prop} {rec : Nat → List (Row Expr) → Option (M (DT Expr × Nat))} :
    ∀ (subs : List (List (Row Expr))) (n : Nat) (ts : List (DT Expr)) (n' : Nat),
      (∀ sub ∈ subs, ∀ m t m', rec m sub = some (.ok (t, m')) → P t) →
      compileSeq rec n subs = some (.ok (ts, n')) → ∀ t ∈ ts, P t := by
  intro subs
  induction subs with
  | nil => intro n ts n' _ h; simp only [compileSeq] at h; cases h; intro t ht; cases ht
  | cons rs rest ih =>
    intro n ts n' hrec h
    simp only [compileSeq] at h
    split at h
    · cases h
    · cases h
    · rename_i r hr
      split at h
      · cases h
      · cases h
      · rename_i q hq
        cases h
        intro t ht
        rcases List.mem_cons.mp ht with rfl | ht
        · exact hrec rs (by simp) n r.1 r.2 hr
        · exact ih r.2 q.1 q.2 (fun sub hsub => hrec sub (by simp [hsub])) hq t ht

theorem compileRows_noBind (S : Sig) (y : String) (hy : ∀ j, S.gen j ≠ y) :
    ∀ (fuel : Nat) (ty : Ty) (n : Nat) (rows : List (Row Expr)) (t : DT Expr) (n' : Nat),
      compileRows S fuel ty n rows = some (.ok (t, n')) → t.noBind y = true := by
  intro fuel
  induction fuel with
  | zero => intro ty n rows t n' h; simp [compileRows] at h
  | succ fuel ih =>
    intro ty n rows t n' h
    simp only [compileRows] at h
    split at h
    · cases h; rfl
    · split at h
      · cases h; rfl
      · split at h
        · cases h
        · split at h
          · cases h
          · rename_i pl hpl
            split at h
            · cases h
            · cases h
            · rename_i q hq
              cases h
              apply noBind_build y hy _ _ _ _ (plan_shapeGen S hpl)
              exact compileSeq_all (P := fun t => t.noBind y = true) pl.subs pl.n1 q.1 q.2
                (fun sub _ m t m' hc => ih pl.subTy m sub t m' hc) hq

end Goml.Match
