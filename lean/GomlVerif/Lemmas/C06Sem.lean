import GomlVerif.Model.Match
/-!
Helper lemmas for `Props/C06.lean`, part 7: the decision-tree semantics `DT.eval` is what `Sem.eval`
does on `DT.toExpr`, with exact fuel accounting (`DT.cost` = number of nested `Sem.eval` calls on
the path to the leaf).
-/
namespace Goml.Match
open Goml Goml.Sem

def bindR {α γ : Type} (r : Res α) (k : α → World → Res γ) : Res γ :=
  match r with
  | .fail e w => .fail e w
  | .ok a w => k a w

theorem eval_letE (f : Nat) (P : Prog) (ρ : Env) (w : World) (x : String) (v b : Expr) :
    Sem.eval (f + 1) P ρ w (.letE x v b) =
      bindR (Sem.eval f P ρ w v) (fun vv w => Sem.eval f P ((x, vv) :: ρ) w b) := by
  rw [Sem.eval]; cases Sem.eval f P ρ w v <;> rfl

theorem eval_var (f : Nat) (P : Prog) (ρ : Env) (w : World) (x : String) (t : Ty) :
    Sem.eval (f + 1) P ρ w (.var x t) = .ok (lookupVar ρ x) w := by
  rw [Sem.eval]; simp only [lookupVar]; cases lookupEnv ρ x <;> rfl

theorem evalArms_cons (f : Nat) (P : Prog) (ρ : Env) (w : World) (v : Val) (l b : Expr)
    (rest : List Arm) (d : Option Expr) :
    Sem.evalArms (f + 1) P ρ w v (.mk l b :: rest) d =
      if armMatches l v then Sem.eval f P ρ w b else Sem.evalArms f P ρ w v rest d := by
  rw [Sem.evalArms]

theorem evalArms_nil_none (f : Nat) (P : Prog) (ρ : Env) (w : World) (v : Val) :
    Sem.evalArms (f + 1) P ρ w v [] none = .fail (.stuck "no arm selected and no default") w := by
  rw [Sem.evalArms]

theorem evalArms_nil_some (f : Nat) (P : Prog) (ρ : Env) (w : World) (v : Val) (d : Expr) :
    Sem.evalArms (f + 1) P ρ w v [] (some d) = Sem.eval f P ρ w d := by
  rw [Sem.evalArms]

theorem eval_matchE_var (f : Nat) (P : Prog) (ρ : Env) (w : World) (ty vt : Ty) (v : String)
    (arms : List Arm) (d : Option Expr) :
    Sem.eval (f + 2) P ρ w (.matchE ty (.var v vt) arms d) =
      Sem.evalArms (f + 1) P ρ w (lookupVar ρ v) arms d := by
  rw [Sem.eval, eval_var]

theorem eval_proj_var (f : Nat) (P : Prog) (ρ : Env) (w : World) (i : Nat) (t vt : Ty) (v : String) :
    Sem.eval (f + 2) P ρ w (.proj i t (.var v vt)) =
      (match lookupVar ρ v with
       | .tuple vs =>
         (match vs[i]? with
          | some u => .ok u w
          | none => .fail (.stuck "tuple index out of range") w)
       | _ => .fail (.stuck "projection from a non-tuple") w) := by
  rw [Sem.eval, eval_var]
  cases lookupVar ρ v <;> rfl

theorem eval_cget_var (f : Nat) (P : Prog) (ρ : Env) (w : World) (c : Ctor) (i : Nat) (t vt : Ty) (v : String) :
    Sem.eval (f + 2) P ρ w (.cget c i t (.var v vt)) =
      (match lookupVar ρ v with
       | .enumV _ _ args =>
         (match args[i]? with
          | some u => .ok u w
          | none => .fail (.stuck "constructor field out of range") w)
       | .structV _ fs =>
         (match fs[i]? with
          | some u => .ok u w
          | none => .fail (.stuck "struct field out of range") w)
       | _ => .fail (.stuck "field access on a non-constructor value") w) := by
  rw [Sem.eval, eval_var]
  cases lookupVar ρ v <;> rfl

theorem eval_missing (f : Nat) (P : Prog) (ρ : Env) (w : World) (ty : Ty) (hP : P.findFn "missing" = none)
    (hρ : lookupEnv ρ "missing" = none) :
    Sem.eval (f + 3) P ρ w (emissing ty) = .fail (.panic "missing") w := by
  simp only [emissing]
  rw [Sem.eval, eval_var]
  simp only [lookupVar, hρ, Option.getD]
  have e1 : Sem.evalList (f + 2) P ρ w [.prim (.str "")] = .ok [.str ""] w := by
    rw [Sem.evalList.eq_def]
    simp only
    rw [Sem.eval]
    simp only [primVal]
    rw [Sem.evalList.eq_def]
  rw [e1]
  simp only
  rw [Sem.apply]
  simp [hP, builtin]

/-! ### cost and the embedding -/

mutual
def DT.cost : DT Expr → Env → Nat
  | .leaf binds _, _ => binds.length
  | .missing _, _ => 1
  | .letProj x i _ v _ rest, ρ =>
    match lookupVar ρ v with
    | .tuple vs =>
      match vs[i]? with
      | some u => 1 + rest.cost ((x, u) :: ρ)
      | none => 1
    | _ => 1
  | .letGet x _ i _ v _ rest, ρ =>
    match lookupVar ρ v with
    | .enumV _ _ args =>
      match args[i]? with
      | some u => 1 + rest.cost ((x, u) :: ρ)
      | none => 1
    | .structV _ fs =>
      match fs[i]? with
      | some u => 1 + rest.cost ((x, u) :: ρ)
      | none => 1
    | _ => 1
  | .switch _ v _ cases, ρ => 1 + cases.cost (lookupVar ρ v) ρ
def Cases.cost : Cases Expr → Val → Env → Nat
  | .nil, _, _ => 0
  | .dflt t, _, ρ => 1 + t.cost ρ
  | .cons h t rest, v, ρ => 1 + (if armMatches h.toExpr v then t.cost ρ else rest.cost v ρ)
end

/- `noBind y t`: the tree binds no temporary called `y` on the way to a `missing` leaf -/
mutual
def DT.noBind (y : String) : DT Expr → Bool
  | .leaf _ _ => true
  | .missing _ => true
  | .letProj x _ _ _ _ rest => x != y && rest.noBind y
  | .letGet x _ _ _ _ _ rest => x != y && rest.noBind y
  | .switch _ _ _ cases => cases.noBind y
def Cases.noBind (y : String) : Cases Expr → Bool
  | .nil => true
  | .dflt t => t.noBind y
  | .cons _ t rest => t.noBind y && rest.noBind y
end

/-- what happens after the tree: the selected body runs with the fuel that is left -/
def cont (P : Prog) (w : World) (f : Nat) : Leaf Expr → Res Val
  | .body b ρ' => Sem.eval f P ρ' w b
  | .missing => .fail (.panic "missing") w
  | .stuck why => .fail (.stuck why) w

theorem wrapBinds_sem (P : Prog) (w : World) (b : Expr) : ∀ (binds : List Bind) (ρ : Env) (f : Nat), 1 ≤ f →
    Sem.eval (f + binds.length) P ρ w (wrapBinds binds b) = Sem.eval f P (bindSeq binds ρ) w b := by
  intro binds
  induction binds with
  | nil => intro ρ f _; rfl
  | cons x xs ih =>
    intro ρ f hf
    simp only [wrapBinds, bindSeq, List.length_cons]
    have e : f + (xs.length + 1) = (f + xs.length) + 1 := by omega
    rw [e, eval_letE]
    obtain ⟨g, hg⟩ : ∃ g, f + xs.length = g + 1 := ⟨f + xs.length - 1, by omega⟩
    rw [hg, eval_var, ← hg]
    simp only [bindR]
    exact ih _ f hf

theorem lookupEnv_cons_ne' (ρ : Env) (x y : String) (v : Val) (h : (x != y) = true) :
    lookupEnv ((x, v) :: ρ) y = lookupEnv ρ y := by
  have hne : x ≠ y := by simpa using h
  unfold lookupEnv
  have : (x == y) = false := by simpa using hne
  simp [List.find?, this]

theorem toExpr_sem (P : Prog) (hP : P.findFn "missing" = none) (w : World) (t : DT Expr) :
    ∀ (ρ : Env) (f : Nat), 2 ≤ f → t.noBind "missing" = true → lookupEnv ρ "missing" = none →
      Sem.eval (f + t.cost ρ) P ρ w t.toExpr = cont P w f (t.eval ρ) := by
  apply DT.rec
    (motive_1 := fun t => ∀ (ρ : Env) (f : Nat), 2 ≤ f → t.noBind "missing" = true →
      lookupEnv ρ "missing" = none →
      Sem.eval (f + t.cost ρ) P ρ w t.toExpr = cont P w f (t.eval ρ))
    (motive_2 := fun cs => ∀ (v : Val) (ρ : Env) (f : Nat), 2 ≤ f → cs.noBind "missing" = true →
      lookupEnv ρ "missing" = none →
      Sem.evalArms (f + cs.cost v ρ) P ρ w v cs.arms cs.dfltExpr = cont P w f (cs.eval v ρ))
  · -- leaf
    intro binds b ρ f hf _ _
    simp only [DT.cost, DT.toExpr, DT.eval, cont]
    exact wrapBinds_sem P w b binds ρ f (by omega)
  · -- missing
    intro ty ρ f hf _ hρ
    simp only [DT.cost, DT.toExpr, DT.eval, cont]
    obtain ⟨g, rfl⟩ : ∃ g, f = g + 2 := ⟨f - 2, by omega⟩
    exact eval_missing g P ρ w ty hP hρ
  · -- letProj
    intro x i ty v vty rest ih ρ f hf hnb hρ
    simp only [DT.noBind, Bool.and_eq_true] at hnb
    simp only [DT.cost, DT.toExpr, DT.eval]
    cases hv : lookupVar ρ v with
    | tuple vs =>
      simp only
      cases hu : vs[i]? with
      | some u =>
        simp only
        have e : f + (1 + rest.cost ((x, u) :: ρ)) = (f + rest.cost ((x, u) :: ρ)) + 1 := by omega
        rw [e, eval_letE]
        obtain ⟨g, hg⟩ : ∃ g, f + rest.cost ((x, u) :: ρ) = g + 2 := ⟨f + rest.cost ((x, u) :: ρ) - 2, by omega⟩
        rw [hg, eval_proj_var, hv]
        simp only [hu, bindR]
        rw [← hg]
        exact ih _ f hf hnb.2 (by rw [lookupEnv_cons_ne' _ _ _ _ hnb.1]; exact hρ)
      | none =>
        simp only [cont]
        obtain ⟨g, rfl⟩ : ∃ g, f = g + 2 := ⟨f - 2, by omega⟩
        rw [eval_letE, eval_proj_var, hv]
        simp only [hu, bindR]
    | _ =>
      simp only [cont]
      obtain ⟨g, rfl⟩ : ∃ g, f = g + 2 := ⟨f - 2, by omega⟩
      rw [eval_letE, eval_proj_var, hv]
      simp only [bindR]
  · -- letGet
    intro x c i ty v vty rest ih ρ f hf hnb hρ
    simp only [DT.noBind, Bool.and_eq_true] at hnb
    simp only [DT.cost, DT.toExpr, DT.eval]
    cases hv : lookupVar ρ v with
    | enumV tn idx args =>
      simp only
      cases hu : args[i]? with
      | some u =>
        simp only
        have e : f + (1 + rest.cost ((x, u) :: ρ)) = (f + rest.cost ((x, u) :: ρ)) + 1 := by omega
        rw [e, eval_letE]
        obtain ⟨g, hg⟩ : ∃ g, f + rest.cost ((x, u) :: ρ) = g + 2 := ⟨f + rest.cost ((x, u) :: ρ) - 2, by omega⟩
        rw [hg, eval_cget_var, hv]
        simp only [hu, bindR]
        rw [← hg]
        exact ih _ f hf hnb.2 (by rw [lookupEnv_cons_ne' _ _ _ _ hnb.1]; exact hρ)
      | none =>
        simp only [cont]
        obtain ⟨g, rfl⟩ : ∃ g, f = g + 2 := ⟨f - 2, by omega⟩
        rw [eval_letE, eval_cget_var, hv]
        simp only [hu, bindR]
    | structV tn fs =>
      simp only
      cases hu : fs[i]? with
      | some u =>
        simp only
        have e : f + (1 + rest.cost ((x, u) :: ρ)) = (f + rest.cost ((x, u) :: ρ)) + 1 := by omega
        rw [e, eval_letE]
        obtain ⟨g, hg⟩ : ∃ g, f + rest.cost ((x, u) :: ρ) = g + 2 := ⟨f + rest.cost ((x, u) :: ρ) - 2, by omega⟩
        rw [hg, eval_cget_var, hv]
        simp only [hu, bindR]
        rw [← hg]
        exact ih _ f hf hnb.2 (by rw [lookupEnv_cons_ne' _ _ _ _ hnb.1]; exact hρ)
      | none =>
        simp only [cont]
        obtain ⟨g, rfl⟩ : ∃ g, f = g + 2 := ⟨f - 2, by omega⟩
        rw [eval_letE, eval_cget_var, hv]
        simp only [hu, bindR]
    | _ =>
      simp only [cont]
      obtain ⟨g, rfl⟩ : ∃ g, f = g + 2 := ⟨f - 2, by omega⟩
      rw [eval_letE, eval_cget_var, hv]
      simp only [bindR]
  · -- switch
    intro ty v vty cases ih ρ f hf hnb hρ
    simp only [DT.noBind] at hnb
    simp only [DT.cost, DT.toExpr, DT.eval]
    obtain ⟨g, hg⟩ : ∃ g, f + cases.cost (lookupVar ρ v) ρ = g + 1 :=
      ⟨f + cases.cost (lookupVar ρ v) ρ - 1, by omega⟩
    have e : f + (1 + cases.cost (lookupVar ρ v) ρ) = g + 2 := by omega
    rw [e, eval_matchE_var, ← hg]
    exact ih _ ρ f hf hnb hρ
  · -- nil
    intro v ρ f hf _ _
    simp only [Cases.cost, Cases.arms, Cases.dfltExpr, Cases.eval, cont]
    obtain ⟨g, rfl⟩ : ∃ g, f = g + 1 := ⟨f - 1, by omega⟩
    exact evalArms_nil_none g P ρ w v
  · -- dflt
    intro t ih v ρ f hf hnb hρ
    simp only [Cases.noBind] at hnb
    simp only [Cases.cost, Cases.arms, Cases.dfltExpr, Cases.eval]
    have e : f + (1 + t.cost ρ) = (f + t.cost ρ) + 1 := by omega
    rw [e, evalArms_nil_some]
    exact ih ρ f hf hnb hρ
  · -- cons
    intro h t rest iht ihr v ρ f hf hnb hρ
    simp only [Cases.noBind, Bool.and_eq_true] at hnb
    simp only [Cases.cost, Cases.arms, Cases.dfltExpr, Cases.eval]
    by_cases hm : armMatches h.toExpr v = true
    · simp only [hm, if_true]
      have e : f + (1 + t.cost ρ) = (f + t.cost ρ) + 1 := by omega
      rw [e, evalArms_cons]
      simp only [hm, if_true]
      exact iht ρ f hf hnb.1 hρ
    · have hm' : armMatches h.toExpr v = false := by simpa using hm
      simp only [hm', Bool.false_eq_true, if_false]
      have e : f + (1 + rest.cost v ρ) = (f + rest.cost v ρ) + 1 := by omega
      rw [e, evalArms_cons]
      simp only [hm', Bool.false_eq_true, if_false]
      exact ihr v ρ f hf hnb.2 hρ

end Goml.Match
