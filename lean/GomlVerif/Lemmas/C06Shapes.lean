import GomlVerif.Lemmas.C06Destr
/-!
Helper lemmas for `Props/C06.lean`, part 5: soundness of each tree shape `build` produces.
-/
namespace Goml.Match
open Goml Goml.Sem

variable {β : Type}

theorem DestrStep.rowStep {S : Sig} {ρ ρ' : Env} {names : List String} {r : Row β} {o : Option (Row β)}
    (h : DestrStep S ρ ρ' names r o) : RowStep ρ ρ' r o := by
  cases o with
  | none => exact h
  | some r' => exact ⟨h.body, h.meaning⟩

/-- generic destructuring step: the components `vs` of the scrutinee are bound to the fresh names
    `gen m … gen (m+k-1)`, the rows are rewritten by `f`, the sub-tree `t` is sound for them -/
theorem destr_sound (S : Sig) (hinj : ∀ i j, S.gen i = S.gen j → i = j) {n m k n1 n' : Nat}
    (hnm : n ≤ m) (hmk : m + k ≤ n1) (hn1 : n1 ≤ n')
    {rows s : List (Row β)} {ρ : Env} {vs : List Val} (hk : k = vs.length)
    (f : Row β → M (Option (Row β))) (hs : filterMapE f rows = .ok s) (hinv : Inv S n ρ rows)
    (hstep : ∀ ρ', Ext ρ ρ' (genNames S.gen m k) vs → ∀ r ∈ rows, ∀ o, f r = .ok o →
      ((∀ c ∈ r.cols, c.1 ∉ genNames S.gen m k) ∧ (∀ b ∈ r.binds, b.var ∉ genNames S.gen m k)) →
      RowConf S ρ r → DestrStep S ρ ρ' (genNames S.gen m k) r o)
    {t : DT β} (ht : SoundAt S n1 n' s t) (hok : leavesOK t = true) :
    SoundR S.gen n n' ρ rows (t.eval (bindParams (genNames S.gen m k) vs ρ)) := by
  have hnd := genNames_nodup hinj k m
  have hlen : (genNames S.gen m k).length = vs.length := by rw [genNames_length, hk]
  have hx := ext_bindParams ρ _ vs hnd hlen
  have hfresh : ∀ r ∈ rows, (∀ c ∈ r.cols, c.1 ∉ genNames S.gen m k) ∧
      (∀ b ∈ r.binds, b.var ∉ genNames S.gen m k) := by
    intro r hr
    constructor
    · intro c hc hmem
      obtain ⟨j, h1, _, h3⟩ := mem_genNames.mp hmem
      exact (hinv r hr).1.1 c hc j (by omega) h3.symm
    · intro b hb hmem
      obtain ⟨j, h1, _, h3⟩ := mem_genNames.mp hmem
      exact (hinv r hr).1.2 b hb j (by omega) h3.symm
  have hsteps : ∀ r ∈ rows, ∀ o, f r = .ok o →
      DestrStep S ρ (bindParams (genNames S.gen m k) vs ρ) (genNames S.gen m k) r o :=
    fun r hr o ho => hstep _ hx r hr o ho (hfresh r hr) (hinv r hr).2
  rw [bindParams_eq] at hsteps hx ⊢
  have hτ : TmpKeys S.gen n n1 ((genNames S.gen m k).zip vs).reverse :=
    (tmpKeys_zip vs).mono hnm hmk
  have hinv' : Inv S n1 (((genNames S.gen m k).zip vs).reverse ++ ρ) s := by
    intro r' hr'
    obtain ⟨r, hr, hf⟩ := (filterMapE_mem f rows s hs).1 r' hr'
    have hd : DestrRow S ρ _ _ r r' := hsteps r hr _ hf
    refine ⟨⟨?_, ?_⟩, hd.conf⟩
    · intro c hc j hj
      rcases hd.cols c hc with hmem | hmem
      · obtain ⟨j', _, h2, h3⟩ := mem_genNames.mp hmem
        intro heq
        have := hinj _ _ (heq.trans h3)
        omega
      · exact (hinv r hr).1.1 c hmem j (by omega)
    · intro b hb j hj
      rw [hd.binds] at hb
      exact (hinv r hr).1.2 b hb j (by omega)
  refine SoundR.of_sub (ht hok _ hinv') hτ hn1 (by omega) ?_
  exact firstMatch_filterMapE ρ _ f rows s hs (fun r hr o ho => (hsteps r hr o ho).rowStep)

theorem substTys_length (σ : List (String × Ty)) : ∀ ts : List Ty, (substTys σ ts).length = ts.length := by
  intro ts
  induction ts with
  | nil => rfl
  | cons t ts ih => simp [substTys, ih]

theorem map_fst_zip_eq {α γ : Type} (l : List α) (l' : List γ) (h : l.length = l'.length) :
    (l.zip l').map (·.1) = l := by
  induction l generalizing l' with
  | nil => rfl
  | cons a l ih =>
    cases l' with
    | nil => simp at h
    | cons b l' =>
      simp only [List.length_cons, Nat.add_right_cancel_iff] at h
      simp [ih l' h]

/-! ### tuple and struct -/

theorem tuple_sound (S : Sig) (hinj : ∀ i j, S.gen i = S.gen j → i = j) {bv : String} {bty : Ty}
    {typs : List Ty} {n n' : Nat} {rows s : List (Row β)} {ρ : Env} {vs : List Val} {t : DT β}
    (hinv : Inv S n ρ rows)
    (hs : filterMapE (specTuple bv (genNames S.gen n typs.length)) rows = .ok s)
    (hv : lookupVar ρ bv = .tuple vs) (hlen : typs.length = vs.length)
    (hbv : ∀ j, n ≤ j → S.gen j ≠ bv) (ht : SoundAt S (n + typs.length) n' s t)
    (hle : n + typs.length ≤ n') (hok : leavesOK t = true) :
    SoundR S.gen n n' ρ rows
      ((wrapProj bv bty 0 ((genNames S.gen n typs.length).zip typs) t).eval ρ) := by
  have hm : ((genNames S.gen n typs.length).zip typs).map (·.1) = genNames S.gen n typs.length :=
    map_fst_zip_eq _ _ (genNames_length _ _ _)
  rw [wrapProj_eval bv bty vs t _ 0 ρ ?_ hv ?_, hm, List.drop_zero]
  · exact destr_sound S hinj (Nat.le_refl n) (Nat.le_refl _) hle hlen _ hs hinv
      (fun ρ' hx r _ o ho hfr hcf => by
        cases o with
        | none => simp [specTuple] at ho; split at ho <;> cases ho
        | some r' => exact specTuple_row S bv _ vs ρ ρ' hv hx r r' ho hfr hcf) ht hok
  · intro x hx heq
    have : x.1 ∈ genNames S.gen n typs.length := by rw [← hm]; exact List.mem_map_of_mem hx
    obtain ⟨j, h1, _, h3⟩ := mem_genNames.mp this
    exact hbv j h1 (h3.symm.trans heq)
  · simp [genNames_length, hlen]

theorem struct_sound (S : Sig) (hinj : ∀ i j, S.gen i = S.gen j → i = j) {bv : String} {bty : Ty}
    {c : Ctor} {tys : List Ty} {k n n' : Nat} {rows s : List (Row β)} {ρ : Env} {tn : String}
    {vs : List Val} {t : DT β} (hinv : Inv S n ρ rows)
    (hs : filterMapE (specStruct bv (genNames S.gen n k)) rows = .ok s)
    (hv : lookupVar ρ bv = .structV tn vs) (hlen : k = vs.length) (htys : tys.length = k)
    (hbv : ∀ j, n ≤ j → S.gen j ≠ bv) (ht : SoundAt S (n + k) n' s t)
    (hle : n + k ≤ n') (hok : leavesOK t = true) :
    SoundR S.gen n n' ρ rows
      ((wrapGet c bv bty 0 ((genNames S.gen n k).zip tys) t).eval ρ) := by
  have hm : ((genNames S.gen n k).zip tys).map (·.1) = genNames S.gen n k :=
    map_fst_zip_eq _ _ (by rw [genNames_length, htys])
  rw [wrapGet_eval_struct c bv bty tn vs t _ 0 ρ ?_ hv ?_, hm, List.drop_zero]
  · exact destr_sound S hinj (Nat.le_refl n) (Nat.le_refl _) hle hlen _ hs hinv
      (fun ρ' hx r _ o ho hfr hcf => by
        cases o with
        | none => simp [specStruct] at ho; split at ho <;> cases ho
        | some r' => exact specStruct_row S bv _ tn vs ρ ρ' hv hx r r' ho hfr hcf) ht hok
  · intro x hx heq
    have : x.1 ∈ genNames S.gen n k := by rw [← hm]; exact List.mem_map_of_mem hx
    obtain ⟨j, h1, _, h3⟩ := mem_genNames.mp this
    exact hbv j h1 (h3.symm.trans heq)
  · simp [genNames_length, htys, hlen]

/-! ### enum -/

theorem enumHeads_ge (g : Nat → String) (tname : String) (σ : List (String × Ty)) :
    ∀ (variants : List (String × List Ty)) (m idx : Nat), m ≤ (enumHeads g tname σ m idx variants).2 := by
  intro variants
  induction variants with
  | nil => intro m idx; simp [enumHeads]
  | cons v rest ih =>
    intro m idx
    simp only [enumHeads]
    have := ih (m + v.2.length) (idx + 1)
    omega

theorem armMatches_ctor (a b : String) (idx : Nat) (ty : Ty) (vars : List (String × Ty)) (tn : String)
    (i : Nat) (vs : List Val) :
    armMatches (Head.ctor (.enum a b idx) ty vars).toExpr (.enumV tn i vs) = (idx == i) := rfl

theorem enumCases_sound (S : Sig) (hinj : ∀ i j, S.gen i = S.gen j → i = j) {bv : String} {bty : Ty}
    {tname : String} {σ : List (String × Ty)} {n n1 n' : Nat} {rows : List (Row β)} {ρ : Env}
    {tn : String} {i : Nat} {vs : List Val} (hinv : Inv S n ρ rows)
    (hv : lookupVar ρ bv = .enumV tn i vs) (hbv : ∀ j, n ≤ j → S.gen j ≠ bv) (nv : Nat)
    (hn1 : n1 ≤ n') :
    ∀ (variants : List (String × List Ty)) (m idx : Nat) (subs : List (List (Row β))) (ts : List (DT β)),
      n ≤ m → (enumHeads S.gen tname σ m idx variants).2 ≤ n1 →
      enumSubs bv nv rows (enumHeads S.gen tname σ m idx variants).1 idx = .ok subs →
      All2 (SoundAt S n1 n') subs ts → idx ≤ i →
      (∃ vr, variants[i - idx]? = some vr ∧ vr.2.length = vs.length) →
      casesOK (enumCases bv bty (enumHeads S.gen tname σ m idx variants).1 ts) = true →
      SoundR S.gen n n' ρ rows
        ((enumCases bv bty (enumHeads S.gen tname σ m idx variants).1 ts).eval (.enumV tn i vs) ρ) := by
  intro variants
  induction variants with
  | nil =>
    intro m idx subs ts _ _ _ _ _ hvr _
    obtain ⟨vr, h, _⟩ := hvr
    simp at h
  | cons v rest ih =>
    intro m idx subs ts hnm hle hsubs hts hidx hvr hok
    simp only [enumHeads] at hle hsubs hok ⊢
    simp only [enumSubs] at hsubs
    split at hsubs
    · cases hsubs
    · rename_i s hs
      split at hsubs
      · cases hsubs
      · rename_i subs' hsubs'
        cases hsubs
        cases hts with
        | cons ht hts' =>
          rename_i t ts'
          simp only [enumCases, casesOK, Bool.and_eq_true] at hok
          simp only [enumCases, Cases.eval, armMatches_ctor]
          have hge := enumHeads_ge S.gen tname σ rest (m + v.2.length) (idx + 1)
          have hm : ((genNames S.gen m v.2.length).zip (substTys σ v.2)).map (·.1) =
              genNames S.gen m v.2.length :=
            map_fst_zip_eq _ _ (by rw [genNames_length, substTys_length])
          by_cases hi : idx = i
          · subst hi
            simp only [beq_self_eq_true, if_true]
            obtain ⟨vr, hvr1, hvr2⟩ := hvr
            simp only [Nat.sub_self, List.getElem?_cons_zero, Option.some.injEq] at hvr1
            subst hvr1
            rw [hm] at hs
            -- the let-chain binds the fields
            have hlk : leavesOK t = true := by
              have := hok.1
              clear hok
              generalize (genNames S.gen m v.2.length).zip (substTys σ v.2) = vars at this
              generalize (0 : Nat) = z at this
              induction vars generalizing z with
              | nil => simpa [wrapGet] using this
              | cons x xs ihx => simp only [wrapGet, leavesOK] at this; exact ihx _ this
            rw [wrapGet_eval_enum _ bv bty tn idx vs t _ 0 ρ ?_ hv ?_, hm, List.drop_zero]
            · exact destr_sound S hinj hnm (by omega) hn1 hvr2 _ hs hinv
                (fun ρ' hx r _ o ho hfr hcf =>
                  specEnum_row S bv nv idx _ tn vs ρ ρ' hv hx r o ho hfr hcf) ht hlk
            · intro x hx heq
              have : x.1 ∈ genNames S.gen m v.2.length := by rw [← hm]; exact List.mem_map_of_mem hx
              obtain ⟨j, h1, _, h3⟩ := mem_genNames.mp this
              exact hbv j (by omega) (h3.symm.trans heq)
            · simp [genNames_length, substTys_length, hvr2]
          · have hne : (idx == i) = false := by simpa using hi
            simp only [hne, Bool.false_eq_true, if_false]
            have hlt : idx + 1 ≤ i := by omega
            apply ih (m + v.2.length) (idx + 1) subs' ts' (by omega) hle hsubs' hts' hlt ?_ hok.2
            obtain ⟨vr, hvr1, hvr2⟩ := hvr
            refine ⟨vr, ?_, hvr2⟩
            have e : i - idx = (i - (idx + 1)) + 1 := by omega
            rw [e, List.getElem?_cons_succ] at hvr1
            exact hvr1

end Goml.Match
