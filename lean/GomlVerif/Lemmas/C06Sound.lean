import GomlVerif.Lemmas.C06Basic
/-!
Helper lemmas for `Props/C06.lean`, part 2: the invariant carried through `compile_rows`, the
soundness statement, leaves, generated names, destructuring of a value into fresh variables.
-/
namespace Goml.Match
open Goml Goml.Sem

variable {β : Type}

/-! ### invariant and soundness statement -/

/-- names the gensym may still hand out (`≥ n`) are not column variables of the row -/
def RowFresh (g : Nat → String) (n : Nat) (r : Row β) : Prop :=
  (∀ c ∈ r.cols, ∀ j, n ≤ j → g j ≠ c.1) ∧ (∀ b ∈ r.binds, ∀ j, n ≤ j → g j ≠ b.var)

/-- every tested variable holds a value of the shape its patterns assume -/
def RowConf (S : Sig) (ρ : Env) (r : Row β) : Prop :=
  ∀ c ∈ r.cols, conf S c.2 (lookupVar ρ c.1) = true

def Inv (S : Sig) (n : Nat) (ρ : Env) (rows : List (Row β)) : Prop :=
  ∀ r ∈ rows, RowFresh S.gen n r ∧ RowConf S ρ r

def TmpKeys (g : Nat → String) (n n' : Nat) (τ : Env) : Prop :=
  ∀ p ∈ τ, ∃ j, n ≤ j ∧ j < n' ∧ p.1 = g j

/-- the result `res` of running a tree in `ρ` is what `firstMatch` prescribes for `rows`:
    the body of the first matching row, in `ρ` extended by generated temporaries and then by
    exactly that row's bindings; `missing` when no row matches -/
def SoundR (g : Nat → String) (n n' : Nat) (ρ : Env) (rows : List (Row β)) (res : Leaf β) : Prop :=
  match firstMatch ρ rows with
  | none => res = .missing
  | some (b, σ) => ∃ σ' τ, res = .body b (σ' ++ τ ++ ρ) ∧ SetEq σ' σ ∧ TmpKeys g n n' τ

def Sound (g : Nat → String) (n n' : Nat) (ρ : Env) (rows : List (Row β)) (t : DT β) : Prop :=
  SoundR g n n' ρ rows (t.eval ρ)

theorem TmpKeys.mono {g : Nat → String} {a b a' b' : Nat} {τ : Env} (h : TmpKeys g a b τ)
    (ha : a' ≤ a) (hb : b ≤ b') : TmpKeys g a' b' τ := by
  intro p hp
  obtain ⟨j, h1, h2, h3⟩ := h p hp
  exact ⟨j, by omega, by omega, h3⟩

theorem SoundR.mono {g : Nat → String} {a b a' b' : Nat} {ρ : Env} {rows : List (Row β)} {res : Leaf β}
    (h : SoundR g a b ρ rows res) (ha : a' ≤ a) (hb : b ≤ b') : SoundR g a' b' ρ rows res := by
  unfold SoundR at *
  split at h
  · exact h
  · obtain ⟨σ', τ, h1, h2, h3⟩ := h
    exact ⟨σ', τ, h1, h2, h3.mono ha hb⟩

theorem RowFresh.mono {g : Nat → String} {n m : Nat} {r : Row β} (h : RowFresh g n r) (hnm : n ≤ m) :
    RowFresh g m r :=
  ⟨fun c hc j hj => h.1 c hc j (by omega), fun b hb j hj => h.2 b hb j (by omega)⟩

theorem Inv.mono {S : Sig} {n m : Nat} {ρ : Env} {rows : List (Row β)} (h : Inv S n ρ rows) (hnm : n ≤ m) :
    Inv S m ρ rows := fun r hr => ⟨(h r hr).1.mono hnm, (h r hr).2⟩

/-- transport along a sub-matrix compiled in an environment extended by temporaries -/
theorem SoundR.of_sub {g : Nat → String} {n n1 n2 : Nat} {ρ τ : Env} {rows rows' : List (Row β)}
    {res : Leaf β} (hs : SoundR g n1 n2 (τ ++ ρ) rows' res) (hτ : TmpKeys g n n1 τ)
    (h12 : n1 ≤ n2) (hn : n ≤ n1)
    (hspec : SpecEq (firstMatch (τ ++ ρ) rows') (firstMatch ρ rows)) : SoundR g n n2 ρ rows res := by
  unfold SoundR at *
  cases h1 : firstMatch (τ ++ ρ) rows' <;> cases h2 : firstMatch ρ rows <;> rw [h1, h2] at hspec <;>
    simp only [SpecEq] at hspec
  · rw [h1] at hs
    exact hs
  · rw [h1] at hs
    rename_i x y
    obtain ⟨b, σ⟩ := x
    obtain ⟨b', σ0⟩ := y
    obtain ⟨σ', τ', e, hσ, hk⟩ := hs
    simp only at hspec
    obtain ⟨hb, hσ0⟩ := hspec
    subst hb
    refine ⟨σ', τ' ++ τ, ?_, hσ.trans hσ0, ?_⟩
    · rw [e]; simp [List.append_assoc]
    · intro p hp
      rcases List.mem_append.mp hp with hp | hp
      · exact (hk.mono hn (Nat.le_refl _)) p hp
      · exact (hτ.mono (Nat.le_refl _) h12) p hp

theorem SoundR.of_spec {g : Nat → String} {n n2 : Nat} {ρ : Env} {rows rows' : List (Row β)}
    {res : Leaf β} (hs : SoundR g n n2 ρ rows' res)
    (hspec : SpecEq (firstMatch ρ rows') (firstMatch ρ rows)) : SoundR g n n2 ρ rows res := by
  unfold SoundR at *
  cases h1 : firstMatch ρ rows' <;> cases h2 : firstMatch ρ rows <;> rw [h1, h2] at hspec <;>
    simp only [SpecEq] at hspec
  · rw [h1] at hs
    exact hs
  · rw [h1] at hs
    rename_i x y
    obtain ⟨b, σ⟩ := x
    obtain ⟨b', σ0⟩ := y
    obtain ⟨σ', τ', e, hσ, hk⟩ := hs
    simp only at hspec
    obtain ⟨hb, hσ0⟩ := hspec
    subst hb
    exact ⟨σ', τ', e, hσ.trans hσ0, hk⟩

/-! ### leaves -/

theorem bindSeq_eq : ∀ (bs : List Bind) (ρ : Env), bindsOK bs = true →
    bindSeq bs ρ = (bindVals ρ bs).reverse ++ ρ := by
  intro bs
  induction bs with
  | nil => intro ρ _; simp [bindSeq, bindVals]
  | cons b bs ih =>
    intro ρ h
    simp only [bindsOK, Bool.and_eq_true, List.all_eq_true] at h
    obtain ⟨h1, h2⟩ := h
    simp only [bindSeq]
    rw [ih _ h2]
    have e : bindVals ((b.name, lookupVar ρ b.var) :: ρ) bs = bindVals ρ bs := by
      apply bindVals_congr
      intro c hc
      apply lookupVar_cons_ne
      have := h1 c hc
      intro heq
      simp [heq] at this
    rw [e]
    simp [bindVals]

/-! ### generated names -/

theorem genNames_length (g : Nat → String) : ∀ (k n : Nat), (genNames g n k).length = k := by
  intro k
  induction k with
  | zero => intro n; rfl
  | succ k ih => intro n; simp [genNames, ih]

theorem mem_genNames {g : Nat → String} : ∀ {k n : Nat} {x : String},
    x ∈ genNames g n k ↔ ∃ j, n ≤ j ∧ j < n + k ∧ x = g j := by
  intro k
  induction k with
  | zero =>
    intro n x
    simp only [genNames, List.not_mem_nil, false_iff]
    rintro ⟨j, h1, h2, _⟩
    omega
  | succ k ih =>
    intro n x
    simp only [genNames, List.mem_cons, ih]
    constructor
    · rintro (rfl | ⟨j, h1, h2, h3⟩)
      · exact ⟨n, by omega, by omega, rfl⟩
      · exact ⟨j, by omega, by omega, h3⟩
    · rintro ⟨j, h1, h2, h3⟩
      by_cases hj : j = n
      · left; rw [h3, hj]
      · right; exact ⟨j, by omega, by omega, h3⟩

theorem genNames_nodup {g : Nat → String} (hinj : ∀ i j, g i = g j → i = j) :
    ∀ (k n : Nat), (genNames g n k).Nodup := by
  intro k
  induction k with
  | zero => intro n; simp [genNames]
  | succ k ih =>
    intro n
    simp only [genNames, List.nodup_cons]
    refine ⟨?_, ih _⟩
    intro h
    obtain ⟨j, h1, _, h3⟩ := mem_genNames.mp h
    have := hinj _ _ h3
    omega

/-! ### destructuring a value into fresh variables -/

theorem lookupVar_bindParams_notin (xs : List String) (vs : List Val) (ρ : Env) (y : String)
    (h : y ∉ xs) : lookupVar (bindParams xs vs ρ) y = lookupVar ρ y := by
  rw [bindParams_eq]
  apply lookupVar_append_notin
  intro p hp heq
  apply h
  have hp' : p ∈ xs.zip vs := List.mem_reverse.mp hp
  obtain ⟨a, b⟩ := p
  have := (List.of_mem_zip hp').1
  simp only at heq
  rw [← heq]; exact this

theorem map_lookup_bindParams : ∀ (xs : List String) (vs : List Val) (ρ : Env), xs.Nodup →
    xs.length = vs.length → xs.map (lookupVar (bindParams xs vs ρ)) = vs := by
  intro xs
  induction xs with
  | nil => intro vs ρ _ h; cases vs <;> simp_all
  | cons x xs ih =>
    intro vs ρ hnd hlen
    cases vs with
    | nil => simp at hlen
    | cons v vs =>
      simp only [List.nodup_cons] at hnd
      simp only [List.length_cons, Nat.add_right_cancel_iff] at hlen
      simp only [bindParams, List.map_cons]
      rw [lookupVar_bindParams_notin _ _ _ _ hnd.1, lookupVar_cons_eq, ih vs _ hnd.2 hlen]

theorem colsMatch_zip (ρ' : Env) : ∀ (ps : List Pat) (xs : List String) (vs : List Val),
    xs.map (lookupVar ρ') = vs → ps.length = vs.length →
    colsMatch ρ' (xs.zip ps) = matchPats ps vs := by
  intro ps
  induction ps with
  | nil =>
    intro xs vs hm hl
    cases vs with
    | nil => simp [colsMatch, matchPats]
    | cons v vs => simp at hl
  | cons p ps ih =>
    intro xs vs hm hl
    cases vs with
    | nil => simp at hl
    | cons v vs =>
      cases xs with
      | nil => simp at hm
      | cons x xs =>
        simp only [List.map_cons, List.cons.injEq] at hm
        simp only [List.length_cons, Nat.add_right_cancel_iff] at hl
        simp only [List.zip_cons_cons, colsMatch, matchPats, hm.1, ih xs vs hm.2 hl]

theorem confs_zip (S : Sig) (ρ' : Env) : ∀ (ps : List Pat) (xs : List String) (vs : List Val),
    xs.map (lookupVar ρ') = vs → confs S ps vs = true →
    ∀ c ∈ xs.zip ps, conf S c.2 (lookupVar ρ' c.1) = true := by
  intro ps
  induction ps with
  | nil => intro xs vs _ _ c hc; simp at hc
  | cons p ps ih =>
    intro xs vs hm hc c hmem
    cases xs with
    | nil => simp at hmem
    | cons x xs =>
      cases vs with
      | nil => simp at hm
      | cons v vs =>
        simp only [List.map_cons, List.cons.injEq] at hm
        simp only [confs, Bool.and_eq_true] at hc
        simp only [List.zip_cons_cons, List.mem_cons] at hmem
        rcases hmem with rfl | hmem
        · simp only; rw [hm.1]; exact hc.1
        · exact ih xs vs hm.2 hc.2 c hmem

theorem wrapProj_eval (bv : String) (bty : Ty) (vs : List Val) (t : DT β) :
    ∀ (vars : List (String × Ty)) (i : Nat) (ρ : Env),
    (∀ x ∈ vars, x.1 ≠ bv) → lookupVar ρ bv = .tuple vs → i + vars.length ≤ vs.length →
    (wrapProj bv bty i vars t).eval ρ = t.eval (bindParams (vars.map (·.1)) (vs.drop i) ρ) := by
  intro vars
  induction vars with
  | nil => intro i ρ _ _ _; simp [wrapProj, bindParams]
  | cons x xs ih =>
    intro i ρ hne hv hlen
    simp only [List.length_cons] at hlen
    have hi : i < vs.length := by omega
    simp only [wrapProj, DT.eval, hv]
    rw [List.getElem?_eq_getElem hi]
    simp only
    rw [ih (i + 1) _ (fun y hy => hne y (by simp [hy]))
      (by rw [lookupVar_cons_ne _ _ _ _ (hne x (by simp))]; exact hv) (by omega)]
    rw [List.drop_eq_getElem_cons hi]
    simp only [List.map_cons, bindParams]

theorem wrapGet_eval_enum (c : Ctor) (bv : String) (bty : Ty) (tn : String) (idx : Nat) (vs : List Val) (t : DT β) :
    ∀ (vars : List (String × Ty)) (i : Nat) (ρ : Env),
    (∀ x ∈ vars, x.1 ≠ bv) → lookupVar ρ bv = .enumV tn idx vs → i + vars.length ≤ vs.length →
    (wrapGet c bv bty i vars t).eval ρ = t.eval (bindParams (vars.map (·.1)) (vs.drop i) ρ) := by
  intro vars
  induction vars with
  | nil => intro i ρ _ _ _; simp [wrapGet, bindParams]
  | cons x xs ih =>
    intro i ρ hne hv hlen
    simp only [List.length_cons] at hlen
    have hi : i < vs.length := by omega
    simp only [wrapGet, DT.eval, hv]
    rw [List.getElem?_eq_getElem hi]
    simp only
    rw [ih (i + 1) _ (fun y hy => hne y (by simp [hy]))
      (by rw [lookupVar_cons_ne _ _ _ _ (hne x (by simp))]; exact hv) (by omega)]
    rw [List.drop_eq_getElem_cons hi]
    simp only [List.map_cons, bindParams]

theorem wrapGet_eval_struct (c : Ctor) (bv : String) (bty : Ty) (tn : String) (vs : List Val) (t : DT β) :
    ∀ (vars : List (String × Ty)) (i : Nat) (ρ : Env),
    (∀ x ∈ vars, x.1 ≠ bv) → lookupVar ρ bv = .structV tn vs → i + vars.length ≤ vs.length →
    (wrapGet c bv bty i vars t).eval ρ = t.eval (bindParams (vars.map (·.1)) (vs.drop i) ρ) := by
  intro vars
  induction vars with
  | nil => intro i ρ _ _ _; simp [wrapGet, bindParams]
  | cons x xs ih =>
    intro i ρ hne hv hlen
    simp only [List.length_cons] at hlen
    have hi : i < vs.length := by omega
    simp only [wrapGet, DT.eval, hv]
    rw [List.getElem?_eq_getElem hi]
    simp only
    rw [ih (i + 1) _ (fun y hy => hne y (by simp [hy]))
      (by rw [lookupVar_cons_ne _ _ _ _ (hne x (by simp))]; exact hv) (by omega)]
    rw [List.drop_eq_getElem_cons hi]
    simp only [List.map_cons, bindParams]

theorem tmpKeys_zip {g : Nat → String} {m k : Nat} (vs : List Val) :
    TmpKeys g m (m + k) ((genNames g m k).zip vs).reverse := by
  intro p hp
  have hp' : p ∈ (genNames g m k).zip vs := List.mem_reverse.mp hp
  obtain ⟨a, b⟩ := p
  obtain ⟨j, h1, h2, h3⟩ := mem_genNames.mp (List.of_mem_zip hp').1
  exact ⟨j, h1, h2, h3⟩

end Goml.Match
