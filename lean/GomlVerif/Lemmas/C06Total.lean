import GomlVerif.Lemmas.C06Main
/-!
Helper lemmas for `Props/C06.lean`, part 8: termination measure (every sub-matrix is strictly
smaller than the matrix it was split from).
-/
namespace Goml.Match
open Goml Goml.Sem

variable {β : Type}

theorem Pat.size_pos (p : Pat) : 1 ≤ p.size := by
  cases p <;> simp [Pat.size] <;> omega

theorem colsSize_append (a b : List (String × Pat)) : colsSize (a ++ b) = colsSize a + colsSize b := by
  induction a with
  | nil => simp [colsSize]
  | cons c a ih => simp [colsSize, ih]; omega

theorem colsSize_zip_le : ∀ (names : List String) (ps : List Pat), colsSize (names.zip ps) ≤ Pat.sizes ps := by
  intro names
  induction names with
  | nil => intro ps; simp [colsSize]
  | cons x xs ih =>
    intro ps
    cases ps with
    | nil => simp [colsSize]
    | cons p ps =>
      simp only [List.zip_cons_cons, colsSize, Pat.sizes]
      have := ih ps
      omega

theorem removeCol_size {x : String} : ∀ {cols cs : List (String × Pat)} {p : Pat},
    removeCol x cols = some (p, cs) → colsSize cs + p.size = colsSize cols := by
  intro cols
  induction cols with
  | nil => intro cs p h; simp [removeCol] at h
  | cons c cols ih =>
    intro cs p h
    simp only [removeCol] at h
    split at h
    · cases h; simp [colsSize]; omega
    · split at h
      · rename_i q cs' hr
        cases h
        have := ih hr
        simp only [colsSize]
        omega
      · cases h

theorem colsSize_filter_le (f : String × Pat → Bool) : ∀ cols : List (String × Pat),
    colsSize (cols.filter f) ≤ colsSize cols := by
  intro cols
  induction cols with
  | nil => simp [colsSize]
  | cons c cs ih =>
    simp only [List.filter]
    split <;> simp only [colsSize] <;> omega

theorem measure_map_moveVars : ∀ rows : List (Row β), measure (rows.map moveVars) ≤ measure rows := by
  intro rows
  induction rows with
  | nil => simp [measure]
  | cons r rs ih =>
    simp only [List.map_cons, measure, moveVars]
    have := colsSize_filter_le (fun c => !isVarOrWild c.2) r.cols
    omega

/-- a row step never grows a row -/
def StepLe (f : Row β → M (Option (Row β))) : Prop :=
  ∀ r r', f r = .ok (some r') → colsSize r'.cols ≤ colsSize r.cols

/-- a row step shrinks a row that tests `bv` (or drops it) -/
def StepLt (bv : String) (f : Row β → M (Option (Row β))) : Prop :=
  ∀ r r', (∃ p, (bv, p) ∈ r.cols) → f r = .ok (some r') → colsSize r'.cols < colsSize r.cols

theorem filterMapE_measure_le (f : Row β → M (Option (Row β))) (hle : StepLe f) :
    ∀ (l l' : List (Row β)), filterMapE f l = .ok l' → measure l' ≤ measure l := by
  intro l
  induction l with
  | nil => intro l' h; simp only [filterMapE] at h; cases h; simp
  | cons a as ih =>
    intro l' h
    simp only [filterMapE] at h
    split at h
    · cases h
    · rename_i o ho
      split at h
      · cases h
      · rename_i rest hrest
        cases h
        have := ih rest hrest
        cases o with
        | none => simp only [measure]; omega
        | some b =>
          have := hle a b ho
          simp only [measure]; omega

theorem filterMapE_measure_lt (bv : String) (f : Row β → M (Option (Row β))) (hle : StepLe f)
    (hlt : StepLt bv f) (r0 : Row β) (rest sub : List (Row β)) (hbv : ∃ p, (bv, p) ∈ r0.cols)
    (h : filterMapE f (r0 :: rest) = .ok sub) : measure sub < measure (r0 :: rest) := by
  simp only [filterMapE] at h
  split at h
  · cases h
  · rename_i o ho
    split at h
    · cases h
    · rename_i rest' hrest
      cases h
      have := filterMapE_measure_le f hle rest rest' hrest
      cases o with
      | none => simp only [measure]; omega
      | some b =>
        have := hlt r0 b hbv ho
        simp only [measure]; omega

theorem specLit_steps (okP : Prim → Bool) (bv : String) (k : Prim) :
    StepLe (specLit (β := β) okP bv k) ∧ StepLt bv (specLit (β := β) okP bv k) := by
  constructor
  · intro r r' h
    unfold specLit at h
    split at h
    · cases h; exact Nat.le_refl _
    · rename_i p t cs hr
      split at h
      · split at h
        · cases h
          have := removeCol_size hr
          simp only; omega
        · cases h
      · cases h
    · cases h
  · intro r r' hbv h
    obtain ⟨p0, hp0⟩ := hbv
    obtain ⟨q, cs0, hq⟩ := removeCol_of_mem hp0
    unfold specLit at h
    rw [hq] at h
    split at h
    · rename_i heq; cases heq
    · rename_i p t cs heq
      cases heq
      split at h
      · split at h
        · cases h
          have := removeCol_size hq
          have := Pat.size_pos (.prim p t)
          simp only; omega
        · cases h
      · cases h
    · cases h

theorem specDflt_steps (okP : Prim → Bool) (bv : String) :
    StepLe (specDflt (β := β) okP bv) ∧ StepLt bv (specDflt (β := β) okP bv) := by
  constructor
  · intro r r' h
    unfold specDflt at h
    split at h
    · cases h; exact Nat.le_refl _
    · split at h <;> cases h
    · cases h
  · intro r r' hbv h
    obtain ⟨p0, hp0⟩ := hbv
    obtain ⟨q, cs0, hq⟩ := removeCol_of_mem hp0
    unfold specDflt at h
    rw [hq] at h
    split at h
    · rename_i heq; cases heq
    · split at h <;> cases h
    · cases h

theorem specEnum_steps (bv : String) (nv idx : Nat) (names : List String) :
    StepLe (specEnum (β := β) bv nv idx names) ∧ StepLt bv (specEnum (β := β) bv nv idx names) := by
  have key : ∀ (r r' : Row β), specEnum bv nv idx names r = .ok (some r') →
      (removeCol bv r.cols = none ∧ r' = r) ∨
      (∃ p cs, removeCol bv r.cols = some (p, cs) ∧ colsSize r'.cols + 1 ≤ colsSize cs + p.size) := by
    intro r r' h
    unfold specEnum at h
    split at h
    · rename_i hr; cases h; exact Or.inl ⟨hr, rfl⟩
    · rename_i a b i args ty cs hr
      split at h
      · cases h
      · split at h
        · cases h
          right
          refine ⟨_, cs, hr, ?_⟩
          simp only [colsSize_append, Pat.size]
          have := colsSize_zip_le names args
          omega
        · cases h
    · cases h
    · cases h
  constructor
  · intro r r' h
    rcases key r r' h with ⟨_, rfl⟩ | ⟨p, cs, hr, hs⟩
    · exact Nat.le_refl _
    · have := removeCol_size hr; omega
  · intro r r' hbv h
    obtain ⟨p0, hp0⟩ := hbv
    obtain ⟨q, cs0, hq⟩ := removeCol_of_mem hp0
    rcases key r r' h with ⟨hn, _⟩ | ⟨p, cs, hr, hs⟩
    · rw [hq] at hn; cases hn
    · have := removeCol_size hr; omega

theorem expandTuple_size (bv : String) (names : List String) : ∀ (cols cols' : List (String × Pat)),
    expandTuple bv names cols = .ok cols' →
    colsSize cols' ≤ colsSize cols ∧ ((∃ p, (bv, p) ∈ cols) → colsSize cols' < colsSize cols) := by
  intro cols
  induction cols with
  | nil =>
    intro cols' h
    simp only [expandTuple] at h
    cases h
    exact ⟨Nat.le_refl _, fun ⟨p, hp⟩ => by cases hp⟩
  | cons c cs ih =>
    intro cols' h
    simp only [expandTuple] at h
    split at h
    · cases h
    · rename_i rest hrest
      obtain ⟨i1, i2⟩ := ih rest hrest
      split at h
      · rename_i hc
        split at h
        · rename_i items ty hpat
          split at h
          · cases h
          · cases h
            have hz := colsSize_zip_le names items
            have hs : c.2.size = 1 + Pat.sizes items := by rw [hpat]; simp [Pat.size]
            simp only [colsSize_append, colsSize]
            exact ⟨by omega, fun _ => by omega⟩
        · cases h
      · rename_i hc
        cases h
        simp only [colsSize]
        refine ⟨by omega, ?_⟩
        rintro ⟨p, hp⟩
        rcases List.mem_cons.mp hp with hp | hp
        · exact absurd (by rw [← hp]) hc
        · have := i2 ⟨p, hp⟩; omega

theorem expandStruct_size (bv : String) (names : List String) : ∀ (cols cols' : List (String × Pat)),
    expandStruct bv names cols = .ok cols' →
    colsSize cols' ≤ colsSize cols ∧ ((∃ p, (bv, p) ∈ cols) → colsSize cols' < colsSize cols) := by
  intro cols
  induction cols with
  | nil =>
    intro cols' h
    simp only [expandStruct] at h
    cases h
    exact ⟨Nat.le_refl _, fun ⟨p, hp⟩ => by cases hp⟩
  | cons c cs ih =>
    intro cols' h
    simp only [expandStruct] at h
    split at h
    · cases h
    · rename_i rest hrest
      obtain ⟨i1, i2⟩ := ih rest hrest
      split at h
      · rename_i hc
        split at h
        · rename_i sn args ty hpat
          cases h
          have hz := colsSize_zip_le names args
          have hs : c.2.size = 1 + Pat.sizes args := by rw [hpat]; simp [Pat.size]
          simp only [colsSize_append, colsSize]
          exact ⟨by omega, fun _ => by omega⟩
        · cases h
      · rename_i hc
        cases h
        simp only [colsSize]
        refine ⟨by omega, ?_⟩
        rintro ⟨p, hp⟩
        rcases List.mem_cons.mp hp with hp | hp
        · exact absurd (by rw [← hp]) hc
        · have := i2 ⟨p, hp⟩; omega

theorem specTuple_steps (bv : String) (names : List String) :
    StepLe (specTuple (β := β) bv names) ∧ StepLt bv (specTuple (β := β) bv names) := by
  constructor
  · intro r r' h
    unfold specTuple at h
    split at h
    · cases h
    · rename_i cs hcs; cases h; exact (expandTuple_size bv names _ _ hcs).1
  · intro r r' hbv h
    unfold specTuple at h
    split at h
    · cases h
    · rename_i cs hcs; cases h; exact (expandTuple_size bv names _ _ hcs).2 hbv

theorem specStruct_steps (bv : String) (names : List String) :
    StepLe (specStruct (β := β) bv names) ∧ StepLt bv (specStruct (β := β) bv names) := by
  constructor
  · intro r r' h
    unfold specStruct at h
    split at h
    · cases h
    · rename_i cs hcs; cases h; exact (expandStruct_size bv names _ _ hcs).1
  · intro r r' hbv h
    unfold specStruct at h
    split at h
    · cases h
    · rename_i cs hcs; cases h; exact (expandStruct_size bv names _ _ hcs).2 hbv

theorem mapE_mem {α γ : Type} (f : α → M γ) : ∀ (l : List α) (l' : List γ), mapE f l = .ok l' →
    ∀ b ∈ l', ∃ a ∈ l, f a = .ok b := by
  intro l l' h
  have h2 := mapE_all2 f l l' h
  clear h
  induction h2 with
  | nil => intro b hb; cases hb
  | cons hab _ ih =>
    intro b hb
    rcases List.mem_cons.mp hb with rfl | hb
    · exact ⟨_, by simp, hab⟩
    · obtain ⟨a, ha, hf⟩ := ih b hb
      exact ⟨a, by simp [ha], hf⟩

theorem litPlan_measure {okP : Prim → Bool} {n : Nat} {bv : String} {subTy : Ty} {keys : List Prim}
    {dflt : Bool} {r0 : Row β} {rest : List (Row β)} {pl : Plan β}
    (hpl : litPlan okP n bv subTy keys dflt (r0 :: rest) = .ok pl) (hbv : ∃ p, (bv, p) ∈ r0.cols) :
    ∀ sub ∈ pl.subs, measure sub < measure (r0 :: rest) := by
  unfold litPlan at hpl
  split at hpl
  · cases hpl
  · rename_i subs hsubs
    have hk : ∀ sub ∈ subs, measure sub < measure (r0 :: rest) := by
      intro sub hsub
      obtain ⟨k, _, hf⟩ := mapE_mem _ keys subs hsubs sub hsub
      exact filterMapE_measure_lt bv _ (specLit_steps okP bv k).1 (specLit_steps okP bv k).2 r0 rest sub hbv hf
    cases dflt with
    | true =>
      simp only [if_true] at hpl
      split at hpl
      · cases hpl
      · rename_i d hd
        cases hpl
        intro sub hsub
        rcases List.mem_append.mp hsub with hsub | hsub
        · exact hk sub hsub
        · simp only [List.mem_singleton] at hsub
          subst hsub
          exact filterMapE_measure_lt bv _ (specDflt_steps okP bv).1 (specDflt_steps okP bv).2 r0 rest _ hbv hd
    | false =>
      simp only [Bool.false_eq_true, if_false] at hpl
      cases hpl
      exact hk

theorem enumSubs_measure {bv : String} {nv : Nat} {r0 : Row β} {rest : List (Row β)}
    (hbv : ∃ p, (bv, p) ∈ r0.cols) :
    ∀ (hs : List (Ctor × List (String × Ty))) (idx : Nat) (subs : List (List (Row β))),
      enumSubs bv nv (r0 :: rest) hs idx = .ok subs → ∀ sub ∈ subs, measure sub < measure (r0 :: rest) := by
  intro hs
  induction hs with
  | nil => intro idx subs h; simp only [enumSubs] at h; cases h; intro sub hsub; cases hsub
  | cons h hs ih =>
    intro idx subs hsubs
    simp only [enumSubs] at hsubs
    split at hsubs
    · cases hsubs
    · rename_i s hs'
      split at hsubs
      · cases hsubs
      · rename_i rest' hrest
        cases hsubs
        intro sub hsub
        rcases List.mem_cons.mp hsub with rfl | hsub
        · exact filterMapE_measure_lt bv _ (specEnum_steps bv nv idx _).1 (specEnum_steps bv nv idx _).2
            r0 rest _ hbv hs'
        · exact ih (idx + 1) rest' hrest sub hsub

theorem plan_measure (S : Sig) {n : Nat} {bv : String} {bty ty : Ty} {r0 : Row β} {rest : List (Row β)}
    {pl : Plan β} (hplan : plan S n bv bty ty (r0 :: rest) = .ok pl) (hbv : ∃ p, (bv, p) ∈ r0.cols) :
    ∀ sub ∈ pl.subs, measure sub < measure (r0 :: rest) := by
  unfold plan at hplan
  split at hplan
  · cases hplan
  · exact litPlan_measure hplan hbv
  · exact litPlan_measure hplan hbv
  · split at hplan
    · cases hplan
    · split at hplan
      · cases hplan
      · cases hplan
      · exact litPlan_measure hplan hbv
  · split at hplan
    · cases hplan
    · exact litPlan_measure hplan hbv
  · split at hplan
    · cases hplan
    · split at hplan
      · cases hplan
      · dsimp only at hplan
        split at hplan
        · cases hplan
        · rename_i subs hsubs
          cases hplan
          exact enumSubs_measure hbv _ _ subs hsubs
  · split at hplan
    · cases hplan
    · split at hplan
      · cases hplan
      · dsimp only at hplan
        split at hplan
        · cases hplan
        · rename_i s hs
          cases hplan
          intro sub hsub
          simp only [List.mem_singleton] at hsub
          subst hsub
          exact filterMapE_measure_lt bv _ (specStruct_steps bv _).1 (specStruct_steps bv _).2 r0 rest _ hbv hs
  · dsimp only at hplan
    split at hplan
    · cases hplan
    · rename_i s hs
      cases hplan
      intro sub hsub
      simp only [List.mem_singleton] at hsub
      subst hsub
      exact filterMapE_measure_lt bv _ (specTuple_steps bv _).1 (specTuple_steps bv _).2 r0 rest _ hbv hs

theorem compileSeq_ne_none {rec : Nat → List (Row β) → Option (M (DT β × Nat))} :
    ∀ (subs : List (List (Row β))) (n : Nat), (∀ sub ∈ subs, ∀ m, rec m sub ≠ none) →
      compileSeq rec n subs ≠ none := by
  intro subs
  induction subs with
  | nil => intro n _; simp [compileSeq]
  | cons rs rest ih =>
    intro n h
    simp only [compileSeq]
    have h0 := h rs (by simp) n
    split
    · rename_i e; exact absurd e h0
    · simp
    · rename_i r hr
      have := ih r.2 (fun sub hsub => h sub (by simp [hsub]))
      split
      · rename_i e; exact absurd e this
      · simp
      · simp

end Goml.Match
