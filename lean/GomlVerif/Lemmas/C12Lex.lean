import GomlVerif.Model.Lex
/-! helper lemmas for `Props/C12.lean`: UTF-8 boundaries, the multi-line scanner, candidates -/
namespace Goml.Lex

/-! ### UTF-8 -/

theorem utf8_length (c : Char) : (utf8 c).length = utf8Len c := by
  unfold utf8 utf8Len
  simp only
  split
  · rfl
  · split
    · rfl
    · split <;> rfl

theorem utf8Len_pos (c : Char) : 0 < utf8Len c := by
  unfold utf8Len; simp only; split
  · omega
  · split
    · omega
    · split <;> omega

theorem utf8s_length (cs : List Char) : (utf8s cs).length = byteLen cs := by
  induction cs with
  | nil => rfl
  | cons c cs ih => simp [utf8s, byteLen, utf8_length, ih]

theorem byteLen_append (a b : List Char) : byteLen (a ++ b) = byteLen a + byteLen b := by
  induction a with
  | nil => simp [byteLen]
  | cons c cs ih => simp [byteLen, ih]; omega

/-- every byte of a scalar's encoding after the first is a continuation byte -/
theorem utf8_cont (c : Char) (i : Nat) (hi : 1 ≤ i) (v : Nat) (h : (utf8 c)[i]? = some v) : 128 ≤ v := by
  unfold utf8 at h
  simp only at h
  split at h
  · match i, hi with
    | i + 1, _ => simp at h
  · split at h
    · match i, hi with
      | 1, _ => simp at h; omega
      | i + 2, _ => simp at h
    · split at h
      · match i, hi with
        | 1, _ => simp at h; omega
        | 2, _ => simp at h; omega
        | i + 3, _ => simp at h
      · match i, hi with
        | 1, _ => simp at h; omega
        | 2, _ => simp at h; omega
        | 3, _ => simp at h; omega
        | i + 4, _ => simp at h

/-- a byte `< 128` of the encoding of `cs` starts a scalar: its offset is a char boundary -/
theorem boundary_of_ascii (cs : List Char) (n v : Nat) (h : (utf8s cs)[n]? = some v) (hv : v < 128) :
    ∃ k, charsOfBytes cs n = some k ∧ k ≤ cs.length := by
  induction cs generalizing n with
  | nil => simp [utf8s] at h
  | cons c cs ih =>
    match n with
    | 0 => exact ⟨0, by simp [charsOfBytes], by omega⟩
    | n + 1 =>
      simp only [utf8s] at h
      by_cases hlt : n + 1 < (utf8 c).length
      · rw [List.getElem?_append_left hlt] at h
        have := utf8_cont c (n + 1) (by omega) v h
        omega
      · rw [List.getElem?_append_right (by omega)] at h
        obtain ⟨k, hk, hkl⟩ := ih _ h
        rw [utf8_length] at hlt h hk
        refine ⟨k + 1, ?_, by simp; omega⟩
        simp only [charsOfBytes]
        rw [if_pos (by omega), hk]; rfl

theorem boundary_at_end (cs : List Char) : charsOfBytes cs (byteLen cs) = some cs.length := by
  induction cs with
  | nil => simp [charsOfBytes, byteLen]
  | cons c cs ih =>
    have hp := utf8Len_pos c
    simp only [byteLen]
    obtain ⟨m, hm⟩ : ∃ m, utf8Len c + byteLen cs = m + 1 := ⟨utf8Len c + byteLen cs - 1, by omega⟩
    rw [hm]
    simp only [charsOfBytes]
    rw [if_pos (by omega)]
    have : m + 1 - utf8Len c = byteLen cs := by omega
    rw [this, ih]; rfl

/-! ### the multi-line scanner stops on `\n` or at the end -/

theorem scanWhile_le (p : Nat → Bool) (b : List Nat) (i : Nat) (h : i ≤ b.length) :
    scanWhile p b i ≤ b.length := by
  fun_induction scanWhile p b i <;> omega

theorem scanWhile_stop (p : Nat → Bool) (b : List Nat) (i : Nat)
    (h : scanWhile p b i < b.length) : ∃ v, b[scanWhile p b i]? = some v ∧ p v = false := by
  fun_induction scanWhile p b i with
  | case1 i hi hp ih => exact ih h
  | case2 i hi hp => exact ⟨b[i], by simp [hi], by simpa using hp⟩
  | case3 i hi => omega

/-- where `lex_multiline_str` may stop -/
def StopPoint (b : List Nat) (n : Nat) : Prop := n = b.length ∨ b[n]? = some 10

theorem mlLoop_stop (b : List Nat) (c l n : Nat) (hc1 : 1 ≤ c) (hc : c ≤ b.length)
    (hnl : b[c - 1]? = some 10) (h : mlLoop b c l = some n) : StopPoint b n := by
  fun_induction mlLoop b c l with
  | case1 c l ls hge hl => simp at h
  | case2 c l ls hge hl =>
    simp only [Option.some.injEq] at h; subst h; left
    have : ls = c := rfl
    omega
  | case3 c l ls hlt idx hbad hl =>
    simp only [Option.some.injEq] at h; subst h; right; exact hnl
  | case4 c l ls hlt idx hbad hl => simp at h
  | case5 c l ls hlt idx hok idx2 l' hge hl => simp at h
  | case6 c l ls hlt idx hok idx2 l' hge hl =>
    simp only [Option.some.injEq] at h; subst h; left
    have h2 : idx + 2 ≤ b.length := by
      simp only [ge_iff_le, Bool.or_eq_true, decide_eq_true_eq, not_or, Nat.not_le] at hok
      omega
    have h3 : idx2 ≤ b.length := scanWhile_le (fun c => c != 10) b _ h2
    omega
  | case7 c l ls hlt idx hok idx2 l' hlt2 ih =>
    have h1 : c ≤ idx := le_scanWhile (fun c => c == 32 || c == 9) b c
    have h2 : idx + 2 ≤ idx2 := le_scanWhile (fun c => c != 10) b (idx + 2)
    obtain ⟨v, hv, hp⟩ : ∃ v, b[idx2]? = some v ∧ (fun c => c != 10) v = false :=
      scanWhile_stop (fun c => c != 10) b (idx + 2) (by omega)
    have hv10 : v = 10 := by simpa using hp
    subst hv10
    exact ih (by omega) (by omega) (by simpa using hv) h

theorem lexMultilineStr_stop (b : List Nat) (n : Nat) (h : lexMultilineStr b = some n) :
    StopPoint b n := by
  unfold lexMultilineStr at h
  simp only at h
  split at h
  · simp at h
  · rename_i hlt
    obtain ⟨v, hv, hp⟩ := scanWhile_stop (fun c => c != 10) b 0 (by omega)
    have hv10 : v = 10 := by simpa using hp
    subst hv10
    exact mlLoop_stop b _ 1 n (by omega) (by omega) (by simpa using hv) h

/-- `multiline_boundaries`, general form: the byte count the scanner hands to `bump` is a
char boundary of the remainder -/
theorem lexMultilineStr_boundary (cs : List Char) (n : Nat) (h : lexMultilineStr (utf8s cs) = some n) :
    ∃ k, charsOfBytes cs n = some k ∧ k ≤ cs.length := by
  rcases lexMultilineStr_stop _ _ h with he | hn
  · rw [he, utf8s_length]; exact ⟨cs.length, boundary_at_end cs, Nat.le_refl _⟩
  · exact boundary_of_ascii cs n 10 hn (by omega)

/-! ### candidates -/

theorem litCands_pos (s : List Char) (lits : List (Nat × List Char)) :
    ∀ c ∈ litCands s lits, 0 < c.len := by
  induction lits with
  | nil => intro c hc; simp [litCands] at hc
  | cons x xs ih =>
    obtain ⟨k, lit⟩ := x
    intro c hc
    simp only [litCands] at hc
    split at hc
    · rename_i hcond
      rcases List.mem_cons.1 hc with rfl | hc
      · simp only
        cases lit with
        | nil => exact absurd rfl hcond.1
        | cons a as => simp
      · exact ih c hc
    · exact ih c hc

theorem reCands_pos (s : List Char) (rs : List RegexRule) : ∀ c ∈ reCands s rs, 0 < c.len := by
  induction rs with
  | nil => intro c hc; simp [reCands] at hc
  | cons r rs ih =>
    intro c hc
    simp only [reCands] at hc
    split at hc
    · rcases List.mem_cons.1 hc with rfl | hc
      · simp
      · exact ih c hc
    · exact ih c hc

theorem pickBest_mem (init : Option Cand) (cs : List Cand) (c : Cand)
    (h : pickBest init cs = some c) : init = some c ∨ c ∈ cs := by
  induction cs generalizing init with
  | nil => left; simpa [pickBest] using h
  | cons x xs ih =>
    cases init with
    | none =>
      simp only [pickBest] at h
      rcases ih _ h with h1 | h1
      · right; simp only [Option.some.injEq] at h1; simp [h1]
      · right; exact List.mem_cons_of_mem _ h1
    | some b =>
      simp only [pickBest] at h
      rcases ih _ h with h1 | h1
      · simp only [Option.some.injEq] at h1
        split at h1
        · right; simp [h1]
        · left; simp [h1]
      · right; exact List.mem_cons_of_mem _ h1

theorem longestMatch_tok_pos (rules : Rules) (s : List Char) (k n : Nat)
    (h : longestMatch rules s = .tok k n) : 0 < n := by
  unfold longestMatch at h
  split at h
  · simp at h
  · rename_i c hc
    have hpos : 0 < c.len := by
      rcases pickBest_mem _ _ _ hc with h0 | hm
      · simp at h0
      · rcases List.mem_append.1 hm with hm | hm
        · exact litCands_pos _ _ _ hm
        · exact reCands_pos _ _ _ hm
    split at h
    · simp only at h
      split at h
      · simp at h
      · split at h
        · simp only [Step.tok.injEq] at h; omega
        · simp at h
    · simp only [Step.tok.injEq] at h; omega

theorem longestMatch_no_badBump (rules : Rules) (s : List Char) (nb : Nat) :
    longestMatch rules s ≠ .badBump nb := by
  intro h
  unfold longestMatch at h
  split at h
  · simp at h
  · split at h
    · simp only at h
      split at h
      · simp at h
      · rename_i nb' hml
        obtain ⟨k, hk, _⟩ := lexMultilineStr_boundary _ _ hml
        rw [hk] at h
        simp at h
    · simp at h

/-! ### a match is never longer than the input -/

theorem longestGo_le (r : Re) (s : List Char) (n : Nat) (best : Option Nat) (m : Nat)
    (h : r.longestGo s n best = some m) : m ≤ n + s.length ∨ best = some m := by
  induction s generalizing r n best with
  | nil =>
    simp only [Re.longestGo] at h
    split at h
    · simp only [Option.some.injEq] at h; left; simp; omega
    · right; exact h
  | cons c cs ih =>
    simp only [Re.longestGo] at h
    split at h
    · split at h
      · simp only [Option.some.injEq] at h; left; simp; omega
      · right; exact h
    · rcases ih _ _ _ h with h1 | h1
      · left; simp only [List.length_cons]; omega
      · split at h1
        · simp only [Option.some.injEq] at h1; left; simp; omega
        · right; exact h1

theorem longest_le (r : Re) (s : List Char) (m : Nat) (h : r.longest s = some m) : m ≤ s.length := by
  rcases longestGo_le r s 0 none m h with h1 | h1
  · omega
  · simp at h1

theorem isPrefix_length (a b : List Char) (h : isPrefix a b = true) : a.length ≤ b.length := by
  induction a generalizing b with
  | nil => simp
  | cons x xs ih =>
    cases b with
    | nil => simp [isPrefix] at h
    | cons y ys =>
      simp only [isPrefix, Bool.and_eq_true] at h
      have := ih ys h.2
      simp only [List.length_cons]; omega

theorem litCands_le (s : List Char) (lits : List (Nat × List Char)) :
    ∀ c ∈ litCands s lits, c.len ≤ s.length := by
  induction lits with
  | nil => intro c hc; simp [litCands] at hc
  | cons x xs ih =>
    obtain ⟨k, lit⟩ := x
    intro c hc
    simp only [litCands] at hc
    split at hc
    · rename_i hcond
      rcases List.mem_cons.1 hc with rfl | hc
      · exact isPrefix_length _ _ hcond.2
      · exact ih c hc
    · exact ih c hc

theorem reCands_le (s : List Char) (rs : List RegexRule) : ∀ c ∈ reCands s rs, c.len ≤ s.length := by
  induction rs with
  | nil => intro c hc; simp [reCands] at hc
  | cons r rs ih =>
    intro c hc
    simp only [reCands] at hc
    split at hc
    · rename_i n hl
      rcases List.mem_cons.1 hc with rfl | hc
      · exact longest_le _ _ _ hl
      · exact ih c hc
    · exact ih c hc

theorem longestMatch_len_le (rules : Rules) (s : List Char) (k n : Nat)
    (h : longestMatch rules s = .tok k n) : n ≤ s.length := by
  unfold longestMatch at h
  split at h
  · simp at h
  · rename_i c hc
    have hle : c.len ≤ s.length := by
      rcases pickBest_mem _ _ _ hc with h0 | hm
      · simp at h0
      · rcases List.mem_append.1 hm with hm | hm
        · exact litCands_le _ _ _ hm
        · exact reCands_le _ _ _ hm
    split at h
    · simp only at h
      split at h
      · simp at h
      · rename_i nb hml
        obtain ⟨k', hk', hkl⟩ := lexMultilineStr_boundary _ _ hml
        rw [hk'] at h
        simp only [Step.tok.injEq] at h
        simp only [List.length_drop] at hkl
        omega
    · simp only [Step.tok.injEq] at h; omega

/-! ### the token loop -/

def textOf (ts : List Tok) : List Char := ts.flatMap (·.text)

theorem textOf_append (a b : List Tok) : textOf (a ++ b) = textOf a ++ textOf b := by
  simp [textOf]

theorem textOf_cons (t : Tok) (ts : List Tok) : textOf (t :: ts) = t.text ++ textOf ts := by
  simp [textOf]

theorem LexResult.cons_ok (t : Tok) (r : LexResult) (ts : List Tok) (h : r = .ok ts) :
    r.cons t = .ok (t :: ts) := by subst h; rfl

theorem lexLoop_tiles (rules : Rules) (errLen : Nat → Nat) (he : ∀ p, 0 < errLen p) :
    ∀ (fuel pos : Nat) (rest : List Char), rest.length < fuel →
      ∃ ts, lexLoop rules errLen fuel pos rest = .ok ts ∧ textOf ts = rest ∧ ∀ t ∈ ts, t.text ≠ [] := by
  intro fuel
  induction fuel with
  | zero => intro pos rest h; omega
  | succ fuel ih =>
    intro pos rest hlen
    cases rest with
    | nil => exact ⟨[], by simp [lexLoop], rfl, by simp⟩
    | cons c cs =>
      simp only [lexLoop]
      have step : ∀ (k n : Nat), 0 < n →
          ∃ ts, (lexLoop rules errLen fuel (pos + n) ((c :: cs).drop n)).cons ⟨k, (c :: cs).take n⟩ = .ok ts ∧
            textOf ts = c :: cs ∧ ∀ t ∈ ts, t.text ≠ [] := by
        intro k n hn
        have hl : ((c :: cs).drop n).length < fuel := by
          simp only [List.length_drop, List.length_cons] at *; omega
        obtain ⟨ts, h1, h2, h3⟩ := ih (pos + n) _ hl
        refine ⟨⟨k, (c :: cs).take n⟩ :: ts, LexResult.cons_ok _ _ _ h1, ?_, ?_⟩
        · simp only [textOf, List.flatMap_cons] at *
          rw [h2]; exact List.take_append_drop n (c :: cs)
        · intro t ht
          rcases List.mem_cons.1 ht with rfl | ht
          · obtain ⟨m, rfl⟩ : ∃ m, n = m + 1 := ⟨n - 1, by omega⟩
            simp
          · exact h3 t ht
      cases hm : longestMatch rules (c :: cs) with
      | tok k n =>
        have hn := longestMatch_tok_pos _ _ _ _ hm
        simp only [if_neg (Nat.ne_of_gt hn)]
        exact step k n hn
      | noMatch =>
        have hn := he pos
        simp only [if_neg (Nat.ne_of_gt hn)]
        exact step _ _ hn
      | badBump nb => exact absurd hm (longestMatch_no_badBump _ _ _)

theorem tiles_of_nonempty (ts : List Tok) (h : ∀ t ∈ ts, t.text ≠ []) (off : Nat) :
    Tiles off (ranges off ts) (off + byteLen (textOf ts)) := by
  induction ts generalizing off with
  | nil => simp [ranges, Tiles, textOf, byteLen]
  | cons t ts ih =>
    simp only [ranges, Tiles, textOf_cons, byteLen_append, true_and]
    have hpos : 0 < byteLen t.text := by
      cases ht : t.text with
      | nil => exact absurd ht (h t (by simp))
      | cons c cs => have := utf8Len_pos c; simp only [byteLen]; omega
    refine ⟨by omega, ?_⟩
    have := ih (fun t' ht' => h t' (List.mem_cons_of_mem _ ht')) (off + byteLen t.text)
    rw [Nat.add_assoc] at this
    exact this

theorem charsOfBytes_prefix (a b : List Char) : charsOfBytes (a ++ b) (byteLen a) = some a.length := by
  induction a with
  | nil => cases b <;> simp [charsOfBytes, byteLen]
  | cons c cs ih =>
    have hp := utf8Len_pos c
    simp only [byteLen, List.cons_append]
    obtain ⟨m, hm⟩ : ∃ m, utf8Len c + byteLen cs = m + 1 := ⟨utf8Len c + byteLen cs - 1, by omega⟩
    rw [hm]
    simp only [charsOfBytes]
    rw [if_pos (by omega)]
    have : m + 1 - utf8Len c = byteLen cs := by omega
    rw [this, ih]; rfl

theorem range_ends_are_boundaries (ts : List Tok) (pre : List Char) :
    ∀ r ∈ ranges (byteLen pre) ts, ∃ k, charsOfBytes (pre ++ textOf ts) r.2 = some k := by
  induction ts generalizing pre with
  | nil => intro r hr; simp [ranges] at hr
  | cons t ts ih =>
    intro r hr
    simp only [ranges] at hr
    rcases List.mem_cons.1 hr with rfl | hr
    · refine ⟨(pre ++ t.text).length, ?_⟩
      simp only
      rw [textOf_cons, ← List.append_assoc, ← byteLen_append]
      exact charsOfBytes_prefix _ _
    · have := ih (pre ++ t.text) r (by rw [byteLen_append]; exact hr)
      rw [textOf_cons, ← List.append_assoc]
      exact this


theorem lexLoop_longestMatch (rules : Rules) (errLen : Nat → Nat) : ∀ (fuel pos : Nat) (rest : List Char) (ts : List Tok),
    lexLoop rules errLen fuel pos rest = .ok ts → textOf ts = rest ∧
    ∀ (pre : List Tok) (t : Tok) (post : List Tok), ts = pre ++ t :: post →
      longestMatch rules (textOf (t :: post)) = .tok t.kind t.text.length ∨
        (longestMatch rules (textOf (t :: post)) = .noMatch ∧ t.kind = rules.errorKind) := by
  intro fuel
  induction fuel with
  | zero =>
    intro pos rest ts h
    cases rest with
    | nil => simp only [lexLoop, LexResult.ok.injEq] at h; subst h
             exact ⟨rfl, by intro pre t post hp; simp at hp⟩
    | cons c cs => simp [lexLoop] at h
  | succ fuel ih =>
    intro pos rest ts h
    cases rest with
    | nil => simp only [lexLoop, LexResult.ok.injEq] at h; subst h
             exact ⟨rfl, by intro pre t post hp; simp at hp⟩
    | cons c cs =>
      simp only [lexLoop] at h
      have step : ∀ (k n : Nat) (ts : List Tok), 0 < n →
          (lexLoop rules errLen fuel (pos + n) ((c :: cs).drop n)).cons ⟨k, (c :: cs).take n⟩ = .ok ts →
          ∃ ts', ts = ⟨k, (c :: cs).take n⟩ :: ts' ∧ textOf ts' = (c :: cs).drop n ∧
            (∀ (pre : List Tok) (t : Tok) (post : List Tok), ts' = pre ++ t :: post →
              longestMatch rules (textOf (t :: post)) = .tok t.kind t.text.length ∨
                (longestMatch rules (textOf (t :: post)) = .noMatch ∧ t.kind = rules.errorKind)) := by
        intro k n ts hn hc
        cases hr : lexLoop rules errLen fuel (pos + n) ((c :: cs).drop n) with
        | ok ts' =>
          rw [hr] at hc
          simp only [LexResult.cons, LexResult.ok.injEq] at hc
          obtain ⟨e1, e2⟩ := ih _ _ _ hr
          exact ⟨ts', hc.symm, e1, e2⟩
        | stuck a b => rw [hr] at hc; simp [LexResult.cons] at hc
        | panic a b => rw [hr] at hc; simp [LexResult.cons] at hc
      cases hm : longestMatch rules (c :: cs) with
      | tok k n =>
        rw [hm] at h
        simp only at h
        have hn := longestMatch_tok_pos _ _ _ _ hm
        rw [if_neg (Nat.ne_of_gt hn)] at h
        obtain ⟨ts', e0, e1, e2⟩ := step k n ts hn h
        subst e0
        have htext : textOf (⟨k, (c :: cs).take n⟩ :: ts') = c :: cs := by
          rw [textOf_cons, e1]; exact List.take_append_drop n (c :: cs)
        refine ⟨htext, ?_⟩
        intro pre t post hp
        cases pre with
        | nil =>
          simp only [List.nil_append, List.cons.injEq] at hp
          obtain ⟨rfl, rfl⟩ := hp
          left
          rw [htext, hm]
          have hle : n ≤ (c :: cs).length := longestMatch_len_le rules (c :: cs) k n hm
          simp only [List.length_take, List.length_cons] at hle ⊢
          rw [Nat.min_eq_left hle]
        | cons p pre' =>
          simp only [List.cons_append, List.cons.injEq] at hp
          exact e2 pre' t post hp.2
      | noMatch =>
        rw [hm] at h
        simp only at h
        by_cases hn : errLen pos = 0
        · simp [hn] at h
        · rw [if_neg hn] at h
          obtain ⟨ts', e0, e1, e2⟩ := step _ _ ts (Nat.pos_of_ne_zero hn) h
          subst e0
          have htext : textOf (⟨rules.errorKind, (c :: cs).take (errLen pos)⟩ :: ts') = c :: cs := by
            rw [textOf_cons, e1]; exact List.take_append_drop _ (c :: cs)
          refine ⟨htext, ?_⟩
          intro pre t post hp
          cases pre with
          | nil =>
            simp only [List.nil_append, List.cons.injEq] at hp
            obtain ⟨rfl, rfl⟩ := hp
            right
            rw [htext, hm]; exact ⟨rfl, rfl⟩
          | cons p pre' =>
            simp only [List.cons_append, List.cons.injEq] at hp
            exact e2 pre' t post hp.2
      | badBump nb => exact absurd hm (longestMatch_no_badBump _ _ _)

end Goml.Lex
