import GomlVerif.Lemmas.C12Lex
/-! declarative meaning of the regex AST and correctness of the derivative matcher -/
namespace Goml.Lex
namespace Re

/-- `Matches r w`: the word `w` (scalar values) is in the language of `r` -/
inductive Matches : Re → List Nat → Prop
  | eps : Matches .eps []
  | chr (c : Nat) : Matches (.chr c) [c]
  | cls (neg : Bool) (rs : List (Nat × Nat)) (c : Nat) : (inRanges c rs != neg) = true → Matches (.cls neg rs) [c]
  | seq {a b : Re} {u v : List Nat} : Matches a u → Matches b v → Matches (.seq a b) (u ++ v)
  | altL {a b : Re} {u : List Nat} : Matches a u → Matches (.alt a b) u
  | altR {a b : Re} {u : List Nat} : Matches b u → Matches (.alt a b) u
  | starNil {a : Re} : Matches (.star a) []
  | starCons {a : Re} {u v : List Nat} : Matches a u → Matches (.star a) v → Matches (.star a) (u ++ v)

theorem not_matches_none (w : List Nat) : ¬ Matches .none w := by
  intro h; cases h

theorem matches_nil_of_nullable : ∀ (r : Re), nullable r = true → Matches r []
  | .none, h => by simp [nullable] at h
  | .eps, _ => .eps
  | .chr _, h => by simp [nullable] at h
  | .cls _ _, h => by simp [nullable] at h
  | .seq a b, h => by
      simp only [nullable, Bool.and_eq_true] at h
      have := Matches.seq (matches_nil_of_nullable a h.1) (matches_nil_of_nullable b h.2)
      simpa using this
  | .alt a b, h => by
      simp only [nullable, Bool.or_eq_true] at h
      rcases h with h | h
      · exact .altL (matches_nil_of_nullable a h)
      · exact .altR (matches_nil_of_nullable b h)
  | .star _, _ => .starNil

theorem nullable_of_matches_nil {r : Re} {w : List Nat} (h : Matches r w) (hw : w = []) : nullable r = true := by
  induction h with
  | eps => rfl
  | chr c => simp at hw
  | cls neg rs c _ => simp at hw
  | seq _ _ iha ihb =>
    simp only [List.append_eq_nil_iff] at hw
    simp [nullable, iha hw.1, ihb hw.2]
  | altL _ ih => simp [nullable, ih hw]
  | altR _ ih => simp [nullable, ih hw]
  | starNil => rfl
  | starCons _ _ _ _ => rfl

theorem nullable_iff (r : Re) : nullable r = true ↔ Matches r [] :=
  ⟨matches_nil_of_nullable r, fun h => nullable_of_matches_nil h rfl⟩

theorem mkSeq_matches (a b : Re) (w : List Nat) : Matches (mkSeq a b) w ↔ Matches (.seq a b) w := by
  unfold mkSeq
  split
  · constructor
    · intro h; cases h
    · intro h; cases h with | seq ha _ => cases ha
  · constructor
    · intro h; have := Matches.seq .eps h; simpa using this
    · intro h
      cases h with
      | seq ha hb => cases ha; simpa using hb
  · split
    · rename_i hb
      subst hb
      constructor
      · intro h; cases h
      · intro h; cases h with | seq _ hb => cases hb
    · exact Iff.rfl

theorem mkAlt_matches (a b : Re) (w : List Nat) : Matches (mkAlt a b) w ↔ Matches (.alt a b) w := by
  unfold mkAlt
  split
  · constructor
    · intro h; exact .altR h
    · intro h
      cases h with
      | altL h => cases h
      | altR h => exact h
  · split
    · rename_i hb
      subst hb
      constructor
      · intro h; exact .altL h
      · intro h
        cases h with
        | altL h => exact h
        | altR h => cases h
    · exact Iff.rfl

theorem star_cons_inv {a : Re} {x : List Nat} (h : Matches (.star a) x) :
    ∀ (c : Nat) (w : List Nat), x = c :: w →
      ∃ u v, w = u ++ v ∧ Matches a (c :: u) ∧ Matches (.star a) v := by
  generalize hr : Re.star a = r at h
  induction h with
  | eps => cases hr
  | chr _ => cases hr
  | cls _ _ _ _ => cases hr
  | seq _ _ _ _ => cases hr
  | altL _ _ => cases hr
  | altR _ _ => cases hr
  | starNil => intro c w hx; simp at hx
  | @starCons a' u v hu hv _ ihv =>
    cases hr
    intro c w hx
    cases u with
    | nil => simp only [List.nil_append] at hx; exact ihv rfl c w hx
    | cons d u' =>
      simp only [List.cons_append, List.cons.injEq] at hx
      obtain ⟨rfl, rfl⟩ := hx
      exact ⟨u', v, rfl, hu, hv⟩

theorem deriv_matches : ∀ (r : Re) (c : Nat) (w : List Nat), Matches (deriv c r) w ↔ Matches r (c :: w)
  | .none, c, w => by simp only [deriv]; constructor <;> (intro h; cases h)
  | .eps, c, w => by simp only [deriv]; constructor <;> (intro h; cases h)
  | .chr d, c, w => by
      simp only [deriv]
      split
      · rename_i h; subst h
        constructor
        · intro h; cases h; exact .chr c
        · intro h; cases h; exact .eps
      · rename_i hne
        constructor
        · intro h; cases h
        · intro h; cases h; exact absurd rfl hne
  | .cls neg rs, c, w => by
      simp only [deriv]
      split
      · rename_i hc
        constructor
        · intro h; cases h; exact .cls neg rs c hc
        · intro h; cases h; exact .eps
      · rename_i hc
        constructor
        · intro h; cases h
        · intro h; cases h with | cls _ _ _ h' => exact absurd h' hc
  | .seq a b, c, w => by
      have iha := deriv_matches a c
      have ihb := deriv_matches b c
      simp only [deriv]
      split
      · rename_i hn
        rw [mkAlt_matches]
        constructor
        · intro h
          cases h with
          | altL h =>
            rw [mkSeq_matches] at h
            cases h with
            | seq h1 h2 => have := Matches.seq ((iha _).1 h1) h2; simpa using this
          | altR h =>
            have := Matches.seq ((nullable_iff a).1 hn) ((ihb _).1 h); simpa using this
        · intro h
          generalize hx : c :: w = x at h
          cases h with
          | @seq _ _ u v h1 h2 =>
            cases u with
            | nil =>
              simp only [List.nil_append] at hx; subst hx
              exact .altR ((ihb _).2 h2)
            | cons d u' =>
              simp only [List.cons_append, List.cons.injEq] at hx
              obtain ⟨rfl, rfl⟩ := hx
              exact .altL ((mkSeq_matches _ _ _).2 (.seq ((iha _).2 h1) h2))
      · rename_i hn
        rw [mkSeq_matches]
        constructor
        · intro h
          cases h with
          | seq h1 h2 => have := Matches.seq ((iha _).1 h1) h2; simpa using this
        · intro h
          generalize hx : c :: w = x at h
          cases h with
          | @seq _ _ u v h1 h2 =>
            cases u with
            | nil => exact absurd ((nullable_iff a).2 h1) hn
            | cons d u' =>
              simp only [List.cons_append, List.cons.injEq] at hx
              obtain ⟨rfl, rfl⟩ := hx
              exact .seq ((iha _).2 h1) h2
  | .alt a b, c, w => by
      have iha := deriv_matches a c
      have ihb := deriv_matches b c
      simp only [deriv]
      rw [mkAlt_matches]
      constructor
      · intro h
        cases h with
        | altL h => exact .altL ((iha _).1 h)
        | altR h => exact .altR ((ihb _).1 h)
      · intro h
        cases h with
        | altL h => exact .altL ((iha _).2 h)
        | altR h => exact .altR ((ihb _).2 h)
  | .star a, c, w => by
      have iha := deriv_matches a c
      simp only [deriv]
      rw [mkSeq_matches]
      constructor
      · intro h
        cases h with
        | seq h1 h2 => have := Matches.starCons ((iha _).1 h1) h2; simpa using this
      · intro h
        obtain ⟨u, v, rfl, h1, h2⟩ := star_cons_inv h c w rfl
        exact .seq ((iha _).2 h1) h2

/-- the word of a text -/
def word (s : List Char) : List Nat := s.map Char.toNat

theorem longestGo_mono (r : Re) (s : List Char) (n : Nat) (best : Option Nat)
    (hb : ∀ b, best = some b → b ≤ n) :
    ∀ b, best = some b → ∃ m, longestGo r s n best = some m ∧ b ≤ m := by
  induction s generalizing r n best with
  | nil =>
    intro b hbest
    simp only [longestGo]
    split
    · exact ⟨n, rfl, hb b hbest⟩
    · exact ⟨b, hbest, Nat.le_refl _⟩
  | cons c cs ih =>
    intro b hbest
    simp only [longestGo]
    have hb' : ∀ b', (if nullable r = true then some n else best) = some b' → b' ≤ n + 1 := by
      intro b' h'
      split at h'
      · simp only [Option.some.injEq] at h'; omega
      · have := hb b' h'; omega
    have hge : ∃ b', (if nullable r = true then some n else best) = some b' ∧ b ≤ b' := by
      split
      · exact ⟨n, rfl, hb b hbest⟩
      · exact ⟨b, hbest, Nat.le_refl _⟩
    obtain ⟨b', e1, e2⟩ := hge
    split
    · exact ⟨b', e1, e2⟩
    · obtain ⟨m, h1, h2⟩ := ih _ (n + 1) _ hb' b' e1
      exact ⟨m, h1, by omega⟩

/-- maximality: every matched prefix is no longer than the answer -/
theorem longestGo_max (r : Re) (s : List Char) (n : Nat) (best : Option Nat)
    (hb : ∀ b, best = some b → b ≤ n) (k : Nat) (hk : k ≤ s.length)
    (hm : Matches r (word (s.take k))) : ∃ m, longestGo r s n best = some m ∧ n + k ≤ m := by
  induction s generalizing r n best k with
  | nil =>
    simp only [List.length_nil, Nat.le_zero_eq] at hk; subst hk
    simp only [List.take_nil, word, List.map_nil] at hm
    simp only [longestGo, (nullable_iff r).2 hm, if_true]
    exact ⟨n, rfl, by omega⟩
  | cons c cs ih =>
    simp only [longestGo]
    have hb' : ∀ b', (if nullable r = true then some n else best) = some b' → b' ≤ n + 1 := by
      intro b' h'
      split at h'
      · simp only [Option.some.injEq] at h'; omega
      · have := hb b' h'; omega
    cases k with
    | zero =>
      simp only [List.take_zero, word, List.map_nil] at hm
      have hn := (nullable_iff r).2 hm
      simp only [hn, if_true]
      split
      · exact ⟨n, rfl, by omega⟩
      · obtain ⟨m, h1, h2⟩ := longestGo_mono (deriv c.toNat r) cs (n + 1) (some n)
          (by intro b h; simp only [Option.some.injEq] at h; omega) n rfl
        exact ⟨m, h1, by omega⟩
    | succ k' =>
      simp only [List.take_succ_cons, word, List.map_cons] at hm
      have hd : Matches (deriv c.toNat r) (word (cs.take k')) := (deriv_matches r c.toNat _).2 hm
      have hne : deriv c.toNat r ≠ .none := by
        intro h; rw [h] at hd; exact not_matches_none _ hd
      simp only [hne, if_false]
      obtain ⟨m, h1, h2⟩ := ih (deriv c.toNat r) (n + 1) _ hb' k' (by simpa using hk) hd
      exact ⟨m, h1, by omega⟩

/-- soundness: the answer is the old best or a matched prefix -/
theorem longestGo_sound (r : Re) (s : List Char) (n : Nat) (best : Option Nat) (m : Nat)
    (h : longestGo r s n best = some m) :
    best = some m ∨ ∃ k, k ≤ s.length ∧ m = n + k ∧ Matches r (word (s.take k)) := by
  induction s generalizing r n best with
  | nil =>
    simp only [longestGo] at h
    split at h
    · rename_i hn
      simp only [Option.some.injEq] at h
      exact .inr ⟨0, by simp, by omega, by simpa [word] using (nullable_iff r).1 hn⟩
    · exact .inl h
  | cons c cs ih =>
    simp only [longestGo] at h
    have hbest : ∀ m', (if nullable r = true then some n else best) = some m' →
        best = some m' ∨ ∃ k, k ≤ (c :: cs).length ∧ m' = n + k ∧ Matches r (word ((c :: cs).take k)) := by
      intro m' h'
      split at h'
      · rename_i hn
        simp only [Option.some.injEq] at h'
        exact .inr ⟨0, by simp, by omega, by simpa [word] using (nullable_iff r).1 hn⟩
      · exact .inl h'
    split at h
    · exact hbest m h
    · rcases ih _ _ _ h with h1 | ⟨k, hk, hm, hmat⟩
      · exact hbest m h1
      · refine .inr ⟨k + 1, by simpa using hk, by omega, ?_⟩
        simp only [List.take_succ_cons, word, List.map_cons]
        exact (deriv_matches r c.toNat _).1 hmat

theorem longest_max (r : Re) (s : List Char) (k : Nat) (hk : k ≤ s.length)
    (hm : Matches r (word (s.take k))) : ∃ m, longest r s = some m ∧ k ≤ m := by
  obtain ⟨m, h1, h2⟩ := longestGo_max r s 0 Option.none (by simp) k hk hm
  exact ⟨m, h1, by omega⟩

theorem longest_sound (r : Re) (s : List Char) (m : Nat) (h : longest r s = some m) :
    m ≤ s.length ∧ Matches r (word (s.take m)) := by
  rcases longestGo_sound r s 0 Option.none m h with h1 | ⟨k, hk, hm, hmat⟩
  · simp at h1
  · have : m = k := by omega
    subst this; exact ⟨hk, hmat⟩

end Re

/-! ### candidates are complete and `pickBest` keeps a longest one -/

theorem isPrefix_iff_take (a s : List Char) : isPrefix a s = true ↔ s.take a.length = a := by
  induction a generalizing s with
  | nil => simp [isPrefix]
  | cons x xs ih =>
    cases s with
    | nil => simp [isPrefix]
    | cons y ys =>
      simp only [isPrefix, Bool.and_eq_true, beq_iff_eq, List.length_cons, List.take_succ_cons,
        List.cons.injEq, ih]
      constructor
      · intro h; exact ⟨h.1.symm, h.2⟩
      · intro h; exact ⟨h.1.symm, h.2⟩

theorem litCands_complete (s : List Char) (lits : List (Nat × List Char)) (k : Nat) (lit : List Char)
    (hm : (k, lit) ∈ lits) (hne : lit ≠ []) (hp : isPrefix lit s = true) :
    ∃ c ∈ litCands s lits, c.len = lit.length := by
  induction lits with
  | nil => simp at hm
  | cons x xs ih =>
    obtain ⟨k', lit'⟩ := x
    simp only [litCands]
    rcases List.mem_cons.1 hm with heq | hm
    · simp only [Prod.mk.injEq] at heq
      obtain ⟨rfl, rfl⟩ := heq
      rw [if_pos ⟨hne, hp⟩]
      exact ⟨_, List.mem_cons_self, rfl⟩
    · obtain ⟨c, hc, hl⟩ := ih hm
      split
      · exact ⟨c, List.mem_cons_of_mem _ hc, hl⟩
      · exact ⟨c, hc, hl⟩

theorem reCands_complete (s : List Char) (rs : List RegexRule) (r : RegexRule) (hr : r ∈ rs)
    (j : Nat) (hj0 : 0 < j) (hj : j ≤ s.length) (hm : Re.Matches r.re (Re.word (s.take j))) :
    ∃ c ∈ reCands s rs, j ≤ c.len := by
  induction rs with
  | nil => simp at hr
  | cons x xs ih =>
    simp only [reCands]
    rcases List.mem_cons.1 hr with rfl | hr
    · obtain ⟨m, h1, h2⟩ := Re.longest_max r.re s j hj hm
      obtain ⟨m', rfl⟩ : ∃ m', m = m' + 1 := ⟨m - 1, by omega⟩
      rw [h1]
      exact ⟨_, List.mem_cons_self, h2⟩
    · obtain ⟨c, hc, hl⟩ := ih hr
      split
      · exact ⟨c, List.mem_cons_of_mem _ hc, hl⟩
      · exact ⟨c, hc, hl⟩

theorem pickBest_len_max (init : Option Cand) (cs : List Cand) (c : Cand)
    (h : pickBest init cs = some c) :
    (∀ b, init = some b → b.len ≤ c.len) ∧ ∀ x ∈ cs, x.len ≤ c.len := by
  induction cs generalizing init with
  | nil =>
    simp only [pickBest] at h
    exact ⟨by intro b hb; rw [hb] at h; simp only [Option.some.injEq] at h; subst h; exact Nat.le_refl _, by simp⟩
  | cons x xs ih =>
    cases init with
    | none =>
      simp only [pickBest] at h
      obtain ⟨h1, h2⟩ := ih _ h
      refine ⟨by simp, ?_⟩
      intro y hy
      rcases List.mem_cons.1 hy with rfl | hy
      · exact h1 _ rfl
      · exact h2 y hy
    | some b =>
      simp only [pickBest] at h
      obtain ⟨h1, h2⟩ := ih _ h
      have hb' := h1 _ rfl
      have hcmp : b.len ≤ (if x.beats b then x else b).len ∧ x.len ≤ (if x.beats b then x else b).len := by
        by_cases hbe : x.beats b = true
        · simp only [hbe, if_true]
          simp only [Cand.beats, Bool.or_eq_true, decide_eq_true_eq, Bool.and_eq_true, beq_iff_eq] at hbe
          omega
        · simp only [hbe, Bool.false_eq_true, if_false]
          simp only [Cand.beats, Bool.or_eq_true, decide_eq_true_eq, Bool.and_eq_true, beq_iff_eq, not_or] at hbe
          omega
      refine ⟨by intro b' hb''; simp only [Option.some.injEq] at hb''; subst hb''; omega, ?_⟩
      intro y hy
      rcases List.mem_cons.1 hy with rfl | hy
      · omega
      · exact h2 y hy

theorem pickBest_none (cs : List Cand) (h : pickBest none cs = none) : cs = [] := by
  cases cs with
  | nil => rfl
  | cons x xs =>
    simp only [pickBest] at h
    exfalso
    have : ∀ (b : Cand) (l : List Cand), pickBest (some b) l ≠ none := by
      intro b l
      induction l generalizing b with
      | nil => simp [pickBest]
      | cons y ys ih => simp only [pickBest]; exact ih _
    exact this _ _ h

theorem litCands_sound (s : List Char) (lits : List (Nat × List Char)) :
    ∀ c ∈ litCands s lits, c.callback = false ∧
      ∃ l ∈ lits, l.1 = c.kind ∧ l.2 ≠ [] ∧ l.2.length = c.len ∧ s.take c.len = l.2 := by
  induction lits with
  | nil => intro c hc; simp [litCands] at hc
  | cons x xs ih =>
    obtain ⟨k, lit⟩ := x
    intro c hc
    simp only [litCands] at hc
    split at hc
    · rename_i hcond
      rcases List.mem_cons.1 hc with rfl | hc
      · exact ⟨rfl, (k, lit), List.mem_cons_self, rfl, hcond.1, rfl, (isPrefix_iff_take _ _).1 hcond.2⟩
      · obtain ⟨h1, l, hl, h2⟩ := ih c hc
        exact ⟨h1, l, List.mem_cons_of_mem _ hl, h2⟩
    · obtain ⟨h1, l, hl, h2⟩ := ih c hc
      exact ⟨h1, l, List.mem_cons_of_mem _ hl, h2⟩

theorem reCands_sound (s : List Char) (rs : List RegexRule) :
    ∀ c ∈ reCands s rs, 0 < c.len ∧ c.len ≤ s.length ∧
      ∃ r ∈ rs, r.kind = c.kind ∧ r.callback.isSome = c.callback ∧ Re.Matches r.re (Re.word (s.take c.len)) := by
  induction rs with
  | nil => intro c hc; simp [reCands] at hc
  | cons r rs ih =>
    intro c hc
    simp only [reCands] at hc
    split at hc
    · rename_i n hl
      rcases List.mem_cons.1 hc with rfl | hc
      · obtain ⟨h1, h2⟩ := Re.longest_sound _ _ _ hl
        exact ⟨by simp, h1, r, List.mem_cons_self, rfl, rfl, h2⟩
      · obtain ⟨h0, h1, r', hr', h2⟩ := ih c hc
        exact ⟨h0, h1, r', List.mem_cons_of_mem _ hr', h2⟩
    · obtain ⟨h0, h1, r', hr', h2⟩ := ih c hc
      exact ⟨h0, h1, r', List.mem_cons_of_mem _ hr', h2⟩

/-- a rule of the table matches exactly the first `j` scalars of `s` (`j > 0`) -/
def RuleMatches (rules : Rules) (s : List Char) (j : Nat) : Prop :=
  (∃ l ∈ rules.literals, l.2 ≠ [] ∧ l.2.length = j ∧ s.take j = l.2) ∨
  (∃ r ∈ rules.regexes, 0 < j ∧ j ≤ s.length ∧ Re.Matches r.re (Re.word (s.take j)))

/-- every match of every rule is a candidate no longer than the one `pickBest` keeps -/
theorem best_dominates (rules : Rules) (s : List Char) (c : Cand)
    (hc : pickBest none (litCands s rules.literals ++ reCands s rules.regexes) = some c)
    (j : Nat) (hj : RuleMatches rules s j) : j ≤ c.len := by
  obtain ⟨_, hmax⟩ := pickBest_len_max _ _ _ hc
  rcases hj with ⟨l, hl, hne, hlen, htake⟩ | ⟨r, hr, hj0, hjl, hm⟩
  · obtain ⟨k, lit⟩ := l
    have hp : isPrefix lit s = true := (isPrefix_iff_take _ _).2 (by simp only at hlen htake; rw [hlen]; exact htake)
    obtain ⟨x, hx, hxl⟩ := litCands_complete s _ k lit hl hne hp
    have := hmax x (List.mem_append_left _ hx)
    simp only at hlen; omega
  · obtain ⟨x, hx, hxl⟩ := reCands_complete s _ r hr j hj0 hjl hm
    have := hmax x (List.mem_append_right _ hx)
    omega

theorem longestMatch_maximal (rules : Rules) (s : List Char) (k n : Nat)
    (h : longestMatch rules s = .tok k n) : ∀ j, RuleMatches rules s j → j ≤ n := by
  intro j hj
  unfold longestMatch at h
  split at h
  · simp at h
  · rename_i c hc
    have := best_dominates rules s c hc j hj
    split at h
    · simp only at h
      split at h
      · simp at h
      · split at h
        · simp only [Step.tok.injEq] at h; omega
        · simp at h
    · simp only [Step.tok.injEq] at h; omega

theorem longestMatch_kind_ne (rules : Rules) (s : List Char) (k n : Nat)
    (h : longestMatch rules s = .tok k n)
    (hkinds : (∀ l ∈ rules.literals, l.1 ≠ rules.errorKind) ∧ (∀ r ∈ rules.regexes, r.kind ≠ rules.errorKind)) :
    k ≠ rules.errorKind := by
  unfold longestMatch at h
  split at h
  · simp at h
  · rename_i c hc
    have hck : c.kind ≠ rules.errorKind := by
      rcases pickBest_mem _ _ _ hc with h0 | hm
      · simp at h0
      · rcases List.mem_append.1 hm with hm | hm
        · obtain ⟨_, l, hl, hlk, _⟩ := litCands_sound _ _ c hm
          rw [← hlk]; exact hkinds.1 l hl
        · obtain ⟨_, _, r, hr, hrk, _⟩ := reCands_sound _ _ c hm
          rw [← hrk]; exact hkinds.2 r hr
    split at h
    · simp only at h
      split at h
      · simp at h
      · split at h
        · simp only [Step.tok.injEq] at h; rw [← h.1]; exact hck
        · simp at h
    · simp only [Step.tok.injEq] at h; rw [← h.1]; exact hck

theorem longestMatch_noMatch (rules : Rules) (s : List Char) (h : longestMatch rules s = .noMatch) :
    (∀ j, ¬ RuleMatches rules s j) ∨
      ∃ r ∈ rules.regexes, r.callback.isSome = true ∧ ∃ j, 0 < j ∧ Re.Matches r.re (Re.word (s.take j)) := by
  unfold longestMatch at h
  split at h
  · rename_i hnone
    left
    have hnil := pickBest_none _ hnone
    simp only [List.append_eq_nil_iff] at hnil
    intro j hj
    rcases hj with ⟨l, hl, hne, hlen, htake⟩ | ⟨r, hr, hj0, hjl, hm⟩
    · obtain ⟨k, lit⟩ := l
      have hp : isPrefix lit s = true := (isPrefix_iff_take _ _).2 (by simp only at hlen htake; rw [hlen]; exact htake)
      obtain ⟨x, hx, _⟩ := litCands_complete s _ k lit hl hne hp
      rw [hnil.1] at hx; simp at hx
    · obtain ⟨x, hx, _⟩ := reCands_complete s _ r hr j hj0 hjl hm
      rw [hnil.2] at hx; simp at hx
  · rename_i c hc
    split at h
    · rename_i hcb
      right
      rcases pickBest_mem _ _ _ hc with h0 | hm
      · simp at h0
      · rcases List.mem_append.1 hm with hm | hm
        · have := (litCands_sound _ _ c hm).1
          rw [this] at hcb; simp at hcb
        · obtain ⟨h0, _, r, hr, _, hcb', hmat⟩ := reCands_sound _ _ c hm
          exact ⟨r, hr, by rw [hcb', hcb], c.len, h0, hmat⟩
    · simp at h

end Goml.Lex
