import GomlVerif.Model.Tree
import GomlVerif.Lemmas.C12Lex
/-! helper lemmas for `Props/C12.lean`: the builder keeps every emitted token, in order -/
namespace Goml.Tree
open Goml.Lex

def leafOf (t : Tok) : Tree := .leaf t.kind t.text

theorem leavesList_append (a b : List Tree) : leavesList (a ++ b) = leavesList a ++ leavesList b := by
  induction a with
  | nil => simp [leavesList]
  | cons t ts ih => simp [leavesList, ih]

theorem leavesList_map_leaf (ts : List Tok) : leavesList (ts.map leafOf) = ts := by
  induction ts with
  | nil => simp [leavesList]
  | cons t ts ih => simp [leavesList, leaves, leafOf, ih]

theorem leavesList_wrap (k n : Nat) (l : List Tree) :
    leavesList (l.take n ++ [.node k (l.drop n)]) = leavesList l := by
  rw [leavesList_append]
  simp only [leavesList, leaves, List.append_nil]
  rw [← leavesList_append, List.take_append_drop]

/-- the cursor is at the end or at a token the trivia loop does not consume -/
def AtStop : List Tok → Prop
  | [] => True
  | t :: _ => stops t.kind = true

theorem attachTrivia_atStop (ts : List Tok) (off : Nat) (b : Builder) (h : AtStop ts) :
    attachTrivia ts off b = (ts, off, b) := by
  cases ts with
  | nil => rfl
  | cons t ts => simp only [AtStop] at h; simp [attachTrivia, h]

theorem attachTrivia_spec (ts : List Tok) (off : Nat) (b : Builder) :
    ∃ pre, ts = pre ++ (attachTrivia ts off b).1 ∧ AtStop (attachTrivia ts off b).1 ∧
      (attachTrivia ts off b).2.2.children = b.children ++ pre.map leafOf ∧
      (attachTrivia ts off b).2.2.parents = b.parents ∧
      nonTrivia (attachTrivia ts off b).1 = nonTrivia ts ∧
      (attachTrivia ts off b).2.1 = off + byteLen (textOf pre) := by
  induction ts generalizing off b with
  | nil => exact ⟨[], by simp [attachTrivia, AtStop, textOf, byteLen]⟩
  | cons t ts ih =>
    by_cases hs : stops t.kind = true
    · refine ⟨[], ?_⟩
      simp [attachTrivia, hs, AtStop, textOf, byteLen]
    · obtain ⟨pre, h1, h2, h3, h4, h5, h6⟩ := ih (off + byteLen t.text) (b.token t)
      refine ⟨t :: pre, ?_⟩
      simp only [attachTrivia, hs, Bool.false_eq_true, if_false]
      refine ⟨by rw [List.cons_append, ← h1], h2, ?_, ?_, ?_, ?_⟩
      · rw [h3]; simp [Builder.token, leafOf]
      · rw [h4]; rfl
      · rw [h5]; simp [nonTrivia, hs]
      · rw [h6]; simp only [textOf, List.flatMap_cons]; rw [byteLen_append]; omega

theorem foldl_startNode (ks : List Nat) (b : Builder) :
    (ks.foldl Builder.startNode b).children = b.children ∧
    (ks.foldl Builder.startNode b).parents = (ks.reverse.map (·, b.children.length)) ++ b.parents := by
  induction ks generalizing b with
  | nil => simp
  | cons k ks ih =>
    obtain ⟨h1, h2⟩ := ih (b.startNode k)
    simp only [List.foldl_cons]
    refine ⟨by rw [h1]; rfl, ?_⟩
    rw [h2]
    simp [Builder.startNode]

theorem atStop_nonTrivia_zero (ts : List Tok) (h : AtStop ts) (h0 : nonTrivia ts = 0) : ts = [] := by
  cases ts with
  | nil => rfl
  | cons t ts => simp only [AtStop] at h; simp [nonTrivia, h] at h0

theorem advances_cons_le (ev : REv) (evs : List REv) : advances evs ≤ advances (ev :: evs) := by
  cases ev <;> simp [advances]

/-- the builder's outermost open node started before anything was emitted -/
def BottomZero (b : Builder) : Prop := ∃ ps k0, b.parents = ps ++ [(k0, 0)]

/-- one event followed by its trivia loop, while the root stays open -/
theorem event_inv (lr : Option (Nat × Nat)) (ev : REv) (evs : List REv) (st : St) (d' : Nat)
    (hd : depthAfter st.b.parents.length ev = some (d' + 1))
    (hb : BottomZero st.b) (hs : AtStop st.rest) (hn : nonTrivia st.rest ≤ advances (ev :: evs)) :
    ∃ st1, stepEvent lr ev st = some st1 ∧
      (afterEvent st1).b.parents.length = d' + 1 ∧ BottomZero (afterEvent st1).b ∧
      AtStop (afterEvent st1).rest ∧ nonTrivia (afterEvent st1).rest ≤ advances evs ∧
      leavesList (afterEvent st1).b.children ++ (afterEvent st1).rest
        = leavesList st.b.children ++ st.rest := by
  obtain ⟨ps, k0, hps⟩ := hb
  cases ev with
  | starts ks =>
    obtain ⟨h1, h2⟩ := foldl_startNode ks st.b
    refine ⟨{ st with b := ks.foldl Builder.startNode st.b }, rfl, ?_⟩
    simp only [afterEvent, attachTrivia_atStop _ _ _ hs]
    simp only [depthAfter, Option.some.injEq] at hd
    refine ⟨by rw [h2]; simp; omega, ⟨(ks.reverse.map (·, st.b.children.length)) ++ ps, k0, by rw [h2, hps]; simp⟩, hs, by simpa [advances] using hn, by rw [h1]⟩
  | finish =>
    simp only [depthAfter] at hd
    split at hd
    · simp at hd
    · simp only [Option.some.injEq] at hd
      cases ps with
      | nil => rw [hps] at hd; simp at hd
      | cons p ps' =>
        obtain ⟨k, first⟩ := p
        have hfin : st.b.finishNode = some
            ⟨ps' ++ [(k0, 0)], st.b.children.take first ++ [.node k (st.b.children.drop first)]⟩ := by
          simp [Builder.finishNode, hps]
        refine ⟨{ st with b := ⟨ps' ++ [(k0, 0)], st.b.children.take first ++ [.node k (st.b.children.drop first)]⟩ },
          by simp only [stepEvent, hfin]; rfl, ?_⟩
        simp only [afterEvent, attachTrivia_atStop _ _ _ hs]
        refine ⟨by rw [hps] at hd; simp at hd ⊢; omega, ⟨ps', k0, rfl⟩, hs, by simpa [advances] using hn, ?_⟩
        rw [leavesList_wrap]
  | advance =>
    simp only [depthAfter, Option.some.injEq] at hd
    cases hr : st.rest with
    | nil =>
      refine ⟨st, by simp [stepEvent, hr], ?_⟩
      have hs' : AtStop st.rest := hs
      simp only [afterEvent, attachTrivia_atStop _ _ _ hs']
      rw [hr] at hn ⊢
      exact ⟨hd, ⟨ps, k0, hps⟩, by simp [AtStop], by simp [nonTrivia], rfl⟩
    | cons t ts =>
      refine ⟨{ st with rest := ts, off := st.off + byteLen t.text, b := st.b.token t }, by simp [stepEvent, hr], ?_⟩
      obtain ⟨pre, h1, h2, h3, h4, h5, _⟩ := attachTrivia_spec ts (st.off + byteLen t.text) (st.b.token t)
      simp only [afterEvent]
      rw [hr] at hs hn
      simp only [AtStop] at hs
      refine ⟨by rw [h4]; simpa [Builder.token] using hd, ⟨ps, k0, by rw [h4]; simpa [Builder.token] using hps⟩, h2, ?_, ?_⟩
      · rw [h5]; simp [nonTrivia, hs, advances] at hn; omega
      · rw [h3, leavesList_append, leavesList_map_leaf]
        simp only [Builder.token, leavesList_append, leavesList, leaves, List.append_nil, List.append_assoc]
        congr 1
        simp only [List.singleton_append, List.cons.injEq, true_and]
        exact h1.symm
  | error m =>
    simp only [depthAfter, Option.some.injEq] at hd
    simp only [stepEvent]
    refine ⟨_, rfl, ?_⟩
    simp only [afterEvent, attachTrivia_atStop _ _ _ hs]
    exact ⟨hd, ⟨ps, k0, hps⟩, hs, by simpa [advances] using hn⟩

/-- all events after the first: the root is open, closes at the very end -/
theorem run_lossless (lr : Option (Nat × Nat)) : ∀ (evs : List REv) (st : St),
    balancedFrom st.b.parents.length evs = true → BottomZero st.b → AtStop st.rest →
    nonTrivia st.rest ≤ advances evs →
    ∃ st', runEvents lr evs st = some st' ∧ st'.rest = [] ∧ (∃ k ch, st'.b.children = [.node k ch]) ∧
      leavesList st'.b.children = leavesList st.b.children ++ st.rest := by
  intro evs
  induction evs with
  | nil => intro st hb; simp [balancedFrom] at hb
  | cons ev evs ih =>
    intro st hbal hb hs hn
    cases evs with
    | nil =>
      simp only [balancedFrom, Bool.and_eq_true, beq_iff_eq] at hbal
      obtain ⟨hd1, hev⟩ := hbal
      subst hev
      obtain ⟨ps, k0, hps⟩ := hb
      have hps0 : ps = [] := by
        rw [hps] at hd1; simpa using hd1
      subst hps0
      have hrest : st.rest = [] := atStop_nonTrivia_zero _ hs (by simp [advances] at hn; omega)
      refine ⟨afterEvent { st with b := { parents := [], children := [.node k0 st.b.children] } }, ?_, ?_, ?_, ?_⟩
      · simp [runEvents, stepEvent, Builder.finishNode, hps]
      · simp [afterEvent, hrest, attachTrivia]
      · exact ⟨k0, st.b.children, by simp [afterEvent, hrest, attachTrivia]⟩
      · simp [afterEvent, hrest, attachTrivia, leavesList, leaves]
    | cons ev2 evs' =>
      simp only [balancedFrom] at hbal
      split at hbal
      · rename_i d' hd
        obtain ⟨st1, h1, h2, h3, h4, h5, h6⟩ := event_inv lr ev (ev2 :: evs') st d' hd hb hs hn
        obtain ⟨st', r1, r2, r3, r4⟩ := ih (afterEvent st1) (by rw [h2]; exact hbal) h3 h4 h5
        refine ⟨st', by simp only [runEvents, h1]; exact r1, r2, r3, by rw [r4, h6]⟩
      · simp at hbal

/-! ### ranges -/

theorem ranges_within (toks : List Tok) : ∀ (off : Nat) (r : Nat × Nat), r ∈ ranges off toks →
    off ≤ r.1 ∧ r.1 ≤ r.2 ∧ r.2 ≤ off + byteLen (textOf toks) := by
  induction toks with
  | nil => intro off r h; simp [ranges] at h
  | cons t ts ih =>
    intro off r h
    simp only [ranges] at h
    rw [textOf_cons, byteLen_append]
    rcases List.mem_cons.1 h with rfl | h
    · simp only; omega
    · have := ih _ r h; omega

/-- `off` is the byte offset of the cursor and every diagnostic so far lies inside the text -/
def RangeInv (total : Nat) (st : St) : Prop :=
  st.off + byteLen (textOf st.rest) = total ∧
    ∀ d ∈ st.diags, ∀ r, d.range = some r → r.1 ≤ r.2 ∧ r.2 ≤ total

theorem stepEvent_rangeInv (total : Nat) (lr : Option (Nat × Nat))
    (hlr : ∀ r, lr = some r → r.1 ≤ r.2 ∧ r.2 ≤ total) (ev : REv) (st st1 : St)
    (hi : RangeInv total st) (h : stepEvent lr ev st = some st1) : RangeInv total st1 := by
  obtain ⟨ho, hdg⟩ := hi
  cases ev with
  | starts ks => simp only [stepEvent, Option.some.injEq] at h; subst h; exact ⟨ho, hdg⟩
  | finish =>
    simp only [stepEvent] at h
    cases hf : st.b.finishNode with
    | none => simp [hf] at h
    | some b => simp only [hf, Option.map_some, Option.some.injEq] at h; subst h; exact ⟨ho, hdg⟩
  | advance =>
    simp only [stepEvent] at h
    cases hr : st.rest with
    | nil => simp only [hr, Option.some.injEq] at h; subst h; exact ⟨ho, hdg⟩
    | cons t ts =>
      simp only [hr, Option.some.injEq] at h; subst h
      rw [hr, textOf_cons, byteLen_append] at ho
      exact ⟨by simp only; omega, hdg⟩
  | error m =>
    simp only [stepEvent, Option.some.injEq] at h; subst h
    refine ⟨ho, ?_⟩
    intro d hd r hr
    rcases List.mem_append.1 hd with hd | hd
    · exact hdg d hd r hr
    · simp only [List.mem_singleton] at hd
      subst hd
      simp only at hr
      cases hrest : st.rest with
      | nil => rw [hrest] at hr; exact hlr r hr
      | cons t ts =>
        rw [hrest] at hr
        simp only [Option.some.injEq] at hr
        subst hr
        rw [hrest, textOf_cons, byteLen_append] at ho
        simp only; omega

theorem afterEvent_rangeInv (total : Nat) (st : St) (hi : RangeInv total st) :
    RangeInv total (afterEvent st) := by
  obtain ⟨ho, hdg⟩ := hi
  obtain ⟨pre, h1, _, _, _, _, h6⟩ := attachTrivia_spec st.rest st.off st.b
  refine ⟨?_, hdg⟩
  simp only [afterEvent]
  rw [h6]
  rw [h1, textOf_append, byteLen_append] at ho
  omega

theorem runEvents_rangeInv (total : Nat) (lr : Option (Nat × Nat))
    (hlr : ∀ r, lr = some r → r.1 ≤ r.2 ∧ r.2 ≤ total) :
    ∀ (evs : List REv) (st st' : St), RangeInv total st → runEvents lr evs st = some st' →
      RangeInv total st' := by
  intro evs
  induction evs with
  | nil => intro st st' hi h; simp only [runEvents, Option.some.injEq] at h; subst h; exact hi
  | cons ev evs ih =>
    intro st st' hi h
    simp only [runEvents] at h
    cases hs : stepEvent lr ev st with
    | none => simp [hs] at h
    | some st1 =>
      simp only [hs] at h
      exact ih _ _ (afterEvent_rangeInv total _ (stepEvent_rangeInv total lr hlr ev st st1 hi hs)) h

theorem lastRangeOf_within (toks : List Tok) :
    ∀ r, lastRangeOf toks = some r → r.1 ≤ r.2 ∧ r.2 ≤ byteLen (textOf toks) := by
  intro r h
  have := ranges_within toks 0 r (List.mem_of_getLast? h)
  omega

/-! ### node ranges -/

def treeLen (t : Tree) : Nat := byteLen (textOf (leaves t))

theorem spans_within : ∀ (t : Tree) (off : Nat) (x : Nat × Nat × Nat), x ∈ spans off t →
      off ≤ x.2.1 ∧ x.2.1 ≤ x.2.2 ∧ x.2.2 ≤ off + treeLen t := by
  apply Tree.rec
    (motive_1 := fun t => ∀ (off : Nat) (x : Nat × Nat × Nat), x ∈ spans off t →
      off ≤ x.2.1 ∧ x.2.1 ≤ x.2.2 ∧ x.2.2 ≤ off + treeLen t)
    (motive_2 := fun ts => ∀ (off : Nat) (x : Nat × Nat × Nat), x ∈ spansList off ts →
      off ≤ x.2.1 ∧ x.2.1 ≤ x.2.2 ∧ x.2.2 ≤ off + byteLen (textOf (leavesList ts)))
  · intro k ch ih off x hx
    simp only [spans] at hx
    simp only [treeLen, leaves]
    rcases List.mem_cons.1 hx with rfl | hx
    · simp only [textOf]; omega
    · exact ih off x hx
  · intro k t off x hx
    simp only [spans, List.mem_singleton] at hx
    subst hx
    simp [treeLen, leaves, textOf]
  · intro off x hx; simp [spansList] at hx
  · intro t ts iht ihts off x hx
    simp only [spansList] at hx
    simp only [leavesList, textOf_append, byteLen_append]
    rcases List.mem_append.1 hx with hx | hx
    · have := iht off x hx; simp only [treeLen] at this; omega
    · have := ihts _ x hx; simp only [textOf] at this ⊢; omega

end Goml.Tree
