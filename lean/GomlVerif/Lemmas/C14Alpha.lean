import GomlVerif.Model.Alpha
/-! Lemmas for C14: `Sem.run` does not depend on the order of the functions nor on the names of bound variables
(closure-free fragment). -/
namespace Goml.Alpha
open Goml Goml.Sem

/-- `eval` sees the program only through `findFn` and `impls` -/
theorem eval_congr (P P' : Prog) (hf : ∀ n, P.findFn n = P'.findFn n) (hi : P.impls = P'.impls) :
    ∀ fuel, (∀ ρ w e, eval fuel P ρ w e = eval fuel P' ρ w e) ∧
      (∀ ρ w es, evalList fuel P ρ w es = evalList fuel P' ρ w es) ∧
      (∀ ρ w v arms d, evalArms fuel P ρ w v arms d = evalArms fuel P' ρ w v arms d) ∧
      (∀ w f args, apply fuel P w f args = apply fuel P' w f args) := by
  intro fuel
  induction fuel with
  | zero => simp [eval, evalList, evalArms, apply]
  | succ n ih =>
    obtain ⟨ih1, ih2, ih3, ih4⟩ := ih
    refine ⟨?_, ?_, ?_, ?_⟩
    · intro ρ w e
      cases e <;> simp only [eval, ih1, ih2, ih3, ih4, hi]
    · intro ρ w es
      cases es <;> simp only [evalList, ih1, ih2]
    · intro ρ w v arms d
      cases arms with
      | nil => simp only [evalArms, ih1]
      | cons a as => cases a; simp only [evalArms, ih1, ih3]
    · intro w f args
      cases f <;> simp only [apply, ih1, hf]


theorem find_perm {fs gs : List Fn} (h : fs.Perm gs) (hd : (fs.map (·.name)).Nodup) (n : String) :
    fs.find? (·.name == n) = gs.find? (·.name == n) := by
  induction h with
  | nil => rfl
  | cons x _ ih =>
    simp only [List.map_cons, List.nodup_cons] at hd
    simp only [List.find?_cons]
    split
    · rfl
    · exact ih hd.2
  | swap x y l =>
    simp only [List.map_cons, List.nodup_cons, List.mem_cons, not_or] at hd
    simp only [List.find?_cons]
    by_cases hx : (x.name == n) = true
    · by_cases hy : (y.name == n) = true
      · have : y.name = x.name := by rw [beq_iff_eq.mp hx, beq_iff_eq.mp hy]
        exact absurd this hd.1.1
      · simp [hx, hy]
    · simp [hx]
  | trans h1 h2 ih1 ih2 =>
    exact (ih1 hd).trans (ih2 ((h1.map (fun f : Fn => f.name)).nodup_iff.mp hd))

theorem run_perm (P : Prog) (fns' : List Fn) (hp : P.fns.Perm fns') (hd : (P.fns.map (·.name)).Nodup)
    (fuel : Nat) (entry : String) (eager : Bool) :
    run fuel { P with fns := fns' } entry eager = run fuel P entry eager := by
  have hf : ∀ n, ({ P with fns := fns' } : Prog).findFn n = P.findFn n := by
    intro n; simp only [Prog.findFn]; exact (find_perm hp hd n).symm
  have := (eval_congr { P with fns := fns' } P hf rfl fuel).2.2.2 { eager := eager } (.fn entry) []
  simp only [run, this]



def EnvIn (N : List String) (ρ : Env) : Prop := ∀ p ∈ ρ, N.contains p.1 = true

theorem injOn_apply {σ : String → String} {N : List String} (h : injOn σ N = true) {a b : String}
    (ha : N.contains a = true) (hb : N.contains b = true) (e : σ a = σ b) : a = b := by
  simp only [injOn, List.all_eq_true, Bool.or_eq_true, bne_iff_ne, beq_iff_eq] at h
  rcases h a (List.contains_iff_mem.mp ha) b (List.contains_iff_mem.mp hb) with h | h
  · exact absurd e h
  · exact h

def moved (σ : String → String) (x : String) : Bool := σ x != x

theorem lookup_ren {σ : String → String} {N : List String} (hσ : injOn σ N = true) (ρ : Env) (x : String)
    (hx : N.contains x = true) (hρ : EnvIn N ρ) :
    lookupEnv (renEnv σ ρ) (σ x) = lookupEnv ρ x := by
  induction ρ with
  | nil => rfl
  | cons p ρ ih =>
    have ih := ih (fun q hq => hρ q (by simp [hq]))
    have hp : N.contains p.1 = true := hρ p (by simp)
    simp only [lookupEnv, renEnv, List.map_cons, List.find?_cons] at ih ⊢
    by_cases h : p.1 = x
    · have h1 : (σ p.1 == σ x) = true := by rw [h]; exact beq_self_eq_true _
      have h2 : (p.1 == x) = true := by rw [h]; exact beq_self_eq_true _
      simp only [h1, h2]
    · have h1 : (σ p.1 == σ x) = false := beq_eq_false_iff_ne.mpr (fun e => h (injOn_apply hσ hp hx e))
      have h2 : (p.1 == x) = false := beq_eq_false_iff_ne.mpr h
      simp only [h1, h2]
      exact ih

theorem lookup_none_dom {ρ : Env} {x : String} (h : lookupEnv ρ x = none) : (ρ.map (·.1)).contains x = false := by
  induction ρ with
  | nil => rfl
  | cons p ρ ih =>
    simp only [lookupEnv, List.find?_cons] at h ih
    by_cases hp : (p.1 == x) = true
    · simp [hp] at h
    · simp only [hp] at h
      simp only [List.map_cons, List.contains_cons]
      have := ih h
      simp only [Bool.not_eq_true] at hp
      rw [this]
      have : (x == p.1) = false := by
        rw [beq_eq_false_iff_ne] at hp ⊢; exact fun e => hp e.symm
      simp [this]

theorem renEnv_bind (σ : String → String) : ∀ (ps : List String) (args : List Val) (ρ : Env),
    renEnv σ (bindParams ps args ρ) = bindParams (ps.map σ) args (renEnv σ ρ)
  | [], _, _ => by simp [bindParams]
  | _ :: _, [], _ => by simp [bindParams]
  | p :: ps, a :: as, ρ => by
    simp only [bindParams, List.map_cons]
    rw [renEnv_bind σ ps as ((p, a) :: ρ)]
    rfl

theorem armMatches_ren (σ : String → String) (l : Expr) (v : Val) : armMatches (renE σ l) v = armMatches l v := by
  cases l with
  | constr c t args => cases c <;> cases v <;> simp [renE, armMatches]
  | _ => simp [renE, armMatches]

theorem findFn_renP (σs : String → String → String) (P : Prog) (n : String) :
    (renP σs P).findFn n = (P.findFn n).map fun f => renFn (σs f.name) f := by
  simp only [Prog.findFn, renP, List.find?_map]
  congr


/-- the hypotheses of the renaming theorem; `Ns f` = the names function `f` mentions. All decidable. -/
structure Hyp (σs : String → String → String) (Ns : String → List String) (P : Prog) : Prop where
  inj : ∀ f ∈ P.fns, injOn (σs f.name) (Ns f.name) = true
  names : ∀ f ∈ P.fns, inE (Ns f.name) f.body = true ∧ (f.params.all fun p => (Ns f.name).contains p.1) = true
  cf : cfP P = true
  sc : ∀ f ∈ P.fns, scE (moved (σs f.name)) [] f.body = true

theorem dom_renParams (σ : String → String) (ps : List (String × Ty)) :
    (ps.map fun p => (σ p.1, p.2)).map (·.1) = (ps.map (·.1)).map σ := by
  simp [List.map_map, Function.comp]

theorem dom_bind : ∀ (ps : List String) (args : List Val) (ρ : Env), ps.length ≤ args.length →
    ∀ x, (ps ++ ρ.map (·.1)).contains x = true → ((bindParams ps args ρ).map (·.1)).contains x = true
  | [], _, _, _, x, h => by simpa [bindParams] using h
  | p :: ps, [], _, hl, _, _ => by simp at hl
  | p :: ps, a :: as, ρ, hl, x, h => by
    simp only [bindParams]
    apply dom_bind ps as ((p, a) :: ρ) (by simpa using hl) x
    simp only [List.cons_append, List.contains_cons, List.map_cons, List.contains_append, Bool.or_eq_true] at h ⊢
    rcases h with h | h | h
    · exact Or.inr (Or.inl h)
    · exact Or.inl h
    · exact Or.inr (Or.inr h)


def DomOk (B : List String) (ρ : Env) : Prop := ∀ x, B.contains x = true → (ρ.map (·.1)).contains x = true

theorem domOk_cons {B : List String} {ρ : Env} (h : DomOk B ρ) (x : String) (v : Val) : DomOk (x :: B) ((x, v) :: ρ) := by
  intro y hy
  simp only [List.contains_cons, Bool.or_eq_true, List.map_cons] at hy ⊢
  rcases hy with hy | hy
  · exact Or.inl hy
  · exact Or.inr (h y hy)

theorem envIn_bind (N : List String) : ∀ (ps : List String) (args : List Val) (ρ : Env),
    (∀ q ∈ ps, N.contains q = true) → EnvIn N ρ → EnvIn N (bindParams ps args ρ)
  | [], _, _, _, h => by simpa [bindParams] using h
  | _ :: _, [], _, _, h => by simpa [bindParams] using h
  | p :: ps, a :: as, ρ, hps, h => by
    simp only [bindParams]
    apply envIn_bind N ps as ((p, a) :: ρ) (fun q hq => hps q (by simp [hq]))
    intro q hq
    simp only [List.mem_cons] at hq
    rcases hq with hq | hq
    · rw [hq]; exact hps p (by simp)
    · exact h q hq

/-- statement (A): evaluation of a renamed closure-free expression -/
def StA (σs : String → String → String) (P : Prog) (fuel : Nat) : Prop :=
  ∀ σ N, injOn σ N = true → ∀ (ρ : Env) (w : World) (e : Expr) (B : List String), cfE e = true → scE (moved σ) B e = true → DomOk B ρ →
    inE N e = true → EnvIn N ρ →
    eval fuel (renP σs P) (renEnv σ ρ) w (renE σ e) = eval fuel P ρ w e
def StAL (σs : String → String → String) (P : Prog) (fuel : Nat) : Prop :=
  ∀ σ N, injOn σ N = true → ∀ (ρ : Env) (w : World) (es : List Expr) (B : List String), cfL es = true → scL (moved σ) B es = true → DomOk B ρ →
    inL N es = true → EnvIn N ρ →
    evalList fuel (renP σs P) (renEnv σ ρ) w (renL σ es) = evalList fuel P ρ w es
def StAA (σs : String → String → String) (P : Prog) (fuel : Nat) : Prop :=
  ∀ σ N, injOn σ N = true → ∀ (ρ : Env) (w : World) (v : Val) (arms : List Arm) (d : Option Expr) (B : List String),
    cfArms arms = true → cfO d = true → scArms (moved σ) B arms = true → scO (moved σ) B d = true → DomOk B ρ →
    inArms N arms = true → inO N d = true → EnvIn N ρ →
    evalArms fuel (renP σs P) (renEnv σ ρ) w v (renArms σ arms) (renO σ d) = evalArms fuel P ρ w v arms d
/-- statement (B): the renamed program on the same expression -/
def StB (σs : String → String → String) (P : Prog) (fuel : Nat) : Prop :=
  (∀ ρ w e, eval fuel (renP σs P) ρ w e = eval fuel P ρ w e) ∧
  (∀ ρ w es, evalList fuel (renP σs P) ρ w es = evalList fuel P ρ w es) ∧
  (∀ ρ w v arms d, evalArms fuel (renP σs P) ρ w v arms d = evalArms fuel P ρ w v arms d) ∧
  (∀ w f args, apply fuel (renP σs P) w f args = apply fuel P w f args)

theorem stA_step {σs : String → String → String} {P : Prog} {n : Nat}
    (ihA : StA σs P n) (ihL : StAL σs P n) (ihAA : StAA σs P n) (ihB : StB σs P n) : StA σs P (n + 1) := by
  intro σ N hσ ρ w e B hcf hsc hB hin hρ
  have himpl : (renP σs P).impls = P.impls := rfl
  cases e with
  | var x t =>
    simp only [inE] at hin
    simp only [renE, eval, lookup_ren hσ ρ x hin hρ]
    cases hl : lookupEnv ρ x with
    | some v => rfl
    | none =>
      have hnd := lookup_none_dom hl
      simp only [scE, Bool.or_eq_true, Bool.not_eq_true'] at hsc
      rcases hsc with h | h
      · simp only [moved, bne_eq_false_iff_eq] at h
        simp only [h]
      · have := hB x h; rw [hnd] at this; cases this
  | prim p => simp only [renE, eval]
  | tag i t => simp only [renE, eval]
  | constr c t args =>
    simp only [cfE, scE, inE] at hcf hsc hin
    simp only [renE, eval, ihL σ N hσ ρ w args B hcf hsc hB hin hρ]
  | tuple t items =>
    simp only [cfE, scE, inE] at hcf hsc hin
    simp only [renE, eval, ihL σ N hσ ρ w items B hcf hsc hB hin hρ]
  | array t items =>
    simp only [cfE, scE, inE] at hcf hsc hin
    simp only [renE, eval, ihL σ N hσ ρ w items B hcf hsc hB hin hρ]
  | closure t ps b => simp [cfE] at hcf
  | letE x v b =>
    simp only [cfE, scE, inE, Bool.and_eq_true] at hcf hsc hin
    simp only [renE, eval, ihA σ N hσ ρ w v B hcf.1 hsc.1 hB hin.1.2 hρ]
    cases eval n P ρ w v with
    | fail f w' => rfl
    | ok vv w' =>
      have hρ' : EnvIn N ((x, vv) :: ρ) := by
        intro p hp
        simp only [List.mem_cons] at hp
        rcases hp with hp | hp
        · rw [hp]; exact hin.1.1
        · exact hρ p hp
      have := ihA σ N hσ ((x, vv) :: ρ) w' b (x :: B) hcf.2 hsc.2 (domOk_cons hB x vv) hin.2 hρ'
      simpa [renEnv] using this
  | matchE t sc arms d =>
    simp only [cfE, scE, inE, Bool.and_eq_true] at hcf hsc hin
    simp only [renE, eval, ihA σ N hσ ρ w sc B hcf.1.1 hsc.1.1 hB hin.1.1 hρ]
    cases eval n P ρ w sc with
    | fail f w' => rfl
    | ok vv w' => exact ihAA σ N hσ ρ w' vv arms d B hcf.1.2 hcf.2 hsc.1.2 hsc.2 hB hin.1.2 hin.2 hρ
  | ite c t e =>
    simp only [cfE, scE, inE, Bool.and_eq_true] at hcf hsc hin
    simp only [renE, eval, ihA σ N hσ ρ w c B hcf.1.1 hsc.1.1 hB hin.1.1 hρ]
    cases eval n P ρ w c with
    | fail f w' => rfl
    | ok vv w' =>
      cases vv with
      | bool b => cases b
                  · exact ihA σ N hσ ρ w' e B hcf.2 hsc.2 hB hin.2 hρ
                  · exact ihA σ N hσ ρ w' t B hcf.1.2 hsc.1.2 hB hin.1.2 hρ
      | _ => rfl
  | «while» c b =>
    have hcf0 := hcf
    have hsc0 := hsc
    have hin0 := hin
    simp only [cfE, scE, inE, Bool.and_eq_true] at hcf hsc hin
    simp only [renE, eval, ihA σ N hσ ρ w c B hcf.1 hsc.1 hB hin.1 hρ]
    cases eval n P ρ w c with
    | fail f w' => rfl
    | ok vv w' =>
      cases vv with
      | bool bb =>
        cases bb
        · rfl
        · simp only [ihA σ N hσ ρ w' b B hcf.2 hsc.2 hB hin.2 hρ]
          cases eval n P ρ w' b with
          | fail f w'' => rfl
          | ok _ w'' =>
            have := ihA σ N hσ ρ w'' (.while c b) B hcf0 hsc0 hB hin0 hρ
            simpa [renE] using this
      | _ => rfl
  | go e =>
    simp only [cfE, scE, inE] at hcf hsc hin
    simp only [renE, eval, ihA σ N hσ ρ w e B hcf hsc hB hin hρ, ihB.2.2.2]
  | cget c i t e =>
    simp only [cfE, scE, inE] at hcf hsc hin
    simp only [renE, eval, ihA σ N hσ ρ w e B hcf hsc hB hin hρ]
  | un op t e =>
    simp only [cfE, scE, inE] at hcf hsc hin
    simp only [renE, eval, ihA σ N hσ ρ w e B hcf hsc hB hin hρ]
  | bin op t l r =>
    simp only [cfE, scE, inE, Bool.and_eq_true] at hcf hsc hin
    simp only [renE, eval, ihA σ N hσ ρ w l B hcf.1 hsc.1 hB hin.1 hρ]
    cases eval n P ρ w l with
    | fail f w' => rfl
    | ok a w' => simp only [ihA σ N hσ ρ w' r B hcf.2 hsc.2 hB hin.2 hρ]
  | call t f args =>
    simp only [cfE, scE, inE, Bool.and_eq_true] at hcf hsc hin
    simp only [renE, eval, ihA σ N hσ ρ w f B hcf.1 hsc.1 hB hin.1 hρ]
    cases eval n P ρ w f with
    | fail f w' => rfl
    | ok fv w' => simp only [ihL σ N hσ ρ w' args B hcf.2 hsc.2 hB hin.2 hρ, ihB.2.2.2]
  | toDyn tr ft t e =>
    simp only [cfE, scE, inE] at hcf hsc hin
    simp only [renE, eval, ihA σ N hσ ρ w e B hcf hsc hB hin hρ]
  | dynCall tr m t r args =>
    simp only [cfE, scE, inE, Bool.and_eq_true] at hcf hsc hin
    simp only [renE, eval, ihA σ N hσ ρ w r B hcf.1 hsc.1 hB hin.1 hρ]
    cases eval n P ρ w r with
    | fail f w' => rfl
    | ok rv w' =>
      cases rv with
      | dyn a key v => simp only [ihL σ N hσ ρ w' args B hcf.2 hsc.2 hB hin.2 hρ, ihB.2.2.2, himpl]
      | _ => rfl
  | traitCall tr m t r args =>
    simp only [cfE, scE, inE, Bool.and_eq_true] at hcf hsc hin
    simp only [renE, eval, ihA σ N hσ ρ w r B hcf.1 hsc.1 hB hin.1 hρ]
    cases eval n P ρ w r with
    | fail f w' => rfl
    | ok rv w' => simp only [ihL σ N hσ ρ w' args B hcf.2 hsc.2 hB hin.2 hρ, ihB.2.2.2, himpl]
  | proj i t e =>
    simp only [cfE, scE, inE] at hcf hsc hin
    simp only [renE, eval, ihA σ N hσ ρ w e B hcf hsc hB hin hρ]


theorem stAL_step {σs : String → String → String} {P : Prog} {n : Nat}
    (ihA : StA σs P n) (ihL : StAL σs P n) : StAL σs P (n + 1) := by
  intro σ N hσ ρ w es B hcf hsc hB hin hρ
  cases es with
  | nil => simp only [renL, evalList]
  | cons e rest =>
    simp only [cfL, scL, inL, Bool.and_eq_true] at hcf hsc hin
    simp only [renL, evalList, ihA σ N hσ ρ w e B hcf.1 hsc.1 hB hin.1 hρ]
    cases eval n P ρ w e with
    | fail f w' => rfl
    | ok v w' => simp only [ihL σ N hσ ρ w' rest B hcf.2 hsc.2 hB hin.2 hρ]

theorem stAA_step {σs : String → String → String} {P : Prog} {n : Nat}
    (ihA : StA σs P n) (ihAA : StAA σs P n) : StAA σs P (n + 1) := by
  intro σ N hσ ρ w v arms d B hcfa hcfd hsca hscd hB hina hind hρ
  cases arms with
  | nil =>
    cases d with
    | none => simp only [renArms, renO, evalArms]
    | some e =>
      simp only [cfO, scO, inO] at hcfd hscd hind
      simp only [renArms, renO, evalArms]
      exact ihA σ N hσ ρ w e B hcfd hscd hB hind hρ
  | cons a rest =>
    cases a with
    | mk l b =>
      simp only [cfArms, cfArm, scArms, scArm, inArms, inArm, Bool.and_eq_true] at hcfa hsca hina
      simp only [renArms, renArm, evalArms, armMatches_ren]
      split
      · exact ihA σ N hσ ρ w b B hcfa.1.2 hsca.1 hB hina.1 hρ
      · exact ihAA σ N hσ ρ w v rest d B hcfa.2 hcfd hsca.2 hscd hB hina.2 hind hρ

theorem stB_step {σs : String → String → String} {Ns : String → List String} {P : Prog} (H : Hyp σs Ns P) {n : Nat}
    (ihA : StA σs P n) (ihB : StB σs P n) : StB σs P (n + 1) := by
  obtain ⟨ih1, ih2, ih3, ih4⟩ := ihB
  have himpl : (renP σs P).impls = P.impls := rfl
  refine ⟨?_, ?_, ?_, ?_⟩
  · intro ρ w e
    cases e <;> simp only [eval, ih1, ih2, ih3, ih4, himpl]
  · intro ρ w es
    cases es <;> simp only [evalList, ih1, ih2]
  · intro ρ w v arms d
    cases arms with
    | nil => simp only [evalArms, ih1]
    | cons a as => cases a; simp only [evalArms, ih1, ih3]
  · intro w f args
    have hbody : ∀ (fn : Fn) (args : List Val) (w : World), fn ∈ P.fns →
        eval n (renP σs P) (bindParams ((renFn (σs fn.name) fn).params.map (·.1)) args []) w (renFn (σs fn.name) fn).body
          = eval n P (bindParams (fn.params.map (·.1)) args []) w fn.body := by
      intro fn args w hmem
      have hcf : cfE fn.body = true := by
        have := H.cf; simp only [cfP, List.all_eq_true] at this; exact this fn hmem
      have hρ : EnvIn (Ns fn.name) (bindParams (fn.params.map (·.1)) args []) := by
        have hps : ∀ q ∈ fn.params.map (·.1), (Ns fn.name).contains q = true := by
          have := (H.names fn hmem).2
          simp only [List.all_eq_true] at this
          intro q hq
          simp only [List.mem_map] at hq
          obtain ⟨p, hp, e⟩ := hq
          rw [← e]; exact this p hp
        exact envIn_bind _ _ _ _ hps (fun p hp => by cases hp)
      have := ihA (σs fn.name) (Ns fn.name) (H.inj fn hmem) (bindParams (fn.params.map (·.1)) args []) w fn.body [] hcf (H.sc fn hmem)
        (fun x hx => by simp at hx) (H.names fn hmem).1 hρ
      rw [renEnv_bind] at this
      have hp : (renFn (σs fn.name) fn).params.map (·.1) = (fn.params.map (·.1)).map (σs fn.name) := by
        simp [renFn, List.map_map, Function.comp_def]
      rw [hp]
      simpa [renFn, renEnv] using this
    cases f with
    | closure ps body ρc => simp only [apply, ih1]
    | fn name =>
      simp only [apply, findFn_renP]
      cases hfind : P.findFn name with
      | none => rfl
      | some fn =>
        have hmem : fn ∈ P.fns := List.mem_of_find?_eq_some hfind
        simp only [Option.map_some]
        exact hbody fn args w hmem
    | structV sn fs =>
      simp only [apply, findFn_renP]
      cases hfind : P.findFn ("inherent#" ++ sn ++ "#" ++ sn ++ "#apply") with
      | none => rfl
      | some fn =>
        have hmem : fn ∈ P.fns := List.mem_of_find?_eq_some hfind
        simp only [Option.map_some]
        exact hbody fn (Val.structV sn fs :: args) w hmem
    | _ => simp only [apply]


theorem alpha_all {σs : String → String → String} {Ns : String → List String} {P : Prog} (H : Hyp σs Ns P) :
    ∀ fuel, StA σs P fuel ∧ StAL σs P fuel ∧ StAA σs P fuel ∧ StB σs P fuel := by
  intro fuel
  induction fuel with
  | zero =>
    refine ⟨?_, ?_, ?_, ?_, ?_, ?_, ?_⟩
    · intro σ N _ ρ w e B _ _ _ _ _; simp [eval]
    · intro σ N _ ρ w es B _ _ _ _ _; simp [evalList]
    · intro σ N _ ρ w v arms d B _ _ _ _ _ _ _ _; simp [evalArms]
    · intro ρ w e; simp [eval]
    · intro ρ w es; simp [evalList]
    · intro ρ w v arms d; simp [evalArms]
    · intro w f args; simp [apply]
  | succ n ih =>
    obtain ⟨ihA, ihL, ihAA, ihB⟩ := ih
    exact ⟨stA_step ihA ihL ihAA ihB, stAL_step ihA ihL, stAA_step ihA ihAA, stB_step H ihA ihB⟩

theorem run_alpha {σs : String → String → String} {Ns : String → List String} {P : Prog} (H : Hyp σs Ns P) (fuel : Nat) (entry : String) (eager : Bool) :
    run fuel (renP σs P) entry eager = run fuel P entry eager := by
  have := (alpha_all H fuel).2.2.2.2.2.2 { eager := eager } (.fn entry) []
  simp only [run, this]

end Goml.Alpha
