import GomlVerif.Model.Exports
/-! C14: `IndexMap` insertion, `apply_to`, and the irrelevance of the package order for every lookup. -/
namespace Goml.Exports

/-- `get` after `insert` -/
theorem lookup_insert (m : IMap) (k v k' : String) :
    IMap.lookup (IMap.insert m k v) k' = if k = k' then some v else IMap.lookup m k' := by
  induction m with
  | nil => simp [IMap.insert, IMap.lookup]
  | cons p m ih =>
    simp only [IMap.insert]
    by_cases hpk : p.1 = k
    · rw [if_pos hpk]
      simp only [IMap.lookup]
      by_cases h1 : k = k'
      · rw [if_pos (hpk.trans h1), if_pos h1]
      · rw [if_neg (fun e => h1 (hpk.symm.trans e)), if_neg h1, if_neg (fun e => h1 (hpk.symm.trans e))]
    · rw [if_neg hpk]
      simp only [IMap.lookup, ih]
      by_cases h1 : p.1 = k'
      · have : ¬ k = k' := fun e => hpk (h1.trans e.symm)
        rw [if_pos h1, if_neg this, if_pos h1]
      · rw [if_neg h1]
        by_cases h2 : k = k'
        · rw [if_pos h2, if_pos h2]
        · rw [if_neg h2, if_neg h2, if_neg h1]

theorem lookup_none_of_not_mem {m : IMap} {k : String} (h : k ∉ m.map (·.1)) : IMap.lookup m k = none := by
  induction m with
  | nil => rfl
  | cons p m ih =>
    simp only [List.map_cons, List.mem_cons, not_or] at h
    have hne : ¬ p.1 = k := fun e => h.1 e.symm
    simp only [IMap.lookup]
    rw [if_neg hne]
    exact ih h.2

/-- the lookups after one loop of `apply_to`: the package's entry if it has one, else what was there -/
theorem lookup_extend (g e : IMap) (hd : (e.map (·.1)).Nodup) (k : String) :
    IMap.lookup (IMap.extend g e) k = match IMap.lookup e k with | some v => some v | none => IMap.lookup g k := by
  induction e generalizing g with
  | nil => rfl
  | cons p e ih =>
    simp only [List.map_cons, List.nodup_cons] at hd
    simp only [IMap.extend, List.foldl_cons] at ih ⊢
    rw [ih _ hd.2, lookup_insert]
    simp only [IMap.lookup]
    by_cases hpk : p.1 = k
    · have : IMap.lookup e k = none := lookup_none_of_not_mem (hpk ▸ hd.1)
      rw [this, if_pos hpk, if_pos hpk]
    · rw [if_neg hpk, if_neg hpk]

theorem insert_new (m : IMap) (k v : String) (h : k ∉ m.map (·.1)) : IMap.insert m k v = m ++ [(k, v)] := by
  induction m with
  | nil => rfl
  | cons p m ih =>
    simp only [List.map_cons, List.mem_cons, not_or] at h
    have hne : ¬ p.1 = k := fun e => h.1 e.symm
    simp only [IMap.insert]
    rw [if_neg hne, ih h.2]
    rfl

/-- entries with distinct new keys are appended in their order -/
theorem extend_append (g e : IMap) (hd : (e.map (·.1)).Nodup) (hg : ∀ k ∈ e.map (·.1), k ∉ g.map (·.1)) :
    IMap.extend g e = g ++ e := by
  induction e generalizing g with
  | nil => simp [IMap.extend]
  | cons p e ih =>
    simp only [List.map_cons, List.nodup_cons] at hd
    simp only [IMap.extend, List.foldl_cons] at ih ⊢
    rw [insert_new g p.1 p.2 (hg p.1 (by simp))]
    rw [ih _ hd.2]
    · simp
    · intro k hk
      simp only [List.map_append, List.map_cons, List.map_nil, List.mem_append, List.mem_singleton, not_or]
      exact ⟨hg k (by simp [hk]), fun e => hd.1 (e ▸ hk)⟩

/-- **an `IndexMap` rebuilt from its own entries is itself** (what deserialising a map does) -/
theorem extend_nil_id (m : IMap) (hd : (m.map (·.1)).Nodup) : IMap.extend [] m = m := by
  rw [extend_append [] m hd (fun _ _ h => by simp at h)]; rfl

/-- no two packages bind the same key of the same map to different values -/
def Consistent (es : List Env) : Prop :=
  ∀ e1 ∈ es, ∀ e2 ∈ es, ∀ f k v1 v2, IMap.lookup (e1 f) k = some v1 → IMap.lookup (e2 f) k = some v2 → v1 = v2

def WF (es : List Env) : Prop := ∀ e ∈ es, ∀ f, ((e f).map (·.1)).Nodup

/-- what a lookup in the link environment returns, stated without reference to the order of the packages -/
theorem lookup_applyAll (fields : List String) (f : String) (hf : fields.contains f = true) (k v : String) :
    ∀ (es : List Env) (g : Env), WF es → Consistent es →
    (IMap.lookup ((applyAll fields es g) f) k = some v ↔
      (∃ e ∈ es, IMap.lookup (e f) k = some v) ∨ ((∀ e ∈ es, IMap.lookup (e f) k = none) ∧ IMap.lookup (g f) k = some v)) := by
  intro es
  induction es with
  | nil => intro g _ _; simp [applyAll]
  | cons e es ih =>
    intro g hwf hc
    have hwf' : WF es := fun e' he' => hwf e' (by simp [he'])
    have hc' : Consistent es := fun e1 h1 e2 h2 => hc e1 (by simp [h1]) e2 (by simp [h2])
    simp only [applyAll, List.foldl_cons] at ih ⊢
    rw [ih (applyTo fields e g) hwf' hc']
    have hg1 : IMap.lookup ((applyTo fields e g) f) k = match IMap.lookup (e f) k with | some x => some x | none => IMap.lookup (g f) k := by
      simp only [applyTo, hf, if_true]
      exact lookup_extend _ _ (hwf e (by simp) f) k
    rw [hg1]
    cases he : IMap.lookup (e f) k with
    | none =>
      simp only [List.mem_cons, exists_eq_or_imp, forall_eq_or_imp, he, true_and]
      constructor
      · rintro (h | h)
        · exact Or.inl (Or.inr h)
        · exact Or.inr h
      · rintro ((h | h) | h)
        · cases h
        · exact Or.inl h
        · exact Or.inr h
    | some v0 =>
      simp only [List.mem_cons, exists_eq_or_imp, forall_eq_or_imp, he]
      constructor
      · rintro (h | ⟨_, h⟩)
        · exact Or.inl (Or.inr h)
        · exact Or.inl (Or.inl h)
      · rintro ((h | h) | ⟨⟨h, _⟩, _⟩)
        · -- the head package binds `k`: either a later package binds it too (to the same value), or none does
          by_cases hex : ∃ e' ∈ es, IMap.lookup (e' f) k ≠ none
          · obtain ⟨e', he', hne⟩ := hex
            cases hl : IMap.lookup (e' f) k with
            | none => exact absurd hl hne
            | some v' =>
              have : v0 = v' := hc e (by simp) e' (by simp [he']) f k v0 v' he hl
              have hv : v0 = v := by injection h
              exact Or.inl ⟨e', he', by rw [hl, ← this, hv]⟩
          · refine Or.inr ⟨fun e' he' => ?_, h⟩
            cases hl : IMap.lookup (e' f) k with
            | none => rfl
            | some v' => exact absurd ⟨e', he', by rw [hl]; simp⟩ hex
        · exact Or.inl h
        · cases h

theorem Consistent.perm {es es' : List Env} (hp : es.Perm es') (h : Consistent es) : Consistent es' :=
  fun e1 h1 e2 h2 => h e1 (hp.mem_iff.mpr h1) e2 (hp.mem_iff.mpr h2)

theorem WF.perm {es es' : List Env} (hp : es.Perm es') (h : WF es) : WF es' :=
  fun e he => h e (hp.mem_iff.mpr he)

/-- **the order of the packages is irrelevant for every lookup in the link environment** -/
theorem applyAll_perm (fields : List String) (es es' : List Env) (g : Env) (hp : es.Perm es') (hwf : WF es) (hc : Consistent es)
    (f : String) (hf : fields.contains f = true) (k : String) :
    IMap.lookup ((applyAll fields es g) f) k = IMap.lookup ((applyAll fields es' g) f) k := by
  have h1 := fun v => lookup_applyAll fields f hf k v es g hwf hc
  have h2 := fun v => lookup_applyAll fields f hf k v es' g (hwf.perm hp) (hc.perm hp)
  have key : ∀ v, IMap.lookup ((applyAll fields es g) f) k = some v ↔ IMap.lookup ((applyAll fields es' g) f) k = some v := by
    intro v
    rw [h1 v, h2 v]
    constructor
    · rintro (⟨e, he, h⟩ | ⟨h, hg⟩)
      · exact Or.inl ⟨e, hp.mem_iff.mp he, h⟩
      · exact Or.inr ⟨fun e he => h e (hp.mem_iff.mpr he), hg⟩
    · rintro (⟨e, he, h⟩ | ⟨h, hg⟩)
      · exact Or.inl ⟨e, hp.mem_iff.mpr he, h⟩
      · exact Or.inr ⟨fun e he => h e (hp.mem_iff.mp he), hg⟩
  cases ha : IMap.lookup ((applyAll fields es g) f) k with
  | some v => exact ((key v).mp ha).symm
  | none =>
    cases hb : IMap.lookup ((applyAll fields es' g) f) k with
    | none => rfl
    | some v => rw [(key v).mpr hb] at ha; cases ha

/-! ### decidable sufficient conditions for `WF` / `Consistent` (what the driver evaluates on the real exports) -/

theorem wf_ofList (l : List (String × IMap)) (h : ∀ p ∈ l, (p.2.map (·.1)).Nodup) (f : String) :
    ((ofList l f).map (·.1)).Nodup := by
  unfold ofList
  cases hf : l.find? (·.1 == f) with
  | none => exact List.nodup_nil
  | some p => exact h p (List.mem_of_find?_eq_some hf)

theorem mem_of_lookup {m : IMap} {k v : String} (h : IMap.lookup m k = some v) : (k, v) ∈ m := by
  induction m with
  | nil => cases h
  | cons p m ih =>
    simp only [IMap.lookup] at h
    by_cases hp : p.1 = k
    · rw [if_pos hp] at h
      injection h with h
      have : p = (k, v) := by rw [← hp, ← h]
      rw [this]; exact List.Mem.head _
    · rw [if_neg hp] at h
      exact List.Mem.tail _ (ih h)

theorem ofList_mem {l : List (String × IMap)} {f : String} {q : String × String} (h : q ∈ ofList l f) :
    ∃ p ∈ l, p.1 = f ∧ q ∈ p.2 := by
  unfold ofList at h
  cases hf : l.find? (·.1 == f) with
  | none => rw [hf] at h; cases h
  | some p =>
    rw [hf] at h
    exact ⟨p, List.mem_of_find?_eq_some hf, by simpa using List.find?_some hf, h⟩

/-- a decidable sufficient condition for the consistency of two export lists -/
theorem consistent_pair (l1 l2 : List (String × IMap))
    (h : ∀ p1 ∈ l1, ∀ p2 ∈ l2, p1.1 = p2.1 → ∀ q1 ∈ p1.2, ∀ q2 ∈ p2.2, q1.1 = q2.1 → q1.2 = q2.2)
    (f k v1 v2 : String) (h1 : IMap.lookup (ofList l1 f) k = some v1)
    (h2 : IMap.lookup (ofList l2 f) k = some v2) : v1 = v2 := by
  obtain ⟨p1, hp1, e1, m1⟩ := ofList_mem (mem_of_lookup h1)
  obtain ⟨p2, hp2, e2, m2⟩ := ofList_mem (mem_of_lookup h2)
  exact h p1 hp1 p2 hp2 (e1.trans e2.symm) _ m1 _ m2 rfl


end Goml.Exports
