import GomlVerif.Lemmas.C14Alpha
/-! Lemmas for C14: the relation between the values of two runs whose programs differ by a per-function renaming
of bound names.  A closure value carries its body and its captured environment, so the values of the two runs are
not equal; they are related: closures whose bodies are renamings of each other (`aeE σ`) under environments that
are related name by name (`σ`) and value by value.  Everything observable (stdout, way of ending, extern events) is
equal. -/
namespace Goml.Alpha
open Goml Goml.Sem

mutual
/-- `VRel v' v`: `v'` is the value the renamed run holds where the original run holds `v` -/
inductive VRel : Val → Val → Prop
  | unit : VRel .unit .unit
  | bool (b : Bool) : VRel (.bool b) (.bool b)
  | int (n : Nat) (s : Bool) (v : Int) : VRel (.int n s v) (.int n s v)
  | float (n : Nat) (x : Float) : VRel (.float n x) (.float n x)
  | str (s : String) : VRel (.str s) (.str s)
  | tuple {vs' vs : List Val} : VRelL vs' vs → VRel (.tuple vs') (.tuple vs)
  | enumV (t : String) (i : Nat) {vs' vs : List Val} : VRelL vs' vs → VRel (.enumV t i vs') (.enumV t i vs)
  | structV (t : String) {vs' vs : List Val} : VRelL vs' vs → VRel (.structV t vs') (.structV t vs)
  | array {vs' vs : List Val} : VRelL vs' vs → VRel (.array vs') (.array vs)
  | vec {vs' vs : List Val} : VRelL vs' vs → VRel (.vec vs') (.vec vs)
  | ref (l : Nat) : VRel (.ref l) (.ref l)
  | fn (n : String) : VRel (.fn n) (.fn n)
  | dyn (tr k : String) {v' v : Val} : VRel v' v → VRel (.dyn tr k v') (.dyn tr k v)
  | closure (σ : String → String) (N B : List String) (ps : List String) (body body' : Expr) (ρ' ρ : Env) :
      injOn σ N = true → aeE σ body body' = true → scC (moved σ) B body = true → inE N body = true →
      (∀ p ∈ ps, N.contains p = true) → (∀ p ∈ ps, moved σ p = false) →
      (∀ x, B.contains x = true → (ρ.map (·.1)).contains x = true) → (∀ p ∈ ρ, N.contains p.1 = true) →
      ERel σ ρ' ρ → VRel (.closure (ps.map σ) body' ρ') (.closure ps body ρ)
inductive VRelL : List Val → List Val → Prop
  | nil : VRelL [] []
  | cons {v' v : Val} {vs' vs : List Val} : VRel v' v → VRelL vs' vs → VRelL (v' :: vs') (v :: vs)
/-- environments related: the same shape, names mapped by `σ`, values related -/
inductive ERel : (String → String) → Env → Env → Prop
  | nil (σ : String → String) : ERel σ [] []
  | cons (σ : String → String) (x : String) {v' v : Val} {ρ' ρ : Env} : VRel v' v → ERel σ ρ' ρ →
      ERel σ ((σ x, v') :: ρ') ((x, v) :: ρ)
end

/-- worlds related: equal in everything observable, stores and pending activations related cell by cell -/
structure WRel (w' w : World) : Prop where
  out : w'.out = w.out
  store : VRelL w'.store.toList w.store.toList
  spawned : VRelL w'.spawned w.spawned
  externs : w'.externs = w.externs
  eager : w'.eager = w.eager

/-- results related: both succeed with related values, or both fail in the same way; worlds related -/
def RRel {α : Type} (R : α → α → Prop) : Res α → Res α → Prop
  | .ok a' w', .ok a w => R a' a ∧ WRel w' w
  | .fail f' w', .fail f w => f' = f ∧ WRel w' w
  | _, _ => False

theorem res_cases {α : Type} {R : α → α → Prop} {r' r : Res α} (h : RRel R r' r) :
    (∃ a' a w' w, r' = .ok a' w' ∧ r = .ok a w ∧ R a' a ∧ WRel w' w) ∨
    (∃ f w' w, r' = .fail f w' ∧ r = .fail f w ∧ WRel w' w) := by
  cases r' <;> cases r <;> simp only [RRel] at h
  · exact Or.inl ⟨_, _, _, _, rfl, rfl, h.1, h.2⟩
  · obtain ⟨h1, h2⟩ := h; subst h1; exact Or.inr ⟨_, _, _, rfl, rfl, h2⟩

/-! ### lists of related values -/

theorem VRelL.length_eq {vs' vs : List Val} (h : VRelL vs' vs) : vs'.length = vs.length := by
  induction vs' generalizing vs with
  | nil => cases h; rfl
  | cons a as ih => cases h with | cons h1 h2 => simp [ih h2]

theorem VRelL.get {vs' vs : List Val} (h : VRelL vs' vs) (i : Nat) :
    (∃ a' a, vs'[i]? = some a' ∧ vs[i]? = some a ∧ VRel a' a) ∨ (vs'[i]? = none ∧ vs[i]? = none) := by
  induction vs' generalizing vs i with
  | nil => cases h; exact Or.inr ⟨rfl, rfl⟩
  | cons a as ih =>
    cases h with
    | cons h1 h2 =>
      cases i with
      | zero => exact Or.inl ⟨_, _, rfl, rfl, h1⟩
      | succ j => simpa using ih h2 j

theorem VRelL.set {vs' vs : List Val} (h : VRelL vs' vs) (i : Nat) {a' a : Val} (ha : VRel a' a) :
    VRelL (vs'.set i a') (vs.set i a) := by
  induction vs' generalizing vs i with
  | nil => cases h; exact .nil
  | cons b bs ih =>
    cases h with
    | cons h1 h2 =>
      cases i with
      | zero => exact .cons ha h2
      | succ j => exact .cons h1 (ih h2 j)

theorem VRelL.append {vs' vs us' us : List Val} (h : VRelL vs' vs) (g : VRelL us' us) : VRelL (vs' ++ us') (vs ++ us) := by
  induction vs' generalizing vs with
  | nil => cases h; exact g
  | cons b bs ih => cases h with | cons h1 h2 => exact .cons h1 (ih h2)

/-! ### first-order values are equal -/

def base : Val → Bool
  | .unit | .bool _ | .int _ _ _ | .float _ _ | .str _ => true
  | _ => false

theorem VRel.base_eq {a' a : Val} (h : VRel a' a) : base a' = base a := by cases h <;> rfl
theorem VRel.eq_of_base {a' a : Val} (h : VRel a' a) (hb : base a = true) : a' = a := by
  cases h <;> first | rfl | simp [base] at hb

theorem valEq_rel {a' a b' b : Val} (ha : VRel a' a) (hb : VRel b' b) : valEq a' b' = valEq a b := by
  cases ha <;> cases hb <;> rfl

theorem VRel.of_base {a : Val} (h : base a = true) : VRel a a := by
  cases a <;> first | (simp [base] at h; done) | constructor

theorem binop_base {op : BinOp} {a b v : Val} (h : binop op a b = .ok v) : base v = true := by
  cases op <;> cases a <;> cases b <;> simp only [binop, valEq] at h <;>
    first
    | (injection h with h; subst h; rfl)
    | (split at h <;> first | (injection h with h; subst h; rfl) | cases h)
    | cases h

theorem binop_rel {op : BinOp} {a' a b' b : Val} (ha : VRel a' a) (hb : VRel b' b) : binop op a' b' = binop op a b := by
  by_cases h1 : base a = true
  · by_cases h2 : base b = true
    · rw [ha.eq_of_base h1, hb.eq_of_base h2]
    · rw [ha.eq_of_base h1]
      cases hb <;> first | (exfalso; exact h2 rfl) | (cases op <;> cases a <;> rfl)
  · cases ha <;> first | (exfalso; exact h1 rfl) | (cases op <;> cases hb <;> rfl)

theorem unop_rel {op : UnOp} {a' a : Val} (ha : VRel a' a) : unop op a' = unop op a := by
  cases ha <;> first | rfl | (cases op <;> rfl)

theorem unop_base {op : UnOp} {a v : Val} (h : unop op a = .ok v) : base v = true := by
  cases op <;> cases a <;> simp only [unop] at h <;> first | (injection h with h; subst h; rfl) | cases h

theorem armMatches_rel (l : Expr) {v' v : Val} (h : VRel v' v) : armMatches l v' = armMatches l v := by
  cases l with
  | constr c t args => cases c <;> cases h <;> rfl
  | tag i t => cases h <;> rfl
  | prim p =>
    simp only [armMatches]
    rw [valEq_rel (VRel.of_base (a := primVal p) (by cases p <;> rfl)) h]
  | _ => cases h <;> rfl

theorem logicalNonBool_rel (op : BinOp) {a' a : Val} (h : VRel a' a) : logicalNonBool op a' = logicalNonBool op a := by
  cases h <;> rfl

end Goml.Alpha
