import GomlVerif.Lemmas.C14Rel
/-! C14: builtins take related arguments and related worlds to related results. -/
namespace Goml.Alpha
open Goml Goml.Sem

def BRel : Option (Res Val) → Option (Res Val) → Prop
  | some r', some r => RRel VRel r' r
  | none, none => True
  | _, _ => False

/-! inversion, as rewrite rules -/
theorem vl_nil_l (xs : List Val) : VRelL [] xs ↔ xs = [] := ⟨fun h => by cases h; rfl, fun h => h ▸ .nil⟩
theorem vl_nil_r (xs : List Val) : VRelL xs [] ↔ xs = [] := ⟨fun h => by cases h; rfl, fun h => h ▸ .nil⟩
theorem vl_cons_l (a' : Val) (as' xs : List Val) : VRelL (a' :: as') xs ↔ ∃ a as, xs = a :: as ∧ VRel a' a ∧ VRelL as' as :=
  ⟨fun h => by cases h with | cons h1 h2 => exact ⟨_, _, rfl, h1, h2⟩, fun ⟨_, _, e, h1, h2⟩ => e ▸ .cons h1 h2⟩
theorem vl_cons_r (a : Val) (as xs : List Val) : VRelL xs (a :: as) ↔ ∃ a' as', xs = a' :: as' ∧ VRel a' a ∧ VRelL as' as :=
  ⟨fun h => by cases h with | cons h1 h2 => exact ⟨_, _, rfl, h1, h2⟩, fun ⟨_, _, e, h1, h2⟩ => e ▸ .cons h1 h2⟩
theorem v_unit_l (a : Val) : VRel .unit a ↔ a = .unit := ⟨fun h => by cases h; rfl, fun h => h ▸ .unit⟩
theorem v_unit_r (a : Val) : VRel a .unit ↔ a = .unit := ⟨fun h => by cases h; rfl, fun h => h ▸ .unit⟩
theorem v_bool_l (b : Bool) (a : Val) : VRel (.bool b) a ↔ a = .bool b := ⟨fun h => by cases h; rfl, fun h => h ▸ .bool b⟩
theorem v_bool_r (b : Bool) (a : Val) : VRel a (.bool b) ↔ a = .bool b := ⟨fun h => by cases h; rfl, fun h => h ▸ .bool b⟩
theorem v_int_l (n : Nat) (s : Bool) (v : Int) (a : Val) : VRel (.int n s v) a ↔ a = .int n s v := ⟨fun h => by cases h; rfl, fun h => h ▸ .int n s v⟩
theorem v_int_r (n : Nat) (s : Bool) (v : Int) (a : Val) : VRel a (.int n s v) ↔ a = .int n s v := ⟨fun h => by cases h; rfl, fun h => h ▸ .int n s v⟩
theorem v_float_l (n : Nat) (x : Float) (a : Val) : VRel (.float n x) a ↔ a = .float n x := ⟨fun h => by cases h; rfl, fun h => h ▸ .float n x⟩
theorem v_float_r (n : Nat) (x : Float) (a : Val) : VRel a (.float n x) ↔ a = .float n x := ⟨fun h => by cases h; rfl, fun h => h ▸ .float n x⟩
theorem v_str_l (s : String) (a : Val) : VRel (.str s) a ↔ a = .str s := ⟨fun h => by cases h; rfl, fun h => h ▸ .str s⟩
theorem v_str_r (s : String) (a : Val) : VRel a (.str s) ↔ a = .str s := ⟨fun h => by cases h; rfl, fun h => h ▸ .str s⟩
theorem v_ref_l (l : Nat) (a : Val) : VRel (.ref l) a ↔ a = .ref l := ⟨fun h => by cases h; rfl, fun h => h ▸ .ref l⟩
theorem v_ref_r (l : Nat) (a : Val) : VRel a (.ref l) ↔ a = .ref l := ⟨fun h => by cases h; rfl, fun h => h ▸ .ref l⟩
theorem v_array_l (vs' : List Val) (a : Val) : VRel (.array vs') a ↔ ∃ vs, a = .array vs ∧ VRelL vs' vs :=
  ⟨fun h => by cases h with | array h => exact ⟨_, rfl, h⟩, fun ⟨_, e, h⟩ => e ▸ .array h⟩
theorem v_array_r (vs : List Val) (a : Val) : VRel a (.array vs) ↔ ∃ vs', a = .array vs' ∧ VRelL vs' vs :=
  ⟨fun h => by cases h with | array h => exact ⟨_, rfl, h⟩, fun ⟨_, e, h⟩ => e ▸ .array h⟩
theorem v_vec_l (vs' : List Val) (a : Val) : VRel (.vec vs') a ↔ ∃ vs, a = .vec vs ∧ VRelL vs' vs :=
  ⟨fun h => by cases h with | vec h => exact ⟨_, rfl, h⟩, fun ⟨_, e, h⟩ => e ▸ .vec h⟩
theorem v_vec_r (vs : List Val) (a : Val) : VRel a (.vec vs) ↔ ∃ vs', a = .vec vs' ∧ VRelL vs' vs :=
  ⟨fun h => by cases h with | vec h => exact ⟨_, rfl, h⟩, fun ⟨_, e, h⟩ => e ▸ .vec h⟩

theorem WRel.size_eq {w' w : World} (h : WRel w' w) : w'.store.size = w.store.size := by
  have := h.store.length_eq
  simpa using this

theorem WRel.getStore {w' w : World} (h : WRel w' w) (l : Nat) :
    (∃ a' a, w'.store[l]? = some a' ∧ w.store[l]? = some a ∧ VRel a' a) ∨ (w'.store[l]? = none ∧ w.store[l]? = none) := by
  have := h.store.get l
  simpa using this

theorem builtin_rel (name : String) {args' args : List Val} {w' w : World} (ha : VRelL args' args) (hw : WRel w' w) :
    BRel (builtin name args' w') (builtin name args w) := by
  unfold builtin
  split
  all_goals try simp [vl_nil_l, vl_cons_l, v_unit_l, v_bool_l, v_int_l, v_float_l, v_str_l, v_ref_l, v_array_l, v_vec_l] at ha
  case h_1 => subst ha; simp; exact ⟨.str _, hw⟩
  case h_2 => subst ha; simp; exact ⟨.str _, hw⟩
  case h_3 => subst ha; simp; exact ⟨.str _, hw⟩
  case h_4 => subst ha; simp; exact ⟨.str _, hw⟩
  case h_5 => subst ha; simp; exact ⟨.int _ _ _, hw⟩
  case h_6 =>
    subst ha; simp
    split
    · exact ⟨rfl, hw⟩
    · split
      · exact ⟨.str _, hw⟩
      · exact ⟨rfl, hw⟩
  case h_7 => subst ha; simp; exact ⟨.unit, ⟨by simp [hw.out], hw.store, hw.spawned, hw.externs, hw.eager⟩⟩
  case h_8 => subst ha; simp; exact ⟨.unit, ⟨by simp [hw.out], hw.store, hw.spawned, hw.externs, hw.eager⟩⟩
  case h_9 => obtain ⟨a, rfl, h1⟩ := ha; simp; exact ⟨rfl, hw⟩
  case h_10 =>
    obtain ⟨a, rfl, h1⟩ := ha; simp
    refine ⟨?_, ⟨hw.out, ?_, hw.spawned, hw.externs, hw.eager⟩⟩
    · rw [hw.size_eq]; exact .ref _
    · simp only [Array.toList_push]; exact hw.store.append (.cons h1 .nil)
  case h_11 =>
    subst ha; simp
    rename_i l
    rcases hw.getStore l with ⟨a', a, e1, e2, h⟩ | ⟨e1, e2⟩
    · rw [e1, e2]; exact ⟨h, hw⟩
    · rw [e1, e2]; exact ⟨rfl, hw⟩
  case h_12 =>
    obtain ⟨a, as, rfl, rfl, b, rfl, h1⟩ := ha; simp
    rw [hw.size_eq]
    split
    · refine ⟨.unit, ⟨hw.out, ?_, hw.spawned, hw.externs, hw.eager⟩⟩
      simp only [Array.toList_setIfInBounds]
      exact hw.store.set _ h1
    · exact ⟨rfl, hw⟩
  case h_13 =>
    obtain ⟨a, rfl, vs, rfl, h1⟩ := ha; simp
    split
    · exact ⟨rfl, hw⟩
    · rename_i i _
      rcases h1.get i.toNat with ⟨a', a, e1, e2, h⟩ | ⟨e1, e2⟩
      · rw [e1, e2]; exact ⟨h, hw⟩
      · rw [e1, e2]; exact ⟨rfl, hw⟩
  case h_14 =>
    obtain ⟨a, as, rfl, ⟨vs, rfl, h1⟩, b, bs, rfl, rfl, c, rfl, h2⟩ := ha; simp
    rw [h1.length_eq]
    split
    · exact ⟨rfl, hw⟩
    · exact ⟨.array (h1.set _ h2), hw⟩
  case h_15 => subst ha; simp; exact ⟨.vec .nil, hw⟩
  case h_16 =>
    obtain ⟨a, as, rfl, ⟨vs, rfl, h1⟩, b, rfl, h2⟩ := ha; simp
    exact ⟨.vec (h1.append (.cons h2 .nil)), hw⟩
  case h_17 =>
    obtain ⟨a, rfl, vs, rfl, h1⟩ := ha; simp
    split
    · exact ⟨rfl, hw⟩
    · rename_i i _
      rcases h1.get i.toNat with ⟨a', a, e1, e2, h⟩ | ⟨e1, e2⟩
      · rw [e1, e2]; exact ⟨h, hw⟩
      · rw [e1, e2]; exact ⟨rfl, hw⟩
  case h_18 =>
    obtain ⟨a, rfl, vs, rfl, h1⟩ := ha; simp
    rw [h1.length_eq]; exact ⟨.int _ _ _, hw⟩
  case h_19 =>
    subst ha
    split <;> split <;> try (simp_all; done)
    · rw [if_pos (by assumption)]; cases ‹[Val.int _ _ _] = [Val.int _ _ _]›; exact ⟨.str _, hw⟩
    · rw [if_neg (by assumption)]; exact True.intro
  case h_20 =>
    subst ha
    split <;> split <;> try (simp_all; done)
    · rw [if_pos (by assumption)]; cases ‹[Val.float _ _] = [Val.float _ _]›; exact ⟨.str _, hw⟩
    · rw [if_neg (by assumption)]; exact True.intro
  case h_21 =>
    split <;> try (simp_all; done)
    all_goals try simp [vl_nil_r, vl_cons_r, v_unit_r, v_bool_r, v_int_r, v_float_r, v_str_r, v_ref_r, v_array_r, v_vec_r] at ha
    all_goals try (simp_all; done)
    case h_6 => subst ha; exfalso; solve_by_elim
    case h_12 => obtain ⟨_, _, rfl, rfl, _, rfl, _⟩ := ha; exfalso; solve_by_elim
    case h_13 => obtain ⟨_, rfl, _, rfl, _⟩ := ha; exfalso; solve_by_elim
    case h_14 => obtain ⟨_, _, rfl, ⟨_, rfl, _⟩, _, _, rfl, rfl, _, rfl, _⟩ := ha; exfalso; solve_by_elim
    case h_16 => obtain ⟨_, _, rfl, ⟨_, rfl, _⟩, _, rfl, _⟩ := ha; exfalso; solve_by_elim
    case h_17 => obtain ⟨_, rfl, _, rfl, _⟩ := ha; exfalso; solve_by_elim
    case h_18 => obtain ⟨_, rfl, _, rfl, _⟩ := ha; exfalso; solve_by_elim
    case h_21 => exact True.intro

end Goml.Alpha
