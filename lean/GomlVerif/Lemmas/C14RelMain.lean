import GomlVerif.Lemmas.C14RelB
/-! C14: the two Cores evaluate to related results (closures included).  Induction on fuel over
`eval / evalList / evalArms / apply`, with the relation of `Lemmas/C14Rel.lean` on values and worlds. -/
namespace Goml.Alpha
open Goml Goml.Sem

theorem eqPrim_sound {p q : Prim} (h : eqPrim p q = true) : p = q := by
  cases p <;> cases q <;> simp [eqPrim] at h <;> simp [h]

theorem aeLhs_matches {l m : Expr} (h : aeLhs l m = true) (v : Val) : armMatches m v = armMatches l v := by
  cases l <;> cases m <;> simp [aeLhs, isHead] at h <;> try rfl
  · rw [eqPrim_sound h]
  · subst h; cases v <;> simp [armMatches]
  · subst h
    rename_i c _ _ _ _
    cases c <;> cases v <;> simp [armMatches]

theorem ERel.lookup {σ : String → String} {N : List String} (hσ : injOn σ N = true) {ρ' ρ : Env} (h : ERel σ ρ' ρ)
    (x : String) (hx : N.contains x = true) (hρ : EnvIn N ρ) :
    (∃ v' v, lookupEnv ρ' (σ x) = some v' ∧ lookupEnv ρ x = some v ∧ VRel v' v) ∨
    (lookupEnv ρ' (σ x) = none ∧ lookupEnv ρ x = none) := by
  induction ρ generalizing ρ' with
  | nil => cases h; exact Or.inr ⟨rfl, rfl⟩
  | cons p ρ ih =>
    cases h with
    | cons _ y hv ht =>
      have ih := ih ht (fun q hq => hρ q (by simp [hq]))
      have hp : N.contains y = true := hρ _ (List.Mem.head _)
      simp only [lookupEnv, List.find?_cons] at ih ⊢
      by_cases hxy : y = x
      · have h1 : (σ y == σ x) = true := by rw [hxy]; exact beq_self_eq_true _
        have h2 : (y == x) = true := by rw [hxy]; exact beq_self_eq_true _
        simp only [h1, h2]
        exact Or.inl ⟨_, _, rfl, rfl, hv⟩
      · have h1 : (σ y == σ x) = false := beq_eq_false_iff_ne.mpr (fun e => hxy (injOn_apply hσ hp hx e))
        have h2 : (y == x) = false := beq_eq_false_iff_ne.mpr hxy
        simp only [h1, h2]
        exact ih

theorem ERel.bind {σ : String → String} : ∀ (ps : List String) {args' args : List Val} {ρ' ρ : Env},
    ERel σ ρ' ρ → VRelL args' args → ERel σ (bindParams (ps.map σ) args' ρ') (bindParams ps args ρ)
  | [], _, _, _, _, h, _ => by simpa [bindParams] using h
  | p :: ps, _, _, _, _, h, .nil => by simpa [bindParams] using h
  | p :: ps, _, _, _, _, h, .cons h1 h2 => by
    simp only [List.map_cons, bindParams]
    exact ERel.bind ps (.cons _ p h1 h) h2

theorem domOk_bind {B : List String} : ∀ (ps : List String) (args : List Val) (ρ : Env), DomOk B ρ → DomOk B (bindParams ps args ρ)
  | [], _, _, h => by simpa [bindParams] using h
  | _ :: _, [], _, h => by simpa [bindParams] using h
  | p :: ps, a :: as, ρ, h => by
    simp only [bindParams]
    apply domOk_bind ps as ((p, a) :: ρ)
    intro x hx
    have := h x hx
    simp only [List.map_cons, List.contains_cons, Bool.or_eq_true]
    exact Or.inr this

/-- statement (A): `e'` is `e` renamed by `σ`; environments and worlds related ⇒ results related -/
def RA (S W : Prog) (fuel : Nat) : Prop :=
  ∀ σ N, injOn σ N = true → ∀ (ρ' ρ : Env) (w' w : World) (e e' : Expr) (B : List String),
    scC (moved σ) B e = true → DomOk B ρ → inE N e = true → EnvIn N ρ → aeE σ e e' = true → ERel σ ρ' ρ → WRel w' w →
    RRel VRel (eval fuel W ρ' w' e') (eval fuel S ρ w e)
def RAL (S W : Prog) (fuel : Nat) : Prop :=
  ∀ σ N, injOn σ N = true → ∀ (ρ' ρ : Env) (w' w : World) (es es' : List Expr) (B : List String),
    scCL (moved σ) B es = true → DomOk B ρ → inL N es = true → EnvIn N ρ → aeL σ es es' = true → ERel σ ρ' ρ → WRel w' w →
    RRel VRelL (evalList fuel W ρ' w' es') (evalList fuel S ρ w es)
def RAA (S W : Prog) (fuel : Nat) : Prop :=
  ∀ σ N, injOn σ N = true → ∀ (ρ' ρ : Env) (w' w : World) (v' v : Val) (arms arms' : List Arm) (d d' : Option Expr) (B : List String),
    scCArms (moved σ) B arms = true → scCO (moved σ) B d = true → DomOk B ρ →
    inArms N arms = true → inO N d = true → EnvIn N ρ → aeArms σ arms arms' = true → aeO σ d d' = true →
    ERel σ ρ' ρ → WRel w' w → VRel v' v →
    RRel VRel (evalArms fuel W ρ' w' v' arms' d') (evalArms fuel S ρ w v arms d)
/-- statement (B): related functions applied to related arguments -/
def RB (S W : Prog) (fuel : Nat) : Prop :=
  ∀ (w' w : World) (f' f : Val) (args' args : List Val), WRel w' w → VRel f' f → VRelL args' args →
    RRel VRel (apply fuel W w' f' args') (apply fuel S w f args)

theorem rA_step {S W : Prog}
    (himpl : ∀ tr key m, W.impls.find? (fun i => i.1 == tr && i.2.1 == key && i.2.2.1 == m) = S.impls.find? (fun i => i.1 == tr && i.2.1 == key && i.2.2.1 == m)) {n : Nat}
    (ihA : RA S W n) (ihL : RAL S W n) (ihAA : RAA S W n) (ihB : RB S W n) : RA S W (n + 1) := by
  intro σ N hσ ρ' ρ w' w e e' B hsc hB hin hρ hae hE hw
  have A := fun (w' w : World) (e e' : Expr) hsc hin hae hw => ihA σ N hσ ρ' ρ w' w e e' B hsc hB hin hρ hae hE hw
  have L := fun (w' w : World) (es es' : List Expr) hsc hin hae hw => ihL σ N hσ ρ' ρ w' w es es' B hsc hB hin hρ hae hE hw
  cases e with
  | var x t =>
    cases e' with
    | var y u =>
      simp only [aeE, beq_iff_eq] at hae
      subst hae
      simp only [inE] at hin
      simp only [eval]
      rcases hE.lookup hσ x hin hρ with ⟨v', v, e1, e2, hv⟩ | ⟨e1, e2⟩
      · simp only [e1, e2]; exact ⟨hv, hw⟩
      · simp only [e1, e2]
        have hnd := lookup_none_dom e2
        simp only [scC, Bool.or_eq_true, Bool.not_eq_true'] at hsc
        rcases hsc with h | h
        · simp only [moved, bne_eq_false_iff_eq] at h
          rw [h]; exact ⟨.fn _, hw⟩
        · have := hB x h; rw [hnd] at this; cases this
    | _ => simp [aeE] at hae
  | prim p =>
    cases e' with
    | prim q =>
      simp only [aeE] at hae; rw [eqPrim_sound hae]; simp only [eval]
      exact ⟨VRel.of_base (by cases q <;> rfl), hw⟩
    | _ => simp [aeE] at hae
  | tag i t =>
    cases e' with
    | tag j u =>
      simp only [aeE, Bool.and_eq_true, beq_iff_eq] at hae; obtain ⟨hi, ht⟩ := hae; subst hi
      simp only [eval, ht]; exact ⟨.enumV _ _ .nil, hw⟩
    | _ => simp [aeE] at hae
  | constr c t args =>
    cases e' with
    | constr c' t' args' =>
      simp only [aeE, Bool.and_eq_true, decide_eq_true_eq] at hae
      obtain ⟨hc, ha⟩ := hae; subst hc
      simp only [scC, inE] at hsc hin
      simp only [eval]
      rcases res_cases (L w' w args args' hsc hin ha hw) with ⟨vs', vs, w1', w1, e1, e2, hv, hw1⟩ | ⟨f, w1', w1, e1, e2, hw1⟩
      · simp only [e1, e2]
        cases c
        · exact ⟨.enumV _ _ hv, hw1⟩
        · exact ⟨.structV _ hv, hw1⟩
      · simp only [e1, e2]; exact ⟨rfl, hw1⟩
    | _ => simp [aeE] at hae
  | tuple t items =>
    cases e' with
    | tuple t' items' =>
      simp only [aeE] at hae
      simp only [scC, inE] at hsc hin
      simp only [eval]
      rcases res_cases (L w' w items items' hsc hin hae hw) with ⟨vs', vs, w1', w1, e1, e2, hv, hw1⟩ | ⟨f, w1', w1, e1, e2, hw1⟩
      · simp only [e1, e2]; exact ⟨.tuple hv, hw1⟩
      · simp only [e1, e2]; exact ⟨rfl, hw1⟩
    | _ => simp [aeE] at hae
  | array t items =>
    cases e' with
    | array t' items' =>
      simp only [aeE] at hae
      simp only [scC, inE] at hsc hin
      simp only [eval]
      rcases res_cases (L w' w items items' hsc hin hae hw) with ⟨vs', vs, w1', w1, e1, e2, hv, hw1⟩ | ⟨f, w1', w1, e1, e2, hw1⟩
      · simp only [e1, e2]; exact ⟨.array hv, hw1⟩
      · simp only [e1, e2]; exact ⟨rfl, hw1⟩
    | _ => simp [aeE] at hae
  | closure t ps b =>
    cases e' with
    | closure t' qs c =>
      simp only [aeE, Bool.and_eq_true, beq_iff_eq] at hae
      simp only [scC, inE, Bool.and_eq_true, List.all_eq_true, Bool.not_eq_true'] at hsc hin
      have hq : qs.map (·.1) = (ps.map (·.1)).map σ := by
        rw [← hae.1]; simp [List.map_map, Function.comp_def]
      simp only [eval]
      rw [hq]
      refine ⟨VRel.closure σ N B _ b c ρ' ρ hσ hae.2 hsc.2 hin.2 ?_ ?_ hB hρ hE, hw⟩
      · intro p hp
        simp only [List.mem_map] at hp
        obtain ⟨q, hq1, hq2⟩ := hp
        rw [← hq2]; exact hin.1 q hq1
      · intro p hp
        simp only [List.mem_map] at hp
        obtain ⟨q, hq1, hq2⟩ := hp
        rw [← hq2]; exact hsc.1 q hq1
    | _ => simp [aeE] at hae
  | letE x v b =>
    cases e' with
    | letE y v' b' =>
      simp only [aeE, Bool.and_eq_true, beq_iff_eq] at hae
      obtain ⟨⟨hx, hv⟩, hb⟩ := hae; subst hx
      simp only [scC, inE, Bool.and_eq_true] at hsc hin
      simp only [eval]
      rcases res_cases (A w' w v v' hsc.1 hin.1.2 hv hw) with ⟨a', a, w1', w1, e1, e2, ha, hw1⟩ | ⟨f, w1', w1, e1, e2, hw1⟩
      · simp only [e1, e2]
        have hρ' : EnvIn N ((x, a) :: ρ) := by
          intro p hp
          simp only [List.mem_cons] at hp
          rcases hp with hp | hp
          · rw [hp]; exact hin.1.1
          · exact hρ p hp
        exact ihA σ N hσ ((σ x, a') :: ρ') ((x, a) :: ρ) w1' w1 b b' (x :: B) hsc.2 (domOk_cons hB x a) hin.2 hρ' hb (.cons σ x ha hE) hw1
      · simp only [e1, e2]; exact ⟨rfl, hw1⟩
    | _ => simp [aeE] at hae
  | matchE t sc arms d =>
    cases e' with
    | matchE t' sc' arms' d' =>
      simp only [aeE, Bool.and_eq_true] at hae
      simp only [scC, inE, Bool.and_eq_true] at hsc hin
      simp only [eval]
      rcases res_cases (A w' w sc sc' hsc.1.1 hin.1.1 hae.1.1 hw) with ⟨a', a, w1', w1, e1, e2, ha, hw1⟩ | ⟨f, w1', w1, e1, e2, hw1⟩
      · simp only [e1, e2]
        exact ihAA σ N hσ ρ' ρ w1' w1 a' a arms arms' d d' B hsc.1.2 hsc.2 hB hin.1.2 hin.2 hρ hae.1.2 hae.2 hE hw1 ha
      · simp only [e1, e2]; exact ⟨rfl, hw1⟩
    | _ => simp [aeE] at hae
  | ite c t e =>
    cases e' with
    | ite c' t' e2 =>
      simp only [aeE, Bool.and_eq_true] at hae
      simp only [scC, inE, Bool.and_eq_true] at hsc hin
      simp only [eval]
      rcases res_cases (A w' w c c' hsc.1.1 hin.1.1 hae.1.1 hw) with ⟨a', a, w1', w1, e1, e2', ha, hw1⟩ | ⟨f, w1', w1, e1, e2', hw1⟩
      · simp only [e1, e2']
        cases ha with
        | bool b =>
          cases b
          · exact A w1' w1 e e2 hsc.2 hin.2 hae.2 hw1
          · exact A w1' w1 t t' hsc.1.2 hin.1.2 hae.1.2 hw1
        | _ => exact ⟨rfl, hw1⟩
      · simp only [e1, e2']; exact ⟨rfl, hw1⟩
    | _ => simp [aeE] at hae
  | «while» c b =>
    cases e' with
    | «while» c' b' =>
      have hsc0 := hsc
      have hin0 := hin
      have hae0 := hae
      simp only [aeE, Bool.and_eq_true] at hae
      simp only [scC, inE, Bool.and_eq_true] at hsc hin
      simp only [eval]
      rcases res_cases (A w' w c c' hsc.1 hin.1 hae.1 hw) with ⟨a', a, w1', w1, e1, e2, ha, hw1⟩ | ⟨f, w1', w1, e1, e2, hw1⟩
      · simp only [e1, e2]
        cases ha with
        | bool bb =>
          cases bb
          · exact ⟨.unit, hw1⟩
          · show RRel VRel (match eval n W ρ' w1' b' with
                | .fail f w => .fail f w
                | .ok _ w => eval n W ρ' w (.while c' b'))
              (match eval n S ρ w1 b with
                | .fail f w => .fail f w
                | .ok _ w => eval n S ρ w (.while c b))
            rcases res_cases (A w1' w1 b b' hsc.2 hin.2 hae.2 hw1) with ⟨_, _, w2', w2, e3, e4, _, hw2⟩ | ⟨f, w2', w2, e3, e4, hw2⟩
            · simp only [e3, e4]
              exact A w2' w2 (.while c b) (.while c' b') hsc0 hin0 hae0 hw2
            · simp only [e3, e4]; exact ⟨rfl, hw2⟩
        | _ => exact ⟨rfl, hw1⟩
      · simp only [e1, e2]; exact ⟨rfl, hw1⟩
    | _ => simp [aeE] at hae
  | go e =>
    cases e' with
    | go e2 =>
      simp only [aeE] at hae
      simp only [scC, inE] at hsc hin
      simp only [eval]
      rcases res_cases (A w' w e e2 hsc hin hae hw) with ⟨a', a, w1', w1, e1, e2', ha, hw1⟩ | ⟨f, w1', w1, e1, e2', hw1⟩
      · simp only [e1, e2', hw1.eager]
        cases hEg : w1.eager
        · simp only [Bool.false_eq_true, if_false]
          exact ⟨.unit, ⟨hw1.out, hw1.store, hw1.spawned.append (.cons ha .nil), hw1.externs, rfl⟩⟩
        · simp only [if_true]
          rcases res_cases (ihB w1' w1 a' a [] [] hw1 ha .nil) with ⟨_, _, w2', w2, e3, e4, _, hw2⟩ | ⟨f, w2', w2, e3, e4, hw2⟩
          · simp only [e3, e4]; exact ⟨.unit, hw2⟩
          · simp only [e3, e4]; exact ⟨rfl, hw2⟩
      · simp only [e1, e2']; exact ⟨rfl, hw1⟩
    | _ => simp [aeE] at hae
  | cget c i t e =>
    cases e' with
    | cget c' i' t' e2 =>
      simp only [aeE, Bool.and_eq_true, decide_eq_true_eq, beq_iff_eq] at hae
      obtain ⟨⟨hc, hi⟩, he⟩ := hae; subst hc; subst hi
      simp only [scC, inE] at hsc hin
      simp only [eval]
      rcases res_cases (A w' w e e2 hsc hin he hw) with ⟨a', a, w1', w1, e1, e2', ha, hw1⟩ | ⟨f, w1', w1, e1, e2', hw1⟩
      · simp only [e1, e2']
        cases ha with
        | enumV _ _ hl =>
          rcases hl.get i with ⟨x', x, g1, g2, hx⟩ | ⟨g1, g2⟩
          · simp only [g1, g2]; exact ⟨hx, hw1⟩
          · simp only [g1, g2]; exact ⟨rfl, hw1⟩
        | structV _ hl =>
          rcases hl.get i with ⟨x', x, g1, g2, hx⟩ | ⟨g1, g2⟩
          · simp only [g1, g2]; exact ⟨hx, hw1⟩
          · simp only [g1, g2]; exact ⟨rfl, hw1⟩
        | _ => exact ⟨rfl, hw1⟩
      · simp only [e1, e2']; exact ⟨rfl, hw1⟩
    | _ => simp [aeE] at hae
  | un op t e =>
    cases e' with
    | un op' t' e2 =>
      simp only [aeE, Bool.and_eq_true, decide_eq_true_eq] at hae
      obtain ⟨ho, he⟩ := hae; subst ho
      simp only [scC, inE] at hsc hin
      simp only [eval]
      rcases res_cases (A w' w e e2 hsc hin he hw) with ⟨a', a, w1', w1, e1, e2', ha, hw1⟩ | ⟨f, w1', w1, e1, e2', hw1⟩
      · simp only [e1, e2', unop_rel ha]
        cases hu : unop op a with
        | ok r => exact ⟨VRel.of_base (unop_base hu), hw1⟩
        | error f => exact ⟨rfl, hw1⟩
      · simp only [e1, e2']; exact ⟨rfl, hw1⟩
    | _ => simp [aeE] at hae
  | bin op t l r =>
    cases e' with
    | bin op' t' l' r' =>
      simp only [aeE, Bool.and_eq_true, decide_eq_true_eq] at hae
      obtain ⟨⟨ho, hl⟩, hr⟩ := hae; subst ho
      simp only [scC, inE, Bool.and_eq_true] at hsc hin
      simp only [eval]
      rcases res_cases (A w' w l l' hsc.1 hin.1 hl hw) with ⟨a', a, w1', w1, e1, e2, ha, hw1⟩ | ⟨f, w1', w1, e1, e2, hw1⟩
      · simp only [e1, e2]
        have hZ : RRel VRel
            (if logicalNonBool op a' then .fail (.stuck "logical operator on a non-boolean") w1' else
              match eval n W ρ' w1' r' with
              | .fail f w => .fail f w
              | .ok b w =>
                match binop op a' b with
                | .ok v => .ok v w
                | .error f => .fail f w)
            (if logicalNonBool op a then .fail (.stuck "logical operator on a non-boolean") w1 else
              match eval n S ρ w1 r with
              | .fail f w => .fail f w
              | .ok b w =>
                match binop op a b with
                | .ok v => .ok v w
                | .error f => .fail f w) := by
          rw [logicalNonBool_rel op ha]
          cases logicalNonBool op a with
          | true => simp only [if_true]; exact ⟨rfl, hw1⟩
          | false =>
            simp only [Bool.false_eq_true, if_false]
            rcases res_cases (A w1' w1 r r' hsc.2 hin.2 hr hw1) with ⟨b', b, w2', w2, e3, e4, hb, hw2⟩ | ⟨f, w2', w2, e3, e4, hw2⟩
            · simp only [e3, e4, binop_rel ha hb]
              cases hbo : binop op a b with
              | ok v => exact ⟨VRel.of_base (binop_base hbo), hw2⟩
              | error f => exact ⟨rfl, hw2⟩
            · simp only [e3, e4]; exact ⟨rfl, hw2⟩
        cases ha <;> cases op <;>
          first
          | exact hZ
          | (rename_i bb; cases bb <;> first | exact hZ | exact ⟨.bool _, hw1⟩)
      · simp only [e1, e2]; exact ⟨rfl, hw1⟩
    | _ => simp [aeE] at hae
  | call t f args =>
    cases e' with
    | call t' f' args' =>
      simp only [aeE, Bool.and_eq_true] at hae
      simp only [scC, inE, Bool.and_eq_true] at hsc hin
      simp only [eval]
      rcases res_cases (A w' w f f' hsc.1 hin.1 hae.1 hw) with ⟨fv', fv, w1', w1, e1, e2, hf, hw1⟩ | ⟨ff, w1', w1, e1, e2, hw1⟩
      · simp only [e1, e2]
        rcases res_cases (L w1' w1 args args' hsc.2 hin.2 hae.2 hw1) with ⟨vs', vs, w2', w2, e3, e4, hvs, hw2⟩ | ⟨ff, w2', w2, e3, e4, hw2⟩
        · simp only [e3, e4]; exact ihB w2' w2 fv' fv vs' vs hw2 hf hvs
        · simp only [e3, e4]; exact ⟨rfl, hw2⟩
      · simp only [e1, e2]; exact ⟨rfl, hw1⟩
    | _ => simp [aeE] at hae
  | toDyn tr ft t e =>
    cases e' with
    | toDyn tr' ft' t' e2 =>
      simp only [aeE, Bool.and_eq_true, beq_iff_eq] at hae
      obtain ⟨⟨htr, hk⟩, he⟩ := hae; subst htr
      simp only [scC, inE] at hsc hin
      simp only [eval]
      rcases res_cases (A w' w e e2 hsc hin he hw) with ⟨a', a, w1', w1, e1, e2', ha, hw1⟩ | ⟨f, w1', w1, e1, e2', hw1⟩
      · simp only [e1, e2', hk]; exact ⟨.dyn _ _ ha, hw1⟩
      · simp only [e1, e2']; exact ⟨rfl, hw1⟩
    | _ => simp [aeE] at hae
  | dynCall tr m t r args =>
    cases e' with
    | dynCall tr' m' t' r' args' =>
      simp only [aeE, Bool.and_eq_true, beq_iff_eq] at hae
      obtain ⟨⟨⟨htr, hm⟩, hr⟩, ha⟩ := hae; subst htr; subst hm
      simp only [scC, inE, Bool.and_eq_true] at hsc hin
      simp only [eval]
      rcases res_cases (A w' w r r' hsc.1 hin.1 hr hw) with ⟨rv', rv, w1', w1, e1, e2, hv, hw1⟩ | ⟨f, w1', w1, e1, e2, hw1⟩
      · simp only [e1, e2]
        cases hv with
        | dyn _ k hv =>
          show RRel VRel (match evalList n W ρ' w1' args' with
              | .fail f w => .fail f w
              | .ok vs w =>
                match W.impls.find? (fun i => i.1 == tr && i.2.1 == k && i.2.2.1 == m) with
                | some i => apply n W w (.fn i.2.2.2) (_ :: vs)
                | none => .fail (.stuck ("no impl of " ++ tr ++ " for " ++ k)) w)
            (match evalList n S ρ w1 args with
              | .fail f w => .fail f w
              | .ok vs w =>
                match S.impls.find? (fun i => i.1 == tr && i.2.1 == k && i.2.2.1 == m) with
                | some i => apply n S w (.fn i.2.2.2) (_ :: vs)
                | none => .fail (.stuck ("no impl of " ++ tr ++ " for " ++ k)) w)
          rcases res_cases (L w1' w1 args args' hsc.2 hin.2 ha hw1) with ⟨vs', vs, w2', w2, e3, e4, hvs, hw2⟩ | ⟨f, w2', w2, e3, e4, hw2⟩
          · simp only [e3, e4, himpl]
            cases S.impls.find? (fun i => i.1 == tr && i.2.1 == k && i.2.2.1 == m) with
            | some i => exact ihB w2' w2 _ _ _ _ hw2 (.fn _) (.cons hv hvs)
            | none => exact ⟨rfl, hw2⟩
          · simp only [e3, e4]; exact ⟨rfl, hw2⟩
        | _ => exact ⟨rfl, hw1⟩
      · simp only [e1, e2]; exact ⟨rfl, hw1⟩
    | _ => simp [aeE] at hae
  | traitCall tr m t r args =>
    cases e' with
    | traitCall tr' m' t' r' args' =>
      simp only [aeE, Bool.and_eq_true, beq_iff_eq] at hae
      obtain ⟨⟨⟨htr, hm⟩, hr⟩, ha⟩ := hae; subst htr; subst hm
      simp only [scC, inE, Bool.and_eq_true] at hsc hin
      simp only [eval]
      rcases res_cases (A w' w r r' hsc.1 hin.1 hr hw) with ⟨rv', rv, w1', w1, e1, e2, hv, hw1⟩ | ⟨f, w1', w1, e1, e2, hw1⟩
      · simp only [e1, e2]
        rcases res_cases (L w1' w1 args args' hsc.2 hin.2 ha hw1) with ⟨vs', vs, w2', w2, e3, e4, hvs, hw2⟩ | ⟨f, w2', w2, e3, e4, hw2⟩
        · simp only [e3, e4, himpl]
          have hv0 := hv
          cases hv <;>
            (simp only []
             split
             · exact ihB w2' w2 _ _ _ _ hw2 (.fn _) (.cons hv0 hvs)
             · exact ⟨rfl, hw2⟩)
        · simp only [e3, e4]; exact ⟨rfl, hw2⟩
      · simp only [e1, e2]; exact ⟨rfl, hw1⟩
    | _ => simp [aeE] at hae
  | proj i t e =>
    cases e' with
    | proj i' t' e2 =>
      simp only [aeE, Bool.and_eq_true, beq_iff_eq] at hae
      obtain ⟨hi, he⟩ := hae; subst hi
      simp only [scC, inE] at hsc hin
      simp only [eval]
      rcases res_cases (A w' w e e2 hsc hin he hw) with ⟨a', a, w1', w1, e1, e2', ha, hw1⟩ | ⟨f, w1', w1, e1, e2', hw1⟩
      · simp only [e1, e2']
        cases ha with
        | tuple hl =>
          rcases hl.get i with ⟨x', x, g1, g2, hx⟩ | ⟨g1, g2⟩
          · simp only [g1, g2]; exact ⟨hx, hw1⟩
          · simp only [g1, g2]; exact ⟨rfl, hw1⟩
        | _ => exact ⟨rfl, hw1⟩
      · simp only [e1, e2']; exact ⟨rfl, hw1⟩
    | _ => simp [aeE] at hae

theorem rAL_step {S W : Prog} {n : Nat} (ihA : RA S W n) (ihL : RAL S W n) : RAL S W (n + 1) := by
  intro σ N hσ ρ' ρ w' w es es' B hsc hB hin hρ hae hE hw
  cases es with
  | nil =>
    cases es' with
    | nil => simp only [evalList]; exact ⟨.nil, hw⟩
    | cons _ _ => simp [aeL] at hae
  | cons e rest =>
    cases es' with
    | nil => simp [aeL] at hae
    | cons e' rest' =>
      simp only [aeL, Bool.and_eq_true] at hae
      simp only [scCL, inL, Bool.and_eq_true] at hsc hin
      simp only [evalList]
      rcases res_cases (ihA σ N hσ ρ' ρ w' w e e' B hsc.1 hB hin.1 hρ hae.1 hE hw) with ⟨a', a, w1', w1, e1, e2, ha, hw1⟩ | ⟨f, w1', w1, e1, e2, hw1⟩
      · simp only [e1, e2]
        rcases res_cases (ihL σ N hσ ρ' ρ w1' w1 rest rest' B hsc.2 hB hin.2 hρ hae.2 hE hw1) with ⟨vs', vs, w2', w2, e3, e4, hvs, hw2⟩ | ⟨f, w2', w2, e3, e4, hw2⟩
        · simp only [e3, e4]; exact ⟨.cons ha hvs, hw2⟩
        · simp only [e3, e4]; exact ⟨rfl, hw2⟩
      · simp only [e1, e2]; exact ⟨rfl, hw1⟩

theorem rAA_step {S W : Prog} {n : Nat} (ihA : RA S W n) (ihAA : RAA S W n) : RAA S W (n + 1) := by
  intro σ N hσ ρ' ρ w' w v' v arms arms' d d' B hsca hscd hB hina hind hρ haea haed hE hw hv
  cases arms with
  | nil =>
    cases arms' with
    | cons _ _ => simp [aeArms] at haea
    | nil =>
      cases d with
      | none =>
        cases d' with
        | none => simp only [evalArms]; exact ⟨rfl, hw⟩
        | some _ => simp [aeO] at haed
      | some e =>
        cases d' with
        | none => simp [aeO] at haed
        | some e' =>
          simp only [aeO] at haed
          simp only [scCO, inO] at hscd hind
          simp only [evalArms]
          exact ihA σ N hσ ρ' ρ w' w e e' B hscd hB hind hρ haed hE hw
  | cons a rest =>
    cases arms' with
    | nil => simp [aeArms] at haea
    | cons a' rest' =>
      cases a with
      | mk l b =>
        cases a' with
        | mk l' b' =>
          simp only [aeArms, aeArm, Bool.and_eq_true] at haea
          simp only [scCArms, scCArm, inArms, inArm, Bool.and_eq_true] at hsca hina
          simp only [evalArms, aeLhs_matches haea.1.1, armMatches_rel l hv]
          split
          · exact ihA σ N hσ ρ' ρ w' w b b' B hsca.1 hB hina.1 hρ haea.1.2 hE hw
          · exact ihAA σ N hσ ρ' ρ w' w v' v rest rest' d d' B hsca.2 hscd hB hina.2 hind hρ haea.2 haed hE hw hv

/-- what `validate` establishes, function by function -/
structure HypV (σs : String → String → String) (Ns : String → List String) (S W : Prog) : Prop where
  impls : ∀ tr key m, W.impls.find? (fun i => i.1 == tr && i.2.1 == key && i.2.2.1 == m) = S.impls.find? (fun i => i.1 == tr && i.2.1 == key && i.2.2.1 == m)
  fns : ∀ n, (S.findFn n = none ∧ W.findFn n = none) ∨
    ∃ fS fW, S.findFn n = some fS ∧ W.findFn n = some fW ∧ validFn (σs fS.name) (Ns fS.name) fS fW = true

theorem rB_step {σs : String → String → String} {Ns : String → List String} {S W : Prog} (H : HypV σs Ns S W) {n : Nat}
    (ihA : RA S W n) : RB S W (n + 1) := by
  have hfn : ∀ (fS fW : Fn) (σ : String → String) (N : List String), validFn σ N fS fW = true →
      ∀ (args' args : List Val) (w' w : World), WRel w' w → VRelL args' args →
      RRel VRel (eval n W (bindParams (fW.params.map (·.1)) args' []) w' fW.body)
        (eval n S (bindParams (fS.params.map (·.1)) args []) w fS.body) := by
    intro fS fW σ N hv args' args w' w hw ha
    simp only [validFn, Bool.and_eq_true, beq_iff_eq] at hv
    obtain ⟨⟨⟨⟨⟨hps, hae⟩, hinj⟩, hin⟩, hpN⟩, hsc⟩ := hv
    have hps' : ∀ q ∈ fS.params.map (·.1), N.contains q = true := by
      simp only [List.all_eq_true] at hpN
      intro q hq
      simp only [List.mem_map] at hq
      obtain ⟨p, hp, e⟩ := hq
      rw [← e]; exact hpN p hp
    have hρ : EnvIn N (bindParams (fS.params.map (·.1)) args []) :=
      envIn_bind _ _ _ _ hps' (fun p hp => by cases hp)
    have hp2 : (fS.params.map (·.1)).map σ = fW.params.map (·.1) := by
      rw [← hps]; simp [List.map_map, Function.comp_def]
    have hE := ERel.bind (σ := σ) (fS.params.map (·.1)) (.nil σ) ha
    rw [hp2] at hE
    exact ihA σ N hinj _ _ w' w fS.body fW.body [] hsc (fun x hx => by simp at hx) hin hρ hae hE hw
  intro w' w f' f args' args hw hf ha
  cases hf with
  | closure σ N B ps body body' ρ' ρ hσ hae hsc hin hpN hpm hB hρ hE =>
    simp only [apply]
    exact ihA σ N hσ _ _ w' w body body' B hsc (domOk_bind ps args ρ hB) hin (envIn_bind N ps args ρ hpN hρ) hae
      (ERel.bind ps hE ha) hw
  | fn name =>
    simp only [apply]
    rcases H.fns name with ⟨hs, hw_⟩ | ⟨fS, fW, hs, hw_, hv⟩
    · simp only [hs, hw_]
      have hb := builtin_rel name ha hw
      cases h1 : builtin name args' w' with
      | none =>
        cases h2 : builtin name args w with
        | none => exact ⟨.unit, ⟨hw.out, hw.store, hw.spawned, by simp [hw.externs], hw.eager⟩⟩
        | some r => rw [h1, h2] at hb; exact hb.elim
      | some r' =>
        cases h2 : builtin name args w with
        | none => rw [h1, h2] at hb; exact hb.elim
        | some r => rw [h1, h2] at hb; exact hb
    · simp only [hs, hw_]
      exact hfn fS fW _ _ hv args' args w' w hw ha
  | structV t hl =>
    simp only [apply]
    rcases H.fns ("inherent#" ++ t ++ "#" ++ t ++ "#apply") with ⟨hs, hw_⟩ | ⟨fS, fW, hs, hw_, hv⟩
    · simp only [hs, hw_]; exact ⟨rfl, hw⟩
    · simp only [hs, hw_]
      exact hfn fS fW _ _ hv _ _ w' w hw (.cons (.structV t hl) ha)
  | _ => simp only [apply]; exact ⟨rfl, hw⟩

theorem rel_all {σs : String → String → String} {Ns : String → List String} {S W : Prog} (H : HypV σs Ns S W) :
    ∀ fuel, RA S W fuel ∧ RAL S W fuel ∧ RAA S W fuel ∧ RB S W fuel := by
  intro fuel
  induction fuel with
  | zero =>
    refine ⟨?_, ?_, ?_, ?_⟩
    · intro σ N _ ρ' ρ w' w e e' B _ _ _ _ _ _ hw; simp only [eval]; exact ⟨rfl, hw⟩
    · intro σ N _ ρ' ρ w' w es es' B _ _ _ _ _ _ hw; simp only [evalList]; exact ⟨rfl, hw⟩
    · intro σ N _ ρ' ρ w' w v' v arms arms' d d' B _ _ _ _ _ _ _ _ _ hw _; simp only [evalArms]; exact ⟨rfl, hw⟩
    · intro w' w f' f args' args hw _ _; simp only [apply]; exact ⟨rfl, hw⟩
  | succ n ih =>
    obtain ⟨ihA, ihL, ihAA, ihB⟩ := ih
    exact ⟨rA_step H.impls ihA ihL ihAA ihB, rAL_step ihA ihL, rAA_step ihA ihAA, rB_step H ihA⟩

/-- the two programs end alike: same stdout, same way of ending, same extern events -/
theorem run_rel {σs : String → String → String} {Ns : String → List String} {S W : Prog} (H : HypV σs Ns S W)
    (fuel : Nat) (entry : String) (eager : Bool) : run fuel W entry eager = run fuel S entry eager := by
  have hw0 : WRel { eager := eager } { eager := eager } := ⟨rfl, .nil, .nil, rfl, rfl⟩
  have := (rel_all H fuel).2.2.2 { eager := eager } { eager := eager } (.fn entry) (.fn entry) [] [] hw0 (.fn _) .nil
  simp only [run]
  rcases res_cases this with ⟨_, _, w1', w1, e1, e2, _, hw1⟩ | ⟨f, w1', w1, e1, e2, hw1⟩
  · simp only [e1, e2, hw1.out, hw1.externs]
  · simp only [e1, e2, hw1.out, hw1.externs]

end Goml.Alpha
