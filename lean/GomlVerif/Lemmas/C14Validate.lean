import GomlVerif.Lemmas.C14Alpha
/-! Lemmas for C14: the validator `Alpha.validate` is sound (verified validator, closure-free fragment). -/
namespace Goml.Alpha
open Goml Goml.Sem

theorem eqPrim_sound {p q : Prim} (h : eqPrim p q = true) : p = q := by
  cases p <;> cases q <;> simp [eqPrim] at h <;> simp [h]

theorem aeLhs_matches {l m : Expr} (h : aeLhs l m = true) (v : Val) : armMatches m v = armMatches l v := by
  cases l <;> cases m <;> simp [aeLhs] at h
  · rw [eqPrim_sound h]
  · subst h; cases v <;> simp [armMatches]
  · subst h
    rename_i c _ _ _ _
    cases c <;> cases v <;> simp [armMatches]

/-- statement (A'): `e'` is `e` renamed by `σ` -/
def VA (S W : Prog) (fuel : Nat) : Prop :=
  ∀ σ N, injOn σ N = true → ∀ (ρ : Env) (w : World) (e e' : Expr) (B : List String), cfE e = true → scE (moved σ) B e = true → DomOk B ρ →
    inE N e = true → EnvIn N ρ → aeE σ e e' = true →
    eval fuel W (renEnv σ ρ) w e' = eval fuel S ρ w e
def VAL (S W : Prog) (fuel : Nat) : Prop :=
  ∀ σ N, injOn σ N = true → ∀ (ρ : Env) (w : World) (es es' : List Expr) (B : List String), cfL es = true → scL (moved σ) B es = true → DomOk B ρ →
    inL N es = true → EnvIn N ρ → aeL σ es es' = true →
    evalList fuel W (renEnv σ ρ) w es' = evalList fuel S ρ w es
def VAA (S W : Prog) (fuel : Nat) : Prop :=
  ∀ σ N, injOn σ N = true → ∀ (ρ : Env) (w : World) (v : Val) (arms arms' : List Arm) (d d' : Option Expr) (B : List String),
    cfArms arms = true → cfO d = true → scArms (moved σ) B arms = true → scO (moved σ) B d = true → DomOk B ρ →
    inArms N arms = true → inO N d = true → EnvIn N ρ → aeArms σ arms arms' = true → aeO σ d d' = true →
    evalArms fuel W (renEnv σ ρ) w v arms' d' = evalArms fuel S ρ w v arms d
def VB (S W : Prog) (fuel : Nat) : Prop :=
  (∀ ρ w e, eval fuel W ρ w e = eval fuel S ρ w e) ∧
  (∀ ρ w es, evalList fuel W ρ w es = evalList fuel S ρ w es) ∧
  (∀ ρ w v arms d, evalArms fuel W ρ w v arms d = evalArms fuel S ρ w v arms d) ∧
  (∀ w f args, apply fuel W w f args = apply fuel S w f args)

theorem vA_step {S W : Prog}
    (himpl : ∀ tr key m, W.impls.find? (fun i => i.1 == tr && i.2.1 == key && i.2.2.1 == m) = S.impls.find? (fun i => i.1 == tr && i.2.1 == key && i.2.2.1 == m)) {n : Nat}
    (ihA : VA S W n) (ihL : VAL S W n) (ihAA : VAA S W n) (ihB : VB S W n) : VA S W (n + 1) := by
  intro σ N hσ ρ w e e' B hcf hsc hB hin hρ hae
  cases e with
  | var x t =>
    cases e' with
    | var y u =>
      simp only [aeE, beq_iff_eq] at hae
      subst hae
      simp only [inE] at hin
      simp only [eval, lookup_ren hσ ρ x hin hρ]
      cases hl : lookupEnv ρ x with
      | some v => rfl
      | none =>
        have hnd := lookup_none_dom hl
        simp only [scE, Bool.or_eq_true, Bool.not_eq_true'] at hsc
        rcases hsc with h | h
        · simp only [moved, bne_eq_false_iff_eq] at h
          simp only [h]
        · have := hB x h; rw [hnd] at this; cases this
    | _ => simp [aeE] at hae
  | prim p =>
    cases e' with
    | prim q => simp only [aeE] at hae; rw [eqPrim_sound hae]; simp only [eval]
    | _ => simp [aeE] at hae
  | tag i t =>
    cases e' with
    | tag j u => simp only [aeE, Bool.and_eq_true, beq_iff_eq] at hae; obtain ⟨hi, ht⟩ := hae; subst hi; simp only [eval, ht]
    | _ => simp [aeE] at hae
  | constr c t args =>
    cases e' with
    | constr c' t' args' =>
      simp only [aeE, Bool.and_eq_true, decide_eq_true_eq] at hae
      obtain ⟨hc, ha⟩ := hae; subst hc
      simp only [cfE, scE, inE] at hcf hsc hin
      simp only [eval, ihL σ N hσ ρ w args args' B hcf hsc hB hin hρ ha]
    | _ => simp [aeE] at hae
  | tuple t items =>
    cases e' with
    | tuple t' items' =>
      simp only [aeE] at hae
      simp only [cfE, scE, inE] at hcf hsc hin
      simp only [eval, ihL σ N hσ ρ w items items' B hcf hsc hB hin hρ hae]
    | _ => simp [aeE] at hae
  | array t items =>
    cases e' with
    | array t' items' =>
      simp only [aeE] at hae
      simp only [cfE, scE, inE] at hcf hsc hin
      simp only [eval, ihL σ N hσ ρ w items items' B hcf hsc hB hin hρ hae]
    | _ => simp [aeE] at hae
  | closure t ps b => simp [cfE] at hcf
  | letE x v b =>
    cases e' with
    | letE y v' b' =>
      simp only [aeE, Bool.and_eq_true, beq_iff_eq] at hae
      obtain ⟨⟨hx, hv⟩, hb⟩ := hae; subst hx
      simp only [cfE, scE, inE, Bool.and_eq_true] at hcf hsc hin
      simp only [eval, ihA σ N hσ ρ w v v' B hcf.1 hsc.1 hB hin.1.2 hρ hv]
      cases eval n S ρ w v with
      | fail f w' => rfl
      | ok vv w' =>
        have hρ' : EnvIn N ((x, vv) :: ρ) := by
          intro p hp
          simp only [List.mem_cons] at hp
          rcases hp with hp | hp
          · rw [hp]; exact hin.1.1
          · exact hρ p hp
        have := ihA σ N hσ ((x, vv) :: ρ) w' b b' (x :: B) hcf.2 hsc.2 (domOk_cons hB x vv) hin.2 hρ' hb
        simpa [renEnv] using this
    | _ => simp [aeE] at hae
  | matchE t sc arms d =>
    cases e' with
    | matchE t' sc' arms' d' =>
      simp only [aeE, Bool.and_eq_true] at hae
      simp only [cfE, scE, inE, Bool.and_eq_true] at hcf hsc hin
      simp only [eval, ihA σ N hσ ρ w sc sc' B hcf.1.1 hsc.1.1 hB hin.1.1 hρ hae.1.1]
      cases eval n S ρ w sc with
      | fail f w' => rfl
      | ok vv w' => exact ihAA σ N hσ ρ w' vv arms arms' d d' B hcf.1.2 hcf.2 hsc.1.2 hsc.2 hB hin.1.2 hin.2 hρ hae.1.2 hae.2
    | _ => simp [aeE] at hae
  | ite c t e =>
    cases e' with
    | ite c' t' e2 =>
      simp only [aeE, Bool.and_eq_true] at hae
      simp only [cfE, scE, inE, Bool.and_eq_true] at hcf hsc hin
      simp only [eval, ihA σ N hσ ρ w c c' B hcf.1.1 hsc.1.1 hB hin.1.1 hρ hae.1.1]
      cases eval n S ρ w c with
      | fail f w' => rfl
      | ok vv w' =>
        cases vv with
        | bool b => cases b
                    · exact ihA σ N hσ ρ w' e e2 B hcf.2 hsc.2 hB hin.2 hρ hae.2
                    · exact ihA σ N hσ ρ w' t t' B hcf.1.2 hsc.1.2 hB hin.1.2 hρ hae.1.2
        | _ => rfl
    | _ => simp [aeE] at hae
  | «while» c b =>
    cases e' with
    | «while» c' b' =>
      have hcf0 := hcf
      have hsc0 := hsc
      have hin0 := hin
      have hae0 := hae
      simp only [aeE, Bool.and_eq_true] at hae
      simp only [cfE, scE, inE, Bool.and_eq_true] at hcf hsc hin
      simp only [eval, ihA σ N hσ ρ w c c' B hcf.1 hsc.1 hB hin.1 hρ hae.1]
      cases eval n S ρ w c with
      | fail f w' => rfl
      | ok vv w' =>
        cases vv with
        | bool bb =>
          cases bb
          · rfl
          · simp only [ihA σ N hσ ρ w' b b' B hcf.2 hsc.2 hB hin.2 hρ hae.2]
            cases eval n S ρ w' b with
            | fail f w'' => rfl
            | ok _ w'' => exact ihA σ N hσ ρ w'' (.while c b) (.while c' b') B hcf0 hsc0 hB hin0 hρ hae0
        | _ => rfl
    | _ => simp [aeE] at hae
  | go e =>
    cases e' with
    | go e2 =>
      simp only [aeE] at hae
      simp only [cfE, scE, inE] at hcf hsc hin
      simp only [eval, ihA σ N hσ ρ w e e2 B hcf hsc hB hin hρ hae, ihB.2.2.2]
    | _ => simp [aeE] at hae
  | cget c i t e =>
    cases e' with
    | cget c' i' t' e2 =>
      simp only [aeE, Bool.and_eq_true, decide_eq_true_eq, beq_iff_eq] at hae
      obtain ⟨⟨hc, hi⟩, he⟩ := hae; subst hc; subst hi
      simp only [cfE, scE, inE] at hcf hsc hin
      simp only [eval, ihA σ N hσ ρ w e e2 B hcf hsc hB hin hρ he]
    | _ => simp [aeE] at hae
  | un op t e =>
    cases e' with
    | un op' t' e2 =>
      simp only [aeE, Bool.and_eq_true, decide_eq_true_eq] at hae
      obtain ⟨ho, he⟩ := hae; subst ho
      simp only [cfE, scE, inE] at hcf hsc hin
      simp only [eval, ihA σ N hσ ρ w e e2 B hcf hsc hB hin hρ he]
    | _ => simp [aeE] at hae
  | bin op t l r =>
    cases e' with
    | bin op' t' l' r' =>
      simp only [aeE, Bool.and_eq_true, decide_eq_true_eq] at hae
      obtain ⟨⟨ho, hl⟩, hr⟩ := hae; subst ho
      simp only [cfE, scE, inE, Bool.and_eq_true] at hcf hsc hin
      simp only [eval, ihA σ N hσ ρ w l l' B hcf.1 hsc.1 hB hin.1 hρ hl]
      cases eval n S ρ w l with
      | fail f w' => rfl
      | ok a w' => simp only [ihA σ N hσ ρ w' r r' B hcf.2 hsc.2 hB hin.2 hρ hr]
    | _ => simp [aeE] at hae
  | call t f args =>
    cases e' with
    | call t' f' args' =>
      simp only [aeE, Bool.and_eq_true] at hae
      simp only [cfE, scE, inE, Bool.and_eq_true] at hcf hsc hin
      simp only [eval, ihA σ N hσ ρ w f f' B hcf.1 hsc.1 hB hin.1 hρ hae.1]
      cases eval n S ρ w f with
      | fail f w' => rfl
      | ok fv w' => simp only [ihL σ N hσ ρ w' args args' B hcf.2 hsc.2 hB hin.2 hρ hae.2, ihB.2.2.2]
    | _ => simp [aeE] at hae
  | toDyn tr ft t e =>
    cases e' with
    | toDyn tr' ft' t' e2 =>
      simp only [aeE, Bool.and_eq_true, beq_iff_eq] at hae
      obtain ⟨⟨htr, hk⟩, he⟩ := hae; subst htr
      simp only [cfE, scE, inE] at hcf hsc hin
      simp only [eval, ihA σ N hσ ρ w e e2 B hcf hsc hB hin hρ he, hk]
    | _ => simp [aeE] at hae
  | dynCall tr m t r args =>
    cases e' with
    | dynCall tr' m' t' r' args' =>
      simp only [aeE, Bool.and_eq_true, beq_iff_eq] at hae
      obtain ⟨⟨⟨htr, hm⟩, hr⟩, ha⟩ := hae; subst htr; subst hm
      simp only [cfE, scE, inE, Bool.and_eq_true] at hcf hsc hin
      simp only [eval, ihA σ N hσ ρ w r r' B hcf.1 hsc.1 hB hin.1 hρ hr]
      cases eval n S ρ w r with
      | fail f w' => rfl
      | ok rv w' =>
        cases rv with
        | dyn a key v => simp only [ihL σ N hσ ρ w' args args' B hcf.2 hsc.2 hB hin.2 hρ ha, ihB.2.2.2, himpl]
        | _ => rfl
    | _ => simp [aeE] at hae
  | traitCall tr m t r args =>
    cases e' with
    | traitCall tr' m' t' r' args' =>
      simp only [aeE, Bool.and_eq_true, beq_iff_eq] at hae
      obtain ⟨⟨⟨htr, hm⟩, hr⟩, ha⟩ := hae; subst htr; subst hm
      simp only [cfE, scE, inE, Bool.and_eq_true] at hcf hsc hin
      simp only [eval, ihA σ N hσ ρ w r r' B hcf.1 hsc.1 hB hin.1 hρ hr]
      cases eval n S ρ w r with
      | fail f w' => rfl
      | ok rv w' => simp only [ihL σ N hσ ρ w' args args' B hcf.2 hsc.2 hB hin.2 hρ ha, ihB.2.2.2, himpl]
    | _ => simp [aeE] at hae
  | proj i t e =>
    cases e' with
    | proj i' t' e2 =>
      simp only [aeE, Bool.and_eq_true, beq_iff_eq] at hae
      obtain ⟨hi, he⟩ := hae; subst hi
      simp only [cfE, scE, inE] at hcf hsc hin
      simp only [eval, ihA σ N hσ ρ w e e2 B hcf hsc hB hin hρ he]
    | _ => simp [aeE] at hae


theorem vAL_step {S W : Prog} {n : Nat} (ihA : VA S W n) (ihL : VAL S W n) : VAL S W (n + 1) := by
  intro σ N hσ ρ w es es' B hcf hsc hB hin hρ hae
  cases es with
  | nil =>
    cases es' with
    | nil => simp only [evalList]
    | cons _ _ => simp [aeL] at hae
  | cons e rest =>
    cases es' with
    | nil => simp [aeL] at hae
    | cons e' rest' =>
      simp only [aeL, Bool.and_eq_true] at hae
      simp only [cfL, scL, inL, Bool.and_eq_true] at hcf hsc hin
      simp only [evalList, ihA σ N hσ ρ w e e' B hcf.1 hsc.1 hB hin.1 hρ hae.1]
      cases eval n S ρ w e with
      | fail f w' => rfl
      | ok v w' => simp only [ihL σ N hσ ρ w' rest rest' B hcf.2 hsc.2 hB hin.2 hρ hae.2]

theorem vAA_step {S W : Prog} {n : Nat} (ihA : VA S W n) (ihAA : VAA S W n) : VAA S W (n + 1) := by
  intro σ N hσ ρ w v arms arms' d d' B hcfa hcfd hsca hscd hB hina hind hρ haea haed
  cases arms with
  | nil =>
    cases arms' with
    | cons _ _ => simp [aeArms] at haea
    | nil =>
      cases d with
      | none =>
        cases d' with
        | none => simp only [evalArms]
        | some _ => simp [aeO] at haed
      | some e =>
        cases d' with
        | none => simp [aeO] at haed
        | some e' =>
          simp only [aeO] at haed
          simp only [cfO, scO, inO] at hcfd hscd hind
          simp only [evalArms]
          exact ihA σ N hσ ρ w e e' B hcfd hscd hB hind hρ haed
  | cons a rest =>
    cases arms' with
    | nil => simp [aeArms] at haea
    | cons a' rest' =>
      cases a with
      | mk l b =>
        cases a' with
        | mk l' b' =>
          simp only [aeArms, aeArm, Bool.and_eq_true] at haea
          simp only [cfArms, cfArm, scArms, scArm, inArms, inArm, Bool.and_eq_true] at hcfa hsca hina
          simp only [evalArms, aeLhs_matches haea.1.1]
          split
          · exact ihA σ N hσ ρ w b b' B hcfa.1.2 hsca.1 hB hina.1 hρ haea.1.2
          · exact ihAA σ N hσ ρ w v rest rest' d d' B hcfa.2 hcfd hsca.2 hscd hB hina.2 hind hρ haea.2 haed

/-- what `validate` establishes, function by function -/
structure HypV (σs : String → String → String) (Ns : String → List String) (S W : Prog) : Prop where
  impls : ∀ tr key m, W.impls.find? (fun i => i.1 == tr && i.2.1 == key && i.2.2.1 == m) = S.impls.find? (fun i => i.1 == tr && i.2.1 == key && i.2.2.1 == m)
  fns : ∀ n, (S.findFn n = none ∧ W.findFn n = none) ∨
    ∃ fS fW, S.findFn n = some fS ∧ W.findFn n = some fW ∧ validFn (σs fS.name) (Ns fS.name) fS fW = true

theorem vB_step {σs : String → String → String} {Ns : String → List String} {S W : Prog} (H : HypV σs Ns S W) {n : Nat}
    (ihA : VA S W n) (ihB : VB S W n) : VB S W (n + 1) := by
  obtain ⟨ih1, ih2, ih3, ih4⟩ := ihB
  have himpl := H.impls
  refine ⟨?_, ?_, ?_, ?_⟩
  · intro ρ w e
    cases e <;> simp only [eval, ih1, ih2, ih3, ih4, himpl]
  · intro ρ w es
    cases es <;> simp only [evalList, ih1, ih2]
  · intro ρ w v arms d
    cases arms with
    | nil => simp only [evalArms, ih1]
    | cons a as => cases a; simp only [evalArms, ih1, ih3]
  · intro w f args
    have hbody : ∀ (name : String) (args : List Val) (w : World),
        (match W.findFn name with
          | some fn => eval n W (bindParams (fn.params.map (fun p : String × Ty => p.1)) args []) w fn.body
          | none => match builtin name args w with
            | some r => r
            | none => Res.ok Val.unit { w with externs := w.externs ++ [name] }) =
        (match S.findFn name with
          | some fn => eval n S (bindParams (fn.params.map (fun p : String × Ty => p.1)) args []) w fn.body
          | none => match builtin name args w with
            | some r => r
            | none => Res.ok Val.unit { w with externs := w.externs ++ [name] }) := by
      intro name args w
      rcases H.fns name with ⟨hs, hw⟩ | ⟨fS, fW, hs, hw, hv⟩
      · simp only [hs, hw]
      · simp only [hs, hw]
        simp only [validFn, Bool.and_eq_true, beq_iff_eq] at hv
        obtain ⟨⟨⟨⟨⟨⟨hps, hae⟩, hinj⟩, hin⟩, hpN⟩, hcf⟩, hsc⟩ := hv
        have hρ : EnvIn (Ns fS.name) (bindParams (fS.params.map (·.1)) args []) := by
          have hps' : ∀ q ∈ fS.params.map (·.1), (Ns fS.name).contains q = true := by
            simp only [List.all_eq_true] at hpN
            intro q hq
            simp only [List.mem_map] at hq
            obtain ⟨p, hp, e⟩ := hq
            rw [← e]; exact hpN p hp
          exact envIn_bind _ _ _ _ hps' (fun p hp => by cases hp)
        have := ihA (σs fS.name) (Ns fS.name) hinj (bindParams (fS.params.map (·.1)) args []) w fS.body fW.body [] hcf hsc
          (fun x hx => by simp at hx) hin hρ hae
        rw [renEnv_bind] at this
        have hp2 : (fS.params.map (·.1)).map (σs fS.name) = fW.params.map (·.1) := by
          rw [← hps]; simp [List.map_map, Function.comp_def]
        rw [hp2] at this
        simpa [renEnv] using this
    cases f with
    | closure ps body ρc => simp only [apply, ih1]
    | fn name => simp only [apply]; exact hbody name args w
    | structV sn fs =>
      simp only [apply]
      have := hbody ("inherent#" ++ sn ++ "#" ++ sn ++ "#apply") (Val.structV sn fs :: args) w
      rcases H.fns ("inherent#" ++ sn ++ "#" ++ sn ++ "#apply") with ⟨hs, hw⟩ | ⟨fS, fW, hs, hw, hv⟩
      · simp only [hs, hw]
      · simpa only [hs, hw] using this
    | _ => simp only [apply]

theorem valid_all {σs : String → String → String} {Ns : String → List String} {S W : Prog} (H : HypV σs Ns S W) :
    ∀ fuel, VA S W fuel ∧ VAL S W fuel ∧ VAA S W fuel ∧ VB S W fuel := by
  intro fuel
  induction fuel with
  | zero =>
    refine ⟨?_, ?_, ?_, ?_, ?_, ?_, ?_⟩
    · intro σ N _ ρ w e e' B _ _ _ _ _ _; simp [eval]
    · intro σ N _ ρ w es es' B _ _ _ _ _ _; simp [evalList]
    · intro σ N _ ρ w v arms arms' d d' B _ _ _ _ _ _ _ _ _ _; simp [evalArms]
    · intro ρ w e; simp [eval]
    · intro ρ w es; simp [evalList]
    · intro ρ w v arms d; simp [evalArms]
    · intro w f args; simp [apply]
  | succ n ih =>
    obtain ⟨ihA, ihL, ihAA, ihB⟩ := ih
    exact ⟨vA_step H.impls ihA ihL ihAA ihB, vAL_step ihA ihL, vAA_step ihA ihAA, vB_step H ihA ihB⟩


theorem implsAgree_find {A B : List (String × String × String × String)} (h : implsAgree A B = true) (tr key m : String) :
    A.find? (fun i => i.1 == tr && i.2.1 == key && i.2.2.1 == m) = B.find? (fun i => i.1 == tr && i.2.1 == key && i.2.2.1 == m) := by
  simp only [implsAgree, List.all_eq_true, List.mem_append, beq_iff_eq] at h
  have key_eq : ∀ i : String × String × String × String, implPred tr key m i = true →
      (fun j : String × String × String × String => j.1 == tr && j.2.1 == key && j.2.2.1 == m) = implPred i.1 i.2.1 i.2.2.1 := by
    intro i hi
    simp only [implPred, Bool.and_eq_true, beq_iff_eq] at hi
    funext j
    simp only [implPred, hi.1.1, hi.1.2, hi.2]
  cases ha : A.find? (fun i => i.1 == tr && i.2.1 == key && i.2.2.1 == m) with
  | some i =>
    have hm := List.mem_of_find?_eq_some ha
    have hp : implPred tr key m i = true := List.find?_some ha
    rw [← ha, key_eq i hp]
    exact h i (Or.inl hm)
  | none =>
    cases hb : B.find? (fun i => i.1 == tr && i.2.1 == key && i.2.2.1 == m) with
    | none => rfl
    | some j =>
      have hm := List.mem_of_find?_eq_some hb
      have hp : implPred tr key m j = true := List.find?_some hb
      rw [← ha, ← hb, key_eq j hp]
      exact h j (Or.inr hm)

theorem findFn_name {P : Prog} {n : String} {f : Fn} (h : P.findFn n = some f) : f ∈ P.fns ∧ f.name = n := by
  simp only [Prog.findFn] at h
  exact ⟨List.mem_of_find?_eq_some h, by simpa using List.find?_some h⟩

theorem validate_hyp {σs : String → String → String} {Ns : String → List String} {S W : Prog}
    (h : validate σs Ns S W = true) : HypV σs Ns S W := by
  simp only [validate, Bool.and_eq_true, List.all_eq_true] at h
  obtain ⟨⟨h1, h2⟩, h3⟩ := h
  refine ⟨implsAgree_find h3, ?_⟩
  intro n
  cases hs : S.findFn n with
  | some fS =>
    obtain ⟨hmem, hname⟩ := findFn_name hs
    have := h1 fS hmem
    rw [hname, hs] at this
    cases hw : W.findFn n with
    | none => simp [hw] at this
    | some fW =>
      rw [hw] at this
      exact Or.inr ⟨fS, fW, rfl, rfl, by rw [hname]; exact this⟩
  | none =>
    cases hw : W.findFn n with
    | none => exact Or.inl ⟨rfl, rfl⟩
    | some g =>
      obtain ⟨hmem, hname⟩ := findFn_name hw
      have := h2 g hmem
      rw [hname, hs] at this
      cases this

/-- **the validator is sound**: if `validate` accepts, the two programs run alike -/
theorem validate_sound {σs : String → String → String} {Ns : String → List String} {S W : Prog}
    (h : validate σs Ns S W = true) (fuel : Nat) (entry : String) (eager : Bool) :
    run fuel W entry eager = run fuel S entry eager := by
  have := (valid_all (validate_hyp h) fuel).2.2.2.2.2.2 { eager := eager } (.fn entry) []
  simp only [run, this]

end Goml.Alpha
