import GomlVerif.Lemmas.C14RelMain
/-! Lemmas for C14: the validator `Alpha.validate` is sound (verified validator; closures included), and the
renaming theorem as its corollary. -/
namespace Goml.Alpha
open Goml Goml.Sem

theorem implsAgree_find {A B : List (String × String × String × String)} (h : implsAgree A B = true) (tr key m : String) :
    A.find? (fun i => i.1 == tr && i.2.1 == key && i.2.2.1 == m) = B.find? (fun i => i.1 == tr && i.2.1 == key && i.2.2.1 == m) := by
  simp only [implsAgree, List.all_eq_true, List.mem_append, beq_iff_eq] at h
  have key_eq : ∀ i : String × String × String × String, implPred tr key m i = true →
      (fun j : String × String × String × String => j.1 == tr && j.2.1 == key && j.2.2.1 == m) = implPred i.1 i.2.1 i.2.2.1 := by
    intro i hi
    simp only [implPred, Bool.and_eq_true, beq_iff_eq] at hi
    funext j
    simp only [implPred, hi.1.1, hi.1.2, hi.2]
  cases ha : A.find? (fun i => i.1 == tr && i.2.1 == key && i.2.2.1 == m) with
  | some i =>
    have hm := List.mem_of_find?_eq_some ha
    have hp : implPred tr key m i = true := List.find?_some ha
    rw [← ha, key_eq i hp]
    exact h i (Or.inl hm)
  | none =>
    cases hb : B.find? (fun i => i.1 == tr && i.2.1 == key && i.2.2.1 == m) with
    | none => rfl
    | some j =>
      have hm := List.mem_of_find?_eq_some hb
      have hp : implPred tr key m j = true := List.find?_some hb
      rw [← ha, ← hb, key_eq j hp]
      exact h j (Or.inr hm)

theorem findFn_name {P : Prog} {n : String} {f : Fn} (h : P.findFn n = some f) : f ∈ P.fns ∧ f.name = n := by
  simp only [Prog.findFn] at h
  exact ⟨List.mem_of_find?_eq_some h, by simpa using List.find?_some h⟩

theorem validate_hyp {σs : String → String → String} {Ns : String → List String} {S W : Prog}
    (h : validate σs Ns S W = true) : HypV σs Ns S W := by
  simp only [validate, Bool.and_eq_true, List.all_eq_true] at h
  obtain ⟨⟨h1, h2⟩, h3⟩ := h
  refine ⟨implsAgree_find h3, ?_⟩
  intro n
  cases hs : S.findFn n with
  | some fS =>
    obtain ⟨hmem, hname⟩ := findFn_name hs
    have := h1 fS hmem
    rw [hname, hs] at this
    cases hw : W.findFn n with
    | none => simp [hw] at this
    | some fW =>
      rw [hw] at this
      exact Or.inr ⟨fS, fW, rfl, rfl, by rw [hname]; exact this⟩
  | none =>
    cases hw : W.findFn n with
    | none => exact Or.inl ⟨rfl, rfl⟩
    | some g =>
      obtain ⟨hmem, hname⟩ := findFn_name hw
      have := h2 g hmem
      rw [hname, hs] at this
      cases this

/-- **the validator is sound**: if `validate` accepts, the two programs run alike -/
theorem validate_sound {σs : String → String → String} {Ns : String → List String} {S W : Prog}
    (h : validate σs Ns S W = true) (fuel : Nat) (entry : String) (eager : Bool) :
    run fuel W entry eager = run fuel S entry eager :=
  run_rel (validate_hyp h) fuel entry eager

/-! ### the renaming theorem, closures included -/

theorem eqPrim_refl (p : Prim) : eqPrim p p = true := by
  cases p <;> simp [eqPrim]

theorem aeLhs_ren (σ : String → String) (l : Expr) : aeLhs l (renE σ l) = true := by
  cases l <;> simp [renE, aeLhs, isHead, eqPrim_refl]

mutual
theorem aeE_ren (σ : String → String) : ∀ e : Expr, aeE σ e (renE σ e) = true
  | .var x t => by simp [aeE, renE]
  | .prim p => by simp [aeE, renE, eqPrim_refl]
  | .tag i t => by simp [aeE, renE]
  | .constr c t args => by simp [aeE, renE, aeL_ren σ args]
  | .tuple t items => by simp [aeE, renE, aeL_ren σ items]
  | .array t items => by simp [aeE, renE, aeL_ren σ items]
  | .closure t ps b => by simp [aeE, renE, aeE_ren σ b, List.map_map, Function.comp_def]
  | .letE x v b => by simp [aeE, renE, aeE_ren σ v, aeE_ren σ b]
  | .matchE t s arms d => by simp [aeE, renE, aeE_ren σ s, aeArms_ren σ arms, aeO_ren σ d]
  | .ite c t e => by simp [aeE, renE, aeE_ren σ c, aeE_ren σ t, aeE_ren σ e]
  | .while c b => by simp [aeE, renE, aeE_ren σ c, aeE_ren σ b]
  | .go e => by simp [aeE, renE, aeE_ren σ e]
  | .cget c i t e => by simp [aeE, renE, aeE_ren σ e]
  | .un op t e => by simp [aeE, renE, aeE_ren σ e]
  | .bin op t l r => by simp [aeE, renE, aeE_ren σ l, aeE_ren σ r]
  | .call t f args => by simp [aeE, renE, aeE_ren σ f, aeL_ren σ args]
  | .toDyn tr ft t e => by simp [aeE, renE, aeE_ren σ e]
  | .dynCall tr m t r args => by simp [aeE, renE, aeE_ren σ r, aeL_ren σ args]
  | .traitCall tr m t r args => by simp [aeE, renE, aeE_ren σ r, aeL_ren σ args]
  | .proj i t e => by simp [aeE, renE, aeE_ren σ e]
theorem aeL_ren (σ : String → String) : ∀ es : List Expr, aeL σ es (renL σ es) = true
  | [] => by simp [aeL, renL]
  | e :: es => by simp [aeL, renL, aeE_ren σ e, aeL_ren σ es]
theorem aeArms_ren (σ : String → String) : ∀ arms : List Arm, aeArms σ arms (renArms σ arms) = true
  | [] => by simp [aeArms, renArms]
  | a :: as => by simp [aeArms, renArms, aeArm_ren σ a, aeArms_ren σ as]
theorem aeArm_ren (σ : String → String) : ∀ a : Arm, aeArm σ a (renArm σ a) = true
  | .mk l b => by simp [aeArm, renArm, aeLhs_ren σ l, aeE_ren σ b]
theorem aeO_ren (σ : String → String) : ∀ d : Option Expr, aeO σ d (renO σ d) = true
  | none => by simp [aeO, renO]
  | some e => by simp [aeO, renO, aeE_ren σ e]
end

/-- the hypotheses of the renaming theorem with closures; `Ns f` = the names function `f` mentions. All decidable. -/
structure HypC (σs : String → String → String) (Ns : String → List String) (P : Prog) : Prop where
  inj : ∀ f ∈ P.fns, injOn (σs f.name) (Ns f.name) = true
  names : ∀ f ∈ P.fns, inE (Ns f.name) f.body = true ∧ (f.params.all fun p => (Ns f.name).contains p.1) = true
  sc : ∀ f ∈ P.fns, scC (moved (σs f.name)) [] f.body = true

theorem hypC_hypV {σs : String → String → String} {Ns : String → List String} {P : Prog} (H : HypC σs Ns P) :
    HypV σs Ns P (renP σs P) := by
  refine ⟨fun _ _ _ => rfl, ?_⟩
  intro n
  rw [findFn_renP]
  cases hf : P.findFn n with
  | none => exact Or.inl ⟨rfl, rfl⟩
  | some f =>
    have hmem : f ∈ P.fns := List.mem_of_find?_eq_some hf
    refine Or.inr ⟨f, renFn (σs f.name) f, rfl, rfl, ?_⟩
    have hsc := H.sc f hmem
    simp only [validFn, Bool.and_eq_true, beq_iff_eq]
    refine ⟨⟨⟨⟨⟨?_, aeE_ren _ _⟩, H.inj f hmem⟩, (H.names f hmem).1⟩, (H.names f hmem).2⟩, hsc⟩
    simp [renFn, List.map_map, Function.comp_def]

theorem run_alpha_full {σs : String → String → String} {Ns : String → List String} {P : Prog} (H : HypC σs Ns P)
    (fuel : Nat) (entry : String) (eager : Bool) : run fuel (renP σs P) entry eager = run fuel P entry eager :=
  run_rel (hypC_hypV H) fuel entry eager

/-! ### the closure-free theorem of round 1 is a special case -/

mutual
theorem scC_of_cf (m : String → Bool) : ∀ (e : Expr) (B : List String), cfE e = true → scE m B e = true → scC m B e = true
  | .var x t, B, _, hs => by simpa only [scE, scC] using hs
  | .prim _, _, _, _ => by simp only [scC]
  | .tag _ _, _, _, _ => by simp only [scC]
  | .constr c t args, B, hc, hs => by
    simp only [cfE, scE] at hc hs; simp only [scC]; exact scCL_of_cf m args B hc hs
  | .tuple t items, B, hc, hs => by
    simp only [cfE, scE] at hc hs; simp only [scC]; exact scCL_of_cf m items B hc hs
  | .array t items, B, hc, hs => by
    simp only [cfE, scE] at hc hs; simp only [scC]; exact scCL_of_cf m items B hc hs
  | .closure t ps b, B, hc, _ => by simp [cfE] at hc
  | .letE x v b, B, hc, hs => by
    simp only [cfE, scE, Bool.and_eq_true] at hc hs; simp only [scC, Bool.and_eq_true]
    exact ⟨scC_of_cf m v B hc.1 hs.1, scC_of_cf m b (x :: B) hc.2 hs.2⟩
  | .matchE t s arms d, B, hc, hs => by
    simp only [cfE, scE, Bool.and_eq_true] at hc hs; simp only [scC, Bool.and_eq_true]
    exact ⟨⟨scC_of_cf m s B hc.1.1 hs.1.1, scCArms_of_cf m arms B hc.1.2 hs.1.2⟩, scCO_of_cf m d B hc.2 hs.2⟩
  | .ite c t e, B, hc, hs => by
    simp only [cfE, scE, Bool.and_eq_true] at hc hs; simp only [scC, Bool.and_eq_true]
    exact ⟨⟨scC_of_cf m c B hc.1.1 hs.1.1, scC_of_cf m t B hc.1.2 hs.1.2⟩, scC_of_cf m e B hc.2 hs.2⟩
  | .while c b, B, hc, hs => by
    simp only [cfE, scE, Bool.and_eq_true] at hc hs; simp only [scC, Bool.and_eq_true]
    exact ⟨scC_of_cf m c B hc.1 hs.1, scC_of_cf m b B hc.2 hs.2⟩
  | .go e, B, hc, hs => by
    simp only [cfE, scE] at hc hs; simp only [scC]; exact scC_of_cf m e B hc hs
  | .cget c i t e, B, hc, hs => by
    simp only [cfE, scE] at hc hs; simp only [scC]; exact scC_of_cf m e B hc hs
  | .un op t e, B, hc, hs => by
    simp only [cfE, scE] at hc hs; simp only [scC]; exact scC_of_cf m e B hc hs
  | .bin op t l r, B, hc, hs => by
    simp only [cfE, scE, Bool.and_eq_true] at hc hs; simp only [scC, Bool.and_eq_true]
    exact ⟨scC_of_cf m l B hc.1 hs.1, scC_of_cf m r B hc.2 hs.2⟩
  | .call t f args, B, hc, hs => by
    simp only [cfE, scE, Bool.and_eq_true] at hc hs; simp only [scC, Bool.and_eq_true]
    exact ⟨scC_of_cf m f B hc.1 hs.1, scCL_of_cf m args B hc.2 hs.2⟩
  | .toDyn tr ft t e, B, hc, hs => by
    simp only [cfE, scE] at hc hs; simp only [scC]; exact scC_of_cf m e B hc hs
  | .dynCall tr mm t r args, B, hc, hs => by
    simp only [cfE, scE, Bool.and_eq_true] at hc hs; simp only [scC, Bool.and_eq_true]
    exact ⟨scC_of_cf m r B hc.1 hs.1, scCL_of_cf m args B hc.2 hs.2⟩
  | .traitCall tr mm t r args, B, hc, hs => by
    simp only [cfE, scE, Bool.and_eq_true] at hc hs; simp only [scC, Bool.and_eq_true]
    exact ⟨scC_of_cf m r B hc.1 hs.1, scCL_of_cf m args B hc.2 hs.2⟩
  | .proj i t e, B, hc, hs => by
    simp only [cfE, scE] at hc hs; simp only [scC]; exact scC_of_cf m e B hc hs
theorem scCL_of_cf (m : String → Bool) : ∀ (es : List Expr) (B : List String), cfL es = true → scL m B es = true → scCL m B es = true
  | [], _, _, _ => by simp only [scCL]
  | e :: es, B, hc, hs => by
    simp only [cfL, scL, Bool.and_eq_true] at hc hs; simp only [scCL, Bool.and_eq_true]
    exact ⟨scC_of_cf m e B hc.1 hs.1, scCL_of_cf m es B hc.2 hs.2⟩
theorem scCArms_of_cf (m : String → Bool) : ∀ (arms : List Arm) (B : List String), cfArms arms = true → scArms m B arms = true → scCArms m B arms = true
  | [], _, _, _ => by simp only [scCArms]
  | a :: as, B, hc, hs => by
    simp only [cfArms, scArms, Bool.and_eq_true] at hc hs; simp only [scCArms, Bool.and_eq_true]
    exact ⟨scCArm_of_cf m a B hc.1 hs.1, scCArms_of_cf m as B hc.2 hs.2⟩
theorem scCArm_of_cf (m : String → Bool) : ∀ (a : Arm) (B : List String), cfArm a = true → scArm m B a = true → scCArm m B a = true
  | .mk l b, B, hc, hs => by
    simp only [cfArm, scArm, Bool.and_eq_true] at hc hs; simp only [scCArm]
    exact scC_of_cf m b B hc.2 hs
theorem scCO_of_cf (m : String → Bool) : ∀ (d : Option Expr) (B : List String), cfO d = true → scO m B d = true → scCO m B d = true
  | none, _, _, _ => by simp only [scCO]
  | some e, B, hc, hs => by
    simp only [cfO, scO] at hc hs; simp only [scCO]; exact scC_of_cf m e B hc hs
end

/-- the hypotheses of the closure-free theorem imply those of the theorem with closures -/
theorem hyp_hypC {σs : String → String → String} {Ns : String → List String} {P : Prog} (H : Hyp σs Ns P) : HypC σs Ns P :=
  ⟨H.inj, H.names, fun f hf => scC_of_cf _ f.body [] (by
      have := H.cf; simp only [cfP, List.all_eq_true] at this; exact this f hf) (H.sc f hf)⟩

end Goml.Alpha
