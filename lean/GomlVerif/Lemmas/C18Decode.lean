import GomlVerif.Lemmas.C18Scope
/-! Lemmas for C18: `decode` inverts `encode` on well-typed values. -/
namespace Goml.Derive

theorem parseInt_showInt (v : Int) : parseInt (showInt v) = v := by
  cases v with
  | ofNat n =>
    obtain ⟨d, ds, e, hd, _, _⟩ := natDigits_spec n
    have hm := isDigit_ne_minus hd
    have := digitsVal_natDigits n
    rw [e] at this
    simp [showInt, e, parseInt, hm, this]
  | negSucc n =>
    simp [showInt, parseInt, digitsVal_natDigits, Int.negOfNat]

theorem variantIdx_get : ∀ (vs : List (String × List FTy)) (idx : Nat) (vn : String) (tys : List FTy),
    allDistinct (vs.map (·.1)) = true → vs[idx]? = some (vn, tys) → variantIdx vs vn.toList = some idx
  | [], idx, vn, tys, _, h => by simp at h
  | (name, ts) :: rest, 0, vn, tys, _, h => by
    simp at h; simp [variantIdx, h.1]
  | (name, ts) :: rest, idx + 1, vn, tys, hd, h => by
    simp only [List.map_cons, allDistinct, Bool.and_eq_true, Bool.not_eq_true'] at hd
    simp only [List.getElem?_cons_succ] at h
    have ih := variantIdx_get rest idx vn tys hd.2 h
    have hne : name ≠ vn := by
      intro e; subst e
      have hm : name ∈ rest.map (·.1) := List.mem_map.mpr ⟨(name, tys), List.mem_of_getElem? h, rfl⟩
      have := hd.1
      rw [List.contains_eq_mem, decide_eq_false_iff_not] at this
      exact this hm
    have hne' : name.toList ≠ vn.toList := fun e => hne (String.toList_inj.mp e)
    simp [variantIdx, hne', ih]

theorem find_variants {Δ : Defs} {n : String} {idx : Nat} {p : String × List FTy} (h : lookupVariant Δ n idx = some p) :
    ∃ m g vs, Δ.find? (fun d => d.name == n) = some (.enum m g vs) ∧ vs[idx]? = some p := by
  unfold lookupVariant at h
  cases hf : Δ.find? (fun d => d.name == n) with
  | none => simp [hf] at h
  | some d =>
    cases d with
    | struct m g fs => simp [hf] at h
    | enum m g vs => exact ⟨m, g, vs, rfl, by simpa [hf] using h⟩

theorem find_struct {Δ : Defs} {n : String} {decls : List (String × FTy)} (h : lookupStruct Δ n = some decls) :
    ∃ m g, Δ.find? (fun d => d.name == n) = some (.struct m g decls) := by
  unfold lookupStruct at h
  cases hf : Δ.find? (fun d => d.name == n) with
  | none => simp [hf] at h
  | some d =>
    cases d with
    | struct m g fs => simp [hf] at h; subst h; exact ⟨m, g, rfl⟩
    | enum m g vs => simp [hf] at h

theorem hasTy_named_eq {Δ : Defs} {t : FTy} {n : String} {fs : List Val} (h : hasTy Δ t (.struct n fs) = true) : t = .named n := by
  cases t with
  | named m => simp only [hasTy, Bool.and_eq_true, beq_iff_eq] at h; rw [h.1]
  | _ => simp [hasTy] at h

theorem hasTy_named_eq_enum {Δ : Defs} {t : FTy} {n : String} {idx : Nat} {args : List Val}
    (h : hasTy Δ t (.enum n idx args) = true) : t = .named n := by
  cases t with
  | named m => simp only [hasTy, Bool.and_eq_true, beq_iff_eq] at h; rw [h.1]
  | _ => simp [hasTy] at h

theorem decode_encode {Δ : Defs} (hd : variantsDistinct Δ = true) (v : Val) :
    ∀ t, hasTy Δ t v = true → decode Δ t (encode Δ v) = some v := by
  apply Val.rec
    (motive_1 := fun v => ∀ t, hasTy Δ t v = true → decode Δ t (encode Δ v) = some v)
    (motive_2 := fun vs =>
      (∀ decls : List (String × FTy), hasTys Δ (decls.map (·.2)) vs = true →
        decodeMembers Δ decls (encodeMembers Δ decls vs) = some vs) ∧
      (∀ tys, hasTys Δ tys vs = true → decodeItems Δ tys (encodeItems Δ vs) = some vs))
  · intro t h; cases t <;> simp [hasTy] at h <;> simp [encode, decode]
  · intro b t h; cases t <;> simp [hasTy] at h <;> simp [encode, decode]
  · intro i t h; cases t <;> simp [hasTy] at h <;> simp [encode, decode, parseInt_showInt]
  · intro tx t h; cases t <;> simp [hasTy] at h <;> simp [encode, decode]
  · intro s t h; cases t <;> simp [hasTy] at h <;> simp [encode, decode]
  · intro n fs ih t hty
    obtain ⟨decls, hl, htys⟩ := hasTy_struct_inv hty
    obtain ⟨m, g, hf⟩ := find_struct hl
    rw [hasTy_named_eq hty]
    simp [encode, hl, decode, hf, ih.1 decls htys]
  · intro n idx args ih t hty
    obtain ⟨vn, tys, hl, htys⟩ := hasTy_enum_inv hty
    obtain ⟨m, g, vs, hf, hget⟩ := find_variants hl
    have hdist : allDistinct (vs.map (·.1)) = true := by
      have hm := List.mem_of_find?_eq_some hf
      simp only [variantsDistinct, List.all_eq_true] at hd
      exact hd _ hm
    have hidx := variantIdx_get vs idx vn tys hdist hget
    rw [hasTy_named_eq_enum hty]
    cases tys with
    | nil =>
      have := hasTys_nil_left htys; subst this
      simp [encode, hl, decode, hf, hidx, hget]
    | cons ty tys' =>
      simp [encode, hl, decode, hf, hidx, hget, ih.2 _ htys]
  · constructor
    · intro decls h
      cases decls with
      | nil => simp [encodeMembers, decodeMembers]
      | cons d ds => simp [hasTys] at h
    · intro tys h
      cases tys with
      | nil => simp [encodeItems, decodeItems]
      | cons d ds => simp [hasTys] at h
  · intro v vs ihv ihvs
    constructor
    · intro decls h
      cases decls with
      | nil => simp [hasTys] at h
      | cons d ds =>
        obtain ⟨f, t⟩ := d
        simp only [List.map_cons, hasTys, Bool.and_eq_true] at h
        simp [encodeMembers, decodeMembers, ihv t h.1, ihvs.1 ds h.2]
    · intro tys h
      cases tys with
      | nil => simp [hasTys] at h
      | cons t ts =>
        simp only [hasTys, Bool.and_eq_true] at h
        simp [encodeItems, decodeItems, ihv t h.1, ihvs.2 ts h.2]

end Goml.Derive
