import GomlVerif.Lemmas.C18Json
/-! Lemmas for C18: `json_escape_string` as the nested `strings.ReplaceAll` calls of the runtime; Go's `%q` vs JSON. -/
namespace Goml.Derive
open Gen.Derive (jsonReplacements)

theorem replChar_append (o : Char) (n a b : List Char) : replChar o n (a ++ b) = replChar o n a ++ replChar o n b := by
  simp [replChar]

theorem applyReplacements_append (tbl : List (Nat × List Nat)) : ∀ a b : List Char,
    applyReplacements tbl (a ++ b) = applyReplacements tbl a ++ applyReplacements tbl b := by
  induction tbl with
  | nil => intro a b; rfl
  | cons r rest ih =>
    intro a b
    simp only [applyReplacements, List.foldl_cons, replChar_append] at ih ⊢
    exact ih _ _

theorem repl_quote : applyReplacements jsonReplacements ['"'] = jsonEscChar '"' := by decide
theorem repl_backslash : applyReplacements jsonReplacements ['\\'] = jsonEscChar '\\' := by decide
theorem repl_control : ∀ n : Fin 32, applyReplacements jsonReplacements [Char.ofNat n.val] = jsonEscChar (Char.ofNat n.val) := by decide

theorem olds_spec : ∀ r ∈ jsonReplacements, (Char.ofNat r.1).toNat = r.1 ∧ (r.1 = 92 ∨ r.1 = 34 ∨ r.1 < 32) := by decide

theorem applyReplacements_fixed (tbl : List (Nat × List Nat)) (c : Char) (h : ∀ r ∈ tbl, Char.ofNat r.1 ≠ c) :
    applyReplacements tbl [c] = [c] := by
  induction tbl with
  | nil => rfl
  | cons r rest ih =>
    have h1 : c ≠ Char.ofNat r.1 := fun e => h r (by simp) e.symm
    simp only [applyReplacements, List.foldl_cons, replChar, List.flatMap_cons, List.flatMap_nil, h1, if_false, List.append_nil]
    exact ih (fun r hr => h r (by simp [hr]))

theorem repl_char (c : Char) : applyReplacements jsonReplacements [c] = jsonEscChar c := by
  by_cases h1 : c = '"'
  · subst h1; exact repl_quote
  by_cases h2 : c = '\\'
  · subst h2; exact repl_backslash
  by_cases h3 : c.toNat < 32
  · have := repl_control ⟨c.toNat, h3⟩
    simpa [Char.ofNat_toNat] using this
  · rw [applyReplacements_fixed]
    · simp [jsonEscChar, h1, h2, h3]
    · intro r hr e
      obtain ⟨hv, hcase⟩ := olds_spec r hr
      have : c.toNat = r.1 := by rw [← e]; exact hv
      rcases hcase with h | h | h
      · exact h2 (by rw [← Char.ofNat_toNat c, this, h])
      · exact h1 (by rw [← Char.ofNat_toNat c, this, h])
      · omega

theorem jsonEscBody_eq_replacements (s : List Char) : applyReplacements jsonReplacements s = jsonEscBody s := by
  induction s with
  | nil =>
    have : ∀ tbl : List (Nat × List Nat), applyReplacements tbl [] = [] := by
      intro tbl; induction tbl with
      | nil => rfl
      | cons r rest ih => simpa [applyReplacements, replChar] using ih
    simp [this, jsonEscBody]
  | cons c cs ih =>
    have := applyReplacements_append jsonReplacements [c] cs
    simp only [List.singleton_append] at this
    rw [this, repl_char, ih, jsonEscBody]

/-! ### Go's `%q` read as JSON -/

theorem hexVal_hexDigit : ∀ d : Fin 16, hexVal (hexDigit d.val) = some d.val := by decide

theorem hex4Val_hex4 (n : Nat) (h : n < 65536) :
    hex4Val (hexDigit (n / 4096 % 16)) (hexDigit (n / 256 % 16)) (hexDigit (n / 16 % 16)) (hexDigit (n % 16)) = some n := by
  have a := hexVal_hexDigit ⟨n / 4096 % 16, by omega⟩
  have b := hexVal_hexDigit ⟨n / 256 % 16, by omega⟩
  have c := hexVal_hexDigit ⟨n / 16 % 16, by omega⟩
  have d := hexVal_hexDigit ⟨n % 16, by omega⟩
  simp only at a b c d
  simp only [hex4Val, a, b, c, d, Option.some.injEq]
  omega

theorem char_not_surrogate (c : Char) : ¬ (0xD800 ≤ c.toNat ∧ c.toNat < 0xDC00) ∧ ¬ (0xDC00 ≤ c.toNat ∧ c.toNat < 0xE000) := by
  have := c.valid
  simp only [UInt32.isValidChar, Nat.isValidChar] at this
  have e : c.toNat = c.val.toNat := rfl
  omega

theorem safe_inv (p : Char → Bool) (c : Char) (h : goQuoteJsonSafe p c = true) :
    c.toNat ≠ 7 ∧ c.toNat ≠ 11 ∧ (32 ≤ c.toNat ∨ c.toNat = 8 ∨ c.toNat = 9 ∨ c.toNat = 10 ∨ c.toNat = 12 ∨ c.toNat = 13) ∧
      c.toNat ≠ 127 ∧ (c.toNat < 65536 ∨ p c = true) := by
  unfold goQuoteJsonSafe at h
  simp only [Bool.and_eq_true, Bool.or_eq_true, decide_eq_true_eq] at h
  obtain ⟨⟨⟨⟨h7, h11⟩, hctl⟩, h127⟩, hU⟩ := h
  refine ⟨h7, h11, ?_, h127, hU⟩
  omega

theorem readStr_goEscHex (p : Char → Bool) (c : Char) (r : List Char) (h : goQuoteJsonSafe p c = true)
    (hnp : ¬ (128 ≤ c.toNat ∧ p c = true)) (_h32 : ¬ (32 ≤ c.toNat ∧ c.toNat < 127))
    (hs : c.toNat ≠ 8 ∧ c.toNat ≠ 9 ∧ c.toNat ≠ 10 ∧ c.toNat ≠ 12 ∧ c.toNat ≠ 13) :
    readStr (goEscHex c ++ r) = consFst c (readStr r) := by
  obtain ⟨h7, h11, hctl, h127, hU⟩ := safe_inv p c h
  unfold goEscHex
  split
  · omega
  split
  · rename_i hlt
    have hsur := char_not_surrogate c
    have := readStr_u _ _ _ _ r c.toNat (hex4Val_hex4 c.toNat hlt) hsur.1 hsur.2
    simpa [hex4, Char.ofNat_toNat] using this
  · rcases hU with h | h
    · omega
    · exact absurd ⟨by omega, h⟩ hnp

theorem readStr_goEscNonPrint (p : Char → Bool) (c : Char) (r : List Char) (h : goQuoteJsonSafe p c = true)
    (hnp : ¬ (128 ≤ c.toNat ∧ p c = true)) (h32 : ¬ (32 ≤ c.toNat ∧ c.toNat < 127)) :
    readStr (goEscNonPrint c ++ r) = consFst c (readStr r) := by
  obtain ⟨h7, h11, hctl, h127, hU⟩ := safe_inv p c h
  have key : ∀ (k : Nat) (e ch : Char), c.toNat = k → ch = Char.ofNat k → e ≠ 'u' → unescape e = some ch →
      readStr ('\\' :: e :: r) = consFst c (readStr r) := by
    intro k e ch hk hch hu hun
    have : c = ch := by rw [← Char.ofNat_toNat c, hk, hch]
    rw [this]; exact readStr_esc2 e ch r hu hun
  unfold goEscNonPrint
  split
  · omega
  split
  · rename_i e; exact key 8 'b' _ e rfl (by decide) (by decide)
  split
  · rename_i e; exact key 12 'f' _ e rfl (by decide) (by decide)
  split
  · rename_i e; exact key 10 'n' _ e rfl (by decide) (by decide)
  split
  · rename_i e; exact key 13 'r' _ e rfl (by decide) (by decide)
  split
  · rename_i e; exact key 9 't' _ e rfl (by decide) (by decide)
  exact readStr_goEscHex p c r h hnp h32 (by omega)

theorem readStr_goEsc (p : Char → Bool) (c : Char) (r : List Char) (h : goQuoteJsonSafe p c = true) :
    readStr (goEscRune p c ++ r) = consFst c (readStr r) := by
  unfold goEscRune
  split
  · rename_i e; subst e; exact readStr_esc2 '"' '"' _ (by decide) (by decide)
  split
  · rename_i _ e; subst e; exact readStr_esc2 '\\' '\\' _ (by decide) (by decide)
  rename_i hq hb
  split
  · rename_i hr; exact readStr_raw c r hq hb (by omega)
  split
  · rename_i _ hr; exact readStr_raw c r hq hb (by omega)
  · rename_i h32 hnp
    exact readStr_goEscNonPrint p c r h hnp h32

/-- `%q` and JSON agree on a string all of whose runes are `goQuoteJsonSafe` -/
theorem readStr_goQuoteBody (p : Char → Bool) (s rest : List Char) (h : s.all (goQuoteJsonSafe p) = true) :
    readStr (goQuoteBody p s ++ '"' :: rest) = some (s, rest) := by
  induction s with
  | nil => simp [goQuoteBody, readStr_quote]
  | cons c cs ih =>
    simp only [List.all_cons, Bool.and_eq_true] at h
    simp [goQuoteBody, readStr_goEsc p c _ h.1, ih h.2, consFst]

end Goml.Derive
