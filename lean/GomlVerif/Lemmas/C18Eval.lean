import GomlVerif.Lemmas.C18Scope
/-! Lemmas for C18: the generated bodies (as AST, `genJson` / `genString`) evaluate to `toJson` / `toString`. -/
namespace Goml.Derive

theorem toJson_unit (Δ : Defs) : toJson Δ .unit = "null".toList := by rw [toJson]
theorem toJson_bool (Δ : Defs) (b : Bool) : toJson Δ (.bool b) = if b then "true".toList else "false".toList := by rw [toJson]
theorem toJson_int (Δ : Defs) (i : Int) : toJson Δ (.int i) = showInt i := by rw [toJson]
theorem toJson_float (Δ : Defs) (t : List Char) : toJson Δ (.float t) = t := by rw [toJson]
theorem toJson_str (Δ : Defs) (s : List Char) : toJson Δ (.str s) = jsonQuote s := by rw [toJson]

theorem callToJson_cases (e : GExpr) (t : FTy) :
    (t = .string ∧ callToJson e t = .callFn "json_escape_string" e) ∨
    (t = .bool ∧ callToJson e t = .callFn "bool_to_json" e) ∨
    (t = .unit ∧ callToJson e t = .lit "null") ∨
    ((∃ b s, t = .int b s) ∧ ((∃ h, callToJson e t = .callFn h e ∧
        ["int8_to_string", "int16_to_string", "int32_to_string", "int64_to_string", "uint8_to_string", "uint16_to_string",
         "uint32_to_string", "uint64_to_string"].contains h = true) ∨ callToJson e t = .callMethod e "to_json")) ∨
    ((∃ b, t = .float b) ∧ ((∃ h, callToJson e t = .callFn h e ∧ (h = "float32_to_string" ∨ h = "float64_to_string")) ∨
        callToJson e t = .callMethod e "to_json")) ∨
    (((∃ n, t = .named n) ∨ t = .other) ∧ callToJson e t = .callMethod e "to_json") := by
  have hv : ∀ name : String, variantName t = name →
      callToJson e t = (match Gen.Derive.jsonArms.find? (fun r => r.1 == name) with
        | some (_, kind, payload) => if kind == "fn" then GExpr.callFn payload e else GExpr.lit payload
        | none => match lookup2 Gen.Derive.primToString name with
          | some h => GExpr.callFn h e
          | none => GExpr.callMethod e Gen.Derive.toJsonFn) := by
    intro name h; subst h; rfl
  cases t with
  | unit => simp [hv _ rfl, variantName, Gen.Derive.jsonArms]
  | bool => simp [hv _ rfl, variantName, Gen.Derive.jsonArms]
  | string => simp [hv _ rfl, variantName, Gen.Derive.jsonArms]
  | named n => simp [hv _ rfl, variantName, Gen.Derive.jsonArms, lookup2, Gen.Derive.primToString, Gen.Derive.toJsonFn]
  | other => simp [hv _ rfl, variantName, Gen.Derive.jsonArms, lookup2, Gen.Derive.primToString, Gen.Derive.toJsonFn]
  | int b sg =>
    have : ∃ name, variantName (.int b sg) = name ∧ (name = "TInt8" ∨ name = "TInt16" ∨ name = "TInt32" ∨ name = "TInt64" ∨
        name = "TUint8" ∨ name = "TUint16" ∨ name = "TUint32" ∨ name = "TUint64" ∨ name = "TOther") := by
      unfold variantName; split <;> simp_all
    obtain ⟨name, hn, hc⟩ := this
    rw [hv name hn]
    rcases hc with h | h | h | h | h | h | h | h | h <;> subst h <;>
      simp [Gen.Derive.jsonArms, lookup2, Gen.Derive.primToString, Gen.Derive.toJsonFn]
  | float b =>
    have : ∃ name, variantName (.float b) = name ∧ (name = "TFloat32" ∨ name = "TFloat64" ∨ name = "TOther") := by
      unfold variantName; split <;> simp_all
    obtain ⟨name, hn, hc⟩ := this
    rw [hv name hn]
    rcases hc with h | h | h <;> subst h <;>
      simp [Gen.Derive.jsonArms, lookup2, Gen.Derive.primToString, Gen.Derive.toJsonFn]


theorem evalG_callToJson {Δ : Defs} {ρ : List (String × Val)} {x : String} {v : Val} {t : FTy}
    (hl : ρ.find? (fun p => p.1 == x) = some (x, v)) (hty : hasTy Δ t v = true) :
    evalG Δ ρ (callToJson (.var x) t) = some (toJson Δ v) := by
  rcases callToJson_cases (.var x) t with ⟨ht, hc⟩ | ⟨ht, hc⟩ | ⟨ht, hc⟩ | ⟨⟨b, s, ht⟩, hc⟩ | ⟨⟨b, ht⟩, hc⟩ | ⟨ht, hc⟩
  · subst ht; cases v <;> simp [hasTy] at hty
    simp [hc, evalG, hl, helperSem, toJson_str]
  · subst ht; cases v <;> simp [hasTy] at hty
    simp [hc, evalG, hl, helperSem, toJson_bool]
  · subst ht; cases v <;> simp [hasTy] at hty
    simp [hc, evalG, toJson_unit]
  · subst ht; cases v <;> simp [hasTy] at hty
    rcases hc with ⟨h, hc, hh⟩ | hc
    · simp only [hc, evalG, hl, helperSem, hh, if_true, toJson_int]
    · simp [hc, evalG, hl, Gen.Derive.toJsonFn]
  · subst ht; cases v <;> simp [hasTy] at hty
    rcases hc with ⟨h, hc, hh⟩ | hc
    · rcases hh with hh | hh <;> subst hh <;> simp [hc, evalG, hl, helperSem, toJson_float]
    · simp [hc, evalG, hl, Gen.Derive.toJsonFn]
  · simp [hc, evalG, hl, Gen.Derive.toJsonFn]


/-- all parts evaluate: their concatenation -/
def joinParts : List (Option (List Char)) → Option (List Char)
  | [] => some []
  | none :: _ => none
  | some a :: rest => match joinParts rest with
    | some b => some (a ++ b)
    | none => none

theorem evalG_foldl (Δ : Defs) (ρ : List (String × Val)) : ∀ (ps : List GExpr) (acc : GExpr),
    evalG Δ ρ (ps.foldl GExpr.concat acc) =
      match evalG Δ ρ acc, joinParts (ps.map (evalG Δ ρ)) with
      | some a, some b => some (a ++ b)
      | _, _ => none
  | [], acc => by
    simp only [List.foldl_nil, List.map_nil, joinParts]
    generalize evalG Δ ρ acc = a
    cases a <;> simp
  | p :: ps, acc => by
    rw [List.foldl_cons, evalG_foldl Δ ρ ps (.concat acc p)]
    simp only [evalG, List.map_cons]
    generalize evalG Δ ρ acc = a
    generalize evalG Δ ρ p = b
    cases a <;> cases b <;> simp only [joinParts] <;> generalize joinParts (ps.map (evalG Δ ρ)) = c <;> cases c <;> simp

theorem evalG_concatParts (Δ : Defs) (ρ : List (String × Val)) (ps : List GExpr) :
    evalG Δ ρ (concatParts ps) = joinParts (ps.map (evalG Δ ρ)) := by
  cases ps with
  | nil => simp [concatParts, evalG, joinParts]
  | cons p ps =>
    simp only [concatParts, evalG_foldl, List.map_cons]
    generalize evalG Δ ρ p = b
    cases b <;> simp only [joinParts] <;> generalize joinParts (ps.map (evalG Δ ρ)) = c <;> cases c <;> simp

theorem joinParts_append (xs ys : List (Option (List Char))) :
    joinParts (xs ++ ys) = match joinParts xs, joinParts ys with
      | some a, some b => some (a ++ b)
      | _, _ => none := by
  induction xs with
  | nil => simp only [List.nil_append, joinParts]; generalize joinParts ys = c; cases c <;> simp
  | cons x xs ih =>
    cases x with
    | none => simp [joinParts]
    | some a =>
      simp only [List.cons_append, joinParts, ih]
      generalize joinParts xs = b
      generalize joinParts ys = c
      cases b <;> cases c <;> simp

/-- the bindings of an arm: binder `k + j` holds the `j`-th value -/
def Binds (ρ : List (String × Val)) (k : Nat) (vals : List Val) : Prop :=
  ∀ j (h : j < vals.length), ρ.find? (fun p => p.1 == fieldBinder (k + j)) = some (fieldBinder (k + j), vals[j])

theorem binds_tail {ρ : List (String × Val)} {k : Nat} {v : Val} {vs : List Val} (h : Binds ρ k (v :: vs)) : Binds ρ (k + 1) vs := by
  intro j hj
  have := h (j + 1) (by simp; omega)
  simpa [Nat.add_assoc, Nat.add_comm 1 j] using this

theorem jsonStructParts_eval {Δ : Defs} {ρ : List (String × Val)} : ∀ (fs : List (String × FTy)) (vals : List Val) (k : Nat),
    hasTys Δ (fs.map (·.2)) vals = true → Binds ρ k vals →
    joinParts ((jsonStructParts bindFresh k fs).map (evalG Δ ρ)) = some (membersJson Δ fs vals (k == 0))
  | [], [], _, _, _ => by simp [jsonStructParts, joinParts, membersJson]
  | [], _ :: _, _, h, _ => by simp [hasTys] at h
  | _ :: _, [], _, h, _ => by simp [hasTys] at h
  | (f, t) :: fs, v :: vs, k, h, hb => by
    simp only [List.map_cons, hasTys, Bool.and_eq_true] at h
    have ih := jsonStructParts_eval fs vs (k + 1) h.2 (binds_tail hb)
    have hv := evalG_callToJson (hb 0 (by simp)) h.1
    simp only [Nat.add_zero, List.getElem_cons_zero] at hv
    simp only [jsonStructParts, bindFresh, List.map_append, List.map_cons, List.map_nil, joinParts_append, ih]
    by_cases hk : k = 0
    · subst hk
      simp [joinParts, evalG, hv, membersJson]
    · have : (k == 0) = false := by simp [hk]
      have hk' : k > 0 := Nat.pos_of_ne_zero hk
      simp [joinParts, evalG, hv, membersJson, this, hk']


theorem jsonEnumParts_eval {Δ : Defs} {ρ : List (String × Val)} : ∀ (ts : List FTy) (vals : List Val) (k : Nat),
    hasTys Δ ts vals = true → Binds ρ k vals →
    joinParts ((jsonEnumParts k ts).map (evalG Δ ρ)) = some (itemsJson Δ vals (k == 0))
  | [], [], _, _, _ => by simp [jsonEnumParts, joinParts, itemsJson]
  | [], _ :: _, _, h, _ => by simp [hasTys] at h
  | _ :: _, [], _, h, _ => by simp [hasTys] at h
  | t :: ts, v :: vs, k, h, hb => by
    simp only [hasTys, Bool.and_eq_true] at h
    have ih := jsonEnumParts_eval ts vs (k + 1) h.2 (binds_tail hb)
    have hv := evalG_callToJson (hb 0 (by simp)) h.1
    simp only [Nat.add_zero, List.getElem_cons_zero] at hv
    simp only [jsonEnumParts, List.map_append, List.map_cons, List.map_nil, joinParts_append, ih]
    by_cases hk : k = 0
    · subst hk
      simp [joinParts, hv, itemsJson]
    · have : (k == 0) = false := by simp [hk]
      have hk' : k > 0 := Nat.pos_of_ne_zero hk
      simp [joinParts, evalG, hv, itemsJson, this, hk']

/-! the same for `to_string` -/
theorem toString_unit (Δ : Defs) : toString Δ .unit = "()".toList := by rw [toString]
theorem toString_bool (Δ : Defs) (b : Bool) : toString Δ (.bool b) = if b then "true".toList else "false".toList := by rw [toString]
theorem toString_int (Δ : Defs) (i : Int) : toString Δ (.int i) = showInt i := by rw [toString]
theorem toString_float (Δ : Defs) (t : List Char) : toString Δ (.float t) = t := by rw [toString]
theorem toString_str (Δ : Defs) (s : List Char) : toString Δ (.str s) = s := by rw [toString]

theorem callToString_cases (e : GExpr) (t : FTy) :
    (t = .string ∧ callToString e t = e) ∨
    (t = .bool ∧ callToString e t = .callFn "bool_to_string" e) ∨
    (t = .unit ∧ callToString e t = .callFn "unit_to_string" e) ∨
    ((∃ b s, t = .int b s) ∧ ((∃ h, callToString e t = .callFn h e ∧
        ["int8_to_string", "int16_to_string", "int32_to_string", "int64_to_string", "uint8_to_string", "uint16_to_string",
         "uint32_to_string", "uint64_to_string"].contains h = true) ∨ callToString e t = .callMethod e "to_string")) ∨
    ((∃ b, t = .float b) ∧ ((∃ h, callToString e t = .callFn h e ∧ (h = "float32_to_string" ∨ h = "float64_to_string")) ∨
        callToString e t = .callMethod e "to_string")) ∨
    (((∃ n, t = .named n) ∨ t = .other) ∧ callToString e t = .callMethod e "to_string") := by
  have hv : ∀ name : String, variantName t = name →
      callToString e t = (if name == "TString" then e else match lookup2 Gen.Derive.primToString name with
          | some h => GExpr.callFn h e
          | none => GExpr.callMethod e Gen.Derive.toStringFn) := by
    intro name h; subst h; rfl
  cases t with
  | unit => simp [hv _ rfl, variantName, lookup2, Gen.Derive.primToString]
  | bool => simp [hv _ rfl, variantName, lookup2, Gen.Derive.primToString]
  | string => simp [hv _ rfl, variantName]
  | named n => simp [hv _ rfl, variantName, lookup2, Gen.Derive.primToString, Gen.Derive.toStringFn]
  | other => simp [hv _ rfl, variantName, lookup2, Gen.Derive.primToString, Gen.Derive.toStringFn]
  | int b sg =>
    have : ∃ name, variantName (.int b sg) = name ∧ (name = "TInt8" ∨ name = "TInt16" ∨ name = "TInt32" ∨ name = "TInt64" ∨
        name = "TUint8" ∨ name = "TUint16" ∨ name = "TUint32" ∨ name = "TUint64" ∨ name = "TOther") := by
      unfold variantName; split <;> simp_all
    obtain ⟨name, hn, hc⟩ := this
    rw [hv name hn]
    rcases hc with h | h | h | h | h | h | h | h | h <;> subst h <;>
      simp [lookup2, Gen.Derive.primToString, Gen.Derive.toStringFn]
  | float b =>
    have : ∃ name, variantName (.float b) = name ∧ (name = "TFloat32" ∨ name = "TFloat64" ∨ name = "TOther") := by
      unfold variantName; split <;> simp_all
    obtain ⟨name, hn, hc⟩ := this
    rw [hv name hn]
    rcases hc with h | h | h <;> subst h <;>
      simp [lookup2, Gen.Derive.primToString, Gen.Derive.toStringFn]

theorem evalG_callToString {Δ : Defs} {ρ : List (String × Val)} {x : String} {v : Val} {t : FTy}
    (hl : ρ.find? (fun p => p.1 == x) = some (x, v)) (hty : hasTy Δ t v = true) :
    evalG Δ ρ (callToString (.var x) t) = some (toString Δ v) := by
  rcases callToString_cases (.var x) t with ⟨ht, hc⟩ | ⟨ht, hc⟩ | ⟨ht, hc⟩ | ⟨⟨b, s, ht⟩, hc⟩ | ⟨⟨b, ht⟩, hc⟩ | ⟨ht, hc⟩
  · subst ht; cases v <;> simp [hasTy] at hty
    simp [hc, evalG, hl, toString_str]
  · subst ht; cases v <;> simp [hasTy] at hty
    simp [hc, evalG, hl, helperSem, toString_bool]
  · subst ht; cases v <;> simp [hasTy] at hty
    simp [hc, evalG, hl, helperSem, toString_unit]
  · subst ht; cases v <;> simp [hasTy] at hty
    rcases hc with ⟨h, hc, hh⟩ | hc
    · simp only [hc, evalG, hl, helperSem, hh, if_true, toString_int]
    · simp [hc, evalG, hl, Gen.Derive.toJsonFn, Gen.Derive.toStringFn]
  · subst ht; cases v <;> simp [hasTy] at hty
    rcases hc with ⟨h, hc, hh⟩ | hc
    · rcases hh with hh | hh <;> subst hh <;> simp [hc, evalG, hl, helperSem, toString_float]
    · simp [hc, evalG, hl, Gen.Derive.toJsonFn, Gen.Derive.toStringFn]
  · simp [hc, evalG, hl, Gen.Derive.toJsonFn, Gen.Derive.toStringFn]


theorem stringStructParts_eval {Δ : Defs} {ρ : List (String × Val)} : ∀ (fs : List (String × FTy)) (vals : List Val) (k : Nat),
    hasTys Δ (fs.map (·.2)) vals = true → Binds ρ k vals →
    joinParts ((stringStructParts bindFresh k fs).map (evalG Δ ρ)) = some (membersString Δ fs vals)
  | [], [], _, _, _ => by simp [stringStructParts, joinParts, membersString]
  | [], _ :: _, _, h, _ => by simp [hasTys] at h
  | _ :: _, [], _, h, _ => by simp [hasTys] at h
  | (f, t) :: fs, v :: vs, k, h, hb => by
    simp only [List.map_cons, hasTys, Bool.and_eq_true] at h
    have ih := stringStructParts_eval fs vs (k + 1) h.2 (binds_tail hb)
    have hv := evalG_callToString (hb 0 (by simp)) h.1
    simp only [Nat.add_zero, List.getElem_cons_zero] at hv
    simp only [stringStructParts, bindFresh, List.map_append, List.map_cons, List.map_nil, joinParts_append, ih]
    by_cases he : fs.isEmpty = true
    · simp [joinParts, evalG, hv, membersString, he]
    · simp [joinParts, evalG, hv, membersString, he]

theorem stringEnumParts_eval {Δ : Defs} {ρ : List (String × Val)} : ∀ (ts : List FTy) (vals : List Val) (k : Nat),
    hasTys Δ ts vals = true → Binds ρ k vals →
    joinParts ((stringEnumParts k ts).map (evalG Δ ρ)) = some (itemsString Δ vals (k == 0))
  | [], [], _, _, _ => by simp [stringEnumParts, joinParts, itemsString]
  | [], _ :: _, _, h, _ => by simp [hasTys] at h
  | _ :: _, [], _, h, _ => by simp [hasTys] at h
  | t :: ts, v :: vs, k, h, hb => by
    simp only [hasTys, Bool.and_eq_true] at h
    have ih := stringEnumParts_eval ts vs (k + 1) h.2 (binds_tail hb)
    have hv := evalG_callToString (hb 0 (by simp)) h.1
    simp only [Nat.add_zero, List.getElem_cons_zero] at hv
    simp only [stringEnumParts, List.map_append, List.map_cons, List.map_nil, joinParts_append, ih]
    by_cases hk : k = 0
    · subst hk
      simp [joinParts, hv, itemsString]
    · have : (k == 0) = false := by simp [hk]
      have hk' : k > 0 := Nat.pos_of_ne_zero hk
      simp [joinParts, evalG, hv, itemsString, this, hk']

/-- the environment of an arm: its binders zipped with the values they are bound to -/
def armEnv (binders : List String) (vals : List Val) : List (String × Val) := binders.zip vals

theorem binds_zip : ∀ (vals : List Val) (k : Nat),
    Binds (armEnv ((List.range' k vals.length).map fieldBinder) vals) k vals
  | [], _ => by intro j h; simp at h
  | v :: vs, k => by
    intro j hj
    simp only [armEnv, List.length_cons, List.range'_succ, List.map_cons, List.zip_cons_cons, List.find?_cons]
    cases j with
    | zero => simp
    | succ j =>
      have hne : (fieldBinder k == fieldBinder (k + (j + 1))) = false := by
        rw [beq_eq_false_iff_ne]; intro e; have := fieldBinder_inj e; omega
      simp only [hne]
      have := binds_zip vs (k + 1) j (by simpa using hj)
      simpa [armEnv, Nat.add_assoc, Nat.add_comm 1 j] using this

/-- **the generated `to_json` body computes `toJson`** (struct): under the bindings of its arm -/
theorem genJson_struct_eval {Δ : Defs} {n : String} {g : Nat} {fs : List (String × FTy)} {vals : List Val}
    (hl : lookupStruct Δ n = some fs) (hty : hasTys Δ (fs.map (·.2)) vals = true) :
    ∀ arm ∈ (genJson bindFresh (.struct n g fs)).arms,
      evalG Δ (armEnv arm.binders vals) arm.body = some (toJson Δ (.struct n vals)) := by
  intro arm harm
  simp only [genJson, List.mem_singleton] at harm
  subst harm
  by_cases he : fs.isEmpty = true
  · simp [he, evalG, toJson, hl]
  · have hlen : fs.length = vals.length := by simpa using hasTys_length hty
    simp only [he, Bool.false_eq_true, if_false, binders_fresh, evalG_concatParts, List.map_append, List.map_cons, List.map_nil,
      joinParts_append]
    have hb : Binds (armEnv ((List.range' 0 fs.length).map fieldBinder) vals) 0 vals := by
      rw [hlen]; exact binds_zip vals 0
    have := jsonStructParts_eval (Δ := Δ) fs vals 0 hty hb
    simp only [this]
    simp [joinParts, evalG, toJson, hl, he]


/-- … (enum): the arm of the value's variant -/
theorem genJson_enum_eval {Δ : Defs} {n : String} {g : Nat} {vs : List (String × List FTy)} {idx : Nat} {vn : String}
    {tys : List FTy} {args : List Val}
    (hl : lookupVariant Δ n idx = some (vn, tys)) (hv : vs[idx]? = some (vn, tys)) (hty : hasTys Δ tys args = true) :
    ((genJson bindFresh (.enum n g vs)).arms[idx]?).bind (fun arm => evalG Δ (armEnv arm.binders args) arm.body)
      = some (toJson Δ (.enum n idx args)) := by
  simp only [genJson, List.getElem?_map, hv, Option.map_some, Option.bind_some]
  by_cases he : tys.isEmpty = true
  · simp [he, evalG, toJson, hl]
  · have hlen : tys.length = args.length := hasTys_length hty
    have hb : Binds (armEnv ((List.range' 0 tys.length).map fieldBinder) args) 0 args := by
      rw [hlen]; exact binds_zip args 0
    have := jsonEnumParts_eval (Δ := Δ) tys args 0 hty hb
    simp only [he, Bool.false_eq_true, if_false, enumBinders_eq, evalG_concatParts, List.map_append, List.map_cons, List.map_nil,
      joinParts_append, this]
    simp [joinParts, evalG, toJson, hl, he]

theorem genString_struct_eval {Δ : Defs} {n : String} {g : Nat} {fs : List (String × FTy)} {vals : List Val}
    (hl : lookupStruct Δ n = some fs) (hty : hasTys Δ (fs.map (·.2)) vals = true) :
    ∀ arm ∈ (genString bindFresh (.struct n g fs)).arms,
      evalG Δ (armEnv arm.binders vals) arm.body = some (toString Δ (.struct n vals)) := by
  intro arm harm
  simp only [genString, List.mem_singleton] at harm
  subst harm
  by_cases he : fs.isEmpty = true
  · simp [he, evalG, toString, hl]
  · have hlen : fs.length = vals.length := by simpa using hasTys_length hty
    have hb : Binds (armEnv ((List.range' 0 fs.length).map fieldBinder) vals) 0 vals := by
      rw [hlen]; exact binds_zip vals 0
    have := stringStructParts_eval (Δ := Δ) fs vals 0 hty hb
    simp only [he, Bool.false_eq_true, if_false, binders_fresh, evalG_concatParts, List.map_append, List.map_cons, List.map_nil,
      joinParts_append, this]
    simp [joinParts, evalG, toString, hl, he]

theorem genString_enum_eval {Δ : Defs} {n : String} {g : Nat} {vs : List (String × List FTy)} {idx : Nat} {vn : String}
    {tys : List FTy} {args : List Val}
    (hl : lookupVariant Δ n idx = some (vn, tys)) (hv : vs[idx]? = some (vn, tys)) (hty : hasTys Δ tys args = true) :
    ((genString bindFresh (.enum n g vs)).arms[idx]?).bind (fun arm => evalG Δ (armEnv arm.binders args) arm.body)
      = some (toString Δ (.enum n idx args)) := by
  simp only [genString, List.getElem?_map, hv, Option.map_some, Option.bind_some]
  by_cases he : tys.isEmpty = true
  · simp [he, evalG, toString, hl]
  · have hlen : tys.length = args.length := hasTys_length hty
    have hb : Binds (armEnv ((List.range' 0 tys.length).map fieldBinder) args) 0 args := by
      rw [hlen]; exact binds_zip args 0
    have := stringEnumParts_eval (Δ := Δ) tys args 0 hty hb
    simp only [he, Bool.false_eq_true, if_false, enumBinders_eq, evalG_concatParts, List.map_append, List.map_cons, List.map_nil,
      joinParts_append, this]
    simp [joinParts, evalG, toString, hl, he]

end Goml.Derive
