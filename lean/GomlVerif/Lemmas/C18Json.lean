import GomlVerif.Model.Derive
/-! Lemmas for C18: the JSON reader on the text the derived `to_json` produces. -/
namespace Goml.Derive

theorem skipWs_cons {c : Char} {r : List Char} (h : isWs c = false) : skipWs (c :: r) = c :: r := by
  simp [skipWs, h]

/-! ### digits -/
theorem digitChar_spec : ∀ k : Fin 10, isDigit (digitChar k) = true ∧ isNumChar (digitChar k) = true ∧
    (digitChar k = '0' → k.val = 0) ∧ isWs (digitChar k) = false := by decide

theorem natDigits_spec (n : Nat) : ∃ d ds, natDigits n = d :: ds ∧ isDigit d = true ∧
    (∀ c ∈ ds, isDigit c = true) ∧ (d = '0' → n = 0 ∧ ds = []) := by
  induction n using Nat.strongRecOn with
  | _ n ih =>
    unfold natDigits
    split
    · rename_i h
      refine ⟨digitChar n, [], rfl, (digitChar_spec ⟨n, h⟩).1, by simp, ?_⟩
      intro h0
      exact ⟨(digitChar_spec ⟨n, h⟩).2.2.1 h0, rfl⟩
    · rename_i h
      obtain ⟨d, ds, e, hd, hds, h0⟩ := ih (n / 10) (by omega)
      refine ⟨d, ds ++ [digitChar (n % 10)], by simp [e], hd, ?_, ?_⟩
      · intro c hc
        simp at hc
        rcases hc with hc | hc
        · exact hds c hc
        · subst hc; exact (digitChar_spec ⟨n % 10, by omega⟩).1
      · intro hz
        have := (h0 hz).1
        omega

theorem dropDigits_all {ds : List Char} (h : ∀ c ∈ ds, isDigit c = true) : dropDigits ds = [] := by
  induction ds with
  | nil => rfl
  | cons c cs ih =>
    simp [dropDigits, h c (by simp)]
    exact ih (fun c hc => h c (by simp [hc]))

theorem isDigit_isNumChar {c : Char} (h : isDigit c = true) : isNumChar c = true := by
  simp [isNumChar, h]

theorem isDigit_ne_minus {c : Char} (h : isDigit c = true) : c ≠ '-' := by
  intro e; subst e; revert h; decide

theorem validNumber_digits {d : Char} {ds : List Char} (hd : isDigit d = true)
    (hds : ∀ c ∈ ds, isDigit c = true) (h0 : d = '0' → ds = []) : validNumber (d :: ds) = true := by
  have hm := isDigit_ne_minus hd
  simp only [validNumber, hm, if_false]
  by_cases hz : d = '0'
  · simp [hz, h0 hz, validFrac]
  · simp [hz, hd, dropDigits_all hds, validFrac]

theorem validNumber_neg_digits {d : Char} {ds : List Char} (hd : isDigit d = true)
    (hds : ∀ c ∈ ds, isDigit c = true) (h0 : d = '0' → ds = []) : validNumber ('-' :: d :: ds) = true := by
  simp only [validNumber, if_true]
  by_cases hz : d = '0'
  · simp [hz, h0 hz, validFrac]
  · simp [hz, hd, dropDigits_all hds, validFrac]

/-- `%d` always writes a JSON number -/
theorem showInt_numTok (v : Int) : validNumber (showInt v) = true ∧ ∀ c ∈ showInt v, isNumChar c = true := by
  cases v with
  | ofNat n =>
    obtain ⟨d, ds, e, hd, hds, h0⟩ := natDigits_spec n
    simp only [showInt, e]
    refine ⟨validNumber_digits hd hds (fun h => (h0 h).2), ?_⟩
    intro c hc
    simp at hc
    rcases hc with hc | hc
    · subst hc; exact isDigit_isNumChar hd
    · exact isDigit_isNumChar (hds c hc)
  | negSucc n =>
    obtain ⟨d, ds, e, hd, hds, h0⟩ := natDigits_spec (n + 1)
    simp only [showInt, e]
    refine ⟨validNumber_neg_digits hd hds (fun h => (h0 h).2), ?_⟩
    intro c hc
    simp at hc
    rcases hc with hc | hc | hc
    · subst hc; decide
    · subst hc; exact isDigit_isNumChar hd
    · exact isDigit_isNumChar (hds c hc)

/-! ### numbers and literals -/
/-- what follows a number must not continue it -/
def NumEnd (rest : List Char) : Prop := ∀ c r, rest = c :: r → isNumChar c = false

theorem numEnd_nil : NumEnd [] := by intro c r h; cases h

theorem numEnd_cons {c : Char} (r : List Char) (h : isNumChar c = false) : NumEnd (c :: r) := by
  intro c' r' e; cases e; exact h

theorem spanNum_append {t rest : List Char} (ht : ∀ c ∈ t, isNumChar c = true) (hr : NumEnd rest) :
    spanNum (t ++ rest) = (t, rest) := by
  induction t with
  | nil =>
    cases rest with
    | nil => rfl
    | cons c r => simp [spanNum, hr c r rfl]
  | cons c cs ih =>
    have := ih (fun c hc => ht c (by simp [hc]))
    simp [spanNum, ht c (by simp), this]

theorem numChar_head {c : Char} (h : isNumChar c = true) :
    isWs c = false ∧ c ≠ '"' ∧ c ≠ '{' ∧ c ≠ '[' ∧ c ≠ 't' ∧ c ≠ 'f' ∧ c ≠ 'n' ∧ c ≠ ']' ∧ c ≠ '}' := by
  have key : ∀ x : Char, isNumChar x = false → c ≠ x := by
    intro x hx e; subst e; simp [hx] at h
  refine ⟨?_, key _ (by decide), key _ (by decide), key _ (by decide), key _ (by decide), key _ (by decide),
    key _ (by decide), key _ (by decide), key _ (by decide)⟩
  simp only [isWs, Bool.or_eq_false_iff, decide_eq_false_iff_not]
  exact ⟨⟨⟨key _ (by decide), key _ (by decide)⟩, key _ (by decide)⟩, key _ (by decide)⟩

theorem validNumber_ne_nil {t : List Char} (h : validNumber t = true) : t ≠ [] := by
  intro e; subst e; simp [validNumber] at h

theorem readValue_num {t rest : List Char} (fuel : Nat) (hv : validNumber t = true)
    (ht : ∀ c ∈ t, isNumChar c = true) (hr : NumEnd rest) :
    readValue (fuel + 1) (t ++ rest) = some (.num t, rest) := by
  cases t with
  | nil => exact absurd rfl (validNumber_ne_nil hv)
  | cons c r =>
    obtain ⟨hws, h1, h2, h3, h4, h5, h6, _, _⟩ := numChar_head (ht c (by simp))
    have hs := spanNum_append ht hr
    simp only [List.cons_append] at hs
    simp only [readValue, List.cons_append, skipWs_cons hws, h1, h2, h3, h4, h5, h6, if_false, hs, hv, if_true]

theorem readValue_true (fuel : Nat) (rest : List Char) :
    readValue (fuel + 1) ("true".toList ++ rest) = some (.bool true, rest) := by
  simp [readValue, skipWs, isWs, stripPrefix]

theorem readValue_false (fuel : Nat) (rest : List Char) :
    readValue (fuel + 1) ("false".toList ++ rest) = some (.bool false, rest) := by
  simp [readValue, skipWs, isWs, stripPrefix]

theorem readValue_null (fuel : Nat) (rest : List Char) :
    readValue (fuel + 1) ("null".toList ++ rest) = some (.null, rest) := by
  simp [readValue, skipWs, isWs, stripPrefix]

/-! ### strings -/
theorem hexRound : ∀ n : Fin 32, hex4Val '0' '0' (hexDigit (n.val / 16)) (hexDigit (n.val % 16)) = some n.val := by decide

theorem readStr_quote (rest : List Char) : readStr ('"' :: rest) = some ([], rest) := by
  rw [readStr.eq_def]; simp

theorem readStr_esc2 (e ch : Char) (r : List Char) (hu : e ≠ 'u') (h : unescape e = some ch) :
    readStr ('\\' :: e :: r) = consFst ch (readStr r) := by
  rw [readStr.eq_def]; simp [hu, h]

theorem readStr_raw (c : Char) (r : List Char) (h1 : c ≠ '"') (h2 : c ≠ '\\') (h3 : ¬ c.toNat < 32) :
    readStr (c :: r) = consFst c (readStr r) := by
  rw [readStr.eq_def]; simp [h1, h2, h3]

theorem readStr_u (a b c d : Char) (r : List Char) (u : Nat) (h : hex4Val a b c d = some u)
    (h1 : ¬ (0xD800 ≤ u ∧ u < 0xDC00)) (h2 : ¬ (0xDC00 ≤ u ∧ u < 0xE000)) :
    readStr ('\\' :: 'u' :: a :: b :: c :: d :: r) = consFst (Char.ofNat u) (readStr r) := by
  rw [readStr.eq_def]; simp [h, h1, h2]

/-- the reader undoes `json_escape_string`, for every string -/
theorem readStr_esc (s rest : List Char) : readStr (jsonEscBody s ++ '"' :: rest) = some (s, rest) := by
  induction s with
  | nil => simp [jsonEscBody, readStr_quote]
  | cons c cs ih =>
    simp only [jsonEscBody, jsonEscChar]
    split
    · rename_i h; subst h
      simp [readStr_esc2 '"' '"' _ (by decide) (by decide), ih, consFst]
    · split
      · rename_i h1 h; subst h
        simp [readStr_esc2 '\\' '\\' _ (by decide) (by decide), ih, consFst]
      · split
        · rename_i h1 h2 h
          have hr := hexRound ⟨c.toNat, h⟩
          simp only at hr
          simp [readStr_u _ _ _ _ _ _ hr (by omega) (by omega), ih, consFst, Char.ofNat_toNat]
        · rename_i h1 h2 h
          simp [readStr_raw c _ h1 h2 h, ih, consFst]

theorem identChar_raw {c : Char} (h : isIdentChar c = true) : c ≠ '"' ∧ c ≠ '\\' ∧ ¬ c.toNat < 32 := by
  have key : ∀ x : Char, isIdentChar x = false → c ≠ x := by
    intro x hx e; subst e; simp [hx] at h
  refine ⟨key _ (by decide), key _ (by decide), ?_⟩
  simp [isIdentChar] at h
  omega

/-- an identifier between quotes reads as itself -/
theorem readStr_ident (k rest : List Char) (h : ∀ c ∈ k, isIdentChar c = true) :
    readStr (k ++ '"' :: rest) = some (k, rest) := by
  induction k with
  | nil => simp [readStr_quote]
  | cons c cs ih =>
    obtain ⟨h1, h2, h3⟩ := identChar_raw (h c (by simp))
    simp [readStr_raw c _ h1 h2 h3, ih (fun c hc => h c (by simp [hc])), consFst]

theorem readValue_str (fuel : Nat) (s rest : List Char) :
    readValue (fuel + 1) (jsonQuote s ++ rest) = some (.str s, rest) := by
  simp [readValue, jsonQuote, skipWs, isWs, readStr_esc]

theorem readValue_identStr (fuel : Nat) (k rest : List Char) (h : ∀ c ∈ k, isIdentChar c = true) :
    readValue (fuel + 1) ('"' :: (k ++ '"' :: rest)) = some (.str k, rest) := by
  simp [readValue, skipWs, isWs, readStr_ident k rest h]

/-! ### the main induction -/

theorem lookupStruct_names {Δ : Defs} {n : String} {decls : List (String × FTy)} (hΔ : defsOk Δ = true)
    (h : lookupStruct Δ n = some decls) : ∀ d ∈ decls, isIdent d.1 = true := by
  unfold lookupStruct at h
  cases hf : Δ.find? (fun d => d.name == n) with
  | none => simp [hf] at h
  | some d =>
    have hm := List.mem_of_find?_eq_some hf
    have hn : namesOk d = true := by
      simp only [defsOk, List.all_eq_true] at hΔ
      exact hΔ d hm
    cases d with
    | struct m g fs =>
      simp [hf] at h; subst h
      simp only [namesOk, Bool.and_eq_true, List.all_eq_true] at hn
      exact hn.2
    | enum m g vs => simp [hf] at h

theorem lookupVariant_name {Δ : Defs} {n : String} {idx : Nat} {vn : String} {tys : List FTy} (hΔ : defsOk Δ = true)
    (h : lookupVariant Δ n idx = some (vn, tys)) : isIdent vn = true := by
  unfold lookupVariant at h
  cases hf : Δ.find? (fun d => d.name == n) with
  | none => simp [hf] at h
  | some d =>
    have hm := List.mem_of_find?_eq_some hf
    have hn : namesOk d = true := by
      simp only [defsOk, List.all_eq_true] at hΔ
      exact hΔ d hm
    cases d with
    | struct m g fs => simp [hf] at h
    | enum m g vs =>
      simp [hf] at h
      simp only [namesOk, Bool.and_eq_true, List.all_eq_true] at hn
      have := List.mem_of_getElem? h
      exact hn.2 _ this

theorem isIdent_chars {s : String} (h : isIdent s = true) : ∀ c ∈ s.toList, isIdentChar c = true := by
  simpa [isIdent, List.all_eq_true] using h


theorem hasTys_length {Δ : Defs} : ∀ {ts : List FTy} {vs : List Val}, hasTys Δ ts vs = true → ts.length = vs.length
  | [], [], _ => rfl
  | [], _ :: _, h => by simp [hasTys] at h
  | _ :: _, [], h => by simp [hasTys] at h
  | t :: ts, v :: vs, h => by
    simp only [hasTys, Bool.and_eq_true] at h
    simp [hasTys_length h.2]

theorem hasTy_struct_inv {Δ : Defs} {t : FTy} {n : String} {fs : List Val} (h : hasTy Δ t (.struct n fs) = true) :
    ∃ decls, lookupStruct Δ n = some decls ∧ hasTys Δ (decls.map (·.2)) fs = true := by
  cases t with
  | named m =>
    simp only [hasTy, Bool.and_eq_true] at h
    cases hl : lookupStruct Δ n with
    | none => simp [hl] at h
    | some decls => exact ⟨decls, rfl, by simpa [hl] using h.2⟩
  | _ => simp [hasTy] at h

theorem hasTy_enum_inv {Δ : Defs} {t : FTy} {n : String} {idx : Nat} {args : List Val} (h : hasTy Δ t (.enum n idx args) = true) :
    ∃ vn tys, lookupVariant Δ n idx = some (vn, tys) ∧ hasTys Δ tys args = true := by
  cases t with
  | named m =>
    simp only [hasTy, Bool.and_eq_true] at h
    cases hl : lookupVariant Δ n idx with
    | none => simp [hl] at h
    | some p => exact ⟨p.1, p.2, rfl, by simpa [hl] using h.2⟩
  | _ => simp [hasTy] at h

/-- first character of the text of a well-typed value -/
theorem toJson_head {Δ : Defs} {t : FTy} {v : Val} (hv : hasTy Δ t v = true) (hf : floatsOk v = true) :
    ∃ c r, toJson Δ v = c :: r ∧ isWs c = false ∧ c ≠ ']' ∧ c ≠ '}' := by
  cases v with
  | unit => exact ⟨'n', "ull".toList, by simp [toJson], by decide, by decide, by decide⟩
  | bool b => cases b
              · exact ⟨'f', "alse".toList, by simp [toJson], by decide, by decide, by decide⟩
              · exact ⟨'t', "rue".toList, by simp [toJson], by decide, by decide, by decide⟩
  | int i =>
    obtain ⟨hvn, hc⟩ := showInt_numTok i
    cases e : showInt i with
    | nil => exact absurd e (validNumber_ne_nil hvn)
    | cons c r =>
      obtain ⟨h1, _, _, _, _, _, _, h8, h9⟩ := numChar_head (hc c (by simp [e]))
      exact ⟨c, r, by simp [toJson, e], h1, h8, h9⟩
  | float tx =>
    simp only [floatsOk, Bool.and_eq_true, List.all_eq_true] at hf
    cases tx with
    | nil => exact absurd rfl (validNumber_ne_nil hf.1)
    | cons c r =>
      obtain ⟨h1, _, _, _, _, _, _, h8, h9⟩ := numChar_head (hf.2 c (by simp))
      exact ⟨c, r, by simp [toJson], h1, h8, h9⟩
  | str s => exact ⟨'"', jsonEscBody s ++ ['"'], by simp [toJson, jsonQuote], by decide, by decide, by decide⟩
  | struct n fs =>
    obtain ⟨decls, hl, _⟩ := hasTy_struct_inv hv
    by_cases he : decls.isEmpty = true
    · exact ⟨'{', ['}'], by simp [toJson, hl, he], by decide, by decide, by decide⟩
    · exact ⟨'{', _, by simp [toJson, hl, he]; rfl, by decide, by decide, by decide⟩
  | enum n idx args =>
    obtain ⟨vn, tys, hl, _⟩ := hasTy_enum_inv hv
    by_cases he : tys.isEmpty = true
    · exact ⟨'{', _, by simp [toJson, hl, he]; rfl, by decide, by decide, by decide⟩
    · exact ⟨'{', _, by simp [toJson, hl, he]; rfl, by decide, by decide, by decide⟩


/-- motive for a value -/
def ReadsV (Δ : Defs) (v : Val) : Prop :=
  ∀ (t : FTy) (fuel : Nat) (rest : List Char), hasTy Δ t v = true → floatsOk v = true →
    (toJson Δ v).length ≤ fuel → NumEnd rest →
    readValue fuel (toJson Δ v ++ rest) = some (encode Δ v, rest)

def ReadsMembers (Δ : Defs) (vs : List Val) : Prop :=
  ∀ (decls : List (String × FTy)) (fuel : Nat) (rest : List Char), vs ≠ [] →
    hasTys Δ (decls.map (·.2)) vs = true → floatsOkL vs = true → (∀ d ∈ decls, isIdent d.1 = true) →
    (membersJson Δ decls vs true).length + 1 ≤ fuel →
    readMembers fuel (membersJson Δ decls vs true ++ '}' :: rest) = some (encodeMembers Δ decls vs, rest)

def ReadsItems (Δ : Defs) (vs : List Val) : Prop :=
  ∀ (tys : List FTy) (fuel : Nat) (rest : List Char), vs ≠ [] →
    hasTys Δ tys vs = true → floatsOkL vs = true →
    (itemsJson Δ vs true).length + 1 ≤ fuel →
    readItems fuel (itemsJson Δ vs true ++ ']' :: rest) = some (encodeItems Δ vs, rest)

theorem membersJson_false {Δ : Defs} (d : String × FTy) (decls : List (String × FTy)) (v : Val) (vs : List Val) :
    membersJson Δ (d :: decls) (v :: vs) false = ',' :: membersJson Δ (d :: decls) (v :: vs) true := by
  simp [membersJson]

theorem itemsJson_false {Δ : Defs} (v : Val) (vs : List Val) :
    itemsJson Δ (v :: vs) false = ',' :: itemsJson Δ (v :: vs) true := by
  simp [itemsJson]

theorem reads_cons_members {Δ : Defs} (v : Val) (vs : List Val) (hv : ReadsV Δ v) (hvs : ReadsMembers Δ vs) :
    ReadsMembers Δ (v :: vs) := by
  intro decls fuel rest _ hty hfl hid hlen
  cases decls with
  | nil => simp [hasTys] at hty
  | cons d decls' =>
    obtain ⟨f, t⟩ := d
    simp only [List.map_cons, hasTys, Bool.and_eq_true] at hty
    simp only [floatsOkL, Bool.and_eq_true] at hfl
    have hf := isIdent_chars (hid (f, t) (by simp))
    cases fuel with
    | zero => omega
    | succ k =>
      simp only [membersJson, if_true, List.nil_append, List.cons_append, List.append_assoc, List.length_cons,
        List.length_append] at hlen ⊢
      -- the rest after this member's value
      cases vs with
      | nil =>
        have hd : decls' = [] := by
          have := hasTys_length hty.2; simpa using this
        subst hd
        have hread := hv t k ('}' :: rest) hty.1 hfl.1 (by simp [membersJson] at hlen; omega) (numEnd_cons _ (by decide))
        have hk := readStr_ident f.toList (':' :: (toJson Δ v ++ '}' :: rest)) hf
        simp only [readMembers, skipWs, isWs]
        simp [membersJson, hk, hread, skipWs, isWs, encodeMembers]
      | cons v2 vs2 =>
        cases decls' with
        | nil => simp [hasTys] at hty
        | cons d2 decls2 =>
          have hrec := hvs (d2 :: decls2) k rest (by simp) hty.2 hfl.2 (fun d hd => hid d (by simp [hd]))
          rw [membersJson_false] at hlen ⊢
          have hread := hv t k (',' :: (membersJson Δ (d2 :: decls2) (v2 :: vs2) true ++ '}' :: rest)) hty.1 hfl.1
            (by simp at hlen; omega) (numEnd_cons _ (by decide))
          have hrec' := hrec (by simp at hlen; omega)
          have hk := readStr_ident f.toList (':' :: (toJson Δ v ++ ',' :: (membersJson Δ (d2 :: decls2) (v2 :: vs2) true ++ '}' :: rest))) hf
          simp only [readMembers, skipWs, isWs]
          simp [hk, hread, skipWs, isWs, hrec', encodeMembers]


theorem reads_cons_items {Δ : Defs} (v : Val) (vs : List Val) (hv : ReadsV Δ v) (hvs : ReadsItems Δ vs) :
    ReadsItems Δ (v :: vs) := by
  intro tys fuel rest _ hty hfl hlen
  cases tys with
  | nil => simp [hasTys] at hty
  | cons t tys' =>
    simp only [hasTys, Bool.and_eq_true] at hty
    simp only [floatsOkL, Bool.and_eq_true] at hfl
    cases fuel with
    | zero => omega
    | succ k =>
      simp only [itemsJson, if_true, List.nil_append, List.append_assoc, List.length_append] at hlen ⊢
      cases vs with
      | nil =>
        have hread := hv t k (']' :: rest) hty.1 hfl.1 (by simp [itemsJson] at hlen; omega) (numEnd_cons _ (by decide))
        simp only [readItems]
        simp [itemsJson, hread, skipWs, isWs, encodeItems]
      | cons v2 vs2 =>
        cases tys' with
        | nil => simp [hasTys] at hty
        | cons t2 tys2 =>
          have hrec := hvs (t2 :: tys2) k rest (by simp) hty.2 hfl.2
          rw [itemsJson_false] at hlen ⊢
          have hread := hv t k (',' :: (itemsJson Δ (v2 :: vs2) true ++ ']' :: rest)) hty.1 hfl.1
            (by simp at hlen; omega) (numEnd_cons _ (by decide))
          have hrec' := hrec (by simp at hlen; omega)
          simp only [readItems]
          simp [hread, skipWs, isWs, hrec', encodeItems]

theorem reads_leaf_unit {Δ : Defs} : ReadsV Δ .unit := by
  intro t fuel rest _ _ hlen _
  cases fuel with
  | zero => simp [toJson] at hlen
  | succ k => simp only [toJson, encode]; exact readValue_null k rest

theorem reads_leaf_bool {Δ : Defs} (b : Bool) : ReadsV Δ (.bool b) := by
  intro t fuel rest _ _ hlen _
  cases fuel with
  | zero => cases b <;> simp [toJson] at hlen
  | succ k =>
    cases b
    · simp only [toJson, encode]; exact readValue_false k rest
    · simp only [toJson, encode]; exact readValue_true k rest

theorem reads_leaf_int {Δ : Defs} (i : Int) : ReadsV Δ (.int i) := by
  intro t fuel rest _ _ hlen hr
  obtain ⟨hvn, hc⟩ := showInt_numTok i
  cases fuel with
  | zero =>
    have := validNumber_ne_nil hvn
    simp only [toJson] at hlen
    exact absurd (List.length_eq_zero_iff.mp (by omega)) this
  | succ k => simp only [toJson, encode]; exact readValue_num k hvn hc hr

theorem reads_leaf_float {Δ : Defs} (tx : List Char) : ReadsV Δ (.float tx) := by
  intro t fuel rest _ hf hlen hr
  simp only [floatsOk, Bool.and_eq_true, List.all_eq_true] at hf
  cases fuel with
  | zero =>
    have := validNumber_ne_nil hf.1
    simp only [toJson] at hlen
    exact absurd (List.length_eq_zero_iff.mp (by omega)) this
  | succ k => simp only [toJson, encode]; exact readValue_num k hf.1 hf.2 hr

theorem reads_leaf_str {Δ : Defs} (s : List Char) : ReadsV Δ (.str s) := by
  intro t fuel rest _ _ hlen _
  cases fuel with
  | zero => simp [toJson, jsonQuote] at hlen
  | succ k => simp only [toJson, encode]; exact readValue_str k s rest


theorem hasTys_nil_left {Δ : Defs} {vs : List Val} (h : hasTys Δ [] vs = true) : vs = [] := by
  cases vs with
  | nil => rfl
  | cons v vs => simp [hasTys] at h

theorem reads_struct {Δ : Defs} (hΔ : defsOk Δ = true) (n : String) (fs : List Val) (ih : ReadsMembers Δ fs) :
    ReadsV Δ (.struct n fs) := by
  intro t fuel rest hty hfl hlen _
  obtain ⟨decls, hl, htys⟩ := hasTy_struct_inv hty
  simp only [floatsOk] at hfl
  have hid := lookupStruct_names hΔ hl
  cases decls with
  | nil =>
    have hfs := hasTys_nil_left (by simpa using htys); subst hfs
    simp only [toJson, hl, encode, List.isEmpty_nil, if_true, encodeMembers] at hlen ⊢
    cases fuel with
    | zero => simp at hlen
    | succ k => simp [readValue, skipWs, isWs]
  | cons d decls' =>
    cases fs with
    | nil => simp [hasTys] at htys
    | cons v vs =>
      simp only [toJson, hl, encode, List.isEmpty_cons, Bool.false_eq_true, if_false] at hlen ⊢
      cases fuel with
      | zero => simp at hlen
      | succ k =>
        have hrec := ih (d :: decls') k rest (by simp) htys hfl hid (by simp at hlen; omega)
        obtain ⟨f, tf⟩ := d
        -- the members start with the quote of the first key
        have hm : ∃ r, membersJson Δ ((f, tf) :: decls') (v :: vs) true = '"' :: r := ⟨_, by simp [membersJson]; rfl⟩
        obtain ⟨r, hm⟩ := hm
        rw [hm] at hrec ⊢
        simp only [List.cons_append, List.append_assoc] at hrec ⊢
        simp [readValue, skipWs, isWs, hrec]


theorem tag_ident : ∀ c ∈ "tag".toList, isIdentChar c = true := by decide
theorem fields_ident : ∀ c ∈ "fields".toList, isIdentChar c = true := by decide

/-! reader steps -/
theorem readMembers_last {k : Nat} {r0 r2 r : List Char} {key : List Char} {v : Json}
    (hk : readStr r0 = some (key, ':' :: r2)) (hv : readValue k r2 = some (v, '}' :: r)) :
    readMembers (k + 1) ('"' :: r0) = some ([.mk key v], r) := by
  simp [readMembers, skipWs, isWs, hk, hv]

theorem readMembers_more {k : Nat} {r0 r2 r rest' : List Char} {key : List Char} {v : Json} {ms : List Member}
    (hk : readStr r0 = some (key, ':' :: r2)) (hv : readValue k r2 = some (v, ',' :: r))
    (hm : readMembers k r = some (ms, rest')) :
    readMembers (k + 1) ('"' :: r0) = some (.mk key v :: ms, rest') := by
  simp [readMembers, skipWs, isWs, hk, hv, hm]

theorem readValue_obj {k : Nat} {r2 rest : List Char} {ms : List Member}
    (hm : readMembers k ('"' :: r2) = some (ms, rest)) :
    readValue (k + 1) ('{' :: '"' :: r2) = some (.obj ms, rest) := by
  simp [readValue, skipWs, isWs, hm]

theorem readValue_arr {k : Nat} {c2 : Char} {r2 rest : List Char} {vs : List Json}
    (hws : isWs c2 = false) (hc : c2 ≠ ']') (hm : readItems k (c2 :: r2) = some (vs, rest)) :
    readValue (k + 1) ('[' :: c2 :: r2) = some (.arr vs, rest) := by
  simp [readValue, skipWs_cons hws, skipWs_cons (show isWs '[' = false by decide), hc, hm]

theorem enum_text_nil (vn : List Char) :
    "{\"tag\":\"".toList ++ vn ++ "\"}".toList = '{' :: '"' :: ("tag".toList ++ '"' :: ':' :: '"' :: (vn ++ ['"', '}'])) := by
  simp

theorem enum_text_cons (vn items : List Char) :
    "{\"tag\":\"".toList ++ vn ++ "\",\"fields\":[".toList ++ (items ++ "]}".toList) =
      '{' :: '"' :: ("tag".toList ++ '"' :: ':' :: '"' :: (vn ++ '"' :: ',' :: '"' ::
        ("fields".toList ++ '"' :: ':' :: '[' :: (items ++ [']', '}'])))) := by
  simp

theorem reads_enum {Δ : Defs} (hΔ : defsOk Δ = true) (n : String) (idx : Nat) (args : List Val) (ih : ReadsItems Δ args) :
    ReadsV Δ (.enum n idx args) := by
  intro t fuel rest hty hfl hlen _
  obtain ⟨vn, tys, hl, htys⟩ := hasTy_enum_inv hty
  simp only [floatsOk] at hfl
  have hvn := isIdent_chars (lookupVariant_name hΔ hl)
  cases tys with
  | nil =>
    have hargs := hasTys_nil_left htys; subst hargs
    simp only [toJson, hl, encode, List.isEmpty_nil, if_true, enum_text_nil] at hlen ⊢
    match fuel, hlen with
    | k + 3, _ =>
      have h1 := readStr_ident "tag".toList (':' :: '"' :: (vn.toList ++ '"' :: '}' :: rest)) tag_ident
      have h2 := readValue_identStr k vn.toList ('}' :: rest) hvn
      have h3 := readMembers_last h1 h2
      have h4 := readValue_obj h3
      simpa using h4
    | 0, h | 1, h | 2, h => simp at h
  | cons ty tys' =>
    cases args with
    | nil => simp [hasTys] at htys
    | cons v vs =>
      simp only [toJson, hl, encode, List.isEmpty_cons, Bool.false_eq_true, if_false, enum_text_cons] at hlen ⊢
      match fuel, hlen with
      | k + 4, hlen =>
        have hrec := ih (ty :: tys') k ('}' :: rest) (by simp) htys hfl (by simp at hlen; omega)
        -- first character of the items
        simp only [hasTys, Bool.and_eq_true] at htys
        simp only [floatsOkL, Bool.and_eq_true] at hfl
        obtain ⟨c, r, hc, hws, hnb, _⟩ := toJson_head htys.1 hfl.1
        have hitems : ∃ r', itemsJson Δ (v :: vs) true = c :: r' := ⟨_, by simp [itemsJson, hc]; rfl⟩
        obtain ⟨r', hitems⟩ := hitems
        rw [hitems] at hrec ⊢
        have h5 := readValue_arr hws hnb hrec
        have h4 := readStr_ident "fields".toList (':' :: '[' :: c :: (r' ++ ']' :: '}' :: rest)) fields_ident
        have h3 := readMembers_last (k := k + 1) h4 (by simpa using h5)
        have h2 := readValue_identStr (k + 1) vn.toList (',' :: '"' :: ("fields".toList ++ '"' :: ':' :: '[' :: c :: (r' ++ ']' :: '}' :: rest))) hvn
        have h1 := readStr_ident "tag".toList (':' :: '"' :: (vn.toList ++ '"' :: ',' :: '"' :: ("fields".toList ++ '"' :: ':' :: '[' :: c :: (r' ++ ']' :: '}' :: rest)))) tag_ident
        have h0 := readMembers_more (k := k + 2) h1 h2 h3
        have := readValue_obj h0
        simpa using this
      | 0, h | 1, h | 2, h | 3, h => simp at h


theorem reads_all {Δ : Defs} (hΔ : defsOk Δ = true) (v : Val) : ReadsV Δ v := by
  apply Val.rec (motive_1 := ReadsV Δ) (motive_2 := fun vs => ReadsMembers Δ vs ∧ ReadsItems Δ vs)
  · exact reads_leaf_unit
  · exact reads_leaf_bool
  · exact reads_leaf_int
  · exact reads_leaf_float
  · exact reads_leaf_str
  · intro n fs ih; exact reads_struct hΔ n fs ih.1
  · intro n idx args ih; exact reads_enum hΔ n idx args ih.2
  · exact ⟨fun _ _ _ h => absurd rfl h, fun _ _ _ h => absurd rfl h⟩
  · intro v vs hv hvs; exact ⟨reads_cons_members v vs hv hvs.1, reads_cons_items v vs hv hvs.2⟩

theorem jsonRead_toJson {Δ : Defs} (hΔ : defsOk Δ = true) {t : FTy} {v : Val} (hty : hasTy Δ t v = true)
    (hfl : floatsOk v = true) : jsonRead (toJson Δ v) = some (encode Δ v) := by
  have := reads_all hΔ v t ((toJson Δ v).length + 1) [] hty hfl (by omega) numEnd_nil
  simp only [List.append_nil] at this
  simp [jsonRead, this, skipWs]

end Goml.Derive
