import GomlVerif.Lemmas.C18Json
/-! Lemmas for C18: the generated `to_string` is the `intercalate` rendering. -/
namespace Goml.Derive

theorem itemsString_false {Δ : Defs} (v : Val) (vs : List Val) :
    itemsString Δ (v :: vs) false = ", ".toList ++ itemsString Δ (v :: vs) true := by
  simp [itemsString]

theorem toString_render {Δ : Defs} (v : Val) : ∀ t, hasTy Δ t v = true → toString Δ v = render Δ v := by
  apply Val.rec
    (motive_1 := fun v => ∀ t, hasTy Δ t v = true → toString Δ v = render Δ v)
    (motive_2 := fun vs => ∀ ts, hasTys Δ ts vs = true →
      (∀ decls : List (String × FTy), decls.map (·.2) = ts →
        membersString Δ decls vs = intercalate ", ".toList (renderMembers Δ decls vs)) ∧
      itemsString Δ vs true = intercalate ", ".toList (renderItems Δ vs))
  · intro t _; simp [toString, render]
  · intro b t _; simp [toString, render]
  · intro i t _; simp [toString, render]
  · intro tx t _; simp [toString, render]
  · intro s t _; simp [toString, render]
  · intro n fs ih t hty
    obtain ⟨decls, hl, htys⟩ := hasTy_struct_inv hty
    simp [toString, render, hl, (ih _ htys).1 decls rfl]
  · intro n idx args ih t hty
    obtain ⟨vn, tys, hl, htys⟩ := hasTy_enum_inv hty
    simp [toString, render, hl, (ih _ htys).2]
  · intro ts h
    refine ⟨?_, by simp [itemsString, renderItems, intercalate]⟩
    intro decls _
    cases decls <;> simp [membersString, renderMembers, intercalate]
  · intro v vs ihv ihvs ts h
    cases ts with
    | nil => simp [hasTys] at h
    | cons t ts' =>
      simp only [hasTys, Bool.and_eq_true] at h
      have hv := ihv t h.1
      obtain ⟨hm, hi⟩ := ihvs ts' h.2
      constructor
      · intro decls hd
        cases decls with
        | nil => simp at hd
        | cons d decls' =>
          obtain ⟨f, tf⟩ := d
          simp only [List.map_cons, List.cons.injEq] at hd
          have hrec := hm decls' hd.2
          cases vs with
          | nil =>
            have : decls' = [] := by
              have := hasTys_length h.2; rw [← hd.2] at this; simpa using this
            subst this
            simp [membersString, renderMembers, intercalate, hv]
          | cons v2 vs2 =>
            cases decls' with
            | nil => rw [← hd.2] at h; simp [hasTys] at h
            | cons d2 decls2 =>
              obtain ⟨f2, t2⟩ := d2
              have e1 : membersString Δ ((f, tf) :: (f2, t2) :: decls2) (v :: v2 :: vs2) =
                  f.toList ++ ": ".toList ++ toString Δ v ++ ", ".toList ++ membersString Δ ((f2, t2) :: decls2) (v2 :: vs2) := by
                conv => lhs; rw [membersString]
                simp
              have e3 : renderMembers Δ ((f2, t2) :: decls2) (v2 :: vs2) =
                  (f2.toList ++ ": ".toList ++ render Δ v2) :: renderMembers Δ decls2 vs2 := by simp [renderMembers]
              have e2 : renderMembers Δ ((f, tf) :: (f2, t2) :: decls2) (v :: v2 :: vs2) =
                  (f.toList ++ ": ".toList ++ render Δ v) :: (f2.toList ++ ": ".toList ++ render Δ v2) :: renderMembers Δ decls2 vs2 := by
                simp [renderMembers]
              rw [e1, e2, intercalate, ← e3, ← hrec, hv]
      · cases vs with
        | nil => simp [itemsString, renderItems, intercalate, hv]
        | cons v2 vs2 =>
          rw [itemsString, itemsString_false]
          simp only [renderItems, intercalate] at hi ⊢
          simp [hi, hv]

end Goml.Derive
