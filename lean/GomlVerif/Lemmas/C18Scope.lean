import GomlVerif.Lemmas.C18Json
/-! Lemmas for C18: the generated `to_json` / `to_string` bodies are well-scoped. -/
namespace Goml.Derive

/-! ### scoping of the generated bodies -/

/-- every function the generated bodies call by name -/
def helperNames : List String :=
  (Gen.Derive.jsonArms.filter (fun r => r.2.1 == "fn")).map (·.2.2) ++ Gen.Derive.primToString.map (·.2)

/-- no helper is spelled like a binder or like the parameter (checked on the generated tables) -/
theorem helpers_safe : ∀ h ∈ helperNames,
    (Gen.Derive.binderPrefix.toList.isPrefixOf h.toList) = false ∧ h ≠ Gen.Derive.selfParam := by decide

theorem digitChar_val : ∀ k : Fin 10, (digitChar k).toNat - 48 = k.val := by decide

theorem digitsVal_natDigits (n : Nat) : digitsVal (natDigits n) = n := by
  induction n using Nat.strongRecOn with
  | _ n ih =>
    unfold natDigits
    split
    · rename_i h
      simp [digitsVal, digitChar_val ⟨n, h⟩]
    · rename_i h
      have := ih (n / 10) (by omega)
      simp only [digitsVal] at this
      simp only [digitsVal, List.foldl_append, List.foldl_cons, List.foldl_nil, this,
        digitChar_val ⟨n % 10, by omega⟩]
      omega

theorem natDigits_inj {i j : Nat} (h : natDigits i = natDigits j) : i = j := by
  have := congrArg digitsVal h
  simpa [digitsVal_natDigits] using this

theorem fieldBinder_toList (i : Nat) : (fieldBinder i).toList = Gen.Derive.binderPrefix.toList ++ natDigits i := by
  simp [fieldBinder]

theorem fieldBinder_inj {i j : Nat} (h : fieldBinder i = fieldBinder j) : i = j := by
  have := congrArg String.toList h
  rw [fieldBinder_toList, fieldBinder_toList] at this
  exact natDigits_inj (List.append_cancel_left this)

theorem fieldBinder_not_helper (i : Nat) {h : String} (hh : h ∈ helperNames) : fieldBinder i ≠ h := by
  intro e
  have := (helpers_safe h hh).1
  rw [← e, fieldBinder_toList] at this
  have hp : (Gen.Derive.binderPrefix.toList.isPrefixOf (Gen.Derive.binderPrefix.toList ++ natDigits i)) = true := by
    rw [List.isPrefixOf_iff_prefix]; exact List.prefix_append _ _
  rw [hp] at this; cases this


def HelperFree (L : List String) : Prop := ∀ h ∈ helperNames, h ∉ L

theorem callToJson_scoped {L : List String} {x : String} (t : FTy) (hx : x ∈ L) (hL : HelperFree L) :
    (callToJson (.var x) t).scoped L = true := by
  unfold callToJson
  cases hf : Gen.Derive.jsonArms.find? (fun r => r.1 == variantName t) with
  | some r =>
    obtain ⟨a, kind, payload⟩ := r
    by_cases hk : (kind == "fn") = true
    · have hm : payload ∈ helperNames := by
        have := List.mem_of_find?_eq_some hf
        simp only [helperNames, List.mem_append, List.mem_map, List.mem_filter]
        exact Or.inl ⟨(a, kind, payload), ⟨this, hk⟩, rfl⟩
      simp [hk, GExpr.scoped, hL payload hm, hx]
    · simp [hk, GExpr.scoped]
  | none =>
    simp only [primHelper, lookup2]
    cases hp : Gen.Derive.primToString.find? (fun r => r.1 == variantName t) with
    | some r =>
      have hm : r.2 ∈ helperNames := by
        have := List.mem_of_find?_eq_some hp
        simp only [helperNames, List.mem_append, List.mem_map]
        exact Or.inr ⟨r, this, rfl⟩
      simp [GExpr.scoped, hL r.2 hm, hx]
    | none => simp [GExpr.scoped, hx]

theorem callToString_scoped {L : List String} {x : String} (t : FTy) (hx : x ∈ L) (hL : HelperFree L) :
    (callToString (.var x) t).scoped L = true := by
  unfold callToString
  split
  · simp [GExpr.scoped, hx]
  · simp only [primHelper, lookup2]
    cases hp : Gen.Derive.primToString.find? (fun r => r.1 == variantName t) with
    | some r =>
      have hm : r.2 ∈ helperNames := by
        have := List.mem_of_find?_eq_some hp
        simp only [helperNames, List.mem_append, List.mem_map]
        exact Or.inr ⟨r, this, rfl⟩
      simp [GExpr.scoped, hL r.2 hm, hx]
    | none => simp [GExpr.scoped, hx]

theorem foldl_concat_scoped (L : List String) : ∀ (ps : List GExpr) (p : GExpr),
    (ps.foldl GExpr.concat p).scoped L = (p.scoped L && ps.all (·.scoped L))
  | [], p => by simp
  | q :: qs, p => by
    simp only [List.foldl_cons, foldl_concat_scoped L qs, GExpr.scoped, List.all_cons, Bool.and_assoc]

theorem concatParts_scoped (L : List String) (ps : List GExpr) (h : ps.all (·.scoped L) = true) :
    (concatParts ps).scoped L = true := by
  cases ps with
  | nil => simp [concatParts, GExpr.scoped]
  | cons p ps =>
    simp only [List.all_cons, Bool.and_eq_true] at h
    simp [concatParts, foldl_concat_scoped, h.1, h.2]

/-- the locals of an arm contain the binders `idx … idx+n-1` -/
def HasBinders (L : List String) (idx n : Nat) : Prop := ∀ j, idx ≤ j → j < idx + n → fieldBinder j ∈ L

theorem jsonStructParts_scoped {L : List String} (hL : HelperFree L) : ∀ (fs : List (String × FTy)) (idx : Nat),
    HasBinders L idx fs.length → (jsonStructParts bindFresh idx fs).all (·.scoped L) = true
  | [], _, _ => by simp [jsonStructParts]
  | (f, t) :: rest, idx, hb => by
    have h1 := callToJson_scoped t (hb idx (Nat.le_refl _) (by simp)) hL
    have h2 := jsonStructParts_scoped hL rest (idx + 1) (fun j h1 h2 => hb j (by omega) (by simp at h2 ⊢; omega))
    simp only [jsonStructParts, bindFresh, List.all_append, List.all_cons, List.all_nil, Bool.and_true, h1, h2, GExpr.scoped]
    split <;> simp [GExpr.scoped]

theorem jsonEnumParts_scoped {L : List String} (hL : HelperFree L) : ∀ (ts : List FTy) (idx : Nat),
    HasBinders L idx ts.length → (jsonEnumParts idx ts).all (·.scoped L) = true
  | [], _, _ => by simp [jsonEnumParts]
  | t :: rest, idx, hb => by
    have h1 := callToJson_scoped t (hb idx (Nat.le_refl _) (by simp)) hL
    have h2 := jsonEnumParts_scoped hL rest (idx + 1) (fun j h1 h2 => hb j (by omega) (by simp at h2 ⊢; omega))
    simp only [jsonEnumParts, List.all_append, List.all_cons, List.all_nil, Bool.and_true, h1, h2]
    split <;> simp [GExpr.scoped]

theorem stringStructParts_scoped {L : List String} (hL : HelperFree L) : ∀ (fs : List (String × FTy)) (idx : Nat),
    HasBinders L idx fs.length → (stringStructParts bindFresh idx fs).all (·.scoped L) = true
  | [], _, _ => by simp [stringStructParts]
  | (f, t) :: rest, idx, hb => by
    have h1 := callToString_scoped t (hb idx (Nat.le_refl _) (by simp)) hL
    have h2 := stringStructParts_scoped hL rest (idx + 1) (fun j h1 h2 => hb j (by omega) (by simp at h2 ⊢; omega))
    simp only [stringStructParts, bindFresh, List.all_append, List.all_cons, List.all_nil, Bool.and_true, h1, h2, GExpr.scoped]
    split <;> simp [GExpr.scoped]

theorem stringEnumParts_scoped {L : List String} (hL : HelperFree L) : ∀ (ts : List FTy) (idx : Nat),
    HasBinders L idx ts.length → (stringEnumParts idx ts).all (·.scoped L) = true
  | [], _, _ => by simp [stringEnumParts]
  | t :: rest, idx, hb => by
    have h1 := callToString_scoped t (hb idx (Nat.le_refl _) (by simp)) hL
    have h2 := stringEnumParts_scoped hL rest (idx + 1) (fun j h1 h2 => hb j (by omega) (by simp at h2 ⊢; omega))
    simp only [stringEnumParts, List.all_append, List.all_cons, List.all_nil, Bool.and_true, h1, h2]
    split <;> simp [GExpr.scoped]


theorem binders_fresh : ∀ (fs : List (String × FTy)) (idx : Nat),
    binders bindFresh idx fs = (List.range' idx fs.length).map fieldBinder
  | [], _ => by simp [binders]
  | (f, t) :: rest, idx => by simp [binders, bindFresh, binders_fresh rest (idx + 1), List.range'_succ]

theorem enumBinders_eq : ∀ (ts : List FTy) (idx : Nat),
    enumBinders idx ts = (List.range' idx ts.length).map fieldBinder
  | [], _ => by simp [enumBinders]
  | t :: rest, idx => by simp [enumBinders, enumBinders_eq rest (idx + 1), List.range'_succ]

theorem allDistinct_binders : ∀ (n idx : Nat), allDistinct ((List.range' idx n).map fieldBinder) = true
  | 0, _ => by simp [allDistinct]
  | n + 1, idx => by
    simp only [List.range'_succ, List.map_cons, allDistinct, Bool.and_eq_true, Bool.not_eq_true']
    refine ⟨?_, allDistinct_binders n (idx + 1)⟩
    rw [List.contains_eq_mem, decide_eq_false_iff_not]
    intro hm
    simp only [List.mem_map, List.mem_range'_1] at hm
    obtain ⟨j, hj, e⟩ := hm
    have := fieldBinder_inj e
    omega

theorem hasBinders_range (n : Nat) (tail : List String) :
    HasBinders ((List.range' 0 n).map fieldBinder ++ tail) 0 n := by
  intro j _ h2
  simp only [List.mem_append, List.mem_map, List.mem_range'_1]
  exact Or.inl ⟨j, ⟨by omega, by omega⟩, rfl⟩

theorem helperFree_locals (n : Nat) : HelperFree ((List.range' 0 n).map fieldBinder ++ [Gen.Derive.selfParam]) := by
  intro h hh hm
  simp only [List.mem_append, List.mem_map, List.mem_singleton] at hm
  rcases hm with ⟨j, _, e⟩ | e
  · exact fieldBinder_not_helper j hh e
  · exact (helpers_safe h hh).2 e

theorem helperFree_self : HelperFree ([] ++ [Gen.Derive.selfParam]) := by
  intro h hh hm
  simp only [List.nil_append, List.mem_singleton] at hm
  exact (helpers_safe h hh).2 hm

theorem genJson_scoped (d : Def) : (genJson bindFresh d).scoped = true := by
  cases d with
  | struct n g fs =>
    simp only [genJson, GMethod.scoped, List.all_cons, List.all_nil, Bool.and_true, Bool.and_eq_true]
    by_cases he : fs.isEmpty = true
    · simp [he, allDistinct, GExpr.scoped]
    · simp only [he, Bool.false_eq_true, if_false, binders_fresh]
      refine ⟨allDistinct_binders _ _, concatParts_scoped _ _ ?_⟩
      have := jsonStructParts_scoped (helperFree_locals fs.length) fs 0 (hasBinders_range _ _)
      simp [List.all_append, GExpr.scoped, this]
  | enum n g vs =>
    simp only [genJson, GMethod.scoped, List.all_map, List.all_eq_true]
    intro ⟨vn, tys⟩ _
    simp only [Function.comp, Bool.and_eq_true, enumBinders_eq]
    refine ⟨allDistinct_binders _ _, ?_⟩
    by_cases he : tys.isEmpty = true
    · simp [he, GExpr.scoped]
    · simp only [he, Bool.false_eq_true, if_false]
      refine concatParts_scoped _ _ ?_
      have := jsonEnumParts_scoped (helperFree_locals tys.length) tys 0 (hasBinders_range _ _)
      simp [List.all_append, GExpr.scoped, this]

theorem genString_scoped (d : Def) : (genString bindFresh d).scoped = true := by
  cases d with
  | struct n g fs =>
    simp only [genString, GMethod.scoped, List.all_cons, List.all_nil, Bool.and_true, Bool.and_eq_true]
    by_cases he : fs.isEmpty = true
    · simp [he, allDistinct, GExpr.scoped]
    · simp only [he, Bool.false_eq_true, if_false, binders_fresh]
      refine ⟨allDistinct_binders _ _, concatParts_scoped _ _ ?_⟩
      have := stringStructParts_scoped (helperFree_locals fs.length) fs 0 (hasBinders_range _ _)
      simp [List.all_append, GExpr.scoped, this]
  | enum n g vs =>
    simp only [genString, GMethod.scoped, List.all_map, List.all_eq_true]
    intro ⟨vn, tys⟩ _
    simp only [Function.comp, Bool.and_eq_true, enumBinders_eq]
    refine ⟨allDistinct_binders _ _, ?_⟩
    by_cases he : tys.isEmpty = true
    · simp [he, GExpr.scoped]
    · simp only [he, Bool.false_eq_true, if_false]
      refine concatParts_scoped _ _ ?_
      have := stringEnumParts_scoped (helperFree_locals tys.length) tys 0 (hasBinders_range _ _)
      simp [List.all_append, GExpr.scoped, this]

/-! ### hygiene against the top-level functions of the package -/

theorem helperFree_locals_tops (n : Nat) (tops : List String) (ht : HelperFree tops) :
    HelperFree ((List.range' 0 n).map fieldBinder ++ ([Gen.Derive.selfParam] ++ tops)) := by
  intro h hh hm
  simp only [List.mem_append, List.mem_map, List.mem_singleton] at hm
  rcases hm with ⟨j, _, e⟩ | e | e
  · exact fieldBinder_not_helper j hh e
  · exact (helpers_safe h hh).2 e
  · exact ht h hh e

theorem genJson_hygienic (d : Def) (tops : List String) (ht : HelperFree tops) :
    (genJson bindFresh d).hygienic tops = true := by
  cases d with
  | struct n g fs =>
    simp only [genJson, GMethod.hygienic, List.all_cons, List.all_nil, Bool.and_true]
    by_cases he : fs.isEmpty = true
    · simp [he, GExpr.scoped]
    · simp only [he, Bool.false_eq_true, if_false, binders_fresh]
      refine concatParts_scoped _ _ ?_
      have := jsonStructParts_scoped (helperFree_locals_tops fs.length tops ht) fs 0 (hasBinders_range _ _)
      simpa [List.all_append, GExpr.scoped] using this
  | enum n g vs =>
    simp only [genJson, GMethod.hygienic, List.all_map, List.all_eq_true]
    intro ⟨vn, tys⟩ _
    simp only [Function.comp, enumBinders_eq]
    by_cases he : tys.isEmpty = true
    · simp [he, GExpr.scoped]
    · simp only [he, Bool.false_eq_true, if_false]
      refine concatParts_scoped _ _ ?_
      have := jsonEnumParts_scoped (helperFree_locals_tops tys.length tops ht) tys 0 (hasBinders_range _ _)
      simpa [List.all_append, GExpr.scoped] using this

theorem genString_hygienic (d : Def) (tops : List String) (ht : HelperFree tops) :
    (genString bindFresh d).hygienic tops = true := by
  cases d with
  | struct n g fs =>
    simp only [genString, GMethod.hygienic, List.all_cons, List.all_nil, Bool.and_true]
    by_cases he : fs.isEmpty = true
    · simp [he, GExpr.scoped]
    · simp only [he, Bool.false_eq_true, if_false, binders_fresh]
      refine concatParts_scoped _ _ ?_
      have := stringStructParts_scoped (helperFree_locals_tops fs.length tops ht) fs 0 (hasBinders_range _ _)
      simpa [List.all_append, GExpr.scoped] using this
  | enum n g vs =>
    simp only [genString, GMethod.hygienic, List.all_map, List.all_eq_true]
    intro ⟨vn, tys⟩ _
    simp only [Function.comp, enumBinders_eq]
    by_cases he : tys.isEmpty = true
    · simp [he, GExpr.scoped]
    · simp only [he, Bool.false_eq_true, if_false]
      refine concatParts_scoped _ _ ?_
      have := stringEnumParts_scoped (helperFree_locals_tops tys.length tops ht) tys 0 (hasBinders_range _ _)
      simpa [List.all_append, GExpr.scoped] using this

end Goml.Derive
