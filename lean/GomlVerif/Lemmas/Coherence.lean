import GomlVerif.Lemmas.Discover
import GomlVerif.Model.Visibility
/-!
Helper lemmas for C16: what an error-free `localCheck` registered, and when the merge of the
packages' impl tables reports nothing.
-/
namespace Goml.Vis
open Goml.Graph

theorem packageAllowed_iff (p cur : Pkg) (imps : List Pkg) :
    packageAllowed p cur imps = true ↔ p = cur ∨ p = builtinName ∨ p ∈ imps := by
  simp [packageAllowed, or_assoc]

theorem fileImports_sub (q : PkgSrc) (file : Nat) : ∀ x, x ∈ fileImports q file → x ∈ q.imports := by
  intro x hx
  unfold fileImports at hx
  split at hx
  · exact hx
  · simp at hx

/-- every package the target type names is visible from the file of the declaration -/
def TyVisible (q : PkgSrc) (d : ImplD) : Prop :=
  ∀ n ∈ d.tyNames, packageAllowed n q.name (fileImports q d.file) = true

/-- the conditions under which `define_trait_impl` inserts the impl without any diagnostic -/
def Registrable (q : PkgSrc) (d : ImplD) : Prop :=
  packageAllowed d.tr q.name (fileImports q d.file) = true ∧ TyVisible q d ∧
  (d.tr = q.name ∨ d.typeLocalTo q.name = true)

/-- the conditions under which `define_inherent_impl` reports nothing -/
def InherentOk (q : PkgSrc) (d : ImplD) : Prop := TyVisible q d ∧ d.typeLocalTo q.name = true

theorem implStep_nil {q : PkgSrc} {st : LocalSt} {d : ImplD} (h : (implStep q st d).cls = []) :
    st.cls = [] ∧
    ((d.inherent = true ∧ InherentOk q d ∧ (implStep q st d).reg = st.reg) ∨
     (d.inherent = false ∧ Registrable q d ∧ d.key ∉ st.reg ∧ (implStep q st d).reg = st.reg ++ [d.key])) := by
  by_cases hall : (d.tyNames.all fun n => packageAllowed n q.name (fileImports q d.file)) = true
  swap
  · -- some package named in the type is not visible: always a diagnostic
    exfalso
    have hall' : (d.tyNames.all fun n => packageAllowed n q.name (fileImports q d.file)) = false := by simpa using hall
    unfold implStep at h
    simp only [hall', Bool.false_eq_true, if_false] at h
    split at h
    · split at h <;> simp at h
    · split at h
      · simp at h
      · split at h
        · simp at h
        · split at h <;> simp at h
  have hvis : TyVisible q d := by
    intro n hn
    exact (List.all_eq_true.1 hall) n hn
  by_cases hinh : d.inherent = true
  · by_cases hloc : d.typeLocalTo q.name = true
    · refine ⟨?_, Or.inl ⟨hinh, ⟨hvis, hloc⟩, ?_⟩⟩
      · simpa [implStep, hall, hinh, hloc] using h
      · simp [implStep, hall, hinh, hloc]
    · have hloc' : d.typeLocalTo q.name = false := by simpa using hloc
      simp [implStep, hall, hinh, hloc'] at h
  · have hinh' : d.inherent = false := by simpa using hinh
    by_cases h1 : packageAllowed d.tr q.name (fileImports q d.file) = true
    swap
    · have h1' : packageAllowed d.tr q.name (fileImports q d.file) = false := by simpa using h1
      simp [implStep, hinh', h1'] at h
    by_cases hr : d.key ∈ st.reg
    · exfalso
      have hr' : st.reg.contains d.key = true := by simpa using hr
      unfold implStep at h
      simp only [hall, if_true, hinh', Bool.false_eq_true, if_false, h1, Bool.not_true, hr', List.append_nil] at h
      split at h <;> simp at h
    by_cases hl : d.tr = q.name
    · have hl' : (d.tr == q.name) = true := by simpa using hl
      refine ⟨?_, Or.inr ⟨hinh', ⟨h1, hvis, Or.inl hl⟩, hr, ?_⟩⟩
      · simpa [implStep, hall, hinh', h1, hl', hr] using h
      · simp [implStep, hall, hinh', h1, hl', hr]
    · have hl' : (d.tr == q.name) = false := by simpa using hl
      by_cases hloc : d.typeLocalTo q.name = true
      · refine ⟨?_, Or.inr ⟨hinh', ⟨h1, hvis, Or.inr hloc⟩, hr, ?_⟩⟩
        · simpa [implStep, hall, hinh', h1, hl', hloc, hr] using h
        · simp [implStep, hall, hinh', h1, hl', hloc, hr]
      · have hloc' : d.typeLocalTo q.name = false := by simpa using hloc
        simp [implStep, hall, hinh', h1, hl', hloc'] at h

/-- the trait impls among the declarations -/
def traitImpls (l : List ImplD) : List ImplD := l.filter fun d => !d.inherent

theorem foldl_implStep_nil {q : PkgSrc} : ∀ (l : List ImplD) (st : LocalSt),
    (l.foldl (implStep q) st).cls = [] →
      st.cls = [] ∧ (∀ d ∈ l, (d.inherent = true → InherentOk q d) ∧ (d.inherent = false → Registrable q d)) ∧
      (l.foldl (implStep q) st).reg = st.reg ++ (traitImpls l).map ImplD.key ∧
      (st.reg.Nodup → (l.foldl (implStep q) st).reg.Nodup) := by
  intro l
  induction l with
  | nil => intro st h; exact ⟨h, by simp, by simp [traitImpls], id⟩
  | cons d l ih =>
    intro st h
    simp only [List.foldl_cons] at h ⊢
    obtain ⟨c1, r1, e1, n1⟩ := ih _ h
    obtain ⟨c0, hcase⟩ := implStep_nil c1
    rcases hcase with ⟨hi, ok, e0⟩ | ⟨hi, r0, notin, e0⟩
    · refine ⟨c0, ?_, ?_, ?_⟩
      · intro x hx
        rcases List.mem_cons.1 hx with rfl | hx
        · exact ⟨fun _ => ok, fun hf => absurd (hi.symm.trans hf) (by decide)⟩
        · exact r1 x hx
      · rw [e1, e0]; simp [traitImpls, hi]
      · intro hn; apply n1; rw [e0]; exact hn
    · refine ⟨c0, ?_, ?_, ?_⟩
      · intro x hx
        rcases List.mem_cons.1 hx with rfl | hx
        · exact ⟨fun ht => absurd (ht.symm.trans hi) (by decide), fun _ => r0⟩
        · exact r1 x hx
      · rw [e1, e0]; simp [traitImpls, hi]
      · intro hn
        apply n1
        rw [e0]
        exact List.nodup_append.2 ⟨hn, List.nodup_singleton _, fun a ha b hb e => by
          have : b = d.key := by simpa using hb
          exact notin (this ▸ e ▸ ha)⟩

/-- an error-free package registered its standard impl and every declared trait impl, each once;
    its inherent impls are for its own types -/
theorem localCheck_nil {q : PkgSrc} (h : (localCheck q).cls = []) :
    (∀ u ∈ q.uses, useClasses q u = []) ∧
    (∀ d ∈ q.impls, (d.inherent = true → InherentOk q d) ∧ (d.inherent = false → Registrable q d)) ∧
    (localCheck q).reg = stdKey q.name :: (traitImpls q.impls).map ImplD.key ∧ (localCheck q).reg.Nodup := by
  unfold localCheck at h ⊢
  obtain ⟨c, r, e, n⟩ := foldl_implStep_nil q.impls _ h
  simp only at c
  refine ⟨?_, r, by simpa using e, n (by simp)⟩
  intro u hu
  have := List.flatMap_eq_nil_iff.1 c
  exact this u hu

/-! ## the merge -/

/-- no key of the later table is in the earlier one -/
def Disj (r₁ r₂ : List Key) : Prop := ∀ k ∈ r₂, k ∉ r₁

theorem Disj.symm {r₁ r₂ : List Key} (h : Disj r₁ r₂) : Disj r₂ r₁ :=
  fun k hk hk' => h k hk' hk

theorem mergeStep_fst_nil {acc : List Cls × List Key} {reg : List Key} :
    (mergeStep acc reg).1 = [] ↔ acc.1 = [] ∧ Disj acc.2 reg := by
  simp only [mergeStep, List.append_eq_nil_iff, List.map_eq_nil_iff, List.filter_eq_nil_iff, Disj]
  constructor
  · rintro ⟨h1, h2⟩
    exact ⟨h1, fun k hk => by simpa using h2 k hk⟩
  · rintro ⟨h1, h2⟩
    exact ⟨h1, fun k hk => by simpa using h2 k hk⟩

theorem merge_fst_nil : ∀ (regs : List (List Key)) (acc : List Cls × List Key),
    (regs.foldl mergeStep acc).1 = [] ↔
      acc.1 = [] ∧ (∀ r ∈ regs, Disj acc.2 r) ∧ regs.Pairwise Disj := by
  intro regs
  induction regs with
  | nil => intro acc; simp
  | cons r rs ih =>
    intro acc
    simp only [List.foldl_cons, ih, mergeStep_fst_nil, List.pairwise_cons, List.mem_cons, forall_eq_or_imp]
    have key : (∀ r' ∈ rs, Disj (mergeStep acc r).2 r') ↔ (∀ r' ∈ rs, Disj acc.2 r') ∧ (∀ r' ∈ rs, Disj r r') := by
      simp only [mergeStep, Disj, List.mem_append, not_or]
      constructor
      · intro h
        exact ⟨fun r' hr k hk => (h r' hr k hk).1, fun r' hr k hk => (h r' hr k hk).2⟩
      · rintro ⟨h1, h2⟩ r' hr k hk
        exact ⟨h1 r' hr k hk, h2 r' hr k hk⟩
    rw [key]
    tauto

theorem merge_snd : ∀ (regs : List (List Key)) (acc : List Cls × List Key),
    (regs.foldl mergeStep acc).2 = acc.2 ++ regs.flatten := by
  intro regs
  induction regs with
  | nil => intro acc; simp
  | cons r rs ih => intro acc; simp [List.foldl_cons, ih, mergeStep]

theorem flatten_nodup_of_pairwise : ∀ (regs : List (List Key)),
    (∀ r ∈ regs, r.Nodup) → regs.Pairwise Disj → regs.flatten.Nodup := by
  intro regs
  induction regs with
  | nil => intro _ _; simp
  | cons r rs ih =>
    intro hn hp
    have hp' := List.pairwise_cons.1 hp
    simp only [List.flatten_cons]
    refine List.nodup_append.2 ⟨hn r (by simp), ih (fun x hx => hn x (List.mem_cons_of_mem _ hx)) hp'.2, ?_⟩
    intro a ha b hb e
    obtain ⟨r', hr', hb'⟩ := List.mem_flatten.1 hb
    exact hp'.1 r' hr' b hb' (e ▸ ha)

/-- `checkOrder` reports nothing iff every package is error-free and the impl tables are pairwise
    disjoint -/
theorem checkOrder_nil_iff (w : World) (order : List Pkg) :
    checkOrder w order = [] ↔
      (∀ p ∈ order, (localCheck (w.src p)).cls = []) ∧
      (order.map fun p => (localCheck (w.src p)).reg).Pairwise Disj := by
  unfold checkOrder
  simp only [List.append_eq_nil_iff, List.flatMap_eq_nil_iff, List.mem_map, forall_exists_index, and_imp,
    forall_apply_eq_imp_iff₂]
  have hm := merge_fst_nil ((order.map fun p => localCheck (w.src p)).map (·.reg)) ([], [])
  have hfold : ∀ (ls : List LocalSt) (acc : List Cls × List Key),
      ls.foldl (fun acc l => mergeStep acc l.reg) acc = (ls.map (·.reg)).foldl mergeStep acc := by
    intro ls
    induction ls with
    | nil => intro acc; rfl
    | cons x xs ih => intro acc; simp [List.foldl_cons, ih]
  rw [hfold, hm]
  simp only [List.map_map, true_and]
  constructor
  · rintro ⟨h1, _, h3⟩
    exact ⟨h1, h3⟩
  · rintro ⟨h1, h3⟩
    exact ⟨h1, by intro r _ k _ hk; simp at hk, h3⟩

end Goml.Vis
