import GomlVerif.Lemmas.DceFrame
/-!
Expression-level lemmas for the preservation proof: a block-free expression depends only on the
variables it mentions (coincidence), and the syntactically inert expressions (`inertSyn false`)
neither panic nor touch the world.
-/
set_option linter.unusedSimpArgs false
set_option linter.unusedVariables false
namespace Goml.Dce
open Goml.Go Goml.Sem

/-- the two environments give every name of `L` the same value -/
def Agree (L : Names) (ρ ρ' : GEnv) : Prop := ∀ x ∈ L, lookupG ρ x = lookupG ρ' x

theorem Agree.mono {L L' : Names} {ρ ρ' : GEnv} (h : Agree L ρ ρ') (hs : ∀ x ∈ L', x ∈ L) : Agree L' ρ ρ' :=
  fun x hx => h x (hs x hx)

structure CoinAt (n : Nat) : Prop where
  ev : ∀ {F ρ ρ' w e}, noBlockExpr e = true → Agree (varsUsed e) ρ ρ' → evalG n F ρ w e = evalG n F ρ' w e
  el : ∀ {F ρ ρ' w es}, noBlockList es = true → Agree (varsUsedList es) ρ ρ' →
        evalListG n F ρ w es = evalListG n F ρ' w es
  ef : ∀ {F ρ ρ' w fs}, noBlockFields fs = true → Agree (varsUsedFields fs) ρ ρ' →
        evalFieldsG n F ρ w fs = evalFieldsG n F ρ' w fs

theorem coin0 : CoinAt 0 := by
  constructor <;> intros <;> simp [evalG, evalListG, evalFieldsG]

theorem coinE (n : Nat) (ih : CoinAt n) {F ρ ρ' w e} (hb : noBlockExpr e = true)
    (ha : Agree (varsUsed e) ρ ρ') : evalG (n+1) F ρ w e = evalG (n+1) F ρ' w e := by
  cases e with
  | nil t => rw [evalG.eq_def, evalG.eq_def]
  | voidv t => rw [evalG.eq_def, evalG.eq_def]
  | unitv t => rw [evalG.eq_def, evalG.eq_def]
  | bool b => rw [evalG.eq_def, evalG.eq_def]
  | int v t => rw [evalG.eq_def, evalG.eq_def]
  | float v t => rw [evalG.eq_def, evalG.eq_def]
  | str v => rw [evalG.eq_def, evalG.eq_def]
  | var x t =>
    rw [evalG.eq_def, evalG.eq_def]
    simp only
    rw [ha x (by simp [varsUsed])]
  | call t f args =>
    simp only [noBlockExpr, Bool.and_eq_true] at hb
    rw [evalG.eq_def, evalG.eq_def]; simp only
    rw [ih.ev hb.1 (ha.mono (fun x hx => by simp [varsUsed, hx]))]
    cases evalG n F ρ' w f with
    | fail f' w' => rfl
    | ok fv w1 =>
      simp only
      rw [ih.el hb.2 (ha.mono (fun x hx => by simp [varsUsed, hx]))]
  | un op t e =>
    simp only [noBlockExpr] at hb
    rw [evalG.eq_def, evalG.eq_def]; simp only
    cases op <;> simp only <;>
      rw [ih.ev (w := w) hb (ha.mono (fun x hx => by simpa [varsUsed] using hx))]
  | bin op t l r =>
    simp only [noBlockExpr, Bool.and_eq_true] at hb
    rw [evalG.eq_def, evalG.eq_def]; simp only
    rw [ih.ev hb.1 (ha.mono (fun x hx => by simp [varsUsed, hx]))]
    cases evalG n F ρ' w l with
    | fail f' w' => rfl
    | ok a w1 =>
      simp only
      rw [ih.ev (w := w1) hb.2 (ha.mono (fun x hx => by simp [varsUsed, hx]))]
  | field f t o =>
    simp only [noBlockExpr] at hb
    rw [evalG.eq_def, evalG.eq_def]; simp only
    rw [ih.ev hb (ha.mono (fun x hx => by simpa [varsUsed] using hx))]
  | index t a i =>
    simp only [noBlockExpr, Bool.and_eq_true] at hb
    rw [evalG.eq_def, evalG.eq_def]; simp only
    rw [ih.ev hb.1 (ha.mono (fun x hx => by simp [varsUsed, hx]))]
    cases evalG n F ρ' w a with
    | fail f' w' => rfl
    | ok av w1 =>
      simp only
      rw [ih.ev (w := w1) hb.2 (ha.mono (fun x hx => by simp [varsUsed, hx]))]
  | cast t e =>
    simp only [noBlockExpr] at hb
    rw [evalG.eq_def, evalG.eq_def]; simp only
    rw [ih.ev hb (ha.mono (fun x hx => by simpa [varsUsed] using hx))]
  | slit t fs =>
    simp only [noBlockExpr] at hb
    rw [evalG.eq_def, evalG.eq_def]; simp only
    rw [ih.ef hb (ha.mono (fun x hx => by simpa [varsUsed] using hx))]
  | alit t es =>
    simp only [noBlockExpr] at hb
    rw [evalG.eq_def, evalG.eq_def]; simp only
    rw [ih.el hb (ha.mono (fun x hx => by simpa [varsUsed] using hx))]
  | blocke t ss e => simp [noBlockExpr] at hb

theorem coinL (n : Nat) (ih : CoinAt n) {F ρ ρ' w es} (hb : noBlockList es = true)
    (ha : Agree (varsUsedList es) ρ ρ') : evalListG (n+1) F ρ w es = evalListG (n+1) F ρ' w es := by
  cases es with
  | nil => rw [evalListG.eq_def, evalListG.eq_def]
  | cons e rest =>
    simp only [noBlockList, Bool.and_eq_true] at hb
    rw [evalListG.eq_def, evalListG.eq_def]; simp only
    rw [ih.ev hb.1 (ha.mono (fun x hx => by simp [varsUsedList, hx]))]
    cases evalG n F ρ' w e with
    | fail f' w' => rfl
    | ok v w1 =>
      simp only
      rw [ih.el (w := w1) hb.2 (ha.mono (fun x hx => by simp [varsUsedList, hx]))]

theorem coinF (n : Nat) (ih : CoinAt n) {F ρ ρ' w fs} (hb : noBlockFields fs = true)
    (ha : Agree (varsUsedFields fs) ρ ρ') : evalFieldsG (n+1) F ρ w fs = evalFieldsG (n+1) F ρ' w fs := by
  cases fs with
  | nil => rw [evalFieldsG.eq_def, evalFieldsG.eq_def]
  | cons fd rest =>
    cases fd with
    | mk nm e =>
      simp only [noBlockFields, Bool.and_eq_true] at hb
      rw [evalFieldsG.eq_def, evalFieldsG.eq_def]; simp only
      rw [ih.ev hb.1 (ha.mono (fun x hx => by simp [varsUsedFields, hx]))]
      cases evalG n F ρ' w e with
      | fail f' w' => rfl
      | ok v w1 =>
        simp only
        rw [ih.ef (w := w1) hb.2 (ha.mono (fun x hx => by simp [varsUsedFields, hx]))]

/-- **coincidence**: a block-free expression depends only on the variables it mentions -/
theorem coin_all : ∀ n, CoinAt n
  | 0 => coin0
  | n + 1 =>
    have ih := coin_all n
    { ev := coinE n ih, el := coinL n ih, ef := coinF n ih }

/-- a result that neither changed the world nor panicked -/
def Quiet {α : Type} (w : GWorld) : GRes α → Prop
  | .ok _ w' => w' = w
  | .fail f _ => ∀ k, f ≠ .panic k

/-- evaluating `e` never panics and never changes the world (it may run out of fuel, and in an
    ill-typed program it may be stuck) -/
def Inert (F : GFile) (e : GExpr) : Prop := ∀ n ρ w, Quiet w (evalG n F ρ w e)

theorem gbin_nopanic (op : GBin) (a b : GVal) (f : Fail) (hop : op ≠ .div)
    (h : gbin op a b = .error f) : ∀ k, f ≠ .panic k := by
  unfold gbin at h
  split at h <;> first
    | (cases h; intro k hk; cases hk)
    | cases h
    | (exact absurd rfl hop)
    | (split at h <;> first | (cases h; intro k hk; cases hk) | cases h)


structure InertAt (b : Bool) (n : Nat) : Prop where
  ev : ∀ {F ρ w e}, inertSyn b e = true → Quiet w (evalG n F ρ w e)
  el : ∀ {F ρ w es}, inertSynList b es = true → Quiet w (evalListG n F ρ w es)
  ef : ∀ {F ρ w fs}, inertSynFields b fs = true → Quiet w (evalFieldsG n F ρ w fs)

theorem inert0 {b : Bool} : InertAt b 0 := by
  constructor <;> intros <;> simp [evalG, evalListG, evalFieldsG, Quiet]

theorem quiet_stuck {α : Type} (w w' : GWorld) (s : String) : Quiet (α := α) w (.fail (.stuck s) w') := by
  intro k hk; cases hk

theorem inertE {b : Bool} (n : Nat) (ih : InertAt b n) {F ρ w e} (hi : inertSyn b e = true) :
    Quiet w (evalG (n+1) F ρ w e) := by
  cases e with
  | nil t => rw [evalG.eq_def]; simp [Quiet]
  | voidv t => rw [evalG.eq_def]; simp [Quiet]
  | unitv t => rw [evalG.eq_def]; simp [Quiet]
  | bool b => rw [evalG.eq_def]; simp [Quiet]
  | float v t => rw [evalG.eq_def]; simp only; split <;> simp [Quiet]
  | str v => rw [evalG.eq_def]; simp [Quiet]
  | var x t => rw [evalG.eq_def]; simp only; split <;> simp [Quiet]
  | int v t =>
    rw [evalG.eq_def]; simp only
    split
    · simp [Quiet]
    · simp [Quiet]
    · exact quiet_stuck _ _ _
  | un op t e =>
    rw [evalG.eq_def]; simp only
    cases op <;> simp [inertSyn] at hi
    all_goals
      simp only
      have := ih.ev (F := F) (ρ := ρ) (w := w) hi
      cases he : evalG n F ρ w e with
      | fail f w' => rw [he] at this; exact this
      | ok v w' =>
        rw [he] at this
        simp only [Quiet] at this
        subst this
        simp only
        cases v <;> first | simp [Quiet] | exact quiet_stuck _ _ _
  | bin op t l r =>
    have hop : op ≠ .div := by
      intro h; subst h; simp [inertSyn] at hi
    have hi' : inertSyn b l = true ∧ inertSyn b r = true := by
      cases op <;> simp_all [inertSyn]
    rw [evalG.eq_def]; simp only
    have hl := ih.ev (F := F) (ρ := ρ) (w := w) hi'.1
    cases he : evalG n F ρ w l with
    | fail f w' => rw [he] at hl; exact hl
    | ok a w' =>
      rw [he] at hl
      simp only [Quiet] at hl
      subst hl
      simp only
      have hr := ih.ev (F := F) (ρ := ρ) (w := w') hi'.2
      have key : Quiet w' (match evalG n F ρ w' r with
          | GRes.fail f w => GRes.fail f w
          | GRes.ok b w => match gbin op a b with
            | Except.ok v => GRes.ok v w
            | Except.error f => GRes.fail f w) := by
        cases hr' : evalG n F ρ w' r with
        | fail f w2 => rw [hr'] at hr; exact hr
        | ok b w2 =>
          rw [hr'] at hr
          simp only [Quiet] at hr
          subst hr
          simp only
          cases hg : gbin op a b with
          | ok v => simp [Quiet]
          | error f => exact gbin_nopanic op a b f hop hg
      have key2 : Quiet w' (match evalG n F ρ w' r with
          | GRes.fail f w => GRes.fail f w
          | GRes.ok b w => GRes.ok b w) := by
        cases hr' : evalG n F ρ w' r with
        | fail f w2 => rw [hr'] at hr; exact hr
        | ok b w2 => rw [hr'] at hr; exact hr
      split
      · simp [Quiet]
      · simp [Quiet]
      · exact key2
      · exact key2
      · exact key
  | slit t fs =>
    simp only [inertSyn] at hi
    rw [evalG.eq_def]; simp only
    have := ih.ef (F := F) (ρ := ρ) (w := w) hi
    cases he : evalFieldsG n F ρ w fs with
    | fail f w' => rw [he] at this; exact this
    | ok v w' => rw [he] at this; simpa [Quiet] using this
  | alit t es =>
    simp only [inertSyn, Bool.and_eq_true] at hi
    rw [evalG.eq_def]; simp only
    have := ih.el (F := F) (ρ := ρ) (w := w) hi.2
    cases he : evalListG n F ρ w es with
    | fail f w' => rw [he] at this; exact this
    | ok v w' =>
      rw [he] at this
      simp only [Quiet] at this
      subst this
      simp only
      cases t <;> first | (exfalso; simp at hi; done) | simp [Quiet]
  | call t f args => simp [inertSyn] at hi
  | field f t o =>
    simp only [inertSyn, Bool.and_eq_true, Bool.not_eq_true'] at hi
    rw [evalG.eq_def]; simp only
    have := ih.ev (F := F) (ρ := ρ) (w := w) hi.2
    cases he : evalG n F ρ w o with
    | fail f' w' => rw [he] at this; exact this
    | ok v w' =>
      rw [he] at this
      simp only [Quiet] at this
      subst this
      cases v <;> simp only [] <;> try exact quiet_stuck _ _ _
      · rename_i sn fs
        cases lookupG fs f <;> first | simp [Quiet] | exact quiet_stuck _ _ _
      · rename_i l
        cases hh : w'.heap[l]? with
        | none => exact quiet_stuck _ _ _
        | some hv =>
          cases hv <;> simp only [] <;> try exact quiet_stuck _ _ _
          rename_i sn fs
          cases lookupG fs f <;> first | simp [Quiet] | exact quiet_stuck _ _ _
      · simp only [hi.1.2, Bool.false_eq_true, if_false]; exact quiet_stuck _ _ _
  | index t a i => simp [inertSyn] at hi
  | cast t e => simp [inertSyn] at hi
  | blocke t ss e => simp [inertSyn] at hi

theorem inertL {b : Bool} (n : Nat) (ih : InertAt b n) {F ρ w es} (hi : inertSynList b es = true) :
    Quiet w (evalListG (n+1) F ρ w es) := by
  cases es with
  | nil => rw [evalListG.eq_def]; simp [Quiet]
  | cons e rest =>
    simp only [inertSynList, Bool.and_eq_true] at hi
    rw [evalListG.eq_def]; simp only
    have h1 := ih.ev (F := F) (ρ := ρ) (w := w) hi.1
    cases he : evalG n F ρ w e with
    | fail f w' => rw [he] at h1; exact h1
    | ok v w' =>
      rw [he] at h1
      simp only [Quiet] at h1
      subst h1
      simp only
      have h2 := ih.el (F := F) (ρ := ρ) (w := w') hi.2
      cases hr : evalListG n F ρ w' rest with
      | fail f w2 => rw [hr] at h2; exact h2
      | ok vs w2 => rw [hr] at h2; simpa [Quiet] using h2

theorem inertFs {b : Bool} (n : Nat) (ih : InertAt b n) {F ρ w fs} (hi : inertSynFields b fs = true) :
    Quiet w (evalFieldsG (n+1) F ρ w fs) := by
  cases fs with
  | nil => rw [evalFieldsG.eq_def]; simp [Quiet]
  | cons fd rest =>
    cases fd with
    | mk nm e =>
      simp only [inertSynFields, Bool.and_eq_true] at hi
      rw [evalFieldsG.eq_def]; simp only
      have h1 := ih.ev (F := F) (ρ := ρ) (w := w) hi.1
      cases he : evalG n F ρ w e with
      | fail f w' => rw [he] at h1; exact h1
      | ok v w' =>
        rw [he] at h1
        simp only [Quiet] at h1
        subst h1
        simp only
        have h2 := ih.ef (F := F) (ρ := ρ) (w := w') hi.2
        cases hr : evalFieldsG n F ρ w' rest with
        | fail f w2 => rw [hr] at h2; exact h2
        | ok vs w2 => rw [hr] at h2; simpa [Quiet] using h2

theorem inert_all (b : Bool) : ∀ n, InertAt b n
  | 0 => inert0
  | n + 1 =>
    have ih := inert_all b n
    { ev := inertE n ih, el := inertL n ih, ef := inertFs n ih }

/-- the syntactic criterion is sound: literals, variables, `-`, `!`, non-dividing binary
    operators and composite literals of such can neither panic nor touch the world -/
theorem inertSyn_sound (F : GFile) (e : GExpr) (h : inertSyn false e = true) : Inert F e :=
  fun n _ _ => (inert_all false n).ev h

/-- … and so are field projections `e.f` of an `e` whose static type is not a pointer: `Go.Sem` has
    no rule for a nil value of a non-pointer type, so `e.f` can be stuck but cannot panic -/
theorem inertSyn_sound_field (F : GFile) (e : GExpr) (h : inertSyn true e = true) : Inert F e :=
  fun n _ _ => (inert_all true n).ev h

end Goml.Dce
