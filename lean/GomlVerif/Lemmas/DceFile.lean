import GomlVerif.Lemmas.GoFileSim
import GomlVerif.Lemmas.DcePrune
import GomlVerif.Lemmas.DceScope
import GomlVerif.Lemmas.DceSim6
/-!
File-level lifting of `dce_preserves`, step 1: `mapDce F` (every function body replaced by its
DCE'd form, nothing pruned yet) reproduces every definite call of `F`, for files that satisfy the
decidable contract `fileDceOK`.  Instance of the `Go.Sem` file congruence (`Lemmas/GoFileSim.lean`):
at a call, the callee's original body is first moved from `F` to `mapDce F` (induction), then
`dce_preserves_syn` — applied INSIDE `mapDce F` — exchanges it for the DCE'd body.
-/
set_option linter.unusedSimpArgs false
set_option linter.unusedVariables false
namespace Goml.Dce
open Goml.Go

def dceFn (g : GFunc) : GFunc := { g with body := dceBody g.body }

theorem funcs_map_dceItem : ∀ items : List GItem,
    (GFile.funcs { items := items.map dceItem }) = (GFile.funcs { items := items }).map dceFn
  | [] => rfl
  | it :: rest => by
    have ih := funcs_map_dceItem rest
    unfold GFile.funcs at ih ⊢
    cases it <;> simp_all [dceItem, dceFn, List.filterMap_cons]

theorem funcs_mapDce (F : GFile) : (mapDce F).funcs = F.funcs.map dceFn := funcs_map_dceItem F.items

theorem find_map_dceFn (name : String) : ∀ fs : List GFunc,
    (fs.map dceFn).find? (·.name == name) = (fs.find? (·.name == name)).map dceFn
  | [] => rfl
  | g :: rest => by
    simp only [List.map_cons, List.find?_cons]
    have : (dceFn g).name = g.name := rfl
    rw [this]
    cases (g.name == name)
    · simpa using find_map_dceFn name rest
    · rfl

theorem findFunc_mapDce (F : GFile) (name : String) : (mapDce F).findFunc name = (F.findFunc name).map dceFn := by
  unfold GFile.findFunc
  rw [funcs_mapDce]; exact find_map_dceFn name F.funcs

theorem findSome_map_dceItem {β : Type} (g : GItem → Option β) (hg : ∀ it, g (dceItem it) = g it) :
    ∀ items : List GItem, (items.map dceItem).findSome? g = items.findSome? g
  | [] => rfl
  | it :: rest => by
    simp only [List.map_cons, List.findSome?_cons, hg it]
    cases g it
    · exact findSome_map_dceItem g hg rest
    · rfl

theorem structFields_mapDce (F : GFile) (n : String) : (mapDce F).structFields n = F.structFields n := by
  unfold GFile.structFields mapDce
  apply findSome_map_dceItem
  intro it; cases it <;> rfl

theorem structImplements_mapDce (F : GFile) (s i : String) : (mapDce F).structImplements s i = F.structImplements s i := by
  unfold GFile.structImplements mapDce
  simp only []
  rw [findSome_map_dceItem _ (by intro it; cases it <;> rfl), findSome_map_dceItem _ (by intro it; cases it <;> rfl)]

theorem fileLike_mapDce (F : GFile) : FileLike F (mapDce F) :=
  ⟨structFields_mapDce F, structImplements_mapDce F⟩

theorem keys_bindG : ∀ (ps : List (String × GTy)) (args : List GVal), ps.length = args.length →
    keys (bindG ps args) = ps.map (·.1)
  | [], [], _ => rfl
  | [], _ :: _, h => by simp at h
  | _ :: _, [], h => by simp at h
  | p :: ps, a :: as, h => by
    have := keys_bindG ps as (by simpa using h)
    simp only [bindG, keys, List.zip_cons_cons, List.map_cons] at this ⊢
    rw [this]

theorem findFunc_mem {F : GFile} {name : String} {fn : GFunc} (h : F.findFunc name = some fn) : fn ∈ F.funcs :=
  List.mem_of_find?_eq_some h

theorem retOfB_of_resRel {r' r0 : GRes (GEnv × Sig)} (h : ResRel [] [] r' r0) : retOfB r' = retOfB r0 := by
  cases r' with
  | ok p w =>
    obtain ⟨ρo, so⟩ := p
    cases r0 with
    | ok p0 w0 =>
      obtain ⟨ρi, si⟩ := p0
      simp only [ResRel] at h
      obtain ⟨rfl, rfl, _⟩ := h
      cases so <;> rfl
    | fail f0 w0 => simp [ResRel] at h
  | fail f w =>
    cases r0 with
    | ok p0 w0 => obtain ⟨ρi, si⟩ := p0; simp [ResRel] at h
    | fail f0 w0 => simp only [ResRel] at h; obtain ⟨rfl, rfl⟩ := h; rfl

/-- the functions of `mapDce F` simulate those of `F` (contract: `fileDceOK`) -/
theorem fnSim_mapDce {F : GFile} (hok : fileDceOK F = true) : FnSim F (mapDce F) := by
  unfold fileDceOK at hok
  simp only [Bool.and_eq_true, List.all_eq_true] at hok
  refine ⟨fun name h => by rw [findFunc_mapDce, h]; rfl, ?_⟩
  intro name fn hf
  refine ⟨dceFn fn, by rw [findFunc_mapDce, hf]; rfl, rfl, ?_⟩
  intro args w r0 hlen E0 hdef
  have hfn := hok.1 fn (findFunc_mem hf)
  unfold fnDceOK at hfn
  simp only [Bool.and_eq_true, Bool.not_eq_true', List.isEmpty_iff] at hfn
  obtain ⟨⟨⟨hblank, hscope⟩, hshape⟩, hsem⟩ := hfn
  obtain ⟨m0, e0⟩ := E0
  have hk := keys_bindG fn.params args hlen
  have hb : ¬ "_" ∈ keys (bindG fn.params args) := by
    rw [hk]; intro hc
    have : (fn.params.map (·.1)).contains "_" = true := by simpa using hc
    rw [this] at hblank; cases hblank
  -- `dce_preserves_syn_field` (Props/Dce.lean), applied inside `mapDce F`
  obtain ⟨m, r', hm, hrel⟩ := (sim_all (F := mapDce F) (P := inertSyn true)
      (fun e h => inertSyn_sound_field (mapDce F) e h) m0).bl (D := localsOf fn) (L := [])
    (by rw [hk]; exact hscope) hshape hsem (rel_refl _ _ (bindG fn.params args) hb) (e0 m0 (Nat.le_refl _)) hdef
  change execBlockG m (mapDce F) (bindG fn.params args) w (dceBody fn.body) = r' at hm
  have hd' : Definite r' := hrel.definite hdef
  refine ⟨m, fun k hk' => ?_⟩
  show retOfB (execBlockG k (mapDce F) (bindG fn.params args) w (dceBody fn.body)) = retOfB r0
  rw [execBlockG_mono hk' (by rw [hm]; exact hd'.nf), hm]
  exact retOfB_of_resRel hrel

/-- **step 1**: every definite call in `F` is reproduced in `mapDce F` -/
theorem mapDce_preserves_call {F : GFile} (hok : fileDceOK F = true) (n : Nat) (w : GWorld) (fv : GVal)
    (args : List GVal) (r : GRes GVal) (h : callG n F w fv args = r) (hdef : Definite r) :
    ∃ m, callG m (mapDce F) w fv args = r := by
  obtain ⟨m, hm⟩ := (fileSim_all (fileLike_mapDce F) (fnSim_mapDce hok) n).cl h hdef
  exact ⟨m, hm m (Nat.le_refl _)⟩

end Goml.Dce
