import GomlVerif.Lemmas.DceFile
import GomlVerif.Lemmas.GoFilePrune
/-!
File-level lifting of `dce_preserves`, steps 2 and 3 and the assembly: `prune_dead_functions` and
`prune_unused_imports` are instances of the lock-step theorem `prune_all`; together with step 1
(`mapDce_preserves_call`) every definite call of `main` in `F` is reproduced by
`eliminateDeadVars F` (`dce_file_call`), for files inside the decidable contract `fileDceOK`.
-/
set_option linter.unusedSimpArgs false
set_option linter.unusedVariables false
namespace Goml.Dce
open Goml.Go

/-! ### generic list facts -/

theorem findSome_filter {α β : Type} (g : α → Option β) (p : α → Bool) (hp : ∀ a, p a = false → g a = none) :
    ∀ l : List α, (l.filter p).findSome? g = l.findSome? g
  | [] => rfl
  | a :: rest => by
    simp only [List.filter_cons, List.findSome?_cons]
    cases hpa : p a
    · simp only [Bool.false_eq_true, if_false, hp a hpa]
      exact findSome_filter g p hp rest
    · simp only [if_true, List.findSome?_cons]
      cases g a
      · exact findSome_filter g p hp rest
      · rfl

theorem find_filter_of {α : Type} (q p : α → Bool) (h : ∀ a, q a = true → p a = true) :
    ∀ l : List α, (l.filter p).find? q = l.find? q
  | [] => rfl
  | a :: rest => by
    simp only [List.filter_cons, List.find?_cons]
    cases hpa : p a
    · have hq : q a = false := by
        cases hqa : q a
        · rfl
        · rw [h a hqa] at hpa; cases hpa
      simp only [Bool.false_eq_true, if_false, hq]
      exact find_filter_of q p h rest
    · simp only [if_true, List.find?_cons]
      cases q a
      · exact find_filter_of q p h rest
      · rfl

theorem find_filter_none {α : Type} (q p : α → Bool) : ∀ l : List α, l.find? q = none → (l.filter p).find? q = none
  | [], _ => rfl
  | a :: rest, h => by
    simp only [List.find?_cons] at h
    cases hq : q a
    · rw [hq] at h
      simp only [List.filter_cons]
      cases p a
      · simpa using find_filter_none q p rest h
      · simp only [if_true, List.find?_cons, hq]; exact find_filter_none q p rest h
    · rw [hq] at h; cases h

/-! ### step 2: `prune_dead_functions` -/

theorem findFunc_some_mem {F : GFile} {x : String} {fn : GFunc} (h : F.findFunc x = some fn) :
    fn ∈ F.funcs ∧ fn.name = x := by
  refine ⟨List.mem_of_find?_eq_some h, ?_⟩
  have := List.find?_some h
  simpa using this

theorem pruneRel_dead (F : GFile) (hnd : (F.funcs.map (·.name)).Nodup) :
    PruneRel F (pruneDeadFunctions F) (F.funcs.map (·.name)) (reachable F) := by
  have hclosed : ∀ x fn, x ∈ reachable F → F.findFunc x = some fn →
      ∀ y, y ∈ calledStmts (F.funcs.map (·.name)) fn.body → y ∈ reachable F := by
    intro x fn hx hf y hy
    obtain ⟨hmem, hname⟩ := findFunc_some_mem hf
    have hyf : y ∈ F.funcs.map (·.name) := ((calledStmts_iff _ y fn.body).mp hy).1
    have hlast : lastFunc F.funcs x = some fn := by
      have := lastFunc_of_mem F.funcs fn hnd hmem
      rwa [hname] at this
    have hcal : y ∈ calleesOf F.funcs (F.funcs.map (·.name)) (reachable F) :=
      (mem_calleesOf _ _ y _).mpr ⟨x, hx, fn, hlast, hy⟩
    exact closure_closed _ _ _ y hcal hyf
  have hspec : ∀ x fn, F.findFunc x = some fn → x ∈ F.funcs.map (·.name) := by
    intro x fn hf
    obtain ⟨hmem, hname⟩ := findFunc_some_mem hf
    exact List.mem_map.mpr ⟨fn, hmem, hname⟩
  unfold pruneDeadFunctions
  split
  · exact ⟨⟨fun _ => rfl, fun _ _ => rfl⟩, fun _ _ => rfl, fun _ h => h, hspec, hclosed⟩
  · refine ⟨⟨?_, ?_⟩, ?_, ?_, hspec, hclosed⟩
    · intro n
      unfold GFile.structFields
      apply findSome_filter
      intro it hit; cases it <;> simp_all [keepItem]
    · intro s i
      unfold GFile.structImplements
      simp only []
      rw [findSome_filter _ _ (by intro it hit; cases it <;> simp_all [keepItem]),
        findSome_filter _ _ (by intro it hit; cases it <;> simp_all [keepItem])]
    · intro x hx
      unfold GFile.findFunc
      rw [funcs_filter]
      apply find_filter_of
      intro g hg
      have : g.name = x := by simpa using hg
      simpa [this] using hx
    · intro x hx
      unfold GFile.findFunc at hx ⊢
      rw [funcs_filter]
      exact find_filter_none _ _ _ hx

/-! ### step 3: `prune_unused_imports` -/

theorem funcs_pruneImportItems (used : Names) : ∀ items : List GItem,
    (GFile.funcs { items := pruneImportItems used items }) = GFile.funcs { items := items }
  | [] => rfl
  | it :: rest => by
    have ih := funcs_pruneImportItems used rest
    unfold GFile.funcs at ih ⊢
    cases it with
    | imports s =>
      simp only [pruneImportItems]
      split <;> simpa [List.filterMap_cons] using ih
    | func g => simpa [pruneImportItems, List.filterMap_cons] using ih
    | package n => simpa [pruneImportItems, List.filterMap_cons] using ih
    | interface n ms => simpa [pruneImportItems, List.filterMap_cons] using ih
    | structDef n fs ms => simpa [pruneImportItems, List.filterMap_cons] using ih
    | «alias» n t => simpa [pruneImportItems, List.filterMap_cons] using ih

theorem findSome_pruneImportItems {β : Type} (g : GItem → Option β) (hg : ∀ s, g (.imports s) = none)
    (used : Names) : ∀ items : List GItem, (pruneImportItems used items).findSome? g = items.findSome? g
  | [] => rfl
  | it :: rest => by
    have ih := findSome_pruneImportItems g hg used rest
    cases it with
    | imports s =>
      simp only [pruneImportItems]
      split <;> simp [List.findSome?_cons, hg, ih]
    | func f => simp only [pruneImportItems, List.findSome?_cons, ih]
    | package n => simp only [pruneImportItems, List.findSome?_cons, ih]
    | interface n ms => simp only [pruneImportItems, List.findSome?_cons, ih]
    | structDef n fs ms => simp only [pruneImportItems, List.findSome?_cons, ih]
    | «alias» n t => simp only [pruneImportItems, List.findSome?_cons, ih]

theorem pruneRel_imports (F : GFile) :
    PruneRel F (pruneUnusedImports F) (F.funcs.map (·.name)) (F.funcs.map (·.name)) := by
  have hclosed : ∀ x fn, x ∈ F.funcs.map (·.name) → F.findFunc x = some fn →
      ∀ y, y ∈ calledStmts (F.funcs.map (·.name)) fn.body → y ∈ F.funcs.map (·.name) :=
    fun x fn _ _ y hy => ((calledStmts_iff _ y fn.body).mp hy).1
  have hspec : ∀ x fn, F.findFunc x = some fn → x ∈ F.funcs.map (·.name) := by
    intro x fn hf
    obtain ⟨hmem, hname⟩ := findFunc_some_mem hf
    exact List.mem_map.mpr ⟨fn, hmem, hname⟩
  unfold pruneUnusedImports
  simp only []
  split
  · exact ⟨⟨fun _ => rfl, fun _ _ => rfl⟩, fun _ _ => rfl, fun _ h => h, hspec, hclosed⟩
  · have hfuncs := funcs_pruneImportItems (usedPackages (importNames F) F.items) F.items
    have hff : ∀ x, GFile.findFunc { items := pruneImportItems (usedPackages (importNames F) F.items) F.items } x =
        F.findFunc x := by
      intro x; unfold GFile.findFunc; rw [hfuncs]
    refine ⟨⟨?_, ?_⟩, fun x _ => hff x, fun x h => by rw [hff x]; exact h, hspec, hclosed⟩
    · intro n
      unfold GFile.structFields
      exact findSome_pruneImportItems _ (fun _ => rfl) _ _
    · intro s i
      unfold GFile.structImplements
      simp only []
      rw [findSome_pruneImportItems _ (fun _ => rfl), findSome_pruneImportItems _ (fun _ => rfl)]

/-! ### assembly -/

/-- a call of `main` with no arguments in the initial world: same result with the same fuel in a
    file related by `PruneRel`, provided `main` is not a dropped function -/
theorem prune_main {G G' : GFile} {fns R : Names} (hR : PruneRel G G' fns R)
    (hmain : okName fns R "main" = true) (m : Nat) (w0 : GWorld) (h0 : w0.heap = #[]) (hs0 : w0.spawned = []) :
    callG m G' w0 (.func "main") [] = callG m G w0 (.func "main") [] := by
  have hw : WG (okName fns R) w0 := by
    refine ⟨by rw [h0]; rfl, ?_⟩
    intro p hp; rw [hs0] at hp; cases hp
  obtain ⟨r, a, b, _⟩ := (prune_all hR m).cl (f := .func "main") (args := []) (w := w0) hmain rfl hw
  rw [a, b]

theorem main_reachable (F : GFile) : okName (F.funcs.map (·.name)) (reachable F) "main" = true := by
  unfold okName
  by_cases hm : "main" ∈ F.funcs.map (·.name)
  · have : "main" ∈ reachable F := by
      unfold reachable
      apply closure_sub
      simp only [List.mem_filter, List.contains_iff_mem]
      exact ⟨by decide, by simpa using hm⟩
    simp [this]
  · simp [hm]

/-- **file-level preservation, calls**: inside the contract `fileDceOK`, every definite call of
    `main` (no arguments, initial world) in `F` is reproduced by `eliminateDeadVars F` -/
theorem dce_file_call {F : GFile} (hok : fileDceOK F = true) (n : Nat) (w0 : GWorld) (h0 : w0.heap = #[])
    (hs0 : w0.spawned = []) (r : GRes GVal) (h : callG n F w0 (.func "main") [] = r) (hdef : Definite r) :
    ∃ m, callG m (eliminateDeadVars F) w0 (.func "main") [] = r := by
  obtain ⟨m, hm⟩ := mapDce_preserves_call hok n w0 (.func "main") [] r h hdef
  have hnd : ((mapDce F).funcs.map (·.name)).Nodup := by
    unfold fileDceOK at hok
    simp only [Bool.and_eq_true, decide_eq_true_eq] at hok
    rw [funcs_mapDce, List.map_map]
    exact hok.2
  have e2 := prune_main (pruneRel_dead (mapDce F) hnd) (main_reachable (mapDce F)) m w0 h0 hs0
  have hmain3 : okName ((pruneDeadFunctions (mapDce F)).funcs.map (·.name)) ((pruneDeadFunctions (mapDce F)).funcs.map (·.name))
      "main" = true := by
    unfold okName
    cases hc : ((pruneDeadFunctions (mapDce F)).funcs.map (·.name)).contains "main" <;> simp [hc]
  have e3 := prune_main (pruneRel_imports (pruneDeadFunctions (mapDce F))) hmain3 m w0 h0 hs0
  refine ⟨m, ?_⟩
  show callG m (pruneUnusedImports (pruneDeadFunctions (mapDce F))) w0 (.func "main") [] = r
  rw [e3, e2, hm]

end Goml.Dce
