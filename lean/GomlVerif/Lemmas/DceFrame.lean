import GomlVerif.Lemmas.GoSemMono
import GomlVerif.Lemmas.DceScope
/-!
Frame lemma for the statements of `Go.Sem`: a block leaves the entries of its environment in
place (same keys, position by position) and changes only the values of the names it assigns.
-/
set_option linter.unusedSimpArgs false
set_option linter.unusedVariables false
namespace Goml.Dce
open Goml.Go Goml.Sem

/-- same keys position by position; values equal except for keys in `W` -/
inductive FrameEq (W : Names) : GEnv → GEnv → Prop
  | nil : FrameEq W [] []
  | cons {x : String} {v v' : GVal} {ρ ρ' : GEnv} :
      (¬ x ∈ W → v = v') → FrameEq W ρ ρ' → FrameEq W ((x, v) :: ρ) ((x, v') :: ρ')

theorem FrameEq.refl (W : Names) : ∀ ρ : GEnv, FrameEq W ρ ρ
  | [] => .nil
  | (x, v) :: ρ => .cons (fun _ => rfl) (FrameEq.refl W ρ)

theorem FrameEq.mono {W W' : Names} (hs : ∀ x ∈ W, x ∈ W') : ∀ {ρ ρ' : GEnv}, FrameEq W ρ ρ' → FrameEq W' ρ ρ'
  | _, _, .nil => .nil
  | _, _, .cons h t => .cons (fun hx => h (fun hw => hx (hs _ hw))) (FrameEq.mono hs t)

theorem FrameEq.trans {W : Names} : ∀ {ρ1 ρ2 ρ3 : GEnv}, FrameEq W ρ1 ρ2 → FrameEq W ρ2 ρ3 → FrameEq W ρ1 ρ3
  | _, _, _, .nil, .nil => .nil
  | _, _, _, .cons h1 t1, .cons h2 t2 => .cons (fun hx => (h1 hx).trans (h2 hx)) (FrameEq.trans t1 t2)

theorem FrameEq.length {W : Names} : ∀ {ρ ρ' : GEnv}, FrameEq W ρ ρ' → ρ.length = ρ'.length
  | _, _, .nil => rfl
  | _, _, .cons _ t => by simp [FrameEq.length t]

theorem FrameEq.keys {W : Names} : ∀ {ρ ρ' : GEnv}, FrameEq W ρ ρ' → ρ.map (·.1) = ρ'.map (·.1)
  | _, _, .nil => rfl
  | _, _, .cons _ t => by simp [FrameEq.keys t]

theorem FrameEq.lookup {W : Names} {y : String} (hy : ¬ y ∈ W) : ∀ {ρ ρ' : GEnv}, FrameEq W ρ ρ' →
    lookupG ρ y = lookupG ρ' y
  | _, _, .nil => rfl
  | _, _, .cons (x := x) h t => by
    unfold lookupG
    simp only [List.find?_cons]
    by_cases hxy : x = y
    · subst hxy; simp [h hy]
    · have : (x == y) = false := by simp [hxy]
      simp only [this]
      have := FrameEq.lookup hy t
      unfold lookupG at this
      exact this

theorem frame_update (x : String) (v : GVal) : ∀ ρ : GEnv, FrameEq [x] ρ (updateG ρ x v)
  | [] => .nil
  | (y, w) :: rest => by
    unfold updateG
    by_cases h : y = x
    · subst h; simp; exact .cons (fun hx => absurd (List.mem_singleton.mpr rfl) hx) (FrameEq.refl _ _)
    · have : (y == x) = false := by simp [h]
      simp only [this]
      exact .cons (fun _ => rfl) (frame_update x v rest)


set_option hygiene false in
/-- in a hypothesis `h : … = .ok …`, case on the result of a sub-call: failure is impossible -/
macro "ocall " hx:ident v:ident w:ident " : " t0:term : tactic => `(tactic|
  (cases $hx:ident : $t0
   rotate_left
   next => (rw [$hx:ident] at h; simp only at h; first | cases h | skip)
   rename_i $v:ident $w:ident
   rw [$hx:ident] at h; try simp only at h))

theorem drop_append_len {α : Type} (pre t : List α) (k : Nat) (hk : t.length = k) :
    (pre ++ t).drop ((pre ++ t).length - k) = t := by
  subst hk
  simp

def writesOpt : Option (List GStmt) → Names
  | some b => writesStmts b
  | none => []

theorem writes_switch (e : GExpr) (cs : List GCase) (d : Option (List GStmt)) :
    writesStmt (.switch e cs d) = uni (writesCases cs) (writesOpt d) := by
  cases d <;> simp [writesStmt, writesOpt]

theorem writes_tswitch (bind : Option String) (e : GExpr) (cs : List GTCase) (d : Option (List GStmt)) :
    writesStmt (.tswitch bind e cs d) = uni (writesTCases cs) (writesOpt d) := by
  cases d <;> simp [writesStmt, writesOpt]

structure FrameAt (n : Nat) : Prop where
  bl : ∀ {F ρ w ss ρ' sig w'}, execBlockG n F ρ w ss = .ok (ρ', sig) w' →
        ∃ pre ρ'', ρ' = pre ++ ρ'' ∧ FrameEq (writesStmts ss) ρ ρ'' ∧ ∀ x ∈ pre.map (·.1), x ∈ declTop ss
  ne : ∀ {F ρ w ss ρ' sig w'}, nestedG n F ρ w ss = .ok (ρ', sig) w' → FrameEq (writesStmts ss) ρ ρ'
  ex : ∀ {F ρ w s ρ' sig w'}, execG n F ρ w s = .ok (ρ', sig) w' →
        ∃ pre ρ'', ρ' = pre ++ ρ'' ∧ FrameEq (writesStmt s) ρ ρ'' ∧ pre.map (·.1) = declScope s []
  sw : ∀ {F ρ w v cs d ρ' sig w'}, switchG n F ρ w v cs d = .ok (ρ', sig) w' →
        FrameEq (uni (writesCases cs) (writesOpt d)) ρ ρ'
  ts : ∀ {F ρ w v cs d ρ' sig w'}, tswitchG n F ρ w v cs d = .ok (ρ', sig) w' →
        FrameEq (uni (writesTCases cs) (writesOpt d)) ρ ρ'

theorem frame0 : FrameAt 0 := by
  constructor <;> intros <;> simp_all [execBlockG, nestedG, execG, switchG, tswitchG]

theorem declTop_cons (s : GStmt) (rest : List GStmt) (x : String) :
    x ∈ declTop (s :: rest) ↔ x ∈ declScope s [] ∨ x ∈ declTop rest := by
  cases s <;> simp [declTop, declScope]

theorem FrameEq.split_prefix {W : Names} : ∀ (a b c : GEnv), FrameEq W (a ++ b) c →
    ∃ c1 c2, c = c1 ++ c2 ∧ FrameEq W b c2 ∧ c1.map (·.1) = a.map (·.1)
  | [], b, c, hf => ⟨[], c, rfl, hf, rfl⟩
  | hd :: tl, b, c, hf => by
    cases hf with
    | cons hv ht =>
      obtain ⟨c1, c2, ec, fc, hk⟩ := FrameEq.split_prefix tl b _ ht
      exact ⟨(_, _) :: c1, c2, by rw [ec]; rfl, fc, by simp [hk]⟩

theorem frameB (n : Nat) (ih : FrameAt n) {F ρ w ss ρ' sig w'}
    (h : execBlockG (n+1) F ρ w ss = .ok (ρ', sig) w') :
    ∃ pre ρ'', ρ' = pre ++ ρ'' ∧ FrameEq (writesStmts ss) ρ ρ'' ∧ ∀ x ∈ pre.map (·.1), x ∈ declTop ss := by
  cases ss with
  | nil =>
    rw [execBlockG.eq_def] at h; simp only at h
    cases h
    exact ⟨[], ρ, rfl, FrameEq.refl _ _, by simp⟩
  | cons s rest =>
    rw [execBlockG.eq_def] at h; simp only at h
    ocall h1 p w1 : execG n F ρ w s
    obtain ⟨ρ1, sig1⟩ := p
    obtain ⟨pre1, ρ1'', e1, f1, hk1⟩ := ih.ex h1
    have f1' : FrameEq (writesStmts (s :: rest)) ρ ρ1'' :=
      f1.mono (fun x hx => by simp [writesStmts, hx])
    have hpre1 : ∀ x ∈ pre1.map (·.1), x ∈ declTop (s :: rest) := by
      intro x hx; rw [hk1] at hx; exact (declTop_cons s rest x).mpr (Or.inl hx)
    cases sig1 <;> simp only at h
    · obtain ⟨pre2, ρ2'', e2, f2, hk2⟩ := ih.bl h
      subst e1
      have f2' : FrameEq (writesStmts (s :: rest)) (pre1 ++ ρ1'') ρ2'' :=
        f2.mono (fun x hx => by simp [writesStmts, hx])
      obtain ⟨c1, c2, ec, fc, hc⟩ := FrameEq.split_prefix pre1 ρ1'' ρ2'' f2'
      refine ⟨pre2 ++ c1, c2, by rw [e2, ec, List.append_assoc], f1'.trans fc, ?_⟩
      intro x hx
      simp only [List.map_append, List.mem_append] at hx
      rcases hx with hx | hx
      · exact (declTop_cons s rest x).mpr (Or.inr (hk2 x hx))
      · rw [hc] at hx; exact hpre1 x hx
    · cases h; exact ⟨pre1, ρ1'', e1, f1', hpre1⟩
    · cases h; exact ⟨pre1, ρ1'', e1, f1', hpre1⟩

theorem frameN (n : Nat) (ih : FrameAt n) {F ρ w ss ρ' sig w'}
    (h : nestedG (n+1) F ρ w ss = .ok (ρ', sig) w') : FrameEq (writesStmts ss) ρ ρ' := by
  rw [nestedG.eq_def] at h; simp only at h
  ocall h1 p w1 : execBlockG n F ρ w ss
  obtain ⟨ρ1, sig1⟩ := p
  obtain ⟨pre, ρ'', e1, f1, _⟩ := ih.bl h1
  simp only at h
  cases h
  subst e1
  rw [drop_append_len pre ρ'' ρ.length f1.length.symm]
  exact f1


theorem frameS (n : Nat) (ih : FrameAt n) {F ρ w v cs d ρ' sig w'}
    (h : switchG (n+1) F ρ w v cs d = .ok (ρ', sig) w') :
    FrameEq (uni (writesCases cs) (writesOpt d)) ρ ρ' := by
  cases cs with
  | nil =>
    rw [switchG.eq_def] at h; simp only at h
    cases d with
    | none => simp only at h; cases h; exact FrameEq.refl _ _
    | some b =>
      simp only at h
      exact (ih.ne h).mono (fun x hx => by simp [writesOpt, hx])
  | cons c rest =>
    cases c with
    | mk ce body =>
      rw [switchG.eq_def] at h; simp only at h
      ocall h1 cv w1 : evalG n F ρ w ce
      split at h
      · exact (ih.ne h).mono (fun x hx => by simp [writesCases, hx])
      · exact (ih.sw h).mono (fun x hx => by
          simp only [mem_uni, writesCases] at hx ⊢
          rcases hx with hx | hx
          · exact Or.inl (Or.inr hx)
          · exact Or.inr hx)

theorem frameT (n : Nat) (ih : FrameAt n) {F ρ w v cs d ρ' sig w'}
    (h : tswitchG (n+1) F ρ w v cs d = .ok (ρ', sig) w') :
    FrameEq (uni (writesTCases cs) (writesOpt d)) ρ ρ' := by
  cases cs with
  | nil =>
    rw [tswitchG.eq_def] at h; simp only at h
    cases d with
    | none => simp only at h; cases h; exact FrameEq.refl _ _
    | some b =>
      simp only at h
      exact (ih.ne h).mono (fun x hx => by simp [writesOpt, hx])
  | cons c rest =>
    cases c with
    | mk ty body =>
      rw [tswitchG.eq_def] at h; simp only at h
      split at h
      all_goals
        split at h
        · exact (ih.ne h).mono (fun x hx => by simp [writesTCases, hx])
        · exact (ih.ts h).mono (fun x hx => by
            simp only [mem_uni, writesTCases] at hx ⊢
            rcases hx with hx | hx
            · exact Or.inl (Or.inr hx)
            · exact Or.inr hx)

theorem frameX (n : Nat) (ih : FrameAt n) {F ρ w s ρ' sig w'}
    (h : execG (n+1) F ρ w s = .ok (ρ', sig) w') :
    ∃ pre ρ'', ρ' = pre ++ ρ'' ∧ FrameEq (writesStmt s) ρ ρ'' ∧ pre.map (·.1) = declScope s [] := by
  have same : ∀ {W}, ρ' = ρ → ∃ pre ρ'', ρ' = pre ++ ρ'' ∧ FrameEq W ρ ρ'' ∧ pre.map (·.1) = ([] : Names) :=
    fun e => ⟨[], ρ, by simp [e], FrameEq.refl _ _, rfl⟩
  have upd : ∀ {W}, FrameEq W ρ ρ' → ∃ pre ρ'', ρ' = pre ++ ρ'' ∧ FrameEq W ρ ρ'' ∧ pre.map (·.1) = ([] : Names) :=
    fun f => ⟨[], ρ', by simp, f, rfl⟩
  cases s with
  | expr e =>
    rw [execG.eq_def] at h; simp only at h
    ocall h1 v1 w1 : evalG n F ρ w e
    cases h; exact same rfl
  | go call =>
    rw [execG.eq_def] at h; simp only at h
    cases call with
    | call t f args =>
      simp only at h
      ocall h1 fv w1 : evalG n F ρ w f
      ocall h2 vs w2 : evalListG n F ρ w1 args
      split at h
      · ocall h3 v3 w3 : callG n F w2 fv vs
        cases h; exact same rfl
      · cases h; exact same rfl
    | _ => cases h
  | varDecl x ty v =>
    rw [execG.eq_def] at h; simp only at h
    split at h
    · cases h
    · cases v with
      | none =>
        simp only at h; cases h
        exact ⟨[(x, zero F ty)], ρ, rfl, FrameEq.refl _ _, rfl⟩
      | some e =>
        simp only at h
        ocall h1 v1 w1 : evalG n F ρ w e
        cases h
        exact ⟨[(x, v1)], ρ, rfl, FrameEq.refl _ _, rfl⟩
  | assign x e =>
    rw [execG.eq_def] at h; simp only at h
    ocall h1 v1 w1 : evalG n F ρ w e
    by_cases hx : (x == "_") = true
    · simp only [hx, if_true] at h; cases h; exact same rfl
    · simp only [hx, if_false, Bool.false_eq_true] at h; cases h
      exact upd (by simpa [writesStmt] using frame_update x v1 ρ)
  | fieldAssign target e =>
    rw [execG.eq_def] at h; simp only at h
    cases target with
    | field f t obj =>
      simp only at h
      ocall h1 ov w1 : evalG n F ρ w obj
      ocall h2 v2 w2 : evalG n F ρ w1 e
      split at h
      · split at h
        · cases h; exact same rfl
        · cases h
      · rename_i x tx
        cases h
        exact upd ((frame_update x _ ρ).mono (fun y hy => by
          simp only [List.mem_singleton] at hy; subst hy; simp [writesStmt, varsUsed]))
      · cases h
      · cases h
    | _ => cases h
  | ptrAssign p e =>
    rw [execG.eq_def] at h; simp only at h
    ocall h1 pv w1 : evalG n F ρ w p
    cases pv with
    | ptr l =>
      simp only at h
      ocall h2 v2 w2 : evalG n F ρ w1 e
      cases h; exact same rfl
    | _ => cases h
  | indexAssign arr idx e =>
    rw [execG.eq_def] at h; simp only at h
    cases arr with
    | var x t =>
      simp only at h
      ocall h1 iv w1 : evalG n F ρ w idx
      cases hl : lookupG ρ x with
      | none => rw [hl] at h; cases iv <;> cases h
      | some av =>
        rw [hl] at h
        cases av with
        | array vs =>
          cases iv with
          | int a b i =>
            simp only at h
            ocall h2 v2 w2 : evalG n F ρ w1 e
            split at h
            · cases h
            · cases h
              exact upd ((frame_update x _ ρ).mono (fun y hy => by
                simp only [List.mem_singleton] at hy; subst hy; simp [writesStmt, varsUsed]))
          | _ => cases h
        | _ => cases iv <;> cases h
    | _ => cases h
  | ret e =>
    rw [execG.eq_def] at h; simp only at h
    cases e with
    | none => simp only at h; cases h; exact same rfl
    | some e =>
      simp only at h
      ocall h1 v1 w1 : evalG n F ρ w e
      cases h; exact same rfl
  | ite c t e =>
    rw [execG.eq_def] at h; simp only at h
    ocall h1 cv w1 : evalG n F ρ w c
    cases e with
    | none =>
      cases cv with
      | bool b =>
        cases b <;> simp only at h
        · cases h; exact same rfl
        · exact upd ((ih.ne h).mono (fun y hy => by simp [writesStmt, hy]))
      | _ => cases h
    | some eb =>
      cases cv with
      | bool b =>
        cases b <;> simp only at h
        · exact upd ((ih.ne h).mono (fun y hy => by simp [writesStmt, hy]))
        · exact upd ((ih.ne h).mono (fun y hy => by simp [writesStmt, hy]))
      | _ => cases h
  | loop body =>
    rw [execG.eq_def] at h; simp only at h
    ocall h1 p w1 : nestedG n F ρ w body
    obtain ⟨ρ1, sig1⟩ := p
    have f1 := ih.ne h1
    cases sig1 <;> simp only at h
    · obtain ⟨pre, ρ'', e2, f2, hp⟩ := ih.ex h
      simp only [declScope] at hp
      have : pre = [] := by simpa using hp
      subst this
      simp only [List.nil_append] at e2
      subst e2
      exact upd ((f1.mono (fun y hy => by simp [writesStmt, hy])).trans f2)
    · cases h; exact upd (f1.mono (fun y hy => by simp [writesStmt, hy]))
    · cases h; exact upd (f1.mono (fun y hy => by simp [writesStmt, hy]))
  | brk =>
    rw [execG.eq_def] at h; simp only at h
    cases h; exact same rfl
  | «switch» e cs d =>
    rw [execG.eq_def] at h; simp only at h
    ocall h1 v1 w1 : evalG n F ρ w e
    exact upd (by rw [writes_switch]; exact ih.sw h)
  | tswitch bind e cs d =>
    rw [execG.eq_def] at h; simp only at h
    ocall h1 v1 w1 : evalG n F ρ w e
    have hW : ∀ y, y ∈ uni (writesTCases cs) (writesOpt d) →
        y ∈ writesStmt (.tswitch bind e cs d) := by
      intro y hy; rw [writes_tswitch]; exact hy
    cases bind with
    | none =>
      simp only at h
      ocall h2 p w2 : tswitchG n F ρ w1 v1 cs d
      obtain ⟨ρ2, sig2⟩ := p
      simp only at h
      have f2 := ih.ts h2
      cases h
      rw [show ρ2.length - ρ.length = 0 by rw [f2.length]; simp]
      exact ⟨[], ρ2, by simp, f2.mono hW, rfl⟩
    | some b =>
      simp only at h
      by_cases hb : (b == "_") = true
      · simp only [hb, if_true] at h
        ocall h2 p w2 : tswitchG n F ρ w1 v1 cs d
        obtain ⟨ρ2, sig2⟩ := p
        simp only at h
        have f2 := ih.ts h2
        cases h
        rw [show ρ2.length - ρ.length = 0 by rw [f2.length]; simp]
        exact ⟨[], ρ2, by simp, f2.mono hW, rfl⟩
      · simp only [hb, if_false, Bool.false_eq_true] at h
        ocall h2 p w2 : tswitchG n F ((b, v1) :: ρ) w1 v1 cs d
        obtain ⟨ρ2, sig2⟩ := p
        simp only at h
        have f2 := ih.ts h2
        cases h
        cases f2 with
        | cons hv ht =>
          rename_i v2 ρ3
          rw [show ((b, v2) :: ρ3).length - ρ.length = 1 by rw [List.length_cons, ht.length]; omega]
          exact ⟨[], ρ3, by simp, ht.mono hW, rfl⟩

theorem frame_all : ∀ n, FrameAt n
  | 0 => frame0
  | n + 1 =>
    have ih := frame_all n
    { bl := frameB n ih, ne := frameN n ih, ex := frameX n ih, sw := frameS n ih, ts := frameT n ih }

end Goml.Dce
