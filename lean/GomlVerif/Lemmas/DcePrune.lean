import GomlVerif.Lemmas.DceSyntax
/-! lemmas behind `prune_imports_exact` and `prune_funcs_closed` (`Props/Dce.lean`) -/
set_option linter.unusedSimpArgs false
set_option linter.unusedVariables false
namespace Goml.Dce
open Goml.Go

/-- the import specs of a file -/
def importSpecs (items : List GItem) : List (String × String) :=
  items.flatMap fun | .imports s => s | _ => []

def methodsExprs : List GMethod → List GExpr
  | [] => []
  | m :: ms => exprsS m.body ++ methodsExprs ms

/-- every expression in a function or method body of the file -/
def itemsExprs : List GItem → List GExpr
  | [] => []
  | .func g :: rest => exprsS g.body ++ itemsExprs rest
  | .structDef _ _ ms :: rest => methodsExprs ms ++ itemsExprs rest
  | _ :: rest => itemsExprs rest

theorem pkgsMethods_iff (imps : Names) (p : String) : ∀ ms : List GMethod,
    p ∈ pkgsMethods imps ms ↔ p ∈ imps ∧ AnyE (CallsPkg p) (methodsExprs ms)
  | [] => by simp [pkgsMethods, methodsExprs, anyE_nil]
  | m :: ms => by
    have h1 := pkgsStmts_iff imps p m.body
    have h2 := pkgsMethods_iff imps p ms
    simp only [pkgsMethods, methodsExprs, mem_uni, anyE_append, h1, h2, and_or_left]

theorem usedPackages_iff (imps : Names) (p : String) : ∀ items : List GItem,
    p ∈ usedPackages imps items ↔ p ∈ imps ∧ AnyE (CallsPkg p) (itemsExprs items)
  | [] => by simp [usedPackages, itemsExprs, anyE_nil]
  | it :: rest => by
    have h2 := usedPackages_iff imps p rest
    cases it with
    | func g =>
      have h1 := pkgsStmts_iff imps p g.body
      simp only [usedPackages, pkgsItem, itemsExprs, mem_uni, anyE_append, h1, h2, and_or_left]
    | structDef n fs ms =>
      have h1 := pkgsMethods_iff imps p ms
      simp only [usedPackages, pkgsItem, itemsExprs, mem_uni, anyE_append, h1, h2, and_or_left]
    | package n => simp [usedPackages, pkgsItem, itemsExprs, h2]
    | imports s => simp [usedPackages, pkgsItem, itemsExprs, h2]
    | interface n ms => simp [usedPackages, pkgsItem, itemsExprs, h2]
    | «alias» n t => simp [usedPackages, pkgsItem, itemsExprs, h2]

theorem pruneImportItems_specs (used : Names) (spec : String × String) : ∀ items : List GItem,
    spec ∈ importSpecs (pruneImportItems used items) ↔
      spec ∈ importSpecs items ∧ specBinding spec ∈ used
  | [] => by simp [pruneImportItems, importSpecs]
  | it :: rest => by
    have ih := pruneImportItems_specs used spec rest
    simp only [importSpecs] at ih ⊢
    cases it with
    | imports s =>
      simp only [pruneImportItems]
      split
      · rename_i hk
        simp only [List.flatMap_cons, List.mem_append, ih]
        have : ¬ (spec ∈ s ∧ specBinding spec ∈ used) := by
          intro ⟨h1, h2⟩
          have : spec ∈ s.filter (fun s => used.contains (specBinding s)) := by
            simp [List.mem_filter, h1, h2]
          rw [List.isEmpty_iff] at hk
          rw [hk] at this; cases this
        constructor
        · intro h; exact ⟨Or.inr h.1, h.2⟩
        · rintro ⟨h1 | h1, h2⟩
          · exact absurd ⟨h1, h2⟩ this
          · exact ⟨h1, h2⟩
      · simp only [List.flatMap_cons, List.mem_append, ih, List.mem_filter, List.contains_iff_mem]
        constructor
        · rintro (⟨h1, h2⟩ | ⟨h1, h2⟩)
          · exact ⟨Or.inl h1, by simpa using h2⟩
          · exact ⟨Or.inr h1, h2⟩
        · rintro ⟨h1 | h1, h2⟩
          · exact Or.inl ⟨h1, by simpa using h2⟩
          · exact Or.inr ⟨h1, h2⟩
    | func g => simpa [pruneImportItems, List.flatMap_cons] using ih
    | structDef n fs ms => simpa [pruneImportItems, List.flatMap_cons] using ih
    | package n => simpa [pruneImportItems, List.flatMap_cons] using ih
    | interface n ms => simpa [pruneImportItems, List.flatMap_cons] using ih
    | «alias» n t => simpa [pruneImportItems, List.flatMap_cons] using ih

theorem importNames_eq (F : GFile) : importNames F = (importSpecs F.items).map specBinding := by
  unfold importNames importSpecs
  induction F.items with
  | nil => rfl
  | cons it rest ih =>
    simp only [List.flatMap_cons, List.map_append, ih]
    cases it <;> simp


theorem closure_sub (fs : List GFunc) (fns reach : Names) : ∀ x ∈ reach, x ∈ closure fs fns reach := by
  induction reach using closure.induct fs fns with
  | case1 reach h => intro x hx; rw [closure, if_pos h]; exact hx
  | case2 reach h ih =>
    intro x hx; rw [closure, if_neg h]; exact ih x (List.mem_append_left _ hx)

theorem closure_closed (fs : List GFunc) (fns reach : Names) :
    ∀ x ∈ calleesOf fs fns (closure fs fns reach), x ∈ fns → x ∈ closure fs fns reach := by
  induction reach using closure.induct fs fns with
  | case1 reach h =>
    rw [closure, if_pos h]
    intro x hx hf
    by_cases hr : x ∈ reach
    · exact hr
    · have : x ∈ newOf fs fns reach := by
        simp [newOf, List.mem_filter, hx, hf, hr]
      rw [h] at this; cases this
  | case2 reach h ih => rw [closure, if_neg h]; exact ih

theorem mem_calleesOf (fs : List GFunc) (fns : Names) (x : String) : ∀ rs : Names,
    x ∈ calleesOf fs fns rs ↔ ∃ n ∈ rs, ∃ f, lastFunc fs n = some f ∧ x ∈ calledStmts fns f.body
  | [] => by simp [calleesOf]
  | n :: rs => by
    have ih := mem_calleesOf fs fns x rs
    simp only [calleesOf, mem_uni, ih, List.mem_cons, exists_eq_or_imp]
    cases h : lastFunc fs n <;> simp

theorem find?_nodup (n : String) : ∀ (fs : List GFunc) (g : GFunc),
    (fs.map (·.name)).Nodup → g ∈ fs → g.name = n → fs.find? (·.name == n) = some g
  | [], g, _, h, _ => by cases h
  | a :: t, g, hnd, h, hn => by
    simp only [List.map_cons, List.nodup_cons] at hnd
    simp only [List.find?_cons]
    cases h with
    | head => simp [hn]
    | tail _ ht =>
      have : a.name ≠ n := by
        intro ha
        apply hnd.1
        rw [ha, ← hn]
        exact List.mem_map_of_mem ht
      have hb : (a.name == n) = false := by simp [this]
      rw [hb]
      exact find?_nodup n t g hnd.2 ht hn

theorem lastFunc_of_mem (fs : List GFunc) (g : GFunc) (hnd : (fs.map (·.name)).Nodup) (h : g ∈ fs) :
    lastFunc fs g.name = some g := by
  unfold lastFunc
  apply find?_nodup g.name fs.reverse g
  · rw [List.map_reverse]
    unfold List.Nodup at *
    rw [List.pairwise_reverse]
    exact hnd.imp (fun h => Ne.symm h)
  · simpa using h
  · rfl

theorem funcs_filter (items : List GItem) (R : Names) :
    (GFile.funcs { items := items.filter (keepItem R) }) =
      (GFile.funcs { items := items }).filter (fun g => R.contains g.name) := by
  unfold GFile.funcs
  induction items with
  | nil => rfl
  | cons it rest ih =>
    simp only [] at ih ⊢
    cases it with
    | func g =>
      by_cases hg : g.name ∈ R
      · simp [List.filter_cons, hg, List.filterMap_cons, keepItem]; simpa using ih
      · simp [List.filter_cons, hg, List.filterMap_cons, keepItem]; simpa using ih
    | package n => simpa [List.filter_cons, List.filterMap_cons, keepItem] using ih
    | imports s => simpa [List.filter_cons, List.filterMap_cons, keepItem] using ih
    | interface n ms => simpa [List.filter_cons, List.filterMap_cons, keepItem] using ih
    | structDef n fs ms => simpa [List.filter_cons, List.filterMap_cons, keepItem] using ih
    | «alias» n t => simpa [List.filter_cons, List.filterMap_cons, keepItem] using ih

theorem pruned_funcs (F : GFile) :
    (pruneDeadFunctions F).funcs = F.funcs.filter (fun g => (reachable F).contains g.name) ∨
      (pruneDeadFunctions F = F ∧ F.funcs = []) := by
  unfold pruneDeadFunctions
  split
  · rename_i h; right; exact ⟨rfl, by simpa [List.isEmpty_iff] using h⟩
  · left; rw [funcs_filter]


end Goml.Dce
