import GomlVerif.Lemmas.DceSyntax
/-!
Lemmas behind `dce_no_unused` and `dce_decl_before_use`: soundness of the `live` / `needs_decl`
sets of `dce_block_with_live` with respect to Go's scope rules.
-/
set_option linter.unusedSimpArgs false
set_option linter.unusedVariables false
set_option linter.unnecessarySimpa false
namespace Goml.Dce
open Goml.Go

/-! ### `dce_expr` is the identity on expressions without block expressions -/
mutual
theorem dceExpr_id : ∀ e : GExpr, noBlockExpr e = true → dceExpr e = e
  | .field f t o, h => by simp [noBlockExpr] at h; simp [dceExpr, dceExpr_id o h]
  | .index t a i, h => by
    simp [noBlockExpr] at h; simp [dceExpr, dceExpr_id a h.1, dceExpr_id i h.2]
  | .cast t e, h => by simp [noBlockExpr] at h; simp [dceExpr, dceExpr_id e h]
  | .slit t fs, h => by simp [noBlockExpr] at h; simp [dceExpr, dceFields_id fs h]
  | .alit t es, h => by simp [noBlockExpr] at h; simp [dceExpr, dceExprs_id es h]
  | .un op t e, h => by simp [noBlockExpr] at h; simp [dceExpr, dceExpr_id e h]
  | .bin op t l r, h => by
    simp [noBlockExpr] at h; simp [dceExpr, dceExpr_id l h.1, dceExpr_id r h.2]
  | .blocke t ss e, h => by simp [noBlockExpr] at h
  | .call t f args, h => by
    simp [noBlockExpr] at h; simp [dceExpr, dceExpr_id f h.1, dceExprs_id args h.2]
  | .nil t, _ => by simp [dceExpr]
  | .voidv t, _ => by simp [dceExpr]
  | .unitv t, _ => by simp [dceExpr]
  | .var x t, _ => by simp [dceExpr]
  | .bool b, _ => by simp [dceExpr]
  | .int v t, _ => by simp [dceExpr]
  | .float v t, _ => by simp [dceExpr]
  | .str s, _ => by simp [dceExpr]
theorem dceExprs_id : ∀ es : List GExpr, noBlockList es = true → dceExprs es = es
  | [], _ => by simp [dceExprs]
  | e :: es, h => by
    simp [noBlockList] at h; simp [dceExprs, dceExpr_id e h.1, dceExprs_id es h.2]
theorem dceFields_id : ∀ fs : List GField, noBlockFields fs = true → dceFields fs = fs
  | [], _ => by simp [dceFields]
  | .mk n e :: fs, h => by
    simp [noBlockFields] at h; simp [dceFields, dceExpr_id e h.1, dceFields_id fs h.2]
end

theorem reads_keepEffect (e : GExpr) : readsStmt (keepEffect e) = varsUsed e := by
  unfold keepEffect
  split
  · split <;> simp [readsStmt]
  · simp [readsStmt]
  · simp [readsStmt]

theorem assigned_keepEffect (e : GExpr) (x : String) (h : x ∈ assignedStmt (keepEffect e)) : x = "_" := by
  unfold keepEffect at h
  split at h
  · split at h <;> simp [assignedStmt] at h
    exact h
  · simp [assignedStmt] at h
  · simpa [assignedStmt] using h

/-! ### soundness of `live` and `needs_decl` with respect to the reads of the output -/
theorem mem_reads_append (x : String) : ∀ a b : List GStmt,
    x ∈ readsStmts (a ++ b) ↔ x ∈ readsStmts a ∨ x ∈ readsStmts b
  | [], b => by simp [readsStmts]
  | s :: a, b => by
    have ih := mem_reads_append x a b
    simp only [List.cons_append, readsStmts, mem_uni, ih, or_assoc]

theorem mem_reads_cons (x : String) (s : GStmt) (b : List GStmt) :
    x ∈ readsStmts (s :: b) ↔ x ∈ readsStmt s ∨ x ∈ readsStmts b := by
  simp [readsStmts]

mutual
theorem live_sub_stmts : ∀ (ss : List GStmt) (L : Names) (x : String),
    x ∈ (dceStmts ss L).live → x ∈ readsStmts (dceStmts ss L).out ∨ x ∈ L
  | [], L, x, h => by simp [dceStmts] at h; exact Or.inr h
  | s :: rest, L, x, h => by
    simp only [dceStmts] at h ⊢
    rw [mem_reads_append]
    rcases live_sub_stmt s _ _ x h with h1 | h1
    · exact Or.inl (Or.inl h1)
    · rcases live_sub_stmts rest L x h1 with h2 | h2
      · exact Or.inl (Or.inr h2)
      · exact Or.inr h2
theorem live_sub_stmt : ∀ (s : GStmt) (live needs : Names) (x : String),
    x ∈ (dceStmt s live needs).live → x ∈ readsStmts (dceStmt s live needs).out ∨ x ∈ live
  | .expr e, live, needs, x, h => by
    simp [dceStmt, readsStmts, readsStmt] at h ⊢; rcases h with h | h <;> simp [h]
  | .go e, live, needs, x, h => by
    simp [dceStmt, readsStmts, readsStmt] at h ⊢; rcases h with h | h <;> simp [h]
  | .varDecl y ty none, live, needs, x, h => by
    by_cases hl : y ∈ live
    · simp [dceStmt, hl] at h ⊢; exact Or.inr h.1
    · by_cases hn : y ∈ needs
      · simp [dceStmt, hl, hn] at h ⊢; exact Or.inr h
      · simp [dceStmt, hl, hn] at h ⊢; exact Or.inr h
  | .varDecl y ty (some e), live, needs, x, h => by
    by_cases hl : y ∈ live
    · simp [dceStmt, hl, readsStmts, readsStmt] at h ⊢
      rcases h.1 with h | h <;> simp [h]
    · by_cases hn : y ∈ needs
      · by_cases he : exprEffects (dceExpr e) = true
        · simp [dceStmt, hl, hn, he, readsStmts, readsStmt, reads_keepEffect] at h ⊢
          rcases h with h | h <;> simp [h]
        · simp [dceStmt, hl, hn, he, readsStmts, readsStmt] at h ⊢; exact h
      · by_cases he : exprEffects (dceExpr e) = true
        · simp [dceStmt, hl, hn, he, readsStmts, readsStmt, reads_keepEffect] at h ⊢
          rcases h with h | h <;> simp [h]
        · simp [dceStmt, hl, hn, he, readsStmts, readsStmt] at h ⊢; exact h
  | .assign y v, live, needs, x, h => by
    by_cases hl : y ∈ live
    · simp [dceStmt, hl, readsStmts, readsStmt] at h ⊢
      rcases h.1 with h | h <;> simp [h]
    · by_cases he : exprEffects (dceExpr v) = true
      · simp [dceStmt, hl, he, readsStmts, readsStmt, reads_keepEffect] at h ⊢
        rcases h with h | h <;> simp [h]
      · simp [dceStmt, hl, he, readsStmts, readsStmt] at h ⊢; exact h
  | .indexAssign a i v, live, needs, x, h => by
    simp [dceStmt, readsStmts, readsStmt] at h ⊢
    rcases h with ((h | h) | h) | h <;> simp [h]
  | .ptrAssign p v, live, needs, x, h => by
    simp [dceStmt, readsStmts, readsStmt] at h ⊢
    rcases h with (h | h) | h <;> simp [h]
  | .fieldAssign p v, live, needs, x, h => by
    simp [dceStmt, readsStmts, readsStmt] at h ⊢
    rcases h with (h | h) | h <;> simp [h]
  | .ret (some e), live, needs, x, h => by
    simp [dceStmt, readsStmts, readsStmt] at h ⊢; rcases h with h | h <;> simp [h]
  | .ret none, live, needs, x, h => by
    simp [dceStmt] at h; exact Or.inr h
  | .loop body, live, needs, x, h => by
    simp [dceStmt, readsStmts, readsStmt] at h ⊢
    rcases h with h | h
    · exact Or.inr h
    · rcases live_sub_stmts body live x h with h1 | h1
      · exact Or.inl h1
      · exact Or.inr h1
  | .brk, live, needs, x, h => by
    simp [dceStmt] at h; exact Or.inr h
  | .ite c t (some b), live, needs, x, h => by
    simp [dceStmt, readsStmts, readsStmt] at h ⊢
    rcases h with ((h | h) | h) | h
    · exact Or.inr h
    · exact Or.inl (Or.inl h)
    · rcases live_sub_stmts t live x h with h1 | h1
      · exact Or.inl (Or.inr (Or.inl h1))
      · exact Or.inr h1
    · rcases live_sub_stmts b live x h with h1 | h1
      · exact Or.inl (Or.inr (Or.inr h1))
      · exact Or.inr h1
  | .ite c t none, live, needs, x, h => by
    simp [dceStmt, readsStmts, readsStmt] at h ⊢
    rcases h with (h | h) | h
    · exact Or.inr h
    · exact Or.inl (Or.inl h)
    · rcases live_sub_stmts t live x h with h1 | h1
      · exact Or.inl (Or.inr h1)
      · exact Or.inr h1
  | .switch e cs (some b), live, needs, x, h => by
    simp [dceStmt, readsStmts, readsStmt] at h ⊢
    have hc := live_sub_cases cs live x
    rcases h with ((h | h) | h) | h
    · rcases hc (Or.inl h) with h1 | h1
      · exact Or.inl (Or.inr (Or.inl h1))
      · exact Or.inr h1
    · exact Or.inl (Or.inl h)
    · rcases hc (Or.inr h) with h1 | h1
      · exact Or.inl (Or.inr (Or.inl h1))
      · exact Or.inr h1
    · rcases live_sub_stmts b _ x h with h1 | h1
      · exact Or.inl (Or.inr (Or.inr h1))
      · rcases hc (Or.inl h1) with h2 | h2
        · exact Or.inl (Or.inr (Or.inl h2))
        · exact Or.inr h2
  | .switch e cs none, live, needs, x, h => by
    simp [dceStmt, readsStmts, readsStmt] at h ⊢
    have hc := live_sub_cases cs live x
    rcases h with (h | h) | h
    · rcases hc (Or.inl h) with h1 | h1
      · exact Or.inl (Or.inr h1)
      · exact Or.inr h1
    · exact Or.inl (Or.inl h)
    · rcases hc (Or.inr h) with h1 | h1
      · exact Or.inl (Or.inr h1)
      · exact Or.inr h1
  | .tswitch bind e cs (some b), live, needs, x, h => by
    simp [dceStmt, readsStmts, readsStmt] at h ⊢
    rcases h with ((h | h) | h) | h
    · exact Or.inr h
    · exact Or.inl (Or.inl h)
    · rcases live_sub_tcases cs live x h with h1 | h1
      · exact Or.inl (Or.inr (Or.inl h1))
      · exact Or.inr h1
    · rcases live_sub_stmts b live x h with h1 | h1
      · exact Or.inl (Or.inr (Or.inr h1))
      · exact Or.inr h1
  | .tswitch bind e cs none, live, needs, x, h => by
    simp [dceStmt, readsStmts, readsStmt] at h ⊢
    rcases h with (h | h) | h
    · exact Or.inr h
    · exact Or.inl (Or.inl h)
    · rcases live_sub_tcases cs live x h with h1 | h1
      · exact Or.inl (Or.inr h1)
      · exact Or.inr h1
theorem live_sub_cases : ∀ (cs : List GCase) (live : Names) (x : String),
    (x ∈ (dceCases cs live).live ∨ x ∈ (dceCases cs live).liveIn) →
      x ∈ readsCases (dceCases cs live).cases ∨ x ∈ live
  | [], live, x, h => by simp [dceCases] at h; exact Or.inr h
  | .mk v b :: rest, live, x, h => by
    simp only [dceCases, readsCases, mem_uni] at h ⊢
    have ih := live_sub_cases rest (uni live (varsUsed (dceExpr v))) x
    have ihb := live_sub_stmts b live x
    rcases h with h | h | h
    · rcases ih (Or.inl h) with h1 | h1
      · exact Or.inl (Or.inr (Or.inr h1))
      · simp at h1; rcases h1 with h1 | h1
        · exact Or.inr h1
        · exact Or.inl (Or.inl h1)
    · rcases ihb h with h1 | h1
      · exact Or.inl (Or.inr (Or.inl h1))
      · exact Or.inr h1
    · rcases ih (Or.inr h) with h1 | h1
      · exact Or.inl (Or.inr (Or.inr h1))
      · simp at h1; rcases h1 with h1 | h1
        · exact Or.inr h1
        · exact Or.inl (Or.inl h1)
theorem live_sub_tcases : ∀ (cs : List GTCase) (live : Names) (x : String),
    x ∈ (dceTCases cs live).liveIn → x ∈ readsTCases (dceTCases cs live).cases ∨ x ∈ live
  | [], live, x, h => by simp [dceTCases] at h
  | .mk t b :: rest, live, x, h => by
    simp only [dceTCases, readsTCases, mem_uni] at h ⊢
    rcases h with h | h
    · rcases live_sub_stmts b live x h with h1 | h1
      · exact Or.inl (Or.inl h1)
      · exact Or.inr h1
    · rcases live_sub_tcases rest live x h with h1 | h1
      · exact Or.inl (Or.inr h1)
      · exact Or.inr h1
end

theorem mem_assigned_append (x : String) : ∀ a b : List GStmt,
    x ∈ assignedStmts (a ++ b) ↔ x ∈ assignedStmts a ∨ x ∈ assignedStmts b
  | [], b => by simp [assignedStmts]
  | s :: a, b => by
    have ih := mem_assigned_append x a b
    simp only [List.cons_append, assignedStmts, mem_uni, ih, or_assoc]

mutual
theorem needs_sub_stmts : ∀ (ss : List GStmt) (L : Names) (x : String),
    x ∈ (dceStmts ss L).needs → x ∈ assignedStmts (dceStmts ss L).out
  | [], L, x, h => by simp [dceStmts] at h
  | s :: rest, L, x, h => by
    simp only [dceStmts] at h ⊢
    rw [mem_assigned_append]
    rcases needs_sub_stmt s _ _ x h with h1 | h1
    · exact Or.inl h1
    · exact Or.inr (needs_sub_stmts rest L x h1)
theorem needs_sub_stmt : ∀ (s : GStmt) (live needs : Names) (x : String),
    x ∈ (dceStmt s live needs).needs → x ∈ assignedStmts (dceStmt s live needs).out ∨ x ∈ needs
  | .expr e, live, needs, x, h => by simp [dceStmt] at h; exact Or.inr h
  | .go e, live, needs, x, h => by simp [dceStmt] at h; exact Or.inr h
  | .varDecl y ty none, live, needs, x, h => by
    by_cases hl : y ∈ live
    · simp [dceStmt, hl] at h ⊢; exact Or.inr h
    · by_cases hn : y ∈ needs
      · simp [dceStmt, hl, hn] at h ⊢; exact Or.inr h.1
      · simp [dceStmt, hl, hn] at h ⊢; exact Or.inr h
  | .varDecl y ty (some e), live, needs, x, h => by
    by_cases hl : y ∈ live
    · simp [dceStmt, hl] at h ⊢; exact Or.inr h
    · by_cases hn : y ∈ needs
      · by_cases he : exprEffects (dceExpr e) = true
        · simp [dceStmt, hl, hn, he] at h ⊢; exact Or.inr h.1
        · simp [dceStmt, hl, hn, he] at h ⊢; exact Or.inr h.1
      · by_cases he : exprEffects (dceExpr e) = true
        · simp [dceStmt, hl, hn, he] at h ⊢; exact Or.inr h
        · simp [dceStmt, hl, hn, he] at h ⊢; exact Or.inr h
  | .assign y v, live, needs, x, h => by
    by_cases hl : y ∈ live
    · simp [dceStmt, hl, assignedStmts, assignedStmt] at h ⊢
      rcases h with h | h <;> simp [h]
    · by_cases he : exprEffects (dceExpr v) = true
      · simp [dceStmt, hl, he] at h ⊢; exact Or.inr h
      · simp [dceStmt, hl, he] at h ⊢; exact Or.inr h
  | .indexAssign a i v, live, needs, x, h => by simp [dceStmt] at h; exact Or.inr h
  | .ptrAssign p v, live, needs, x, h => by simp [dceStmt] at h; exact Or.inr h
  | .fieldAssign p v, live, needs, x, h => by simp [dceStmt] at h; exact Or.inr h
  | .ret (some e), live, needs, x, h => by simp [dceStmt] at h; exact Or.inr h
  | .ret none, live, needs, x, h => by simp [dceStmt] at h; exact Or.inr h
  | .loop body, live, needs, x, h => by
    simp [dceStmt, assignedStmts, assignedStmt] at h ⊢
    rcases h with h | h <;> simp [h]
  | .brk, live, needs, x, h => by simp [dceStmt] at h; exact Or.inr h
  | .ite c t (some b), live, needs, x, h => by
    simp [dceStmt, assignedStmts, assignedStmt] at h ⊢
    rcases h with (h | h) | h <;> simp [h]
  | .ite c t none, live, needs, x, h => by
    simp [dceStmt, assignedStmts, assignedStmt] at h ⊢
    rcases h with h | h <;> simp [h]
  | .switch e cs (some b), live, needs, x, h => by
    simp [dceStmt, assignedStmts, assignedStmt] at h ⊢
    rcases h with (h | h) | h
    · exact Or.inr h
    · exact Or.inl (Or.inl (needs_sub_cases cs live x h))
    · exact Or.inl (Or.inr h)
  | .switch e cs none, live, needs, x, h => by
    simp [dceStmt, assignedStmts, assignedStmt] at h ⊢
    rcases h with h | h
    · exact Or.inr h
    · exact Or.inl (needs_sub_cases cs live x h)
  | .tswitch bind e cs (some b), live, needs, x, h => by
    simp [dceStmt, assignedStmts, assignedStmt] at h ⊢
    rcases h with (h | h) | h
    · exact Or.inr h
    · exact Or.inl (Or.inl (needs_sub_tcases cs live x h))
    · exact Or.inl (Or.inr h)
  | .tswitch bind e cs none, live, needs, x, h => by
    simp [dceStmt, assignedStmts, assignedStmt] at h ⊢
    rcases h with h | h
    · exact Or.inr h
    · exact Or.inl (needs_sub_tcases cs live x h)
theorem needs_sub_cases : ∀ (cs : List GCase) (live : Names) (x : String),
    x ∈ (dceCases cs live).needs → x ∈ assignedCases (dceCases cs live).cases
  | [], live, x, h => by simp [dceCases] at h
  | .mk v b :: rest, live, x, h => by
    simp only [dceCases, assignedCases, mem_uni] at h ⊢
    rcases h with h | h
    · exact Or.inl h
    · exact Or.inr (needs_sub_cases rest _ x h)
theorem needs_sub_tcases : ∀ (cs : List GTCase) (live : Names) (x : String),
    x ∈ (dceTCases cs live).needs → x ∈ assignedTCases (dceTCases cs live).cases
  | [], live, x, h => by simp [dceTCases] at h
  | .mk t b :: rest, live, x, h => by
    simp only [dceTCases, assignedTCases, mem_uni] at h ⊢
    rcases h with h | h
    · exact Or.inl h
    · exact Or.inr (needs_sub_tcases rest _ x h)
end

theorem live_cases_sub (cs : List GCase) (live : Names) (x : String)
    (h : x ∈ (dceCases cs live).live) : x ∈ readsCases (dceCases cs live).cases ∨ x ∈ live :=
  live_sub_cases cs live x (Or.inl h)

mutual
theorem assigned_sub_stmts : ∀ (ss : List GStmt) (L : Names) (x : String),
    x ∈ assignedStmts (dceStmts ss L).out → x = "_" ∨ x ∈ readsStmts (dceStmts ss L).out ∨ x ∈ L
  | [], L, x, h => by simp [dceStmts, assignedStmts] at h
  | s :: rest, L, x, h => by
    simp only [dceStmts] at h ⊢
    rw [mem_assigned_append] at h
    rw [mem_reads_append]
    rcases h with h | h
    · rcases assigned_sub_stmt s _ _ x h with h1 | h1 | h1
      · exact Or.inl h1
      · exact Or.inr (Or.inl (Or.inl h1))
      · rcases live_sub_stmts rest L x h1 with h2 | h2
        · exact Or.inr (Or.inl (Or.inr h2))
        · exact Or.inr (Or.inr h2)
    · rcases assigned_sub_stmts rest L x h with h1 | h1 | h1
      · exact Or.inl h1
      · exact Or.inr (Or.inl (Or.inr h1))
      · exact Or.inr (Or.inr h1)
theorem assigned_sub_stmt : ∀ (s : GStmt) (live needs : Names) (x : String),
    x ∈ assignedStmts (dceStmt s live needs).out →
      x = "_" ∨ x ∈ readsStmts (dceStmt s live needs).out ∨ x ∈ live
  | .expr e, live, needs, x, h => by simp [dceStmt, assignedStmts, assignedStmt] at h
  | .go e, live, needs, x, h => by simp [dceStmt, assignedStmts, assignedStmt] at h
  | .varDecl y ty none, live, needs, x, h => by
    by_cases hl : y ∈ live
    · simp [dceStmt, hl, assignedStmts, assignedStmt] at h
    · by_cases hn : y ∈ needs
      · simp [dceStmt, hl, hn, assignedStmts, assignedStmt] at h
      · simp [dceStmt, hl, hn, assignedStmts, assignedStmt] at h
  | .varDecl y ty (some e), live, needs, x, h => by
    by_cases hl : y ∈ live
    · simp [dceStmt, hl, assignedStmts, assignedStmt] at h
    · by_cases hn : y ∈ needs
      · by_cases he : exprEffects (dceExpr e) = true
        · simp [dceStmt, hl, hn, he, assignedStmts, assignedStmt] at h
          exact Or.inl (assigned_keepEffect _ x h)
        · simp [dceStmt, hl, hn, he, assignedStmts, assignedStmt] at h
      · by_cases he : exprEffects (dceExpr e) = true
        · simp [dceStmt, hl, hn, he, assignedStmts, assignedStmt] at h
          exact Or.inl (assigned_keepEffect _ x h)
        · simp [dceStmt, hl, hn, he, assignedStmts, assignedStmt] at h
  | .assign y v, live, needs, x, h => by
    by_cases hl : y ∈ live
    · simp [dceStmt, hl, assignedStmts, assignedStmt] at h ⊢
      subst h; exact Or.inr (Or.inr hl)
    · by_cases he : exprEffects (dceExpr v) = true
      · simp [dceStmt, hl, he, assignedStmts, assignedStmt] at h
        exact Or.inl (assigned_keepEffect _ x h)
      · simp [dceStmt, hl, he, assignedStmts, assignedStmt] at h
  | .indexAssign a i v, live, needs, x, h => by simp [dceStmt, assignedStmts, assignedStmt] at h
  | .ptrAssign p v, live, needs, x, h => by simp [dceStmt, assignedStmts, assignedStmt] at h
  | .fieldAssign p v, live, needs, x, h => by simp [dceStmt, assignedStmts, assignedStmt] at h
  | .ret (some e), live, needs, x, h => by simp [dceStmt, assignedStmts, assignedStmt] at h
  | .ret none, live, needs, x, h => by simp [dceStmt, assignedStmts, assignedStmt] at h
  | .loop body, live, needs, x, h => by
    simp [dceStmt, assignedStmts, assignedStmt, readsStmts, readsStmt] at h ⊢
    exact assigned_sub_stmts body live x h
  | .brk, live, needs, x, h => by simp [dceStmt, assignedStmts, assignedStmt] at h
  | .ite c t (some b), live, needs, x, h => by
    simp [dceStmt, assignedStmts, assignedStmt, readsStmts, readsStmt] at h ⊢
    rcases h with h | h
    · rcases assigned_sub_stmts t live x h with h1 | h1 | h1 <;> simp [h1]
    · rcases assigned_sub_stmts b live x h with h1 | h1 | h1 <;> simp [h1]
  | .ite c t none, live, needs, x, h => by
    simp [dceStmt, assignedStmts, assignedStmt, readsStmts, readsStmt] at h ⊢
    rcases assigned_sub_stmts t live x h with h1 | h1 | h1 <;> simp [h1]
  | .switch e cs (some b), live, needs, x, h => by
    simp [dceStmt, assignedStmts, assignedStmt, readsStmts, readsStmt] at h ⊢
    rcases h with h | h
    · rcases assigned_sub_cases cs live x h with h1 | h1 | h1 <;> simp [h1]
    · rcases assigned_sub_stmts b _ x h with h1 | h1 | h1
      · simp [h1]
      · simp [h1]
      · rcases live_cases_sub cs live x h1 with h2 | h2 <;> simp [h2]
  | .switch e cs none, live, needs, x, h => by
    simp [dceStmt, assignedStmts, assignedStmt, readsStmts, readsStmt] at h ⊢
    rcases assigned_sub_cases cs live x h with h1 | h1 | h1 <;> simp [h1]
  | .tswitch bind e cs (some b), live, needs, x, h => by
    simp [dceStmt, assignedStmts, assignedStmt, readsStmts, readsStmt] at h ⊢
    rcases h with h | h
    · rcases assigned_sub_tcases cs live x h with h1 | h1 | h1 <;> simp [h1]
    · rcases assigned_sub_stmts b live x h with h1 | h1 | h1 <;> simp [h1]
  | .tswitch bind e cs none, live, needs, x, h => by
    simp [dceStmt, assignedStmts, assignedStmt, readsStmts, readsStmt] at h ⊢
    rcases assigned_sub_tcases cs live x h with h1 | h1 | h1 <;> simp [h1]
theorem assigned_sub_cases : ∀ (cs : List GCase) (live : Names) (x : String),
    x ∈ assignedCases (dceCases cs live).cases →
      x = "_" ∨ x ∈ readsCases (dceCases cs live).cases ∨ x ∈ live
  | [], live, x, h => by simp [dceCases, assignedCases] at h
  | .mk v b :: rest, live, x, h => by
    simp only [dceCases, assignedCases, readsCases, mem_uni] at h ⊢
    rcases h with h | h
    · rcases assigned_sub_stmts b live x h with h1 | h1 | h1 <;> simp [h1]
    · rcases assigned_sub_cases rest _ x h with h1 | h1 | h1
      · simp [h1]
      · simp [h1]
      · simp at h1; rcases h1 with h1 | h1 <;> simp [h1]
theorem assigned_sub_tcases : ∀ (cs : List GTCase) (live : Names) (x : String),
    x ∈ assignedTCases (dceTCases cs live).cases →
      x = "_" ∨ x ∈ readsTCases (dceTCases cs live).cases ∨ x ∈ live
  | [], live, x, h => by simp [dceTCases, assignedTCases] at h
  | .mk t b :: rest, live, x, h => by
    simp only [dceTCases, assignedTCases, readsTCases, mem_uni] at h ⊢
    rcases h with h | h
    · rcases assigned_sub_stmts b live x h with h1 | h1 | h1 <;> simp [h1]
    · rcases assigned_sub_tcases rest _ x h with h1 | h1 | h1 <;> simp [h1]
end

/-! ### the scope invariant of the backward scan -/
def Cover (scI scO live needs : Names) : Prop := ∀ y ∈ scI, (y ∈ live ∨ y ∈ needs) → y ∈ scO
def Sub (scO scI : Names) : Prop := ∀ y ∈ scO, y ∈ scI
def LiveIn (D L sc : Names) : Prop := ∀ x ∈ L, x ∈ D → x ∈ sc

theorem undecl_nil {D sc us : Names} : undecl D sc us = [] ↔ ∀ x ∈ us, x ∈ D → x ∈ sc := by
  unfold undecl
  simp [List.filter_eq_nil_iff]

theorem undecl_transfer {D scI scO us live needs : Names} (h : undecl D scI us = [])
    (hl : ∀ y ∈ us, y ∈ D → y ∈ live) (hc : Cover scI scO live needs) : undecl D scO us = [] := by
  rw [undecl_nil] at h ⊢
  intro x hx hD
  exact hc x (h x hx hD) (Or.inl (hl x hx hD))

theorem scopeErrs_keepEffect (D sc : Names) (e : GExpr) :
    scopeErrsStmt D sc (keepEffect e) = undecl D sc (varsUsed e) := by
  unfold keepEffect
  split
  · split <;> simp [scopeErrsStmt]
  · simp [scopeErrsStmt]
  · simp [scopeErrsStmt]

theorem keepEffect_cases (e : GExpr) : keepEffect e = .expr e ∨ keepEffect e = .assign "_" e := by
  unfold keepEffect
  split
  · split <;> simp
  · simp
  · simp

theorem keepEffect_nodecl (e : GExpr) (sc : Names) : declScope (keepEffect e) sc = sc := by
  rcases keepEffect_cases e with h | h <;> rw [h] <;> rfl

theorem unused_keepEffect (e : GExpr) (rest : List GStmt) :
    unusedStmts (keepEffect e :: rest) = unusedStmts rest := by
  unfold keepEffect
  split
  · split <;> simp [unusedStmts, unusedNested]
  · simp [unusedStmts, unusedNested]
  · simp [unusedStmts, unusedNested]

/-- the statement of the main scope lemma for one block -/
def ScopeGoal (D : Names) (ss : List GStmt) : Prop :=
  ∀ (scI scO L : Names),
    scopeErrs D scI ss = [] → shapeOK ss = true → LiveIn D L scI →
    Cover scI scO (dceStmts ss L).live (dceStmts ss L).needs → Sub scO scI →
    LiveIn D (dceStmts ss L).live scI ∧ scopeErrs D scO (dceStmts ss L).out = [] ∧
      unusedStmts (dceStmts ss L).out = []

/-- a statement that is kept as it is, declares nothing and contains no block -/
theorem step_simple (D : Names) (s : GStmt) (rest : List GStmt) (us : Names)
    (hd : ∀ live needs, shapeOKStmt s = true →
      (dceStmt s live needs).out = [s] ∧ (dceStmt s live needs).needs = needs ∧
        ∀ x, x ∈ (dceStmt s live needs).live ↔ x ∈ live ∨ x ∈ us)
    (hs : ∀ sc, scopeErrsStmt D sc s = undecl D sc us)
    (hnd : ∀ sc : Names, declScope s sc = sc)
    (hu : ∀ restOut, unusedStmts (s :: restOut) = unusedStmts restOut)
    (IH : ScopeGoal D rest) : ScopeGoal D (s :: rest) := by
  intro scI scO L h1 h2 h3 h4 h5
  simp only [scopeErrs, List.append_eq_nil_iff, hnd, hs] at h1
  simp only [shapeOK, Bool.and_eq_true] at h2
  obtain ⟨ho, hn, hl⟩ := hd (dceStmts rest L).live (dceStmts rest L).needs h2.1
  simp only [dceStmts] at h4 ⊢
  rw [hn] at h4
  rw [ho]
  have hc' : Cover scI scO (dceStmts rest L).live (dceStmts rest L).needs := by
    intro y hy hyl
    apply h4 y hy
    rcases hyl with h | h
    · exact Or.inl ((hl y).mpr (Or.inl h))
    · exact Or.inr h
  obtain ⟨i1, i2, i3⟩ := IH scI scO L h1.2 h2.2 h3 hc' h5
  refine ⟨?_, ?_, ?_⟩
  · intro x hx hD
    rcases (hl x).mp hx with h | h
    · exact i1 x h hD
    · exact (undecl_nil.mp h1.1) x h hD
  · simp only [List.singleton_append, scopeErrs, hnd, hs, List.append_eq_nil_iff]
    refine ⟨?_, i2⟩
    exact undecl_transfer h1.1 (fun y hy _ => (hl y).mpr (Or.inr hy)) h4
  · simp only [List.singleton_append, hu]; exact i3

theorem Cover.mono {scI scO live needs live' needs' : Names} (h : Cover scI scO live needs)
    (hl : ∀ y ∈ live', y ∈ live) (hn : ∀ y ∈ needs', y ∈ needs) : Cover scI scO live' needs' := by
  intro y hy hyl
  apply h y hy
  rcases hyl with h | h
  · exact Or.inl (hl y h)
  · exact Or.inr (hn y h)

theorem cases_live_mono : ∀ (cs : List GCase) (live : Names) (x : String),
    x ∈ live → x ∈ (dceCases cs live).live
  | [], live, x, h => by simpa [dceCases] using h
  | .mk v b :: rest, live, x, h => by
    simp only [dceCases]
    exact cases_live_mono rest _ x (by simp [h])

mutual
theorem used_sub_reads : ∀ (ss : List GStmt) (x : String), x ∈ usedStmts ss → x ∈ readsStmts ss
  | [], x, h => by simp [usedStmts] at h
  | s :: rest, x, h => by
    simp only [usedStmts, readsStmts, mem_uni] at h ⊢
    rcases h with h | h
    · exact Or.inl (usedStmt_sub_reads s x h)
    · exact Or.inr (used_sub_reads rest x h)
theorem usedStmt_sub_reads : ∀ (s : GStmt) (x : String), x ∈ usedStmt s → x ∈ readsStmt s
  | .expr e, x, h => by simpa [usedStmt, readsStmt] using h
  | .go e, x, h => by simpa [usedStmt, readsStmt] using h
  | .varDecl _ _ v, x, h => by cases v <;> simpa [usedStmt, readsStmt] using h
  | .assign _ v, x, h => by simpa [usedStmt, readsStmt] using h
  | .indexAssign a i v, x, h => by simpa [usedStmt, readsStmt] using h
  | .ptrAssign a v, x, h => by simpa [usedStmt, readsStmt] using h
  | .fieldAssign a v, x, h => by simpa [usedStmt, readsStmt] using h
  | .ret v, x, h => by cases v <;> simpa [usedStmt, readsStmt] using h
  | .brk, x, h => by simp [usedStmt] at h
  | .loop b, x, h => by
    simp only [usedStmt, readsStmt, mem_diff] at h ⊢
    exact used_sub_reads b x h.1
  | .ite c t none, x, h => by
    simp only [usedStmt, readsStmt, mem_uni, mem_diff] at h ⊢
    rcases h with h | h | h
    · exact Or.inl h
    · exact Or.inr (Or.inl (used_sub_reads t x h.1))
    · simp at h
  | .ite c t (some b), x, h => by
    simp only [usedStmt, readsStmt, mem_uni, mem_diff] at h ⊢
    rcases h with h | h | h
    · exact Or.inl h
    · exact Or.inr (Or.inl (used_sub_reads t x h.1))
    · exact Or.inr (Or.inr (used_sub_reads b x h.1))
  | .switch e cs none, x, h => by
    simp only [usedStmt, readsStmt, mem_uni, mem_diff] at h ⊢
    rcases h with h | h | h
    · exact Or.inl h
    · exact Or.inr (Or.inl (usedCases_sub_reads cs x h))
    · simp at h
  | .switch e cs (some b), x, h => by
    simp only [usedStmt, readsStmt, mem_uni, mem_diff] at h ⊢
    rcases h with h | h | h
    · exact Or.inl h
    · exact Or.inr (Or.inl (usedCases_sub_reads cs x h))
    · exact Or.inr (Or.inr (used_sub_reads b x h.1))
  | .tswitch _ e cs none, x, h => by
    simp only [usedStmt, readsStmt, mem_uni, mem_diff] at h ⊢
    rcases h with h | h | h
    · exact Or.inl h
    · exact Or.inr (Or.inl (usedTCases_sub_reads cs x h))
    · simp at h
  | .tswitch _ e cs (some b), x, h => by
    simp only [usedStmt, readsStmt, mem_uni, mem_diff] at h ⊢
    rcases h with h | h | h
    · exact Or.inl h
    · exact Or.inr (Or.inl (usedTCases_sub_reads cs x h))
    · exact Or.inr (Or.inr (used_sub_reads b x h.1))
theorem usedCases_sub_reads : ∀ (cs : List GCase) (x : String), x ∈ usedCases cs → x ∈ readsCases cs
  | [], x, h => by simp [usedCases] at h
  | .mk v b :: rest, x, h => by
    simp only [usedCases, readsCases, mem_uni, mem_diff] at h ⊢
    rcases h with h | h | h
    · exact Or.inl h
    · exact Or.inr (Or.inl (used_sub_reads b x h.1))
    · exact Or.inr (Or.inr (usedCases_sub_reads rest x h))
theorem usedTCases_sub_reads : ∀ (cs : List GTCase) (x : String), x ∈ usedTCases cs → x ∈ readsTCases cs
  | [], x, h => by simp [usedTCases] at h
  | .mk _ b :: rest, x, h => by
    simp only [usedTCases, readsTCases, mem_uni, mem_diff] at h ⊢
    rcases h with h | h
    · exact Or.inl (used_sub_reads b x h.1)
    · exact Or.inr (usedTCases_sub_reads rest x h)
end

theorem freeVars_sub_reads (b : List GStmt) (x : String) (h : x ∈ freeVars b) : x ∈ readsStmts b := by
  unfold freeVars at h
  exact used_sub_reads b x (mem_diff.mp h).1


/-! ### the main scope lemma -/
/-- the statement of the scope lemma for the case list of a `switch` -/
def ScopeGoalC (D : Names) (cs : List GCase) : Prop :=
  ∀ (scI scO live : Names),
    scopeErrsCases D scI cs = [] → shapeOKCases cs = true → LiveIn D live scI →
    Cover scI scO (uni (dceCases cs live).live (dceCases cs live).liveIn) (dceCases cs live).needs →
    Sub scO scI →
    LiveIn D (dceCases cs live).live scI ∧ LiveIn D (dceCases cs live).liveIn scI ∧
      scopeErrsCases D scO (dceCases cs live).cases = [] ∧ unusedCases (dceCases cs live).cases = []

def ScopeGoalT (D : Names) (cs : List GTCase) : Prop :=
  ∀ (scI scO live : Names),
    scopeErrsTCases D scI cs = [] → shapeOKTCases cs = true → LiveIn D live scI →
    Cover scI scO (dceTCases cs live).liveIn (dceTCases cs live).needs → Sub scO scI →
    LiveIn D (dceTCases cs live).liveIn scI ∧
      scopeErrsTCases D scO (dceTCases cs live).cases = [] ∧
      unusedTCases (dceTCases cs live).cases = [] ∧
      (∀ x ∈ (dceTCases cs live).free, x ∈ readsTCases (dceTCases cs live).cases)

theorem declScope_varDecl (x : String) (t : GTy) (v : Option GExpr) (sc : Names) :
    declScope (.varDecl x t v) sc = x :: sc := rfl

theorem unused_varDecl (x : String) (t : GTy) (v : Option GExpr) (rest : List GStmt) :
    unusedStmts (.varDecl x t v :: rest) =
      (if x == "_" || (readsStmts rest).contains x then [] else [x]) ++ unusedStmts rest := by
  simp [unusedStmts, unusedNested]

theorem notin_of_contains_false {x : String} {l : Names} (h : l.contains x = false) : ¬ x ∈ l := by
  simpa using h

mutual
theorem scope_main (D : Names) : ∀ ss : List GStmt, ScopeGoal D ss
  | [] => by
    intro scI scO L h1 h2 h3 h4 h5
    simp [dceStmts, scopeErrs, unusedStmts]; exact h3
  | .expr e :: rest => by
    apply step_simple D (.expr e) rest (varsUsed e) _ _ _ _ (scope_main D rest)
    · intro live needs hs
      simp [shapeOKStmt] at hs
      simp [dceStmt, dceExpr_id e hs.1]
    · intro sc; simp [scopeErrsStmt]
    · intro sc; rfl
    · intro ro; simp [unusedStmts, unusedNested]
  | .go e :: rest => by
    apply step_simple D (.go e) rest (varsUsed e) _ _ _ _ (scope_main D rest)
    · intro live needs hs
      simp [shapeOKStmt] at hs
      simp [dceStmt, dceExpr_id e hs.1]
    · intro sc; simp [scopeErrsStmt]
    · intro sc; rfl
    · intro ro; simp [unusedStmts, unusedNested]
  | .indexAssign a i v :: rest => by
    apply step_simple D (.indexAssign a i v) rest (uni (varsUsed a) (uni (varsUsed i) (varsUsed v))) _ _ _ _ (scope_main D rest)
    · intro live needs hs
      simp [shapeOKStmt] at hs
      simp [dceStmt, dceExpr_id a hs.1.1.1, dceExpr_id i hs.1.1.2, dceExpr_id v hs.1.2, or_assoc]
    · intro sc; simp [scopeErrsStmt]
    · intro sc; rfl
    · intro ro; simp [unusedStmts, unusedNested]
  | .ptrAssign a v :: rest => by
    apply step_simple D (.ptrAssign a v) rest (uni (varsUsed a) (varsUsed v)) _ _ _ _ (scope_main D rest)
    · intro live needs hs
      simp [shapeOKStmt] at hs
      simp [dceStmt, dceExpr_id a hs.1.1, dceExpr_id v hs.1.2, or_assoc]
    · intro sc; simp [scopeErrsStmt]
    · intro sc; rfl
    · intro ro; simp [unusedStmts, unusedNested]
  | .fieldAssign a v :: rest => by
    apply step_simple D (.fieldAssign a v) rest (uni (varsUsed a) (varsUsed v)) _ _ _ _ (scope_main D rest)
    · intro live needs hs
      simp [shapeOKStmt] at hs
      simp [dceStmt, dceExpr_id a hs.1.1, dceExpr_id v hs.1.2, or_assoc]
    · intro sc; simp [scopeErrsStmt]
    · intro sc; rfl
    · intro ro; simp [unusedStmts, unusedNested]
  | .ret (some e) :: rest => by
    apply step_simple D (.ret (some e)) rest (varsUsed e) _ _ _ _ (scope_main D rest)
    · intro live needs hs
      simp [shapeOKStmt, noBlockOpt] at hs
      simp [dceStmt, dceExpr_id e hs.1]
    · intro sc; simp [scopeErrsStmt]
    · intro sc; rfl
    · intro ro; simp [unusedStmts, unusedNested]
  | .ret none :: rest => by
    apply step_simple D (.ret none) rest [] _ _ _ _ (scope_main D rest)
    · intro live needs hs
      simp [dceStmt]
    · intro sc; simp [scopeErrsStmt]
    · intro sc; rfl
    · intro ro; simp [unusedStmts, unusedNested]
  | .brk :: rest => by
    apply step_simple D .brk rest [] _ _ _ _ (scope_main D rest)
    · intro live needs hs
      simp [dceStmt]
    · intro sc; simp [scopeErrsStmt, undecl]
    · intro sc; rfl
    · intro ro; simp [unusedStmts, unusedNested]
  | .varDecl x ty (some e) :: rest => by
    intro scI scO L h1 h2 h3 h4 h5
    simp only [scopeErrs, scopeErrsStmt, declScope_varDecl, List.append_eq_nil_iff] at h1
    obtain ⟨⟨hu, hx⟩, hr⟩ := h1
    have hxI : ¬ x ∈ scI := by
      intro hm; simp [hm] at hx
    have hxD : x ∈ D := by
      by_cases hd : x ∈ D
      · exact hd
      · simp [hd] at hx
    have hxO : ¬ x ∈ scO := fun hm => hxI (h5 x hm)
    simp only [shapeOK, shapeOKStmt, Bool.and_eq_true, noBlockOpt] at h2
    obtain ⟨⟨⟨hnb, hx_⟩, _⟩, h2r⟩ := h2
    have hx_ : x ≠ "_" := by simpa using hx_
    have hid := dceExpr_id e hnb
    have hxL : ¬ x ∈ L := fun hm => hxI (h3 x hm hxD)
    have h3' : LiveIn D L (x :: scI) := fun y hy hD => List.mem_cons_of_mem _ (h3 y hy hD)
    simp only [dceStmts, dceStmt, hid] at h4 ⊢
    by_cases hl : x ∈ (dceStmts rest L).live
    · simp only [List.contains_iff_mem, hl, if_true] at h4 ⊢
      have hc' : Cover (x :: scI) (x :: scO) (dceStmts rest L).live (dceStmts rest L).needs := by
        intro y hy hyl
        rcases List.mem_cons.mp hy with rfl | hy
        · exact List.mem_cons_self ..
        · apply List.mem_cons_of_mem
          have hne : y ≠ x := fun h => hxI (h ▸ hy)
          apply h4 y hy
          rcases hyl with h | h
          · exact Or.inl (by simp [h, hne])
          · exact Or.inr h
      have h5' : Sub (x :: scO) (x :: scI) := by
        intro y hy
        rcases List.mem_cons.mp hy with rfl | hy
        · exact List.mem_cons_self ..
        · exact List.mem_cons_of_mem _ (h5 y hy)
      obtain ⟨i1, i2, i3⟩ := scope_main D rest (x :: scI) (x :: scO) L hr h2r h3' hc' h5'
      refine ⟨?_, ?_, ?_⟩
      · intro y hy hD
        simp only [mem_rem, mem_uni] at hy
        rcases hy.1 with h | h
        · rcases List.mem_cons.mp (i1 y h hD) with rfl | h'
          · exact absurd rfl hy.2
          · exact h'
        · exact (undecl_nil.mp hu) y h hD
      · simp only [List.singleton_append, scopeErrs, scopeErrsStmt, declScope_varDecl, List.append_eq_nil_iff]
        refine ⟨⟨?_, by simp [hxO, hxD]⟩, i2⟩
        apply undecl_transfer hu _ h4
        intro y hy hD
        have hne : y ≠ x := fun h => hxI (h ▸ (undecl_nil.mp hu) y hy hD)
        simp [hy, hne]
      · simp only [List.singleton_append, unused_varDecl, List.append_eq_nil_iff]
        refine ⟨?_, i3⟩
        rcases live_sub_stmts rest L x hl with h | h
        · simp [h]
        · exact absurd h hxL
    · by_cases hn : x ∈ (dceStmts rest L).needs
      · have hreads : x ∈ readsStmts (dceStmts rest L).out := by
          rcases assigned_sub_stmts rest L x (needs_sub_stmts rest L x hn) with h | h | h
          · exact absurd h hx_
          · exact h
          · exact absurd h hxL
        by_cases he : exprEffects e = true
        · simp only [List.contains_iff_mem, hl, hn, he, if_true, if_false, Bool.false_eq_true] at h4 ⊢
          have hc' : Cover (x :: scI) (x :: scO) (dceStmts rest L).live (dceStmts rest L).needs := by
            intro y hy hyl
            rcases List.mem_cons.mp hy with rfl | hy
            · exact List.mem_cons_self ..
            · apply List.mem_cons_of_mem
              have hne : y ≠ x := fun h => hxI (h ▸ hy)
              apply h4 y hy
              rcases hyl with h | h
              · exact Or.inl (by simp [h])
              · exact Or.inr (by simp [h, hne])
          have h5' : Sub (x :: scO) (x :: scI) := by
            intro y hy
            rcases List.mem_cons.mp hy with rfl | hy
            · exact List.mem_cons_self ..
            · exact List.mem_cons_of_mem _ (h5 y hy)
          obtain ⟨i1, i2, i3⟩ := scope_main D rest (x :: scI) (x :: scO) L hr h2r h3' hc' h5'
          refine ⟨?_, ?_, ?_⟩
          · intro y hy hD
            simp only [mem_uni] at hy
            rcases hy with h | h
            · rcases List.mem_cons.mp (i1 y h hD) with rfl | h'
              · exact absurd h hl
              · exact h'
            · exact (undecl_nil.mp hu) y h hD
          · simp only [List.cons_append, List.nil_append, scopeErrs, keepEffect_nodecl,
              scopeErrs_keepEffect, scopeErrsStmt, declScope_varDecl, List.append_eq_nil_iff]
            refine ⟨⟨by simp [undecl], by simp [hxO, hxD]⟩, ?_, i2⟩
            rw [undecl_nil]
            intro y hy hD
            apply List.mem_cons_of_mem
            exact h4 y ((undecl_nil.mp hu) y hy hD) (Or.inl (by simp [hy]))
          · simp only [List.cons_append, List.nil_append, unused_varDecl, unused_keepEffect, List.append_eq_nil_iff]
            refine ⟨?_, i3⟩
            simp [mem_reads_cons, hreads]
        · simp only [List.contains_iff_mem, hl, hn, he, if_true, if_false, Bool.false_eq_true] at h4 ⊢
          have hc' : Cover (x :: scI) (x :: scO) (dceStmts rest L).live (dceStmts rest L).needs := by
            intro y hy hyl
            rcases List.mem_cons.mp hy with rfl | hy
            · exact List.mem_cons_self ..
            · apply List.mem_cons_of_mem
              have hne : y ≠ x := fun h => hxI (h ▸ hy)
              apply h4 y hy
              rcases hyl with h | h
              · exact Or.inl h
              · exact Or.inr (by simp [h, hne])
          have h5' : Sub (x :: scO) (x :: scI) := by
            intro y hy
            rcases List.mem_cons.mp hy with rfl | hy
            · exact List.mem_cons_self ..
            · exact List.mem_cons_of_mem _ (h5 y hy)
          obtain ⟨i1, i2, i3⟩ := scope_main D rest (x :: scI) (x :: scO) L hr h2r h3' hc' h5'
          refine ⟨?_, ?_, ?_⟩
          · intro y hy hD
            rcases List.mem_cons.mp (i1 y hy hD) with rfl | h'
            · exact absurd hy hl
            · exact h'
          · simp [scopeErrs, scopeErrsStmt, declScope_varDecl, undecl, hxO, hxD, i2]
          · simp [unused_varDecl, hreads, i3]
      · have hc' : Cover (x :: scI) scO (dceStmts rest L).live (dceStmts rest L).needs → True := fun _ => trivial
        have h5' : Sub scO (x :: scI) := fun y hy => List.mem_cons_of_mem _ (h5 y hy)
        by_cases he : exprEffects e = true
        · simp only [List.contains_iff_mem, hl, hn, he, if_true, if_false, Bool.false_eq_true] at h4 ⊢
          have hc' : Cover (x :: scI) scO (dceStmts rest L).live (dceStmts rest L).needs := by
            intro y hy hyl
            rcases List.mem_cons.mp hy with rfl | hy
            · rcases hyl with h | h
              · exact absurd h hl
              · exact absurd h hn
            · apply h4 y hy
              rcases hyl with h | h
              · exact Or.inl (by simp [h])
              · exact Or.inr h
          obtain ⟨i1, i2, i3⟩ := scope_main D rest (x :: scI) scO L hr h2r h3' hc' h5'
          refine ⟨?_, ?_, ?_⟩
          · intro y hy hD
            simp only [mem_uni] at hy
            rcases hy with h | h
            · rcases List.mem_cons.mp (i1 y h hD) with rfl | h'
              · exact absurd h hl
              · exact h'
            · exact (undecl_nil.mp hu) y h hD
          · simp only [List.singleton_append, scopeErrs, List.append_eq_nil_iff, keepEffect_nodecl,
              scopeErrs_keepEffect]
            refine ⟨?_, i2⟩
            exact undecl_transfer hu (fun y hy _ => by simp [hy]) h4
          · simp only [List.singleton_append]
            rw [unused_keepEffect]; exact i3
        · simp only [List.contains_iff_mem, hl, hn, he, if_true, if_false, Bool.false_eq_true] at h4 ⊢
          have hc' : Cover (x :: scI) scO (dceStmts rest L).live (dceStmts rest L).needs := by
            intro y hy hyl
            rcases List.mem_cons.mp hy with rfl | hy
            · rcases hyl with h | h
              · exact absurd h hl
              · exact absurd h hn
            · exact h4 y hy hyl
          obtain ⟨i1, i2, i3⟩ := scope_main D rest (x :: scI) scO L hr h2r h3' hc' h5'
          refine ⟨?_, ?_, ?_⟩
          · intro y hy hD
            rcases List.mem_cons.mp (i1 y hy hD) with rfl | h'
            · exact absurd hy hl
            · exact h'
          · simp only [List.nil_append]; exact i2
          · simp only [List.nil_append]; exact i3
  | .varDecl x ty none :: rest => by
    intro scI scO L h1 h2 h3 h4 h5
    simp only [scopeErrs, scopeErrsStmt, declScope_varDecl, List.append_eq_nil_iff] at h1
    obtain ⟨⟨hu, hx⟩, hr⟩ := h1
    have hxI : ¬ x ∈ scI := by
      intro hm; simp [hm] at hx
    have hxD : x ∈ D := by
      by_cases hd : x ∈ D
      · exact hd
      · simp [hd] at hx
    have hxO : ¬ x ∈ scO := fun hm => hxI (h5 x hm)
    simp only [shapeOK, shapeOKStmt, Bool.and_eq_true, noBlockOpt] at h2
    obtain ⟨⟨⟨_, hx_⟩, _⟩, h2r⟩ := h2
    have hx_ : x ≠ "_" := by simpa using hx_
    have hxL : ¬ x ∈ L := fun hm => hxI (h3 x hm hxD)
    have h3' : LiveIn D L (x :: scI) := fun y hy hD => List.mem_cons_of_mem _ (h3 y hy hD)
    have h5' : Sub (x :: scO) (x :: scI) := by
      intro y hy
      rcases List.mem_cons.mp hy with rfl | hy
      · exact List.mem_cons_self ..
      · exact List.mem_cons_of_mem _ (h5 y hy)
    simp only [dceStmts, dceStmt] at h4 ⊢
    by_cases hl : x ∈ (dceStmts rest L).live
    · simp only [List.contains_iff_mem, hl, if_true] at h4 ⊢
      have hc' : Cover (x :: scI) (x :: scO) (dceStmts rest L).live (dceStmts rest L).needs := by
        intro y hy hyl
        rcases List.mem_cons.mp hy with rfl | hy
        · exact List.mem_cons_self ..
        · apply List.mem_cons_of_mem
          have hne : y ≠ x := fun h => hxI (h ▸ hy)
          apply h4 y hy
          rcases hyl with h | h
          · exact Or.inl (by simp [h, hne])
          · exact Or.inr h
      obtain ⟨i1, i2, i3⟩ := scope_main D rest (x :: scI) (x :: scO) L hr h2r h3' hc' h5'
      refine ⟨?_, ?_, ?_⟩
      · intro y hy hD
        simp only [mem_rem] at hy
        rcases List.mem_cons.mp (i1 y hy.1 hD) with rfl | h'
        · exact absurd rfl hy.2
        · exact h'
      · simp [scopeErrs, scopeErrsStmt, declScope_varDecl, undecl, hxO, hxD, i2]
      · rcases live_sub_stmts rest L x hl with h | h
        · simp [unused_varDecl, h, i3]
        · exact absurd h hxL
    · by_cases hn : x ∈ (dceStmts rest L).needs
      · have hreads : x ∈ readsStmts (dceStmts rest L).out := by
          rcases assigned_sub_stmts rest L x (needs_sub_stmts rest L x hn) with h | h | h
          · exact absurd h hx_
          · exact h
          · exact absurd h hxL
        simp only [List.contains_iff_mem, hl, hn, if_true, if_false] at h4 ⊢
        have hc' : Cover (x :: scI) (x :: scO) (dceStmts rest L).live (dceStmts rest L).needs := by
          intro y hy hyl
          rcases List.mem_cons.mp hy with rfl | hy
          · exact List.mem_cons_self ..
          · apply List.mem_cons_of_mem
            have hne : y ≠ x := fun h => hxI (h ▸ hy)
            apply h4 y hy
            rcases hyl with h | h
            · exact Or.inl h
            · exact Or.inr (by simp [h, hne])
        obtain ⟨i1, i2, i3⟩ := scope_main D rest (x :: scI) (x :: scO) L hr h2r h3' hc' h5'
        refine ⟨?_, ?_, ?_⟩
        · intro y hy hD
          rcases List.mem_cons.mp (i1 y hy hD) with rfl | h'
          · exact absurd hy hl
          · exact h'
        · simp [scopeErrs, scopeErrsStmt, declScope_varDecl, undecl, hxO, hxD, i2]
        · simp [unused_varDecl, hreads, i3]
      · simp only [List.contains_iff_mem, hl, hn, if_true, if_false] at h4 ⊢
        have h5'' : Sub scO (x :: scI) := fun y hy => List.mem_cons_of_mem _ (h5 y hy)
        have hc' : Cover (x :: scI) scO (dceStmts rest L).live (dceStmts rest L).needs := by
          intro y hy hyl
          rcases List.mem_cons.mp hy with rfl | hy
          · rcases hyl with h | h
            · exact absurd h hl
            · exact absurd h hn
          · exact h4 y hy hyl
        obtain ⟨i1, i2, i3⟩ := scope_main D rest (x :: scI) scO L hr h2r h3' hc' h5''
        refine ⟨?_, ?_, ?_⟩
        · intro y hy hD
          rcases List.mem_cons.mp (i1 y hy hD) with rfl | h'
          · exact absurd hy hl
          · exact h'
        · simp only [List.nil_append]; exact i2
        · simp only [List.nil_append]; exact i3
  | .assign x v :: rest => by
    intro scI scO L h1 h2 h3 h4 h5
    simp only [scopeErrs, scopeErrsStmt, declScope, List.append_eq_nil_iff] at h1
    obtain ⟨⟨hu, hx⟩, hr⟩ := h1
    have hxI : x = "_" ∨ x ∈ scI := by
      by_cases h_ : x = "_"
      · exact Or.inl h_
      · by_cases hm : x ∈ scI
        · exact Or.inr hm
        · simp [h_, hm] at hx
    simp only [shapeOK, shapeOKStmt, Bool.and_eq_true] at h2
    obtain ⟨⟨⟨hnb, _⟩, hself⟩, h2r⟩ := h2
    have hself : ¬ x ∈ varsUsed v := by simpa using hself
    have hid := dceExpr_id v hnb
    simp only [dceStmts, dceStmt, hid] at h4 ⊢
    by_cases hl : x ∈ (dceStmts rest L).live
    · simp only [List.contains_iff_mem, hl, if_true] at h4 ⊢
      have hc' : Cover scI scO (dceStmts rest L).live (dceStmts rest L).needs := by
        intro y hy hyl
        apply h4 y hy
        rcases hyl with h | h
        · by_cases hyx : y = x
          · exact Or.inr (by simp [hyx])
          · exact Or.inl (by simp [h, hyx])
        · exact Or.inr (by simp [h])
      obtain ⟨i1, i2, i3⟩ := scope_main D rest scI scO L hr h2r h3 hc' h5
      refine ⟨?_, ?_, ?_⟩
      · intro y hy hD
        simp only [mem_rem, mem_uni] at hy
        rcases hy.1 with h | h
        · exact i1 y h hD
        · exact (undecl_nil.mp hu) y h hD
      · simp only [List.singleton_append, scopeErrs, scopeErrsStmt, declScope, List.append_eq_nil_iff]
        refine ⟨⟨?_, ?_⟩, i2⟩
        · apply undecl_transfer hu _ h4
          intro y hy hD
          have hne : y ≠ x := fun h => hself (h ▸ hy)
          simp [hy, hne]
        · rcases hxI with h | h
          · simp [h]
          · have : x ∈ scO := h4 x h (Or.inr (by simp))
            simp [this]
      · simp [unusedStmts, unusedNested, i3]
    · by_cases he : exprEffects v = true
      · simp only [List.contains_iff_mem, hl, he, if_true, if_false] at h4 ⊢
        have hc' : Cover scI scO (dceStmts rest L).live (dceStmts rest L).needs :=
          h4.mono (fun y hy => by simp [hy]) (fun y hy => hy)
        obtain ⟨i1, i2, i3⟩ := scope_main D rest scI scO L hr h2r h3 hc' h5
        refine ⟨?_, ?_, ?_⟩
        · intro y hy hD
          simp only [mem_uni] at hy
          rcases hy with h | h
          · exact i1 y h hD
          · exact (undecl_nil.mp hu) y h hD
        · simp only [List.singleton_append, scopeErrs, List.append_eq_nil_iff, keepEffect_nodecl,
            scopeErrs_keepEffect]
          exact ⟨undecl_transfer hu (fun y hy _ => by simp [hy]) h4, i2⟩
        · simp only [List.singleton_append]
          rw [unused_keepEffect]; exact i3
      · simp only [List.contains_iff_mem, hl, he, if_true, if_false, Bool.false_eq_true] at h4 ⊢
        obtain ⟨i1, i2, i3⟩ := scope_main D rest scI scO L hr h2r h3 h4 h5
        exact ⟨i1, by simp only [List.nil_append]; exact i2, by simp only [List.nil_append]; exact i3⟩
  | .loop b :: rest => by
    intro scI scO L h1 h2 h3 h4 h5
    simp only [scopeErrs, scopeErrsStmt, declScope, List.append_eq_nil_iff] at h1
    obtain ⟨hb, hr⟩ := h1
    simp only [shapeOK, shapeOKStmt, Bool.and_eq_true] at h2
    obtain ⟨h2b, h2r⟩ := h2
    simp only [dceStmts, dceStmt] at h4 ⊢
    have hc' : Cover scI scO (dceStmts rest L).live (dceStmts rest L).needs :=
      h4.mono (fun y hy => by simp [hy]) (fun y hy => by simp [hy])
    obtain ⟨i1, i2, i3⟩ := scope_main D rest scI scO L hr h2r h3 hc' h5
    have hcb : Cover scI scO (dceStmts b (dceStmts rest L).live).live (dceStmts b (dceStmts rest L).live).needs :=
      h4.mono (fun y hy => by simp [hy]) (fun y hy => by simp [needs_sub_stmts _ _ y hy])
    obtain ⟨b1, b2, b3⟩ := scope_main D b scI scO (dceStmts rest L).live hb h2b i1 hcb h5
    refine ⟨?_, ?_, ?_⟩
    · intro y hy hD
      simp only [mem_uni] at hy
      rcases hy with h | h
      · exact i1 y h hD
      · exact b1 y h hD
    · simp [scopeErrs, scopeErrsStmt, declScope, b2, i2]
    · simp [unusedStmts, unusedNested, b3, i3]
  | .ite c t (some b) :: rest => by
    intro scI scO L h1 h2 h3 h4 h5
    simp only [scopeErrs, scopeErrsStmt, declScope, List.append_eq_nil_iff] at h1
    obtain ⟨⟨⟨hu, ht⟩, hb⟩, hr⟩ := h1
    simp only [shapeOK, shapeOKStmt, Bool.and_eq_true] at h2
    obtain ⟨⟨⟨⟨hnb, _⟩, h2t⟩, h2b⟩, h2r⟩ := h2
    have hid := dceExpr_id c hnb
    simp only [dceStmts, dceStmt, hid] at h4 ⊢
    have hc' : Cover scI scO (dceStmts rest L).live (dceStmts rest L).needs :=
      h4.mono (fun y hy => by simp [hy]) (fun y hy => by simp [hy])
    obtain ⟨i1, i2, i3⟩ := scope_main D rest scI scO L hr h2r h3 hc' h5
    have hct : Cover scI scO (dceStmts t (dceStmts rest L).live).live (dceStmts t (dceStmts rest L).live).needs :=
      h4.mono (fun y hy => by simp [hy]) (fun y hy => by simp [needs_sub_stmts _ _ y hy])
    obtain ⟨t1, t2, t3⟩ := scope_main D t scI scO (dceStmts rest L).live ht h2t i1 hct h5
    have hcb : Cover scI scO (dceStmts b (dceStmts rest L).live).live (dceStmts b (dceStmts rest L).live).needs :=
      h4.mono (fun y hy => by simp [hy]) (fun y hy => by simp [needs_sub_stmts _ _ y hy])
    obtain ⟨b1, b2, b3⟩ := scope_main D b scI scO (dceStmts rest L).live hb h2b i1 hcb h5
    refine ⟨?_, ?_, ?_⟩
    · intro y hy hD
      simp only [mem_uni] at hy
      rcases hy with ((h | h) | h) | h
      · exact i1 y h hD
      · exact (undecl_nil.mp hu) y h hD
      · exact t1 y h hD
      · exact b1 y h hD
    · have := undecl_transfer hu (fun y hy _ => by simp [hy]) h4
      simp [scopeErrs, scopeErrsStmt, declScope, this, t2, b2, i2]
    · simp [unusedStmts, unusedNested, t3, b3, i3]
  | .ite c t none :: rest => by
    intro scI scO L h1 h2 h3 h4 h5
    simp only [scopeErrs, scopeErrsStmt, declScope, List.append_eq_nil_iff] at h1
    obtain ⟨⟨⟨hu, ht⟩, _⟩, hr⟩ := h1
    simp only [shapeOK, shapeOKStmt, Bool.and_eq_true] at h2
    obtain ⟨⟨⟨⟨hnb, _⟩, h2t⟩, _⟩, h2r⟩ := h2
    have hid := dceExpr_id c hnb
    simp only [dceStmts, dceStmt, hid] at h4 ⊢
    have hc' : Cover scI scO (dceStmts rest L).live (dceStmts rest L).needs :=
      h4.mono (fun y hy => by simp [hy]) (fun y hy => by simp [hy])
    obtain ⟨i1, i2, i3⟩ := scope_main D rest scI scO L hr h2r h3 hc' h5
    have hct : Cover scI scO (dceStmts t (dceStmts rest L).live).live (dceStmts t (dceStmts rest L).live).needs :=
      h4.mono (fun y hy => by simp [hy]) (fun y hy => by simp [needs_sub_stmts _ _ y hy])
    obtain ⟨t1, t2, t3⟩ := scope_main D t scI scO (dceStmts rest L).live ht h2t i1 hct h5
    refine ⟨?_, ?_, ?_⟩
    · intro y hy hD
      simp only [mem_uni] at hy
      rcases hy with (h | h) | h
      · exact i1 y h hD
      · exact (undecl_nil.mp hu) y h hD
      · exact t1 y h hD
    · have := undecl_transfer hu (fun y hy _ => by simp [hy]) h4
      simp [scopeErrs, scopeErrsStmt, declScope, this, t2, i2]
    · simp [unusedStmts, unusedNested, t3, i3]
  | .switch e cs (some b) :: rest => by
    intro scI scO L h1 h2 h3 h4 h5
    simp only [scopeErrs, scopeErrsStmt, declScope, List.append_eq_nil_iff] at h1
    obtain ⟨⟨⟨hu, hcs⟩, hb⟩, hr⟩ := h1
    simp only [shapeOK, shapeOKStmt, Bool.and_eq_true] at h2
    obtain ⟨⟨⟨⟨hnb, _⟩, h2c⟩, h2b⟩, h2r⟩ := h2
    have hid := dceExpr_id e hnb
    simp only [dceStmts, dceStmt, hid] at h4 ⊢
    have hc' : Cover scI scO (dceStmts rest L).live (dceStmts rest L).needs :=
      h4.mono (fun y hy => by simp [cases_live_mono cs _ y hy]) (fun y hy => by simp [hy])
    obtain ⟨i1, i2, i3⟩ := scope_main D rest scI scO L hr h2r h3 hc' h5
    have hcc : Cover scI scO (uni (dceCases cs (dceStmts rest L).live).live (dceCases cs (dceStmts rest L).live).liveIn)
        (dceCases cs (dceStmts rest L).live).needs :=
      h4.mono (fun y hy => by
        simp only [mem_uni] at hy ⊢
        rcases hy with h | h <;> simp [h]) (fun y hy => by simp [hy])
    obtain ⟨c1, c2, c3, c4⟩ := scope_cases D cs scI scO (dceStmts rest L).live hcs h2c i1 hcc h5
    have hcb : Cover scI scO (dceStmts b (dceCases cs (dceStmts rest L).live).live).live
        (dceStmts b (dceCases cs (dceStmts rest L).live).live).needs :=
      h4.mono (fun y hy => by simp [hy]) (fun y hy => by simp [needs_sub_stmts _ _ y hy])
    obtain ⟨b1, b2, b3⟩ := scope_main D b scI scO _ hb h2b c1 hcb h5
    refine ⟨?_, ?_, ?_⟩
    · intro y hy hD
      simp only [mem_uni] at hy
      rcases hy with ((h | h) | h) | h
      · exact c1 y h hD
      · exact (undecl_nil.mp hu) y h hD
      · exact c2 y h hD
      · exact b1 y h hD
    · have := undecl_transfer hu (fun y hy _ => by simp [hy]) h4
      simp [scopeErrs, scopeErrsStmt, declScope, this, c3, b2, i2]
    · simp [unusedStmts, unusedNested, c4, b3, i3]
  | .switch e cs none :: rest => by
    intro scI scO L h1 h2 h3 h4 h5
    simp only [scopeErrs, scopeErrsStmt, declScope, List.append_eq_nil_iff] at h1
    obtain ⟨⟨⟨hu, hcs⟩, _⟩, hr⟩ := h1
    simp only [shapeOK, shapeOKStmt, Bool.and_eq_true] at h2
    obtain ⟨⟨⟨⟨hnb, _⟩, h2c⟩, _⟩, h2r⟩ := h2
    have hid := dceExpr_id e hnb
    simp only [dceStmts, dceStmt, hid] at h4 ⊢
    have hc' : Cover scI scO (dceStmts rest L).live (dceStmts rest L).needs :=
      h4.mono (fun y hy => by simp [cases_live_mono cs _ y hy]) (fun y hy => by simp [hy])
    obtain ⟨i1, i2, i3⟩ := scope_main D rest scI scO L hr h2r h3 hc' h5
    have hcc : Cover scI scO (uni (dceCases cs (dceStmts rest L).live).live (dceCases cs (dceStmts rest L).live).liveIn)
        (dceCases cs (dceStmts rest L).live).needs :=
      h4.mono (fun y hy => by
        simp only [mem_uni] at hy ⊢
        rcases hy with h | h <;> simp [h]) (fun y hy => by simp [hy])
    obtain ⟨c1, c2, c3, c4⟩ := scope_cases D cs scI scO (dceStmts rest L).live hcs h2c i1 hcc h5
    refine ⟨?_, ?_, ?_⟩
    · intro y hy hD
      simp only [mem_uni] at hy
      rcases hy with (h | h) | h
      · exact c1 y h hD
      · exact (undecl_nil.mp hu) y h hD
      · exact c2 y h hD
    · have := undecl_transfer hu (fun y hy _ => by simp [hy]) h4
      simp [scopeErrs, scopeErrsStmt, declScope, this, c3, i2]
    · simp [unusedStmts, unusedNested, c4, i3]
  | .tswitch bind e cs (some b) :: rest => by
    intro scI scO L h1 h2 h3 h4 h5
    simp only [scopeErrs, scopeErrsStmt, declScope, List.append_eq_nil_iff] at h1
    obtain ⟨⟨⟨⟨hu, hbind⟩, hcs⟩, hb⟩, hr⟩ := h1
    simp only [shapeOK, shapeOKStmt, Bool.and_eq_true] at h2
    obtain ⟨⟨⟨⟨⟨hnb, _⟩, h2c⟩, h2b⟩, _⟩, h2r⟩ := h2
    have hid := dceExpr_id e hnb
    simp only [dceStmts, dceStmt, hid] at h4 ⊢
    have hc' : Cover scI scO (dceStmts rest L).live (dceStmts rest L).needs :=
      h4.mono (fun y hy => by simp [hy]) (fun y hy => by simp [hy])
    obtain ⟨i1, i2, i3⟩ := scope_main D rest scI scO L hr h2r h3 hc' h5
    have hcc : Cover scI scO (dceTCases cs (dceStmts rest L).live).liveIn (dceTCases cs (dceStmts rest L).live).needs :=
      h4.mono (fun y hy => by simp [hy]) (fun y hy => by simp [hy])
    obtain ⟨c1, c2, c3, c4⟩ := scope_tcases D cs scI scO (dceStmts rest L).live hcs h2c i1 hcc h5
    have hcb : Cover scI scO (dceStmts b (dceStmts rest L).live).live (dceStmts b (dceStmts rest L).live).needs :=
      h4.mono (fun y hy => by simp [hy]) (fun y hy => by simp [needs_sub_stmts _ _ y hy])
    obtain ⟨b1, b2, b3⟩ := scope_main D b scI scO _ hb h2b i1 hcb h5
    refine ⟨?_, ?_, ?_⟩
    · intro y hy hD
      simp only [mem_uni] at hy
      rcases hy with ((h | h) | h) | h
      · exact i1 y h hD
      · exact (undecl_nil.mp hu) y h hD
      · exact c1 y h hD
      · exact b1 y h hD
    · have hu' := undecl_transfer hu (fun y hy _ => by simp [hy]) h4
      simp only [List.singleton_append, scopeErrs, scopeErrsStmt, declScope, List.append_eq_nil_iff]
      refine ⟨⟨⟨⟨hu', ?_⟩, c2⟩, b2⟩, i2⟩
      cases bind with
      | none => simp [keepBind]
      | some x =>
        by_cases hf : x ∈ uni (dceTCases cs (dceStmts rest L).live).free (freeVars (dceStmts b (dceStmts rest L).live).out)
        · simp only [keepBind, List.contains_iff_mem, hf, if_true]
          cases e <;> simp at hbind ⊢
          rename_i y ty
          obtain ⟨hyx, hxs⟩ := hbind
          refine ⟨hyx, ?_⟩
          apply h4 x hxs
          exact Or.inl (by simp [varsUsed, hyx])
        · simp [keepBind, hf]
    · simp only [List.singleton_append, unusedStmts, unusedNested, List.append_eq_nil_iff]
      refine ⟨⟨trivial, ⟨?_, c3⟩, b3⟩, i3⟩
      cases bind with
      | none => simp [keepBind]
      | some x =>
        by_cases hf : x ∈ uni (dceTCases cs (dceStmts rest L).live).free (freeVars (dceStmts b (dceStmts rest L).live).out)
        · simp only [keepBind, List.contains_iff_mem, hf, if_true]
          simp only [mem_uni] at hf
          rcases hf with hf | hf
          · simp [c4 x hf]
          · simp [freeVars_sub_reads _ x hf]
        · simp [keepBind, hf]
  | .tswitch bind e cs none :: rest => by
    intro scI scO L h1 h2 h3 h4 h5
    simp only [scopeErrs, scopeErrsStmt, declScope, List.append_eq_nil_iff] at h1
    obtain ⟨⟨⟨⟨hu, hbind⟩, hcs⟩, _⟩, hr⟩ := h1
    simp only [shapeOK, shapeOKStmt, Bool.and_eq_true] at h2
    obtain ⟨⟨⟨⟨⟨hnb, _⟩, h2c⟩, _⟩, _⟩, h2r⟩ := h2
    have hid := dceExpr_id e hnb
    simp only [dceStmts, dceStmt, hid] at h4 ⊢
    have hc' : Cover scI scO (dceStmts rest L).live (dceStmts rest L).needs :=
      h4.mono (fun y hy => by simp [hy]) (fun y hy => by simp [hy])
    obtain ⟨i1, i2, i3⟩ := scope_main D rest scI scO L hr h2r h3 hc' h5
    have hcc : Cover scI scO (dceTCases cs (dceStmts rest L).live).liveIn (dceTCases cs (dceStmts rest L).live).needs :=
      h4.mono (fun y hy => by simp [hy]) (fun y hy => by simp [hy])
    obtain ⟨c1, c2, c3, c4⟩ := scope_tcases D cs scI scO (dceStmts rest L).live hcs h2c i1 hcc h5
    refine ⟨?_, ?_, ?_⟩
    · intro y hy hD
      simp only [mem_uni] at hy
      rcases hy with (h | h) | h
      · exact i1 y h hD
      · exact (undecl_nil.mp hu) y h hD
      · exact c1 y h hD
    · have hu' := undecl_transfer hu (fun y hy _ => by simp [hy]) h4
      simp only [List.singleton_append, scopeErrs, scopeErrsStmt, declScope, List.append_eq_nil_iff]
      refine ⟨⟨⟨⟨hu', ?_⟩, c2⟩, trivial⟩, i2⟩
      cases bind with
      | none => simp [keepBind]
      | some x =>
        by_cases hf : x ∈ (dceTCases cs (dceStmts rest L).live).free
        · simp only [keepBind, List.contains_iff_mem, hf, if_true]
          cases e <;> simp at hbind ⊢
          rename_i y ty
          obtain ⟨hyx, hxs⟩ := hbind
          refine ⟨hyx, ?_⟩
          apply h4 x hxs
          exact Or.inl (by simp [varsUsed, hyx])
        · simp [keepBind, hf]
    · simp only [List.singleton_append, unusedStmts, unusedNested, List.append_eq_nil_iff]
      refine ⟨⟨trivial, ⟨?_, c3⟩, trivial⟩, i3⟩
      cases bind with
      | none => simp [keepBind]
      | some x =>
        by_cases hf : x ∈ (dceTCases cs (dceStmts rest L).live).free
        · simp only [keepBind, List.contains_iff_mem, hf, if_true]
          simp [c4 x hf]
        · simp [keepBind, hf]
theorem scope_cases (D : Names) : ∀ cs : List GCase, ScopeGoalC D cs
  | [] => by
    intro scI scO live h1 h2 h3 h4 h5
    simp [dceCases, scopeErrsCases, unusedCases, LiveIn]; exact h3
  | .mk v b :: rest => by
    intro scI scO live h1 h2 h3 h4 h5
    simp only [scopeErrsCases, List.append_eq_nil_iff] at h1
    obtain ⟨⟨hu, hb⟩, hr⟩ := h1
    simp only [shapeOKCases, Bool.and_eq_true] at h2
    obtain ⟨⟨⟨hnb, _⟩, h2b⟩, h2r⟩ := h2
    have hid := dceExpr_id v hnb
    simp only [dceCases, hid] at h4 ⊢
    have hcb : Cover scI scO (dceStmts b live).live (dceStmts b live).needs :=
      h4.mono (fun y hy => by simp [hy]) (fun y hy => by simp [needs_sub_stmts _ _ y hy])
    obtain ⟨b1, b2, b3⟩ := scope_main D b scI scO live hb h2b h3 hcb h5
    have h3' : LiveIn D (uni live (varsUsed v)) scI := by
      intro y hy hD
      simp only [mem_uni] at hy
      rcases hy with h | h
      · exact h3 y h hD
      · exact (undecl_nil.mp hu) y h hD
    have hcr : Cover scI scO (uni (dceCases rest (uni live (varsUsed v))).live (dceCases rest (uni live (varsUsed v))).liveIn)
        (dceCases rest (uni live (varsUsed v))).needs :=
      h4.mono (fun y hy => by
        simp only [mem_uni] at hy ⊢
        rcases hy with h | h <;> simp [h]) (fun y hy => by simp [hy])
    obtain ⟨r1, r2, r3, r4⟩ := scope_cases D rest scI scO _ hr h2r h3' hcr h5
    refine ⟨r1, ?_, ?_, ?_⟩
    · intro y hy hD
      simp only [mem_uni] at hy
      rcases hy with h | h
      · exact b1 y h hD
      · exact r2 y h hD
    · have : undecl D scO (varsUsed v) = [] := by
        apply undecl_transfer hu _ h4
        intro y hy _
        simp only [mem_uni]
        exact Or.inl (cases_live_mono rest _ y (by simp [hy]))
      simp [scopeErrsCases, this, b2, r3]
    · simp [unusedCases, b3, r4]
theorem scope_tcases (D : Names) : ∀ cs : List GTCase, ScopeGoalT D cs
  | [] => by
    intro scI scO live h1 h2 h3 h4 h5
    simp [dceTCases, scopeErrsTCases, unusedTCases, LiveIn]
  | .mk t b :: rest => by
    intro scI scO live h1 h2 h3 h4 h5
    simp only [scopeErrsTCases, List.append_eq_nil_iff] at h1
    obtain ⟨hb, hr⟩ := h1
    simp only [shapeOKTCases, Bool.and_eq_true] at h2
    obtain ⟨h2b, h2r⟩ := h2
    simp only [dceTCases] at h4 ⊢
    have hcb : Cover scI scO (dceStmts b live).live (dceStmts b live).needs :=
      h4.mono (fun y hy => by simp [hy]) (fun y hy => by simp [needs_sub_stmts _ _ y hy])
    obtain ⟨b1, b2, b3⟩ := scope_main D b scI scO live hb h2b h3 hcb h5
    have hcr : Cover scI scO (dceTCases rest live).liveIn (dceTCases rest live).needs :=
      h4.mono (fun y hy => by simp [hy]) (fun y hy => by simp [hy])
    obtain ⟨r1, r2, r3, r4⟩ := scope_tcases D rest scI scO live hr h2r h3 hcr h5
    refine ⟨?_, ?_, ?_, ?_⟩
    · intro y hy hD
      simp only [mem_uni] at hy
      rcases hy with h | h
      · exact b1 y h hD
      · exact r1 y h hD
    · simp [scopeErrsTCases, b2, r2]
    · simp [unusedTCases, b3, r3]
    · intro x hx
      simp only [mem_uni, readsTCases] at hx ⊢
      rcases hx with h | h
      · exact Or.inl (freeVars_sub_reads _ x h)
      · exact Or.inr (r4 x h)
end

/-- top-level instance: a function body (live-out = ∅, same scope on both sides) -/
theorem scope_body (D scope : Names) (ss : List GStmt)
    (h1 : scopeErrs D scope ss = []) (h2 : shapeOK ss = true) :
    scopeErrs D scope (dceBody ss) = [] ∧ unusedStmts (dceBody ss) = [] := by
  have := scope_main D ss scope scope [] h1 h2 (fun x hx => by cases hx)
    (fun y hy _ => hy) (fun y hy => hy)
  exact ⟨this.2.1, this.2.2⟩

end Goml.Dce
