import GomlVerif.Lemmas.DceSimBase
/-!
Simulation proof for DCE, part 1: the invariant `Rel`, the result relations, the block and
nested-block steps, and the lock-step lemmas for block-free statements.
-/
set_option linter.unusedSimpArgs false
set_option linter.unusedVariables false
namespace Goml.Dce
open Goml.Go Goml.Sem

/-- the invariant between the environment of the output run (`ρo`) and of the input run (`ρi`):
    they agree on the live variables, the output has no variable the input lacks, it has every
    variable a kept assignment still needs, and nothing is called `_` -/
structure Rel (L N : Names) (ρo ρi : GEnv) : Prop where
  agree : Agree L ρo ρi
  sub : ∀ x ∈ keys ρo, x ∈ keys ρi
  needs : ∀ x ∈ N, x ∈ keys ρi → x ∈ keys ρo
  blank : ¬ "_" ∈ keys ρi

/-- results of running a block: output run (left) against input run (right) -/
def ResRel (L N : Names) : GRes (GEnv × Sig) → GRes (GEnv × Sig) → Prop
  | .ok (ρo, so) wo, .ok (ρi, si) wi => wo = wi ∧ so = si ∧ (si = .normal → Rel L N ρo ρi)
  | .fail fo wo, .fail fi wi => fo = fi ∧ wo = wi
  | _, _ => False

/-- the same for a nested block (declarations popped): only agreement is stated, the keys are
    those before the block on both sides -/
def ResRelN (L : Names) : GRes (GEnv × Sig) → GRes (GEnv × Sig) → Prop
  | .ok (ρo, so) wo, .ok (ρi, si) wi => wo = wi ∧ so = si ∧ (si = .normal → Agree L ρo ρi)
  | .fail fo wo, .fail fi wi => fo = fi ∧ wo = wi
  | _, _ => False

theorem ResRel.definite {L N r' r} (h : ResRel L N r' r) (hd : Definite r) : Definite r' := by
  cases r' with
  | ok p w => trivial
  | fail f w =>
    cases r with
    | ok p' w' => obtain ⟨_, _⟩ := p'; simp [ResRel] at h
    | fail f' w' => simp only [ResRel] at h; obtain ⟨rfl, rfl⟩ := h; exact hd

theorem ResRelN.definite {L r' r} (h : ResRelN L r' r) (hd : Definite r) : Definite r' := by
  cases r' with
  | ok p w => trivial
  | fail f w =>
    cases r with
    | ok p' w' => obtain ⟨_, _⟩ := p'; simp [ResRelN] at h
    | fail f' w' => simp only [ResRelN] at h; obtain ⟨rfl, rfl⟩ := h; exact hd

theorem declScope_eq (s : GStmt) (sc : Names) : declScope s sc = declScope s [] ++ sc := by
  cases s <;> simp [declScope]

theorem lookup_append_not_key : ∀ (pre t : GEnv) (y : String), ¬ y ∈ keys pre →
    lookupG (pre ++ t) y = lookupG t y
  | [], t, y, _ => rfl
  | (x, v) :: pre, t, y, h => by
    simp only [keys_cons, List.mem_cons, not_or] at h
    rw [List.cons_append, lookup_cons_ne v _ (fun e => h.1 e.symm)]
    exact lookup_append_not_key pre t y h.2

/-- popping the declarations of a block keeps agreement (no shadowing) -/
theorem agree_pop {L : Names} {ρi ρo preI preO ρi'' ρo'' : GEnv}
    (hki : keys ρi'' = keys ρi) (hko : keys ρo'' = keys ρo)
    (hpi : ∀ x ∈ keys preI, ¬ x ∈ keys ρi) (hpo : ∀ x ∈ keys preO, ¬ x ∈ keys ρi)
    (hsub : ∀ x ∈ keys ρo, x ∈ keys ρi)
    (ha : Agree L (preO ++ ρo'') (preI ++ ρi'')) : Agree L ρo'' ρi'' := by
  intro y hy
  by_cases hk : y ∈ keys ρi
  · have h1 : ¬ y ∈ keys preI := fun h => hpi y h hk
    have h2 : ¬ y ∈ keys preO := fun h => hpo y h hk
    have := ha y hy
    rw [lookup_append_not_key _ _ _ h1, lookup_append_not_key _ _ _ h2] at this
    exact this
  · have h1 : ¬ y ∈ keys ρi'' := by rw [hki]; exact hk
    have h2 : ¬ y ∈ keys ρo'' := by rw [hko]; exact fun h => hk (hsub y h)
    rw [lookup_none_of_not_key h1, lookup_none_of_not_key h2]

theorem frame_keys {W : Names} {ρ ρ' : GEnv} (h : FrameEq W ρ ρ') : keys ρ' = keys ρ := h.keys.symm

structure SimAt (F : GFile) (D : Names) (P : GExpr → Bool) (n : Nat) : Prop where
  bl : ∀ {ss L ρi ρo w r}, scopeErrs D (keys ρi) ss = [] → shapeOK ss = true → semOK P ss L = true →
        Rel (dceStmts ss L).live (dceStmts ss L).needs ρo ρi →
        execBlockG n F ρi w ss = r → Definite r →
        ∃ m r', execBlockG m F ρo w (dceStmts ss L).out = r' ∧ ResRel L [] r' r
  ne : ∀ {ss L ρi ρo w r}, scopeErrs D (keys ρi) ss = [] → shapeOK ss = true → semOK P ss L = true →
        Rel (dceStmts ss L).live (dceStmts ss L).needs ρo ρi →
        nestedG n F ρi w ss = r → Definite r →
        ∃ m r', nestedG m F ρo w (dceStmts ss L).out = r' ∧ ResRelN L r' r
  ex : ∀ {s live needs ρi ρo w r}, scopeErrsStmt D (keys ρi) s = [] → shapeOKStmt s = true →
        semOKStmt P s live = true →
        Rel (dceStmt s live needs).live (dceStmt s live needs).needs ρo ρi →
        execG n F ρi w s = r → Definite r →
        ∃ m r', execBlockG m F ρo w (dceStmt s live needs).out = r' ∧ ResRel live needs r' r
  swS : ∀ {cs b live ρi ρo w v r},
        scopeErrsCases D (keys ρi) cs = [] → scopeErrs D (keys ρi) b = [] →
        shapeOKCases cs = true → shapeOK b = true →
        semOKCases P cs live = true → semOK P b (dceCases cs live).live = true →
        Agree (uni (uni (dceCases cs live).live (dceCases cs live).liveIn)
          (dceStmts b (dceCases cs live).live).live) ρo ρi →
        (∀ x ∈ keys ρo, x ∈ keys ρi) →
        (∀ x ∈ uni (dceCases cs live).needs (assignedStmts (dceStmts b (dceCases cs live).live).out),
          x ∈ keys ρi → x ∈ keys ρo) →
        ¬ "_" ∈ keys ρi →
        switchG n F ρi w v cs (some b) = r → Definite r →
        ∃ m r', switchG m F ρo w v (dceCases cs live).cases
          (some (dceStmts b (dceCases cs live).live).out) = r' ∧ ResRelN live r' r
  swN : ∀ {cs live ρi ρo w v r},
        scopeErrsCases D (keys ρi) cs = [] → shapeOKCases cs = true → semOKCases P cs live = true →
        Agree (uni (dceCases cs live).live (dceCases cs live).liveIn) ρo ρi →
        (∀ x ∈ keys ρo, x ∈ keys ρi) →
        (∀ x ∈ (dceCases cs live).needs, x ∈ keys ρi → x ∈ keys ρo) →
        ¬ "_" ∈ keys ρi →
        switchG n F ρi w v cs none = r → Definite r →
        ∃ m r', switchG m F ρo w v (dceCases cs live).cases none = r' ∧ ResRelN live r' r
  tsS : ∀ {cs b live ρi ρo w v r},
        scopeErrsTCases D (keys ρi) cs = [] → scopeErrs D (keys ρi) b = [] →
        shapeOKTCases cs = true → shapeOK b = true →
        semOKTCases P cs live = true → semOK P b live = true →
        Agree (uni (uni live (dceTCases cs live).liveIn) (dceStmts b live).live) ρo ρi →
        (∀ x ∈ keys ρo, x ∈ keys ρi) →
        (∀ x ∈ uni (dceTCases cs live).needs (assignedStmts (dceStmts b live).out),
          x ∈ keys ρi → x ∈ keys ρo) →
        ¬ "_" ∈ keys ρi →
        tswitchG n F ρi w v cs (some b) = r → Definite r →
        ∃ m r', tswitchG m F ρo w v (dceTCases cs live).cases (some (dceStmts b live).out) = r' ∧
          ResRelN live r' r
  tsN : ∀ {cs live ρi ρo w v r},
        scopeErrsTCases D (keys ρi) cs = [] → shapeOKTCases cs = true → semOKTCases P cs live = true →
        Agree (uni live (dceTCases cs live).liveIn) ρo ρi →
        (∀ x ∈ keys ρo, x ∈ keys ρi) →
        (∀ x ∈ (dceTCases cs live).needs, x ∈ keys ρi → x ∈ keys ρo) →
        ¬ "_" ∈ keys ρi →
        tswitchG n F ρi w v cs none = r → Definite r →
        ∃ m r', tswitchG m F ρo w v (dceTCases cs live).cases none = r' ∧ ResRelN live r' r

theorem simN {F D P} (n : Nat) (ih : SimAt F D P n) {ss L ρi ρo w r}
    (h1 : scopeErrs D (keys ρi) ss = []) (h2 : shapeOK ss = true) (h3 : semOK P ss L = true)
    (hr : Rel (dceStmts ss L).live (dceStmts ss L).needs ρo ρi)
    (h : nestedG (n+1) F ρi w ss = r) (hd : Definite r) :
    ∃ m r', nestedG m F ρo w (dceStmts ss L).out = r' ∧ ResRelN L r' r := by
  rw [nestedG.eq_def] at h; simp only at h
  cases hb : execBlockG n F ρi w ss with
  | fail f w1 =>
    rw [hb] at h; simp only at h; subst h
    obtain ⟨m, r', hm, hrr⟩ := ih.bl h1 h2 h3 hr hb hd
    cases r' with
    | ok p w' => obtain ⟨_, _⟩ := p; simp [ResRel] at hrr
    | fail f' w' =>
      simp only [ResRel] at hrr
      refine ⟨m + 1, .fail f' w', ?_, by simpa [ResRelN] using hrr⟩
      rw [nestedG.eq_def]; simp only; rw [hm]
  | ok p w1 =>
    obtain ⟨ρi', sig⟩ := p
    rw [hb] at h; simp only at h; subst h
    obtain ⟨m, r', hm, hrr⟩ := ih.bl h1 h2 h3 hr hb trivial
    cases r' with
    | fail f' w' => simp [ResRel] at hrr
    | ok p' w' =>
      obtain ⟨ρo', sig'⟩ := p'
      simp only [ResRel] at hrr
      obtain ⟨hw, hs, hrel⟩ := hrr
      subst hw; subst hs
      obtain ⟨preI, ρi'', ei, fi, hpi⟩ := (frame_all n).bl hb
      obtain ⟨preO, ρo'', eo, fo, hpo⟩ := (frame_all m).bl hm
      subst ei; subst eo
      refine ⟨m + 1, .ok (ρo'', sig') w', ?_, ?_⟩
      · rw [nestedG.eq_def]; simp only; rw [hm]; simp only
        rw [drop_append_len preO ρo'' ρo.length fo.length.symm]
      · rw [drop_append_len preI ρi'' ρi.length fi.length.symm]
        simp only [ResRelN]
        refine ⟨trivial, trivial, fun hn => ?_⟩
        have hrel := hrel hn
        have hdt := scope_declTop D ss (keys ρi) h1
        apply agree_pop (ρi := ρi) (ρo := ρo) (frame_keys fi) (frame_keys fo) _ _ hr.sub hrel.agree
        · intro x hx; exact hdt x (hpi x hx)
        · intro x hx; exact hdt x (declTop_dce_sub ss L x (hpo x hx))


theorem keys_append (a b : GEnv) : keys (a ++ b) = keys a ++ keys b := by simp [keys]

theorem simB {F D P} (n : Nat) (ih : SimAt F D P n) {ss L ρi ρo w r}
    (h1 : scopeErrs D (keys ρi) ss = []) (h2 : shapeOK ss = true) (h3 : semOK P ss L = true)
    (hr : Rel (dceStmts ss L).live (dceStmts ss L).needs ρo ρi)
    (h : execBlockG (n+1) F ρi w ss = r) (hd : Definite r) :
    ∃ m r', execBlockG m F ρo w (dceStmts ss L).out = r' ∧ ResRel L [] r' r := by
  cases ss with
  | nil =>
    rw [exec_nil] at h; subst h
    simp only [dceStmts] at hr ⊢
    exact ⟨1, _, exec_nil 0 F ρo w, by simp only [ResRel]; exact ⟨trivial, trivial, fun _ => hr⟩⟩
  | cons s rest =>
    simp only [scopeErrs, List.append_eq_nil_iff] at h1
    simp only [shapeOK, Bool.and_eq_true] at h2
    simp only [semOK, Bool.and_eq_true] at h3
    simp only [dceStmts] at hr ⊢
    rw [exec_cons] at h
    cases hs : execG n F ρi w s with
    | fail f w1 =>
      rw [hs] at h; simp only at h; subst h
      obtain ⟨m1, r1, hm1, hr1⟩ := ih.ex h1.1 h2.1 h3.2 hr hs hd
      cases r1 with
      | ok p w' => obtain ⟨_, _⟩ := p; simp [ResRel] at hr1
      | fail f' w' =>
        simp only [ResRel] at hr1
        obtain ⟨rfl, rfl⟩ := hr1
        obtain ⟨m, hm⟩ := exec_append_stop F _ (dceStmts rest L).out m1 ρo w _ hm1 hd.nf (by intro _ _ hc; cases hc)
        exact ⟨m, _, hm, by simp [ResRel]⟩
    | ok p w1 =>
      obtain ⟨ρi1, sig⟩ := p
      rw [hs] at h
      obtain ⟨m1, r1, hm1, hr1⟩ := ih.ex h1.1 h2.1 h3.2 hr hs trivial
      cases r1 with
      | fail f' w' => simp [ResRel] at hr1
      | ok p' w' =>
        obtain ⟨ρo1, sig'⟩ := p'
        simp only [ResRel] at hr1
        obtain ⟨rfl, rfl, hrel⟩ := hr1
        cases sig' with
        | normal =>
          simp only at h
          have hk : keys ρi1 = declScope s (keys ρi) := by
            obtain ⟨pre, ρ'', e1, f1, hp⟩ := (frame_all n).ex hs
            rw [e1, keys_append, frame_keys f1, declScope_eq]
            show pre.map (·.1) ++ keys ρi = _
            rw [hp]
          obtain ⟨m2, r2, hm2, hr2⟩ := ih.bl (by rw [hk]; exact h1.2) h2.2 h3.1 (hrel rfl) h hd
          obtain ⟨m, hm⟩ := exec_append_normal F _ (dceStmts rest L).out m1 m2 ρo ρo1 w w' r2 hm1 hm2
            (hr2.definite hd).nf
          exact ⟨m, r2, hm, hr2⟩
        | brk =>
          simp only at h; subst h
          obtain ⟨m, hm⟩ := exec_append_stop F _ (dceStmts rest L).out m1 ρo w _ hm1 trivial (by intro _ _ hc; cases hc)
          exact ⟨m, _, hm, by simp [ResRel]⟩
        | ret v =>
          simp only at h; subst h
          obtain ⟨m, hm⟩ := exec_append_stop F _ (dceStmts rest L).out m1 ρo w _ hm1 trivial (by intro _ _ hc; cases hc)
          exact ⟨m, _, hm, by simp [ResRel]⟩


/-! ### block-free statements step in the same way in both runs -/
/-- output result (left) against input result (right) of one block-free statement; `Q` says how
    the two environments were changed -/
def StepRel (Q : GEnv → GEnv → Prop) : GRes (GEnv × Sig) → GRes (GEnv × Sig) → Prop
  | .ok (ρo', so) wo, .ok (ρi', si) wi => wo = wi ∧ so = si ∧ Q ρo' ρi'
  | .fail fo wo, .fail fi wi => fo = fi ∧ wo = wi
  | _, _ => False

/-- both environments unchanged -/
def QSame (ρo ρi : GEnv) : GEnv → GEnv → Prop := fun ρo' ρi' => ρo' = ρo ∧ ρi' = ρi
/-- both declare `x` with the same value -/
def QPush (ρo ρi : GEnv) (x : String) : GEnv → GEnv → Prop :=
  fun ρo' ρi' => ∃ v, ρo' = (x, v) :: ρo ∧ ρi' = (x, v) :: ρi
/-- both store the same value to `x` (nothing for `_`) -/
def QAssign (ρo ρi : GEnv) (x : String) : GEnv → GEnv → Prop :=
  fun ρo' ρi' => (x = "_" ∧ ρo' = ρo ∧ ρi' = ρi) ∨ (x ≠ "_" ∧ ∃ v, ρo' = updateG ρo x v ∧ ρi' = updateG ρi x v)
/-- unchanged, or both store the same value to a variable both have -/
def QUpd (ρo ρi : GEnv) : GEnv → GEnv → Prop :=
  fun ρo' ρi' => (ρo' = ρo ∧ ρi' = ρi) ∨
    ∃ x v, x ∈ keys ρo ∧ x ∈ keys ρi ∧ ρo' = updateG ρo x v ∧ ρi' = updateG ρi x v

theorem ev_same (n : Nat) {F : GFile} {ρo ρi : GEnv} {w : GWorld} {e : GExpr} (hb : noBlockExpr e = true)
    (ha : Agree (varsUsed e) ρo ρi) : evalG n F ρo w e = evalG n F ρi w e :=
  (coin_all n).ev hb ha

theorem evl_same (n : Nat) {F : GFile} {ρo ρi : GEnv} {w : GWorld} {es : List GExpr} (hb : noBlockList es = true)
    (ha : Agree (varsUsedList es) ρo ρi) : evalListG n F ρo w es = evalListG n F ρi w es :=
  (coin_all n).el hb ha

theorem step_expr (n : Nat) {F ρo ρi w e} (hb : noBlockExpr e = true) (ha : Agree (varsUsed e) ρo ρi) :
    StepRel (QSame ρo ρi) (execG (n+1) F ρo w (.expr e)) (execG (n+1) F ρi w (.expr e)) := by
  rw [execG.eq_def, execG.eq_def]; simp only
  rw [ev_same n hb ha]
  cases evalG n F ρi w e with
  | fail f w1 => simp [StepRel]
  | ok v w1 => simp only [StepRel]; exact ⟨trivial, trivial, by first | exact ⟨rfl, rfl⟩ | exact Or.inl ⟨rfl, rfl⟩⟩

theorem step_ret (n : Nat) {F ρo ρi w e} (hb : noBlockExpr e = true) (ha : Agree (varsUsed e) ρo ρi) :
    StepRel (QSame ρo ρi) (execG (n+1) F ρo w (.ret (some e))) (execG (n+1) F ρi w (.ret (some e))) := by
  rw [execG.eq_def, execG.eq_def]; simp only
  rw [ev_same n hb ha]
  cases evalG n F ρi w e with
  | fail f w1 => simp [StepRel]
  | ok v w1 => simp only [StepRel]; exact ⟨trivial, trivial, by first | exact ⟨rfl, rfl⟩ | exact Or.inl ⟨rfl, rfl⟩⟩

theorem step_ret_none (n : Nat) {F ρo ρi w} :
    StepRel (QSame ρo ρi) (execG (n+1) F ρo w (.ret none)) (execG (n+1) F ρi w (.ret none)) := by
  rw [execG.eq_def, execG.eq_def]; simp only [StepRel]; exact ⟨trivial, trivial, by first | exact ⟨rfl, rfl⟩ | exact Or.inl ⟨rfl, rfl⟩⟩

theorem step_brk (n : Nat) {F ρo ρi w} :
    StepRel (QSame ρo ρi) (execG (n+1) F ρo w .brk) (execG (n+1) F ρi w .brk) := by
  rw [execG.eq_def, execG.eq_def]; simp only [StepRel]; exact ⟨trivial, trivial, by first | exact ⟨rfl, rfl⟩ | exact Or.inl ⟨rfl, rfl⟩⟩

theorem step_go (n : Nat) {F ρo ρi w c} (hb : noBlockExpr c = true) (ha : Agree (varsUsed c) ρo ρi) :
    StepRel (QSame ρo ρi) (execG (n+1) F ρo w (.go c)) (execG (n+1) F ρi w (.go c)) := by
  rw [execG.eq_def, execG.eq_def]; simp only
  cases c with
  | call t f args =>
    simp only [noBlockExpr, Bool.and_eq_true] at hb
    simp only
    rw [ev_same n hb.1 (ha.mono (fun x hx => by simp [varsUsed, hx]))]
    cases evalG n F ρi w f with
    | fail f' w1 => simp [StepRel]
    | ok fv w1 =>
      simp only
      rw [evl_same n hb.2 (ha.mono (fun x hx => by simp [varsUsed, hx]))]
      cases evalListG n F ρi w1 args with
      | fail f' w2 => simp [StepRel]
      | ok vs w2 =>
        simp only
        split
        · cases callG n F w2 fv vs with
          | fail f' w3 => simp [StepRel]
          | ok v3 w3 => simp only [StepRel]; exact ⟨trivial, trivial, by first | exact ⟨rfl, rfl⟩ | exact Or.inl ⟨rfl, rfl⟩⟩
        · simp only [StepRel]; exact ⟨trivial, trivial, by first | exact ⟨rfl, rfl⟩ | exact Or.inl ⟨rfl, rfl⟩⟩
  | _ => simp [StepRel]

theorem step_varDecl (n : Nat) {F ρo ρi w x ty e} (hb : noBlockExpr e = true) (ha : Agree (varsUsed e) ρo ρi) :
    StepRel (QPush ρo ρi x) (execG (n+1) F ρo w (.varDecl x ty (some e))) (execG (n+1) F ρi w (.varDecl x ty (some e))) := by
  rw [execG.eq_def, execG.eq_def]; simp only
  split
  · simp [StepRel]
  · rw [ev_same n hb ha]
    cases evalG n F ρi w e with
    | fail f w1 => simp [StepRel]
    | ok v w1 => simp only [StepRel]; exact ⟨trivial, trivial, ⟨v, rfl, rfl⟩⟩

theorem step_varDecl_none (n : Nat) {F ρo ρi w x ty} :
    StepRel (QPush ρo ρi x) (execG (n+1) F ρo w (.varDecl x ty none)) (execG (n+1) F ρi w (.varDecl x ty none)) := by
  rw [execG.eq_def, execG.eq_def]; simp only
  split
  · simp [StepRel]
  · simp only [StepRel]; exact ⟨trivial, trivial, ⟨_, rfl, rfl⟩⟩

theorem step_assign (n : Nat) {F ρo ρi w x e} (hb : noBlockExpr e = true) (ha : Agree (varsUsed e) ρo ρi) :
    StepRel (QAssign ρo ρi x) (execG (n+1) F ρo w (.assign x e)) (execG (n+1) F ρi w (.assign x e)) := by
  rw [execG.eq_def, execG.eq_def]; simp only
  rw [ev_same n hb ha]
  cases evalG n F ρi w e with
  | fail f w1 => simp [StepRel]
  | ok v w1 =>
    simp only [StepRel]
    refine ⟨trivial, trivial, ?_⟩
    by_cases hx : (x == "_") = true
    · simp only [hx, if_true]; exact Or.inl ⟨by simpa using hx, rfl, rfl⟩
    · simp only [hx, if_false, Bool.false_eq_true]; exact Or.inr ⟨by simpa using hx, v, rfl, rfl⟩

theorem step_ptrAssign (n : Nat) {F ρo ρi w p e} (hb1 : noBlockExpr p = true) (hb2 : noBlockExpr e = true)
    (ha1 : Agree (varsUsed p) ρo ρi) (ha2 : Agree (varsUsed e) ρo ρi) :
    StepRel (QSame ρo ρi) (execG (n+1) F ρo w (.ptrAssign p e)) (execG (n+1) F ρi w (.ptrAssign p e)) := by
  rw [execG.eq_def, execG.eq_def]; simp only
  rw [ev_same n hb1 ha1]
  cases evalG n F ρi w p with
  | fail f w1 => simp [StepRel]
  | ok pv w1 =>
    cases pv with
    | ptr l =>
      simp only
      rw [ev_same n hb2 ha2]
      cases evalG n F ρi w1 e with
      | fail f w2 => simp [StepRel]
      | ok v w2 => simp only [StepRel]; exact ⟨trivial, trivial, by first | exact ⟨rfl, rfl⟩ | exact Or.inl ⟨rfl, rfl⟩⟩
    | _ => simp [StepRel]


theorem evalG_var_struct {n : Nat} {F : GFile} {ρ : GEnv} {w w1 : GWorld} {x : String} {t : GTy} {v : GVal}
    (h : evalG n F ρ w (.var x t) = .ok v w1) (hv : ∀ y, v ≠ .func y) : lookupG ρ x = some v := by
  cases n with
  | zero => simp [evalG] at h
  | succ n =>
    rw [evalG.eq_def] at h; simp only at h
    cases hl : lookupG ρ x with
    | none => rw [hl] at h; simp only at h; cases h; exact absurd rfl (hv x)
    | some v' => rw [hl] at h; simp only at h; cases h; rfl

theorem step_fieldAssign (n : Nat) {F ρo ρi w t e} (hb1 : noBlockExpr t = true) (hb2 : noBlockExpr e = true)
    (ha1 : Agree (varsUsed t) ρo ρi) (ha2 : Agree (varsUsed e) ρo ρi) :
    StepRel (QUpd ρo ρi) (execG (n+1) F ρo w (.fieldAssign t e)) (execG (n+1) F ρi w (.fieldAssign t e)) := by
  rw [execG.eq_def, execG.eq_def]; simp only
  cases t with
  | field f ty obj =>
    simp only [noBlockExpr] at hb1
    simp only [varsUsed] at ha1
    simp only
    have e1 := ev_same n (w := w) (F := F) hb1 ha1
    rw [e1]
    cases ho : evalG n F ρi w obj with
    | fail f' w1 => simp [StepRel]
    | ok ov w1 =>
      simp only
      rw [ev_same n hb2 ha2]
      cases evalG n F ρi w1 e with
      | fail f' w2 => simp [StepRel]
      | ok v w2 =>
        simp only
        cases ov with
        | ptr l =>
          simp only
          split
          · simp only [StepRel]; exact ⟨trivial, trivial, by first | exact ⟨rfl, rfl⟩ | exact Or.inl ⟨rfl, rfl⟩⟩
          · simp [StepRel]
        | struct nm fs =>
          cases obj with
          | var x tx =>
            simp only [StepRel]
            have hli := evalG_var_struct ho (by intro y hy; cases hy)
            have hlo : lookupG ρo x = some (.struct nm fs) := by
              rw [ha1 x (by simp [varsUsed])]; exact hli
            exact ⟨trivial, trivial, Or.inr ⟨x, _, key_of_lookup_some hlo, key_of_lookup_some hli, rfl, rfl⟩⟩
          | _ => simp [StepRel]
        | nilv => simp [StepRel]
        | _ => simp [StepRel]
  | _ => simp [StepRel]

theorem step_indexAssign (n : Nat) {F ρo ρi w a i e} (hb1 : noBlockExpr a = true) (hb2 : noBlockExpr i = true)
    (hb3 : noBlockExpr e = true)
    (ha1 : Agree (varsUsed a) ρo ρi) (ha2 : Agree (varsUsed i) ρo ρi) (ha3 : Agree (varsUsed e) ρo ρi) :
    StepRel (QUpd ρo ρi) (execG (n+1) F ρo w (.indexAssign a i e)) (execG (n+1) F ρi w (.indexAssign a i e)) := by
  rw [execG.eq_def, execG.eq_def]; simp only
  cases a with
  | var x tx =>
    simp only
    have hl : lookupG ρo x = lookupG ρi x := ha1 x (by simp [varsUsed])
    rw [hl, ev_same n hb2 ha2]
    cases evalG n F ρi w i with
    | fail f' w1 => cases lookupG ρi x <;> simp [StepRel]
    | ok iv w1 =>
      cases hli : lookupG ρi x with
      | none => cases iv <;> simp [StepRel]
      | some av =>
        cases av with
        | array vs =>
          cases iv with
          | int b sg k =>
            simp only
            rw [ev_same n hb3 ha3]
            cases evalG n F ρi w1 e with
            | fail f' w2 => simp [StepRel]
            | ok v w2 =>
              simp only
              split
              · simp [StepRel]
              · simp only [StepRel]
                exact ⟨trivial, trivial, Or.inr ⟨x, _, key_of_lookup_some (hl.trans hli), key_of_lookup_some hli, rfl, rfl⟩⟩
          | _ => simp [StepRel]
        | _ => cases iv <;> simp [StepRel]
  | _ => simp [StepRel]


/-! ### how the invariant moves along a step -/
theorem Rel.mono {L N L' N' : Names} {ρo ρi : GEnv} (h : Rel L' N' ρo ρi)
    (hl : ∀ y ∈ L, y ∈ L') (hn : ∀ y ∈ N, y ∈ N') : Rel L N ρo ρi :=
  ⟨h.agree.mono hl, h.sub, fun y hy hk => h.needs y (hn y hy) hk, h.blank⟩

theorem rel_push {L N L' N' : Names} {ρo ρi : GEnv} {x : String} {v : GVal} (h : Rel L' N' ρo ρi)
    (hx : x ≠ "_") (hl : ∀ y ∈ L, y ≠ x → y ∈ L') (hn : ∀ y ∈ N, y ≠ x → y ∈ N') :
    Rel L N ((x, v) :: ρo) ((x, v) :: ρi) := by
  refine ⟨?_, ?_, ?_, ?_⟩
  · intro y hy
    by_cases hyx : y = x
    · subst hyx; rw [lookup_cons_self, lookup_cons_self]
    · rw [lookup_cons_ne _ _ (Ne.symm hyx), lookup_cons_ne _ _ (Ne.symm hyx)]
      exact h.agree y (hl y hy hyx)
  · intro y hy
    simp only [keys_cons, List.mem_cons] at hy ⊢
    rcases hy with hy | hy
    · exact Or.inl hy
    · exact Or.inr (h.sub y hy)
  · intro y hy hk
    simp only [keys_cons, List.mem_cons] at hk ⊢
    by_cases hyx : y = x
    · exact Or.inl hyx
    · rcases hk with hk | hk
      · exact absurd hk hyx
      · exact Or.inr (h.needs y (hn y hy hyx) hk)
  · simp only [keys_cons, List.mem_cons, not_or]
    exact ⟨fun e => hx e.symm, h.blank⟩

/-- both runs declare `x`, with different values: fine when `x` is not live -/
theorem rel_push_dead {L N L' N' : Names} {ρo ρi : GEnv} {x : String} {v v' : GVal} (h : Rel L' N' ρo ρi)
    (hx : x ≠ "_") (hxl : ¬ x ∈ L) (hl : ∀ y ∈ L, y ∈ L') (hn : ∀ y ∈ N, y ≠ x → y ∈ N') :
    Rel L N ((x, v) :: ρo) ((x, v') :: ρi) := by
  refine ⟨?_, ?_, ?_, ?_⟩
  · intro y hy
    have hyx : y ≠ x := fun e => hxl (e ▸ hy)
    rw [lookup_cons_ne _ _ (Ne.symm hyx), lookup_cons_ne _ _ (Ne.symm hyx)]
    exact h.agree y (hl y hy)
  · intro y hy
    simp only [keys_cons, List.mem_cons] at hy ⊢
    rcases hy with hy | hy
    · exact Or.inl hy
    · exact Or.inr (h.sub y hy)
  · intro y hy hk
    simp only [keys_cons, List.mem_cons] at hk ⊢
    by_cases hyx : y = x
    · exact Or.inl hyx
    · rcases hk with hk | hk
      · exact absurd hk hyx
      · exact Or.inr (h.needs y (hn y hy hyx) hk)
  · simp only [keys_cons, List.mem_cons, not_or]
    exact ⟨fun e => hx e.symm, h.blank⟩

/-- only the input run declares `x` (the declaration was deleted) -/
theorem rel_drop_decl {L N L' N' : Names} {ρo ρi : GEnv} {x : String} {v : GVal} (h : Rel L' N' ρo ρi)
    (hx : x ≠ "_") (hxl : ¬ x ∈ L) (hxn : ¬ x ∈ N) (hl : ∀ y ∈ L, y ∈ L') (hn : ∀ y ∈ N, y ∈ N') :
    Rel L N ρo ((x, v) :: ρi) := by
  refine ⟨?_, ?_, ?_, ?_⟩
  · intro y hy
    have hyx : y ≠ x := fun e => hxl (e ▸ hy)
    rw [lookup_cons_ne _ _ (Ne.symm hyx)]
    exact h.agree y (hl y hy)
  · intro y hy
    simp only [keys_cons, List.mem_cons]
    exact Or.inr (h.sub y hy)
  · intro y hy hk
    simp only [keys_cons, List.mem_cons] at hk
    have hyx : y ≠ x := fun e => hxn (e ▸ hy)
    rcases hk with hk | hk
    · exact absurd hk hyx
    · exact h.needs y (hn y hy) hk
  · simp only [keys_cons, List.mem_cons, not_or]
    exact ⟨fun e => hx e.symm, h.blank⟩

theorem rel_upd {L N L' N' : Names} {ρo ρi : GEnv} {x : String} {v : GVal} (h : Rel L' N' ρo ρi)
    (hk : x ∈ keys ρi → x ∈ keys ρo) (hl : ∀ y ∈ L, y ≠ x → y ∈ L') (hn : ∀ y ∈ N, y ∈ N') :
    Rel L N (updateG ρo x v) (updateG ρi x v) := by
  refine ⟨?_, ?_, ?_, ?_⟩
  · intro y hy
    by_cases hyx : y = x
    · subst hyx
      by_cases hki : y ∈ keys ρi
      · rw [lookup_update_self y v ρi hki, lookup_update_self y v ρo (hk hki)]
      · have hko : ¬ y ∈ keys ρo := fun hh => hki (h.sub y hh)
        rw [update_not_key y v ρi hki, update_not_key y v ρo hko,
          lookup_none_of_not_key hki, lookup_none_of_not_key hko]
    · rw [lookup_update_ne v (Ne.symm hyx), lookup_update_ne v (Ne.symm hyx)]
      exact h.agree y (hl y hy hyx)
  · intro y hy; rw [keys_update] at hy ⊢; exact h.sub y hy
  · intro y hy hk'; rw [keys_update] at hk' ⊢; exact h.needs y (hn y hy) hk'
  · rw [keys_update]; exact h.blank

/-- only the input run stores to `x` (dead store deleted) -/
theorem rel_dead_store {L N L' N' : Names} {ρo ρi : GEnv} {x : String} {v : GVal} (h : Rel L' N' ρo ρi)
    (hxl : ¬ x ∈ L) (hl : ∀ y ∈ L, y ∈ L') (hn : ∀ y ∈ N, y ∈ N') :
    Rel L N ρo (updateG ρi x v) := by
  refine ⟨?_, ?_, ?_, ?_⟩
  · intro y hy
    have hyx : y ≠ x := fun e => hxl (e ▸ hy)
    rw [lookup_update_ne v (Ne.symm hyx)]
    exact h.agree y (hl y hy)
  · intro y hy; rw [keys_update]; exact h.sub y hy
  · intro y hy hk'; rw [keys_update] at hk'; exact h.needs y (hn y hy) hk'
  · rw [keys_update]; exact h.blank

theorem StepRel.nf {Q r' r} (h : StepRel Q r' r) (hd : Definite r) : r'.nf := by
  cases r' with
  | ok p w => trivial
  | fail f w =>
    cases r with
    | ok p' w' => obtain ⟨_, _⟩ := p'; simp [StepRel] at h
    | fail f' w' =>
      simp only [StepRel] at h; obtain ⟨rfl, rfl⟩ := h
      exact hd.nf

end Goml.Dce
