import GomlVerif.Lemmas.DceSim1
/-! Simulation proof for DCE, part 2: block-free statements (kept, deleted, or kept for their effects). -/
set_option linter.unusedSimpArgs false
set_option linter.unusedVariables false
namespace Goml.Dce
open Goml.Go Goml.Sem

theorem kept_simple {F : GFile} {n : Nat} {ρo ρi : GEnv} {w : GWorld} {s : GStmt} {r : GRes (GEnv × Sig)}
    {live needs : Names} {Q : GEnv → GEnv → Prop}
    (hstep : StepRel Q (execG (n+1) F ρo w s) (execG (n+1) F ρi w s))
    (h : execG (n+1) F ρi w s = r) (hd : Definite r)
    (hrel : ∀ ρo' ρi', Q ρo' ρi' → Rel live needs ρo' ρi') :
    ∃ m r', execBlockG m F ρo w [s] = r' ∧ ResRel live needs r' r := by
  rw [h] at hstep
  refine ⟨n + 3, execG (n+1) F ρo w s, exec_single F (n+1) ρo w s _ rfl (hstep.nf hd), ?_⟩
  cases hr' : execG (n+1) F ρo w s with
  | fail f' w' =>
    rw [hr'] at hstep
    cases r with
    | ok p w1 => obtain ⟨_, _⟩ := p; simp [StepRel] at hstep
    | fail f w1 => simpa [StepRel, ResRel] using hstep
  | ok p' w' =>
    obtain ⟨ρo', so⟩ := p'
    rw [hr'] at hstep
    cases r with
    | fail f w1 => simp [StepRel] at hstep
    | ok p w1 =>
      obtain ⟨ρi', si⟩ := p
      simp only [StepRel] at hstep
      simp only [ResRel]
      exact ⟨hstep.1, hstep.2.1, fun _ => hrel _ _ hstep.2.2⟩

/-- the statement kinds that `dce_block_with_live` keeps unchanged and that contain no block -/
theorem simX_kept {F : GFile} (n : Nat) {s live needs ρi ρo w r}
    (hk : match s with
      | .expr _ | .go _ | .indexAssign _ _ _ | .ptrAssign _ _ | .fieldAssign _ _ | .ret _ | .brk => True
      | _ => False)
    (h2 : shapeOKStmt s = true)
    (hr : Rel (dceStmt s live needs).live (dceStmt s live needs).needs ρo ρi)
    (h : execG (n+1) F ρi w s = r) (hd : Definite r) :
    ∃ m r', execBlockG m F ρo w (dceStmt s live needs).out = r' ∧ ResRel live needs r' r := by
  cases s with
  | expr e =>
    simp only [shapeOKStmt, Bool.and_eq_true] at h2
    simp only [dceStmt, dceExpr_id e h2.1] at hr ⊢
    apply kept_simple (step_expr n h2.1 (hr.agree.mono (fun x hx => by simp [hx]))) h hd
    rintro _ _ ⟨rfl, rfl⟩
    exact hr.mono (fun y hy => by simp [hy]) (fun y hy => hy)
  | go c =>
    simp only [shapeOKStmt, Bool.and_eq_true] at h2
    simp only [dceStmt, dceExpr_id c h2.1] at hr ⊢
    apply kept_simple (step_go n h2.1 (hr.agree.mono (fun x hx => by simp [hx]))) h hd
    rintro _ _ ⟨rfl, rfl⟩
    exact hr.mono (fun y hy => by simp [hy]) (fun y hy => hy)
  | ret v =>
    cases v with
    | none =>
      simp only [dceStmt] at hr ⊢
      apply kept_simple (step_ret_none n) h hd
      rintro _ _ ⟨rfl, rfl⟩
      exact hr
    | some e =>
      simp only [shapeOKStmt, Bool.and_eq_true, noBlockOpt] at h2
      simp only [dceStmt, dceExpr_id e h2.1] at hr ⊢
      apply kept_simple (step_ret n h2.1 (hr.agree.mono (fun x hx => by simp [hx]))) h hd
      rintro _ _ ⟨rfl, rfl⟩
      exact hr.mono (fun y hy => by simp [hy]) (fun y hy => hy)
  | brk =>
    simp only [dceStmt] at hr ⊢
    apply kept_simple (step_brk n) h hd
    rintro _ _ ⟨rfl, rfl⟩
    exact hr
  | ptrAssign p e =>
    simp only [shapeOKStmt, Bool.and_eq_true] at h2
    simp only [dceStmt, dceExpr_id p h2.1.1, dceExpr_id e h2.1.2] at hr ⊢
    apply kept_simple (step_ptrAssign n h2.1.1 h2.1.2 (hr.agree.mono (fun x hx => by simp [hx]))
      (hr.agree.mono (fun x hx => by simp [hx]))) h hd
    rintro _ _ ⟨rfl, rfl⟩
    exact hr.mono (fun y hy => by simp [hy]) (fun y hy => hy)
  | fieldAssign t e =>
    simp only [shapeOKStmt, Bool.and_eq_true] at h2
    simp only [dceStmt, dceExpr_id t h2.1.1, dceExpr_id e h2.1.2] at hr ⊢
    apply kept_simple (step_fieldAssign n h2.1.1 h2.1.2 (hr.agree.mono (fun x hx => by simp [hx]))
      (hr.agree.mono (fun x hx => by simp [hx]))) h hd
    rintro _ _ (⟨rfl, rfl⟩ | ⟨x, v, hko, hki, rfl, rfl⟩)
    · exact hr.mono (fun y hy => by simp [hy]) (fun y hy => hy)
    · exact rel_upd hr (fun _ => hko) (fun y hy _ => by simp [hy]) (fun y hy => hy)
  | indexAssign a i e =>
    simp only [shapeOKStmt, Bool.and_eq_true] at h2
    simp only [dceStmt, dceExpr_id a h2.1.1.1, dceExpr_id i h2.1.1.2, dceExpr_id e h2.1.2] at hr ⊢
    apply kept_simple (step_indexAssign n h2.1.1.1 h2.1.1.2 h2.1.2 (hr.agree.mono (fun x hx => by simp [hx]))
      (hr.agree.mono (fun x hx => by simp [hx])) (hr.agree.mono (fun x hx => by simp [hx]))) h hd
    rintro _ _ (⟨rfl, rfl⟩ | ⟨x, v, hko, hki, rfl, rfl⟩)
    · exact hr.mono (fun y hy => by simp [hy]) (fun y hy => hy)
    · exact rel_upd hr (fun _ => hko) (fun y hy _ => by simp [hy]) (fun y hy => hy)
  | _ => simp at hk


theorem exec_keepEffect (n : Nat) (F : GFile) (ρ : GEnv) (w : GWorld) (e : GExpr) :
    execG (n+1) F ρ w (keepEffect e) =
      match evalG n F ρ w e with
      | .fail f w1 => .fail f w1
      | .ok _ w1 => .ok (ρ, .normal) w1 := by
  rcases keepEffect_cases e with h | h <;> rw [h, execG.eq_def] <;> simp only
  all_goals (cases evalG n F ρ w e <;> simp)

theorem exec_two (F : GFile) (m : Nat) (ρ ρ1 : GEnv) (w w1 : GWorld) (s1 s2 : GStmt) (r2 : GRes (GEnv × Sig))
    (h1 : execG m F ρ w s1 = .ok (ρ1, .normal) w1) (h2 : execG m F ρ1 w1 s2 = r2) (hnf : r2.nf) :
    execBlockG (m+3) F ρ w [s1, s2] = r2 := by
  rw [exec_cons, execG_mono (Nat.le_add_right m 2) (by rw [h1]; trivial), h1]
  simp only
  exact exec_single F m ρ1 w1 s2 r2 h2 hnf

theorem definite_fail_panic {α : Type} {f : Fail} {w : GWorld} (hd : Definite (GRes.fail (α := α) f w))
    (hq : ∀ k, f ≠ .panic k) : False := by
  cases f with
  | panic k => exact hq k rfl
  | fuel => exact hd
  | stuck s => exact hd

theorem agree_cons_left {L : Names} {ρo ρi : GEnv} {x : String} {v : GVal} (h : Agree L ρo ρi)
    (hx : ¬ x ∈ L) : Agree L ((x, v) :: ρo) ρi := by
  intro y hy
  have : x ≠ y := fun e => hx (e ▸ hy)
  rw [lookup_cons_ne _ _ this]; exact h y hy

theorem simX_varDecl {F : GFile} {D : Names} {P : GExpr → Bool} (hP : ∀ e, P e = true → Inert F e)
    (n : Nat) {x ty e live needs ρi ρo w r}
    (h1 : scopeErrsStmt D (keys ρi) (.varDecl x ty (some e)) = [])
    (h2 : shapeOKStmt (.varDecl x ty (some e)) = true)
    (h3 : semOKStmt P (.varDecl x ty (some e)) live = true)
    (hr : Rel (dceStmt (.varDecl x ty (some e)) live needs).live (dceStmt (.varDecl x ty (some e)) live needs).needs ρo ρi)
    (h : execG (n+1) F ρi w (.varDecl x ty (some e)) = r) (hd : Definite r) :
    ∃ m r', execBlockG m F ρo w (dceStmt (.varDecl x ty (some e)) live needs).out = r' ∧ ResRel live needs r' r := by
  simp only [scopeErrsStmt, List.append_eq_nil_iff] at h1
  obtain ⟨hu, hx⟩ := h1
  have hxI : ¬ x ∈ keys ρi := by intro hm; simp [hm] at hx
  have hxD : x ∈ D := by
    by_cases hdd : x ∈ D
    · exact hdd
    · simp [hdd] at hx
  simp only [shapeOKStmt, Bool.and_eq_true, noBlockOpt] at h2
  obtain ⟨⟨hnb, hx_⟩, _⟩ := h2
  have hx_ : x ≠ "_" := by simpa using hx_
  have hid := dceExpr_id e hnb
  have hxe : ¬ x ∈ varsUsed e := fun hm => hxI ((undecl_nil.mp hu) x hm hxD)
  simp only [semOKStmt, hid, Bool.or_eq_true, List.contains_iff_mem] at h3
  simp only [dceStmt, hid] at hr ⊢
  by_cases hl : x ∈ live
  · simp only [List.contains_iff_mem, hl, if_true] at hr ⊢
    have ha : Agree (varsUsed e) ρo ρi := hr.agree.mono (fun y hy => by
      have : y ≠ x := fun e' => hxe (e' ▸ hy)
      simp [hy, this])
    apply kept_simple (step_varDecl n hnb ha) h hd
    rintro _ _ ⟨v, rfl, rfl⟩
    exact rel_push hr hx_ (fun y hy hne => by simp [hy, hne]) (fun y hy _ => hy)
  · -- the input run: evaluate the initialiser
    rw [execG.eq_def] at h; simp only at h
    by_cases hab : absurdTy ty = true
    · rw [if_pos hab] at h; subst h; exact absurd hd (by simp [Definite])
    · rw [if_neg hab] at h
      by_cases hn : x ∈ needs
      · by_cases he : exprEffects e = true
        · simp only [List.contains_iff_mem, hl, hn, he, if_true, if_false] at hr ⊢
          have hd0 : execG (n+1) F ρo w (.varDecl x ty none) = .ok ((x, zero F ty) :: ρo, .normal) w := by
            rw [execG.eq_def]; simp only; rw [if_neg hab]
          have ha : Agree (varsUsed e) ((x, zero F ty) :: ρo) ρi :=
            agree_cons_left (hr.agree.mono (fun y hy => by simp [hy])) hxe
          have hk := exec_keepEffect n F ((x, zero F ty) :: ρo) w e
          rw [ev_same n hnb ha] at hk
          cases hev : evalG n F ρi w e with
          | fail f w1 =>
            rw [hev] at h hk; simp only at h hk; subst h
            refine ⟨n + 4, _, exec_two F (n+1) ρo _ w w _ _ _ hd0 hk hd.nf, by simp [ResRel]⟩
          | ok v w1 =>
            rw [hev] at h hk; simp only at h hk; subst h
            refine ⟨n + 4, _, exec_two F (n+1) ρo _ w w _ _ _ hd0 hk trivial, ?_⟩
            simp only [ResRel]
            refine ⟨trivial, trivial, fun _ => ?_⟩
            exact rel_push_dead hr hx_ hl (fun y hy => by simp [hy]) (fun y hy hne => by simp [hy, hne])
        · simp only [List.contains_iff_mem, hl, hn, he, if_true, if_false, Bool.false_eq_true] at hr ⊢
          have hPe : P e = true := by
            rcases h3 with (h3 | h3) | h3
            · exact absurd h3 hl
            · exact absurd h3 he
            · exact h3
          have hq := hP e hPe n ρi w
          have hd0 : execG (n+1) F ρo w (.varDecl x ty none) = .ok ((x, zero F ty) :: ρo, .normal) w := by
            rw [execG.eq_def]; simp only; rw [if_neg hab]
          cases hev : evalG n F ρi w e with
          | fail f w1 =>
            rw [hev] at h hq; simp only at h; subst h
            exact (definite_fail_panic hd hq).elim
          | ok v w1 =>
            rw [hev] at h hq; simp only at h; subst h
            simp only [Quiet] at hq; subst hq
            refine ⟨n + 3, _, exec_single F (n+1) ρo w1 _ _ hd0 trivial, ?_⟩
            simp only [ResRel]
            refine ⟨trivial, trivial, fun _ => ?_⟩
            exact rel_push_dead hr hx_ hl (fun y hy => hy) (fun y hy hne => by simp [hy, hne])
      · by_cases he : exprEffects e = true
        · simp only [List.contains_iff_mem, hl, hn, he, if_true, if_false] at hr ⊢
          have ha : Agree (varsUsed e) ρo ρi := hr.agree.mono (fun y hy => by simp [hy])
          have hk := exec_keepEffect n F ρo w e
          rw [ev_same n hnb ha] at hk
          cases hev : evalG n F ρi w e with
          | fail f w1 =>
            rw [hev] at h hk; simp only at h hk; subst h
            exact ⟨n + 3, _, exec_single F (n+1) ρo w _ _ hk hd.nf, by simp [ResRel]⟩
          | ok v w1 =>
            rw [hev] at h hk; simp only at h hk; subst h
            refine ⟨n + 3, _, exec_single F (n+1) ρo w _ _ hk trivial, ?_⟩
            simp only [ResRel]
            refine ⟨trivial, trivial, fun _ => ?_⟩
            exact rel_drop_decl hr hx_ hl hn (fun y hy => by simp [hy]) (fun y hy => hy)
        · simp only [List.contains_iff_mem, hl, hn, he, if_true, if_false, Bool.false_eq_true] at hr ⊢
          have hPe : P e = true := by
            rcases h3 with (h3 | h3) | h3
            · exact absurd h3 hl
            · exact absurd h3 he
            · exact h3
          have hq := hP e hPe n ρi w
          cases hev : evalG n F ρi w e with
          | fail f w1 =>
            rw [hev] at h hq; simp only at h; subst h
            exact (definite_fail_panic hd hq).elim
          | ok v w1 =>
            rw [hev] at h hq; simp only at h; subst h
            simp only [Quiet] at hq; subst hq
            refine ⟨1, _, exec_nil 0 F ρo w1, ?_⟩
            simp only [ResRel]
            refine ⟨trivial, trivial, fun _ => ?_⟩
            exact rel_drop_decl hr hx_ hl hn (fun y hy => hy) (fun y hy => hy)


theorem simX_varDeclNone {F : GFile} {D : Names} (n : Nat) {x ty live needs ρi ρo w r}
    (h1 : scopeErrsStmt D (keys ρi) (.varDecl x ty none) = [])
    (h2 : shapeOKStmt (.varDecl x ty none) = true)
    (hr : Rel (dceStmt (.varDecl x ty none) live needs).live (dceStmt (.varDecl x ty none) live needs).needs ρo ρi)
    (h : execG (n+1) F ρi w (.varDecl x ty none) = r) (hd : Definite r) :
    ∃ m r', execBlockG m F ρo w (dceStmt (.varDecl x ty none) live needs).out = r' ∧ ResRel live needs r' r := by
  simp only [shapeOKStmt, Bool.and_eq_true, noBlockOpt] at h2
  obtain ⟨⟨_, hx_⟩, _⟩ := h2
  have hx_ : x ≠ "_" := by simpa using hx_
  simp only [dceStmt] at hr ⊢
  by_cases hl : x ∈ live
  · simp only [List.contains_iff_mem, hl, if_true] at hr ⊢
    apply kept_simple (step_varDecl_none n) h hd
    rintro _ _ ⟨v, rfl, rfl⟩
    exact rel_push hr hx_ (fun y hy hne => by simp [hy, hne]) (fun y hy _ => hy)
  · by_cases hn : x ∈ needs
    · simp only [List.contains_iff_mem, hl, hn, if_true, if_false] at hr ⊢
      apply kept_simple (step_varDecl_none n) h hd
      rintro _ _ ⟨v, rfl, rfl⟩
      exact rel_push hr hx_ (fun y hy _ => hy) (fun y hy hne => by simp [hy, hne])
    · simp only [List.contains_iff_mem, hl, hn, if_true, if_false] at hr ⊢
      rw [execG.eq_def] at h; simp only at h
      by_cases hab : absurdTy ty = true
      · rw [if_pos hab] at h; subst h; exact absurd hd (by simp [Definite])
      · rw [if_neg hab] at h; subst h
        refine ⟨1, _, exec_nil 0 F ρo w, ?_⟩
        simp only [ResRel]
        exact ⟨trivial, trivial, fun _ => rel_drop_decl hr hx_ hl hn (fun y hy => hy) (fun y hy => hy)⟩

theorem simX_assign {F : GFile} {D : Names} {P : GExpr → Bool} (hP : ∀ e, P e = true → Inert F e)
    (n : Nat) {x v live needs ρi ρo w r}
    (h2 : shapeOKStmt (.assign x v) = true)
    (h3 : semOKStmt P (.assign x v) live = true)
    (hr : Rel (dceStmt (.assign x v) live needs).live (dceStmt (.assign x v) live needs).needs ρo ρi)
    (h : execG (n+1) F ρi w (.assign x v) = r) (hd : Definite r) :
    ∃ m r', execBlockG m F ρo w (dceStmt (.assign x v) live needs).out = r' ∧ ResRel live needs r' r := by
  simp only [shapeOKStmt, Bool.and_eq_true] at h2
  obtain ⟨⟨hnb, _⟩, hself⟩ := h2
  have hself : ¬ x ∈ varsUsed v := by simpa using hself
  have hid := dceExpr_id v hnb
  simp only [semOKStmt, hid, Bool.or_eq_true, List.contains_iff_mem] at h3
  simp only [dceStmt, hid] at hr ⊢
  by_cases hl : x ∈ live
  · simp only [List.contains_iff_mem, hl, if_true] at hr ⊢
    have ha : Agree (varsUsed v) ρo ρi := hr.agree.mono (fun y hy => by
      have : y ≠ x := fun e' => hself (e' ▸ hy)
      simp [hy, this])
    apply kept_simple (step_assign n hnb ha) h hd
    rintro ρo' ρi' (⟨hx, e1, e2⟩ | ⟨hx, val, rfl, rfl⟩)
    · subst e1; subst e2
      refine ⟨?_, hr.sub, fun y hy hk => hr.needs y (by simp [hy]) hk, hr.blank⟩
      intro y hy
      by_cases hyx : y = x
      · subst hyx
        have h1 : ¬ y ∈ keys ρi' := by rw [hx]; exact hr.blank
        have h2 : ¬ y ∈ keys ρo' := fun hh => h1 (hr.sub y hh)
        rw [lookup_none_of_not_key h1, lookup_none_of_not_key h2]
      · exact hr.agree y (by simp [hy, hyx])
    · exact rel_upd hr (fun hk => hr.needs x (by simp) hk) (fun y hy hne => by simp [hy, hne])
        (fun y hy => by simp [hy])
  · rw [execG.eq_def] at h; simp only at h
    by_cases he : exprEffects v = true
    · simp only [List.contains_iff_mem, hl, he, if_true, if_false] at hr ⊢
      have ha : Agree (varsUsed v) ρo ρi := hr.agree.mono (fun y hy => by simp [hy])
      have hk := exec_keepEffect n F ρo w v
      rw [ev_same n hnb ha] at hk
      cases hev : evalG n F ρi w v with
      | fail f w1 =>
        rw [hev] at h hk; simp only at h hk; subst h
        exact ⟨n + 3, _, exec_single F (n+1) ρo w _ _ hk hd.nf, by simp [ResRel]⟩
      | ok val w1 =>
        rw [hev] at h hk; simp only at h hk; subst h
        refine ⟨n + 3, _, exec_single F (n+1) ρo w _ _ hk trivial, ?_⟩
        simp only [ResRel]
        refine ⟨trivial, trivial, fun _ => ?_⟩
        split
        · exact hr.mono (fun y hy => by simp [hy]) (fun y hy => hy)
        · exact rel_dead_store hr hl (fun y hy => by simp [hy]) (fun y hy => hy)
    · simp only [List.contains_iff_mem, hl, he, if_true, if_false, Bool.false_eq_true] at hr ⊢
      have hPe : P v = true := by
        rcases h3 with (h3 | h3) | h3
        · exact absurd h3 hl
        · exact absurd h3 he
        · exact h3
      have hq := hP v hPe n ρi w
      cases hev : evalG n F ρi w v with
      | fail f w1 =>
        rw [hev] at h hq; simp only at h; subst h
        exact (definite_fail_panic hd hq).elim
      | ok val w1 =>
        rw [hev] at h hq; simp only at h; subst h
        simp only [Quiet] at hq; subst hq
        refine ⟨1, _, exec_nil 0 F ρo w1, ?_⟩
        simp only [ResRel]
        refine ⟨trivial, trivial, fun _ => ?_⟩
        split
        · exact hr
        · exact rel_dead_store hr hl (fun y hy => hy) (fun y hy => hy)

end Goml.Dce
