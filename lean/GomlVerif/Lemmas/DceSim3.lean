import GomlVerif.Lemmas.DceSim2
import GomlVerif.Lemmas.GoEq
/-! Simulation proof for DCE, part 3: `if` and `for` (the loop head invariant is re-established by the frame lemma). -/
set_option linter.unusedSimpArgs false
set_option linter.unusedVariables false
namespace Goml.Dce
open Goml.Go Goml.Sem

/-- after a nested construct: keys are as before on both sides, so agreement is all that is new -/
theorem rel_after_nested {L N L0 N0 Wo Wi : Names} {ρo ρi ρo' ρi' : GEnv} (h : Rel L0 N0 ρo ρi)
    (fo : FrameEq Wo ρo ρo') (fi : FrameEq Wi ρi ρi') (ha : Agree L ρo' ρi') (hn : ∀ y ∈ N, y ∈ N0) :
    Rel L N ρo' ρi' := by
  refine ⟨ha, ?_, ?_, ?_⟩
  · intro y hy; rw [frame_keys fo] at hy; rw [frame_keys fi]; exact h.sub y hy
  · intro y hy hk; rw [frame_keys fi] at hk; rw [frame_keys fo]; exact h.needs y (hn y hy) hk
  · rw [frame_keys fi]; exact h.blank

/-- the invariant survives a construct that assigns none of the live variables -/
theorem rel_frame {L0 N0 Wo Wi : Names} {ρo ρi ρo' ρi' : GEnv} (h : Rel L0 N0 ρo ρi)
    (fo : FrameEq Wo ρo ρo') (fi : FrameEq Wi ρi ρi')
    (hwi : ∀ y ∈ L0, ¬ y ∈ Wi) (hwo : ∀ y ∈ L0, ¬ y ∈ Wo ∨ y = "_") : Rel L0 N0 ρo' ρi' := by
  apply rel_after_nested h fo fi _ (fun y hy => hy)
  intro y hy
  rcases hwo y hy with hw | hw
  · rw [← FrameEq.lookup hw fo, ← FrameEq.lookup (hwi y hy) fi]; exact h.agree y hy
  · subst hw
    have h1 : ¬ "_" ∈ keys ρi' := by rw [frame_keys fi]; exact h.blank
    have h2 : ¬ "_" ∈ keys ρo' := by rw [frame_keys fo]; exact fun hh => h.blank (h.sub _ hh)
    rw [lookup_none_of_not_key h1, lookup_none_of_not_key h2]

theorem resrel_of_nested {L N L0 N0 : Names} {F : GFile} {n m : Nat} {ρo ρi : GEnv} {w : GWorld}
    {ssi sso : List GStmt} {r r' : GRes (GEnv × Sig)} (h : Rel L0 N0 ρo ρi)
    (hi : nestedG n F ρi w ssi = r) (ho : nestedG m F ρo w sso = r') (hrr : ResRelN L r' r)
    (hn : ∀ y ∈ N, y ∈ N0) : ResRel L N r' r := by
  cases r with
  | fail f w1 =>
    cases r' with
    | fail f' w1' => simpa [ResRelN, ResRel] using hrr
    | ok p w1' => obtain ⟨_, _⟩ := p; simp [ResRelN] at hrr
  | ok p w1 =>
    obtain ⟨ρi', si⟩ := p
    cases r' with
    | fail f' w1' => simp [ResRelN] at hrr
    | ok p' w1' =>
      obtain ⟨ρo', so⟩ := p'
      simp only [ResRelN] at hrr
      simp only [ResRel]
      refine ⟨hrr.1, hrr.2.1, fun hs => ?_⟩
      exact rel_after_nested h ((frame_all m).ne ho) ((frame_all n).ne hi) (hrr.2.2 hs) hn

/-- run a nested block of the input and of the output and relate the results -/
theorem sim_nested_rel {F D P} {n : Nat} (ih : SimAt F D P n) {t : List GStmt} {live needs L0 N0 : Names}
    {ρi ρo : GEnv} {w : GWorld} {r : GRes (GEnv × Sig)}
    (h1 : scopeErrs D (keys ρi) t = []) (h2 : shapeOK t = true) (h3 : semOK P t live = true)
    (hr : Rel L0 N0 ρo ρi) (hl : ∀ y ∈ (dceStmts t live).live, y ∈ L0)
    (hna : ∀ y ∈ assignedStmts (dceStmts t live).out, y ∈ N0) (hn : ∀ y ∈ needs, y ∈ N0)
    (h : nestedG n F ρi w t = r) (hd : Definite r) :
    ∃ m r', nestedG m F ρo w (dceStmts t live).out = r' ∧ ResRel live needs r' r := by
  have hr' : Rel (dceStmts t live).live (dceStmts t live).needs ρo ρi :=
    hr.mono hl (fun y hy => hna y (needs_sub_stmts t live y hy))
  obtain ⟨m, r', hm, hrr⟩ := ih.ne h1 h2 h3 hr' h hd
  exact ⟨m, r', hm, resrel_of_nested hr h hm hrr hn⟩

theorem ResRel.nf {L N r' r} (h : ResRel L N r' r) (hd : Definite r) : r'.nf := (h.definite hd).nf

/-! ### building the output run of a compound statement -/
theorem exec_ite_out (F : GFile) {k1 k2 : Nat} {ρ : GEnv} {w w1 : GWorld} {c : GExpr} {b : Bool}
    {t : List GStmt} {e : Option (List GStmt)} {blk : List GStmt} {r : GRes (GEnv × Sig)}
    (hc : evalG k1 F ρ w c = .ok (.bool b) w1)
    (hb : (b = true ∧ blk = t) ∨ (b = false ∧ e = some blk))
    (hn : nestedG k2 F ρ w1 blk = r) (hnf : r.nf) :
    execG (max k1 k2 + 1) F ρ w (.ite c t e) = r := by
  rw [execG.eq_def]; simp only
  rw [evalG_mono (Nat.le_max_left k1 k2) (by rw [hc]; trivial), hc]
  rcases hb with ⟨rfl, rfl⟩ | ⟨rfl, rfl⟩
  · simp only; rw [nestedG_mono (Nat.le_max_right k1 k2) (by rw [hn]; exact hnf), hn]
  · simp only; rw [nestedG_mono (Nat.le_max_right k1 k2) (by rw [hn]; exact hnf), hn]

theorem exec_single_inv (F : GFile) : ∀ (m : Nat) (ρ : GEnv) (w : GWorld) (s : GStmt) (r : GRes (GEnv × Sig)),
    execBlockG m F ρ w [s] = r → r.nf → ∃ k, execG k F ρ w s = r
  | 0, ρ, w, s, r, h, hnf => by simp [execBlockG] at h; subst h; simp [GRes.nf] at hnf
  | m + 1, ρ, w, s, r, h, hnf => by
    rw [exec_cons] at h
    cases hs : execG m F ρ w s with
    | fail f w1 => rw [hs] at h; simp only at h; exact ⟨m, by rw [hs, h]⟩
    | ok p w1 =>
      obtain ⟨ρ', sig⟩ := p
      rw [hs] at h
      cases sig with
      | normal =>
        simp only at h
        cases m with
        | zero => simp [execG] at hs
        | succ m' => rw [exec_nil] at h; exact ⟨m' + 1, by rw [hs, h]⟩
      | brk => simp only at h; exact ⟨m, by rw [hs, h]⟩
      | ret v => simp only at h; exact ⟨m, by rw [hs, h]⟩


theorem block_of_exec (F : GFile) {k : Nat} {ρ : GEnv} {w : GWorld} {s : GStmt} {r r0 : GRes (GEnv × Sig)}
    {L N : Names} (hk : execG k F ρ w s = r) (hrr : ResRel L N r r0) (hd : Definite r0) :
    ∃ m r', execBlockG m F ρ w [s] = r' ∧ ResRel L N r' r0 :=
  ⟨k + 2, r, exec_single F k ρ w s r hk (hrr.nf hd), hrr⟩

theorem simX_ite {F D P} (n : Nat) (ih : SimAt F D P n) {c t e live needs ρi ρo w r}
    (h1 : scopeErrsStmt D (keys ρi) (.ite c t e) = [])
    (h2 : shapeOKStmt (.ite c t e) = true)
    (h3 : semOKStmt P (.ite c t e) live = true)
    (hr : Rel (dceStmt (.ite c t e) live needs).live (dceStmt (.ite c t e) live needs).needs ρo ρi)
    (h : execG (n+1) F ρi w (.ite c t e) = r) (hd : Definite r) :
    ∃ m r', execBlockG m F ρo w (dceStmt (.ite c t e) live needs).out = r' ∧ ResRel live needs r' r := by
  rw [execG.eq_def] at h; simp only at h
  cases e with
  | none =>
    simp only [scopeErrsStmt, List.append_eq_nil_iff] at h1
    simp only [shapeOKStmt, Bool.and_eq_true] at h2
    simp only [semOKStmt] at h3
    obtain ⟨⟨⟨hnb, _⟩, h2t⟩, _⟩ := h2
    simp only [dceStmt, dceExpr_id c hnb] at hr ⊢
    have hc := ev_same n (F := F) (w := w) hnb (hr.agree.mono (fun x hx => by simp [hx]))
    cases hev : evalG n F ρi w c with
    | fail f w1 =>
      rw [hev] at h hc; simp only at h; subst h
      have : execG (n+1) F ρo w (.ite c (dceStmts t live).out none) = .fail f w1 := by
        rw [execG.eq_def]; simp only; rw [hc]
      exact block_of_exec F this (by simp [ResRel]) hd
    | ok cv w1 =>
      rw [hev] at h hc
      cases cv with
      | bool b =>
        cases b with
        | true =>
          simp only at h
          obtain ⟨m, r', hm, hrr⟩ := sim_nested_rel (needs := needs) ih h1.1.2 h2t h3 hr (fun y hy => by simp [hy])
            (fun y hy => by simp [hy]) (fun y hy => by simp [hy]) h hd
          exact block_of_exec F (exec_ite_out F hc (Or.inl ⟨rfl, rfl⟩) hm (hrr.nf hd)) hrr hd
        | false =>
          simp only at h; subst h
          have : execG (n+1) F ρo w (.ite c (dceStmts t live).out none) = .ok (ρo, .normal) w1 := by
            rw [execG.eq_def]; simp only; rw [hc]
          refine block_of_exec F this ?_ trivial
          simp only [ResRel]
          exact ⟨trivial, trivial, fun _ => hr.mono (fun y hy => by simp [hy]) (fun y hy => by simp [hy])⟩
      | _ => simp only at h; subst h; exact absurd hd (by simp [Definite])
  | some b =>
    simp only [scopeErrsStmt, List.append_eq_nil_iff] at h1
    simp only [shapeOKStmt, Bool.and_eq_true] at h2
    simp only [semOKStmt, Bool.and_eq_true] at h3
    obtain ⟨⟨⟨hnb, _⟩, h2t⟩, h2b⟩ := h2
    simp only [dceStmt, dceExpr_id c hnb] at hr ⊢
    have hc := ev_same n (F := F) (w := w) hnb (hr.agree.mono (fun x hx => by simp [hx]))
    cases hev : evalG n F ρi w c with
    | fail f w1 =>
      rw [hev] at h hc; simp only at h; subst h
      have : execG (n+1) F ρo w (.ite c (dceStmts t live).out (some (dceStmts b live).out)) = .fail f w1 := by
        rw [execG.eq_def]; simp only; rw [hc]
      exact block_of_exec F this (by simp [ResRel]) hd
    | ok cv w1 =>
      rw [hev] at h hc
      cases cv with
      | bool bb =>
        cases bb with
        | true =>
          simp only at h
          obtain ⟨m, r', hm, hrr⟩ := sim_nested_rel (needs := needs) ih h1.1.2 h2t h3.1 hr (fun y hy => by simp [hy])
            (fun y hy => by simp [hy]) (fun y hy => by simp [hy]) h hd
          exact block_of_exec F (exec_ite_out F hc (Or.inl ⟨rfl, rfl⟩) hm (hrr.nf hd)) hrr hd
        | false =>
          simp only at h
          obtain ⟨m, r', hm, hrr⟩ := sim_nested_rel (needs := needs) ih h1.2 h2b h3.2 hr (fun y hy => by simp [hy])
            (fun y hy => by simp [hy]) (fun y hy => by simp [hy]) h hd
          exact block_of_exec F (exec_ite_out F hc (Or.inr ⟨rfl, rfl⟩) hm (hrr.nf hd)) hrr hd
      | _ => simp only at h; subst h; exact absurd hd (by simp [Definite])


theorem exec_loop_out (F : GFile) {k1 k2 : Nat} {ρ ρ1 : GEnv} {w w1 : GWorld} {body : List GStmt}
    {r : GRes (GEnv × Sig)}
    (hb : nestedG k1 F ρ w body = .ok (ρ1, .normal) w1)
    (hl : execG k2 F ρ1 w1 (.loop body) = r) (hnf : r.nf) :
    execG (max k1 k2 + 1) F ρ w (.loop body) = r := by
  rw [execG.eq_def]; simp only
  rw [nestedG_mono (Nat.le_max_left k1 k2) (by rw [hb]; trivial), hb]
  simp only
  rw [execG_mono (Nat.le_max_right k1 k2) (by rw [hl]; exact hnf), hl]

theorem simX_loop {F D P} (n : Nat) (ih : SimAt F D P n) {body live needs ρi ρo w r}
    (h1 : scopeErrsStmt D (keys ρi) (.loop body) = [])
    (h2 : shapeOKStmt (.loop body) = true)
    (h3 : semOKStmt P (.loop body) live = true)
    (hr : Rel (dceStmt (.loop body) live needs).live (dceStmt (.loop body) live needs).needs ρo ρi)
    (h : execG (n+1) F ρi w (.loop body) = r) (hd : Definite r) :
    ∃ m r', execBlockG m F ρo w (dceStmt (.loop body) live needs).out = r' ∧ ResRel live needs r' r := by
  have h1s := h1; have h2s := h2; have h3s := h3; have hrs := hr
  rw [execG.eq_def] at h; simp only at h
  simp only [scopeErrsStmt] at h1
  simp only [shapeOKStmt] at h2
  simp only [semOKStmt, Bool.and_eq_true, List.all_eq_true, Bool.not_eq_true', List.contains_eq_mem,
    decide_eq_false_iff_not, decide_eq_true_eq] at h3
  obtain ⟨⟨⟨hw, heq⟩, hliveH⟩, h3b⟩ := h3
  have heq := eqStmts_sound _ _ heq
  simp only [dceStmt] at hr ⊢
  -- the variables live after the loop are not assigned in the body (input or output)
  have hwi : ∀ y ∈ live, ¬ y ∈ writesStmts body := fun y hy hwy => hw y hwy hy
  have hwo : ∀ y ∈ live, ¬ y ∈ writesStmts (dceStmts body live).out ∨ y = "_" := by
    intro y hy
    by_cases h_ : y = "_"
    · exact Or.inr h_
    · refine Or.inl (fun hwy => ?_)
      rcases writes_dce_sub body live y h2 hwy with h' | h'
      · exact hwi y hy h'
      · exact h_ h'
  -- run one iteration with the loop-back live set `H`; the output block is the same
  have hsim : ∀ {r0}, nestedG n F ρi w body = r0 → Definite r0 →
      ∃ m r', nestedG m F ρo w (dceStmts body live).out = r' ∧
        ResRel (uni live (dceStmts body live).live) needs r' r0 := by
    intro r0 hn0 hd0
    obtain ⟨m, r', hm, hrr⟩ := sim_nested_rel (needs := needs) (live := uni live (dceStmts body live).live)
      ih h1 h2 h3b hr (fun y hy => by simpa using hliveH y hy)
      (fun y hy => by rw [heq] at hy; simp [hy]) (fun y hy => by simp [hy]) hn0 hd0
    rw [heq] at hm
    exact ⟨m, r', hm, hrr⟩
  cases hnb : nestedG n F ρi w body with
  | fail f w1 =>
    rw [hnb] at h; simp only at h; subst h
    obtain ⟨m, r', hm, hrr⟩ := hsim hnb hd
    cases r' with
    | ok p w' => obtain ⟨_, _⟩ := p; simp [ResRel] at hrr
    | fail f' w' =>
      have : execG (m+1) F ρo w (.loop (dceStmts body live).out) = .fail f' w' := by
        rw [execG.eq_def]; simp only; rw [hm]
      refine block_of_exec F this ?_ hd
      simpa [ResRel] using hrr
  | ok p w1 =>
    obtain ⟨ρi1, sig⟩ := p
    rw [hnb] at h
    obtain ⟨m, r', hm, hrr⟩ := hsim hnb trivial
    cases r' with
    | fail f' w' => simp [ResRel] at hrr
    | ok p' w' =>
      obtain ⟨ρo1, sig'⟩ := p'
      simp only [ResRel] at hrr
      obtain ⟨rfl, rfl, hnorm⟩ := hrr
      cases sig' with
      | normal =>
        simp only at h
        -- the invariant at the loop head holds again: the iteration was simulated with `H`
        have hhead : Rel (uni live (dceStmts body live).live)
            (uni needs (assignedStmts (dceStmts body live).out)) ρo1 ρi1 :=
          rel_after_nested hr ((frame_all m).ne hm) ((frame_all n).ne hnb) (hnorm rfl).agree
            (fun y hy => hy)
        have hk1 : keys ρi1 = keys ρi := frame_keys ((frame_all n).ne hnb)
        obtain ⟨m2, r2, hm2, hr2⟩ := ih.ex (needs := needs) (ρo := ρo1) (by rw [hk1]; exact h1s) h2s h3s
          (by simpa [dceStmt] using hhead) h hd
        simp only [dceStmt] at hm2
        obtain ⟨k2, hk2⟩ := exec_single_inv F m2 ρo1 w' _ r2 hm2 (hr2.nf hd)
        exact block_of_exec F (exec_loop_out F hm hk2 (hr2.nf hd)) hr2 hd
      | brk =>
        simp only at h; subst h
        have : execG (m+1) F ρo w (.loop (dceStmts body live).out) = .ok (ρo1, .normal) w' := by
          rw [execG.eq_def]; simp only; rw [hm]
        refine block_of_exec F this ?_ trivial
        simp only [ResRel]
        refine ⟨trivial, trivial, fun _ => ?_⟩
        -- after `break`: what is live after the loop was not assigned, so the frame lemma gives it
        have hr0 : Rel live needs ρo ρi := hr.mono (fun y hy => by simp [hy]) (fun y hy => by simp [hy])
        exact rel_frame hr0 ((frame_all m).ne hm) ((frame_all n).ne hnb) hwi hwo
      | ret v =>
        simp only at h; subst h
        have : execG (m+1) F ρo w (.loop (dceStmts body live).out) = .ok (ρo1, .ret v) w' := by
          rw [execG.eq_def]; simp only; rw [hm]
        refine block_of_exec F this ?_ trivial
        simp only [ResRel]
        exact ⟨trivial, trivial, fun hc => by cases hc⟩

end Goml.Dce
