import GomlVerif.Lemmas.DceSim3
/-! Simulation proof for DCE, part 4: `switch` (case lists with the threaded live set) and the case lists of type switches. -/
set_option linter.unusedSimpArgs false
set_option linter.unusedVariables false
namespace Goml.Dce
open Goml.Go Goml.Sem

theorem ResRelN.mono {L L' : Names} {r' r} (h : ResRelN L' r' r) (hs : ∀ y ∈ L, y ∈ L') : ResRelN L r' r := by
  cases r' with
  | fail f w =>
    cases r with
    | fail f' w' => exact h
    | ok p w' => obtain ⟨_, _⟩ := p; simp [ResRelN] at h
  | ok p w =>
    obtain ⟨ρo, so⟩ := p
    cases r with
    | fail f' w' => simp [ResRelN] at h
    | ok p' w' =>
      obtain ⟨ρi, si⟩ := p'
      simp only [ResRelN] at h ⊢
      exact ⟨h.1, h.2.1, fun hn => (h.2.2 hn).mono hs⟩

theorem ResRelN.nf {L r' r} (h : ResRelN L r' r) (hd : Definite r) : r'.nf := (h.definite hd).nf

theorem simSwN {F D P} (n : Nat) (ih : SimAt F D P n) : ∀ {cs live ρi ρo w v r},
    scopeErrsCases D (keys ρi) cs = [] → shapeOKCases cs = true → semOKCases P cs live = true →
    Agree (uni (dceCases cs live).live (dceCases cs live).liveIn) ρo ρi →
    (∀ x ∈ keys ρo, x ∈ keys ρi) →
    (∀ x ∈ (dceCases cs live).needs, x ∈ keys ρi → x ∈ keys ρo) →
    ¬ "_" ∈ keys ρi →
    switchG (n+1) F ρi w v cs none = r → Definite r →
    ∃ m r', switchG m F ρo w v (dceCases cs live).cases none = r' ∧ ResRelN live r' r := by
  intro cs live ρi ρo w v r h1 h2 h3 ha hsub hneeds hblank h hd
  cases cs with
  | nil =>
    rw [switchG.eq_def] at h; simp only at h; subst h
    refine ⟨1, .ok (ρo, .normal) w, by rw [switchG.eq_def]; simp [dceCases], ?_⟩
    simp only [ResRelN]
    exact ⟨trivial, trivial, fun _ => ha.mono (fun y hy => by simp [dceCases, hy])⟩
  | cons c rest =>
    cases c with
    | mk ce body =>
      simp only [scopeErrsCases, List.append_eq_nil_iff] at h1
      simp only [shapeOKCases, Bool.and_eq_true] at h2
      obtain ⟨⟨⟨hnb, _⟩, h2b⟩, h2r⟩ := h2
      have hid := dceExpr_id ce hnb
      simp only [semOKCases, hid, Bool.and_eq_true] at h3
      simp only [dceCases, hid] at ha hneeds ⊢
      rw [switchG.eq_def] at h; simp only at h
      have hce : Agree (varsUsed ce) ρo ρi := ha.mono (fun y hy => by
        simp only [mem_uni]; exact Or.inl (cases_live_mono rest _ y (by simp [hy])))
      have hc := ev_same n (F := F) (w := w) hnb hce
      cases hev : evalG n F ρi w ce with
      | fail f w1 =>
        rw [hev] at h hc; simp only at h; subst h
        refine ⟨n + 1, .fail f w1, ?_, by simp [ResRelN]⟩
        rw [switchG.eq_def]; simp only; rw [hc]
      | ok cv w1 =>
        rw [hev] at h hc; simp only at h
        by_cases hm : (gvalEq cv v).getD false = true
        · rw [if_pos hm] at h
          have hrel : Rel (dceStmts body live).live (dceStmts body live).needs ρo ρi :=
            ⟨ha.mono (fun y hy => by simp [hy]), hsub,
             fun y hy hk => hneeds y (by simp [needs_sub_stmts _ _ y hy]) hk, hblank⟩
          obtain ⟨m, r', hm', hrr⟩ := ih.ne h1.1.2 h2b h3.1 hrel h hd
          refine ⟨max n m + 1, r', ?_, hrr⟩
          rw [switchG.eq_def]; simp only
          rw [evalG_mono (Nat.le_max_left n m) (by rw [hc]; trivial), hc]
          simp only; rw [if_pos hm]
          rw [nestedG_mono (Nat.le_max_right n m) (by rw [hm']; exact hrr.nf hd), hm']
        · rw [if_neg hm] at h
          cases n with
          | zero => simp [switchG] at h; subst h; exact absurd hd (by simp [Definite])
          | succ n' =>
            have ih' : SimAt F D P (n'+1) := ih
            obtain ⟨m, r', hm', hrr⟩ := ih'.swN (live := uni live (varsUsed ce)) h1.2 h2r h3.2
              (ha.mono (fun y hy => by
                simp only [mem_uni] at hy ⊢
                rcases hy with hy | hy
                · exact Or.inl hy
                · exact Or.inr (Or.inr hy)))
              hsub (fun y hy hk => hneeds y (by simp [hy]) hk) hblank h hd
            refine ⟨max (n'+1) m + 1, r', ?_, hrr.mono (fun y hy => by simp [hy])⟩
            rw [switchG.eq_def]; simp only
            rw [evalG_mono (Nat.le_max_left (n'+1) m) (by rw [hc]; trivial), hc]
            simp only; rw [if_neg hm]
            rw [switchG_mono (Nat.le_max_right (n'+1) m) (by rw [hm']; exact hrr.nf hd), hm']


theorem simSwS {F D P} (n : Nat) (ih : SimAt F D P n) : ∀ {cs b live ρi ρo w v r},
    scopeErrsCases D (keys ρi) cs = [] → scopeErrs D (keys ρi) b = [] →
    shapeOKCases cs = true → shapeOK b = true →
    semOKCases P cs live = true → semOK P b (dceCases cs live).live = true →
    Agree (uni (uni (dceCases cs live).live (dceCases cs live).liveIn)
      (dceStmts b (dceCases cs live).live).live) ρo ρi →
    (∀ x ∈ keys ρo, x ∈ keys ρi) →
    (∀ x ∈ uni (dceCases cs live).needs (assignedStmts (dceStmts b (dceCases cs live).live).out),
      x ∈ keys ρi → x ∈ keys ρo) →
    ¬ "_" ∈ keys ρi →
    switchG (n+1) F ρi w v cs (some b) = r → Definite r →
    ∃ m r', switchG m F ρo w v (dceCases cs live).cases
      (some (dceStmts b (dceCases cs live).live).out) = r' ∧ ResRelN live r' r := by
  intro cs b live ρi ρo w v r h1 h1b h2 h2d h3 h3d ha hsub hneeds hblank h hd
  cases cs with
  | nil =>
    rw [switchG.eq_def] at h; simp only at h
    simp only [dceCases] at ha hneeds h3d ⊢
    have hrel : Rel (dceStmts b live).live (dceStmts b live).needs ρo ρi :=
      ⟨ha.mono (fun y hy => by simp [hy]), hsub,
       fun y hy hk => hneeds y (by simp [needs_sub_stmts _ _ y hy]) hk, hblank⟩
    obtain ⟨m, r', hm', hrr⟩ := ih.ne h1b h2d h3d hrel h hd
    refine ⟨m + 1, r', ?_, hrr⟩
    rw [switchG.eq_def]; simp only; exact hm'
  | cons c rest =>
    cases c with
    | mk ce body =>
      simp only [scopeErrsCases, List.append_eq_nil_iff] at h1
      simp only [shapeOKCases, Bool.and_eq_true] at h2
      obtain ⟨⟨⟨hnb, _⟩, h2b⟩, h2r⟩ := h2
      have hid := dceExpr_id ce hnb
      simp only [semOKCases, hid, Bool.and_eq_true] at h3
      simp only [dceCases, hid] at ha hneeds h3d ⊢
      rw [switchG.eq_def] at h; simp only at h
      have hce : Agree (varsUsed ce) ρo ρi := ha.mono (fun y hy => by
        simp only [mem_uni]; exact Or.inl (Or.inl (cases_live_mono rest _ y (by simp [hy]))))
      have hc := ev_same n (F := F) (w := w) hnb hce
      cases hev : evalG n F ρi w ce with
      | fail f w1 =>
        rw [hev] at h hc; simp only at h; subst h
        refine ⟨n + 1, .fail f w1, ?_, by simp [ResRelN]⟩
        rw [switchG.eq_def]; simp only; rw [hc]
      | ok cv w1 =>
        rw [hev] at h hc; simp only at h
        by_cases hm : (gvalEq cv v).getD false = true
        · rw [if_pos hm] at h
          have hrel : Rel (dceStmts body live).live (dceStmts body live).needs ρo ρi :=
            ⟨ha.mono (fun y hy => by simp [hy]), hsub,
             fun y hy hk => hneeds y (by simp [needs_sub_stmts _ _ y hy]) hk, hblank⟩
          obtain ⟨m, r', hm', hrr⟩ := ih.ne h1.1.2 h2b h3.1 hrel h hd
          refine ⟨max n m + 1, r', ?_, hrr⟩
          rw [switchG.eq_def]; simp only
          rw [evalG_mono (Nat.le_max_left n m) (by rw [hc]; trivial), hc]
          simp only; rw [if_pos hm]
          rw [nestedG_mono (Nat.le_max_right n m) (by rw [hm']; exact hrr.nf hd), hm']
        · rw [if_neg hm] at h
          obtain ⟨m, r', hm', hrr⟩ := ih.swS (live := uni live (varsUsed ce)) h1.2 h1b h2r h2d h3.2 h3d
            (ha.mono (fun y hy => by
              simp only [mem_uni] at hy ⊢
              rcases hy with (hy | hy) | hy
              · exact Or.inl (Or.inl hy)
              · exact Or.inl (Or.inr (Or.inr hy))
              · exact Or.inr hy))
            hsub (fun y hy hk => hneeds y (by
              simp only [mem_uni] at hy ⊢
              rcases hy with hy | hy
              · exact Or.inl (Or.inr hy)
              · exact Or.inr hy) hk) hblank h hd
          refine ⟨max n m + 1, r', ?_, hrr.mono (fun y hy => by simp [hy])⟩
          rw [switchG.eq_def]; simp only
          rw [evalG_mono (Nat.le_max_left n m) (by rw [hc]; trivial), hc]
          simp only; rw [if_neg hm]
          rw [switchG_mono (Nat.le_max_right n m) (by rw [hm']; exact hrr.nf hd), hm']

/-- the `hit` test of a type-switch clause -/
def tsHit (ty : GTy) (v : GVal) : Bool :=
  match ty, v with
  | .name n, .struct m _ => n == m
  | .struct n _, .struct m _ => n == m
  | _, _ => false

theorem tswitch_cons (m : Nat) (F : GFile) (ρ : GEnv) (w : GWorld) (v : GVal) (ty : GTy)
    (body : List GStmt) (rest : List GTCase) (d : Option (List GStmt)) :
    tswitchG (m+1) F ρ w v (.mk ty body :: rest) d =
      if tsHit ty v then nestedG m F ρ w body else tswitchG m F ρ w v rest d := by
  rw [tswitchG.eq_def]; simp only [tsHit]
  cases ty <;> cases v <;> rfl

theorem simTsN {F D P} (n : Nat) (ih : SimAt F D P n) : ∀ {cs live ρi ρo w v r},
    scopeErrsTCases D (keys ρi) cs = [] → shapeOKTCases cs = true → semOKTCases P cs live = true →
    Agree (uni live (dceTCases cs live).liveIn) ρo ρi →
    (∀ x ∈ keys ρo, x ∈ keys ρi) →
    (∀ x ∈ (dceTCases cs live).needs, x ∈ keys ρi → x ∈ keys ρo) →
    ¬ "_" ∈ keys ρi →
    tswitchG (n+1) F ρi w v cs none = r → Definite r →
    ∃ m r', tswitchG m F ρo w v (dceTCases cs live).cases none = r' ∧ ResRelN live r' r := by
  intro cs live ρi ρo w v r h1 h2 h3 ha hsub hneeds hblank h hd
  cases cs with
  | nil =>
    rw [tswitchG.eq_def] at h; simp only at h; subst h
    refine ⟨1, .ok (ρo, .normal) w, by rw [tswitchG.eq_def]; simp [dceTCases], ?_⟩
    simp only [ResRelN]
    exact ⟨trivial, trivial, fun _ => ha.mono (fun y hy => by simp [hy])⟩
  | cons c rest =>
    cases c with
    | mk ty body =>
      simp only [scopeErrsTCases, List.append_eq_nil_iff] at h1
      simp only [shapeOKTCases, Bool.and_eq_true] at h2
      simp only [semOKTCases, Bool.and_eq_true] at h3
      simp only [dceTCases] at ha hneeds ⊢
      rw [tswitch_cons] at h
      by_cases hm : tsHit ty v = true
      · rw [if_pos hm] at h
        have hrel : Rel (dceStmts body live).live (dceStmts body live).needs ρo ρi :=
          ⟨ha.mono (fun y hy => by simp [hy]), hsub,
           fun y hy hk => hneeds y (by simp [needs_sub_stmts _ _ y hy]) hk, hblank⟩
        obtain ⟨m, r', hm', hrr⟩ := ih.ne h1.1 h2.1 h3.1 hrel h hd
        refine ⟨m + 1, r', ?_, hrr⟩
        rw [tswitch_cons, if_pos hm]; exact hm'
      · rw [if_neg hm] at h
        obtain ⟨m, r', hm', hrr⟩ := ih.tsN (live := live) h1.2 h2.2 h3.2
          (ha.mono (fun y hy => by
            simp only [mem_uni] at hy ⊢
            rcases hy with hy | hy
            · exact Or.inl hy
            · exact Or.inr (Or.inr hy))) hsub (fun y hy hk => hneeds y (by simp [hy]) hk) hblank h hd
        refine ⟨m + 1, r', ?_, hrr⟩
        rw [tswitch_cons, if_neg hm]; exact hm'


theorem simTsS {F D P} (n : Nat) (ih : SimAt F D P n) : ∀ {cs b live ρi ρo w v r},
    scopeErrsTCases D (keys ρi) cs = [] → scopeErrs D (keys ρi) b = [] →
    shapeOKTCases cs = true → shapeOK b = true →
    semOKTCases P cs live = true → semOK P b live = true →
    Agree (uni (uni live (dceTCases cs live).liveIn) (dceStmts b live).live) ρo ρi →
    (∀ x ∈ keys ρo, x ∈ keys ρi) →
    (∀ x ∈ uni (dceTCases cs live).needs (assignedStmts (dceStmts b live).out),
      x ∈ keys ρi → x ∈ keys ρo) →
    ¬ "_" ∈ keys ρi →
    tswitchG (n+1) F ρi w v cs (some b) = r → Definite r →
    ∃ m r', tswitchG m F ρo w v (dceTCases cs live).cases (some (dceStmts b live).out) = r' ∧
      ResRelN live r' r := by
  intro cs b live ρi ρo w v r h1 h1b h2 h2d h3 h3d ha hsub hneeds hblank h hd
  cases cs with
  | nil =>
    rw [tswitchG.eq_def] at h; simp only at h
    simp only [dceTCases] at ha hneeds ⊢
    have hrel : Rel (dceStmts b live).live (dceStmts b live).needs ρo ρi :=
      ⟨ha.mono (fun y hy => by simp [hy]), hsub,
       fun y hy hk => hneeds y (by simp [needs_sub_stmts _ _ y hy]) hk, hblank⟩
    obtain ⟨m, r', hm', hrr⟩ := ih.ne h1b h2d h3d hrel h hd
    refine ⟨m + 1, r', ?_, hrr⟩
    rw [tswitchG.eq_def]; simp only; exact hm'
  | cons c rest =>
    cases c with
    | mk ty body =>
      simp only [scopeErrsTCases, List.append_eq_nil_iff] at h1
      simp only [shapeOKTCases, Bool.and_eq_true] at h2
      simp only [semOKTCases, Bool.and_eq_true] at h3
      simp only [dceTCases] at ha hneeds ⊢
      rw [tswitch_cons] at h
      by_cases hm : tsHit ty v = true
      · rw [if_pos hm] at h
        have hrel : Rel (dceStmts body live).live (dceStmts body live).needs ρo ρi :=
          ⟨ha.mono (fun y hy => by simp [hy]), hsub,
           fun y hy hk => hneeds y (by simp [needs_sub_stmts _ _ y hy]) hk, hblank⟩
        obtain ⟨m, r', hm', hrr⟩ := ih.ne h1.1 h2.1 h3.1 hrel h hd
        refine ⟨m + 1, r', ?_, hrr⟩
        rw [tswitch_cons, if_pos hm]; exact hm'
      · rw [if_neg hm] at h
        obtain ⟨m, r', hm', hrr⟩ := ih.tsS (live := live) h1.2 h1b h2.2 h2d h3.2 h3d
          (ha.mono (fun y hy => by
            simp only [mem_uni] at hy ⊢
            rcases hy with (hy | hy) | hy
            · exact Or.inl (Or.inl hy)
            · exact Or.inl (Or.inr (Or.inr hy))
            · exact Or.inr hy)) hsub
          (fun y hy hk => hneeds y (by
            simp only [mem_uni] at hy ⊢
            rcases hy with hy | hy
            · exact Or.inl (Or.inr hy)
            · exact Or.inr hy) hk) hblank h hd
        refine ⟨m + 1, r', ?_, hrr⟩
        rw [tswitch_cons, if_neg hm]; exact hm'


theorem resrel_of_frames {L N L0 N0 : Names} {ρo ρi : GEnv} {r r' : GRes (GEnv × Sig)}
    (h : Rel L0 N0 ρo ρi) (hrr : ResRelN L r' r)
    (hfi : ∀ ρi' s w', r = .ok (ρi', s) w' → ∃ W, FrameEq W ρi ρi')
    (hfo : ∀ ρo' s w', r' = .ok (ρo', s) w' → ∃ W, FrameEq W ρo ρo')
    (hn : ∀ y ∈ N, y ∈ N0) : ResRel L N r' r := by
  cases r with
  | fail f w1 =>
    cases r' with
    | fail f' w1' => simpa [ResRelN, ResRel] using hrr
    | ok p w1' => obtain ⟨_, _⟩ := p; simp [ResRelN] at hrr
  | ok p w1 =>
    obtain ⟨ρi', si⟩ := p
    cases r' with
    | fail f' w1' => simp [ResRelN] at hrr
    | ok p' w1' =>
      obtain ⟨ρo', so⟩ := p'
      simp only [ResRelN] at hrr
      simp only [ResRel]
      refine ⟨hrr.1, hrr.2.1, fun hs => ?_⟩
      obtain ⟨Wi, fi⟩ := hfi _ _ _ rfl
      obtain ⟨Wo, fo⟩ := hfo _ _ _ rfl
      exact rel_after_nested h fo fi (hrr.2.2 hs) hn

theorem exec_switch_out (F : GFile) {k1 k2 : Nat} {ρ : GEnv} {w w1 : GWorld} {e : GExpr} {v : GVal}
    {cs : List GCase} {d : Option (List GStmt)} {r : GRes (GEnv × Sig)}
    (he : evalG k1 F ρ w e = .ok v w1) (hs : switchG k2 F ρ w1 v cs d = r) (hnf : r.nf) :
    execG (max k1 k2 + 1) F ρ w (.switch e cs d) = r := by
  rw [execG.eq_def]; simp only
  rw [evalG_mono (Nat.le_max_left k1 k2) (by rw [he]; trivial), he]
  simp only
  rw [switchG_mono (Nat.le_max_right k1 k2) (by rw [hs]; exact hnf), hs]

theorem simX_switch {F D P} (n : Nat) (ih : SimAt F D P n) {e cs d live needs ρi ρo w r}
    (h1 : scopeErrsStmt D (keys ρi) (.switch e cs d) = [])
    (h2 : shapeOKStmt (.switch e cs d) = true)
    (h3 : semOKStmt P (.switch e cs d) live = true)
    (hr : Rel (dceStmt (.switch e cs d) live needs).live (dceStmt (.switch e cs d) live needs).needs ρo ρi)
    (h : execG (n+1) F ρi w (.switch e cs d) = r) (hd : Definite r) :
    ∃ m r', execBlockG m F ρo w (dceStmt (.switch e cs d) live needs).out = r' ∧ ResRel live needs r' r := by
  rw [execG.eq_def] at h; simp only at h
  cases d with
  | none =>
    simp only [scopeErrsStmt, List.append_eq_nil_iff] at h1
    simp only [shapeOKStmt, Bool.and_eq_true] at h2
    simp only [semOKStmt] at h3
    obtain ⟨⟨⟨hnb, _⟩, h2c⟩, _⟩ := h2
    simp only [dceStmt, dceExpr_id e hnb] at hr ⊢
    have hc := ev_same n (F := F) (w := w) hnb (hr.agree.mono (fun x hx => by simp [hx]))
    cases hev : evalG n F ρi w e with
    | fail f w1 =>
      rw [hev] at h hc; simp only at h; subst h
      have : execG (n+1) F ρo w (.switch e (dceCases cs live).cases none) = .fail f w1 := by
        rw [execG.eq_def]; simp only; rw [hc]
      exact block_of_exec F this (by simp [ResRel]) hd
    | ok v w1 =>
      rw [hev] at h hc; simp only at h
      obtain ⟨m, r', hm, hrr⟩ := ih.swN (live := live) h1.1.2 h2c h3
        (hr.agree.mono (fun y hy => by
          simp only [mem_uni] at hy ⊢
          rcases hy with hy | hy
          · exact Or.inl (Or.inl hy)
          · exact Or.inr hy))
        hr.sub (fun y hy hk => hr.needs y (by simp [hy]) hk) hr.blank h hd
      have hres : ResRel live needs r' r := resrel_of_frames hr hrr
        (fun _ _ _ e' => ⟨_, (frame_all n).sw (e' ▸ h)⟩)
        (fun _ _ _ e' => ⟨_, (frame_all m).sw (e' ▸ hm)⟩) (fun y hy => by simp [hy])
      exact block_of_exec F (exec_switch_out F hc hm (hrr.nf hd)) hres hd
  | some b =>
    simp only [scopeErrsStmt, List.append_eq_nil_iff] at h1
    simp only [shapeOKStmt, Bool.and_eq_true] at h2
    simp only [semOKStmt, Bool.and_eq_true] at h3
    obtain ⟨⟨⟨hnb, _⟩, h2c⟩, h2b⟩ := h2
    simp only [dceStmt, dceExpr_id e hnb] at hr ⊢
    have hc := ev_same n (F := F) (w := w) hnb (hr.agree.mono (fun x hx => by simp [hx]))
    cases hev : evalG n F ρi w e with
    | fail f w1 =>
      rw [hev] at h hc; simp only at h; subst h
      have : execG (n+1) F ρo w (.switch e (dceCases cs live).cases
          (some (dceStmts b (dceCases cs live).live).out)) = .fail f w1 := by
        rw [execG.eq_def]; simp only; rw [hc]
      exact block_of_exec F this (by simp [ResRel]) hd
    | ok v w1 =>
      rw [hev] at h hc; simp only at h
      obtain ⟨m, r', hm, hrr⟩ := ih.swS (live := live) h1.1.2 h1.2 h2c h2b h3.1 h3.2
        (hr.agree.mono (fun y hy => by
          simp only [mem_uni] at hy ⊢
          rcases hy with (hy | hy) | hy
          · exact Or.inl (Or.inl (Or.inl hy))
          · exact Or.inl (Or.inr hy)
          · exact Or.inr hy))
        hr.sub (fun y hy hk => hr.needs y (by
          simp only [mem_uni] at hy ⊢
          rcases hy with hy | hy
          · exact Or.inl (Or.inr hy)
          · exact Or.inr hy) hk) hr.blank h hd
      have hres : ResRel live needs r' r := resrel_of_frames hr hrr
        (fun _ _ _ e' => ⟨_, (frame_all n).sw (e' ▸ h)⟩)
        (fun _ _ _ e' => ⟨_, (frame_all m).sw (e' ▸ hm)⟩) (fun y hy => by simp [hy])
      exact block_of_exec F (exec_switch_out F hc hm (hrr.nf hd)) hres hd

end Goml.Dce
