import GomlVerif.Lemmas.DceSim4
/-! Simulation proof for DCE, part 5: the type switch (binding kept or dropped) and scope congruence. -/
set_option linter.unusedSimpArgs false
set_option linter.unusedVariables false
namespace Goml.Dce
open Goml.Go Goml.Sem

theorem undecl_congr {D sc sc' : Names} (h : ∀ x, x ∈ sc ↔ x ∈ sc') (us : Names) :
    undecl D sc us = undecl D sc' us := by
  unfold undecl
  apply List.filter_congr
  intro x _
  have : sc.contains x = sc'.contains x := by
    by_cases hx : x ∈ sc
    · simp [hx, (h x).mp hx]
    · have : ¬ x ∈ sc' := fun hh => hx ((h x).mpr hh)
      simp [hx, this]
  rw [this]

theorem contains_congr {sc sc' : Names} (h : ∀ x, x ∈ sc ↔ x ∈ sc') (x : String) :
    sc.contains x = sc'.contains x := by
  by_cases hx : x ∈ sc
  · simp [hx, (h x).mp hx]
  · have : ¬ x ∈ sc' := fun hh => hx ((h x).mpr hh)
    simp [hx, this]

mutual
theorem scopeErrs_congr (D : Names) : ∀ (ss : List GStmt) (sc sc' : Names), (∀ x, x ∈ sc ↔ x ∈ sc') →
    scopeErrs D sc ss = scopeErrs D sc' ss
  | [], sc, sc', h => by simp [scopeErrs]
  | s :: rest, sc, sc', h => by
    simp only [scopeErrs]
    rw [scopeErrsStmt_congr D s sc sc' h]
    rw [scopeErrs_congr D rest (declScope s sc) (declScope s sc') (by
      intro x; cases s <;> simp [declScope, h x])]
theorem scopeErrsStmt_congr (D : Names) : ∀ (s : GStmt) (sc sc' : Names), (∀ x, x ∈ sc ↔ x ∈ sc') →
    scopeErrsStmt D sc s = scopeErrsStmt D sc' s
  | .expr e, sc, sc', h => by simp only [scopeErrsStmt, undecl_congr h]
  | .go e, sc, sc', h => by simp only [scopeErrsStmt, undecl_congr h]
  | .varDecl x ty v, sc, sc', h => by simp only [scopeErrsStmt, undecl_congr h, contains_congr h]
  | .assign x v, sc, sc', h => by simp only [scopeErrsStmt, undecl_congr h, contains_congr h]
  | .indexAssign a i v, sc, sc', h => by simp only [scopeErrsStmt, undecl_congr h]
  | .ptrAssign a v, sc, sc', h => by simp only [scopeErrsStmt, undecl_congr h]
  | .fieldAssign a v, sc, sc', h => by simp only [scopeErrsStmt, undecl_congr h]
  | .ret v, sc, sc', h => by simp only [scopeErrsStmt, undecl_congr h]
  | .brk, sc, sc', h => by simp only [scopeErrsStmt]
  | .loop b, sc, sc', h => by simp only [scopeErrsStmt, scopeErrs_congr D b sc sc' h]
  | .ite c t none, sc, sc', h => by
    simp only [scopeErrsStmt, undecl_congr h, scopeErrs_congr D t sc sc' h]
  | .ite c t (some b), sc, sc', h => by
    simp only [scopeErrsStmt, undecl_congr h, scopeErrs_congr D t sc sc' h, scopeErrs_congr D b sc sc' h]
  | .switch e cs none, sc, sc', h => by
    simp only [scopeErrsStmt, undecl_congr h, scopeErrsCases_congr D cs sc sc' h]
  | .switch e cs (some b), sc, sc', h => by
    simp only [scopeErrsStmt, undecl_congr h, scopeErrsCases_congr D cs sc sc' h, scopeErrs_congr D b sc sc' h]
  | .tswitch bind e cs none, sc, sc', h => by
    simp only [scopeErrsStmt, undecl_congr h, scopeErrsTCases_congr D cs sc sc' h, contains_congr h]
  | .tswitch bind e cs (some b), sc, sc', h => by
    simp only [scopeErrsStmt, undecl_congr h, scopeErrsTCases_congr D cs sc sc' h, contains_congr h,
      scopeErrs_congr D b sc sc' h]
theorem scopeErrsCases_congr (D : Names) : ∀ (cs : List GCase) (sc sc' : Names), (∀ x, x ∈ sc ↔ x ∈ sc') →
    scopeErrsCases D sc cs = scopeErrsCases D sc' cs
  | [], sc, sc', h => by simp [scopeErrsCases]
  | .mk v b :: rest, sc, sc', h => by
    simp only [scopeErrsCases, undecl_congr h, scopeErrs_congr D b sc sc' h, scopeErrsCases_congr D rest sc sc' h]
theorem scopeErrsTCases_congr (D : Names) : ∀ (cs : List GTCase) (sc sc' : Names), (∀ x, x ∈ sc ↔ x ∈ sc') →
    scopeErrsTCases D sc cs = scopeErrsTCases D sc' cs
  | [], sc, sc', h => by simp [scopeErrsTCases]
  | .mk t b :: rest, sc, sc', h => by
    simp only [scopeErrsTCases, scopeErrs_congr D b sc sc' h, scopeErrsTCases_congr D rest sc sc' h]
end


/-- the environment the clauses of a type switch run in -/
def bindEnv : Option String → GVal → GEnv → GEnv
  | some b, v, ρ => if b == "_" then ρ else (b, v) :: ρ
  | none, _, ρ => ρ

/-- pop what the type switch pushed -/
def popTo (k : Nat) : GRes (GEnv × Sig) → GRes (GEnv × Sig)
  | .fail f w => .fail f w
  | .ok (ρ', sig) w => .ok (ρ'.drop (ρ'.length - k), sig) w

theorem exec_tswitch_eq (k : Nat) (F : GFile) (ρ : GEnv) (w : GWorld) (bind : Option String) (e : GExpr)
    (cs : List GTCase) (d : Option (List GStmt)) :
    execG (k+1) F ρ w (.tswitch bind e cs d) =
      match evalG k F ρ w e with
      | .fail f w1 => .fail f w1
      | .ok v w1 => popTo ρ.length (tswitchG k F (bindEnv bind v ρ) w1 v cs d) := by
  rw [execG.eq_def]; simp only
  cases evalG k F ρ w e with
  | fail f w1 => rfl
  | ok v w1 =>
    simp only
    cases bind with
    | none => simp only [bindEnv]; cases tswitchG k F ρ w1 v cs d <;> rfl
    | some b =>
      simp only [bindEnv]
      by_cases hb : (b == "_") = true
      · simp only [hb, if_true]; cases tswitchG k F ρ w1 v cs d <;> rfl
      · simp only [hb, if_false, Bool.false_eq_true]
        cases tswitchG k F ((b, v) :: ρ) w1 v cs d <;> rfl

theorem popTo_nf {k : Nat} {r : GRes (GEnv × Sig)} (h : r.nf) : (popTo k r).nf := by
  cases r with
  | fail f w => exact h
  | ok p w => obtain ⟨_, _⟩ := p; trivial

theorem exec_tswitch_out (F : GFile) {k1 k2 : Nat} {ρ : GEnv} {w w1 : GWorld} {e : GExpr} {v : GVal}
    {bind : Option String} {cs : List GTCase} {d : Option (List GStmt)} {r : GRes (GEnv × Sig)}
    (he : evalG k1 F ρ w e = .ok v w1) (hs : tswitchG k2 F (bindEnv bind v ρ) w1 v cs d = r) (hnf : r.nf) :
    execG (max k1 k2 + 1) F ρ w (.tswitch bind e cs d) = popTo ρ.length r := by
  rw [exec_tswitch_eq]
  rw [evalG_mono (Nat.le_max_left k1 k2) (by rw [he]; trivial), he]
  simp only
  rw [tswitchG_mono (Nat.le_max_right k1 k2) (by rw [hs]; exact hnf), hs]

theorem bind_rel_dropped {L0 N0 : Names} {ρo ρi : GEnv} {b : String} {v : GVal} (h : Rel L0 N0 ρo ρi)
    (hb : b ≠ "_") (hl : lookupG ρi b = some v) (hbL : b ∈ L0) : Rel L0 N0 ρo ((b, v) :: ρi) := by
  have hlo : lookupG ρo b = some v := by rw [h.agree b hbL]; exact hl
  refine ⟨?_, ?_, ?_, ?_⟩
  · intro y hy
    by_cases hyb : y = b
    · subst hyb; rw [lookup_cons_self]; exact hlo
    · rw [lookup_cons_ne _ _ (Ne.symm hyb)]; exact h.agree y hy
  · intro y hy; simp only [keys_cons, List.mem_cons]; exact Or.inr (h.sub y hy)
  · intro y hy hk
    simp only [keys_cons, List.mem_cons] at hk
    rcases hk with hk | hk
    · subst hk; exact key_of_lookup_some hlo
    · exact h.needs y hy hk
  · simp only [keys_cons, List.mem_cons, not_or]; exact ⟨fun e => hb e.symm, h.blank⟩

/-- after a type switch: pop the binding on whichever side pushed it -/
theorem tswitch_finish {L0 N0 live needs Wo Wi : Names} {ρo ρi : GEnv} {bind : Option String} {free : Names}
    {v : GVal} {r0 r0' : GRes (GEnv × Sig)}
    (hr : Rel L0 N0 ρo ρi) (hn : ∀ y ∈ needs, y ∈ N0)
    (hbind : ∀ b, bind = some b → b ≠ "_" ∧ b ∈ L0 ∧ ¬ b ∈ Wi ∧ ¬ b ∈ Wo)
    (hrr : ResRelN live r0' r0)
    (hfi : ∀ ρi' s w', r0 = .ok (ρi', s) w' → FrameEq Wi (bindEnv bind v ρi) ρi')
    (hfo : ∀ ρo' s w', r0' = .ok (ρo', s) w' → FrameEq Wo (bindEnv (keepBind bind free) v ρo) ρo') :
    ResRel live needs (popTo ρo.length r0') (popTo ρi.length r0) := by
  cases r0 with
  | fail f w1 =>
    cases r0' with
    | fail f' w1' => simpa [ResRelN, ResRel, popTo] using hrr
    | ok p w1' => obtain ⟨_, _⟩ := p; simp [ResRelN] at hrr
  | ok p w1 =>
    obtain ⟨ρi', si⟩ := p
    cases r0' with
    | fail f' w1' => simp [ResRelN] at hrr
    | ok p' w1' =>
      obtain ⟨ρo', so⟩ := p'
      simp only [ResRelN] at hrr
      have fi := hfi _ _ _ rfl
      have fo := hfo _ _ _ rfl
      simp only [popTo, ResRel]
      refine ⟨hrr.1, hrr.2.1, fun hs => ?_⟩
      have hag := hrr.2.2 hs
      cases bind with
      | none =>
        simp only [bindEnv, keepBind] at fi fo
        rw [show ρi'.length - ρi.length = 0 by rw [fi.length]; simp,
            show ρo'.length - ρo.length = 0 by rw [fo.length]; simp]
        exact rel_after_nested hr fo fi hag hn
      | some b =>
        obtain ⟨hb_, hbL, hbWi, hbWo⟩ := hbind b rfl
        have hbf : (b == "_") = false := by simp [hb_]
        simp only [bindEnv, hbf] at fi
        cases fi with
        | cons hvi ti =>
          rename_i vi ρi2
          rw [show ((b, vi) :: ρi2).length - ρi.length = 1 by rw [List.length_cons, ti.length]; omega]
          simp only [List.drop_succ_cons, List.drop_zero]
          have hli : lookupG ρi2 b = lookupG ρi b := (FrameEq.lookup hbWi ti).symm
          by_cases hk : b ∈ free
          · have hkb : keepBind (some b) free = some b := by simp [keepBind, hk]
            rw [hkb] at fo
            simp only [bindEnv, hbf] at fo
            cases fo with
            | cons hvo to =>
              rename_i vo ρo2
              rw [show ((b, vo) :: ρo2).length - ρo.length = 1 by rw [List.length_cons, to.length]; omega]
              simp only [List.drop_succ_cons, List.drop_zero]
              have hlo : lookupG ρo2 b = lookupG ρo b := (FrameEq.lookup hbWo to).symm
              apply rel_after_nested hr to ti _ hn
              intro y hy
              by_cases hyb : y = b
              · subst hyb; rw [hlo, hli]; exact hr.agree y hbL
              · have := hag y hy
                rw [lookup_cons_ne _ _ (Ne.symm hyb), lookup_cons_ne _ _ (Ne.symm hyb)] at this
                exact this
          · have hkb : keepBind (some b) free = none := by simp [keepBind, hk]
            rw [hkb] at fo
            simp only [bindEnv] at fo
            rw [show ρo'.length - ρo.length = 0 by rw [fo.length]; simp]
            simp only [List.drop_zero]
            have hlo : lookupG ρo' b = lookupG ρo b := (FrameEq.lookup hbWo fo).symm
            apply rel_after_nested hr fo ti _ hn
            intro y hy
            by_cases hyb : y = b
            · subst hyb; rw [hlo, hli]; exact hr.agree y hbL
            · have := hag y hy
              rw [lookup_cons_ne _ _ (Ne.symm hyb)] at this
              exact this


theorem definite_popTo {k : Nat} {r : GRes (GEnv × Sig)} (h : Definite (popTo k r)) : Definite r := by
  cases r with
  | fail f w => exact h
  | ok p w => trivial

theorem evalG_var_key {n : Nat} {F : GFile} {ρ : GEnv} {w w1 : GWorld} {x : String} {t : GTy} {v : GVal}
    (h : evalG n F ρ w (.var x t) = .ok v w1) (hk : x ∈ keys ρ) : lookupG ρ x = some v := by
  cases n with
  | zero => simp [evalG] at h
  | succ n =>
    obtain ⟨v', hv'⟩ := lookup_some_of_key hk
    rw [evalG.eq_def] at h; simp only at h
    rw [hv'] at h; simp only at h; cases h; exact hv'

theorem mem_keys_cons_of_mem {ρ : GEnv} {b : String} {v : GVal} (hb : b ∈ keys ρ) :
    ∀ x, x ∈ keys ρ ↔ x ∈ keys ((b, v) :: ρ) := by
  intro x
  simp only [keys_cons, List.mem_cons]
  constructor
  · exact Or.inr
  · rintro (h | h)
    · subst h; exact hb
    · exact h

/-- facts about the binding extracted from the contract -/
theorem bind_facts {ρi : GEnv} {bind : Option String} {e : GExpr} {b : String}
    (hb : bind = some b)
    (hchk : (match bind with
          | some b =>
            (match e with
             | .var y _ => if y == b && (keys ρi).contains b then [] else [b]
             | _ => [b])
          | none => ([] : Names)) = []) :
    (∃ t, e = .var b t) ∧ b ∈ keys ρi := by
  subst hb
  simp only at hchk
  cases e <;> simp at hchk
  rename_i y t
  obtain ⟨h1, h2⟩ := hchk
  subst h1
  exact ⟨⟨t, rfl⟩, h2⟩


/-- the environments in which the clauses run are related like the ones before the switch -/
theorem bind_rel {D : Names} {L0 N0 : Names} {ρo ρi : GEnv} {n : Nat} {F : GFile} {w w1 : GWorld}
    {bind : Option String} {e : GExpr} {v : GVal} {free : Names}
    (hr : Rel L0 N0 ρo ρi) (hev : evalG n F ρi w e = .ok v w1)
    (hshape : ∀ b, bind = some b → b ≠ "_")
    (hscope : ∀ b, bind = some b → (∃ t, e = .var b t) ∧ b ∈ keys ρi)
    (hL : ∀ y ∈ varsUsed e, y ∈ L0) :
    Rel L0 N0 (bindEnv (keepBind bind free) v ρo) (bindEnv bind v ρi) ∧
      (∀ x, x ∈ keys ρi ↔ x ∈ keys (bindEnv bind v ρi)) := by
  cases bind with
  | none => simp only [bindEnv, keepBind]; exact ⟨hr, fun x => trivial⟩
  | some b =>
    have hb_ := hshape b rfl
    obtain ⟨⟨t, he⟩, hbk⟩ := hscope b rfl
    subst he
    have hbf : (b == "_") = false := by simp [hb_]
    have hl : lookupG ρi b = some v := evalG_var_key hev hbk
    simp only [bindEnv, hbf]
    refine ⟨?_, mem_keys_cons_of_mem hbk⟩
    by_cases hk : b ∈ free
    · have : keepBind (some b) free = some b := by simp [keepBind, hk]
      rw [this]; simp only [bindEnv, hbf]
      exact rel_push hr hb_ (fun y hy _ => hy) (fun y hy _ => hy)
    · have : keepBind (some b) free = none := by simp [keepBind, hk]
      rw [this]; simp only [bindEnv]
      exact bind_rel_dropped hr hb_ hl (hL b (by simp [varsUsed]))

theorem simX_tswitch {F D P} (n : Nat) (ih : SimAt F D P n) {bind e cs d live needs ρi ρo w r}
    (h1 : scopeErrsStmt D (keys ρi) (.tswitch bind e cs d) = [])
    (h2 : shapeOKStmt (.tswitch bind e cs d) = true)
    (h3 : semOKStmt P (.tswitch bind e cs d) live = true)
    (hr : Rel (dceStmt (.tswitch bind e cs d) live needs).live (dceStmt (.tswitch bind e cs d) live needs).needs ρo ρi)
    (h : execG (n+1) F ρi w (.tswitch bind e cs d) = r) (hd : Definite r) :
    ∃ m r', execBlockG m F ρo w (dceStmt (.tswitch bind e cs d) live needs).out = r' ∧ ResRel live needs r' r := by
  rw [exec_tswitch_eq] at h
  cases d with
  | none =>
    simp only [scopeErrsStmt, List.append_eq_nil_iff] at h1
    obtain ⟨⟨⟨hu, hchk⟩, hcs⟩, _⟩ := h1
    simp only [shapeOKStmt, Bool.and_eq_true] at h2
    obtain ⟨⟨⟨⟨hnb, _⟩, h2c⟩, _⟩, hbs⟩ := h2
    simp only [semOKStmt] at h3
    simp only [dceStmt, dceExpr_id e hnb] at hr ⊢
    have hc := ev_same n (F := F) (w := w) hnb (hr.agree.mono (fun x hx => by simp [hx]))
    cases hev : evalG n F ρi w e with
    | fail f w1 =>
      rw [hev] at h hc; simp only at h; subst h
      have : execG (n+1) F ρo w (.tswitch (keepBind bind (dceTCases cs live).free) e
          (dceTCases cs live).cases none) = .fail f w1 := by
        rw [exec_tswitch_eq, hc]
      exact block_of_exec F this (by simp [ResRel]) hd
    | ok v w1 =>
      rw [hev] at h hc; simp only at h
      have hshape : ∀ b, bind = some b → b ≠ "_" ∧ ¬ b ∈ writesTCases cs := by
        intro b hb; subst hb; simp [writesStmts] at hbs; exact ⟨hbs.1, hbs.2⟩
      obtain ⟨hrb, hkeq⟩ := bind_rel (D := D) (free := (dceTCases cs live).free) hr hev
        (fun b hb => (hshape b hb).1) (fun b hb => bind_facts hb hchk) (fun y hy => by simp [hy])
      subst h
      have hd0 := definite_popTo hd
      obtain ⟨m, r0', hm, hrr⟩ := ih.tsN (live := live)
        (by rw [← scopeErrsTCases_congr D cs _ _ hkeq]; exact hcs) h2c h3
        (hrb.agree.mono (fun y hy => by
          simp only [mem_uni] at hy ⊢
          rcases hy with hy | hy
          · exact Or.inl (Or.inl hy)
          · exact Or.inr hy))
        hrb.sub (fun y hy hk => hrb.needs y (by simp [hy]) hk) hrb.blank rfl hd0
      have hres := tswitch_finish (needs := needs) (free := (dceTCases cs live).free)
        (Wo := uni (writesTCases (dceTCases cs live).cases) (writesOpt none))
        (Wi := uni (writesTCases cs) (writesOpt none)) hr (fun y hy => by simp [hy])
        (fun b hb => by
          obtain ⟨hb1, hb2⟩ := hshape b hb
          obtain ⟨⟨t, he⟩, _⟩ := bind_facts hb hchk
          refine ⟨hb1, by subst he; simp [varsUsed], by simp [writesOpt, hb2], ?_⟩
          intro hw
          simp only [mem_uni, writesOpt] at hw
          rcases hw with hw | hw
          · rcases writes_dceTCases cs live b h2c hw with h' | h'
            · exact hb2 h'
            · exact hb1 h'
          · simp at hw)
        hrr (fun _ _ _ e' => (frame_all n).ts e') (fun _ _ _ e' => (frame_all m).ts (e' ▸ hm))
      exact block_of_exec F (exec_tswitch_out F hc hm (hrr.nf hd0)) hres hd
  | some db =>
    simp only [scopeErrsStmt, List.append_eq_nil_iff] at h1
    obtain ⟨⟨⟨hu, hchk⟩, hcs⟩, hdb⟩ := h1
    simp only [shapeOKStmt, Bool.and_eq_true] at h2
    obtain ⟨⟨⟨⟨hnb, _⟩, h2c⟩, h2d⟩, hbs⟩ := h2
    simp only [semOKStmt, Bool.and_eq_true] at h3
    simp only [dceStmt, dceExpr_id e hnb] at hr ⊢
    have hc := ev_same n (F := F) (w := w) hnb (hr.agree.mono (fun x hx => by simp [hx]))
    cases hev : evalG n F ρi w e with
    | fail f w1 =>
      rw [hev] at h hc; simp only at h; subst h
      have : execG (n+1) F ρo w (.tswitch (keepBind bind (uni (dceTCases cs live).free
          (freeVars (dceStmts db live).out))) e (dceTCases cs live).cases
          (some (dceStmts db live).out)) = .fail f w1 := by
        rw [exec_tswitch_eq, hc]
      exact block_of_exec F this (by simp [ResRel]) hd
    | ok v w1 =>
      rw [hev] at h hc; simp only at h
      have hshape : ∀ b, bind = some b → b ≠ "_" ∧ ¬ b ∈ writesTCases cs ∧ ¬ b ∈ writesStmts db := by
        intro b hb; subst hb; simp at hbs; exact ⟨hbs.1.1, hbs.1.2, hbs.2⟩
      obtain ⟨hrb, hkeq⟩ := bind_rel (D := D)
        (free := uni (dceTCases cs live).free (freeVars (dceStmts db live).out)) hr hev
        (fun b hb => (hshape b hb).1) (fun b hb => bind_facts hb hchk) (fun y hy => by simp [hy])
      subst h
      have hd0 := definite_popTo hd
      obtain ⟨m, r0', hm, hrr⟩ := ih.tsS (live := live)
        (by rw [← scopeErrsTCases_congr D cs _ _ hkeq]; exact hcs)
        (by rw [← scopeErrs_congr D db _ _ hkeq]; exact hdb) h2c h2d h3.1 h3.2
        (hrb.agree.mono (fun y hy => by
          simp only [mem_uni] at hy ⊢
          rcases hy with (hy | hy) | hy
          · exact Or.inl (Or.inl (Or.inl hy))
          · exact Or.inl (Or.inr hy)
          · exact Or.inr hy))
        hrb.sub (fun y hy hk => hrb.needs y (by
          simp only [mem_uni] at hy ⊢
          rcases hy with hy | hy
          · exact Or.inl (Or.inr hy)
          · exact Or.inr hy) hk) hrb.blank rfl hd0
      have hres := tswitch_finish (needs := needs)
        (free := uni (dceTCases cs live).free (freeVars (dceStmts db live).out))
        (Wo := uni (writesTCases (dceTCases cs live).cases) (writesOpt (some (dceStmts db live).out)))
        (Wi := uni (writesTCases cs) (writesOpt (some db))) hr (fun y hy => by simp [hy])
        (fun b hb => by
          obtain ⟨hb1, hb2, hb3⟩ := hshape b hb
          obtain ⟨⟨t, he⟩, _⟩ := bind_facts hb hchk
          refine ⟨hb1, by subst he; simp [varsUsed], by simp [writesOpt, hb2, hb3], ?_⟩
          intro hw
          simp only [mem_uni, writesOpt] at hw
          rcases hw with hw | hw
          · rcases writes_dceTCases cs live b h2c hw with h' | h'
            · exact hb2 h'
            · exact hb1 h'
          · rcases writes_dce_sub db live b h2d hw with h' | h'
            · exact hb3 h'
            · exact hb1 h')
        hrr (fun _ _ _ e' => (frame_all n).ts e') (fun _ _ _ e' => (frame_all m).ts (e' ▸ hm))
      exact block_of_exec F (exec_tswitch_out F hc hm (hrr.nf hd0)) hres hd

end Goml.Dce
