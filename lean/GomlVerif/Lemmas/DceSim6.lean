import GomlVerif.Lemmas.DceSim5
/-! Simulation proof for DCE, part 6: the induction on fuel. -/
set_option linter.unusedSimpArgs false
set_option linter.unusedVariables false
namespace Goml.Dce
open Goml.Go Goml.Sem

theorem not_definite_fuel {α : Type} {w : GWorld} : ¬ Definite (GRes.fail (α := α) .fuel w) := fun h => h

theorem sim0 {F D P} : SimAt F D P 0 := by
  constructor <;> intros <;> rename_i h hd <;>
    simp [execBlockG, nestedG, execG, switchG, tswitchG] at h <;> subst h <;> exact absurd hd not_definite_fuel

theorem simX {F D P} (hP : ∀ e, P e = true → Inert F e) (n : Nat) (ih : SimAt F D P n)
    {s live needs ρi ρo w r}
    (h1 : scopeErrsStmt D (keys ρi) s = []) (h2 : shapeOKStmt s = true) (h3 : semOKStmt P s live = true)
    (hr : Rel (dceStmt s live needs).live (dceStmt s live needs).needs ρo ρi)
    (h : execG (n+1) F ρi w s = r) (hd : Definite r) :
    ∃ m r', execBlockG m F ρo w (dceStmt s live needs).out = r' ∧ ResRel live needs r' r := by
  cases s with
  | expr e => exact simX_kept n trivial h2 hr h hd
  | go c => exact simX_kept n trivial h2 hr h hd
  | indexAssign a i v => exact simX_kept n trivial h2 hr h hd
  | ptrAssign p v => exact simX_kept n trivial h2 hr h hd
  | fieldAssign t v => exact simX_kept n trivial h2 hr h hd
  | ret v => exact simX_kept n trivial h2 hr h hd
  | brk => exact simX_kept n trivial h2 hr h hd
  | varDecl x ty v =>
    cases v with
    | none => exact simX_varDeclNone n h1 h2 hr h hd
    | some e => exact simX_varDecl hP n h1 h2 h3 hr h hd
  | assign x v => exact simX_assign (D := D) hP n h2 h3 hr h hd
  | ite c t e => exact simX_ite n ih h1 h2 h3 hr h hd
  | loop body => exact simX_loop n ih h1 h2 h3 hr h hd
  | «switch» e cs d => exact simX_switch n ih h1 h2 h3 hr h hd
  | tswitch bind e cs d => exact simX_tswitch n ih h1 h2 h3 hr h hd

theorem simStep {F D P} (hP : ∀ e, P e = true → Inert F e) (n : Nat) (ih : SimAt F D P n) :
    SimAt F D P (n+1) where
  bl := fun h1 h2 h3 hr h hd => simB n ih h1 h2 h3 hr h hd
  ne := fun h1 h2 h3 hr h hd => simN n ih h1 h2 h3 hr h hd
  ex := fun h1 h2 h3 hr h hd => simX hP n ih h1 h2 h3 hr h hd
  swS := simSwS n ih
  swN := simSwN n ih
  tsS := simTsS n ih
  tsN := simTsN n ih

theorem sim_all {F D P} (hP : ∀ e, P e = true → Inert F e) : ∀ n, SimAt F D P n
  | 0 => sim0
  | n + 1 => simStep hP n (sim_all hP n)

theorem rel_refl (L N : Names) (ρ : GEnv) (hb : ¬ "_" ∈ keys ρ) : Rel L N ρ ρ :=
  ⟨fun _ _ => rfl, fun _ h => h, fun _ _ h => h, hb⟩

end Goml.Dce
