import GomlVerif.Lemmas.DceExpr
/-! environment and block-execution lemmas used by the simulation proof (`Lemmas/DceSim.lean`) -/
set_option linter.unusedSimpArgs false
set_option linter.unusedVariables false
namespace Goml.Dce
open Goml.Go Goml.Sem

def keys (ρ : GEnv) : Names := ρ.map (·.1)

@[simp] theorem keys_cons (x : String) (v : GVal) (ρ : GEnv) : keys ((x, v) :: ρ) = x :: keys ρ := rfl
@[simp] theorem keys_nil : keys [] = [] := rfl

theorem lookup_cons_self (x : String) (v : GVal) (ρ : GEnv) : lookupG ((x, v) :: ρ) x = some v := by
  simp [lookupG, List.find?_cons]

theorem lookup_cons_ne {x y : String} (v : GVal) (ρ : GEnv) (h : x ≠ y) :
    lookupG ((x, v) :: ρ) y = lookupG ρ y := by
  have : (x == y) = false := by simp [h]
  simp [lookupG, List.find?_cons, this]

theorem lookup_none_of_not_key : ∀ {ρ : GEnv} {y : String}, ¬ y ∈ keys ρ → lookupG ρ y = none
  | [], y, _ => by simp [lookupG]
  | (x, v) :: ρ, y, h => by
    simp only [keys_cons, List.mem_cons, not_or] at h
    rw [lookup_cons_ne v ρ (fun e => h.1 e.symm)]
    exact lookup_none_of_not_key h.2

theorem lookup_some_of_key : ∀ {ρ : GEnv} {y : String}, y ∈ keys ρ → ∃ v, lookupG ρ y = some v
  | [], y, h => by cases h
  | (x, v) :: ρ, y, h => by
    by_cases hxy : x = y
    · subst hxy; exact ⟨v, lookup_cons_self _ _ _⟩
    · rw [lookup_cons_ne v ρ hxy]
      simp only [keys_cons, List.mem_cons] at h
      rcases h with h | h
      · exact absurd h.symm hxy
      · exact lookup_some_of_key h

theorem key_of_lookup_some {ρ : GEnv} {y : String} {v : GVal} (h : lookupG ρ y = some v) : y ∈ keys ρ := by
  by_cases hk : y ∈ keys ρ
  · exact hk
  · rw [lookup_none_of_not_key hk] at h; cases h

theorem keys_update (x : String) (v : GVal) : ∀ ρ : GEnv, keys (updateG ρ x v) = keys ρ
  | [] => rfl
  | (y, w) :: ρ => by
    unfold updateG
    split
    · rfl
    · simp [keys_update x v ρ]

theorem lookup_update_ne {x y : String} (v : GVal) (h : x ≠ y) : ∀ ρ : GEnv,
    lookupG (updateG ρ x v) y = lookupG ρ y
  | [] => rfl
  | (z, w) :: ρ => by
    unfold updateG
    split
    · rename_i hz
      have hz : z = x := by simpa using hz
      subst hz
      rw [lookup_cons_ne _ _ h, lookup_cons_ne _ _ h]
    · by_cases hzy : z = y
      · subst hzy; rw [lookup_cons_self, lookup_cons_self]
      · rw [lookup_cons_ne _ _ hzy, lookup_cons_ne _ _ hzy]; exact lookup_update_ne v h ρ

theorem lookup_update_self (x : String) (v : GVal) : ∀ ρ : GEnv, x ∈ keys ρ →
    lookupG (updateG ρ x v) x = some v
  | [], h => by cases h
  | (z, w) :: ρ, h => by
    unfold updateG
    split
    · rename_i hz
      have hz : z = x := by simpa using hz
      subst hz; exact lookup_cons_self _ _ _
    · rename_i hz
      have hz : z ≠ x := by simpa using hz
      rw [lookup_cons_ne _ _ hz]
      simp only [keys_cons, List.mem_cons] at h
      rcases h with h | h
      · exact absurd h.symm hz
      · exact lookup_update_self x v ρ h

theorem update_not_key (x : String) (v : GVal) : ∀ ρ : GEnv, ¬ x ∈ keys ρ → updateG ρ x v = ρ
  | [], _ => rfl
  | (z, w) :: ρ, h => by
    simp only [keys_cons, List.mem_cons, not_or] at h
    unfold updateG
    have : (z == x) = false := by
      have : ¬ z = x := fun e => h.1 e.symm
      simp [this]
    simp only [this]
    rw [update_not_key x v ρ h.2]
    rfl

/-- the run ended normally or with a panic (not out of fuel, not stuck) -/
def Definite {α : Type} : GRes α → Prop
  | .ok _ _ => True
  | .fail (.panic _) _ => True
  | .fail _ _ => False

theorem Definite.nf {α : Type} {r : GRes α} (h : Definite r) : r.nf := by
  cases r with
  | ok a w => trivial
  | fail f w => cases f <;> simp_all [Definite, GRes.nf]

/-! ### running the output block -/
theorem exec_nil (m : Nat) (F : GFile) (ρ : GEnv) (w : GWorld) :
    execBlockG (m+1) F ρ w [] = .ok (ρ, .normal) w := by
  rw [execBlockG.eq_def]

theorem exec_cons (m : Nat) (F : GFile) (ρ : GEnv) (w : GWorld) (s : GStmt) (rest : List GStmt) :
    execBlockG (m+1) F ρ w (s :: rest) =
      match execG m F ρ w s with
      | .fail f w => .fail f w
      | .ok (ρ', .normal) w => execBlockG m F ρ' w rest
      | .ok (ρ', sig) w => .ok (ρ', sig) w := by
  rw [execBlockG.eq_def]; rfl

/-- a block that ends `normal` followed by another block -/
theorem exec_append_normal (F : GFile) : ∀ (a b : List GStmt) (m1 m2 : Nat) (ρ ρ1 : GEnv) (w w1 : GWorld)
    (r : GRes (GEnv × Sig)),
    execBlockG m1 F ρ w a = .ok (ρ1, .normal) w1 → execBlockG m2 F ρ1 w1 b = r → r.nf →
    ∃ m, execBlockG m F ρ w (a ++ b) = r
  | [], b, m1, m2, ρ, ρ1, w, w1, r, h1, h2, hnf => by
    cases m1 with
    | zero => simp [execBlockG] at h1
    | succ m1 =>
      rw [exec_nil] at h1
      cases h1
      exact ⟨m2, h2⟩
  | s :: a, b, m1, m2, ρ, ρ1, w, w1, r, h1, h2, hnf => by
    cases m1 with
    | zero => simp [execBlockG] at h1
    | succ m1 =>
      rw [exec_cons] at h1
      cases hs : execG m1 F ρ w s with
      | fail f w' => rw [hs] at h1; cases h1
      | ok p w' =>
        obtain ⟨ρ', sig⟩ := p
        rw [hs] at h1
        cases sig with
        | normal =>
          simp only at h1
          obtain ⟨m, hm⟩ := exec_append_normal F a b m1 m2 ρ' ρ1 w' w1 r h1 h2 hnf
          refine ⟨max m1 m + 1, ?_⟩
          rw [List.cons_append, exec_cons]
          rw [execG_mono (Nat.le_max_left m1 m) (by rw [hs]; trivial), hs]
          simp only
          rw [execBlockG_mono (Nat.le_max_right m1 m) (by rw [hm]; exact hnf), hm]
        | brk => simp only at h1; cases h1
        | ret v => simp only at h1; cases h1

/-- a block that does not end `normal`: what follows it does not run -/
theorem exec_append_stop (F : GFile) : ∀ (a b : List GStmt) (m1 : Nat) (ρ : GEnv) (w : GWorld)
    (r : GRes (GEnv × Sig)),
    execBlockG m1 F ρ w a = r → r.nf → (∀ ρ1 w1, r ≠ .ok (ρ1, .normal) w1) →
    ∃ m, execBlockG m F ρ w (a ++ b) = r
  | [], b, m1, ρ, w, r, h1, hnf, hne => by
    cases m1 with
    | zero => simp [execBlockG] at h1; subst h1; simp [GRes.nf] at hnf
    | succ m1 => rw [exec_nil] at h1; exact absurd h1.symm (hne _ _)
  | s :: a, b, m1, ρ, w, r, h1, hnf, hne => by
    cases m1 with
    | zero => simp [execBlockG] at h1; subst h1; simp [GRes.nf] at hnf
    | succ m1 =>
      rw [exec_cons] at h1
      cases hs : execG m1 F ρ w s with
      | fail f w' =>
        rw [hs] at h1; simp only at h1
        refine ⟨m1 + 1, ?_⟩
        rw [List.cons_append, exec_cons, hs]; exact h1
      | ok p w' =>
        obtain ⟨ρ', sig⟩ := p
        rw [hs] at h1
        cases sig with
        | normal =>
          simp only at h1
          obtain ⟨m, hm⟩ := exec_append_stop F a b m1 ρ' w' r h1 hnf hne
          refine ⟨max m1 m + 1, ?_⟩
          rw [List.cons_append, exec_cons]
          rw [execG_mono (Nat.le_max_left m1 m) (by rw [hs]; trivial), hs]
          simp only
          rw [execBlockG_mono (Nat.le_max_right m1 m) (by rw [hm]; exact hnf), hm]
        | brk =>
          simp only at h1
          refine ⟨m1 + 1, ?_⟩
          rw [List.cons_append, exec_cons, hs]; exact h1
        | ret v =>
          simp only at h1
          refine ⟨m1 + 1, ?_⟩
          rw [List.cons_append, exec_cons, hs]; exact h1

/-- a single statement as a block -/
theorem exec_single (F : GFile) (m : Nat) (ρ : GEnv) (w : GWorld) (s : GStmt) (r : GRes (GEnv × Sig))
    (h : execG m F ρ w s = r) (hnf : r.nf) : execBlockG (m+2) F ρ w [s] = r := by
  rw [exec_cons, (mono_all m).ex (by rw [h]; exact hnf), h]
  cases r with
  | fail f w' => rfl
  | ok p w' =>
    obtain ⟨ρ', sig⟩ := p
    cases sig <;> simp only
    rw [exec_nil]


/-! ### what the output declares and assigns is what the input does -/
theorem keepEffect_declTop (e : GExpr) (rest : List GStmt) : declTop (keepEffect e :: rest) = declTop rest := by
  rcases keepEffect_cases e with h | h <;> rw [h] <;> rfl

theorem declTop_append (x : String) : ∀ a b : List GStmt, x ∈ declTop (a ++ b) ↔ x ∈ declTop a ∨ x ∈ declTop b
  | [], b => by simp [declTop]
  | s :: a, b => by
    have ih := declTop_append x a b
    rw [List.cons_append, declTop_cons, declTop_cons, ih, or_assoc]

theorem declTop_dceStmt (s : GStmt) (live needs : Names) (x : String)
    (h : x ∈ declTop (dceStmt s live needs).out) : x ∈ declScope s [] := by
  cases s with
  | varDecl y ty v =>
    cases v with
    | none =>
      simp only [dceStmt] at h
      split at h
      · simpa [declTop, declScope] using h
      · split at h
        · simpa [declTop, declScope] using h
        · simp [declTop] at h
    | some e =>
      simp only [dceStmt] at h
      split at h
      · simpa [declTop, declScope] using h
      · split at h
        · split at h
          · rw [declTop] at h
            simp only [List.mem_cons] at h
            rcases h with h | h
            · simp [declScope, h]
            · rw [keepEffect_declTop] at h; simp [declTop] at h
          · simpa [declTop, declScope] using h
        · split at h
          · rw [keepEffect_declTop] at h; simp [declTop] at h
          · simp [declTop] at h
  | assign y v =>
    simp only [dceStmt] at h
    split at h
    · simp [declTop] at h
    · split at h
      · rw [keepEffect_declTop] at h; simp [declTop] at h
      · simp [declTop] at h
  | ret v => cases v <;> simp [dceStmt, declTop] at h
  | ite c t e => cases e <;> simp [dceStmt, declTop] at h
  | «switch» e cs d => cases d <;> simp [dceStmt, declTop] at h
  | tswitch b e cs d => cases d <;> simp [dceStmt, declTop] at h
  | _ => simp [dceStmt, declTop] at h

theorem declTop_dce_sub : ∀ (ss : List GStmt) (L : Names) (x : String),
    x ∈ declTop (dceStmts ss L).out → x ∈ declTop ss
  | [], L, x, h => by simp [dceStmts, declTop] at h
  | s :: rest, L, x, h => by
    simp only [dceStmts] at h
    rw [declTop_append] at h
    rw [declTop_cons]
    rcases h with h | h
    · exact Or.inl (declTop_dceStmt s _ _ x h)
    · exact Or.inr (declTop_dce_sub rest L x h)

theorem scope_declTop (D : Names) : ∀ (ss : List GStmt) (sc : Names), scopeErrs D sc ss = [] →
    ∀ x ∈ declTop ss, ¬ x ∈ sc
  | [], sc, _, x, hx => by simp [declTop] at hx
  | s :: rest, sc, h, x, hx => by
    simp only [scopeErrs, List.append_eq_nil_iff] at h
    rw [declTop_cons] at hx
    rcases hx with hx | hx
    · cases s <;> simp [declScope] at hx
      rename_i y ty v
      subst hx
      have h1 := h.1
      simp only [scopeErrsStmt, List.append_eq_nil_iff] at h1
      intro hm
      have := h1.2
      simp [hm] at this
    · have := scope_declTop D rest _ h.2 x hx
      intro hm
      apply this
      cases s <;> simp [declScope, hm]

theorem writes_keepEffect (e : GExpr) (x : String) (h : x ∈ writesStmt (keepEffect e)) : x = "_" := by
  rcases keepEffect_cases e with h' | h' <;> rw [h'] at h <;> simp [writesStmt] at h
  exact h

theorem mem_writes_append (x : String) : ∀ a b : List GStmt,
    x ∈ writesStmts (a ++ b) ↔ x ∈ writesStmts a ∨ x ∈ writesStmts b
  | [], b => by simp [writesStmts]
  | s :: a, b => by
    have ih := mem_writes_append x a b
    simp only [List.cons_append, writesStmts, mem_uni, ih, or_assoc]

mutual
theorem writes_dce_sub : ∀ (ss : List GStmt) (L : Names) (x : String), shapeOK ss = true →
    x ∈ writesStmts (dceStmts ss L).out → x ∈ writesStmts ss ∨ x = "_"
  | [], L, x, _, h => by simp [dceStmts, writesStmts] at h
  | s :: rest, L, x, hs, h => by
    simp only [shapeOK, Bool.and_eq_true] at hs
    simp only [dceStmts] at h
    rw [mem_writes_append] at h
    simp only [writesStmts, mem_uni]
    rcases h with h | h
    · rcases writes_dceStmt s _ _ x hs.1 h with h1 | h1
      · exact Or.inl (Or.inl h1)
      · exact Or.inr h1
    · rcases writes_dce_sub rest L x hs.2 h with h1 | h1
      · exact Or.inl (Or.inr h1)
      · exact Or.inr h1
theorem writes_dceStmt : ∀ (s : GStmt) (live needs : Names) (x : String), shapeOKStmt s = true →
    x ∈ writesStmts (dceStmt s live needs).out → x ∈ writesStmt s ∨ x = "_"
  | .expr e, live, needs, x, hs, h => by simp [dceStmt, writesStmts, writesStmt] at h
  | .go e, live, needs, x, hs, h => by simp [dceStmt, writesStmts, writesStmt] at h
  | .varDecl y ty none, live, needs, x, hs, h => by
    simp only [dceStmt] at h
    split at h
    · simp [writesStmts, writesStmt] at h
    · split at h <;> simp [writesStmts, writesStmt] at h
  | .varDecl y ty (some e), live, needs, x, hs, h => by
    simp only [dceStmt] at h
    split at h
    · simp [writesStmts, writesStmt] at h
    · split at h
      · split at h
        · simp only [writesStmts, mem_uni] at h
          rcases h with h | h | h
          · simp [writesStmt] at h
          · exact Or.inr (writes_keepEffect _ x h)
          · simp at h
        · simp [writesStmts, writesStmt] at h
      · split at h
        · simp only [writesStmts, mem_uni] at h
          rcases h with h | h
          · exact Or.inr (writes_keepEffect _ x h)
          · simp at h
        · simp [writesStmts] at h
  | .assign y v, live, needs, x, hs, h => by
    simp only [dceStmt] at h
    split at h
    · simp [writesStmts, writesStmt] at h ⊢; exact Or.inl h
    · split at h
      · simp only [writesStmts, mem_uni] at h
        rcases h with h | h
        · exact Or.inr (writes_keepEffect _ x h)
        · simp at h
      · simp [writesStmts] at h
  | .indexAssign a i v, live, needs, x, hs, h => by
    simp only [shapeOKStmt, Bool.and_eq_true] at hs
    simp [dceStmt, writesStmts, writesStmt, dceExpr_id a hs.1.1.1] at h ⊢; exact Or.inl h
  | .ptrAssign p v, live, needs, x, hs, h => by simp [dceStmt, writesStmts, writesStmt] at h
  | .fieldAssign t v, live, needs, x, hs, h => by
    simp only [shapeOKStmt, Bool.and_eq_true] at hs
    simp [dceStmt, writesStmts, writesStmt, dceExpr_id t hs.1.1] at h ⊢; exact Or.inl h
  | .ret (some e), live, needs, x, hs, h => by simp [dceStmt, writesStmts, writesStmt] at h
  | .ret none, live, needs, x, hs, h => by simp [dceStmt, writesStmts, writesStmt] at h
  | .brk, live, needs, x, hs, h => by simp [dceStmt, writesStmts, writesStmt] at h
  | .loop body, live, needs, x, hs, h => by
    simp only [shapeOKStmt] at hs
    simp only [dceStmt, writesStmts, writesStmt, mem_uni] at h ⊢
    rcases h with h | h
    · exact writes_dce_sub body live x hs h
    · simp at h
  | .ite c t (some b), live, needs, x, hs, h => by
    simp only [shapeOKStmt, Bool.and_eq_true] at hs
    simp only [dceStmt, writesStmts, writesStmt, mem_uni] at h ⊢
    rcases h with (h | h) | h
    · rcases writes_dce_sub t live x hs.1.2 h with h1 | h1 <;> simp [h1]
    · rcases writes_dce_sub b live x hs.2 h with h1 | h1 <;> simp [h1]
    · simp at h
  | .ite c t none, live, needs, x, hs, h => by
    simp only [shapeOKStmt, Bool.and_eq_true] at hs
    simp only [dceStmt, writesStmts, writesStmt, mem_uni] at h ⊢
    rcases h with (h | h) | h
    · rcases writes_dce_sub t live x hs.1.2 h with h1 | h1 <;> simp [h1]
    · simp at h
    · simp at h
  | .switch e cs (some b), live, needs, x, hs, h => by
    simp only [shapeOKStmt, Bool.and_eq_true] at hs
    simp only [dceStmt, writesStmts, writesStmt, mem_uni] at h ⊢
    rcases h with (h | h) | h
    · rcases writes_dceCases cs live x hs.1.2 h with h1 | h1 <;> simp [h1]
    · rcases writes_dce_sub b _ x hs.2 h with h1 | h1 <;> simp [h1]
    · simp at h
  | .switch e cs none, live, needs, x, hs, h => by
    simp only [shapeOKStmt, Bool.and_eq_true] at hs
    simp only [dceStmt, writesStmts, writesStmt, mem_uni] at h ⊢
    rcases h with (h | h) | h
    · rcases writes_dceCases cs live x hs.1.2 h with h1 | h1 <;> simp [h1]
    · simp at h
    · simp at h
  | .tswitch bind e cs (some b), live, needs, x, hs, h => by
    simp only [shapeOKStmt, Bool.and_eq_true] at hs
    simp only [dceStmt, writesStmts, writesStmt, mem_uni] at h ⊢
    rcases h with (h | h) | h
    · rcases writes_dceTCases cs live x hs.1.1.2 h with h1 | h1 <;> simp [h1]
    · rcases writes_dce_sub b _ x hs.1.2 h with h1 | h1 <;> simp [h1]
    · simp at h
  | .tswitch bind e cs none, live, needs, x, hs, h => by
    simp only [shapeOKStmt, Bool.and_eq_true] at hs
    simp only [dceStmt, writesStmts, writesStmt, mem_uni] at h ⊢
    rcases h with (h | h) | h
    · rcases writes_dceTCases cs live x hs.1.1.2 h with h1 | h1 <;> simp [h1]
    · simp at h
    · simp at h
theorem writes_dceCases : ∀ (cs : List GCase) (live : Names) (x : String), shapeOKCases cs = true →
    x ∈ writesCases (dceCases cs live).cases → x ∈ writesCases cs ∨ x = "_"
  | [], live, x, _, h => by simp [dceCases, writesCases] at h
  | .mk v b :: rest, live, x, hs, h => by
    simp only [shapeOKCases, Bool.and_eq_true] at hs
    simp only [dceCases, writesCases, mem_uni] at h ⊢
    rcases h with h | h
    · rcases writes_dce_sub b live x hs.1.2 h with h1 | h1 <;> simp [h1]
    · rcases writes_dceCases rest _ x hs.2 h with h1 | h1 <;> simp [h1]
theorem writes_dceTCases : ∀ (cs : List GTCase) (live : Names) (x : String), shapeOKTCases cs = true →
    x ∈ writesTCases (dceTCases cs live).cases → x ∈ writesTCases cs ∨ x = "_"
  | [], live, x, _, h => by simp [dceTCases, writesTCases] at h
  | .mk t b :: rest, live, x, hs, h => by
    simp only [shapeOKTCases, Bool.and_eq_true] at hs
    simp only [dceTCases, writesTCases, mem_uni] at h ⊢
    rcases h with h | h
    · rcases writes_dce_sub b live x hs.1 h with h1 | h1 <;> simp [h1]
    · rcases writes_dceTCases rest _ x hs.2 h with h1 | h1 <;> simp [h1]
end

end Goml.Dce
