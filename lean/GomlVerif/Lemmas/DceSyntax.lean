import GomlVerif.Model.Dce
/-!
Syntactic lemmas about the DCE model: the list-as-set operations, an independent enumeration of
all sub-expressions of a statement list, and the characterisation of the two collectors of
`dce.rs` (`collect_packages_*`, `collect_called_*`) against it.
-/
set_option linter.unusedSimpArgs false
set_option linter.unusedVariables false
namespace Goml.Dce
open Goml.Go

@[simp] theorem mem_uni {a b : Names} {x : String} : x ∈ uni a b ↔ x ∈ a ∨ x ∈ b := by
  unfold uni
  simp only [List.mem_append, List.mem_filter, Bool.not_eq_true', List.contains_eq_mem, decide_eq_false_iff_not]
  constructor
  · rintro (h | ⟨h, _⟩) <;> simp [h]
  · rintro (h | h)
    · exact Or.inl h
    · by_cases ha : x ∈ a
      · exact Or.inl ha
      · exact Or.inr ⟨h, ha⟩

@[simp] theorem mem_rem {s : Names} {x y : String} : y ∈ rem s x ↔ y ∈ s ∧ y ≠ x := by
  unfold rem; simp [List.mem_filter]

@[simp] theorem mem_diff {a b : Names} {x : String} : x ∈ diff a b ↔ x ∈ a ∧ ¬ x ∈ b := by
  unfold diff; simp [List.mem_filter]

/-! ### every expression occurring in a statement list (with all its sub-expressions) -/
mutual
def subE : GExpr → List GExpr
  | .call t f args => .call t f args :: (subE f ++ subEL args)
  | .field n t o => .field n t o :: subE o
  | .index t a i => .index t a i :: (subE a ++ subE i)
  | .un op t e => .un op t e :: subE e
  | .bin op t l r => .bin op t l r :: (subE l ++ subE r)
  | .cast t e => .cast t e :: subE e
  | .slit t fs => .slit t fs :: subEF fs
  | .alit t es => .alit t es :: subEL es
  | .blocke t ss e => .blocke t ss e :: (exprsS ss ++ (match e with | some e => subE e | none => []))
  | .var x t => [.var x t]
  | .nil t => [.nil t]
  | .voidv t => [.voidv t]
  | .unitv t => [.unitv t]
  | .bool b => [.bool b]
  | .int v t => [.int v t]
  | .float v t => [.float v t]
  | .str s => [.str s]
def subEL : List GExpr → List GExpr
  | [] => []
  | e :: es => subE e ++ subEL es
def subEF : List GField → List GExpr
  | [] => []
  | .mk _ e :: fs => subE e ++ subEF fs
def exprsS : List GStmt → List GExpr
  | [] => []
  | s :: rest => exprsStmt s ++ exprsS rest
def exprsStmt : GStmt → List GExpr
  | .expr e => subE e
  | .go c => subE c
  | .varDecl _ _ v => (match v with | some e => subE e | none => [])
  | .assign _ v => subE v
  | .indexAssign a i v => subE a ++ (subE i ++ subE v)
  | .ptrAssign p v => subE p ++ subE v
  | .fieldAssign t v => subE t ++ subE v
  | .ret e => (match e with | some e => subE e | none => [])
  | .ite c t e => subE c ++ (exprsS t ++ (match e with | some b => exprsS b | none => []))
  | .switch e cs d => subE e ++ (exprsC cs ++ (match d with | some b => exprsS b | none => []))
  | .tswitch _ e cs d => subE e ++ (exprsTC cs ++ (match d with | some b => exprsS b | none => []))
  | .loop b => exprsS b
  | .brk => []
def exprsC : List GCase → List GExpr
  | [] => []
  | .mk v b :: rest => subE v ++ (exprsS b ++ exprsC rest)
def exprsTC : List GTCase → List GExpr
  | [] => []
  | .mk _ b :: rest => exprsS b ++ exprsTC rest
end


/-- some expression of the list satisfies `Q` -/
def AnyE (Q : GExpr → Prop) (es : List GExpr) : Prop := ∃ c ∈ es, Q c

theorem anyE_append {Q : GExpr → Prop} {a b : List GExpr} : AnyE Q (a ++ b) ↔ AnyE Q a ∨ AnyE Q b := by
  simp [AnyE, or_and_right, exists_or]

theorem anyE_nil {Q : GExpr → Prop} : AnyE Q [] ↔ False := by simp [AnyE]

theorem anyE_cons {Q : GExpr → Prop} {c : GExpr} {b : List GExpr} : AnyE Q (c :: b) ↔ Q c ∨ AnyE Q b := by
  simp [AnyE]

/-- the package a call node refers to: `pkg.f(…)` -/
def calleePkg : GExpr → Option String
  | .call _ (.var name _) _ => pkgPrefix name
  | _ => none

def CallsPkg (p : String) (c : GExpr) : Prop := calleePkg c = some p

/-- the node is a reference to the name `x` -/
def IsVar (x : String) (c : GExpr) : Prop := ∃ t, c = .var x t

/-! ### `collect_packages_*` finds exactly the imported packages some call node names -/
mutual
theorem pkgsExpr_iff (imps : Names) (p : String) : ∀ e : GExpr,
    p ∈ pkgsExpr imps e ↔ p ∈ imps ∧ AnyE (CallsPkg p) (subE e)
  | .call t f args => by
    have h1 := pkgsExpr_iff imps p f
    have h2 := pkgsList_iff imps p args
    simp only [pkgsExpr, subE, mem_uni, anyE_cons, anyE_append, h1, h2, and_or_left]
    cases f <;> simp [CallsPkg, calleePkg]
    rename_i name ty
    cases hp : pkgPrefix name <;> simp
    rename_i q
    by_cases hq : q = p
    · subst hq; by_cases hi : q ∈ imps <;> simp [hi]
    · have : ¬ p = q := fun h => hq h.symm
      by_cases hi : q ∈ imps <;> simp [hi, hq, this]
  | .field n t o => by
    have h1 := pkgsExpr_iff imps p o
    simp [pkgsExpr, subE, anyE_cons, CallsPkg, calleePkg, h1]
  | .index t a i => by
    have h1 := pkgsExpr_iff imps p a
    have h2 := pkgsExpr_iff imps p i
    simp [pkgsExpr, subE, anyE_cons, anyE_append, CallsPkg, calleePkg, h1, h2, and_or_left]
  | .un op t e => by
    have h1 := pkgsExpr_iff imps p e
    simp [pkgsExpr, subE, anyE_cons, CallsPkg, calleePkg, h1]
  | .bin op t l r => by
    have h1 := pkgsExpr_iff imps p l
    have h2 := pkgsExpr_iff imps p r
    simp [pkgsExpr, subE, anyE_cons, anyE_append, CallsPkg, calleePkg, h1, h2, and_or_left]
  | .cast t e => by
    have h1 := pkgsExpr_iff imps p e
    simp [pkgsExpr, subE, anyE_cons, CallsPkg, calleePkg, h1]
  | .slit t fs => by
    have h1 := pkgsFields_iff imps p fs
    simp [pkgsExpr, subE, anyE_cons, CallsPkg, calleePkg, h1]
  | .alit t es => by
    have h1 := pkgsList_iff imps p es
    simp [pkgsExpr, subE, anyE_cons, CallsPkg, calleePkg, h1]
  | .blocke t ss e => by
    have h1 := pkgsStmts_iff imps p ss
    cases e with
    | none => simp [pkgsExpr, subE, anyE_cons, anyE_append, anyE_nil, CallsPkg, calleePkg, h1]
    | some e =>
      have h2 := pkgsExpr_iff imps p e
      simp [pkgsExpr, subE, anyE_cons, anyE_append, CallsPkg, calleePkg, h1, h2, and_or_left]
  | .var x t => by simp [pkgsExpr, subE, anyE_cons, anyE_nil, CallsPkg, calleePkg]
  | .nil t => by simp [pkgsExpr, subE, anyE_cons, anyE_nil, CallsPkg, calleePkg]
  | .voidv t => by simp [pkgsExpr, subE, anyE_cons, anyE_nil, CallsPkg, calleePkg]
  | .unitv t => by simp [pkgsExpr, subE, anyE_cons, anyE_nil, CallsPkg, calleePkg]
  | .bool b => by simp [pkgsExpr, subE, anyE_cons, anyE_nil, CallsPkg, calleePkg]
  | .int v t => by simp [pkgsExpr, subE, anyE_cons, anyE_nil, CallsPkg, calleePkg]
  | .float v t => by simp [pkgsExpr, subE, anyE_cons, anyE_nil, CallsPkg, calleePkg]
  | .str v => by simp [pkgsExpr, subE, anyE_cons, anyE_nil, CallsPkg, calleePkg]
theorem pkgsList_iff (imps : Names) (p : String) : ∀ es : List GExpr,
    p ∈ pkgsList imps es ↔ p ∈ imps ∧ AnyE (CallsPkg p) (subEL es)
  | [] => by simp [pkgsList, subEL, anyE_nil]
  | e :: es => by
    have h1 := pkgsExpr_iff imps p e
    have h2 := pkgsList_iff imps p es
    simp only [pkgsList, subEL, mem_uni, anyE_append, h1, h2, and_or_left]
theorem pkgsFields_iff (imps : Names) (p : String) : ∀ fs : List GField,
    p ∈ pkgsFields imps fs ↔ p ∈ imps ∧ AnyE (CallsPkg p) (subEF fs)
  | [] => by simp [pkgsFields, subEF, anyE_nil]
  | .mk _ e :: fs => by
    have h1 := pkgsExpr_iff imps p e
    have h2 := pkgsFields_iff imps p fs
    simp only [pkgsFields, subEF, mem_uni, anyE_append, h1, h2, and_or_left]
theorem pkgsStmts_iff (imps : Names) (p : String) : ∀ ss : List GStmt,
    p ∈ pkgsStmts imps ss ↔ p ∈ imps ∧ AnyE (CallsPkg p) (exprsS ss)
  | [] => by simp [pkgsStmts, exprsS, anyE_nil]
  | s :: rest => by
    have h1 := pkgsStmt_iff imps p s
    have h2 := pkgsStmts_iff imps p rest
    simp only [pkgsStmts, exprsS, mem_uni, anyE_append, h1, h2, and_or_left]
theorem pkgsStmt_iff (imps : Names) (p : String) : ∀ s : GStmt,
    p ∈ pkgsStmt imps s ↔ p ∈ imps ∧ AnyE (CallsPkg p) (exprsStmt s)
  | .expr e => by simpa [pkgsStmt, exprsStmt] using pkgsExpr_iff imps p e
  | .go e => by simpa [pkgsStmt, exprsStmt] using pkgsExpr_iff imps p e
  | .varDecl _ _ v => by
    cases v with
    | none => simp [pkgsStmt, exprsStmt, anyE_nil]
    | some e => simpa [pkgsStmt, exprsStmt] using pkgsExpr_iff imps p e
  | .assign _ e => by simpa [pkgsStmt, exprsStmt] using pkgsExpr_iff imps p e
  | .indexAssign a i v => by
    have h1 := pkgsExpr_iff imps p a
    have h2 := pkgsExpr_iff imps p i
    have h3 := pkgsExpr_iff imps p v
    simp only [pkgsStmt, exprsStmt, mem_uni, anyE_append, h1, h2, h3, and_or_left]
  | .ptrAssign a v => by
    have h1 := pkgsExpr_iff imps p a
    have h3 := pkgsExpr_iff imps p v
    simp only [pkgsStmt, exprsStmt, mem_uni, anyE_append, h1, h3, and_or_left]
  | .fieldAssign a v => by
    have h1 := pkgsExpr_iff imps p a
    have h3 := pkgsExpr_iff imps p v
    simp only [pkgsStmt, exprsStmt, mem_uni, anyE_append, h1, h3, and_or_left]
  | .ret v => by
    cases v with
    | none => simp [pkgsStmt, exprsStmt, anyE_nil]
    | some e => simpa [pkgsStmt, exprsStmt] using pkgsExpr_iff imps p e
  | .ite c t e => by
    have h1 := pkgsExpr_iff imps p c
    have h2 := pkgsStmts_iff imps p t
    cases e with
    | none => simp [pkgsStmt, exprsStmt, anyE_append, anyE_nil, h1, h2, and_or_left]
    | some b =>
      have h3 := pkgsStmts_iff imps p b
      simp only [pkgsStmt, exprsStmt, mem_uni, anyE_append, h1, h2, h3, and_or_left]
  | .switch e cs d => by
    have h1 := pkgsExpr_iff imps p e
    have h2 := pkgsCases_iff imps p cs
    cases d with
    | none => simp [pkgsStmt, exprsStmt, anyE_append, anyE_nil, h1, h2, and_or_left]
    | some b =>
      have h3 := pkgsStmts_iff imps p b
      simp only [pkgsStmt, exprsStmt, mem_uni, anyE_append, h1, h2, h3, and_or_left]
  | .tswitch _ e cs d => by
    have h1 := pkgsExpr_iff imps p e
    have h2 := pkgsTCases_iff imps p cs
    cases d with
    | none => simp [pkgsStmt, exprsStmt, anyE_append, anyE_nil, h1, h2, and_or_left]
    | some b =>
      have h3 := pkgsStmts_iff imps p b
      simp only [pkgsStmt, exprsStmt, mem_uni, anyE_append, h1, h2, h3, and_or_left]
  | .loop b => by simpa [pkgsStmt, exprsStmt] using pkgsStmts_iff imps p b
  | .brk => by simp [pkgsStmt, exprsStmt, anyE_nil]
theorem pkgsCases_iff (imps : Names) (p : String) : ∀ cs : List GCase,
    p ∈ pkgsCases imps cs ↔ p ∈ imps ∧ AnyE (CallsPkg p) (exprsC cs)
  | [] => by simp [pkgsCases, exprsC, anyE_nil]
  | .mk v b :: rest => by
    have h1 := pkgsExpr_iff imps p v
    have h2 := pkgsStmts_iff imps p b
    have h3 := pkgsCases_iff imps p rest
    simp only [pkgsCases, exprsC, mem_uni, anyE_append, h1, h2, h3, and_or_left]
theorem pkgsTCases_iff (imps : Names) (p : String) : ∀ cs : List GTCase,
    p ∈ pkgsTCases imps cs ↔ p ∈ imps ∧ AnyE (CallsPkg p) (exprsTC cs)
  | [] => by simp [pkgsTCases, exprsTC, anyE_nil]
  | .mk _ b :: rest => by
    have h2 := pkgsStmts_iff imps p b
    have h3 := pkgsTCases_iff imps p rest
    simp only [pkgsTCases, exprsTC, mem_uni, anyE_append, h2, h3, and_or_left]
end

/-! ### `collect_called_*` finds exactly the file's functions some node references -/
mutual
theorem calledExpr_iff (fns : Names) (x : String) : ∀ e : GExpr,
    x ∈ calledExpr fns e ↔ x ∈ fns ∧ AnyE (IsVar x) (subE e)
  | .call t f args => by
    have h1 := calledExpr_iff fns x f
    have h2 := calledList_iff fns x args
    simp [calledExpr, subE, anyE_cons, anyE_append, IsVar, h1, h2, and_or_left]
  | .field n t o => by
    have h1 := calledExpr_iff fns x o
    simp [calledExpr, subE, anyE_cons, IsVar, h1]
  | .index t a i => by
    have h1 := calledExpr_iff fns x a
    have h2 := calledExpr_iff fns x i
    simp [calledExpr, subE, anyE_cons, anyE_append, IsVar, h1, h2, and_or_left]
  | .un op t e => by
    have h1 := calledExpr_iff fns x e
    simp [calledExpr, subE, anyE_cons, IsVar, h1]
  | .bin op t l r => by
    have h1 := calledExpr_iff fns x l
    have h2 := calledExpr_iff fns x r
    simp [calledExpr, subE, anyE_cons, anyE_append, IsVar, h1, h2, and_or_left]
  | .cast t e => by
    have h1 := calledExpr_iff fns x e
    simp [calledExpr, subE, anyE_cons, IsVar, h1]
  | .slit t fs => by
    have h1 := calledFields_iff fns x fs
    simp [calledExpr, subE, anyE_cons, IsVar, h1]
  | .alit t es => by
    have h1 := calledList_iff fns x es
    simp [calledExpr, subE, anyE_cons, IsVar, h1]
  | .blocke t ss e => by
    have h1 := calledStmts_iff fns x ss
    cases e with
    | none => simp [calledExpr, subE, anyE_cons, anyE_append, anyE_nil, IsVar, h1]
    | some e =>
      have h2 := calledExpr_iff fns x e
      simp [calledExpr, subE, anyE_cons, anyE_append, IsVar, h1, h2, and_or_left]
  | .var y t => by
    by_cases hy : y = x
    · subst hy; by_cases hf : y ∈ fns <;> simp [calledExpr, subE, anyE_cons, anyE_nil, IsVar, hf]
    · have : ¬ x = y := fun h => hy h.symm
      by_cases hf : y ∈ fns <;> simp [calledExpr, subE, anyE_cons, anyE_nil, IsVar, hf, hy, this]
  | .nil t => by simp [calledExpr, subE, anyE_cons, anyE_nil, IsVar]
  | .voidv t => by simp [calledExpr, subE, anyE_cons, anyE_nil, IsVar]
  | .unitv t => by simp [calledExpr, subE, anyE_cons, anyE_nil, IsVar]
  | .bool b => by simp [calledExpr, subE, anyE_cons, anyE_nil, IsVar]
  | .int v t => by simp [calledExpr, subE, anyE_cons, anyE_nil, IsVar]
  | .float v t => by simp [calledExpr, subE, anyE_cons, anyE_nil, IsVar]
  | .str v => by simp [calledExpr, subE, anyE_cons, anyE_nil, IsVar]
theorem calledList_iff (fns : Names) (x : String) : ∀ es : List GExpr,
    x ∈ calledList fns es ↔ x ∈ fns ∧ AnyE (IsVar x) (subEL es)
  | [] => by simp [calledList, subEL, anyE_nil]
  | e :: es => by
    have h1 := calledExpr_iff fns x e
    have h2 := calledList_iff fns x es
    simp only [calledList, subEL, mem_uni, anyE_append, h1, h2, and_or_left]
theorem calledFields_iff (fns : Names) (x : String) : ∀ fs : List GField,
    x ∈ calledFields fns fs ↔ x ∈ fns ∧ AnyE (IsVar x) (subEF fs)
  | [] => by simp [calledFields, subEF, anyE_nil]
  | .mk _ e :: fs => by
    have h1 := calledExpr_iff fns x e
    have h2 := calledFields_iff fns x fs
    simp only [calledFields, subEF, mem_uni, anyE_append, h1, h2, and_or_left]
theorem calledStmts_iff (fns : Names) (x : String) : ∀ ss : List GStmt,
    x ∈ calledStmts fns ss ↔ x ∈ fns ∧ AnyE (IsVar x) (exprsS ss)
  | [] => by simp [calledStmts, exprsS, anyE_nil]
  | s :: rest => by
    have h1 := calledStmt_iff fns x s
    have h2 := calledStmts_iff fns x rest
    simp only [calledStmts, exprsS, mem_uni, anyE_append, h1, h2, and_or_left]
theorem calledStmt_iff (fns : Names) (x : String) : ∀ s : GStmt,
    x ∈ calledStmt fns s ↔ x ∈ fns ∧ AnyE (IsVar x) (exprsStmt s)
  | .expr e => by simpa [calledStmt, exprsStmt] using calledExpr_iff fns x e
  | .go e => by simpa [calledStmt, exprsStmt] using calledExpr_iff fns x e
  | .varDecl _ _ v => by
    cases v with
    | none => simp [calledStmt, exprsStmt, anyE_nil]
    | some e => simpa [calledStmt, exprsStmt] using calledExpr_iff fns x e
  | .assign _ e => by simpa [calledStmt, exprsStmt] using calledExpr_iff fns x e
  | .indexAssign a i v => by
    have h1 := calledExpr_iff fns x a
    have h2 := calledExpr_iff fns x i
    have h3 := calledExpr_iff fns x v
    simp only [calledStmt, exprsStmt, mem_uni, anyE_append, h1, h2, h3, and_or_left]
  | .ptrAssign a v => by
    have h1 := calledExpr_iff fns x a
    have h3 := calledExpr_iff fns x v
    simp only [calledStmt, exprsStmt, mem_uni, anyE_append, h1, h3, and_or_left]
  | .fieldAssign a v => by
    have h1 := calledExpr_iff fns x a
    have h3 := calledExpr_iff fns x v
    simp only [calledStmt, exprsStmt, mem_uni, anyE_append, h1, h3, and_or_left]
  | .ret v => by
    cases v with
    | none => simp [calledStmt, exprsStmt, anyE_nil]
    | some e => simpa [calledStmt, exprsStmt] using calledExpr_iff fns x e
  | .ite c t e => by
    have h1 := calledExpr_iff fns x c
    have h2 := calledStmts_iff fns x t
    cases e with
    | none => simp [calledStmt, exprsStmt, anyE_append, anyE_nil, h1, h2, and_or_left]
    | some b =>
      have h3 := calledStmts_iff fns x b
      simp only [calledStmt, exprsStmt, mem_uni, anyE_append, h1, h2, h3, and_or_left]
  | .switch e cs d => by
    have h1 := calledExpr_iff fns x e
    have h2 := calledCases_iff fns x cs
    cases d with
    | none => simp [calledStmt, exprsStmt, anyE_append, anyE_nil, h1, h2, and_or_left]
    | some b =>
      have h3 := calledStmts_iff fns x b
      simp only [calledStmt, exprsStmt, mem_uni, anyE_append, h1, h2, h3, and_or_left]
  | .tswitch _ e cs d => by
    have h1 := calledExpr_iff fns x e
    have h2 := calledTCases_iff fns x cs
    cases d with
    | none => simp [calledStmt, exprsStmt, anyE_append, anyE_nil, h1, h2, and_or_left]
    | some b =>
      have h3 := calledStmts_iff fns x b
      simp only [calledStmt, exprsStmt, mem_uni, anyE_append, h1, h2, h3, and_or_left]
  | .loop b => by simpa [calledStmt, exprsStmt] using calledStmts_iff fns x b
  | .brk => by simp [calledStmt, exprsStmt, anyE_nil]
theorem calledCases_iff (fns : Names) (x : String) : ∀ cs : List GCase,
    x ∈ calledCases fns cs ↔ x ∈ fns ∧ AnyE (IsVar x) (exprsC cs)
  | [] => by simp [calledCases, exprsC, anyE_nil]
  | .mk v b :: rest => by
    have h1 := calledExpr_iff fns x v
    have h2 := calledStmts_iff fns x b
    have h3 := calledCases_iff fns x rest
    simp only [calledCases, exprsC, mem_uni, anyE_append, h1, h2, h3, and_or_left]
theorem calledTCases_iff (fns : Names) (x : String) : ∀ cs : List GTCase,
    x ∈ calledTCases fns cs ↔ x ∈ fns ∧ AnyE (IsVar x) (exprsTC cs)
  | [] => by simp [calledTCases, exprsTC, anyE_nil]
  | .mk _ b :: rest => by
    have h2 := calledStmts_iff fns x b
    have h3 := calledTCases_iff fns x rest
    simp only [calledTCases, exprsTC, mem_uni, anyE_append, h2, h3, and_or_left]
end

end Goml.Dce
