import GomlVerif.Lemmas.Topo
/-!
Helper definitions and lemmas for C13/C16 about `discover`: the loop invariant (closed under
imports, reachable from the root), the budget argument, numbering of ids.
-/
namespace Goml.Graph

/-- the two lists enumerate the same set -/
def SameSet (l₁ l₂ : List Pkg) : Prop := ∀ x, x ∈ l₁ ↔ x ∈ l₂


theorem btreeIter_ext {e₁ e₂ : Pkg → List Pkg} (h : ∀ p, SameSet (e₁ p) (e₂ p)) :
    btreeIter e₁ = btreeIter e₂ :=
  funext fun p => sorted_ext (h p)


theorem number_fst (l : List Pkg) : ∀ start, (number start l).map (·.1) = l := by
  induction l with
  | nil => intro _; rfl
  | cons a l ih => intro s; simp [number, ih]

theorem number_snd_ge (l : List Pkg) : ∀ start x, x ∈ number start l → start ≤ x.2 := by
  induction l with
  | nil => intro _ x hx; simp [number] at hx
  | cons a l ih =>
    intro s x hx
    simp only [number, List.mem_cons] at hx
    rcases hx with rfl | hx
    · exact Nat.le_refl _
    · exact Nat.le_of_succ_le (ih _ x hx)

theorem number_snd_nodup (l : List Pkg) : ∀ start, ((number start l).map (·.2)).Nodup := by
  induction l with
  | nil => intro _; simp [number]
  | cons a l ih =>
    intro s
    simp only [number, List.map_cons, List.nodup_cons]
    refine ⟨?_, ih _⟩
    intro hm
    obtain ⟨x, hx, hs⟩ := List.mem_map.1 hm
    have := number_snd_ge l (s + 1) x hx
    omega


def DiskEdge (disk : Disk) (a b : Pkg) : Prop := ∃ imps, disk.load a = .unit a imps ∧ b ∈ imps

/-- reachable from the root package through import edges of well-formed directories -/
inductive Reach (disk : Disk) : Pkg → Prop
  | root : Reach disk rootName
  | step {a b : Pkg} : Reach disk a → DiskEdge disk a b → Reach disk b

/-- `iter` enumerates, for every package, exactly its import set (without repetition) -/
def IterOk (disk : Disk) (iter : Pkg → List Pkg) : Prop :=
  ∀ p, (iter p).Nodup ∧ SameSet (iter p) (disk.importsOf p)

structure DInv (disk : Disk) (iter : Pkg → List Pkg) (queue order : List Pkg) : Prop where
  nodup : order.Nodup
  loads : ∀ p ∈ order, ∃ imps, disk.load p = .unit p imps
  closed : ∀ p ∈ order, ∀ d ∈ iter p, d ∈ order ∨ d ∈ queue
  reachO : ∀ p ∈ order, Reach disk p
  reachQ : ∀ q ∈ queue, Reach disk q
  root : rootName ∈ order

theorem importsOf_unit {disk : Disk} {p d : Pkg} {imps : List Pkg} (h : disk.load p = .unit d imps) :
    disk.importsOf p = imps := by
  simp [Disk.importsOf, h]

theorem discoverLoop_inv {disk : Disk} {iter : Pkg → List Pkg} (hi : IterOk disk iter) :
    ∀ (fuel : Nat) (queue order order' : List Pkg),
      discoverLoop disk iter fuel queue order = .ok order' → DInv disk iter queue order →
      DInv disk iter [] order' := by
  intro fuel
  induction fuel with
  | zero =>
    intro queue order order' h inv
    cases queue with
    | nil => simp only [discoverLoop, Except.ok.injEq] at h; exact h ▸ inv
    | cons p rest => simp [discoverLoop] at h
  | succ fuel ih =>
    intro queue order order' h inv
    cases queue with
    | nil => simp only [discoverLoop, Except.ok.injEq] at h; exact h ▸ inv
    | cons p rest =>
      simp only [discoverLoop] at h
      by_cases hp : p ∈ order
      · rw [if_pos hp] at h
        refine ih rest order order' h { inv with closed := ?_, reachQ := ?_ }
        · intro x hx d hd
          rcases inv.closed x hx d hd with h1 | h1
          · exact Or.inl h1
          · rcases List.mem_cons.1 h1 with rfl | h1
            · exact Or.inl hp
            · exact Or.inr h1
        · exact fun q hq => inv.reachQ q (List.mem_cons_of_mem _ hq)
      · rw [if_neg hp] at h
        cases hl : disk.load p with
        | unit decl imps =>
          simp only [hl] at h
          by_cases hd : decl = p
          · rw [if_pos hd] at h
            subst hd
            have rp : Reach disk decl := inv.reachQ decl (by simp)
            refine ih _ _ order' h ?_
            refine ⟨?_, ?_, ?_, ?_, ?_, ?_⟩
            · exact List.nodup_append.2 ⟨inv.nodup, List.nodup_singleton _, fun a ha b hb e => by
                have : b = decl := by simpa using hb
                exact hp (this ▸ e ▸ ha)⟩
            · intro x hx
              rcases List.mem_append.1 hx with hx | hx
              · exact inv.loads x hx
              · have : x = decl := by simpa using hx
                exact this ▸ ⟨imps, hl⟩
            · intro x hx d hd
              rcases List.mem_append.1 hx with hx | hx
              · rcases inv.closed x hx d hd with h1 | h1
                · exact Or.inl (List.mem_append_left _ h1)
                · rcases List.mem_cons.1 h1 with rfl | h1
                  · exact Or.inl (by simp)
                  · exact Or.inr (List.mem_append_right _ h1)
              · have : x = decl := by simpa using hx
                subst this
                exact Or.inr (List.mem_append_left _ (by simpa using hd))
            · intro x hx
              rcases List.mem_append.1 hx with hx | hx
              · exact inv.reachO x hx
              · have : x = decl := by simpa using hx
                exact this ▸ rp
            · intro q hq
              rcases List.mem_append.1 hq with hq | hq
              · have hq' : q ∈ iter decl := by simpa using hq
                have : q ∈ imps := by
                  have := ((hi decl).2 q).1 hq'
                  rwa [importsOf_unit hl] at this
                exact .step rp ⟨imps, hl, this⟩
              · exact inv.reachQ q (List.mem_cons_of_mem _ hq)
            · exact List.mem_append_left _ inv.root
          · rw [if_neg hd] at h; simp at h
        | unreadable => simp [hl] at h
        | noFiles => simp [hl] at h
        | parse => simp [hl] at h
        | fileMismatch => simp [hl] at h


/-- the invariant at the end of a successful discovery -/
theorem discover_inv {disk : Disk} {iter : Pkg → List Pkg} (hi : IterOk disk iter)
    {order : List Pkg} (h : discover disk iter = .ok order) : DInv disk iter [] order := by
  unfold discover at h
  cases hl : disk.load rootName with
  | unit decl imps =>
    simp only [hl] at h
    by_cases hd : decl = rootName
    · rw [if_pos hd] at h
      rw [hd] at hl
      exact discoverLoop_inv hi _ _ _ _ h
        { nodup := List.nodup_singleton _
          loads := fun p hp => by
            have : p = rootName := by simpa using hp
            exact this ▸ ⟨imps, hl⟩
          closed := fun p hp d hd => by
            have : p = rootName := by simpa using hp
            subst this
            exact Or.inr (by simpa using hd)
          reachO := fun p hp => by
            have : p = rootName := by simpa using hp
            exact this ▸ Reach.root
          reachQ := fun q hq => by
            have hq' : q ∈ iter rootName := by simpa using hq
            have : q ∈ imps := by
              have := ((hi rootName).2 q).1 hq'
              rwa [importsOf_unit hl] at this
            exact .step .root ⟨imps, hl, this⟩
          root := by simp }
    · rw [if_neg hd] at h; simp at h
  | unreadable => simp [hl] at h
  | noFiles => simp [hl] at h
  | parse => simp [hl] at h
  | fileMismatch => simp [hl] at h

def weight : Load → Nat
  | .unit _ imps => imps.length
  | _ => 0

/-- contribution of one directory entry: its import-list length unless already loaded -/
def term (order : List Pkg) (e : Pkg × Load) : Nat := if e.1 ∈ order then 0 else weight e.2

/-- import-list lengths of the directories not yet loaded -/
def pending (disk : Disk) (order : List Pkg) : Nat := (disk.map (term order)).sum

theorem term_mono (order : List Pkg) (p : Pkg) (e : Pkg × Load) : term (order ++ [p]) e ≤ term order e := by
  unfold term
  by_cases h1 : e.1 ∈ order
  · simp [h1]
  · by_cases h2 : e.1 = p
    · simp [h2]
    · simp [h1, h2]

theorem term_hit (order : List Pkg) (e : Pkg × Load) : term (order ++ [e.1]) e = 0 := by
  simp [term]

theorem term_miss {order : List Pkg} {e : Pkg × Load} (h : e.1 ∉ order) : term order e = weight e.2 := by
  simp [term, h]

theorem pending_mono (p : Pkg) (order : List Pkg) : ∀ (d : Disk), pending d (order ++ [p]) ≤ pending d order := by
  intro d
  induction d with
  | nil => simp [pending]
  | cons e d ih =>
    simp only [pending, List.map_cons, List.sum_cons] at ih ⊢
    have := term_mono order p e
    omega

theorem pending_load {p : Pkg} {l : Load} : ∀ {disk : Disk} {order : List Pkg}, (p, l) ∈ disk → p ∉ order →
    pending disk (order ++ [p]) + weight l ≤ pending disk order := by
  intro disk
  induction disk with
  | nil => intro order h; simp at h
  | cons e disk ih =>
    intro order h hp
    simp only [pending, List.map_cons, List.sum_cons]
    rcases List.mem_cons.1 h with rfl | h
    · have h1 := pending_mono p order disk
      have h2 := term_hit order (p, l)
      have h3 := term_miss (order := order) (e := (p, l)) hp
      simp only [pending] at h1
      simp only at h2 h3
      omega
    · have h1 := ih h hp
      have h2 := term_mono order p e
      simp only [pending] at h1
      omega

theorem lookup_mem {p : Pkg} {l : Load} : ∀ {disk : Disk}, disk.lookup p = some l → (p, l) ∈ disk := by
  intro disk
  induction disk with
  | nil => intro h; simp at h
  | cons e disk ih =>
    intro h
    obtain ⟨k, v⟩ := e
    simp only [List.lookup] at h
    split at h
    · rename_i heq
      have : p = k := by simpa using heq
      cases h
      exact this ▸ List.mem_cons_self
    · exact List.mem_cons_of_mem _ (ih h)

theorem load_mem {disk : Disk} {p d : Pkg} {imps : List Pkg} (h : disk.load p = .unit d imps) :
    (p, Load.unit d imps) ∈ disk := by
  unfold Disk.load at h
  cases hl : disk.lookup p with
  | none => simp [hl] at h
  | some l => simp only [hl] at h; exact lookup_mem (h ▸ hl)

theorem iter_length_le {disk : Disk} {iter : Pkg → List Pkg} (hi : IterOk disk iter) (p : Pkg) :
    (iter p).length ≤ (disk.importsOf p).length :=
  ((hi p).1.subperm (fun x hx => ((hi p).2 x).1 hx)).length_le

theorem discoverLoop_fuel {disk : Disk} {iter : Pkg → List Pkg} (hi : IterOk disk iter) :
    ∀ (fuel : Nat) (queue order : List Pkg), queue.length + pending disk order ≤ fuel →
      discoverLoop disk iter fuel queue order ≠ .error .fuel := by
  intro fuel
  induction fuel with
  | zero =>
    intro queue order hb
    cases queue with
    | nil => simp [discoverLoop]
    | cons p rest => simp at hb
  | succ fuel ih =>
    intro queue order hb
    cases queue with
    | nil => simp [discoverLoop]
    | cons p rest =>
      simp only [discoverLoop]
      by_cases hp : p ∈ order
      · rw [if_pos hp]
        exact ih rest order (by simp only [List.length_cons] at hb; omega)
      · rw [if_neg hp]
        cases hl : disk.load p with
        | unit decl imps =>
          simp only
          by_cases hd : decl = p
          · rw [if_pos hd]
            subst hd
            refine ih _ _ ?_
            have h1 := pending_load (load_mem hl) hp
            have h2 := iter_length_le hi decl
            rw [importsOf_unit hl] at h2
            simp only [weight] at h1
            simp only [List.length_cons] at hb
            simp only [List.length_append, List.length_reverse]
            omega
          · rw [if_neg hd]; simp
        | unreadable => simp
        | noFiles => simp
        | parse => simp
        | fileMismatch => simp


end Goml.Graph
