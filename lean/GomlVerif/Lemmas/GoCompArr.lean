import GomlVerif.Lemmas.GoCompHeap
/-!
Fixed-size arrays: values on both sides (`Go.Sem` copies an array when it is passed), the array
literal, and the two runtime helpers `array_get__T`, `array_set__T` of `go/runtime.rs` under `Go.Sem`
against `Sem.builtin`, the out-of-range panic included.
-/
set_option linter.unusedSimpArgs false
set_option linter.unusedVariables false
namespace Goml.GoComp
open Goml Goml.Go Goml.GoCompile Goml.GoFrag
open Goml.Sem (Val World Res Fail)
open Goml.Dce (keys lookup_cons_self lookup_cons_ne)

/-! ### `Go.Sem` rules for arrays -/

theorem ev_alit_array {F ρ w len ety elems vs w'} (h : EvLS F ρ w elems (.ok vs w')) :
    EvS F ρ w (.alit (.array len ety) elems) (.ok (.array vs) w') := by
  obtain ⟨m, hm⟩ := h
  refine ⟨m + 1, fun k hk => ?_⟩
  obtain ⟨k, rfl, hk'⟩ := succ_of_le hk
  rw [evalG.eq_def]; simp only [hm k hk']

theorem ev_index_array {F ρ w ty arr idx vs b s i v w1 w2} (ha : EvS F ρ w arr (.ok (.array vs) w1))
    (hi : EvS F ρ w1 idx (.ok (.int b s i) w2)) (hnn : ¬ i < 0) (hv : vs[i.toNat]? = some v) :
    EvS F ρ w (.index ty arr idx) (.ok v w2) := by
  obtain ⟨m1, h1⟩ := ha
  obtain ⟨m2, h2⟩ := hi
  refine ⟨max m1 m2 + 1, fun k hk => ?_⟩
  obtain ⟨k, rfl, hk'⟩ := succ_of_le hk
  rw [evalG.eq_def]; simp only [h1 k (by omega), h2 k (by omega), hnn, hv, if_false]

theorem ev_index_array_oob {F ρ w ty arr idx vs b s i w1 w2} (ha : EvS F ρ w arr (.ok (.array vs) w1))
    (hi : EvS F ρ w1 idx (.ok (.int b s i) w2)) (hoob : i < 0 ∨ vs[i.toNat]? = none) :
    EvS F ρ w (.index ty arr idx) (.fail (.panic "index out of range") w2) := by
  obtain ⟨m1, h1⟩ := ha
  obtain ⟨m2, h2⟩ := hi
  refine ⟨max m1 m2 + 1, fun k hk => ?_⟩
  obtain ⟨k, rfl, hk'⟩ := succ_of_le hk
  rw [evalG.eq_def]; simp only [h1 k (by omega), h2 k (by omega)]
  by_cases hneg : i < 0
  · simp [hneg]
  · rcases hoob with h | h
    · exact absurd h hneg
    · simp [hneg, h]

theorem stmt_indexAssign {F ρ w x xty idx e vs b s i v w1 w2} (hx : lookupG ρ x = some (.array vs))
    (hi : EvS F ρ w idx (.ok (.int b s i) w1)) (he : EvS F ρ w1 e (.ok v w2)) (hin : ¬ (i < 0 ∨ i.toNat ≥ vs.length)) :
    StmtS F ρ w (.indexAssign (.var x xty) idx e) (.ok (updateG ρ x (.array (vs.set i.toNat v)), .normal) w2) := by
  obtain ⟨m1, h1⟩ := hi
  obtain ⟨m2, h2⟩ := he
  refine ⟨max m1 m2 + 1, fun k hk => ?_⟩
  obtain ⟨k, rfl, hk'⟩ := succ_of_le hk
  have hc : (decide (i < 0) || decide (i.toNat ≥ vs.length)) = false := by
    simp only [not_or] at hin
    simp [hin.1, hin.2]
  rw [execG.eq_def]; simp only [hx, h1 k (by omega), h2 k (by omega)]
  simp [hc]

theorem stmt_indexAssign_oob {F ρ w x xty idx e vs b s i v w1 w2} (hx : lookupG ρ x = some (.array vs))
    (hi : EvS F ρ w idx (.ok (.int b s i) w1)) (he : EvS F ρ w1 e (.ok v w2)) (hoob : i < 0 ∨ i.toNat ≥ vs.length) :
    StmtS F ρ w (.indexAssign (.var x xty) idx e) (.fail (.panic "index out of range") w2) := by
  obtain ⟨m1, h1⟩ := hi
  obtain ⟨m2, h2⟩ := he
  refine ⟨max m1 m2 + 1, fun k hk => ?_⟩
  obtain ⟨k, rfl, hk'⟩ := succ_of_le hk
  have hc : (decide (i < 0) || decide (i.toNat ≥ vs.length)) = true := by
    rcases hoob with h | h
    · simp [h]
    · simp [h]
  rw [execG.eq_def]; simp only [hx, h1 k (by omega), h2 k (by omega)]
  simp [hc]

/-! ### the helpers of `make_array_runtime` -/

/-- what the file must contain for the array type `[e; len]` -/
structure ArrLink (F : GFile) (len : Nat) (e : Ty) : Prop where
  get : F.findFunc (helperFnName "array_get" (.array len e)) = some (arrGetFn (.array len e) len e)
  set : F.findFunc (helperFnName "array_set" (.array len e)) = some (arrSetFn (.array len e) len e)

theorem arr_get_call {F : GFile} {len : Nat} {e : Ty} (hl : ArrLink F len e) (gw : GWorld) (gs : List GVal) (b : Nat) (s : Bool) (i : Int)
    (g : GVal) (hnn : ¬ i < 0) (hv : gs[i.toNat]? = some g) :
    CallS F gw (.func (helperFnName "array_get" (.array len e))) [.array gs, .int b s i] (.ok g gw) := by
  have hne : ("index" : String) ≠ "arr" := by decide
  have ha : EvS F [("arr", GVal.array gs), ("index", .int b s i)] gw (sV "arr" (.array len (goTy e))) (.ok (.array gs) gw) :=
    ev_var_some (lookup_cons_self _ _ _)
  have hi : EvS F [("arr", GVal.array gs), ("index", .int b s i)] gw (sV "index" i32) (.ok (.int b s i) gw) :=
    ev_var_some (by rw [lookup_cons_ne _ _ (fun h => hne h.symm)]; exact lookup_cons_self _ _ _)
  have hx := ev_index_array (ty := goTy e) ha hi hnn hv
  exact call_func_env hl.get rfl (block_cons_sig (rest := []) (by simp) (stmt_ret hx)) rfl

theorem arr_get_call_oob {F : GFile} {len : Nat} {e : Ty} (hl : ArrLink F len e) (gw : GWorld) (gs : List GVal) (b : Nat) (s : Bool) (i : Int)
    (hoob : i < 0 ∨ gs[i.toNat]? = none) :
    CallS F gw (.func (helperFnName "array_get" (.array len e))) [.array gs, .int b s i] (.fail (.panic "index out of range") gw) := by
  have hne : ("index" : String) ≠ "arr" := by decide
  have ha : EvS F [("arr", GVal.array gs), ("index", .int b s i)] gw (sV "arr" (.array len (goTy e))) (.ok (.array gs) gw) :=
    ev_var_some (lookup_cons_self _ _ _)
  have hi : EvS F [("arr", GVal.array gs), ("index", .int b s i)] gw (sV "index" i32) (.ok (.int b s i) gw) :=
    ev_var_some (by rw [lookup_cons_ne _ _ (fun h => hne h.symm)]; exact lookup_cons_self _ _ _)
  have hx := ev_index_array_oob (ty := goTy e) ha hi hoob
  have hs : StmtS F [("arr", GVal.array gs), ("index", .int b s i)] gw
      (.ret (some (.index (goTy e) (sV "arr" (.array len (goTy e))) (sV "index" i32)))) (.fail (.panic "index out of range") gw) := by
    obtain ⟨m, hm⟩ := hx
    refine ⟨m + 1, fun k hk => ?_⟩
    obtain ⟨k, rfl, hk'⟩ := succ_of_le hk
    rw [execG.eq_def]; simp [hm k hk']
  exact call_func_env hl.get rfl (block_cons_fail hs) rfl

theorem arr_set_call {F : GFile} {len : Nat} {e : Ty} (hl : ArrLink F len e) (gw : GWorld) (gs : List GVal) (b : Nat) (s : Bool) (i : Int)
    (g : GVal) (hin : ¬ (i < 0 ∨ i.toNat ≥ gs.length)) :
    CallS F gw (.func (helperFnName "array_set" (.array len e))) [.array gs, .int b s i, g] (.ok (.array (gs.set i.toNat g)) gw) := by
  have h1 : ("index" : String) ≠ "arr" := by decide
  have h2 : ("value" : String) ≠ "arr" := by decide
  have h3 : ("value" : String) ≠ "index" := by decide
  let ρ0 : GEnv := [("arr", GVal.array gs), ("index", .int b s i), ("value", g)]
  have hxl : lookupG ρ0 "arr" = some (.array gs) := lookup_cons_self _ _ _
  have hi : EvS F ρ0 gw (sV "index" i32) (.ok (.int b s i) gw) :=
    ev_var_some (by simp only [ρ0]; rw [lookup_cons_ne _ _ (fun h => h1 h.symm)]; exact lookup_cons_self _ _ _)
  have hv : EvS F ρ0 gw (sV "value" (goTy e)) (.ok g gw) :=
    ev_var_some (by
      simp only [ρ0]
      rw [lookup_cons_ne _ _ (fun h => h2 h.symm), lookup_cons_ne _ _ (fun h => h3 h.symm)]; exact lookup_cons_self _ _ _)
  have hs := stmt_indexAssign (xty := .array len (goTy e)) hxl hi hv hin
  have hup : updateG ρ0 "arr" (.array (gs.set i.toNat g)) = [("arr", GVal.array (gs.set i.toNat g)), ("index", .int b s i), ("value", g)] :=
    update_cons_self _ _ _ _
  rw [hup] at hs
  have hr : StmtS F [("arr", GVal.array (gs.set i.toNat g)), ("index", .int b s i), ("value", g)] gw
      (.ret (some (sV "arr" (.array len (goTy e))))) (.ok (_, .ret (.array (gs.set i.toNat g))) gw) :=
    stmt_ret (ev_var_some (lookup_cons_self _ _ _))
  exact call_func_env hl.set rfl (block_cons hs (block_cons_sig (rest := []) (by simp) hr)) rfl

theorem arr_set_call_oob {F : GFile} {len : Nat} {e : Ty} (hl : ArrLink F len e) (gw : GWorld) (gs : List GVal) (b : Nat) (s : Bool) (i : Int)
    (g : GVal) (hoob : i < 0 ∨ i.toNat ≥ gs.length) :
    CallS F gw (.func (helperFnName "array_set" (.array len e))) [.array gs, .int b s i, g] (.fail (.panic "index out of range") gw) := by
  have h1 : ("index" : String) ≠ "arr" := by decide
  have h2 : ("value" : String) ≠ "arr" := by decide
  have h3 : ("value" : String) ≠ "index" := by decide
  let ρ0 : GEnv := [("arr", GVal.array gs), ("index", .int b s i), ("value", g)]
  have hxl : lookupG ρ0 "arr" = some (.array gs) := lookup_cons_self _ _ _
  have hi : EvS F ρ0 gw (sV "index" i32) (.ok (.int b s i) gw) :=
    ev_var_some (by simp only [ρ0]; rw [lookup_cons_ne _ _ (fun h => h1 h.symm)]; exact lookup_cons_self _ _ _)
  have hv : EvS F ρ0 gw (sV "value" (goTy e)) (.ok g gw) :=
    ev_var_some (by
      simp only [ρ0]
      rw [lookup_cons_ne _ _ (fun h => h2 h.symm), lookup_cons_ne _ _ (fun h => h3 h.symm)]; exact lookup_cons_self _ _ _)
  have hs := stmt_indexAssign_oob (xty := .array len (goTy e)) hxl hi hv hoob
  exact call_func_env hl.set rfl (block_cons_fail hs) rfl

/-! ### related lists position by position -/

theorem toGVs_get {env : Env} {η : Hp} : ∀ {vs : List Val} {gs : List GVal} {len : Nat} {e : Ty} (i : Nat),
    VRels env η vs (List.replicate len e) gs →
    (vs[i]? = none ∧ gs[i]? = none) ∨ ∃ v g, vs[i]? = some v ∧ gs[i]? = some g ∧ VRel env η v e g
  | [], gs, len, e, i, h => by
    cases gs <;> cases len <;> simp [List.replicate, VRels] at h
    left; simp
  | v :: vs, [], len, e, i, h => by cases len <;> simp [List.replicate, VRels] at h
  | v :: vs, g :: gs, 0, e, i, h => by simp [List.replicate, VRels] at h
  | v :: vs, g :: gs, len + 1, e, i, h => by
    simp only [List.replicate, VRels] at h
    cases i with
    | zero => right; exact ⟨v, g, by simp, by simp, h.1⟩
    | succ i => simpa using toGVs_get i h.2

theorem hasTys_replicate_get {env : Env} {η : Hp} : ∀ {vs : List Val} {len : Nat} {e : Ty} (i : Nat) {v : Val},
    HasTys env η vs (List.replicate len e) → vs[i]? = some v → HasTy env η v e
  | [], len, e, i, v, _, hv => by simp at hv
  | v0 :: vs, 0, e, i, v, h, _ => by simp [List.replicate, HasTys] at h
  | v0 :: vs, len + 1, e, i, v, h, hv => by
    simp only [List.replicate, HasTys] at h
    cases i with
    | zero => simp at hv; subst hv; exact h.1
    | succ i => simp only [List.getElem?_cons_succ] at hv; exact hasTys_replicate_get i h.2 hv

theorem toGVs_set {env : Env} {η : Hp} : ∀ {vs : List Val} {gs : List GVal} {len : Nat} {e : Ty} (i : Nat) {v : Val} {g : GVal},
    VRels env η vs (List.replicate len e) gs → VRel env η v e g → VRels env η (vs.set i v) (List.replicate len e) (gs.set i g)
  | [], gs, len, e, i, v, g, h, _ => by
    cases gs <;> cases len <;> simp [List.replicate, VRels] at h
    simp [VRels]
  | v0 :: vs, [], len, e, i, v, g, h, _ => by cases len <;> simp [List.replicate, VRels] at h
  | v0 :: vs, g0 :: gs, 0, e, i, v, g, h, _ => by simp [List.replicate, VRels] at h
  | v0 :: vs, g0 :: gs, len + 1, e, i, v, g, h, hg => by
    simp only [List.replicate, VRels] at h
    cases i with
    | zero => simp only [List.set_cons_zero, List.replicate, VRels]; exact ⟨hg, h.2⟩
    | succ i => simp only [List.set_cons_succ, List.replicate, VRels]; exact ⟨h.1, toGVs_set i h.2 hg⟩

theorem hasTys_replicate_set {env : Env} {η : Hp} : ∀ {vs : List Val} {len : Nat} {e : Ty} (i : Nat) {v : Val},
    HasTys env η vs (List.replicate len e) → HasTy env η v e → HasTys env η (vs.set i v) (List.replicate len e)
  | [], len, e, i, v, h, _ => by simpa using h
  | v0 :: vs, 0, e, i, v, h, _ => by simp [List.replicate, HasTys] at h
  | v0 :: vs, len + 1, e, i, v, h, hv => by
    simp only [List.replicate, HasTys] at h
    cases i with
    | zero => simp only [List.set_cons_zero, List.replicate, HasTys]; exact ⟨hv, h.2⟩
    | succ i => simp only [List.set_cons_succ, List.replicate, HasTys]; exact ⟨h.1, hasTys_replicate_set i h.2 hv⟩

end Goml.GoComp
