import GomlVerif.Lemmas.GoCompVec
/-!
Trait objects: `dyn[T](v)` is the Go struct `dyn__T{data: any(v), vtable: dyn__T__vtable__X()}`, where the constructor
allocates a fresh vtable cell holding the wrapper functions of the receiver type `X` — an immutable cell of the heap context
(`Hp.imm`) with the content `vtableVal`; a method call `d.m(args)` goes through the cell to the wrapper
`dyn__T__wrap__X__m(self any, p0, …)`, which recovers the receiver (`self.(X)`: the identity on the receiver types of the
fragment, `dynRecvTy`) and calls the implementing function `trait_impl#T#X#m`.  This file has the `Go.Sem` side: what the file
must contain (`DynLink`), the constructor call, the composite literal, the wrapper call.
-/
set_option linter.unusedSimpArgs false
set_option linter.unusedVariables false
namespace Goml.GoComp
open Goml Goml.Go Goml.GoCompile Goml.GoFrag
open Goml.Sem (Val World Res Fail)
open Goml.Dce (keys lookup_cons_self lookup_cons_ne lookup_none_of_not_key key_of_lookup_some)

attribute [local irreducible] Goml.GoCompile.vn Goml.GoCompile.gid Goml.GoCompile.rn

theorem stmt_ret_fail {F ρ w e f w'} (h : EvS F ρ w e (.fail f w')) : StmtS F ρ w (.ret (some e)) (.fail f w') := by
  obtain ⟨m, hm⟩ := h
  refine ⟨m + 1, fun k hk => ?_⟩
  obtain ⟨k, rfl, hk'⟩ := succ_of_le hk
  rw [execG.eq_def]; simp [hm k hk']

theorem ev_call_fail {F ρ w ty f args fv w1 vs w2 fl w3} (hf : EvS F ρ w f (.ok fv w1))
    (ha : EvLS F ρ w1 args (.ok vs w2)) (hc : CallS F w2 fv vs (.fail fl w3)) : EvS F ρ w (.call ty f args) (.fail fl w3) :=
  ev_call hf ha hc

/-- the `any`-typed receiver is recovered unchanged by `self.(T)` / `T(self)` -/
theorem ev_cast_id {env : Env} {η : Hp} {F : GFile} {ρ : GEnv} {w w' : GWorld} {e : GExpr} {v : Val} {forTy : Ty} {g : GVal}
    (he : EvS F ρ w e (.ok g w')) (hr : dynRecvTy env forTy = true) (ht : HasTy env η v forTy) (hg : VRel env η v forTy g)
    (hE : ∀ n, forTy = .enum n → ∀ d, env.getEnum n = some d → ∀ vr, vr ∈ d.variants →
      F.structImplements (variantGoName env n vr.1) (gid n) = true) :
    EvS F ρ w (.cast (goTy forTy) e) (.ok g w') := by
  obtain ⟨m, hm⟩ := he
  refine ⟨m + 1, fun k hk => ?_⟩
  obtain ⟨k, rfl, hk'⟩ := succ_of_le hk
  rw [evalG.eq_def]; simp only [hm k hk']
  cases forTy <;> simp only [dynRecvTy] at hr <;> try (cases hr; done)
  · have := hasTy_unit ht; subst this
    simp only [VRel] at hg; subst hg
    simp [goTy, convert]
  · obtain ⟨b, rfl⟩ := hasTy_bool ht
    simp only [VRel] at hg; subst hg
    simp [goTy, convert]
  · rename_i b s
    obtain ⟨x, rfl⟩ := hasTy_int ht
    have hrange := hasTy_int_range ht
    simp only [VRel] at hg; subst hg
    simp [goTy, convert, hrange]
  · obtain ⟨x, rfl⟩ := hasTy_str ht
    simp only [VRel] at hg; subst hg
    simp [goTy, convert]
  · rename_i n
    cases v <;> simp only [HasTy] at ht <;> try exact ht.elim
    rename_i n' idx vs
    obtain ⟨hn, _, hf⟩ := ht
    subst hn
    simp only [VRel] at hg
    cases hd : env.getEnum n' with
    | none => rw [hd] at hg; exact hg.elim
    | some d =>
      rw [hd] at hg hf; simp only at hg hf
      cases hv : d.variants[idx]? with
      | none => rw [hv] at hg; exact hg.elim
      | some vr =>
        rw [hv] at hg; simp only at hg
        obtain ⟨gs, _, rfl⟩ := hg
        have himp := hE n' rfl d hd vr (List.mem_of_getElem? hv)
        simp [goTy, himp]
  · rename_i n
    cases v <;> simp only [HasTy] at ht <;> try exact ht.elim
    rename_i n' vs
    obtain ⟨hn, _, hf⟩ := ht
    subst hn
    simp only [VRel] at hg
    cases hd : env.getStruct n' with
    | none => rw [hd] at hg; exact hg.elim
    | some d =>
      rw [hd] at hg; simp only at hg
      obtain ⟨gs, _, rfl⟩ := hg
      simp [goTy]
  · rename_i ps r
    cases v <;> simp only [HasTy] at ht <;> try exact ht.elim
    simp only [VRel] at hg; subst hg
    simp [goTy, convert]

/-- what the file must contain for the vtable `(tr, forTy)` -/
structure DynLink (env : Env) (F : GFile) (tr : String) (forTy : Ty) : Prop where
  ctor : F.findFunc (dynVtableCtorName tr forTy) =
    some (genDynVtableCtorFn tr forTy ((traitMethodSigs env tr).getD []))
  wrap : ∀ s, s ∈ (traitMethodSigs env tr).getD [] →
    F.findFunc (dynWrapName tr forTy s.1) = some (genDynWrapFn tr forTy s.1 s.2.1 s.2.2)
  dynT : ∃ decl, F.structFields (dynStructName tr) = some decl ∧ decl.map (·.1) = ["data", "vtable"]
  vtT : ∃ decl, F.structFields (dynVtableStructName tr) = some decl ∧
    decl.map (·.1) = ((traitMethodSigs env tr).getD []).map fun s => gid s.1
  nodup : (((traitMethodSigs env tr).getD []).map fun s => gid s.1).Nodup
  /-- an enum receiver: its variant structs have the method set of the enum's interface -/
  recv : ∀ n, forTy = .enum n → ∀ d, env.getEnum n = some d → ∀ vr, vr ∈ d.variants →
    F.structImplements (variantGoName env n vr.1) (gid n) = true

theorem slit_dyn {env : Env} {F : GFile} {tr : String} {forTy : Ty} (hl : DynLink env F tr forTy) (gd p : GVal) :
    slitValue F (dynStructName tr) [("data", gd), ("vtable", p)] =
      .struct (dynStructName tr) [("data", gd), ("vtable", p)] := by
  obtain ⟨decl, hd, hn⟩ := hl.dynT
  simp only [slitValue, hd]
  congr 1
  have hne : ("vtable" : String) ≠ "data" := by decide
  have := slit_fields F decl ["data", "vtable"] [gd, p] [("data", gd), ("vtable", p)] hn rfl (fun i x g hx hg => by
    cases i with
    | zero => simp at hx hg; subst hx; subst hg; exact lookup_cons_self _ _ _
    | succ i =>
      cases i with
      | zero =>
        simp at hx hg; subst hx; subst hg
        rw [lookup_cons_ne _ _ (fun h => hne h.symm)]; exact lookup_cons_self _ _ _
      | succ i => simp at hx)
  simpa using this

theorem evf_slots {F : GFile} {w : GWorld} (tr : String) (forTy : Ty) : ∀ sigs : List (String × List Ty × Ty),
    EvFS F [] w (sigs.map fun s => GField.mk (gid s.1) (.var (dynWrapName tr forTy s.1) (slotTy s.2.1 s.2.2)))
      (.ok (sigs.map fun s => (gid s.1, GVal.func (dynWrapName tr forTy s.1))) w)
  | [] => evf_nil
  | s :: rest => by
    simp only [List.map_cons]
    exact evf_cons (ev_var_none rfl) (evf_slots tr forTy rest)

theorem zip_map_pair {α β γ : Type} (f : α → β) (g : α → γ) : ∀ l : List α, (l.map f).zip (l.map g) = l.map fun x => (f x, g x)
  | [] => rfl
  | x :: l => by simp [zip_map_pair f g l]

/-- the vtable literal of the constructor evaluates to `vtableVal` -/
theorem slit_vtable {env : Env} {F : GFile} {tr : String} {forTy : Ty} (hl : DynLink env F tr forTy) :
    slitValue F (dynVtableStructName tr)
        (((traitMethodSigs env tr).getD []).map fun s => (gid s.1, GVal.func (dynWrapName tr forTy s.1))) =
      vtableVal env tr forTy := by
  obtain ⟨decl, hd, hn⟩ := hl.vtT
  simp only [slitValue, hd, vtableVal]
  congr 1
  generalize hsg : (traitMethodSigs env tr).getD [] = sigs at hn ⊢
  have hnd := hl.nodup; rw [hsg] at hnd
  have hz := zip_map_pair (fun s : String × List Ty × Ty => gid s.1) (fun s => GVal.func (dynWrapName tr forTy s.1)) sigs
  have := slit_fields F decl (sigs.map fun s => gid s.1) (sigs.map fun s => GVal.func (dynWrapName tr forTy s.1))
    (sigs.map fun s => (gid s.1, GVal.func (dynWrapName tr forTy s.1))) hn (by simp)
    (fun i x g hx hg => by rw [← hz]; exact lookup_zip _ _ i x g hnd hx hg)
  rw [this, hz]

/-- the vtable constructor: a fresh cell with the wrappers -/
theorem dyn_ctor_call {env : Env} {F : GFile} {tr : String} {forTy : Ty} (hl : DynLink env F tr forTy) (gw : GWorld) :
    CallS F gw (.func (dynVtableCtorName tr forTy)) []
      (.ok (.ptr gw.heap.size) { gw with heap := gw.heap.push (vtableVal env tr forTy) }) := by
  have hs := ev_slit_name (ρ := []) (name := dynVtableStructName tr) (evf_slots (F := F) (w := gw) tr forTy ((traitMethodSigs env tr).getD []))
  rw [slit_vtable hl] at hs
  have ha := ev_addr (ty := vtablePtrTy tr) hs
  exact call_func_env hl.ctor rfl (block_cons_sig (rest := []) (by simp) (stmt_ret ha)) rfl

/-- the variables of a parameter list evaluate to the arguments they were bound to -/
theorem evl_vars {F : GFile} {w : GWorld} : ∀ (ps : List (String × GTy)) (vals : List GVal) (pre : GEnv),
    ps.length = vals.length → (ps.map (·.1)).Nodup → (∀ x, x ∈ ps.map (·.1) → ¬ x ∈ keys pre) →
    EvLS F (pre ++ ((ps.zip vals).map fun ((x, _), v) => (x, v))) w (ps.map fun p => GExpr.var p.1 p.2) (.ok vals w)
  | [], [], pre, _, _, _ => evl_nil
  | [], _ :: _, _, h, _, _ => by simp at h
  | _ :: _, [], _, h, _, _ => by simp at h
  | p :: ps, v :: vals, pre, hlen, hnd, hfresh => by
    simp only [List.map_cons, List.nodup_cons] at hnd
    simp only [List.zip_cons_cons, List.map_cons]
    have hlk : lookupG (pre ++ (p.1, v) :: ((ps.zip vals).map fun ((x, _), v) => (x, v))) p.1 = some v := by
      rw [lookup_append_right (hfresh p.1 (by simp))]; exact lookup_cons_self _ _ _
    have ih := evl_vars (F := F) (w := w) ps vals (pre ++ [(p.1, v)]) (by simpa using hlen) hnd.2 (fun x hx hk => by
      rw [keys_append, List.mem_append] at hk
      rcases hk with hk | hk
      · exact hfresh x (by simp [hx]) hk
      · simp only [Goml.Dce.keys_cons, Goml.Dce.keys_nil, List.mem_singleton] at hk
        subst hk; exact hnd.1 hx)
    have e : pre ++ [(p.1, v)] ++ ((ps.zip vals).map fun ((x, _), v) => (x, v)) =
        pre ++ (p.1, v) :: ((ps.zip vals).map fun ((x, _), v) => (x, v)) := by simp
    rw [e] at ih
    exact evl_cons (ev_var_some hlk) ih

theorem length_wrapParams : ∀ (i : Nat) (ps : List Ty), (wrapParams i ps).length = ps.length
  | _, [] => rfl
  | i, _ :: ps => by simp [wrapParams, length_wrapParams (i + 1) ps]

/-- a call of the wrapper is a call of the implementing function -/
theorem dyn_wrap_call {env : Env} {η : Hp} {F : GFile} {tr : String} {forTy : Ty} (hl : DynLink env F tr forTy)
    {s : String × List Ty × Ty} (hs : s ∈ (traitMethodSigs env tr).getD []) {gw : GWorld} {v : Val} {gd : GVal}
    {gargs : List GVal} {r : GRes GVal}
    (hlen : gargs.length = s.2.1.length)
    (hnd : ("self" :: (wrapParams 0 s.2.1).map (·.1)).Nodup)
    (hnc : ¬ gid (Goml.Mono.traitImplFnName tr forTy s.1) ∈ "self" :: (wrapParams 0 s.2.1).map (·.1))
    (hrecv : dynRecvTy env forTy = true) (ht : HasTy env η v forTy) (hg : VRel env η v forTy gd)
    (hc : CallS F gw (.func (gid (Goml.Mono.traitImplFnName tr forTy s.1))) (gd :: gargs) r) :
    CallS F gw (.func (dynWrapName tr forTy s.1)) (gd :: gargs) r := by
  have hfind := hl.wrap s hs
  simp only [List.nodup_cons] at hnd
  obtain ⟨hself, hndp⟩ := hnd
  let ρ : GEnv := ("self", gd) :: (((wrapParams 0 s.2.1).zip gargs).map fun ((x, _), v) => (x, v))
  have hkeys : ∀ x, x ∈ keys ρ → x ∈ "self" :: (wrapParams 0 s.2.1).map (·.1) := by
    intro x hx
    simp only [ρ, Goml.Dce.keys_cons, List.mem_cons] at hx ⊢
    rcases hx with hx | hx
    · exact Or.inl hx
    · right
      simp only [keys, List.map_map, List.mem_map, Function.comp] at hx
      obtain ⟨⟨⟨a, b⟩, c⟩, hm, rfl⟩ := hx
      exact List.mem_map_of_mem (f := (·.1)) (List.of_mem_zip hm).1
  have hnone : lookupG ρ (gid (Goml.Mono.traitImplFnName tr forTy s.1)) = none :=
    lookup_none_of_not_key (fun hk => hnc (hkeys _ hk))
  have hselfE : EvS F ρ gw (.var "self" anyTy) (.ok gd gw) := ev_var_some (lookup_cons_self _ _ _)
  have hcast := ev_cast_id hselfE hrecv ht hg hl.recv
  have hvars : EvLS F ρ gw ((wrapParams 0 s.2.1).map fun p => GExpr.var p.1 p.2) (.ok gargs gw) := by
    have := evl_vars (F := F) (w := gw) (wrapParams 0 s.2.1) gargs [("self", gd)]
      (by rw [length_wrapParams, hlen]) hndp (fun x hx hk => by
        simp only [Goml.Dce.keys_cons, Goml.Dce.keys_nil, List.mem_singleton] at hk
        subst hk; exact hself hx)
    simpa [ρ] using this
  have hargs : EvLS F ρ gw (.cast (goTy forTy) (.var "self" anyTy) :: (wrapParams 0 s.2.1).map fun p => GExpr.var p.1 p.2)
      (.ok (gd :: gargs) gw) := evl_cons hcast hvars
  have hcall : EvS F ρ gw (.call (goTy s.2.2) (.var (gid (Goml.Mono.traitImplFnName tr forTy s.1))
      (.func (goTy forTy :: goTys s.2.1) (goTy s.2.2)))
      (.cast (goTy forTy) (.var "self" anyTy) :: (wrapParams 0 s.2.1).map fun p => GExpr.var p.1 p.2)) r :=
    ev_call (ev_var_none hnone) hargs hc
  have hlenP : (genDynWrapFn tr forTy s.1 s.2.1 s.2.2).params.length = (gd :: gargs).length := by
    simp [genDynWrapFn, length_wrapParams, hlen]
  cases r with
  | ok rv w' =>
    exact call_func_env hfind rfl (block_cons_sig (rest := []) (sig := .ret rv) (by simp) (stmt_ret hcall)) rfl hlenP
  | fail fl w' =>
    exact call_func_env hfind rfl (block_cons_fail (stmt_ret_fail hcall)) rfl hlenP

end Goml.GoComp
