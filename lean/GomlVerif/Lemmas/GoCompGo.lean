import GomlVerif.Model.GoSem
import GomlVerif.Lemmas.DceSimBase
import GomlVerif.Lemmas.GoSemMono
/-!
Big-step rules of `Go.Sem` in fuel-free ("stable") form: `XS … r` says that the interpreter
function returns `r` for every sufficiently large fuel.  One rule per statement / expression
form the Go back end emits for stage (a); each is one unfolding of the interpreter.
Used by the simulation proof of `Props/GoCompile.lean`.
-/
set_option linter.unusedSimpArgs false
set_option linter.unusedVariables false
namespace Goml.GoComp
open Goml Goml.Go
open Goml.Sem (Fail)
open Goml.Dce (keys)

def EvS (F : GFile) (ρ : GEnv) (w : GWorld) (e : GExpr) (r : GRes GVal) : Prop :=
  ∃ m, ∀ k, m ≤ k → evalG k F ρ w e = r
def EvLS (F : GFile) (ρ : GEnv) (w : GWorld) (es : List GExpr) (r : GRes (List GVal)) : Prop :=
  ∃ m, ∀ k, m ≤ k → evalListG k F ρ w es = r
def BlockS (F : GFile) (ρ : GEnv) (w : GWorld) (ss : List GStmt) (r : GRes (GEnv × Sig)) : Prop :=
  ∃ m, ∀ k, m ≤ k → execBlockG k F ρ w ss = r
def StmtS (F : GFile) (ρ : GEnv) (w : GWorld) (s : GStmt) (r : GRes (GEnv × Sig)) : Prop :=
  ∃ m, ∀ k, m ≤ k → execG k F ρ w s = r
def NestS (F : GFile) (ρ : GEnv) (w : GWorld) (ss : List GStmt) (r : GRes (GEnv × Sig)) : Prop :=
  ∃ m, ∀ k, m ≤ k → nestedG k F ρ w ss = r
def CallS (F : GFile) (w : GWorld) (f : GVal) (args : List GVal) (r : GRes GVal) : Prop :=
  ∃ m, ∀ k, m ≤ k → callG k F w f args = r

/-- `k ≥ m + 1` is a successor -/
theorem succ_of_le {m k : Nat} (h : m + 1 ≤ k) : ∃ k', k = k' + 1 ∧ m ≤ k' := ⟨k - 1, by omega, by omega⟩

/-! ### expressions -/

theorem ev_var_some {F ρ w x ty v} (h : lookupG ρ x = some v) : EvS F ρ w (.var x ty) (.ok v w) := by
  refine ⟨1, fun k hk => ?_⟩
  obtain ⟨k, rfl, -⟩ := succ_of_le hk
  rw [evalG.eq_def]; simp only [h]

theorem ev_var_none {F ρ w x ty} (h : lookupG ρ x = none) : EvS F ρ w (.var x ty) (.ok (.func x) w) := by
  refine ⟨1, fun k hk => ?_⟩
  obtain ⟨k, rfl, -⟩ := succ_of_le hk
  rw [evalG.eq_def]; simp only [h]

theorem ev_unitv {F ρ w ty} : EvS F ρ w (.unitv ty) (.ok .unit w) := by
  refine ⟨1, fun k hk => ?_⟩
  obtain ⟨k, rfl, -⟩ := succ_of_le hk
  rw [evalG.eq_def]

theorem ev_bool {F ρ w b} : EvS F ρ w (.bool b) (.ok (.bool b) w) := by
  refine ⟨1, fun k hk => ?_⟩
  obtain ⟨k, rfl, -⟩ := succ_of_le hk
  rw [evalG.eq_def]

theorem ev_str {F ρ w s} : EvS F ρ w (.str s) (.ok (.str s) w) := by
  refine ⟨1, fun k hk => ?_⟩
  obtain ⟨k, rfl, -⟩ := succ_of_le hk
  rw [evalG.eq_def]

theorem ev_int {F ρ w text b s v} (h : text.toInt? = some v) :
    EvS F ρ w (.int text (.int b s)) (.ok (.int b s (Goml.Sem.wrap b s v)) w) := by
  refine ⟨1, fun k hk => ?_⟩
  obtain ⟨k, rfl, -⟩ := succ_of_le hk
  rw [evalG.eq_def]; simp only [h]

theorem ev_not {F ρ w ty e b w'} (h : EvS F ρ w e (.ok (.bool b) w')) :
    EvS F ρ w (.un .not ty e) (.ok (.bool !b) w') := by
  obtain ⟨m, hm⟩ := h
  refine ⟨m + 1, fun k hk => ?_⟩
  obtain ⟨k, rfl, hk'⟩ := succ_of_le hk
  rw [evalG.eq_def]; simp only [hm k hk']

theorem ev_neg_int {F ρ w ty e n s x w'} (h : EvS F ρ w e (.ok (.int n s x) w')) :
    EvS F ρ w (.un .neg ty e) (.ok (.int n s (Goml.Sem.wrap n s (-x))) w') := by
  obtain ⟨m, hm⟩ := h
  refine ⟨m + 1, fun k hk => ?_⟩
  obtain ⟨k, rfl, hk'⟩ := succ_of_le hk
  rw [evalG.eq_def]; simp only [hm k hk']

theorem ev_fail_of {F ρ w e f w'} (h : ∀ k, evalG (k + 1) F ρ w e = .fail f w') : EvS F ρ w e (.fail f w') :=
  ⟨1, fun k hk => by obtain ⟨k, rfl, -⟩ := succ_of_le hk; exact h k⟩

def isLogicG : GBin → Bool
  | .and => true
  | .or => true
  | _ => false

theorem ev_bin {F ρ w op ty l r a b w1 w2 v} (hop : isLogicG op = false)
    (hl : EvS F ρ w l (.ok a w1)) (hr : EvS F ρ w1 r (.ok b w2)) (hv : gbin op a b = .ok v) :
    EvS F ρ w (.bin op ty l r) (.ok v w2) := by
  obtain ⟨m1, h1⟩ := hl
  obtain ⟨m2, h2⟩ := hr
  refine ⟨max m1 m2 + 1, fun k hk => ?_⟩
  obtain ⟨k, rfl, hk'⟩ := succ_of_le hk
  rw [evalG.eq_def]
  cases op <;> simp [isLogicG] at hop <;> simp only [h1 k (by omega), h2 k (by omega), hv]

theorem ev_bin_err {F ρ w op ty l r a b w1 w2 f} (hop : isLogicG op = false)
    (hl : EvS F ρ w l (.ok a w1)) (hr : EvS F ρ w1 r (.ok b w2)) (hv : gbin op a b = .error f) :
    EvS F ρ w (.bin op ty l r) (.fail f w2) := by
  obtain ⟨m1, h1⟩ := hl
  obtain ⟨m2, h2⟩ := hr
  refine ⟨max m1 m2 + 1, fun k hk => ?_⟩
  obtain ⟨k, rfl, hk'⟩ := succ_of_le hk
  rw [evalG.eq_def]
  cases op <;> simp [isLogicG] at hop <;> simp only [h1 k (by omega), h2 k (by omega), hv]

theorem ev_and_false {F ρ w ty l r w1} (hl : EvS F ρ w l (.ok (.bool false) w1)) :
    EvS F ρ w (.bin .and ty l r) (.ok (.bool false) w1) := by
  obtain ⟨m1, h1⟩ := hl
  refine ⟨m1 + 1, fun k hk => ?_⟩
  obtain ⟨k, rfl, hk'⟩ := succ_of_le hk
  rw [evalG.eq_def]; simp only [h1 k hk']

theorem ev_and_true {F ρ w ty l r w1 b w2} (hl : EvS F ρ w l (.ok (.bool true) w1))
    (hr : EvS F ρ w1 r (.ok b w2)) : EvS F ρ w (.bin .and ty l r) (.ok b w2) := by
  obtain ⟨m1, h1⟩ := hl
  obtain ⟨m2, h2⟩ := hr
  refine ⟨max m1 m2 + 1, fun k hk => ?_⟩
  obtain ⟨k, rfl, hk'⟩ := succ_of_le hk
  rw [evalG.eq_def]; simp only [h1 k (by omega), h2 k (by omega)]

theorem ev_or_true {F ρ w ty l r w1} (hl : EvS F ρ w l (.ok (.bool true) w1)) :
    EvS F ρ w (.bin .or ty l r) (.ok (.bool true) w1) := by
  obtain ⟨m1, h1⟩ := hl
  refine ⟨m1 + 1, fun k hk => ?_⟩
  obtain ⟨k, rfl, hk'⟩ := succ_of_le hk
  rw [evalG.eq_def]; simp only [h1 k hk']

theorem ev_or_false {F ρ w ty l r w1 b w2} (hl : EvS F ρ w l (.ok (.bool false) w1))
    (hr : EvS F ρ w1 r (.ok b w2)) : EvS F ρ w (.bin .or ty l r) (.ok b w2) := by
  obtain ⟨m1, h1⟩ := hl
  obtain ⟨m2, h2⟩ := hr
  refine ⟨max m1 m2 + 1, fun k hk => ?_⟩
  obtain ⟨k, rfl, hk'⟩ := succ_of_le hk
  rw [evalG.eq_def]; simp only [h1 k (by omega), h2 k (by omega)]

theorem evl_nil {F ρ w} : EvLS F ρ w [] (.ok [] w) := by
  refine ⟨1, fun k hk => ?_⟩
  obtain ⟨k, rfl, -⟩ := succ_of_le hk
  rw [evalListG.eq_def]

theorem evl_cons {F ρ w e es v w1 vs w2} (h1 : EvS F ρ w e (.ok v w1)) (h2 : EvLS F ρ w1 es (.ok vs w2)) :
    EvLS F ρ w (e :: es) (.ok (v :: vs) w2) := by
  obtain ⟨m1, h1⟩ := h1
  obtain ⟨m2, h2⟩ := h2
  refine ⟨max m1 m2 + 1, fun k hk => ?_⟩
  obtain ⟨k, rfl, hk'⟩ := succ_of_le hk
  rw [evalListG.eq_def]; simp only [h1 k (by omega), h2 k (by omega)]

theorem ev_call {F ρ w ty f args fv w1 vs w2 r} (hf : EvS F ρ w f (.ok fv w1))
    (ha : EvLS F ρ w1 args (.ok vs w2)) (hc : CallS F w2 fv vs r) : EvS F ρ w (.call ty f args) r := by
  obtain ⟨m1, h1⟩ := hf
  obtain ⟨m2, h2⟩ := ha
  obtain ⟨m3, h3⟩ := hc
  refine ⟨max m1 (max m2 m3) + 1, fun k hk => ?_⟩
  obtain ⟨k, rfl, hk'⟩ := succ_of_le hk
  rw [evalG.eq_def]; simp only [h1 k (by omega), h2 k (by omega), h3 k (by omega)]

/-! ### composite literals and field access -/

def EvFS (F : GFile) (ρ : GEnv) (w : GWorld) (fs : List GField) (r : GRes (List (String × GVal))) : Prop :=
  ∃ m, ∀ k, m ≤ k → evalFieldsG k F ρ w fs = r

theorem evf_nil {F ρ w} : EvFS F ρ w [] (.ok [] w) := by
  refine ⟨1, fun k hk => ?_⟩
  obtain ⟨k, rfl, -⟩ := succ_of_le hk
  rw [evalFieldsG.eq_def]

theorem evf_cons {F ρ w n e rest v w1 vs w2} (h1 : EvS F ρ w e (.ok v w1)) (h2 : EvFS F ρ w1 rest (.ok vs w2)) :
    EvFS F ρ w (.mk n e :: rest) (.ok ((n, v) :: vs) w2) := by
  obtain ⟨m1, h1⟩ := h1
  obtain ⟨m2, h2⟩ := h2
  refine ⟨max m1 m2 + 1, fun k hk => ?_⟩
  obtain ⟨k, rfl, hk'⟩ := succ_of_le hk
  rw [evalFieldsG.eq_def]; simp only [h1 k (by omega), h2 k (by omega)]

/-- what a composite literal of a named type evaluates to, given its evaluated fields -/
def slitValue (F : GFile) (name : String) (fs : List (String × GVal)) : GVal :=
  .struct name (match F.structFields name with
    | some decl => decl.map fun (f, t) => (f, (lookupG fs f).getD (zero F t))
    | none => fs)

theorem ev_slit_name {F ρ w name fields fs w'} (hf : EvFS F ρ w fields (.ok fs w')) :
    EvS F ρ w (.slit (.name name) fields) (.ok (slitValue F name fs) w') := by
  obtain ⟨m, hm⟩ := hf
  refine ⟨m + 1, fun k hk => ?_⟩
  obtain ⟨k, rfl, hk'⟩ := succ_of_le hk
  rw [evalG.eq_def]; simp only [hm k hk', slitValue]
  cases F.structFields name <;> rfl

theorem ev_slit_struct {F ρ w name tfs fields fs w'} (hf : EvFS F ρ w fields (.ok fs w')) :
    EvS F ρ w (.slit (.struct name tfs) fields) (.ok (slitValue F name fs) w') := by
  obtain ⟨m, hm⟩ := hf
  refine ⟨m + 1, fun k hk => ?_⟩
  obtain ⟨k, rfl, hk'⟩ := succ_of_le hk
  rw [evalG.eq_def]; simp only [hm k hk', slitValue]
  cases F.structFields name <;> rfl

theorem ev_field_struct {F ρ w f ty obj n fs v w'} (h : EvS F ρ w obj (.ok (.struct n fs) w'))
    (hl : lookupG fs f = some v) : EvS F ρ w (.field f ty obj) (.ok v w') := by
  obtain ⟨m, hm⟩ := h
  refine ⟨m + 1, fun k hk => ?_⟩
  obtain ⟨k, rfl, hk'⟩ := succ_of_le hk
  rw [evalG.eq_def]; simp only [hm k hk', hl]

/-! ### calls -/

/-- what `callG` makes of the result of a function body -/
def retOf : GRes (GEnv × Sig) → GRes GVal
  | .fail f w => .fail f w
  | .ok (_, .ret v) w => .ok v w
  | .ok (_, _) w => .ok .void w

theorem call_func {F w name args fn r0} (hf : F.findFunc name = some fn)
    (hb : BlockS F ((fn.params.zip args).map fun ((x, _), v) => (x, v)) w fn.body r0)
    (hlen : fn.params.length = args.length := by first | rfl | decide | simp) :
    CallS F w (.func name) args (retOf r0) := by
  obtain ⟨m, hm⟩ := hb
  refine ⟨m + 1, fun k hk => ?_⟩
  obtain ⟨k, rfl, hk'⟩ := succ_of_le hk
  have har : (fn.params.length != args.length) = false := by simp [hlen]
  rw [callG.eq_def]; simp only [hf, har, Bool.false_eq_true, if_false, hm k hk']
  cases r0 with
  | fail f w => rfl
  | ok p w => obtain ⟨ρ', sig⟩ := p; cases sig <;> rfl

theorem call_func_env {F w name args fn ρ r0 r} (hf : F.findFunc name = some fn)
    (hρ : (fn.params.zip args).map (fun ((x, _), v) => (x, v)) = ρ)
    (hb : BlockS F ρ w fn.body r0) (hr : retOf r0 = r)
    (hlen : fn.params.length = args.length := by first | rfl | decide | simp) : CallS F w (.func name) args r := by
  subst hρ; subst hr; exact call_func hf hb hlen

/-! ### blocks and statements -/

theorem block_nil {F ρ w} : BlockS F ρ w [] (.ok (ρ, .normal) w) := by
  refine ⟨1, fun k hk => ?_⟩
  obtain ⟨k, rfl, -⟩ := succ_of_le hk
  rw [execBlockG.eq_def]

theorem block_cons {F ρ w s rest ρ1 w1 r} (h1 : StmtS F ρ w s (.ok (ρ1, .normal) w1))
    (h2 : BlockS F ρ1 w1 rest r) : BlockS F ρ w (s :: rest) r := by
  obtain ⟨m1, h1⟩ := h1
  obtain ⟨m2, h2⟩ := h2
  refine ⟨max m1 m2 + 1, fun k hk => ?_⟩
  obtain ⟨k, rfl, hk'⟩ := succ_of_le hk
  rw [execBlockG.eq_def]; simp only [h1 k (by omega), h2 k (by omega)]

theorem block_cons_fail {F ρ w s rest f w1} (h1 : StmtS F ρ w s (.fail f w1)) :
    BlockS F ρ w (s :: rest) (.fail f w1) := by
  obtain ⟨m1, h1⟩ := h1
  refine ⟨m1 + 1, fun k hk => ?_⟩
  obtain ⟨k, rfl, hk'⟩ := succ_of_le hk
  rw [execBlockG.eq_def]; simp only [h1 k hk']

theorem block_cons_sig {F ρ w s rest ρ1 sig w1} (hs : sig ≠ .normal)
    (h1 : StmtS F ρ w s (.ok (ρ1, sig) w1)) : BlockS F ρ w (s :: rest) (.ok (ρ1, sig) w1) := by
  obtain ⟨m1, h1⟩ := h1
  refine ⟨m1 + 1, fun k hk => ?_⟩
  obtain ⟨k, rfl, hk'⟩ := succ_of_le hk
  rw [execBlockG.eq_def]; simp only [h1 k hk']

/-- inversion: a block that ends normally ran its first statement to a normal end -/
theorem block_cons_inv {F ρ w s rest ρ1 w1} (h : BlockS F ρ w (s :: rest) (.ok (ρ1, .normal) w1)) :
    ∃ ρ' w', StmtS F ρ w s (.ok (ρ', .normal) w') ∧ BlockS F ρ' w' rest (.ok (ρ1, .normal) w1) := by
  obtain ⟨m, hm⟩ := h
  have h0 := hm (m + 1) (by omega)
  rw [execBlockG.eq_def] at h0; simp only at h0
  cases hs : execG m F ρ w s with
  | fail f w' => rw [hs] at h0; simp at h0
  | ok p w' =>
    obtain ⟨ρ', sig⟩ := p
    rw [hs] at h0
    cases sig with
    | brk => simp at h0
    | ret v => simp at h0
    | normal =>
      have hstable : ∀ k, m ≤ k → execG k F ρ w s = .ok (ρ', .normal) w' := fun k hk => by
        rw [← hs]; exact Goml.Go.execG_mono hk (by rw [hs]; trivial)
      refine ⟨ρ', w', ⟨m, hstable⟩, ⟨m, fun k hk => ?_⟩⟩
      have hk1 := hm (k + 1) (by omega)
      rw [execBlockG.eq_def] at hk1; simp only [hstable k hk] at hk1
      exact hk1

theorem block_nil_inv {F ρ w ρ1 sig w1} (h : BlockS F ρ w [] (.ok (ρ1, sig) w1)) : ρ1 = ρ ∧ sig = .normal ∧ w1 = w := by
  obtain ⟨m, hm⟩ := h
  have h0 := hm (m + 1) (by omega)
  rw [execBlockG.eq_def] at h0; simp only at h0
  injection h0 with hp hw
  injection hp with hρ hsig
  exact ⟨hρ.symm, hsig.symm, hw.symm⟩

theorem block_append {F a b r} : ∀ {ρ w ρ1 w1}, BlockS F ρ w a (.ok (ρ1, .normal) w1) →
    BlockS F ρ1 w1 b r → BlockS F ρ w (a ++ b) r := by
  induction a with
  | nil =>
    intro ρ w ρ1 w1 h1 h2
    obtain ⟨h, -, h'⟩ := block_nil_inv h1
    subst h; subst h'; simpa using h2
  | cons s rest ih =>
    intro ρ w ρ1 w1 h1 h2
    obtain ⟨ρ', w', hs, hr⟩ := block_cons_inv h1
    exact block_cons hs (ih hr h2)

/-- inversion for a block that panics: its first statement panics, or ends normally and the rest panics -/
theorem block_cons_inv_panic {F ρ w s rest k w1} (h : BlockS F ρ w (s :: rest) (.fail (.panic k) w1)) :
    StmtS F ρ w s (.fail (.panic k) w1) ∨
      ∃ ρ' w', StmtS F ρ w s (.ok (ρ', .normal) w') ∧ BlockS F ρ' w' rest (.fail (.panic k) w1) := by
  obtain ⟨m, hm⟩ := h
  have h0 := hm (m + 1) (by omega)
  rw [execBlockG.eq_def] at h0; simp only at h0
  cases hs : execG m F ρ w s with
  | fail f w' =>
    rw [hs] at h0; simp only at h0
    injection h0 with hf hw; subst hf; subst hw
    left
    exact ⟨m, fun j hj => by rw [← hs]; exact Goml.Go.execG_mono hj (by rw [hs]; simp)⟩
  | ok p w' =>
    obtain ⟨ρ', sig⟩ := p
    rw [hs] at h0
    cases sig with
    | brk => simp at h0
    | ret v => simp at h0
    | normal =>
      right
      have hstable : ∀ j, m ≤ j → execG j F ρ w s = .ok (ρ', .normal) w' := fun j hj => by
        rw [← hs]; exact Goml.Go.execG_mono hj (by rw [hs]; trivial)
      refine ⟨ρ', w', ⟨m, hstable⟩, ⟨m, fun j hj => ?_⟩⟩
      have hj1 := hm (j + 1) (by omega)
      rw [execBlockG.eq_def] at hj1; simp only [hstable j hj] at hj1
      exact hj1

theorem block_nil_not_fail {F ρ w f w1} (h : BlockS F ρ w [] (.fail f w1)) : False := by
  obtain ⟨m, hm⟩ := h
  have h0 := hm (m + 1) (by omega)
  rw [execBlockG.eq_def] at h0; simp at h0

theorem block_append_panic {F a b k w1} : ∀ {ρ w}, BlockS F ρ w a (.fail (.panic k) w1) →
    BlockS F ρ w (a ++ b) (.fail (.panic k) w1) := by
  induction a with
  | nil => intro ρ w h; exact (block_nil_not_fail h).elim
  | cons s rest ih =>
    intro ρ w h
    rcases block_cons_inv_panic h with hs | ⟨ρ', w', hs, hr⟩
    · exact block_cons_fail hs
    · exact block_cons hs (ih hr)

theorem stmt_varDecl_some {F ρ w x ty e v w'} (hab : absurdTy ty = false) (h : EvS F ρ w e (.ok v w')) :
    StmtS F ρ w (.varDecl x ty (some e)) (.ok ((x, v) :: ρ, .normal) w') := by
  obtain ⟨m, hm⟩ := h
  refine ⟨m + 1, fun k hk => ?_⟩
  obtain ⟨k, rfl, hk'⟩ := succ_of_le hk
  rw [execG.eq_def]; simp [hab, hm k hk']

theorem stmt_varDecl_fail {F ρ w x ty e f w'} (hab : absurdTy ty = false) (h : EvS F ρ w e (.fail f w')) :
    StmtS F ρ w (.varDecl x ty (some e)) (.fail f w') := by
  obtain ⟨m, hm⟩ := h
  refine ⟨m + 1, fun k hk => ?_⟩
  obtain ⟨k, rfl, hk'⟩ := succ_of_le hk
  rw [execG.eq_def]; simp [hab, hm k hk']

theorem stmt_varDecl_none {F ρ w x ty} (hab : absurdTy ty = false) :
    StmtS F ρ w (.varDecl x ty none) (.ok ((x, zero F ty) :: ρ, .normal) w) := by
  refine ⟨1, fun k hk => ?_⟩
  obtain ⟨k, rfl, -⟩ := succ_of_le hk
  rw [execG.eq_def]; simp [hab]

theorem stmt_assign {F ρ w x e v w'} (hx : x ≠ "_") (h : EvS F ρ w e (.ok v w')) :
    StmtS F ρ w (.assign x e) (.ok (updateG ρ x v, .normal) w') := by
  obtain ⟨m, hm⟩ := h
  refine ⟨m + 1, fun k hk => ?_⟩
  obtain ⟨k, rfl, hk'⟩ := succ_of_le hk
  rw [execG.eq_def]; simp [hm k hk', hx]

theorem stmt_assign_fail {F ρ w x e f w'} (h : EvS F ρ w e (.fail f w')) :
    StmtS F ρ w (.assign x e) (.fail f w') := by
  obtain ⟨m, hm⟩ := h
  refine ⟨m + 1, fun k hk => ?_⟩
  obtain ⟨k, rfl, hk'⟩ := succ_of_le hk
  rw [execG.eq_def]; simp [hm k hk']

theorem stmt_expr {F ρ w e v w'} (h : EvS F ρ w e (.ok v w')) :
    StmtS F ρ w (.expr e) (.ok (ρ, .normal) w') := by
  obtain ⟨m, hm⟩ := h
  refine ⟨m + 1, fun k hk => ?_⟩
  obtain ⟨k, rfl, hk'⟩ := succ_of_le hk
  rw [execG.eq_def]; simp [hm k hk']

theorem stmt_expr_fail {F ρ w e f w'} (h : EvS F ρ w e (.fail f w')) :
    StmtS F ρ w (.expr e) (.fail f w') := by
  obtain ⟨m, hm⟩ := h
  refine ⟨m + 1, fun k hk => ?_⟩
  obtain ⟨k, rfl, hk'⟩ := succ_of_le hk
  rw [execG.eq_def]; simp [hm k hk']

theorem stmt_ret {F ρ w e v w'} (h : EvS F ρ w e (.ok v w')) :
    StmtS F ρ w (.ret (some e)) (.ok (ρ, .ret v) w') := by
  obtain ⟨m, hm⟩ := h
  refine ⟨m + 1, fun k hk => ?_⟩
  obtain ⟨k, rfl, hk'⟩ := succ_of_le hk
  rw [execG.eq_def]; simp [hm k hk']

theorem stmt_brk {F ρ w} : StmtS F ρ w .brk (.ok (ρ, .brk) w) := by
  refine ⟨1, fun k hk => ?_⟩
  obtain ⟨k, rfl, -⟩ := succ_of_le hk
  rw [execG.eq_def]

/-- a nested block pops what it declared -/
def popTo (ρ : GEnv) : GRes (GEnv × Sig) → GRes (GEnv × Sig)
  | .fail f w => .fail f w
  | .ok (ρ', sig) w => .ok (ρ'.drop (ρ'.length - ρ.length), sig) w

theorem nest_of_block {F ρ w ss r} (h : BlockS F ρ w ss r) : NestS F ρ w ss (popTo ρ r) := by
  obtain ⟨m, hm⟩ := h
  refine ⟨m + 1, fun k hk => ?_⟩
  obtain ⟨k, rfl, hk'⟩ := succ_of_le hk
  rw [nestedG.eq_def]; simp only [hm k hk']
  cases r with
  | fail f w => rfl
  | ok p w => obtain ⟨ρ', sig⟩ := p; rfl

theorem stmt_ite_true {F ρ w c t e w' r} (hc : EvS F ρ w c (.ok (.bool true) w')) (ht : NestS F ρ w' t r) :
    StmtS F ρ w (.ite c t e) r := by
  obtain ⟨m1, h1⟩ := hc
  obtain ⟨m2, h2⟩ := ht
  refine ⟨max m1 m2 + 1, fun k hk => ?_⟩
  obtain ⟨k, rfl, hk'⟩ := succ_of_le hk
  rw [execG.eq_def]; simp [h1 k (by omega), h2 k (by omega)]

theorem stmt_ite_false {F ρ w c t e w' r} (hc : EvS F ρ w c (.ok (.bool false) w')) (he : NestS F ρ w' e r) :
    StmtS F ρ w (.ite c t (some e)) r := by
  obtain ⟨m1, h1⟩ := hc
  obtain ⟨m2, h2⟩ := he
  refine ⟨max m1 m2 + 1, fun k hk => ?_⟩
  obtain ⟨k, rfl, hk'⟩ := succ_of_le hk
  rw [execG.eq_def]; simp [h1 k (by omega), h2 k (by omega)]

theorem stmt_ite_false_none {F ρ w c t w'} (hc : EvS F ρ w c (.ok (.bool false) w')) :
    StmtS F ρ w (.ite c t none) (.ok (ρ, .normal) w') := by
  obtain ⟨m1, h1⟩ := hc
  refine ⟨m1 + 1, fun k hk => ?_⟩
  obtain ⟨k, rfl, hk'⟩ := succ_of_le hk
  rw [execG.eq_def]; simp [h1 k hk']

theorem stmt_loop_next {F ρ w body ρ1 w1 r} (h1 : NestS F ρ w body (.ok (ρ1, .normal) w1))
    (h2 : StmtS F ρ1 w1 (.loop body) r) : StmtS F ρ w (.loop body) r := by
  obtain ⟨m1, h1⟩ := h1
  obtain ⟨m2, h2⟩ := h2
  refine ⟨max m1 m2 + 1, fun k hk => ?_⟩
  obtain ⟨k, rfl, hk'⟩ := succ_of_le hk
  rw [execG.eq_def]; simp [h1 k (by omega), h2 k (by omega)]

theorem stmt_loop_brk {F ρ w body ρ1 w1} (h1 : NestS F ρ w body (.ok (ρ1, .brk) w1)) :
    StmtS F ρ w (.loop body) (.ok (ρ1, .normal) w1) := by
  obtain ⟨m1, h1⟩ := h1
  refine ⟨m1 + 1, fun k hk => ?_⟩
  obtain ⟨k, rfl, hk'⟩ := succ_of_le hk
  rw [execG.eq_def]; simp [h1 k hk']

theorem stmt_loop_fail {F ρ w body f w1} (h1 : NestS F ρ w body (.fail f w1)) :
    StmtS F ρ w (.loop body) (.fail f w1) := by
  obtain ⟨m1, h1⟩ := h1
  refine ⟨m1 + 1, fun k hk => ?_⟩
  obtain ⟨k, rfl, hk'⟩ := succ_of_le hk
  rw [execG.eq_def]; simp [h1 k hk']

/-! ### `switch` / type switch -/

def SwS (F : GFile) (ρ : GEnv) (w : GWorld) (v : GVal) (cs : List GCase) (d : Option (List GStmt)) (r : GRes (GEnv × Sig)) : Prop :=
  ∃ m, ∀ k, m ≤ k → switchG k F ρ w v cs d = r
def TSwS (F : GFile) (ρ : GEnv) (w : GWorld) (v : GVal) (cs : List GTCase) (d : Option (List GStmt)) (r : GRes (GEnv × Sig)) : Prop :=
  ∃ m, ∀ k, m ≤ k → tswitchG k F ρ w v cs d = r

theorem sw_nil_some {F ρ w v d r} (h : NestS F ρ w d r) : SwS F ρ w v [] (some d) r := by
  obtain ⟨m, hm⟩ := h
  refine ⟨m + 1, fun k hk => ?_⟩
  obtain ⟨k, rfl, hk'⟩ := succ_of_le hk
  rw [switchG.eq_def]; simp only [hm k hk']

theorem sw_nil_none {F ρ w v} : SwS F ρ w v [] none (.ok (ρ, .normal) w) := by
  refine ⟨1, fun k hk => ?_⟩
  obtain ⟨k, rfl, -⟩ := succ_of_le hk
  rw [switchG.eq_def]

theorem sw_cons_hit {F ρ w v ce body rest d cv r} (hc : EvS F ρ w ce (.ok cv w)) (hq : (gvalEq cv v).getD false = true)
    (hb : NestS F ρ w body r) : SwS F ρ w v (.mk ce body :: rest) d r := by
  obtain ⟨m1, h1⟩ := hc
  obtain ⟨m2, h2⟩ := hb
  refine ⟨max m1 m2 + 1, fun k hk => ?_⟩
  obtain ⟨k, rfl, hk'⟩ := succ_of_le hk
  rw [switchG.eq_def]; simp only [h1 k (by omega), hq, h2 k (by omega), if_true]

theorem sw_cons_miss {F ρ w v ce body rest d cv r} (hc : EvS F ρ w ce (.ok cv w)) (hq : (gvalEq cv v).getD false = false)
    (hb : SwS F ρ w v rest d r) : SwS F ρ w v (.mk ce body :: rest) d r := by
  obtain ⟨m1, h1⟩ := hc
  obtain ⟨m2, h2⟩ := hb
  refine ⟨max m1 m2 + 1, fun k hk => ?_⟩
  obtain ⟨k, rfl, hk'⟩ := succ_of_le hk
  rw [switchG.eq_def]; simp only [h1 k (by omega), hq, h2 k (by omega), Bool.false_eq_true, if_false]

theorem stmt_switch {F ρ w e cs d v w' r} (he : EvS F ρ w e (.ok v w')) (hs : SwS F ρ w' v cs d r) :
    StmtS F ρ w (.switch e cs d) r := by
  obtain ⟨m1, h1⟩ := he
  obtain ⟨m2, h2⟩ := hs
  refine ⟨max m1 m2 + 1, fun k hk => ?_⟩
  obtain ⟨k, rfl, hk'⟩ := succ_of_le hk
  rw [execG.eq_def]; simp only [h1 k (by omega), h2 k (by omega)]

/-- does a type-switch clause select the value -/
def tcaseHit (ty : GTy) (v : GVal) : Bool :=
  match ty, v with
  | .name n, .struct m _ => n == m
  | .struct n _, .struct m _ => n == m
  | _, _ => false

theorem tsw_nil_some {F ρ w v d r} (h : NestS F ρ w d r) : TSwS F ρ w v [] (some d) r := by
  obtain ⟨m, hm⟩ := h
  refine ⟨m + 1, fun k hk => ?_⟩
  obtain ⟨k, rfl, hk'⟩ := succ_of_le hk
  rw [tswitchG.eq_def]; simp only [hm k hk']

theorem tsw_nil_none {F ρ w v} : TSwS F ρ w v [] none (.ok (ρ, .normal) w) := by
  refine ⟨1, fun k hk => ?_⟩
  obtain ⟨k, rfl, -⟩ := succ_of_le hk
  rw [tswitchG.eq_def]

theorem tsw_cons_hit {F ρ w v ty body rest d r} (hq : tcaseHit ty v = true)
    (hb : NestS F ρ w body r) : TSwS F ρ w v (.mk ty body :: rest) d r := by
  obtain ⟨m2, h2⟩ := hb
  refine ⟨m2 + 1, fun k hk => ?_⟩
  obtain ⟨k, rfl, hk'⟩ := succ_of_le hk
  rw [tswitchG.eq_def]
  cases ty <;> cases v <;> simp [tcaseHit] at hq <;> simp [hq, h2 k hk']

theorem tsw_cons_miss {F ρ w v ty body rest d r} (hq : tcaseHit ty v = false)
    (hb : TSwS F ρ w v rest d r) : TSwS F ρ w v (.mk ty body :: rest) d r := by
  obtain ⟨m2, h2⟩ := hb
  refine ⟨m2 + 1, fun k hk => ?_⟩
  obtain ⟨k, rfl, hk'⟩ := succ_of_le hk
  rw [tswitchG.eq_def]
  cases ty <;> cases v <;> simp [tcaseHit] at hq <;> simp [hq, h2 k hk']

/-- a type switch `switch b := e.(type)`: the clauses run with `b` bound, the binding is popped -/
theorem stmt_tswitch {F ρ w b e cs d v w' r} (hb : b ≠ "_") (he : EvS F ρ w e (.ok v w'))
    (hs : TSwS F ((b, v) :: ρ) w' v cs d r) : StmtS F ρ w (.tswitch (some b) e cs d) (popTo ρ r) := by
  obtain ⟨m1, h1⟩ := he
  obtain ⟨m2, h2⟩ := hs
  refine ⟨max m1 m2 + 1, fun k hk => ?_⟩
  obtain ⟨k, rfl, hk'⟩ := succ_of_le hk
  have hb' : (b == "_") = false := by simpa using hb
  rw [execG.eq_def]; simp only [h1 k (by omega), hb', Bool.false_eq_true, if_false, h2 k (by omega)]
  cases r with
  | fail f w => rfl
  | ok p w => obtain ⟨ρ', sig⟩ := p; rfl

/-- a stable result is what any sufficiently large fuel gives: two stable results coincide -/
theorem BlockS.unique {F ρ w ss r1 r2} (h1 : BlockS F ρ w ss r1) (h2 : BlockS F ρ w ss r2) : r1 = r2 := by
  obtain ⟨m1, h1⟩ := h1
  obtain ⟨m2, h2⟩ := h2
  rw [← h1 (max m1 m2) (by omega), ← h2 (max m1 m2) (by omega)]

theorem CallS.exists {F w f args r} (h : CallS F w f args r) : ∃ m, callG m F w f args = r :=
  let ⟨m, hm⟩ := h; ⟨m, hm m (Nat.le_refl m)⟩

end Goml.GoComp
