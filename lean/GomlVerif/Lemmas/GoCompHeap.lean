import GomlVerif.Lemmas.GoCompStruct
/-!
`Ref`: the `Sem` store against the Go heap.  `ref(v)` allocates a cell on both sides (`WRel.alloc`: the
heap context grows by one), `ref_get` / `ref_set` read and write related cells (`WRel.get`, `WRel.set`);
the three runtime helpers `ref__T`, `ref_get__T`, `ref_set__T` of `go/runtime.rs` under `Go.Sem`.
-/
set_option linter.unusedSimpArgs false
set_option linter.unusedVariables false
namespace Goml.GoComp
open Goml Goml.Go Goml.GoCompile Goml.GoFrag
open Goml.Sem (Val World Res Fail)
open Goml.Dce (keys lookup_cons_self lookup_cons_ne)

/-! ### `Go.Sem` rules for pointers -/

theorem ev_addr {F ρ w ty e v w1} (h : EvS F ρ w e (.ok v w1)) :
    EvS F ρ w (.un .addr ty e) (.ok (.ptr w1.heap.size) { w1 with heap := w1.heap.push v }) := by
  obtain ⟨m, hm⟩ := h
  refine ⟨m + 1, fun k hk => ?_⟩
  obtain ⟨k, rfl, hk'⟩ := succ_of_le hk
  rw [evalG.eq_def]; simp only [hm k hk']

theorem ev_field_ptr {F ρ w f ty obj l n fs v w'} (h : EvS F ρ w obj (.ok (.ptr l) w'))
    (hc : w'.heap[l]? = some (.struct n fs)) (hl : lookupG fs f = some v) : EvS F ρ w (.field f ty obj) (.ok v w') := by
  obtain ⟨m, hm⟩ := h
  refine ⟨m + 1, fun k hk => ?_⟩
  obtain ⟨k, rfl, hk'⟩ := succ_of_le hk
  rw [evalG.eq_def]; simp only [hm k hk', hc, hl]

theorem stmt_fieldAssign_ptr {F ρ w f ty obj e l n fs v w1 w2} (ho : EvS F ρ w obj (.ok (.ptr l) w1))
    (he : EvS F ρ w1 e (.ok v w2)) (hc : w2.heap[l]? = some (.struct n fs)) :
    StmtS F ρ w (.fieldAssign (.field f ty obj) e)
      (.ok (ρ, .normal) { w2 with heap := w2.heap.set! l (.struct n (setField fs f v)) }) := by
  obtain ⟨m1, h1⟩ := ho
  obtain ⟨m2, h2⟩ := he
  refine ⟨max m1 m2 + 1, fun k hk => ?_⟩
  obtain ⟨k, rfl, hk'⟩ := succ_of_le hk
  rw [execG.eq_def]; simp only [h1 k (by omega), h2 k (by omega), hc]

/-! ### the store against the heap -/

theorem prefix_append_single {α : Type} (l : List α) (a : α) : l <+: l ++ [a] := ⟨[a], rfl⟩

/-- a new cell on both sides -/
theorem WRel.alloc {env : Env} {η : Hp} {w : World} {gw : GWorld} (hw : WRel env η w gw) {v : Val} {gv : GVal} {e : Ty}
    (hv : HasTy env η v e) (hg : VRel env η v e gv) :
    η.le ⟨η.tys ++ [e], η.locs ++ [gw.heap.size], η.fns, η.imm, η.dyns⟩ ∧
    WRel env ⟨η.tys ++ [e], η.locs ++ [gw.heap.size], η.fns, η.imm, η.dyns⟩ { w with store := w.store.push v }
      { gw with heap := gw.heap.push (refCell e gv) } ∧
    VRel env ⟨η.tys ++ [e], η.locs ++ [gw.heap.size], η.fns, η.imm, η.dyns⟩ (.ref w.store.size) (.ref e) (.ptr gw.heap.size) ∧
    HasTy env ⟨η.tys ++ [e], η.locs ++ [gw.heap.size], η.fns, η.imm, η.dyns⟩ (.ref w.store.size) (.ref e) := by
  have hle : η.le ⟨η.tys ++ [e], η.locs ++ [gw.heap.size], η.fns, η.imm, η.dyns⟩ :=
    ⟨prefix_append_single _ _, prefix_append_single _ _, rfl, fun _ h => h, rfl⟩
  have hT : (η.tys ++ [e])[w.store.size]? = some e := by
    rw [← hw.lenT]; simp
  have hL : (η.locs ++ [gw.heap.size])[w.store.size]? = some gw.heap.size := by
    rw [← hw.lenL]; simp
  refine ⟨hle, ⟨hw.out, hw.externs, by simp [hw.lenT], by simp [hw.lenL], ?_, ?_, ?_, ?_, hw.cap, hw.eager⟩, by simp [VRel, hL], by simp [HasTy, hT]⟩
  · rw [List.nodup_append]
    refine ⟨hw.inj, by simp, fun a ha b hb => ?_⟩
    simp only [List.mem_singleton] at hb; subst hb
    exact fun e' => by have := hw.bound a ha; omega
  · intro gl hgl
    simp only [List.mem_append, List.mem_singleton] at hgl
    simp only [Array.size_push]
    rcases hgl with hgl | rfl
    · have := hw.bound gl hgl; omega
    · omega
  · intro l v' hl
    simp only [Array.getElem?_push] at hl
    by_cases hls : l = w.store.size
    · subst hls
      simp only [if_true, Option.some.injEq] at hl; subst hl
      refine ⟨e, gw.heap.size, gv, hT, hL, HasTy_mono hle _ _ hv, VRel_mono hle _ _ _ hg, ?_⟩
      simp
    · simp only [hls, if_false] at hl
      obtain ⟨e', gl, gv', h1, h2, h3, h4, h5⟩ := hw.cells l v' hl
      refine ⟨e', gl, gv', prefix_get hle.1 h1, prefix_get hle.2.1 h2, HasTy_mono hle _ _ h3, VRel_mono hle _ _ _ h4, ?_⟩
      have hb : gl < gw.heap.size := hw.bound gl (List.mem_of_getElem? h2)
      simp only [Array.getElem?_push]
      rw [if_neg (by omega)]; exact h5
  · intro loc c hm
    obtain ⟨h1, h2⟩ := hw.imm loc c hm
    have hlt : loc < gw.heap.size := by
      rcases Nat.lt_or_ge loc gw.heap.size with h | h
      · exact h
      · rw [Array.getElem?_eq_none h] at h1; cases h1
    refine ⟨by simp only [Array.getElem?_push]; rw [if_neg (by omega)]; exact h1, fun hmem => ?_⟩
    simp only [List.mem_append, List.mem_singleton] at hmem
    rcases hmem with hmem | hmem
    · exact h2 hmem
    · omega

/-- a new immutable cell on the Go side only (the backing array of a slice) -/
theorem WRel.allocImm {env : Env} {η : Hp} {w : World} {gw : GWorld} (hw : WRel env η w gw) (c : GVal) :
    η.le ⟨η.tys, η.locs, η.fns, η.imm ++ [(gw.heap.size, c)], η.dyns⟩ ∧
    WRel env ⟨η.tys, η.locs, η.fns, η.imm ++ [(gw.heap.size, c)], η.dyns⟩ w { gw with heap := gw.heap.push c } := by
  have hle : η.le ⟨η.tys, η.locs, η.fns, η.imm ++ [(gw.heap.size, c)], η.dyns⟩ :=
    ⟨List.prefix_refl _, List.prefix_refl _, rfl, fun _ h => List.mem_append_left _ h, rfl⟩
  refine ⟨hle, ⟨hw.out, hw.externs, hw.lenT, hw.lenL, hw.inj, ?_, ?_, ?_, hw.cap, hw.eager⟩⟩
  · intro gl hgl
    simp only [Array.size_push]
    have := hw.bound gl hgl; omega
  · intro l v' hl
    obtain ⟨e', gl, gv', h1, h2, h3, h4, h5⟩ := hw.cells l v' hl
    refine ⟨e', gl, gv', h1, h2, HasTy_mono hle _ _ h3, VRel_mono hle _ _ _ h4, ?_⟩
    have hb : gl < gw.heap.size := hw.bound gl (List.mem_of_getElem? h2)
    simp only [Array.getElem?_push]
    rw [if_neg (by omega)]; exact h5
  · intro loc c' hm
    simp only [List.mem_append, List.mem_singleton, Prod.mk.injEq] at hm
    rcases hm with hm | ⟨rfl, rfl⟩
    · obtain ⟨h1, h2⟩ := hw.imm loc c' hm
      have hlt : loc < gw.heap.size := by
        rcases Nat.lt_or_ge loc gw.heap.size with h | h
        · exact h
        · rw [Array.getElem?_eq_none h] at h1; cases h1
      exact ⟨by simp only [Array.getElem?_push]; rw [if_neg (by omega)]; exact h1, h2⟩
    · refine ⟨by simp, fun hmem => ?_⟩
      have := hw.bound _ hmem; omega

/-- reading a cell -/
theorem WRel.get {env : Env} {η : Hp} {w : World} {gw : GWorld} (hw : WRel env η w gw) {l : Nat} {e : Ty}
    (hl : HasTy env η (.ref l) (.ref e)) :
    ∃ v gl gv, w.store[l]? = some v ∧ η.locs[l]? = some gl ∧ HasTy env η v e ∧ VRel env η v e gv ∧
      gw.heap[gl]? = some (refCell e gv) := by
  simp only [HasTy] at hl
  have hlt : l < w.store.size := by
    rw [← hw.lenT]
    rcases Nat.lt_or_ge l η.tys.length with h | h
    · exact h
    · rw [List.getElem?_eq_none h] at hl; cases hl
  have hsome : w.store[l]? = some w.store[l] := Array.getElem?_eq_getElem hlt
  obtain ⟨e', gl, gv, h1, h2, h3, h4, h5⟩ := hw.cells l _ hsome
  rw [hl] at h1; injection h1 with h1; subst h1
  exact ⟨_, gl, gv, hsome, h2, h3, h4, h5⟩

/-- writing a cell -/
theorem WRel.set {env : Env} {η : Hp} {w : World} {gw : GWorld} (hw : WRel env η w gw) {l : Nat} {e : Ty}
    (hl : HasTy env η (.ref l) (.ref e)) {v : Val} {gv : GVal} (hv : HasTy env η v e) (hg : VRel env η v e gv) :
    ∃ gl, η.locs[l]? = some gl ∧ l < w.store.size ∧ (∃ old, gw.heap[gl]? = some (refCell e old)) ∧
      WRel env η { w with store := w.store.set! l v } { gw with heap := gw.heap.set! gl (refCell e gv) } := by
  obtain ⟨v0, gl, gv0, hs0, hloc, _, _, hc0⟩ := hw.get hl
  have hlt : l < w.store.size := by
    rcases Nat.lt_or_ge l w.store.size with h | h
    · exact h
    · rw [Array.getElem?_eq_none h] at hs0; cases hs0
  have hT : η.tys[l]? = some e := by simpa [HasTy] using hl
  have hglb : gl < gw.heap.size := hw.bound gl (List.mem_of_getElem? hloc)
  refine ⟨gl, hloc, hlt, ⟨gv0, hc0⟩, ⟨hw.out, hw.externs, by simp [hw.lenT], by simp [hw.lenL], hw.inj, ?_, ?_, ?_, hw.cap, hw.eager⟩⟩
  · intro g hgm; simp only [Array.set!_eq_setIfInBounds, Array.size_setIfInBounds]; exact hw.bound g hgm
  · intro l' v' hl'
    simp only [Array.set!_eq_setIfInBounds, Array.getElem?_setIfInBounds] at hl'
    by_cases hll : l = l'
    · subst hll
      simp only [if_true, hlt, Option.some.injEq] at hl'; subst hl'
      refine ⟨e, gl, gv, hT, hloc, hv, hg, ?_⟩
      simp [Array.getElem?_setIfInBounds, hglb]
    · simp only [hll, if_false] at hl'
      obtain ⟨e', gl', gv', h1, h2, h3, h4, h5⟩ := hw.cells l' v' hl'
      refine ⟨e', gl', gv', h1, h2, h3, h4, ?_⟩
      have hne : gl ≠ gl' := by
        intro heq; subst heq
        have hlen : l < η.locs.length := by rw [hw.lenL]; exact hlt
        exact hll ((List.getElem?_inj hlen hw.inj).mp (by rw [hloc, h2]))
      simp only [Array.set!_eq_setIfInBounds, Array.getElem?_setIfInBounds, hne, if_false]
      exact h5
  · intro loc c hm
    obtain ⟨h1, h2⟩ := hw.imm loc c hm
    have hne : gl ≠ loc := fun heq => h2 (heq ▸ List.mem_of_getElem? hloc)
    refine ⟨?_, h2⟩
    simp only [Array.set!_eq_setIfInBounds, Array.getElem?_setIfInBounds, hne, if_false]
    exact h1

/-! ### the three helpers of `make_ref_runtime` -/

/-- what the file must contain for references of element type `e` -/
structure RefLink (F : GFile) (e : Ty) : Prop where
  new : F.findFunc (helperFnName "ref" (.ref e)) = some (refFn (.ref e) e)
  get : F.findFunc (helperFnName "ref_get" (.ref e)) = some (refGetFn (.ref e) e)
  set : F.findFunc (helperFnName "ref_set" (.ref e)) = some (refSetFn (.ref e) e)
  table : ∃ decl, F.structFields (refStructName e) = some decl ∧ decl.map (·.1) = ["value"]

theorem slit_refCell {F : GFile} {e : Ty} (hl : RefLink F e) (gv : GVal) :
    slitValue F (refStructName e) [("value", gv)] = refCell e gv := by
  obtain ⟨decl, hd, hn⟩ := hl.table
  simp only [slitValue, hd, refCell]
  congr 1
  have := slit_fields F decl ["value"] [gv] [("value", gv)] hn rfl (fun i x g hx hg => by
    cases i with
    | zero => simp at hx hg; subst hx; subst hg; exact lookup_cons_self _ _ _
    | succ i => simp at hx)
  simpa using this

theorem ref_new_call {F : GFile} {e : Ty} (hl : RefLink F e) (gw : GWorld) (gv : GVal) :
    CallS F gw (.func (helperFnName "ref" (.ref e))) [gv]
      (.ok (.ptr gw.heap.size) { gw with heap := gw.heap.push (refCell e gv) }) := by
  have hx : EvS F [("value", gv)] gw (sV "value" (goTy e)) (.ok gv gw) := ev_var_some (lookup_cons_self _ _ _)
  have hs := ev_slit_name (name := refStructName e) (evf_cons (n := "value") hx evf_nil)
  rw [slit_refCell hl] at hs
  have ha := ev_addr (ty := .ptr (.name (refStructName e))) hs
  exact call_func_env hl.new rfl (block_cons_sig (rest := []) (by simp) (stmt_ret ha)) rfl

theorem ref_get_call {F : GFile} {e : Ty} (hl : RefLink F e) (gw : GWorld) (gl : Nat) (gv : GVal)
    (hc : gw.heap[gl]? = some (refCell e gv)) :
    CallS F gw (.func (helperFnName "ref_get" (.ref e))) [.ptr gl] (.ok gv gw) := by
  have hx : EvS F [("reference", GVal.ptr gl)] gw (sV "reference" (.ptr (.name (refStructName e)))) (.ok (.ptr gl) gw) :=
    ev_var_some (lookup_cons_self _ _ _)
  have hf := ev_field_ptr (f := "value") (ty := goTy e) hx hc (lookup_cons_self _ _ _)
  exact call_func_env hl.get rfl (block_cons_sig (rest := []) (by simp) (stmt_ret hf)) rfl

theorem ref_set_call {F : GFile} {e : Ty} (hl : RefLink F e) (gw : GWorld) (gl : Nat) (old gv : GVal)
    (hc : gw.heap[gl]? = some (refCell e old)) :
    CallS F gw (.func (helperFnName "ref_set" (.ref e))) [.ptr gl, gv]
      (.ok .unit { gw with heap := gw.heap.set! gl (refCell e gv) }) := by
  have hne : ("value" : String) ≠ "reference" := by decide
  have hx : EvS F [("reference", GVal.ptr gl), ("value", gv)] gw (sV "reference" (.ptr (.name (refStructName e)))) (.ok (.ptr gl) gw) :=
    ev_var_some (lookup_cons_self _ _ _)
  have hv : EvS F [("reference", GVal.ptr gl), ("value", gv)] gw (sV "value" (goTy e)) (.ok gv gw) :=
    ev_var_some (by rw [lookup_cons_ne _ _ (fun h => hne h.symm)]; exact lookup_cons_self _ _ _)
  have hs := stmt_fieldAssign_ptr (f := "value") (ty := goTy e) hx hv hc
  have hsf : setField [("value", old)] "value" gv = [("value", gv)] := by simp [setField]
  simp only [refCell] at hc hs ⊢
  rw [hsf] at hs
  exact call_func_env hl.set rfl (block_cons hs (block_cons_sig (rest := []) (by simp) (stmt_ret ev_unitv))) rfl

end Goml.GoComp
