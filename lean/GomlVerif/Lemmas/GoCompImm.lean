import GomlVerif.Lemmas.GoCompVal
/-! immediates (`ImmExpr`) evaluate to related, typed values on both sides, without effects -/
set_option linter.unusedSimpArgs false
set_option linter.unusedVariables false
namespace Goml.GoComp
open Goml Goml.Go Goml.GoCompile Goml.GoFrag
open Goml.Sem (Val World Res Fail)
open Goml.C01 (toG)
open Goml.Dce (keys)

attribute [local irreducible] Goml.GoCompile.vn Goml.GoCompile.gid Goml.GoCompile.rn

theorem toString_toInt (v : Int) : (toString v).toInt? = some v := Int.toInt?_repr v

theorem goTy_int (b : Nat) (s : Bool) : goTy (.int b s) = .int b s := by simp [goTy]

/-- the function table of the heap context is the one of the fragment (`fnSigs`), and no Go variable in sight is
    spelled like one of its functions (a function used as a value is not captured by a local) -/
structure FnRel (file : AFile) (G : List String) (η : Hp) (gρ : GEnv) : Prop where
  eq : η.fns = fnSigs file G
  free : ∀ e, e ∈ η.fns → lookupG gρ (vn e.1) = none

/-- an immediate of the fragment: its value at any positive fuel on the `Sem` side, its stable value
    on the Go side, related and of the annotated type -/
theorem imm_both {env : Env} {η : Hp} {file : AFile} {G : List String} (P : Prog) {F : GFile} (ht : TyLink env F) {Γ : Ctx}
    {ρ : Sem.Env} {gρ : GEnv} {i : Imm}
    (hi : immOK env file G Γ i = true) (hr : EnvRel env η Γ ρ gρ) (hfr : FnRel file G η gρ) :
    ∃ v gv, (∀ n w, Sem.eval (n + 1) P ρ w i.toExpr = .ok v w) ∧
      (∀ gw, EvS F gρ gw (compileImm env i) (.ok gv gw)) ∧ VRel env η v i.ty gv ∧ HasTy env η v i.ty := by
  cases i with
  | var x ty =>
    simp only [immOK] at hi
    cases hl : lookupTy Γ x with
    | none =>
      -- a top-level function used as a value
      rw [hl] at hi; simp only at hi
      cases ty <;> simp only [fnValOK] at hi <;> try (cases hi; done)
      rename_i ps r
      simp only [Bool.and_eq_true] at hi
      obtain ⟨_, hfind⟩ := hi
      cases hf : (fnSigs file G).find? (·.1 == x) with
      | none => rw [hf] at hfind; cases hfind
      | some e =>
        rw [hf] at hfind; simp only [Bool.and_eq_true] at hfind
        obtain ⟨n, ps', r'⟩ := e
        have hn : n = x := by have := List.find?_some hf; simpa using this
        subst hn
        have hps := scalarEqs_eq hfind.1; have hr' := scalarEq_eq hfind.2
        simp only at hps hr'; subst hps; subst hr'
        have hmem : (n, ps', r') ∈ η.fns := by rw [hfr.eq]; exact List.mem_of_find?_eq_some hf
        have hsrc : Sem.lookupEnv ρ n = none := hr.2 n hl
        refine ⟨.fn n, .func (vn n), fun k w => ?_, fun gw => ev_var_none (hfr.free _ hmem), by simp [VRel], ?_⟩
        · simp only [Imm.toExpr]; rw [Sem.eval]; simp only [hsrc]
        · simp only [HasTy, Imm.ty, hfr.eq]; exact hf
    | some t =>
      rw [hl] at hi; simp only at hi
      have ht := scalarEq_eq hi; subst ht
      obtain ⟨v, gv, h1, h2, h3, h4⟩ := hr.1 x t hl
      refine ⟨v, gv, fun n w => ?_, fun gw => ev_var_some h2, h3, h4⟩
      simp only [Imm.toExpr]; rw [Sem.eval]; simp only [h1]
  | prim p ty =>
    simp only [immOK] at hi
    cases p with
    | unit =>
      cases ty <;> simp [okPrim] at hi
      exact ⟨.unit, .unit, fun n w => by simp only [Imm.toExpr]; rw [Sem.eval]; rfl,
        fun gw => by simp only [compileImm, lit]; exact ev_unitv, by simp [VRel], trivial⟩
    | bool b =>
      cases ty <;> simp [okPrim] at hi
      exact ⟨.bool b, .bool b, fun n w => by simp only [Imm.toExpr]; rw [Sem.eval]; rfl,
        fun gw => by simp only [compileImm, lit]; exact ev_bool, by simp [VRel], trivial⟩
    | str s =>
      cases ty <;> simp [okPrim] at hi
      exact ⟨.str s, .str s, fun n w => by simp only [Imm.toExpr]; rw [Sem.eval]; rfl,
        fun gw => by simp only [compileImm, lit]; exact ev_str, by simp [VRel], trivial⟩
    | int b s v =>
      cases ty <;> simp [okPrim] at hi
      obtain ⟨⟨hb, hs⟩, hw⟩ := hi
      subst hb; subst hs
      refine ⟨.int b s v, .int b s v, fun n w => by simp only [Imm.toExpr]; rw [Sem.eval]; rfl, fun gw => ?_, by simp [VRel], ⟨rfl, rfl, hw⟩⟩
      simp only [compileImm, lit, goTy_int]
      have := ev_int (F := F) (ρ := gρ) (w := gw) (b := b) (s := s) (toString_toInt v)
      rw [hw] at this; exact this
    | float b r => cases ty <;> simp [okPrim] at hi
  | tag idx ty =>
    simp only [immOK] at hi
    cases hv : variantOf env ty idx with
    | none => rw [hv] at hi; simp at hi
    | some v =>
      obtain ⟨n, vname, tys⟩ := v
      rw [hv] at hi; simp only [List.isEmpty_iff] at hi; subst hi
      obtain ⟨rfl, hn, d, hd, hvar⟩ := variantOf_spec hv
      refine ⟨.enumV n idx [], .struct (variantGoName env n vname) [], fun k w => ?_, fun gw => ?_, ?_, ?_⟩
      · simp only [Imm.toExpr]; rw [Sem.eval]; rfl
      · have hvt : variantTy env (.enum n) idx = .name (variantGoName env n vname) := by
          simp [variantTy, lookupVariantName, Goml.Mono.constrName, hd, hvar, variantGoName]
        simp only [compileImm, hvt]
        have := ev_slit_name (F := F) (ρ := gρ) (w := gw) (name := variantGoName env n vname) evf_nil
        have hs := slit_variant ht hn hd hvar (gvs := []) rfl
        simp only [List.length_nil, fieldNames, List.zip_nil_left] at hs
        rw [hs] at this; exact this
      · simp [VRel, hd, hvar, Imm.ty]
        exact ⟨[], by simp [VRels], by simp [fieldNames]⟩
      · simp only [HasTy, hd, hvar, Imm.ty]
        exact ⟨trivial, hn, trivial⟩

/-- at any fuel the `Sem` side is out of fuel or gives that value -/
theorem sem_imm_any {P : Prog} {ρ : Sem.Env} {w : World} {e : Expr} {v : Val}
    (h : ∀ n w, Sem.eval (n + 1) P ρ w e = .ok v w) (n : Nat) :
    Sem.eval n P ρ w e = .fail .fuel w ∨ Sem.eval n P ρ w e = .ok v w := by
  cases n with
  | zero => left; rw [Sem.eval]
  | succ n => right; exact h n w

/-- argument lists: related and typed position by position -/
def ArgsRel (env : Env) (η : Hp) : List Val → List GVal → List Ty → Prop
  | [], [], [] => True
  | v :: vs, g :: gs, t :: ts => VRel env η v t g ∧ HasTy env η v t ∧ ArgsRel env η vs gs ts
  | _, _, _ => False

theorem imms_both {env : Env} {η : Hp} {file : AFile} {G : List String} (P : Prog) {F : GFile} (ht : TyLink env F) {Γ : Ctx}
    {ρ : Sem.Env} {gρ : GEnv} (hr : EnvRel env η Γ ρ gρ) (hfr : FnRel file G η gρ) : ∀ {args : List Imm} {tys : List Ty}, argsOK env file G Γ args tys = true →
    ∃ vs gvs, ArgsRel env η vs gvs tys ∧ (∀ gw, EvLS F gρ gw (compileImms env args) (.ok gvs gw)) ∧
      (∀ n w, Sem.evalList n P ρ w (args.map Imm.toExpr) = .fail .fuel w ∨
              Sem.evalList n P ρ w (args.map Imm.toExpr) = .ok vs w) := by
  intro args
  induction args with
  | nil =>
    intro tys h
    cases tys with
    | nil =>
      refine ⟨[], [], trivial, fun gw => evl_nil, fun n w => ?_⟩
      cases n with
      | zero => left; rw [Sem.evalList.eq_def]
      | succ n => right; simp only [List.map_nil]; rw [Sem.evalList.eq_def]
    | cons t ts => simp [argsOK] at h
  | cons a as ih =>
    intro tys h
    cases tys with
    | nil => simp [argsOK] at h
    | cons t ts =>
      simp only [argsOK, Bool.and_eq_true] at h
      obtain ⟨⟨ha, hta⟩, has⟩ := h
      obtain ⟨v, gv, hs, hg, hrel, hty⟩ := imm_both P ht ha hr hfr
      obtain ⟨vs, gvs, hrs, hgs, hss⟩ := ih has
      have ht := scalarEq_eq hta
      refine ⟨v :: vs, gv :: gvs, ⟨ht ▸ hrel, ht ▸ hty, hrs⟩, fun gw => ?_, fun n w => ?_⟩
      · simp only [compileImms, List.map_cons]; exact evl_cons (hg gw) (hgs gw)
      · cases n with
        | zero => left; rw [Sem.evalList.eq_def]
        | succ n =>
          simp only [List.map_cons]
          rw [Sem.evalList.eq_def]; simp only
          rcases sem_imm_any hs (w := w) n with h1 | h1
          · left; rw [h1]
          · rw [h1]; simp only
            rcases hss n w with h2 | h2
            · left; rw [h2]
            · right; rw [h2]

theorem ArgsRel.length {env : Env} {η : Hp} {vs gvs tys} (h : ArgsRel env η vs gvs tys) : vs.length = tys.length ∧ gvs.length = tys.length := by
  induction vs generalizing gvs tys with
  | nil => cases gvs <;> cases tys <;> simp [ArgsRel] at h ⊢
  | cons v vs ih =>
    cases gvs <;> cases tys <;> simp [ArgsRel] at h ⊢
    obtain ⟨_, _, h⟩ := h
    exact ih h

end Goml.GoComp
