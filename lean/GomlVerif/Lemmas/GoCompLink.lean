import GomlVerif.Lemmas.GoCompStepU
import GomlVerif.Lemmas.MonoTy
/-!
The whole induction (`sim_all`) and the bridge from the decidable check `closedOK` to the facts the
induction uses about the two programs (`Link`): where `findFn` / `findFunc` find the functions.
-/
set_option linter.unusedSimpArgs false
set_option linter.unusedVariables false
namespace Goml.GoComp
open Goml Goml.Go Goml.GoCompile Goml.GoFrag
open Goml.Sem (Val World Res Fail)
open Goml.C01 (toG)

theorem sim_all {env : Env} {file : AFile} {G : List String} {P : Prog} {F : GFile} (hl : Link env file G P F) :
    ∀ n, SimAt env file G P F n
  | 0 => sim0
  | n + 1 =>
    have ih := sim_all hl n
    have u := stepU hl ih.a
    have b := stepB hl n
    have v := stepV hl ih.u ih.b
    have l := stepL ih.a ih.l
    have g := stepG hl ih.u
    have c := stepC hl v ih.a l ih.me ih.mv ih.mu g
    have a := stepA c ih.v ih.c ih.a ih.g
    ⟨u, b, v, a, c, l, stepME hl ih.a ih.me, stepMV hl ih.a ih.mv, stepMU ih.a, g⟩

/-- the `Sem` program of an ANF file -/
def progOf (file : AFile) : Prog := { fns := file.map AFn.toFn }

theorem find?_of_nodup {α : Type} (key : α → String) : ∀ (l : List α), (l.map key).Nodup → ∀ x, x ∈ l →
    l.find? (fun y => key y == key x) = some x
  | [], _, x, hx => by cases hx
  | a :: l, hnd, x, hx => by
    simp only [List.map_cons, List.nodup_cons] at hnd
    rw [List.find?_cons]
    by_cases h : key a = key x
    · rcases List.mem_cons.mp hx with rfl | hx'
      · simp
      · exact absurd (h ▸ List.mem_map_of_mem (f := key) hx') hnd.1
    · have : (key a == key x) = false := by simp [h]
      rw [this]
      rcases List.mem_cons.mp hx with rfl | hx'
      · exact absurd rfl h
      · exact find?_of_nodup key l hnd.2 x hx'

theorem findFn_progOf {file : AFile} {P : Prog} (hP : P.fns = file.map AFn.toFn) (hnd : (file.map (·.name)).Nodup)
    {g : AFn} (hg : g ∈ file) : P.findFn g.name = some g.toFn := by
  have h := find?_of_nodup (fun f : Fn => f.name) (file.map AFn.toFn) (by simpa [List.map_map, Function.comp_def, AFn.toFn] using hnd)
    g.toFn (List.mem_map_of_mem hg)
  simpa [Prog.findFn, hP, AFn.toFn] using h

theorem findFn_none {file : AFile} {P : Prog} (hP : P.fns = file.map AFn.toFn) {b : String}
    (h : ∀ f, f ∈ file → f.name ≠ b) : P.findFn b = none := by
  simp only [Prog.findFn, hP, List.find?_eq_none, List.mem_map]
  rintro f ⟨g, hg, rfl⟩
  simpa [AFn.toFn] using h g hg

theorem funcs_append (a b : List GItem) : (GFile.mk (a ++ b)).funcs = (GFile.mk a).funcs ++ (GFile.mk b).funcs := by
  simp [GFile.funcs, List.filterMap_append]

theorem funcs_map_func (fs : List GFunc) : (GFile.mk (fs.map GItem.func)).funcs = fs := by
  induction fs with
  | nil => rfl
  | cons f fs ih => simp [GFile.funcs] at ih ⊢; exact ih

theorem funcs_addImports (extra : List (String × String)) : ∀ items : List GItem,
    (GFile.mk (addImports extra items)).funcs = (GFile.mk items).funcs
  | [] => rfl
  | it :: rest => by
    cases it <;> simp [addImports, GFile.funcs, List.filterMap_cons]
    all_goals exact funcs_addImports extra rest

/-- the helper functions between the runtime and the compiled functions -/
def midFuncs (env : Env) (file : AFile) : List GFunc :=
  (GFile.mk (arrayRuntime (collectRuntimeTypes env file).arrays)).funcs ++
  ((GFile.mk (refRuntime (collectRuntimeTypes env file).refs)).funcs ++
  ((GFile.mk (tupleStructs (collectRuntimeTypes env file).tuples)).funcs ++
  ((GFile.mk (genTypeDefinition env)).funcs ++
  ((GFile.mk (genDynTypeDefinitions env (collectDynRequirements env file))).funcs ++
   (GFile.mk (genDynHelperFns env (collectDynRequirements env file))).funcs))))

/-- the functions of the emitted file: the runtime first, the compiled functions near the end -/
theorem funcs_goFilePre (env : Env) (file : AFile) (n : Nat) :
    (goFilePreSt env file n).1.funcs =
      runtimeFile.funcs ++ (midFuncs env file ++ ((compileFns env { n := n, ok := true } file).1 ++ [mainFn])) := by
  simp only [goFilePreSt]
  split
  · simp only [funcs_append, funcs_map_func, runtimeFile, midFuncs, List.append_assoc]
    rfl
  · split
    · simp only [funcs_append, funcs_map_func, runtimeFile, midFuncs, List.append_assoc]
      rfl
    · simp only [funcs_append, funcs_map_func, funcs_addImports, runtimeFile, midFuncs, List.append_assoc]
      rfl

theorem checkFns_spec {env : Env} {file : AFile} {G : List String} : ∀ (l : List AFn) (st : St),
    checkFns env file G st l = true → ∀ g, g ∈ l → g.name ∈ G →
    ∃ st', (compileFn env st' g).1 ∈ (compileFns env st l).1 ∧ localOK env file G st' g = true
  | [], _, _, g, hg, _ => by cases hg
  | f :: rest, st, h, g, hg, hG => by
    simp only [checkFns, Bool.and_eq_true] at h
    obtain ⟨h1, h2⟩ := h
    rcases List.mem_cons.mp hg with rfl | hg'
    · refine ⟨st, by simp [compileFns], ?_⟩
      have : G.contains g.name = true := by simpa using hG
      rw [this] at h1; simp only [if_true, memberOK, Bool.and_eq_true] at h1; exact h1.1
    · obtain ⟨st', hm, hl⟩ := checkFns_spec rest _ h2 g hg' hG
      exact ⟨st', by simp only [compileFns]; exact List.mem_cons_of_mem _ hm, hl⟩

theorem compileFn_name (env : Env) (st : St) (g : AFn) : (compileFn env st g).1.name = fnName g.name := rfl

mutual
theorem valTyS_noParam {S E : List String} : ∀ {t : Ty}, valTyS S E t = true → tyContainsTypeParam t = false
  | .ref e, h => by simp only [valTyS] at h; simp only [tyContainsTypeParam]; exact valTyS_noParam h
  | .tuple ts, h => by simp only [valTyS] at h; simp only [tyContainsTypeParam]; exact valTysS_noParam h
  | .array len e, h => by
    simp only [valTyS, Bool.and_eq_true] at h; simp only [tyContainsTypeParam]; exact valTyS_noParam h.2
  | .unit, _ | .bool, _ | .string, _ | .int _ _, _ | .struct _, _ | .enum _, _ => by simp [tyContainsTypeParam]
  | .func ps r, h => by
    simp only [valTyS, Bool.and_eq_true] at h
    simp only [tyContainsTypeParam, Bool.or_eq_false_iff]
    exact ⟨valTysS_noParam h.1, valTyS_noParam h.2⟩
  | .vec _, _ | .dyn _, _ => by simp [tyContainsTypeParam]
  | .float _, h | .app _ _, h | .param _, h
  | .tvar _, h => by simp [valTyS, scalarTy] at h
theorem valTysS_noParam {S E : List String} : ∀ {ts : List Ty}, valTysS S E ts = true → tysContainTypeParam ts = false
  | [], _ => by simp [tysContainTypeParam]
  | t :: ts, h => by
    simp only [valTysS, Bool.and_eq_true] at h
    simp only [tysContainTypeParam, Bool.or_eq_false_iff]
    exact ⟨valTyS_noParam h.1, valTysS_noParam h.2⟩
end

/-- the helpers `make_ref_runtime` emits for a collected reference type -/
theorem refRuntime_mem : ∀ (refs : List Ty) (e : Ty), Ty.ref e ∈ refs → tyContainsTypeParam e = false →
    refFn (.ref e) e ∈ (GFile.mk (refRuntime refs)).funcs ∧ refGetFn (.ref e) e ∈ (GFile.mk (refRuntime refs)).funcs ∧
      refSetFn (.ref e) e ∈ (GFile.mk (refRuntime refs)).funcs
  | [], e, h, _ => by cases h
  | t :: rest, e, h, hp => by
    simp only [refRuntime]
    rw [funcs_append]
    rcases List.mem_cons.mp h with rfl | h
    · refine ⟨List.mem_append_left _ ?_, List.mem_append_left _ ?_, List.mem_append_left _ ?_⟩ <;>
        simp [hp, GFile.funcs]
    · obtain ⟨h1, h2, h3⟩ := refRuntime_mem rest e h hp
      exact ⟨List.mem_append_right _ h1, List.mem_append_right _ h2, List.mem_append_right _ h3⟩

/-- the helpers `make_array_runtime` emits for a collected array type (not of the wildcard length) -/
theorem arrayRuntime_mem : ∀ (arrs : List Ty) (len : Nat) (e : Ty), Ty.array len e ∈ arrs → len ≠ Goml.Gen.arrayWildcardLen →
    arrGetFn (.array len e) len e ∈ (GFile.mk (arrayRuntime arrs)).funcs ∧ arrSetFn (.array len e) len e ∈ (GFile.mk (arrayRuntime arrs)).funcs
  | [], len, e, h, _ => by cases h
  | t :: rest, len, e, h, hw => by
    simp only [arrayRuntime]
    rw [funcs_append]
    rcases List.mem_cons.mp h with rfl | h
    · have : (len == Goml.Gen.arrayWildcardLen) = false := by simpa using hw
      refine ⟨List.mem_append_left _ ?_, List.mem_append_left _ ?_⟩ <;> simp [this, GFile.funcs]
    · obtain ⟨h1, h2⟩ := arrayRuntime_mem rest len e h hw
      exact ⟨List.mem_append_right _ h1, List.mem_append_right _ h2⟩

/-! ### the helpers of trait objects in the emitted file -/

theorem mem_insertSorted {α : Type} (le : α → α → Bool) (x y : α) : ∀ l : List α, y ∈ insertSorted le x l ↔ y = x ∨ y ∈ l
  | [] => by simp [insertSorted]
  | z :: l => by
    simp only [insertSorted]
    split
    · simp
    · simp only [List.mem_cons, mem_insertSorted le x y l]
      constructor
      · rintro (h | h | h)
        · exact Or.inr (Or.inl h)
        · exact Or.inl h
        · exact Or.inr (Or.inr h)
      · rintro (h | h | h)
        · exact Or.inr (Or.inl h)
        · exact Or.inl h
        · exact Or.inr (Or.inr h)

theorem mem_sortStable {α : Type} (le : α → α → Bool) (y : α) : ∀ l : List α, y ∈ sortStable le l ↔ y ∈ l
  | [] => by simp [sortStable]
  | x :: l => by simp [sortStable, mem_insertSorted, mem_sortStable le y l]

theorem func_mem_funcs {items : List GItem} {f : GFunc} (h : GItem.func f ∈ items) : f ∈ (GFile.mk items).funcs := by
  simp only [GFile.funcs, List.mem_filterMap]
  exact ⟨_, h, rfl⟩

/-- the constructor and the wrappers `gen_dyn_helper_fns` emits for a collected vtable of a known trait -/
theorem genDynHelperFns_mem {env : Env} {req : DynReq} {tr : String} {forTy : Ty} (h : (tr, forTy) ∈ req.vtables) :
    genDynVtableCtorFn tr forTy ((traitMethodSigs env tr).getD []) ∈ (GFile.mk (genDynHelperFns env req)).funcs ∧
    ∀ s, s ∈ (traitMethodSigs env tr).getD [] →
      genDynWrapFn tr forTy s.1 s.2.1 s.2.2 ∈ (GFile.mk (genDynHelperFns env req)).funcs := by
  have hmem : (tr, forTy) ∈ sortStable vtableLe req.vtables := (mem_sortStable _ _ _).mpr h
  refine ⟨func_mem_funcs ?_, fun s hs => func_mem_funcs ?_⟩
  · simp only [genDynHelperFns, List.mem_flatMap]
    exact ⟨(tr, forTy), hmem, by simp⟩
  · simp only [genDynHelperFns, List.mem_flatMap]
    refine ⟨(tr, forTy), hmem, ?_⟩
    simp only [List.mem_append, List.mem_map, List.mem_singleton]
    exact Or.inl ⟨s, hs, rfl⟩

/-- part of `closedOK`: the Go function names of the emitted file are pairwise distinct -/
theorem closed_funcs_nodup {env : Env} {file : AFile} {n : Nat} {G : List String} (h : closedOKD env file n G = true) :
    ((goFilePreSt env file n).1.funcs.map (·.name)).Nodup := by
  simp only [closedOKD, fileOK, Bool.and_eq_true] at h
  obtain ⟨⟨⟨⟨⟨⟨⟨⟨⟨⟨⟨hndF, _⟩, _⟩, _⟩, _⟩, _⟩, _⟩, _⟩, _⟩, _⟩, _⟩, _⟩ := h
  exact of_decide_eq_true hndF

/-- `closedOK` is `closedOKD` without the trait-object flag -/
theorem closedD_of_closed {env : Env} {file : AFile} {n : Nat} {G : List String} (h : closedOK env file n G = true) :
    closedOKD env file n G = true ∧ dynTable env file G = [] := by
  simp only [closedOK, Bool.and_eq_true, Bool.not_eq_true'] at h
  exact ⟨h.1, by unfold dynTable; rw [h.2]; rfl⟩

/-- the hypothesis `implsOK` as the induction uses it -/
theorem impls_of_ok {env : Env} {file : AFile} {G : List String} {P : Prog} (h : implsOK env file G P = true) :
    ∀ tr forTy, (tr, forTy) ∈ dynTable env file G → ∀ s, s ∈ (traitMethodSigs env tr).getD [] →
      ∃ i, P.impls.find? (fun i => i.1 == tr && i.2.1 == Sem.tyKey forTy && i.2.2.1 == s.1) = some i ∧
        i.2.2.2 = Goml.Mono.traitImplFnName tr forTy s.1 := by
  intro tr forTy hmem s hs
  simp only [implsOK, List.all_eq_true] at h
  have := h (tr, forTy) hmem s hs
  simp only at this
  cases hf : P.impls.find? (fun i => i.1 == tr && i.2.1 == Sem.tyKey forTy && i.2.2.1 == s.1) with
  | none => rw [hf] at this; cases this
  | some i => rw [hf] at this; exact ⟨i, rfl, by simpa using this⟩

/-- the decidable check establishes everything the induction needs about the two programs -/
theorem link_of_closedD {env : Env} {file : AFile} {n : Nat} {G : List String} (h : closedOKD env file n G = true)
    {P : Prog} (hP : P.fns = file.map AFn.toFn)
    (himpl : ∀ tr forTy, (tr, forTy) ∈ dynTable env file G → ∀ s, s ∈ (traitMethodSigs env tr).getD [] →
      ∃ i, P.impls.find? (fun i => i.1 == tr && i.2.1 == Sem.tyKey forTy && i.2.2.1 == s.1) = some i ∧
        i.2.2.2 = Goml.Mono.traitImplFnName tr forTy s.1) : Link env file G P (goFilePreSt env file n).1 := by
  simp only [closedOKD, fileOK, Bool.and_eq_true] at h
  obtain ⟨⟨⟨⟨⟨⟨⟨⟨⟨⟨⟨hndF, hndS⟩, hnb⟩, hres⟩, hstr⟩, htab⟩, hetab⟩, hrtab⟩, httab⟩, hdtab⟩, hrecvtab⟩, hchk⟩ := h
  have hndF := of_decide_eq_true hndF
  have hndS := of_decide_eq_true hndS
  have hfuncs := funcs_goFilePre env file n
  refine ⟨⟨fun b g hb => ?_, fun r hr => ?_⟩, fun g hg _ => findFn_progOf hP hndS hg, fun g hg hG => ?_, fun b hb => ?_,
    fun b hb => ?_, fun e he => ?_, fun ts hts => ?_, fun b hb => ?_, fun len e he => ?_, fun b hb => ?_, ?_,
    fun tr forTy hd => ?_, himpl,
    ⟨hstr, fun n hn => List.all_eq_true.mp htab n hn, fun n hn => List.all_eq_true.mp hetab n hn⟩⟩
  · simp only [GFile.findFunc] at hb ⊢
    rw [hfuncs, List.find?_append, hb]; rfl
  · have := List.all_eq_true.mp hres r hr
    cases hx : (goFilePreSt env file n).1.findFunc r with
    | none => rfl
    | some g => rw [hx] at this; simp at this
  · obtain ⟨st', hm, hl⟩ := checkFns_spec file _ hchk g hg hG
    refine ⟨st', ?_, hl⟩
    have hmem : (compileFn env st' g).1 ∈ (goFilePreSt env file n).1.funcs := by
      rw [hfuncs]
      exact List.mem_append_right _ (List.mem_append_right _ (List.mem_append_left _ hm))
    have := find?_of_nodup (fun f : GFunc => f.name) _ hndF _ hmem
    simpa [GFile.findFunc, compileFn_name] using this
  · apply findFn_none hP
    intro f hf e
    have := List.all_eq_true.mp hnb f hf
    rw [e] at this
    have hc : builtinNames.contains b = true := List.contains_iff_mem.mpr hb
    rw [hc] at this; simp at this
  · apply findFn_none hP
    intro f hf e
    have := List.all_eq_true.mp hnb f hf
    rw [e] at this
    have hc : refNames.contains b = true := List.contains_iff_mem.mpr hb
    rw [hc] at this; simp at this
  · -- the helpers and the cell struct of a reference type the file mentions
    simp only [refTyOK, Bool.and_eq_true, List.any_eq_true] at he
    obtain ⟨hval, x, hx, hbeq⟩ := he
    have hxe : x = .ref e := ((Goml.Mono.tyBeq_iff _ _).mp hbeq).symm
    subst hxe
    have hnp : tyContainsTypeParam e = false := by
      have : valTyS (goodStructs env) (goodEnums env) e = true := by simpa [valTy, valTyS] using hval
      exact valTyS_noParam this
    obtain ⟨m1, m2, m3⟩ := refRuntime_mem _ e hx hnp
    have hmid : ∀ g, g ∈ (GFile.mk (refRuntime (collectRuntimeTypes env file).refs)).funcs → g ∈ (goFilePreSt env file n).1.funcs := by
      intro g hg
      rw [hfuncs]
      refine List.mem_append_right _ (List.mem_append_left _ ?_)
      simp only [midFuncs]
      exact List.mem_append_right _ (List.mem_append_left _ hg)
    have hfind : ∀ g, g ∈ (goFilePreSt env file n).1.funcs → (goFilePreSt env file n).1.findFunc g.name = some g := by
      intro g hg
      have := find?_of_nodup (fun f : GFunc => f.name) _ hndF _ hg
      simpa [GFile.findFunc] using this
    have htb := List.all_eq_true.mp hrtab _ hx
    simp only [refTableOK, hval, Bool.not_true, Bool.false_or] at htb
    refine ⟨hfind _ (hmid _ m1), hfind _ (hmid _ m2), hfind _ (hmid _ m3), ?_⟩
    cases hd : (goFilePreSt env file n).1.structFields (refStructName e) with
    | none => rw [hd] at htb; cases htb
    | some decl => rw [hd] at htb; exact ⟨decl, rfl, by simpa using htb⟩
  · -- the struct of a tuple type the file mentions
    simp only [tupleTyOK, Bool.and_eq_true, List.any_eq_true] at hts
    obtain ⟨hval, x, hx, hbeq⟩ := hts
    have hxe : x = .tuple ts := ((Goml.Mono.tyBeq_iff _ _).mp hbeq).symm
    subst hxe
    have htb := List.all_eq_true.mp httab _ hx
    simp only [tupleTableOK, hval, Bool.not_true, Bool.false_or, Bool.and_eq_true] at htb
    refine ⟨of_decide_eq_true htb.1, ?_⟩
    cases hd : (goFilePreSt env file n).1.structFields (goTypeNameFor (.tuple ts)) with
    | none => rw [hd] at htb; exact absurd htb.2 (by simp)
    | some decl => rw [hd] at htb; exact ⟨decl, rfl, by simpa using htb.2⟩
  · apply findFn_none hP
    intro f hf e
    have := List.all_eq_true.mp hnb f hf
    rw [e] at this
    have hc : arrNames.contains b = true := List.contains_iff_mem.mpr hb
    rw [hc] at this; simp at this
  · -- the helpers of an array type the file mentions
    simp only [arrTyOK, Bool.and_eq_true, List.any_eq_true] at he
    obtain ⟨hval, x, hx, hbeq⟩ := he
    have hxe : x = .array len e := ((Goml.Mono.tyBeq_iff _ _).mp hbeq).symm
    subst hxe
    have hlen : len ≠ Goml.Gen.arrayWildcardLen := by
      simp only [valTy, valTyS, Bool.and_eq_true, decide_eq_true_eq] at hval
      have := hval.1.2
      intro heq; rw [heq] at this; revert this; decide
    obtain ⟨m1, m2⟩ := arrayRuntime_mem _ len e hx hlen
    have hmid : ∀ g, g ∈ (GFile.mk (arrayRuntime (collectRuntimeTypes env file).arrays)).funcs → g ∈ (goFilePreSt env file n).1.funcs := by
      intro g hg
      rw [hfuncs]
      refine List.mem_append_right _ (List.mem_append_left _ ?_)
      simp only [midFuncs]
      exact List.mem_append_left _ hg
    have hfind : ∀ g, g ∈ (goFilePreSt env file n).1.funcs → (goFilePreSt env file n).1.findFunc g.name = some g := by
      intro g hg
      have := find?_of_nodup (fun f : GFunc => f.name) _ hndF _ hg
      simpa [GFile.findFunc] using this
    exact ⟨hfind _ (hmid _ m1), hfind _ (hmid _ m2)⟩
  · apply findFn_none hP
    intro f hf e
    have := List.all_eq_true.mp hnb f hf
    rw [e] at this
    have hc : vecNames.contains b = true := List.contains_iff_mem.mpr hb
    rw [hc] at this; simp at this
  · have hnone : ∀ r, r ∈ reservedGoNames → (goFilePreSt env file n).1.findFunc r = none := by
      intro r hr
      have := List.all_eq_true.mp hres r hr
      cases hx : (goFilePreSt env file n).1.findFunc r with
      | none => rfl
      | some g => rw [hx] at this; simp at this
    have hsub : ∀ r, r ∈ intConvNames → r ∈ reservedGoNames := by
      intro r hr
      simp only [intConvNames, List.mem_cons, List.mem_singleton, List.not_mem_nil, or_false] at hr
      rcases hr with rfl | rfl | rfl | rfl | rfl | rfl | rfl | rfl <;> simp [reservedGoNames]
    exact ⟨hnone _ (by simp [reservedGoNames]), hnone _ (by simp [reservedGoNames]), hnone _ (by simp [reservedGoNames]),
      fun r hr => hnone r (hsub r hr)⟩
  · -- the constructor, the wrappers and the two structs of an admissible vtable
    have hent := dynTable_spec hd
    have hvt : (tr, forTy) ∈ (collectDynRequirements env file).vtables := by
      unfold dynTable at hd
      split at hd
      · exact (List.mem_filter.mp hd).1
      · cases hd
    obtain ⟨m1, m2⟩ := genDynHelperFns_mem (env := env) hvt
    have hmid : ∀ g, g ∈ (GFile.mk (genDynHelperFns env (collectDynRequirements env file))).funcs → g ∈ (goFilePreSt env file n).1.funcs := by
      intro g hg
      rw [hfuncs]
      refine List.mem_append_right _ (List.mem_append_left _ ?_)
      simp only [midFuncs]
      exact List.mem_append_right _ (List.mem_append_right _ (List.mem_append_right _ (List.mem_append_right _ (List.mem_append_right _ hg))))
    have hfind : ∀ g, g ∈ (goFilePreSt env file n).1.funcs → (goFilePreSt env file n).1.findFunc g.name = some g := by
      intro g hg
      have := find?_of_nodup (fun f : GFunc => f.name) _ hndF _ hg
      simpa [GFile.findFunc] using this
    have htb := List.all_eq_true.mp hdtab tr (List.mem_append_right _ (List.mem_map_of_mem (f := (·.1)) hvt))
    simp only [dynEntryOK, Bool.and_eq_true] at hent
    obtain ⟨⟨⟨_, hval⟩, _⟩, hsig⟩ := hent
    cases hts : traitMethodSigs env tr with
    | none => rw [hts] at hsig; cases hsig
    | some sigs =>
      rw [hts] at hsig; simp only [Bool.and_eq_true, decide_eq_true_eq] at hsig
      simp only [dynStructTableOK, hts, Bool.and_eq_true] at htb
      refine ⟨?_, fun s hs => ?_, ?_, ?_, by rw [hts]; simpa using hsig.1, ?_⟩
      rotate_left 4
      · -- an enum receiver: the variant structs implement the enum's interface
        intro en hen d hde vr hvr
        subst hen
        have hrt := List.all_eq_true.mp hrecvtab (tr, .enum en) hvt
        simp only [dynRecvTableOK, hval, Bool.not_true, Bool.false_or] at hrt
        rw [hde] at hrt
        exact List.all_eq_true.mp hrt vr hvr
      · have := hfind _ (hmid _ m1); simpa [genDynVtableCtorFn] using this
      · have := hfind _ (hmid _ (m2 s hs)); simpa [genDynWrapFn] using this
      · cases hd1 : (goFilePreSt env file n).1.structFields (dynStructName tr) with
        | none => rw [hd1] at htb; exact absurd htb.1 (by simp)
        | some decl => rw [hd1] at htb; exact ⟨decl, rfl, by simpa using htb.1⟩
      · cases hd2 : (goFilePreSt env file n).1.structFields (dynVtableStructName tr) with
        | none => rw [hd2] at htb; exact absurd htb.2 (by simp)
        | some decl => rw [hd2] at htb; exact ⟨decl, rfl, by rw [hts]; simpa using htb.2⟩

/-- the same from `closedOK` (no trait objects: nothing is asked of `P.impls`) -/
theorem link_of_closed {env : Env} {file : AFile} {n : Nat} {G : List String} (h : closedOK env file n G = true)
    {P : Prog} (hP : P.fns = file.map AFn.toFn) : Link env file G P (goFilePreSt env file n).1 := by
  obtain ⟨hD, hempty⟩ := closedD_of_closed h
  exact link_of_closedD hD hP (fun tr forTy hm => by rw [hempty] at hm; cases hm)

end Goml.GoComp
