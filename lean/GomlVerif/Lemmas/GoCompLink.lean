import GomlVerif.Lemmas.GoCompStepU
/-!
The whole induction (`sim_all`) and the bridge from the decidable check `closedOK` to the facts the
induction uses about the two programs (`Link`): where `findFn` / `findFunc` find the functions.
-/
set_option linter.unusedSimpArgs false
set_option linter.unusedVariables false
namespace Goml.GoComp
open Goml Goml.Go Goml.GoCompile Goml.GoFrag
open Goml.Sem (Val World Res Fail)
open Goml.C01 (toG)

theorem sim_all {env : Env} {file : AFile} {G : List String} {P : Prog} {F : GFile} (hl : Link env file G P F) :
    ∀ n, SimAt env file G P F n
  | 0 => sim0
  | n + 1 =>
    have ih := sim_all hl n
    have u := stepU hl ih.a
    have b := stepB hl n
    have v := stepV hl ih.u ih.b
    have l := stepL ih.a ih.l
    have c := stepC v ih.a l
    have a := stepA c ih.v ih.c ih.a
    ⟨u, b, v, a, c, l⟩

/-- the `Sem` program of an ANF file -/
def progOf (file : AFile) : Prog := { fns := file.map AFn.toFn }

theorem find?_of_nodup {α : Type} (key : α → String) : ∀ (l : List α), (l.map key).Nodup → ∀ x, x ∈ l →
    l.find? (fun y => key y == key x) = some x
  | [], _, x, hx => by cases hx
  | a :: l, hnd, x, hx => by
    simp only [List.map_cons, List.nodup_cons] at hnd
    rw [List.find?_cons]
    by_cases h : key a = key x
    · rcases List.mem_cons.mp hx with rfl | hx'
      · simp
      · exact absurd (h ▸ List.mem_map_of_mem (f := key) hx') hnd.1
    · have : (key a == key x) = false := by simp [h]
      rw [this]
      rcases List.mem_cons.mp hx with rfl | hx'
      · exact absurd rfl h
      · exact find?_of_nodup key l hnd.2 x hx'

theorem findFn_progOf {file : AFile} {P : Prog} (hP : P.fns = file.map AFn.toFn) (hnd : (file.map (·.name)).Nodup)
    {g : AFn} (hg : g ∈ file) : P.findFn g.name = some g.toFn := by
  have h := find?_of_nodup (fun f : Fn => f.name) (file.map AFn.toFn) (by simpa [List.map_map, Function.comp_def, AFn.toFn] using hnd)
    g.toFn (List.mem_map_of_mem hg)
  simpa [Prog.findFn, hP, AFn.toFn] using h

theorem findFn_none {file : AFile} {P : Prog} (hP : P.fns = file.map AFn.toFn) {b : String}
    (h : ∀ f, f ∈ file → f.name ≠ b) : P.findFn b = none := by
  simp only [Prog.findFn, hP, List.find?_eq_none, List.mem_map]
  rintro f ⟨g, hg, rfl⟩
  simpa [AFn.toFn] using h g hg

theorem funcs_append (a b : List GItem) : (GFile.mk (a ++ b)).funcs = (GFile.mk a).funcs ++ (GFile.mk b).funcs := by
  simp [GFile.funcs, List.filterMap_append]

theorem funcs_map_func (fs : List GFunc) : (GFile.mk (fs.map GItem.func)).funcs = fs := by
  induction fs with
  | nil => rfl
  | cons f fs ih => simp [GFile.funcs] at ih ⊢; exact ih

theorem funcs_addImports (extra : List (String × String)) : ∀ items : List GItem,
    (GFile.mk (addImports extra items)).funcs = (GFile.mk items).funcs
  | [] => rfl
  | it :: rest => by
    cases it <;> simp [addImports, GFile.funcs, List.filterMap_cons]
    all_goals exact funcs_addImports extra rest

/-- the helper functions between the runtime and the compiled functions -/
def midFuncs (env : Env) (file : AFile) : List GFunc :=
  (GFile.mk (arrayRuntime (collectRuntimeTypes env file).arrays)).funcs ++
  ((GFile.mk (refRuntime (collectRuntimeTypes env file).refs)).funcs ++
  ((GFile.mk (tupleStructs (collectRuntimeTypes env file).tuples)).funcs ++
  ((GFile.mk (genTypeDefinition env)).funcs ++
  ((GFile.mk (genDynTypeDefinitions env (collectDynRequirements file))).funcs ++
   (GFile.mk (genDynHelperFns env (collectDynRequirements file))).funcs))))

/-- the functions of the emitted file: the runtime first, the compiled functions near the end -/
theorem funcs_goFilePre (env : Env) (file : AFile) (n : Nat) :
    (goFilePreSt env file n).1.funcs =
      runtimeFile.funcs ++ (midFuncs env file ++ ((compileFns env { n := n, ok := true } file).1 ++ [mainFn])) := by
  simp only [goFilePreSt]
  split
  · simp only [funcs_append, funcs_map_func, runtimeFile, midFuncs, List.append_assoc]
    rfl
  · split
    · simp only [funcs_append, funcs_map_func, runtimeFile, midFuncs, List.append_assoc]
      rfl
    · simp only [funcs_append, funcs_map_func, funcs_addImports, runtimeFile, midFuncs, List.append_assoc]
      rfl

theorem checkFns_spec {env : Env} {file : AFile} {G : List String} : ∀ (l : List AFn) (st : St),
    checkFns env file G st l = true → ∀ g, g ∈ l → g.name ∈ G →
    ∃ st', (compileFn env st' g).1 ∈ (compileFns env st l).1 ∧ localOK env file G st' g = true
  | [], _, _, g, hg, _ => by cases hg
  | f :: rest, st, h, g, hg, hG => by
    simp only [checkFns, Bool.and_eq_true] at h
    obtain ⟨h1, h2⟩ := h
    rcases List.mem_cons.mp hg with rfl | hg'
    · refine ⟨st, by simp [compileFns], ?_⟩
      have : G.contains g.name = true := by simpa using hG
      rw [this] at h1; simpa using h1
    · obtain ⟨st', hm, hl⟩ := checkFns_spec rest _ h2 g hg' hG
      exact ⟨st', by simp only [compileFns]; exact List.mem_cons_of_mem _ hm, hl⟩

theorem compileFn_name (env : Env) (st : St) (g : AFn) : (compileFn env st g).1.name = fnName g.name := rfl

/-- the decidable check establishes everything the induction needs about the two programs -/
theorem link_of_closed {env : Env} {file : AFile} {n : Nat} {G : List String} (h : closedOK env file n G = true)
    {P : Prog} (hP : P.fns = file.map AFn.toFn) : Link env file G P (goFilePreSt env file n).1 := by
  simp only [closedOK, fileOK, Bool.and_eq_true] at h
  obtain ⟨⟨⟨⟨⟨⟨hndF, hndS⟩, hnb⟩, hres⟩, hstr⟩, htab⟩, hchk⟩ := h
  have hndF := of_decide_eq_true hndF
  have hndS := of_decide_eq_true hndS
  have hfuncs := funcs_goFilePre env file n
  refine ⟨⟨fun b g hb => ?_, fun r hr => ?_⟩, fun g hg _ => findFn_progOf hP hndS hg, fun g hg hG => ?_, fun b hb => ?_,
    hstr, fun n hn => List.all_eq_true.mp htab n hn⟩
  · simp only [GFile.findFunc] at hb ⊢
    rw [hfuncs, List.find?_append, hb]; rfl
  · have := List.all_eq_true.mp hres r hr
    cases hx : (goFilePreSt env file n).1.findFunc r with
    | none => rfl
    | some g => rw [hx] at this; simp at this
  · obtain ⟨st', hm, hl⟩ := checkFns_spec file _ hchk g hg hG
    refine ⟨st', ?_, hl⟩
    have hmem : (compileFn env st' g).1 ∈ (goFilePreSt env file n).1.funcs := by
      rw [hfuncs]
      exact List.mem_append_right _ (List.mem_append_right _ (List.mem_append_left _ hm))
    have := find?_of_nodup (fun f : GFunc => f.name) _ hndF _ hmem
    simpa [GFile.findFunc, compileFn_name] using this
  · apply findFn_none hP
    intro f hf e
    have := List.all_eq_true.mp hnb f hf
    rw [e] at this
    have hc : builtinNames.contains b = true := List.contains_iff_mem.mpr hb
    rw [hc] at this; exact absurd this (by decide)

end Goml.GoComp
