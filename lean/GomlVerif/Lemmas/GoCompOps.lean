import GomlVerif.Lemmas.GoCompImm
/-! operators of the fragment: defined on both sides, same result, right type -/
set_option linter.unusedSimpArgs false
set_option linter.unusedVariables false
namespace Goml.GoComp
open Goml Goml.Go Goml.GoCompile Goml.GoFrag
open Goml.Sem (Val World Res Fail)
open Goml.C01 (toG)

theorem gBin_eq_gop (op : BinOp) : gBin op = Goml.C01.gop op := by cases op <;> rfl

theorem isLogicG_gBin (op : BinOp) : isLogicG (gBin op) = Goml.C01.isLogic op := by cases op <;> rfl

/-- a non-logical operator of the fragment on typed operands: a typed value or a panic -/
theorem binop_frag {env : Env} {η : Hp} {op : BinOp} {tl ty : Ty} {a b : Val} (hok : binOK op tl tl ty = true)
    (hop : Goml.C01.isLogic op = false) (ha : HasTy env η a tl) (hb : HasTy env η b tl) :
    (∃ v, Sem.binop op a b = .ok v ∧ HasTy env η v ty) ∨ (∃ k, Sem.binop op a b = .error (.panic k)) := by
  simp only [binOK, Bool.and_eq_true] at hok
  obtain ⟨⟨_, hdom⟩, hres⟩ := hok
  have hty := scalarEq_eq hres; subst hty
  cases op <;> simp [Goml.C01.isLogic] at hop <;> cases tl <;> simp [binDom, scalarTy] at hdom <;>
    (first
      | (obtain ⟨x, rfl⟩ := hasTy_int ha; obtain ⟨y, rfl⟩ := hasTy_int hb)
      | (obtain ⟨x, rfl⟩ := hasTy_str ha; obtain ⟨y, rfl⟩ := hasTy_str hb)
      | (obtain ⟨x, rfl⟩ := hasTy_bool ha; obtain ⟨y, rfl⟩ := hasTy_bool hb)
      | (have ha' := hasTy_unit ha; have hb' := hasTy_unit hb; subst ha'; subst hb')) <;>
    (first
      | (left; exact ⟨_, rfl, by simp [HasTy, binResTy, wrap_wrap]⟩)
      | (by_cases hy : y = 0
         · right; exact ⟨"integer divide by zero", by simp [Sem.binop, hy]⟩
         · left; simp [Sem.binop, hy, HasTy, binResTy, wrap_wrap]))

/-- the unary operators of the fragment -/
theorem unop_frag {env : Env} {η : Hp} {op : UnOp} {te ty : Ty} {a : Val} (hok : unOK op te ty = true) (ha : HasTy env η a te) :
    ∃ v, Sem.unop op a = .ok v ∧ HasTy env η v ty := by
  cases op with
  | neg =>
    simp only [unOK, Bool.and_eq_true] at hok
    cases te <;> simp [intTy] at hok
    rename_i n s
    have := scalarEq_eq hok; subst this
    obtain ⟨x, rfl⟩ := hasTy_int ha
    exact ⟨_, rfl, ⟨rfl, rfl, wrap_wrap _ _ _⟩⟩
  | not =>
    simp only [unOK, Bool.and_eq_true] at hok
    have h1 := scalarEq_eq hok.1; have h2 := scalarEq_eq hok.2; subst h1; subst h2
    obtain ⟨b, rfl⟩ := hasTy_bool ha
    exact ⟨_, rfl, trivial⟩

end Goml.GoComp
