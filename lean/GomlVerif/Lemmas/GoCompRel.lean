import GomlVerif.Model.GoFrag
import GomlVerif.Props.C01
import GomlVerif.Lemmas.GoCompGo
import Std.Data.String.ToInt
/-!
Relations of the simulation `Sem` (ANF) ⟶ `Go.Sem` (compiled Go) for stage (a) of the back end:
value typing `HasTy`, environment relation `EnvRel`, world relation `WRel`, the Go-side name
invariant `GInv`, and how immediates evaluate on both sides.
-/
set_option linter.unusedSimpArgs false
set_option linter.unusedVariables false
namespace Goml.GoComp
open Goml Goml.Go Goml.GoCompile Goml.GoFrag
open Goml.Sem (Val World Res Fail)
open Goml.C01 (toG)
open Goml.Dce (keys lookup_cons_self lookup_cons_ne lookup_none_of_not_key key_of_lookup_some
  keys_update lookup_update_ne lookup_update_self update_not_key)

attribute [local irreducible] Goml.GoCompile.vn Goml.GoCompile.gid Goml.GoCompile.rn

/-! ### scalar types -/

mutual
theorem scalarEq_eq : ∀ {a b : Ty}, scalarEq a b = true → a = b
  | .ref a, .ref b, h => by
    simp only [scalarEq] at h
    rw [scalarEq_eq h]
  | .tuple as, .tuple bs, h => by
    simp only [scalarEq] at h
    rw [scalarEqs_eq h]
  | .array l a, .array l' b, h => by
    simp only [scalarEq, Bool.and_eq_true, beq_iff_eq] at h
    rw [h.1.1.1, scalarEq_eq h.2]
  | .func as r, .func bs r', h => by
    simp only [scalarEq, Bool.and_eq_true] at h
    rw [scalarEqs_eq h.1, scalarEq_eq h.2]
  | .func _ _, .unit, h | .func _ _, .bool, h | .func _ _, .string, h | .func _ _, .int _ _, h | .func _ _, .struct _, h
  | .func _ _, .enum _, h | .func _ _, .float _, h | .func _ _, .ref _, h | .func _ _, .dyn _, h | .func _ _, .app _ _, h
  | .func _ _, .tuple _, h | .func _ _, .vec _, h | .func _ _, .param _, h | .func _ _, .array _ _, h | .func _ _, .tvar _, h => by
    simp [scalarEq] at h
  | .array _ _, .unit, h | .array _ _, .bool, h | .array _ _, .string, h | .array _ _, .int _ _, h | .array _ _, .struct _, h
  | .array _ _, .enum _, h | .array _ _, .float _, h | .array _ _, .ref _, h | .array _ _, .dyn _, h | .array _ _, .app _ _, h
  | .array _ _, .tuple _, h | .array _ _, .vec _, h | .array _ _, .param _, h | .array _ _, .func _ _, h | .array _ _, .tvar _, h => by
    simp [scalarEq] at h
  | .unit, b, h => by cases b <;> simp [scalarEq] at h <;> rfl
  | .bool, b, h => by cases b <;> simp [scalarEq] at h <;> rfl
  | .string, b, h => by cases b <;> simp [scalarEq] at h <;> rfl
  | .int _ _, b, h => by cases b <;> simp [scalarEq] at h; obtain ⟨h1, h2⟩ := h; subst h1; subst h2; rfl
  | .struct _, b, h => by cases b <;> simp [scalarEq] at h; subst h; rfl
  | .enum _, b, h => by cases b <;> simp [scalarEq] at h; subst h; rfl
  | .float _, b, h => by cases b <;> simp [scalarEq] at h
  | .dyn _, b, h => by cases b <;> simp [scalarEq] at h; subst h; rfl
  | .app _ _, b, h => by cases b <;> simp [scalarEq] at h
  | .vec a, .vec b, h => by
    simp only [scalarEq] at h
    rw [scalarEq_eq h]
  | .vec _, .unit, h | .vec _, .bool, h | .vec _, .string, h | .vec _, .int _ _, h | .vec _, .struct _, h
  | .vec _, .enum _, h | .vec _, .float _, h | .vec _, .ref _, h | .vec _, .dyn _, h | .vec _, .app _ _, h
  | .vec _, .tuple _, h | .vec _, .array _ _, h | .vec _, .param _, h | .vec _, .func _ _, h | .vec _, .tvar _, h => by
    simp [scalarEq] at h
  | .param _, b, h => by cases b <;> simp [scalarEq] at h
  | .tvar _, b, h => by cases b <;> simp [scalarEq] at h
  | .ref _, .unit, h | .ref _, .bool, h | .ref _, .string, h | .ref _, .int _ _, h | .ref _, .struct _, h
  | .ref _, .enum _, h | .ref _, .float _, h | .ref _, .tuple _, h | .ref _, .dyn _, h | .ref _, .app _ _, h
  | .ref _, .array _ _, h | .ref _, .vec _, h | .ref _, .param _, h | .ref _, .func _ _, h | .ref _, .tvar _, h => by
    simp [scalarEq] at h
  | .tuple _, .unit, h | .tuple _, .bool, h | .tuple _, .string, h | .tuple _, .int _ _, h | .tuple _, .struct _, h
  | .tuple _, .enum _, h | .tuple _, .float _, h | .tuple _, .ref _, h | .tuple _, .dyn _, h | .tuple _, .app _ _, h
  | .tuple _, .array _ _, h | .tuple _, .vec _, h | .tuple _, .param _, h | .tuple _, .func _ _, h | .tuple _, .tvar _, h => by
    simp [scalarEq] at h
theorem scalarEqs_eq : ∀ {as bs : List Ty}, scalarEqs as bs = true → as = bs
  | [], [], _ => rfl
  | [], _ :: _, h => by simp [scalarEqs] at h
  | _ :: _, [], h => by simp [scalarEqs] at h
  | a :: as, b :: bs, h => by
    simp only [scalarEqs, Bool.and_eq_true] at h
    rw [scalarEq_eq h.1, scalarEqs_eq h.2]
end

mutual
theorem scalarEq_refl : ∀ {a : Ty}, flatTy a = true → scalarEq a a = true
  | .ref e, h => by simp only [flatTy] at h; simp only [scalarEq]; exact scalarEq_refl h
  | .tuple ts, h => by simp only [flatTy] at h; simp only [scalarEq]; exact scalarEqs_refl h
  | .array len e, h => by
    simp only [flatTy, Bool.and_eq_true] at h
    simp only [scalarEq, beq_self_eq_true, Bool.true_and, Bool.and_eq_true]; exact ⟨h.1, scalarEq_refl h.2⟩
  | .func ps r, h => by
    simp only [flatTy, Bool.and_eq_true] at h
    simp only [scalarEq, Bool.and_eq_true]; exact ⟨scalarEqs_refl h.1, scalarEq_refl h.2⟩
  | .vec e, h => by simp only [flatTy] at h; simp only [scalarEq]; exact scalarEq_refl h
  | .unit, _ | .bool, _ | .string, _ | .int _ _, _ | .struct _, _ | .enum _, _ | .dyn _, _ => by simp [scalarEq]
  | .float _, h | .app _ _, h | .param _, h
  | .tvar _, h => by simp [flatTy, scalarTy] at h
theorem scalarEqs_refl : ∀ {ts : List Ty}, flatTys ts = true → scalarEqs ts ts = true
  | [], _ => rfl
  | t :: ts, h => by
    simp only [flatTys, Bool.and_eq_true] at h
    simp only [scalarEqs, Bool.and_eq_true]
    exact ⟨scalarEq_refl h.1, scalarEqs_refl h.2⟩
end

mutual
theorem scalarEq_self_flat : ∀ {a : Ty}, scalarEq a a = true → flatTy a = true
  | .ref e, h => by simp only [scalarEq] at h; simp only [flatTy]; exact scalarEq_self_flat h
  | .tuple ts, h => by simp only [scalarEq] at h; simp only [flatTy]; exact scalarEqs_self_flat h
  | .array len e, h => by
    simp only [scalarEq, Bool.and_eq_true] at h
    simp only [flatTy, Bool.and_eq_true]; exact ⟨⟨h.1.1.2, h.1.2⟩, scalarEq_self_flat h.2⟩
  | .func ps r, h => by
    simp only [scalarEq, Bool.and_eq_true] at h
    simp only [flatTy, Bool.and_eq_true]; exact ⟨scalarEqs_self_flat h.1, scalarEq_self_flat h.2⟩
  | .vec e, h => by simp only [scalarEq] at h; simp only [flatTy]; exact scalarEq_self_flat h
  | .unit, _ | .bool, _ | .string, _ | .int _ _, _ | .struct _, _ | .enum _, _ | .dyn _, _ => rfl
  | .float _, h | .app _ _, h | .param _, h
  | .tvar _, h => by simp [scalarEq] at h
theorem scalarEqs_self_flat : ∀ {ts : List Ty}, scalarEqs ts ts = true → flatTys ts = true
  | [], _ => rfl
  | t :: ts, h => by
    simp only [scalarEqs, Bool.and_eq_true] at h
    simp only [flatTys, Bool.and_eq_true]
    exact ⟨scalarEq_self_flat h.1, scalarEqs_self_flat h.2⟩
end

theorem scalarEq_flat {a b : Ty} (h : scalarEq a b = true) : flatTy a = true := by
  have hab := scalarEq_eq h; subst hab
  exact scalarEq_self_flat h

/-- how the `Sem` store sits in the Go heap: for each store cell (a `Ref`) the type of its content and the
    Go heap location of the cell struct the back end allocates for it -/
structure Hp where
  tys : List Ty := []
  locs : List Nat := []
  /-- the functions that may occur as values (`GoFrag.fnSigs`): name, parameter types, result type; constant along a run -/
  fns : List (String × List Ty × Ty) := []
  /-- the immutable cells of the Go heap the related values point into (backing arrays of slices under the
      no-spare-capacity policy): location and content -/
  imm : List (Nat × GVal) := []
  /-- the admissible vtables `(trait, receiver type)` (`GoFrag.dynTable`); constant along a run -/
  dyns : List (String × Ty) := []
  deriving Inhabited

/-- the store grew: old cells keep their type and their Go location (the function table stays), the immutable
    cells stay -/
def Hp.le (η η' : Hp) : Prop :=
  η.tys <+: η'.tys ∧ η.locs <+: η'.locs ∧ η'.fns = η.fns ∧ (∀ p, p ∈ η.imm → p ∈ η'.imm) ∧ η'.dyns = η.dyns

theorem Hp.le_refl (η : Hp) : η.le η := ⟨List.prefix_refl _, List.prefix_refl _, rfl, fun _ h => h, rfl⟩
theorem Hp.le_trans {a b c : Hp} (h1 : a.le b) (h2 : b.le c) : a.le c :=
  ⟨List.IsPrefix.trans h1.1 h2.1, List.IsPrefix.trans h1.2.1 h2.2.1, by rw [h2.2.2.1, h1.2.2.1],
    fun p hp => h2.2.2.2.1 p (h1.2.2.2.1 p hp), by rw [h2.2.2.2.2, h1.2.2.2.2]⟩

theorem prefix_get {α : Type} {l l' : List α} (h : l <+: l') {i : Nat} {a : α} (hi : l[i]? = some a) : l'[i]? = some a := by
  obtain ⟨t, rfl⟩ := h
  have hlt : i < l.length := by
    rcases Nat.lt_or_ge i l.length with h | h
    · exact h
    · rw [List.getElem?_eq_none h] at hi; cases hi
  rw [List.getElem?_append_left hlt]; exact hi

mutual
/-- a value of a fragment type: scalars, values of admitted struct types field by field, values of
    admitted enum types (an existing variant, payload by payload) -/
def HasTy (env : Env) (η : Hp) : Val → Ty → Prop
  | .unit, .unit => True
  | .bool _, .bool => True
  | .int b s x, .int b' s' => b = b' ∧ s = s' ∧ Sem.wrap b s x = x
  | .str _, .string => True
  | .structV n vs, .struct n' =>
    n = n' ∧ n ∈ goodStructs env ∧
      (match env.getStruct n with
       | some d => HasTys env η vs (d.fields.map (·.2))
       | none => False)
  | .enumV n idx vs, .enum n' =>
    n = n' ∧ n ∈ goodEnums env ∧
      (match env.getEnum n with
       | some d =>
         (match d.variants[idx]? with
          | some v => HasTys env η vs v.2
          | none => False)
       | none => False)
  | .ref l, .ref e => η.tys[l]? = some e
  | .tuple vs, .tuple ts => HasTys env η vs ts
  | .array vs, .array len e => 1 ≤ len ∧ HasTys env η vs (List.replicate len e)
  | .fn name, .func ps r => η.fns.find? (·.1 == name) = some (name, ps, r)
  | .vec vs, .vec e => HasTys env η vs (List.replicate vs.length e)
  | .dyn tr key v, .dyn tr' =>
    tr = tr' ∧ ∃ forTy, (tr, forTy) ∈ η.dyns ∧ key = Sem.tyKey forTy ∧ HasTy env η v forTy
  | _, _ => False
def HasTys (env : Env) (η : Hp) : List Val → List Ty → Prop
  | [], [] => True
  | v :: vs, t :: ts => HasTy env η v t ∧ HasTys env η vs ts
  | _, _ => False
end

/-- the content of the vtable cell of `(tr, forTy)`: the wrapper functions under the Go slot names -/
def vtableVal (env : Env) (tr : String) (forTy : Ty) : GVal :=
  .struct (dynVtableStructName tr)
    (((traitMethodSigs env tr).getD []).map fun s => (gid s.1, GVal.func (dynWrapName tr forTy s.1)))

mutual
/-- the Go image of a goml value **at a type**: scalars as they are (`C01.toG`), a struct value as the Go struct
    of its (escaped) name with its declared (escaped) field names, an enum value as the Go struct of
    its variant with the payload fields `_0, _1, …`, a reference as the pointer to its cell (`η.locs`), a tuple as the
    struct named after its component **types**, an array as an array value, a function as the Go function of its name,
    a `Vec` as `nil` (empty) or a slice header without spare capacity over an immutable backing array (`η.imm`).
    A relation, not a function: equal `Vec` values may sit at different Go locations. -/
def VRel (env : Env) (η : Hp) : Val → Ty → GVal → Prop
  | .unit, _, g => g = .unit
  | .bool b, _, g => g = .bool b
  | .int n s v, _, g => g = .int n s v
  | .str s, _, g => g = .str s
  | .structV n vs, _, g =>
    (match env.getStruct n with
     | some d => ∃ gs, VRels env η vs (d.fields.map (·.2)) gs ∧ g = .struct (gid n) ((d.fields.map fun f => gid f.1).zip gs)
     | none => False)
  | .enumV n idx vs, _, g =>
    (match env.getEnum n with
     | some d =>
       (match d.variants[idx]? with
        | some v => ∃ gs, VRels env η vs v.2 gs ∧ g = .struct (variantGoName env n v.1) ((fieldNames 0 gs.length).zip gs)
        | none => False)
     | none => False)
  | .ref l, _, g => ∃ gl, η.locs[l]? = some gl ∧ g = .ptr gl
  | .tuple vs, .tuple ts, g =>
    ∃ gs, VRels env η vs ts gs ∧ g = .struct (goTypeNameFor (.tuple ts)) ((fieldNames 0 gs.length).zip gs)
  | .array vs, .array len e, g => ∃ gs, VRels env η vs (List.replicate len e) gs ∧ g = .array gs
  | .fn name, _, g => g = .func (vn name)
  | .vec vs, .vec e, g =>
    (vs = [] ∧ g = .nilv) ∨
    (vs ≠ [] ∧ ∃ loc gs, (loc, GVal.array gs) ∈ η.imm ∧ VRels env η vs (List.replicate vs.length e) gs ∧
      g = .slice loc vs.length vs.length)
  | .dyn tr key v, .dyn tr', g =>
    tr = tr' ∧ ∃ forTy gd loc, (tr, forTy) ∈ η.dyns ∧ key = Sem.tyKey forTy ∧ HasTy env η v forTy ∧ VRel env η v forTy gd ∧
      (loc, vtableVal env tr forTy) ∈ η.imm ∧ g = .struct (dynStructName tr) [("data", gd), ("vtable", .ptr loc)]
  | _, _, _ => False
def VRels (env : Env) (η : Hp) : List Val → List Ty → List GVal → Prop
  | [], [], [] => True
  | v :: vs, t :: ts, g :: gs => VRel env η v t g ∧ VRels env η vs ts gs
  | _, _, _ => False
end

theorem hasTy_bool {env : Env} {η : Hp} {v : Val} (h : HasTy env η v .bool) : ∃ b, v = .bool b := by
  cases v <;> simp [HasTy] at h; exact ⟨_, rfl⟩
theorem hasTy_unit {env : Env} {η : Hp} {v : Val} (h : HasTy env η v .unit) : v = .unit := by
  cases v <;> simp [HasTy] at h; rfl
theorem hasTy_str {env : Env} {η : Hp} {v : Val} (h : HasTy env η v .string) : ∃ s, v = .str s := by
  cases v <;> simp [HasTy] at h; exact ⟨_, rfl⟩
theorem hasTy_int {env : Env} {η : Hp} {v : Val} {b s} (h : HasTy env η v (.int b s)) : ∃ x, v = .int b s x := by
  cases v <;> simp [HasTy] at h; obtain ⟨h1, h2, _⟩ := h; subst h1; subst h2; exact ⟨_, rfl⟩

/-- integer values of the fragment are in the range of their type (literals are checked, every operation wraps) -/
theorem hasTy_int_range {env : Env} {η : Hp} {b s x b' s'} (h : HasTy env η (.int b s x) (.int b' s')) : Sem.wrap b s x = x := by
  simp only [HasTy] at h; exact h.2.2

theorem wrap_wrap (b : Nat) (s : Bool) (x : Int) : Sem.wrap b s (Sem.wrap b s x) = Sem.wrap b s x := by
  have hm : (0 : Int) < 2 ^ b := Int.pow_pos (by decide)
  unfold Sem.wrap
  simp only
  generalize (2 : Int) ^ b = m at hm
  have hr0 : 0 ≤ x % m := Int.emod_nonneg _ (by omega)
  have hr1 : x % m < m := Int.emod_lt_of_pos _ hm
  have hrr : x % m % m = x % m := Int.emod_eq_of_lt hr0 hr1
  by_cases hc : (s && decide (x % m ≥ m / 2)) = true
  · simp only [hc, if_true]
    have : (x % m - m) % m = x % m := by
      have h := Int.add_mul_emod_self_right (x % m) (-1) m
      have e : x % m + -1 * m = x % m - m := by omega
      rw [e] at h; rw [h, hrr]
    rw [this]; simp only [hc, if_true]
  · simp only [hc, Bool.false_eq_true, if_false, hrr]

/-- on values of scalar type the image is `C01.toG` -/
theorem VRel_scalar {env : Env} {η : Hp} {v : Val} {t : Ty} {g : GVal} (h : HasTy env η v t) (hs : scalarTy t = true) :
    VRel env η v t g ↔ toG v = some g := by
  cases v <;> cases t <;> simp [HasTy, scalarTy] at h hs <;> simp [VRel, toG, eq_comm]

theorem VRels_length {env : Env} {η : Hp} : ∀ {vs : List Val} {ts : List Ty} {gs : List GVal}, VRels env η vs ts gs →
    vs.length = gs.length ∧ ts.length = gs.length
  | [], [], [], _ => ⟨rfl, rfl⟩
  | [], [], _ :: _, h | [], _ :: _, _, h | _ :: _, [], _, h | _ :: _, _ :: _, [], h => by simp [VRels] at h
  | v :: vs, t :: ts, g :: gs, h => by
    simp only [VRels] at h
    have := VRels_length h.2
    simp [this.1, this.2]

/-- the Go heap cell of a `Ref` of element type `e` holding `gv`: `&ref_T{value: gv}` -/
def refCell (e : Ty) (gv : GVal) : GVal := .struct (refStructName e) [("value", gv)]

/-- worlds: what a run shows (`Sem.Outcome` compares `out` and `externs`), and the store against the
    heap: cell `l` of the store has the type `η.tys[l]`, and its Go image is the cell struct at `η.locs[l]` -/
structure WRel (env : Env) (η : Hp) (w : World) (gw : GWorld) : Prop where
  out : gw.out = w.out
  externs : gw.externs = w.externs
  lenT : η.tys.length = w.store.size
  lenL : η.locs.length = w.store.size
  inj : η.locs.Nodup
  bound : ∀ gl, gl ∈ η.locs → gl < gw.heap.size
  cells : ∀ (l : Nat) (v : Val), w.store[l]? = some v → ∃ (e : Ty) (gl : Nat) (gv : GVal), η.tys[l]? = some e ∧ η.locs[l]? = some gl ∧ HasTy env η v e ∧
    VRel env η v e gv ∧ gw.heap[gl]? = some (refCell e gv)
  /-- the immutable cells are in the heap with their content, apart from the cells of references -/
  imm : ∀ loc c, (loc, c) ∈ η.imm → gw.heap[loc]? = some c ∧ ¬ loc ∈ η.locs
  /-- the no-spare-capacity growth policy: an `append` never writes into a backing array in place -/
  cap : gw.capPolicy = 0
  /-- the same `go` schedule on both sides -/
  eager : gw.eager = w.eager

/-- printing: only `out` changes, the same way on both sides -/
theorem WRel.print {env : Env} {η : Hp} {w : World} {gw : GWorld} (hw : WRel env η w gw) (s : String) :
    WRel env η { w with out := w.out ++ s } { gw with out := gw.out ++ s } :=
  ⟨by simp [hw.out], hw.externs, hw.lenT, hw.lenL, hw.inj, hw.bound, hw.cells, hw.imm, hw.cap, hw.eager⟩

/-- a spawned activation (non-eager `go`): neither side looks at the list again -/
theorem WRel.spawn {env : Env} {η : Hp} {w : World} {gw : GWorld} (hw : WRel env η w gw) (v : Val) (g : GVal × List GVal) :
    WRel env η { w with spawned := w.spawned ++ [v] } { gw with spawned := gw.spawned ++ [g] } :=
  ⟨hw.out, hw.externs, hw.lenT, hw.lenL, hw.inj, hw.bound, hw.cells, hw.imm, hw.cap, hw.eager⟩

/-- the empty store against the empty heap -/
theorem WRel.init (env : Env) (eager : Bool) (fns : List (String × List Ty × Ty) := []) (dyns : List (String × Ty) := []) :
    WRel env { fns := fns, dyns := dyns } { eager := eager } { eager := eager, capPolicy := 0 } :=
  ⟨rfl, rfl, rfl, rfl, List.nodup_nil, fun gl h => by simp [Hp.locs] at h, fun l v h => by simp at h,
    fun loc c h => by simp [Hp.imm] at h, rfl, rfl⟩

/-! ### environments -/

def EnvRel (env : Env) (η : Hp) (Γ : Ctx) (ρ : Sem.Env) (gρ : GEnv) : Prop :=
  (∀ x t, lookupTy Γ x = some t →
    ∃ v gv, Sem.lookupEnv ρ x = some v ∧ lookupG gρ (vn x) = some gv ∧ VRel env η v t gv ∧ HasTy env η v t) ∧
  (∀ x, lookupTy Γ x = none → Sem.lookupEnv ρ x = none)

/-- what is known about the variants of variables (`K`) holds of the environment -/
def KRel (K : KCtx) (ρ : Sem.Env) : Prop :=
  ∀ x i, lookupK K x = some i → ∃ n vs, Sem.lookupEnv ρ x = some (.enumV n i vs)

theorem lookupTy_cons_self (Γ : Ctx) (x : String) (t : Ty) : lookupTy ((x, t) :: Γ) x = some t := by
  simp [lookupTy, List.find?_cons]

theorem lookupTy_cons_ne (Γ : Ctx) {x y : String} (t : Ty) (h : x ≠ y) : lookupTy ((x, t) :: Γ) y = lookupTy Γ y := by
  have : (x == y) = false := by simp [h]
  simp [lookupTy, List.find?_cons, this]

theorem lookupEnv_cons_self (ρ : Sem.Env) (x : String) (v : Val) : Sem.lookupEnv ((x, v) :: ρ) x = some v := by
  simp [Sem.lookupEnv, List.find?_cons]

theorem lookupEnv_cons_ne (ρ : Sem.Env) {x y : String} (v : Val) (h : x ≠ y) :
    Sem.lookupEnv ((x, v) :: ρ) y = Sem.lookupEnv ρ y := by
  have : (x == y) = false := by simp [h]
  simp [Sem.lookupEnv, List.find?_cons, this]

/-! ### known variants -/

theorem KRel.nil (ρ : Sem.Env) : KRel [] ρ := by
  intro x i h; simp [lookupK] at h

theorem lookupK_cons_self (K : KCtx) (x : String) (i : Nat) : lookupK ((x, i) :: K) x = some i := by
  simp [lookupK, List.find?_cons]

theorem lookupK_cons_ne (K : KCtx) {x y : String} (i : Nat) (h : x ≠ y) : lookupK ((x, i) :: K) y = lookupK K y := by
  have : (x == y) = false := by simp [h]
  simp [lookupK, List.find?_cons, this]

theorem lookupK_erase_self : ∀ (K : KCtx) (x : String), lookupK (eraseK K x) x = none
  | [], x => rfl
  | (y, j) :: K, x => by
    by_cases h : y = x
    · subst h
      have : eraseK ((y, j) :: K) y = eraseK K y := by simp [eraseK, List.filter_cons]
      rw [this]; exact lookupK_erase_self K y
    · have : eraseK ((y, j) :: K) x = (y, j) :: eraseK K x := by simp [eraseK, List.filter_cons, h]
      rw [this, lookupK_cons_ne _ _ h]; exact lookupK_erase_self K x

theorem lookupK_erase_ne : ∀ (K : KCtx) {x z : String}, x ≠ z → lookupK (eraseK K x) z = lookupK K z
  | [], x, z, _ => rfl
  | (y, j) :: K, x, z, hne => by
    by_cases h : y = x
    · subst h
      have : eraseK ((y, j) :: K) y = eraseK K y := by simp [eraseK, List.filter_cons]
      rw [this, lookupK_cons_ne _ _ hne]; exact lookupK_erase_ne K hne
    · have : eraseK ((y, j) :: K) x = (y, j) :: eraseK K x := by simp [eraseK, List.filter_cons, h]
      rw [this]
      by_cases hz : y = z
      · subst hz; rw [lookupK_cons_self, lookupK_cons_self]
      · rw [lookupK_cons_ne _ _ hz, lookupK_cons_ne _ _ hz]; exact lookupK_erase_ne K hne

/-- a `let x`: what was known about other variables stays -/
theorem KRel.bind {K : KCtx} {ρ : Sem.Env} (h : KRel K ρ) (x : String) (v : Val) : KRel (eraseK K x) ((x, v) :: ρ) := by
  intro z i hz
  by_cases hxz : x = z
  · subst hxz; rw [lookupK_erase_self] at hz; cases hz
  · rw [lookupK_erase_ne K hxz] at hz
    obtain ⟨n, vs, hl⟩ := h z i hz
    exact ⟨n, vs, by rw [lookupEnv_cons_ne _ _ hxz]; exact hl⟩

/-- inside the arm a `match` selected -/
theorem KRel.know {K : KCtx} {ρ : Sem.Env} (h : KRel K ρ) {x : String} {n : String} {i : Nat} {vs : List Val}
    (hx : Sem.lookupEnv ρ x = some (.enumV n i vs)) : KRel ((x, i) :: K) ρ := by
  intro z j hz
  by_cases hxz : x = z
  · subst hxz; rw [lookupK_cons_self] at hz; injection hz with hz; subst hz; exact ⟨n, vs, hx⟩
  · rw [lookupK_cons_ne _ _ hxz] at hz; exact h z j hz

/-- a `let`: both environments grow by the same binding; the Go name is new -/
theorem EnvRel.cons {env : Env} {η : Hp} {Γ ρ gρ} (h : EnvRel env η Γ ρ gρ) {x : String} {t : Ty} {v : Val} {gv : GVal}
    (hfresh : ¬ vn x ∈ keys gρ) (hg : VRel env η v t gv) (ht : HasTy env η v t) :
    EnvRel env η ((x, t) :: Γ) ((x, v) :: ρ) ((vn x, gv) :: gρ) := by
  refine ⟨fun y ty hy => ?_, fun y hy => ?_⟩
  · by_cases hxy : x = y
    · subst hxy
      rw [lookupTy_cons_self] at hy; injection hy with hy; subst hy
      exact ⟨v, gv, lookupEnv_cons_self _ _ _, lookup_cons_self _ _ _, hg, ht⟩
    · rw [lookupTy_cons_ne _ _ hxy] at hy
      obtain ⟨v', gv', h1, h2, h3, h4⟩ := h.1 y ty hy
      have hne : vn x ≠ vn y := fun e => hfresh (by rw [e]; exact key_of_lookup_some h2)
      exact ⟨v', gv', by rw [lookupEnv_cons_ne _ _ hxy]; exact h1, by rw [lookup_cons_ne _ _ hne]; exact h2, h3, h4⟩
  · by_cases hxy : x = y
    · subst hxy; rw [lookupTy_cons_self] at hy; cases hy
    · rw [lookupTy_cons_ne _ _ hxy] at hy
      rw [lookupEnv_cons_ne _ _ hxy]; exact h.2 y hy

/-- the Go environment may change where no variable in scope lives -/
theorem EnvRel.go_agree {env : Env} {η : Hp} {Γ ρ gρ gρ'} (h : EnvRel env η Γ ρ gρ)
    (hag : ∀ x t, lookupTy Γ x = some t → lookupG gρ' (vn x) = lookupG gρ (vn x)) : EnvRel env η Γ ρ gρ' := by
  refine ⟨fun y ty hy => ?_, h.2⟩
  obtain ⟨v', gv', h1, h2, h3, h4⟩ := h.1 y ty hy
  exact ⟨v', gv', h1, by rw [hag y ty hy]; exact h2, h3, h4⟩

/-! ### a grown store keeps what was related -/

mutual
theorem HasTy_mono {env : Env} {η η' : Hp} (hle : η.le η') : ∀ (v : Val) (t : Ty), HasTy env η v t → HasTy env η' v t
  | .structV n vs, t, h => by
    cases t <;> simp only [HasTy] at h ⊢ <;> try exact h.elim
    obtain ⟨h1, h2, h3⟩ := h
    refine ⟨h1, h2, ?_⟩
    cases hd : env.getStruct n with
    | none => rw [hd] at h3; exact h3.elim
    | some d => rw [hd] at h3; exact HasTys_mono hle vs _ h3
  | .enumV n idx vs, t, h => by
    cases t <;> simp only [HasTy] at h ⊢ <;> try exact h.elim
    obtain ⟨h1, h2, h3⟩ := h
    refine ⟨h1, h2, ?_⟩
    cases hd : env.getEnum n with
    | none => rw [hd] at h3; exact h3.elim
    | some d =>
      rw [hd] at h3; simp only at h3 ⊢
      cases hv : d.variants[idx]? with
      | none => rw [hv] at h3; exact h3.elim
      | some vd => rw [hv] at h3; exact HasTys_mono hle vs _ h3
  | .ref l, t, h => by
    cases t <;> simp only [HasTy] at h ⊢ <;> try exact h.elim
    exact prefix_get hle.1 h
  | .unit, t, h => by cases t <;> simp only [HasTy] at h ⊢ <;> exact h
  | .bool _, t, h => by cases t <;> simp only [HasTy] at h ⊢ <;> exact h
  | .int _ _ _, t, h => by cases t <;> simp only [HasTy] at h ⊢ <;> exact h
  | .str _, t, h => by cases t <;> simp only [HasTy] at h ⊢ <;> exact h
  | .float _ _, t, h => by cases t <;> simp only [HasTy] at h
  | .tuple vs, t, h => by
    cases t <;> simp only [HasTy] at h ⊢ <;> try exact h.elim
    exact HasTys_mono hle vs _ h
  | .array vs, t, h => by
    cases t <;> simp only [HasTy] at h ⊢ <;> try exact h.elim
    exact ⟨h.1, HasTys_mono hle vs _ h.2⟩
  | .vec vs, t, h => by
    cases t <;> simp only [HasTy] at h ⊢ <;> try exact h.elim
    exact HasTys_mono hle vs _ h
  | .closure _ _ _, t, h => by cases t <;> simp only [HasTy] at h
  | .fn _, t, h => by
    cases t <;> simp only [HasTy] at h ⊢ <;> try exact h.elim
    rw [hle.2.2.1]; exact h
  | .dyn tr key v, t, h => by
    cases t <;> simp only [HasTy] at h ⊢ <;> try exact h.elim
    obtain ⟨h0, forTy, h1, h2, h3⟩ := h
    exact ⟨h0, forTy, by rw [hle.2.2.2.2]; exact h1, h2, HasTy_mono hle v forTy h3⟩
theorem HasTys_mono {env : Env} {η η' : Hp} (hle : η.le η') : ∀ (vs : List Val) (ts : List Ty), HasTys env η vs ts → HasTys env η' vs ts
  | [], [], _ => by simp [HasTys]
  | [], _ :: _, h => by simp [HasTys] at h
  | _ :: _, [], h => by simp [HasTys] at h
  | v :: vs, t :: ts, h => by
    simp only [HasTys] at h ⊢
    exact ⟨HasTy_mono hle v t h.1, HasTys_mono hle vs ts h.2⟩
end

mutual
theorem VRel_mono {env : Env} {η η' : Hp} (hle : η.le η') : ∀ (v : Val) (t : Ty) (g : GVal), VRel env η v t g → VRel env η' v t g
  | .unit, t, g, h => by simpa [VRel] using h
  | .bool _, t, g, h => by simpa [VRel] using h
  | .int _ _ _, t, g, h => by simpa [VRel] using h
  | .str _, t, g, h => by simpa [VRel] using h
  | .fn _, t, g, h => by simpa [VRel] using h
  | .float _ _, t, g, h => by simp [VRel] at h
  | .closure _ _ _, t, g, h => by simp [VRel] at h
  | .dyn tr key v, t, g, h => by
    cases t <;> simp only [VRel] at h ⊢ <;> try exact h.elim
    obtain ⟨h0, forTy, gd, loc, h1, h2, h3, h4, h5, h6⟩ := h
    exact ⟨h0, forTy, gd, loc, by rw [hle.2.2.2.2]; exact h1, h2, HasTy_mono hle v forTy h3, VRel_mono hle v forTy gd h4,
      hle.2.2.2.1 _ h5, h6⟩
  | .ref l, t, g, h => by
    simp only [VRel] at h ⊢
    obtain ⟨gl, h1, h2⟩ := h
    exact ⟨gl, prefix_get hle.2.1 h1, h2⟩
  | .structV n vs, t, g, h => by
    simp only [VRel] at h ⊢
    cases hd : env.getStruct n with
    | none => rw [hd] at h; exact h.elim
    | some d =>
      rw [hd] at h; simp only at h ⊢
      obtain ⟨gs, h1, h2⟩ := h
      exact ⟨gs, VRels_mono hle vs _ gs h1, h2⟩
  | .enumV n idx vs, t, g, h => by
    simp only [VRel] at h ⊢
    cases hd : env.getEnum n with
    | none => rw [hd] at h; exact h.elim
    | some d =>
      rw [hd] at h; simp only at h ⊢
      cases hv : d.variants[idx]? with
      | none => rw [hv] at h; exact h.elim
      | some vd =>
        rw [hv] at h; simp only at h ⊢
        obtain ⟨gs, h1, h2⟩ := h
        exact ⟨gs, VRels_mono hle vs _ gs h1, h2⟩
  | .tuple vs, t, g, h => by
    cases t <;> simp only [VRel] at h ⊢ <;> try exact h.elim
    obtain ⟨gs, h1, h2⟩ := h
    exact ⟨gs, VRels_mono hle vs _ gs h1, h2⟩
  | .array vs, t, g, h => by
    cases t <;> simp only [VRel] at h ⊢ <;> try exact h.elim
    obtain ⟨gs, h1, h2⟩ := h
    exact ⟨gs, VRels_mono hle vs _ gs h1, h2⟩
  | .vec vs, t, g, h => by
    cases t <;> simp only [VRel] at h ⊢ <;> try exact h.elim
    rcases h with h | ⟨hne, loc, gs, h1, h2, h3⟩
    · exact Or.inl h
    · exact Or.inr ⟨hne, loc, gs, hle.2.2.2.1 _ h1, VRels_mono hle vs _ gs h2, h3⟩
theorem VRels_mono {env : Env} {η η' : Hp} (hle : η.le η') : ∀ (vs : List Val) (ts : List Ty) (gs : List GVal),
    VRels env η vs ts gs → VRels env η' vs ts gs
  | [], [], [], _ => by simp [VRels]
  | [], [], _ :: _, h | [], _ :: _, _, h | _ :: _, [], _, h | _ :: _, _ :: _, [], h => by simp [VRels] at h
  | v :: vs, t :: ts, g :: gs, h => by
    simp only [VRels] at h ⊢
    exact ⟨VRel_mono hle v t g h.1, VRels_mono hle vs ts gs h.2⟩
end

theorem EnvRel.mono {env : Env} {η η' : Hp} {Γ ρ gρ} (h : EnvRel env η Γ ρ gρ) (hle : η.le η') : EnvRel env η' Γ ρ gρ := by
  refine ⟨fun x t hx => ?_, h.2⟩
  obtain ⟨v, gv, h1, h2, h3, h4⟩ := h.1 x t hx
  exact ⟨v, gv, h1, h2, VRel_mono hle v t gv h3, HasTy_mono hle v t h4⟩

/-! ### Go environments: lookups under prefixes and updates -/

theorem lookup_append_right {D : GEnv} {y : String} (h : ¬ y ∈ keys D) (ρ : GEnv) :
    lookupG (D ++ ρ) y = lookupG ρ y := by
  induction D with
  | nil => rfl
  | cons p D ih =>
    obtain ⟨x, v⟩ := p
    simp only [keys, List.map_cons, List.mem_cons, not_or] at h
    rw [List.cons_append, lookup_cons_ne _ _ (fun e => h.1 e.symm)]
    exact ih h.2

theorem keys_append (D ρ : GEnv) : keys (D ++ ρ) = keys D ++ keys ρ := by simp [keys]

theorem update_append_left {D : GEnv} {t : String} (h : ¬ t ∈ keys D) (ρ : GEnv) (v : GVal) :
    updateG (D ++ ρ) t v = D ++ updateG ρ t v := by
  induction D with
  | nil => rfl
  | cons p D ih =>
    obtain ⟨x, u⟩ := p
    simp only [keys, List.map_cons, List.mem_cons, not_or] at h
    have hx : (x == t) = false := by
      have : ¬ x = t := fun e => h.1 e.symm
      simp [this]
    rw [List.cons_append]
    show (if x == t then _ else _) = _
    rw [hx]; simp only [Bool.false_eq_true, if_false]
    rw [ih h.2]; rfl

theorem update_cons_self (t : String) (z v : GVal) (ρ : GEnv) : updateG ((t, z) :: ρ) t v = (t, v) :: ρ := by
  show (if t == t then _ else _) = _
  simp

theorem update_update (t : String) (a b : GVal) : ∀ ρ : GEnv, updateG (updateG ρ t a) t b = updateG ρ t b
  | [] => rfl
  | (y, w) :: ρ => by
    by_cases h : (y == t) = true
    · show updateG (if y == t then _ else _) t b = (if y == t then _ else _)
      rw [if_pos h, if_pos h]
      show (if y == t then _ else _) = _
      rw [if_pos h]
    · show updateG (if y == t then _ else _) t b = (if y == t then _ else _)
      rw [if_neg h, if_neg h]
      show (if y == t then _ else _) = _
      rw [if_neg h, update_update t a b ρ]

theorem length_update (t : String) (v : GVal) : ∀ ρ : GEnv, (updateG ρ t v).length = ρ.length
  | [] => rfl
  | (y, w) :: ρ => by
    show (if y == t then _ else _ : GEnv).length = _
    split
    · rfl
    · simp [length_update t v ρ]

/-- popping a nested block: what it declared goes, the rest stays -/
theorem pop_append (D U ρ : GEnv) (h : U.length = ρ.length) : (D ++ U).drop ((D ++ U).length - ρ.length) = U := by
  rw [← h]; simp

/-! ### the Go-side name invariant (block-scoped) -/

/-- scope after a statement list (top-level declarations added) -/
def scopeAfter : List GStmt → List String → List String
  | [], sc => sc
  | s :: rest, sc => scopeAfter rest (Goml.Dce.declScope s sc)

/-- the names a statement list adds to the scope of what follows it: its top-level `var`s -/
def topDecls : List GStmt → List String
  | [] => []
  | .varDecl x _ _ :: rest => x :: topDecls rest
  | _ :: rest => topDecls rest

theorem scopeAfter_append (a b : List GStmt) (sc : List String) : scopeAfter (a ++ b) sc = scopeAfter b (scopeAfter a sc) := by
  induction a generalizing sc with
  | nil => rfl
  | cons s a ih => simp [scopeAfter, ih]

theorem scopeAfter_mem : ∀ (a : List GStmt) (sc : List String) (y : String), y ∈ scopeAfter a sc ↔ y ∈ sc ∨ y ∈ topDecls a
  | [], sc, y => by simp [scopeAfter, topDecls]
  | s :: a, sc, y => by
    rw [scopeAfter, scopeAfter_mem a]
    cases s <;> simp only [Goml.Dce.declScope, topDecls, List.mem_cons]
    constructor
    · rintro ((h | h) | h)
      · exact Or.inr (Or.inl h)
      · exact Or.inl h
      · exact Or.inr (Or.inr h)
    · rintro (h | h | h)
      · exact Or.inl (Or.inr h)
      · exact Or.inl (Or.inl h)
      · exact Or.inr h

theorem topDecls_append (a b : List GStmt) : topDecls (a ++ b) = topDecls a ++ topDecls b := by
  induction a with
  | nil => rfl
  | cons s a ih => cases s <;> simp [topDecls, ih]

mutual
/-- fewer names in sight, fewer conflicts -/
theorem sokB_anti {ok : String → Bool} : ∀ (S : List GStmt) {K K' : List String}, (∀ y, y ∈ K' → y ∈ K) →
    sokB ok K S = true → sokB ok K' S = true
  | [], _, _, _, _ => by simp [sokB]
  | s :: rest, K, K', hsub, h => by
    simp only [sokB, Bool.and_eq_true] at h ⊢
    refine ⟨sokStmtB_anti s hsub h.1, sokB_anti rest (fun y hy => ?_) h.2⟩
    cases s <;> simp only [Goml.Dce.declScope] at hy ⊢ <;> first
      | exact hsub y hy
      | (rcases List.mem_cons.mp hy with rfl | hy
         · exact List.mem_cons_self
         · exact List.mem_cons_of_mem _ (hsub y hy))
theorem sokStmtB_anti {ok : String → Bool} : ∀ (s : GStmt) {K K' : List String}, (∀ y, y ∈ K' → y ∈ K) →
    sokStmtB ok K s = true → sokStmtB ok K' s = true
  | .varDecl x _ _, K, K', hsub, h => by
    simp only [sokStmtB, Bool.and_eq_true, Bool.not_eq_true', List.contains_eq_mem, decide_eq_false_iff_not] at h ⊢
    exact ⟨fun hx => h.1 (hsub x hx), h.2⟩
  | .ite _ t none, K, K', hsub, h => by
    simp only [sokStmtB, Bool.and_true] at h ⊢; exact sokB_anti t hsub h
  | .ite _ t (some e), K, K', hsub, h => by
    simp only [sokStmtB, Bool.and_eq_true] at h ⊢; exact ⟨sokB_anti t hsub h.1, sokB_anti e hsub h.2⟩
  | .loop b, K, K', hsub, h => by simp only [sokStmtB] at h ⊢; exact sokB_anti b hsub h
  | .switch _ cs none, K, K', hsub, h => by
    simp only [sokStmtB, Bool.and_true] at h ⊢; exact sokCasesB_anti cs hsub h
  | .switch _ cs (some d), K, K', hsub, h => by
    simp only [sokStmtB, Bool.and_eq_true] at h ⊢; exact ⟨sokCasesB_anti cs hsub h.1, sokB_anti d hsub h.2⟩
  | .tswitch _ _ cs none, K, K', hsub, h => by
    simp only [sokStmtB, Bool.and_true] at h ⊢; exact sokTCasesB_anti cs hsub h
  | .tswitch _ _ cs (some d), K, K', hsub, h => by
    simp only [sokStmtB, Bool.and_eq_true] at h ⊢; exact ⟨sokTCasesB_anti cs hsub h.1, sokB_anti d hsub h.2⟩
  | .expr _, _, _, _, _ | .go _, _, _, _, _ | .assign _ _, _, _, _, _ | .fieldAssign _ _, _, _, _, _ | .ptrAssign _ _, _, _, _, _
  | .indexAssign _ _ _, _, _, _, _ | .ret _, _, _, _, _ | .brk, _, _, _, _ => by simp [sokStmtB]
theorem sokCasesB_anti {ok : String → Bool} : ∀ (cs : List GCase) {K K' : List String}, (∀ y, y ∈ K' → y ∈ K) →
    sokCasesB ok K cs = true → sokCasesB ok K' cs = true
  | [], _, _, _, _ => by simp [sokCasesB]
  | .mk _ b :: rest, K, K', hsub, h => by
    simp only [sokCasesB, Bool.and_eq_true] at h ⊢; exact ⟨sokB_anti b hsub h.1, sokCasesB_anti rest hsub h.2⟩
theorem sokTCasesB_anti {ok : String → Bool} : ∀ (cs : List GTCase) {K K' : List String}, (∀ y, y ∈ K' → y ∈ K) →
    sokTCasesB ok K cs = true → sokTCasesB ok K' cs = true
  | [], _, _, _, _ => by simp [sokTCasesB]
  | .mk _ b :: rest, K, K', hsub, h => by
    simp only [sokTCasesB, Bool.and_eq_true] at h ⊢; exact ⟨sokB_anti b hsub h.1, sokTCasesB_anti rest hsub h.2⟩
end

theorem allDecls_append (a b : List GStmt) : Goml.Dce.allDecls (a ++ b) = Goml.Dce.allDecls a ++ Goml.Dce.allDecls b := by
  induction a with
  | nil => simp [Goml.Dce.allDecls]
  | cons s a ih => simp [Goml.Dce.allDecls, ih, List.append_assoc]

mutual
/-- the declaration test may be replaced by one that every declared name passes -/
theorem sokB_weaken {ok ok' : String → Bool} : ∀ (S : List GStmt) {K : List String},
    (∀ y, y ∈ Goml.Dce.allDecls S → ok' y = true) → sokB ok K S = true → sokB ok' K S = true
  | [], _, _, _ => by simp [sokB]
  | s :: rest, K, hok, h => by
    simp only [sokB, Bool.and_eq_true] at h ⊢
    exact ⟨sokStmtB_weaken s (fun y hy => hok y (by simp only [Goml.Dce.allDecls, List.mem_append]; exact Or.inl hy)) h.1,
      sokB_weaken rest (fun y hy => hok y (by simp only [Goml.Dce.allDecls, List.mem_append]; exact Or.inr hy)) h.2⟩
theorem sokStmtB_weaken {ok ok' : String → Bool} : ∀ (s : GStmt) {K : List String},
    (∀ y, y ∈ Goml.Dce.declsOf s → ok' y = true) → sokStmtB ok K s = true → sokStmtB ok' K s = true
  | .varDecl x _ _, K, hok, h => by
    simp only [sokStmtB, Bool.and_eq_true] at h ⊢
    exact ⟨h.1, hok x (by simp [Goml.Dce.declsOf])⟩
  | .ite _ t none, K, hok, h => by
    simp only [sokStmtB, Bool.and_true] at h ⊢
    exact sokB_weaken t (fun y hy => hok y (by simp [Goml.Dce.declsOf, hy])) h
  | .ite _ t (some e), K, hok, h => by
    simp only [sokStmtB, Bool.and_eq_true] at h ⊢
    exact ⟨sokB_weaken t (fun y hy => hok y (by simp [Goml.Dce.declsOf, hy])) h.1,
      sokB_weaken e (fun y hy => hok y (by simp [Goml.Dce.declsOf, hy])) h.2⟩
  | .loop b, K, hok, h => by
    simp only [sokStmtB] at h ⊢
    exact sokB_weaken b (fun y hy => hok y (by simp [Goml.Dce.declsOf, hy])) h
  | .switch _ cs none, K, hok, h => by
    simp only [sokStmtB, Bool.and_true] at h ⊢
    exact sokCasesB_weaken cs (fun y hy => hok y (by simp [Goml.Dce.declsOf, hy])) h
  | .switch _ cs (some d), K, hok, h => by
    simp only [sokStmtB, Bool.and_eq_true] at h ⊢
    exact ⟨sokCasesB_weaken cs (fun y hy => hok y (by simp [Goml.Dce.declsOf, hy])) h.1,
      sokB_weaken d (fun y hy => hok y (by simp [Goml.Dce.declsOf, hy])) h.2⟩
  | .tswitch _ _ cs none, K, hok, h => by
    simp only [sokStmtB, Bool.and_true] at h ⊢
    exact sokTCasesB_weaken cs (fun y hy => hok y (by simp [Goml.Dce.declsOf, hy])) h
  | .tswitch _ _ cs (some d), K, hok, h => by
    simp only [sokStmtB, Bool.and_eq_true] at h ⊢
    exact ⟨sokTCasesB_weaken cs (fun y hy => hok y (by simp [Goml.Dce.declsOf, hy])) h.1,
      sokB_weaken d (fun y hy => hok y (by simp [Goml.Dce.declsOf, hy])) h.2⟩
  | .expr _, _, _, _ | .go _, _, _, _ | .assign _ _, _, _, _ | .fieldAssign _ _, _, _, _ | .ptrAssign _ _, _, _, _
  | .indexAssign _ _ _, _, _, _ | .ret _, _, _, _ | .brk, _, _, _ => by simp [sokStmtB]
theorem sokCasesB_weaken {ok ok' : String → Bool} : ∀ (cs : List GCase) {K : List String},
    (∀ y, y ∈ Goml.Dce.declsCases cs → ok' y = true) → sokCasesB ok K cs = true → sokCasesB ok' K cs = true
  | [], _, _, _ => by simp [sokCasesB]
  | .mk _ b :: rest, K, hok, h => by
    simp only [sokCasesB, Bool.and_eq_true] at h ⊢
    exact ⟨sokB_weaken b (fun y hy => hok y (by simp [Goml.Dce.declsCases, hy])) h.1,
      sokCasesB_weaken rest (fun y hy => hok y (by simp [Goml.Dce.declsCases, hy])) h.2⟩
theorem sokTCasesB_weaken {ok ok' : String → Bool} : ∀ (cs : List GTCase) {K : List String},
    (∀ y, y ∈ Goml.Dce.declsTCases cs → ok' y = true) → sokTCasesB ok K cs = true → sokTCasesB ok' K cs = true
  | [], _, _, _ => by simp [sokTCasesB]
  | .mk _ b :: rest, K, hok, h => by
    simp only [sokTCasesB, Bool.and_eq_true] at h ⊢
    exact ⟨sokB_weaken b (fun y hy => hok y (by simp [Goml.Dce.declsTCases, hy])) h.1,
      sokTCasesB_weaken rest (fun y hy => hok y (by simp [Goml.Dce.declsTCases, hy])) h.2⟩
end

theorem sokB_append {ok : String → Bool} : ∀ (a b : List GStmt) (K : List String),
    sokB ok K (a ++ b) = (sokB ok K a && sokB ok (scopeAfter a K) b)
  | [], b, K => by simp [sokB, scopeAfter]
  | s :: a, b, K => by simp only [List.cons_append, sokB, scopeAfter, sokB_append a b, Bool.and_assoc]

/-- the top-level declarations pass `ok` and are new -/
theorem sokB_top {ok : String → Bool} : ∀ (S : List GStmt) (K : List String), sokB ok K S = true →
    ∀ y, y ∈ topDecls S → ok y = true ∧ ¬ y ∈ K
  | [], _, _, y, hy => by simp [topDecls] at hy
  | s :: rest, K, h, y, hy => by
    simp only [sokB, Bool.and_eq_true] at h
    cases s with
    | varDecl x T v =>
      simp only [sokStmtB, Bool.and_eq_true, Bool.not_eq_true', List.contains_eq_mem, decide_eq_false_iff_not] at h
      simp only [topDecls, List.mem_cons] at hy
      rcases hy with rfl | hy
      · exact ⟨h.1.2, h.1.1⟩
      · have := sokB_top rest _ h.2 y hy
        simp only [Goml.Dce.declScope, List.mem_cons, not_or] at this
        exact ⟨this.1, this.2.2⟩
    | _ =>
      simp only [topDecls] at hy
      have := sokB_top rest _ h.2 y hy
      simpa [Goml.Dce.declScope] using this

/-- the declaration test of the simulation: not one of `Bad` (`_`, the Go names of the callees and of the functions that
    may be values) -/
def notBad (Bad : List String) (x : String) : Bool := !Bad.contains x

/-- `S` is about to run in `gρ`: every `var` of `S` is new in its scope — the variables of `gρ` and what `S` declared
    before it in an enclosing block — and neither it nor a variable in sight is one of `Bad` -/
structure GInv (Bad : List String) (S : List GStmt) (gρ : GEnv) : Prop where
  sok : sokB (notBad Bad) (keys gρ) S = true
  goodK : ∀ y, y ∈ keys gρ → ¬ y ∈ Bad

theorem GInv.left {Bad a b gρ} (h : GInv Bad (a ++ b) gρ) : GInv Bad a gρ := by
  have := h.sok; rw [sokB_append, Bool.and_eq_true] at this
  exact ⟨this.1, h.goodK⟩

/-- after the first part ran: it pushed `D` (top-level names it declares) and kept the keys of the rest -/
theorem GInv.right {Bad a b gρ} (h : GInv Bad (a ++ b) gρ) {D U : GEnv} (hU : keys U = keys gρ)
    (hD : ∀ y, y ∈ keys D → y ∈ topDecls a) : GInv Bad b (D ++ U) := by
  have hs := h.sok; rw [sokB_append, Bool.and_eq_true] at hs
  refine ⟨sokB_anti b (fun y hy => ?_) hs.2, fun y hy => ?_⟩
  · rw [keys_append, List.mem_append, hU] at hy
    rw [scopeAfter_mem]
    exact hy.elim (fun h => Or.inr (hD y h)) Or.inl
  · rw [keys_append, List.mem_append, hU] at hy
    rcases hy with hk | hk
    · have := (sokB_top a _ hs.1 y (hD y hk)).1
      simpa [notBad] using this
    · exact h.goodK y hk

theorem GInv.keys_eq {Bad S gρ gρ'} (h : GInv Bad S gρ) (hk : keys gρ' = keys gρ) : GInv Bad S gρ' :=
  ⟨by rw [hk]; exact h.sok, fun y hy => h.goodK y (by rw [← hk]; exact hy)⟩

/-- a `var x` at the head: `x` is new and good, and the rest runs with `x` in sight -/
theorem GInv.varDecl {Bad x T v rest gρ} (h : GInv Bad (.varDecl x T v :: rest) gρ) :
    ¬ x ∈ keys gρ ∧ ¬ x ∈ Bad ∧ sokB (notBad Bad) (x :: keys gρ) rest = true := by
  have := h.sok
  simp only [sokB, sokStmtB, Bool.and_eq_true, Bool.not_eq_true', List.contains_eq_mem, decide_eq_false_iff_not, notBad,
    Goml.Dce.declScope] at this
  exact ⟨this.1.1, this.1.2, this.2⟩

/-- the rest of a block after a `var x` bound to a value -/
theorem GInv.after_varDecl {Bad x T v rest gρ} (h : GInv Bad (.varDecl x T v :: rest) gρ) (g : GVal) :
    GInv Bad rest ((x, g) :: gρ) := by
  obtain ⟨h1, h2, h3⟩ := h.varDecl
  refine ⟨by simpa [Goml.Dce.keys_cons] using h3, fun y hy => ?_⟩
  simp only [Goml.Dce.keys_cons, List.mem_cons] at hy
  rcases hy with rfl | hy
  · exact h2
  · exact h.goodK y hy

/-- a statement that declares nothing at top level -/
theorem GInv.skip {Bad s rest gρ} (h : GInv Bad (s :: rest) gρ) (hs : Goml.Dce.declScope s (keys gρ) = keys gρ) :
    GInv Bad rest gρ := by
  have := h.sok; simp only [sokB, Bool.and_eq_true, hs] at this
  exact ⟨this.2, h.goodK⟩

theorem GInv.ite {Bad c t e rest gρ} (h : GInv Bad (.ite c t (some e) :: rest) gρ) : GInv Bad t gρ ∧ GInv Bad e gρ := by
  have := h.sok; simp only [sokB, sokStmtB, Bool.and_eq_true] at this
  exact ⟨⟨this.1.1, h.goodK⟩, ⟨this.1.2, h.goodK⟩⟩

theorem GInv.ite_none {Bad c t rest gρ} (h : GInv Bad (.ite c t none :: rest) gρ) : GInv Bad t gρ := by
  have := h.sok; simp only [sokB, sokStmtB, Bool.and_eq_true, Bool.and_true] at this
  exact ⟨this.1, h.goodK⟩

theorem GInv.loop {Bad b rest gρ} (h : GInv Bad (.loop b :: rest) gρ) : GInv Bad b gρ := by
  have := h.sok; simp only [sokB, sokStmtB, Bool.and_eq_true] at this
  exact ⟨this.1, h.goodK⟩

/-- re-binding a name that is already a key (a type switch binding its own scrutinee) keeps the invariant -/
theorem GInv.rebind {Bad S gρ} (h : GInv Bad S gρ) {x : String} (hx : x ∈ keys gρ) (v : GVal) : GInv Bad S ((x, v) :: gρ) := by
  refine ⟨sokB_anti S (fun y hy => ?_) h.sok, fun y hk => ?_⟩
  · simp only [Goml.Dce.keys_cons, List.mem_cons] at hy
    rcases hy with rfl | hy
    · exact hx
    · exact hy
  · simp only [Goml.Dce.keys_cons, List.mem_cons] at hk
    rcases hk with rfl | hk
    · exact h.goodK _ hx
    · exact h.goodK y hk

theorem ndDecls_append (a b : List GStmt) : ndDecls (a ++ b) = ndDecls a ++ ndDecls b := by
  induction a with
  | nil => simp [ndDecls]
  | cons s a ih => simp [ndDecls, ih, List.append_assoc]

theorem ndDecls_cons (s : GStmt) (a : List GStmt) : ndDecls (s :: a) = ndDeclsOf s ++ ndDecls a := by
  simp [ndDecls]

theorem vn_def (x : String) : vn x = gid (rn x) := by unfold vn; rfl

mutual
theorem flat_not_absurd : ∀ {t : Ty}, flatTy t = true → absurdTy (goTy t) = false
  | .tuple ts, h => by
    simp only [flatTy] at h
    simp only [goTy, absurdTy]
    exact flats_not_absurd 0 h
  | .ref e, _ => by simp [goTy, absurdTy]
  | .array len e, h => by
    simp only [flatTy, Bool.and_eq_true, decide_eq_true_eq] at h
    simp only [goTy, absurdTy, flat_not_absurd h.2, Bool.or_false, decide_eq_false_iff_not]
    omega
  | .unit, _ | .bool, _ | .string, _ | .int _ _, _ | .struct _, _ | .enum _, _ => by simp [goTy, absurdTy]
  | .func _ _, _ => by simp [goTy, absurdTy]
  | .vec e, h => by simp only [flatTy] at h; simp only [goTy, absurdTy]; exact flat_not_absurd h
  | .dyn _, _ => by simp [goTy, absurdTy]
  | .float _, h | .app _ _, h | .param _, h
  | .tvar _, h => by simp [flatTy, scalarTy] at h
theorem flats_not_absurd : ∀ (i : Nat) {ts : List Ty}, flatTys ts = true → absurdFields (goTyFields i ts) = false
  | i, [], _ => by rw [goTyFields, absurdFields]
  | i, t :: ts, h => by
    simp only [flatTys, Bool.and_eq_true] at h
    rw [goTyFields, absurdFields, flat_not_absurd h.1, flats_not_absurd (i + 1) h.2]; rfl
end

theorem hasTys_len {env : Env} {η : Hp} : ∀ (vs : List Val) (ts : List Ty), HasTys env η vs ts → vs.length = ts.length
  | [], [], _ => rfl
  | [], _ :: _, h => by simp [HasTys] at h
  | _ :: _, [], h => by simp [HasTys] at h
  | v :: vs, t :: ts, h => by simp only [HasTys] at h; simp [hasTys_len vs ts h.2]

theorem ndDecls_ite (c : GExpr) (t e : List GStmt) : ndDecls [GStmt.ite c t (some e)] = ndDecls t ++ ndDecls e := by
  simp [ndDecls, ndDeclsOf]

theorem ndDecls_varDecl (x : String) (ty : GTy) (v : Option GExpr) (rest : List GStmt) :
    ndDecls (GStmt.varDecl x ty v :: rest) = x :: ndDecls rest := by
  simp [ndDecls, ndDeclsOf]

theorem ndDecls_loop (b : List GStmt) (rest : List GStmt) : ndDecls (GStmt.loop b :: rest) = ndDecls b ++ ndDecls rest := by
  simp [ndDecls, ndDeclsOf]

theorem ndDecls_assign (x : String) (e : GExpr) (rest : List GStmt) : ndDecls (GStmt.assign x e :: rest) = ndDecls rest := by
  simp [ndDecls, ndDeclsOf]

theorem ndDecls_ite_none (c : GExpr) (t : List GStmt) (rest : List GStmt) :
    ndDecls (GStmt.ite c t none :: rest) = ndDecls t ++ ndDecls rest := by
  simp [ndDecls, ndDeclsOf]

theorem ndDecls_ret (e : Option GExpr) (rest : List GStmt) : ndDecls (GStmt.ret e :: rest) = ndDecls rest := by
  simp [ndDecls, ndDeclsOf]

theorem ndDecls_switch (e : GExpr) (cs : List GCase) (d : Option (List GStmt)) :
    ndDecls [GStmt.switch e cs d] = ndDeclsCases cs ++ (match d with | some b => ndDecls b | none => []) := by
  cases d <;> simp [ndDecls, ndDeclsOf]

theorem ndDecls_tswitch (b : Option String) (e : GExpr) (cs : List GTCase) (d : Option (List GStmt)) :
    ndDecls [GStmt.tswitch b e cs d] = ndDeclsTCases cs ++ (match d with | some b => ndDecls b | none => []) := by
  cases d <;> simp [ndDecls, ndDeclsOf]

/-- shadowing a variable with its own value changes no lookup -/
theorem lookup_rebind {gρ : GEnv} {x : String} {v : GVal} (h : lookupG gρ x = some v) (y : String) :
    lookupG ((x, v) :: gρ) y = lookupG gρ y := by
  by_cases hxy : x = y
  · subst hxy; rw [lookup_cons_self, h]
  · exact lookup_cons_ne _ _ hxy

mutual
/-- `ndDecls` leaves out only the bindings of type switches -/
theorem ndDecls_sub : ∀ (S : List GStmt) (y : String), y ∈ ndDecls S → y ∈ Goml.Dce.allDecls S
  | [], y, h => by simp [ndDecls] at h
  | s :: rest, y, h => by
    simp only [ndDecls, List.mem_append] at h
    simp only [Goml.Dce.allDecls, List.mem_append]
    rcases h with h | h
    · exact Or.inl (ndDeclsOf_sub s y h)
    · exact Or.inr (ndDecls_sub rest y h)
theorem ndDeclsOf_sub : ∀ (s : GStmt) (y : String), y ∈ ndDeclsOf s → y ∈ Goml.Dce.declsOf s
  | .varDecl x _ _, y, h => by simpa [ndDeclsOf, Goml.Dce.declsOf] using h
  | .ite _ t none, y, h => by
    simp only [ndDeclsOf, List.append_nil] at h
    simp only [Goml.Dce.declsOf, List.append_nil]
    exact ndDecls_sub t y h
  | .ite _ t (some e), y, h => by
    simp only [ndDeclsOf, List.mem_append] at h
    simp only [Goml.Dce.declsOf, List.mem_append]
    exact h.imp (ndDecls_sub t y) (ndDecls_sub e y)
  | .loop b, y, h => by
    simp only [ndDeclsOf] at h
    simp only [Goml.Dce.declsOf]
    exact ndDecls_sub b y h
  | .switch _ cs none, y, h => by
    simp only [ndDeclsOf, List.append_nil] at h
    simp only [Goml.Dce.declsOf, List.append_nil]
    exact ndDeclsCases_sub cs y h
  | .switch _ cs (some d), y, h => by
    simp only [ndDeclsOf, List.mem_append] at h
    simp only [Goml.Dce.declsOf, List.mem_append]
    exact h.imp (ndDeclsCases_sub cs y) (ndDecls_sub d y)
  | .tswitch bind _ cs none, y, h => by
    simp only [ndDeclsOf, List.append_nil] at h
    simp only [Goml.Dce.declsOf, List.append_nil, List.mem_append]
    exact Or.inr (ndDeclsTCases_sub cs y h)
  | .tswitch bind _ cs (some d), y, h => by
    simp only [ndDeclsOf, List.mem_append] at h
    simp only [Goml.Dce.declsOf, List.mem_append]
    rcases h with h | h
    · exact Or.inl (Or.inr (ndDeclsTCases_sub cs y h))
    · exact Or.inr (ndDecls_sub d y h)
  | .expr _, y, h => by simp [ndDeclsOf] at h
  | .go _, y, h => by simp [ndDeclsOf] at h
  | .assign _ _, y, h => by simp [ndDeclsOf] at h
  | .fieldAssign _ _, y, h => by simp [ndDeclsOf] at h
  | .ptrAssign _ _, y, h => by simp [ndDeclsOf] at h
  | .indexAssign _ _ _, y, h => by simp [ndDeclsOf] at h
  | .ret _, y, h => by simp [ndDeclsOf] at h
  | .brk, y, h => by simp [ndDeclsOf] at h
theorem ndDeclsCases_sub : ∀ (cs : List GCase) (y : String), y ∈ ndDeclsCases cs → y ∈ Goml.Dce.declsCases cs
  | [], y, h => by simp [ndDeclsCases] at h
  | .mk _ b :: rest, y, h => by
    simp only [ndDeclsCases, List.mem_append] at h
    simp only [Goml.Dce.declsCases, List.mem_append]
    exact h.imp (ndDecls_sub b y) (ndDeclsCases_sub rest y)
theorem ndDeclsTCases_sub : ∀ (cs : List GTCase) (y : String), y ∈ ndDeclsTCases cs → y ∈ Goml.Dce.declsTCases cs
  | [], y, h => by simp [ndDeclsTCases] at h
  | .mk _ b :: rest, y, h => by
    simp only [ndDeclsTCases, List.mem_append] at h
    simp only [Goml.Dce.declsTCases, List.mem_append]
    exact h.imp (ndDecls_sub b y) (ndDeclsTCases_sub rest y)
end

end Goml.GoComp
