import GomlVerif.Model.GoFrag
import GomlVerif.Props.C01
import GomlVerif.Lemmas.GoCompGo
import Std.Data.String.ToInt
/-!
Relations of the simulation `Sem` (ANF) ⟶ `Go.Sem` (compiled Go) for stage (a) of the back end:
value typing `HasTy`, environment relation `EnvRel`, world relation `WRel`, the Go-side name
invariant `GInv`, and how immediates evaluate on both sides.
-/
set_option linter.unusedSimpArgs false
set_option linter.unusedVariables false
namespace Goml.GoComp
open Goml Goml.Go Goml.GoCompile Goml.GoFrag
open Goml.Sem (Val World Res Fail)
open Goml.C01 (toG)
open Goml.Dce (keys allDecls lookup_cons_self lookup_cons_ne lookup_none_of_not_key key_of_lookup_some
  keys_update lookup_update_ne lookup_update_self update_not_key)

attribute [local irreducible] Goml.GoCompile.vn Goml.GoCompile.gid Goml.GoCompile.rn

/-! ### scalar types -/

theorem scalarEq_eq : ∀ {a b : Ty}, scalarEq a b = true → a = b := by
  intro a b h
  cases a <;> cases b <;> simp [scalarEq] at h <;> first | rfl | (obtain ⟨h1, h2⟩ := h; subst h1; subst h2; rfl) | (subst h; rfl)

theorem scalarEq_flat {a b : Ty} (h : scalarEq a b = true) : flatTy a = true := by
  cases a <;> cases b <;> simp [scalarEq] at h <;> rfl

theorem scalarEq_refl {a : Ty} (h : flatTy a = true) : scalarEq a a = true := by
  cases a <;> simp [flatTy, scalarTy] at h <;> simp [scalarEq]

mutual
/-- the Go value of a goml value: scalars as they are (`C01.toG`), a struct value as the Go struct
    of its (escaped) name with its declared (escaped) field names -/
def toGV (env : Env) : Val → Option GVal
  | .unit => some .unit
  | .bool b => some (.bool b)
  | .int n s v => some (.int n s v)
  | .str s => some (.str s)
  | .structV n vs =>
    match env.getStruct n, toGVs env vs with
    | some d, some gs => some (.struct (gid n) ((d.fields.map fun f => gid f.1).zip gs))
    | _, _ => none
  | _ => none
def toGVs (env : Env) : List Val → Option (List GVal)
  | [] => some []
  | v :: vs =>
    match toGV env v, toGVs env vs with
    | some g, some gs => some (g :: gs)
    | _, _ => none
end

mutual
/-- a value of a fragment type: scalars, and values of admitted struct types field by field -/
def HasTy (env : Env) : Val → Ty → Prop
  | .unit, .unit => True
  | .bool _, .bool => True
  | .int b s _, .int b' s' => b = b' ∧ s = s'
  | .str _, .string => True
  | .structV n vs, .struct n' =>
    n = n' ∧ n ∈ goodStructs env ∧
      (match env.getStruct n with
       | some d => HasTys env vs (d.fields.map (·.2))
       | none => False)
  | _, _ => False
def HasTys (env : Env) : List Val → List Ty → Prop
  | [], [] => True
  | v :: vs, t :: ts => HasTy env v t ∧ HasTys env vs ts
  | _, _ => False
end

theorem hasTy_bool {env : Env} {v : Val} (h : HasTy env v .bool) : ∃ b, v = .bool b := by
  cases v <;> simp [HasTy] at h; exact ⟨_, rfl⟩
theorem hasTy_unit {env : Env} {v : Val} (h : HasTy env v .unit) : v = .unit := by
  cases v <;> simp [HasTy] at h; rfl
theorem hasTy_str {env : Env} {v : Val} (h : HasTy env v .string) : ∃ s, v = .str s := by
  cases v <;> simp [HasTy] at h; exact ⟨_, rfl⟩
theorem hasTy_int {env : Env} {v : Val} {b s} (h : HasTy env v (.int b s)) : ∃ x, v = .int b s x := by
  cases v <;> simp [HasTy] at h; obtain ⟨h1, h2⟩ := h; subst h1; subst h2; exact ⟨_, rfl⟩

/-- on values of scalar type the conversion is `C01.toG` -/
theorem toGV_scalar {env : Env} {v : Val} {t : Ty} (h : HasTy env v t) (hs : scalarTy t = true) : toGV env v = toG v := by
  cases v <;> cases t <;> simp [HasTy, scalarTy] at h hs <;> simp [toGV, toG]

/-- worlds: what a run shows (`Sem.Outcome` compares `out` and `externs`) -/
def WRel (w : World) (gw : GWorld) : Prop := gw.out = w.out ∧ gw.externs = w.externs

/-! ### environments -/

def EnvRel (env : Env) (Γ : Ctx) (ρ : Sem.Env) (gρ : GEnv) : Prop :=
  (∀ x t, lookupTy Γ x = some t →
    ∃ v gv, Sem.lookupEnv ρ x = some v ∧ lookupG gρ (vn x) = some gv ∧ toGV env v = some gv ∧ HasTy env v t) ∧
  (∀ x, lookupTy Γ x = none → Sem.lookupEnv ρ x = none)

theorem lookupTy_cons_self (Γ : Ctx) (x : String) (t : Ty) : lookupTy ((x, t) :: Γ) x = some t := by
  simp [lookupTy, List.find?_cons]

theorem lookupTy_cons_ne (Γ : Ctx) {x y : String} (t : Ty) (h : x ≠ y) : lookupTy ((x, t) :: Γ) y = lookupTy Γ y := by
  have : (x == y) = false := by simp [h]
  simp [lookupTy, List.find?_cons, this]

theorem lookupEnv_cons_self (ρ : Sem.Env) (x : String) (v : Val) : Sem.lookupEnv ((x, v) :: ρ) x = some v := by
  simp [Sem.lookupEnv, List.find?_cons]

theorem lookupEnv_cons_ne (ρ : Sem.Env) {x y : String} (v : Val) (h : x ≠ y) :
    Sem.lookupEnv ((x, v) :: ρ) y = Sem.lookupEnv ρ y := by
  have : (x == y) = false := by simp [h]
  simp [Sem.lookupEnv, List.find?_cons, this]

/-- a `let`: both environments grow by the same binding; the Go name is new -/
theorem EnvRel.cons {env : Env} {Γ ρ gρ} (h : EnvRel env Γ ρ gρ) {x : String} {t : Ty} {v : Val} {gv : GVal}
    (hfresh : ¬ vn x ∈ keys gρ) (hg : toGV env v = some gv) (ht : HasTy env v t) :
    EnvRel env ((x, t) :: Γ) ((x, v) :: ρ) ((vn x, gv) :: gρ) := by
  refine ⟨fun y ty hy => ?_, fun y hy => ?_⟩
  · by_cases hxy : x = y
    · subst hxy
      rw [lookupTy_cons_self] at hy; injection hy with hy; subst hy
      exact ⟨v, gv, lookupEnv_cons_self _ _ _, lookup_cons_self _ _ _, hg, ht⟩
    · rw [lookupTy_cons_ne _ _ hxy] at hy
      obtain ⟨v', gv', h1, h2, h3, h4⟩ := h.1 y ty hy
      have hne : vn x ≠ vn y := fun e => hfresh (by rw [e]; exact key_of_lookup_some h2)
      exact ⟨v', gv', by rw [lookupEnv_cons_ne _ _ hxy]; exact h1, by rw [lookup_cons_ne _ _ hne]; exact h2, h3, h4⟩
  · by_cases hxy : x = y
    · subst hxy; rw [lookupTy_cons_self] at hy; cases hy
    · rw [lookupTy_cons_ne _ _ hxy] at hy
      rw [lookupEnv_cons_ne _ _ hxy]; exact h.2 y hy

/-- the Go environment may change where no variable in scope lives -/
theorem EnvRel.go_agree {env : Env} {Γ ρ gρ gρ'} (h : EnvRel env Γ ρ gρ)
    (hag : ∀ x t, lookupTy Γ x = some t → lookupG gρ' (vn x) = lookupG gρ (vn x)) : EnvRel env Γ ρ gρ' := by
  refine ⟨fun y ty hy => ?_, h.2⟩
  obtain ⟨v', gv', h1, h2, h3, h4⟩ := h.1 y ty hy
  exact ⟨v', gv', h1, by rw [hag y ty hy]; exact h2, h3, h4⟩

/-! ### Go environments: lookups under prefixes and updates -/

theorem lookup_append_right {D : GEnv} {y : String} (h : ¬ y ∈ keys D) (ρ : GEnv) :
    lookupG (D ++ ρ) y = lookupG ρ y := by
  induction D with
  | nil => rfl
  | cons p D ih =>
    obtain ⟨x, v⟩ := p
    simp only [keys, List.map_cons, List.mem_cons, not_or] at h
    rw [List.cons_append, lookup_cons_ne _ _ (fun e => h.1 e.symm)]
    exact ih h.2

theorem keys_append (D ρ : GEnv) : keys (D ++ ρ) = keys D ++ keys ρ := by simp [keys]

theorem update_append_left {D : GEnv} {t : String} (h : ¬ t ∈ keys D) (ρ : GEnv) (v : GVal) :
    updateG (D ++ ρ) t v = D ++ updateG ρ t v := by
  induction D with
  | nil => rfl
  | cons p D ih =>
    obtain ⟨x, u⟩ := p
    simp only [keys, List.map_cons, List.mem_cons, not_or] at h
    have hx : (x == t) = false := by
      have : ¬ x = t := fun e => h.1 e.symm
      simp [this]
    rw [List.cons_append]
    show (if x == t then _ else _) = _
    rw [hx]; simp only [Bool.false_eq_true, if_false]
    rw [ih h.2]; rfl

theorem update_cons_self (t : String) (z v : GVal) (ρ : GEnv) : updateG ((t, z) :: ρ) t v = (t, v) :: ρ := by
  show (if t == t then _ else _) = _
  simp

theorem update_update (t : String) (a b : GVal) : ∀ ρ : GEnv, updateG (updateG ρ t a) t b = updateG ρ t b
  | [] => rfl
  | (y, w) :: ρ => by
    by_cases h : (y == t) = true
    · show updateG (if y == t then _ else _) t b = (if y == t then _ else _)
      rw [if_pos h, if_pos h]
      show (if y == t then _ else _) = _
      rw [if_pos h]
    · show updateG (if y == t then _ else _) t b = (if y == t then _ else _)
      rw [if_neg h, if_neg h]
      show (if y == t then _ else _) = _
      rw [if_neg h, update_update t a b ρ]

theorem length_update (t : String) (v : GVal) : ∀ ρ : GEnv, (updateG ρ t v).length = ρ.length
  | [] => rfl
  | (y, w) :: ρ => by
    show (if y == t then _ else _ : GEnv).length = _
    split
    · rfl
    · simp [length_update t v ρ]

/-- popping a nested block: what it declared goes, the rest stays -/
theorem pop_append (D U ρ : GEnv) (h : U.length = ρ.length) : (D ++ U).drop ((D ++ U).length - ρ.length) = U := by
  rw [← h]; simp

/-! ### the Go-side name invariant -/

/-- `S` is about to run in `gρ`: what `S` declares is pairwise distinct and new, and no name in
    sight is one of `Bad` (`_` and the Go names of the callees) -/
structure GInv (Bad : List String) (S : List GStmt) (gρ : GEnv) : Prop where
  nodup : (allDecls S).Nodup
  disj : ∀ y, y ∈ allDecls S → ¬ y ∈ keys gρ
  goodD : ∀ y, y ∈ allDecls S → ¬ y ∈ Bad
  goodK : ∀ y, y ∈ keys gρ → ¬ y ∈ Bad

theorem allDecls_append (a b : List GStmt) : allDecls (a ++ b) = allDecls a ++ allDecls b := by
  induction a with
  | nil => simp [allDecls]
  | cons s a ih => simp [allDecls, ih, List.append_assoc]

theorem allDecls_cons (s : GStmt) (a : List GStmt) : allDecls (s :: a) = Goml.Dce.declsOf s ++ allDecls a := by
  simp [allDecls]

theorem GInv.left {Bad a b gρ} (h : GInv Bad (a ++ b) gρ) : GInv Bad a gρ := by
  have := h.nodup; rw [allDecls_append] at this
  exact ⟨(List.nodup_append.mp this).1, fun y hy => h.disj y (by rw [allDecls_append]; exact List.mem_append_left _ hy),
    fun y hy => h.goodD y (by rw [allDecls_append]; exact List.mem_append_left _ hy), h.goodK⟩

/-- after the first part ran: it pushed `D` (names it declares) and kept the keys of the rest -/
theorem GInv.right {Bad a b gρ} (h : GInv Bad (a ++ b) gρ) {D U : GEnv} (hU : keys U = keys gρ)
    (hD : ∀ y, y ∈ keys D → y ∈ allDecls a) : GInv Bad b (D ++ U) := by
  have hn := h.nodup; rw [allDecls_append] at hn
  obtain ⟨_, hnb, hdisj⟩ := List.nodup_append.mp hn
  refine ⟨hnb, fun y hy => ?_, fun y hy => h.goodD y (by rw [allDecls_append]; exact List.mem_append_right _ hy), fun y hy => ?_⟩
  · rw [keys_append, List.mem_append, hU]
    rintro (hk | hk)
    · exact hdisj y (hD y hk) y hy rfl
    · exact h.disj y (by rw [allDecls_append]; exact List.mem_append_right _ hy) hk
  · rw [keys_append, List.mem_append, hU] at hy
    rcases hy with hk | hk
    · exact h.goodD y (by rw [allDecls_append]; exact List.mem_append_left _ (hD y hk))
    · exact h.goodK y hk

theorem GInv.keys_eq {Bad S gρ gρ'} (h : GInv Bad S gρ) (hk : keys gρ' = keys gρ) : GInv Bad S gρ' :=
  ⟨h.nodup, fun y hy => by rw [hk]; exact h.disj y hy, h.goodD, fun y hy => h.goodK y (by rw [← hk]; exact hy)⟩

theorem GInv.of_decls {Bad S S' gρ} (h : GInv Bad S gρ) (hs : (allDecls S').Sublist (allDecls S)) : GInv Bad S' gρ :=
  ⟨hs.nodup h.nodup, fun y hy => h.disj y (hs.subset hy), fun y hy => h.goodD y (hs.subset hy), h.goodK⟩

theorem vn_def (x : String) : vn x = gid (rn x) := by unfold vn; rfl

theorem flat_not_absurd {t : Ty} (h : flatTy t = true) : absurdTy (goTy t) = false := by
  cases t <;> simp [flatTy, scalarTy] at h <;> simp [goTy, absurdTy]

theorem allDecls_ite (c : GExpr) (t e : List GStmt) : allDecls [GStmt.ite c t (some e)] = allDecls t ++ allDecls e := by
  simp [allDecls, Goml.Dce.declsOf]

theorem allDecls_varDecl (x : String) (ty : GTy) (v : Option GExpr) (rest : List GStmt) :
    allDecls (GStmt.varDecl x ty v :: rest) = x :: allDecls rest := by
  simp [allDecls, Goml.Dce.declsOf]

theorem allDecls_loop (b : List GStmt) (rest : List GStmt) : allDecls (GStmt.loop b :: rest) = allDecls b ++ allDecls rest := by
  simp [allDecls, Goml.Dce.declsOf]

theorem allDecls_assign (x : String) (e : GExpr) (rest : List GStmt) : allDecls (GStmt.assign x e :: rest) = allDecls rest := by
  simp [allDecls, Goml.Dce.declsOf]

theorem allDecls_ite_none (c : GExpr) (t : List GStmt) (rest : List GStmt) :
    allDecls (GStmt.ite c t none :: rest) = allDecls t ++ allDecls rest := by
  simp [allDecls, Goml.Dce.declsOf]

theorem allDecls_ret (e : Option GExpr) (rest : List GStmt) : allDecls (GStmt.ret e :: rest) = allDecls rest := by
  simp [allDecls, Goml.Dce.declsOf]

end Goml.GoComp
