import GomlVerif.Lemmas.GoCompOps
/-!
The stage (a) builtins: what `Sem.builtin` computes is what the runtime function of that name
(`go/runtime.rs`, `GoCompile.makeRuntime`) returns under `Go.Sem`, given that the file contains the
runtime functions and does not define `fmt.Sprintf`, `fmt.Print`, `fmt.Println` itself.
-/
set_option linter.unusedSimpArgs false
set_option linter.unusedVariables false
namespace Goml.GoComp
open Goml Goml.Go Goml.GoCompile Goml.GoFrag
open Goml.Sem (Val World Res Fail)
open Goml.C01 (toG)
open Goml.Dce (keys lookup_cons_self lookup_cons_ne)

def runtimeFile : GFile := { items := makeRuntime }

/-- the file contains the runtime and leaves the Go library names to `Go.Sem` -/
structure RtLink (F : GFile) : Prop where
  rt : ∀ b g, runtimeFile.findFunc b = some g → F.findFunc b = some g
  reserved : ∀ r, r ∈ reservedGoNames → F.findFunc r = none

theorem call_sprintf {F : GFile} {w : GWorld} {fmt : String} {rest : List GVal} (h : F.findFunc "fmt.Sprintf" = none) :
    CallS F w (.func "fmt.Sprintf") (.str fmt :: rest) (.ok (.str (sprintf fmt.toList rest "")) w) := by
  refine ⟨1, fun k hk => ?_⟩
  obtain ⟨k, rfl, -⟩ := succ_of_le hk
  rw [callG.eq_def]; simp [h]

theorem call_println {F : GFile} {w : GWorld} {s : String} (h : F.findFunc "fmt.Println" = none) :
    CallS F w (.func "fmt.Println") [.str s] (.ok .void { w with out := w.out ++ s ++ "\n" }) := by
  refine ⟨1, fun k hk => ?_⟩
  obtain ⟨k, rfl, -⟩ := succ_of_le hk
  rw [callG.eq_def]; simp [h]

theorem call_print {F : GFile} {w : GWorld} {s : String} (h : F.findFunc "fmt.Print" = none) :
    CallS F w (.func "fmt.Print") [.str s] (.ok .void { w with out := w.out ++ s }) := by
  refine ⟨1, fun k hk => ?_⟩
  obtain ⟨k, rfl, -⟩ := succ_of_le hk
  rw [callG.eq_def]; simp [h]

theorem lookup_single_ne {x y : String} (v : GVal) (h : x ≠ y) : lookupG [(x, v)] y = none := by
  rw [lookup_cons_ne _ _ h]; rfl

theorem rt_unit_to_string {F : GFile} (hl : RtLink F) (gw : GWorld) :
    CallS F gw (.func "unit_to_string") [.unit] (.ok (.str "()") gw) := by
  have hf : F.findFunc "unit_to_string" = some fnUnitToString := hl.rt _ _ rfl
  exact call_func_env hf rfl (block_cons_sig (s := .ret (some (.str "()"))) (by simp) (stmt_ret ev_str)) rfl

theorem rt_bool_to_string {F : GFile} (hl : RtLink F) (gw : GWorld) (b : Bool) :
    CallS F gw (.func "bool_to_string") [.bool b] (.ok (.str (if b then "true" else "false")) gw) := by
  have hf : F.findFunc "bool_to_string" = some (boolToStr "bool_to_string") := hl.rt _ _ rfl
  have hx : EvS F [("x", GVal.bool b)] gw (sV "x" .bool) (.ok (.bool b) gw) := ev_var_some (lookup_cons_self _ _ _)
  cases b with
  | true =>
    have h : StmtS F [("x", GVal.bool true)] gw
        (.ite (sV "x" .bool) [GStmt.ret (some (.str "true"))] (some [GStmt.ret (some (.str "false"))]))
        (.ok ([("x", GVal.bool true)], .ret (.str "true")) gw) :=
      stmt_ite_true hx (nest_of_block (block_cons_sig (rest := []) (by simp) (stmt_ret (e := .str "true") ev_str)))
    exact call_func_env hf rfl (block_cons_sig (sig := .ret (.str "true")) (by simp) h) rfl
  | false =>
    have h : StmtS F [("x", GVal.bool false)] gw
        (.ite (sV "x" .bool) [GStmt.ret (some (.str "true"))] (some [GStmt.ret (some (.str "false"))]))
        (.ok ([("x", GVal.bool false)], .ret (.str "false")) gw) :=
      stmt_ite_false hx (nest_of_block (block_cons_sig (rest := []) (by simp) (stmt_ret (e := .str "false") ev_str)))
    exact call_func_env hf rfl (block_cons_sig (sig := .ret (.str "false")) (by simp) h) rfl

/-- `to_string_fn(name, ty, "%d")` on an integer -/
theorem rt_int_to_string {F : GFile} (hl : RtLink F) (gw : GWorld) (name : String) (ty : GTy)
    (hf : F.findFunc name = some (toStringFn name ty "%d")) (n : Nat) (s : Bool) (x : Int) :
    CallS F gw (.func name) [.int n s x] (.ok (.str (Sem.showInt x)) gw) := by
  have hres : F.findFunc "fmt.Sprintf" = none := hl.reserved _ (by simp [reservedGoNames])
  have hx : EvS F [("x", GVal.int n s x)] gw (sV "x" ty) (.ok (.int n s x) gw) := ev_var_some (lookup_cons_self _ _ _)
  have hfn : EvS F [("x", GVal.int n s x)] gw (sV "fmt.Sprintf" (.func [tStr, ty] tStr)) (.ok (.func "fmt.Sprintf") gw) :=
    ev_var_none (lookup_single_ne _ (by decide))
  have hcall := ev_call (ty := tStr) hfn (evl_cons (ev_str (s := "%d")) (evl_cons hx evl_nil)) (call_sprintf hres)
  rw [show sprintf "%d".toList [GVal.int n s x] "" = Sem.showInt x from Goml.C01.sprintf_d_int n s x] at hcall
  exact call_func_env hf rfl (block_cons_sig (sig := .ret (.str (Sem.showInt x))) (by simp) (stmt_ret hcall)) rfl

theorem rt_string_println {F : GFile} (hl : RtLink F) (gw : GWorld) (s : String) :
    CallS F gw (.func "string_println") [.str s] (.ok .unit { gw with out := gw.out ++ s ++ "\n" }) := by
  have hf : F.findFunc "string_println" = some (printFn "string_println" "fmt.Println") := hl.rt _ _ rfl
  have hres : F.findFunc "fmt.Println" = none := hl.reserved _ (by simp [reservedGoNames])
  have hx : EvS F [("s", GVal.str s)] gw (sV "s" tStr) (.ok (.str s) gw) := ev_var_some (lookup_cons_self _ _ _)
  have hfn : EvS F [("s", GVal.str s)] gw (sV "fmt.Println" (.func [tStr] .void)) (.ok (.func "fmt.Println") gw) :=
    ev_var_none (lookup_single_ne _ (by decide))
  have hcall := ev_call (ty := .void) hfn (evl_cons hx evl_nil) (call_println hres)
  exact call_func_env hf rfl (block_cons (stmt_expr hcall) (block_cons_sig (sig := .ret .unit) (by simp) (stmt_ret ev_unitv))) rfl

theorem rt_string_print {F : GFile} (hl : RtLink F) (gw : GWorld) (s : String) :
    CallS F gw (.func "string_print") [.str s] (.ok .unit { gw with out := gw.out ++ s }) := by
  have hf : F.findFunc "string_print" = some (printFn "string_print" "fmt.Print") := hl.rt _ _ rfl
  have hres : F.findFunc "fmt.Print" = none := hl.reserved _ (by simp [reservedGoNames])
  have hx : EvS F [("s", GVal.str s)] gw (sV "s" tStr) (.ok (.str s) gw) := ev_var_some (lookup_cons_self _ _ _)
  have hfn : EvS F [("s", GVal.str s)] gw (sV "fmt.Print" (.func [tStr] .void)) (.ok (.func "fmt.Print") gw) :=
    ev_var_none (lookup_single_ne _ (by decide))
  have hcall := ev_call (ty := .void) hfn (evl_cons hx evl_nil) (call_print hres)
  exact call_func_env hf rfl (block_cons (stmt_expr hcall) (block_cons_sig (sig := .ret .unit) (by simp) (stmt_ret ev_unitv))) rfl

/-- the conversion `int32(x)` of an integer -/
theorem call_int32 {F : GFile} {w : GWorld} {b : Nat} {s : Bool} {x : Int} (h : F.findFunc "int32" = none) :
    CallS F w (.func "int32") [.int b s x] (.ok (.int 32 true (Sem.wrap 32 true x)) w) := by
  refine ⟨1, fun k hk => ?_⟩
  obtain ⟨k, rfl, -⟩ := succ_of_le hk
  rw [callG.eq_def]; simp [h, isIntTy, convert]

theorem call_len_str {F : GFile} {w : GWorld} {s : String} (h : F.findFunc "len" = none) :
    CallS F w (.func "len") [.str s] (.ok (.int 64 true s.utf8ByteSize) w) := by
  refine ⟨1, fun k hk => ?_⟩
  obtain ⟨k, rfl, -⟩ := succ_of_le hk
  rw [callG.eq_def]; simp [h]

/-- `string_len(s)`: `return int32(len(s))` -/
theorem rt_string_len {F : GFile} (hl : RtLink F) (gw : GWorld) (s : String) :
    CallS F gw (.func "string_len") [.str s] (.ok (.int 32 true (Sem.wrap 32 true s.utf8ByteSize)) gw) := by
  have hf : F.findFunc "string_len" = some fnStringLen := hl.rt _ _ rfl
  have hlen : F.findFunc "len" = none := hl.reserved _ (by simp [reservedGoNames])
  have hi32 : F.findFunc "int32" = none := hl.reserved _ (by simp [reservedGoNames])
  have hx : EvS F [("s", GVal.str s)] gw (sV "s" tStr) (.ok (.str s) gw) := ev_var_some (lookup_cons_self _ _ _)
  have h1 : EvS F [("s", GVal.str s)] gw (.call i32 (sV "len" (.func [tStr] i32)) [sV "s" tStr]) (.ok (.int 64 true s.utf8ByteSize) gw) :=
    ev_call (ev_var_none (lookup_single_ne _ (by decide))) (evl_cons hx evl_nil) (call_len_str hlen)
  have h2 := ev_call (ty := i32) (ev_var_none (F := F) (ρ := [("s", GVal.str s)]) (w := gw) (x := "int32") (ty := .func [i32] i32)
    (lookup_single_ne _ (by decide))) (evl_cons h1 evl_nil) (call_int32 hi32)
  exact call_func_env hf rfl (block_cons_sig (rest := []) (by simp) (stmt_ret h2)) rfl

theorem argsRel_single {env : Env} {η : Hp} {vs : List Val} {gvs : List GVal} {t : Ty} (h : ArgsRel env η vs gvs [t]) :
    ∃ v g, vs = [v] ∧ gvs = [g] ∧ VRel env η v t g ∧ HasTy env η v t := by
  rcases vs with _ | ⟨v, _ | ⟨v2, vs⟩⟩ <;> rcases gvs with _ | ⟨g, _ | ⟨g2, gs⟩⟩ <;> simp [ArgsRel] at h
  exact ⟨v, g, rfl, rfl, h.1, h.2⟩

set_option hygiene false in
macro "int_ts " nm:str pre:str : tactic => `(tactic|
  (have h1 : ($nm : String).endsWith "_to_string" = true := by decide +kernel
   have h2 : ($nm : String).startsWith $pre = true := by decide +kernel
   simp [Sem.builtin, h1, h2]))

theorem sem_int8_ts (n s x) (w : World) : Sem.builtin "int8_to_string" [.int n s x] w = some (.ok (.str (Sem.showInt x)) w) := by
  int_ts "int8_to_string" "int"
theorem sem_int16_ts (n s x) (w : World) : Sem.builtin "int16_to_string" [.int n s x] w = some (.ok (.str (Sem.showInt x)) w) := by
  int_ts "int16_to_string" "int"
theorem sem_int32_ts (n s x) (w : World) : Sem.builtin "int32_to_string" [.int n s x] w = some (.ok (.str (Sem.showInt x)) w) := by
  int_ts "int32_to_string" "int"
theorem sem_int64_ts (n s x) (w : World) : Sem.builtin "int64_to_string" [.int n s x] w = some (.ok (.str (Sem.showInt x)) w) := by
  int_ts "int64_to_string" "int"
theorem sem_uint8_ts (n s x) (w : World) : Sem.builtin "uint8_to_string" [.int n s x] w = some (.ok (.str (Sem.showInt x)) w) := by
  int_ts "uint8_to_string" "uint"
theorem sem_uint16_ts (n s x) (w : World) : Sem.builtin "uint16_to_string" [.int n s x] w = some (.ok (.str (Sem.showInt x)) w) := by
  int_ts "uint16_to_string" "uint"
theorem sem_uint32_ts (n s x) (w : World) : Sem.builtin "uint32_to_string" [.int n s x] w = some (.ok (.str (Sem.showInt x)) w) := by
  int_ts "uint32_to_string" "uint"
theorem sem_uint64_ts (n s x) (w : World) : Sem.builtin "uint64_to_string" [.int n s x] w = some (.ok (.str (Sem.showInt x)) w) := by
  int_ts "uint64_to_string" "uint"

/-- one integer `*_to_string` builtin -/
theorem builtin_int {env : Env} {η : Hp} {F : GFile} (hl : RtLink F) (name : String) (gty : GTy) (b : Nat) (sg : Bool)
    (hrt : runtimeFile.findFunc name = some (toStringFn name gty "%d"))
    (hsem : ∀ n s x (w : World), Sem.builtin name [.int n s x] w = some (.ok (.str (Sem.showInt x)) w))
    {vs : List Val} {gvs : List GVal} {w : World} {gw : GWorld}
    (hargs : ArgsRel env η vs gvs [.int b sg]) (hw : WRel env η w gw) :
    ∃ v w' gv gw', Sem.builtin name vs w = some (.ok v w') ∧ CallS F gw (.func name) gvs (.ok gv gw') ∧
      VRel env η v .string gv ∧ HasTy env η v .string ∧ WRel env η w' gw' := by
  obtain ⟨v, g, rfl, rfl, hg, ht⟩ := argsRel_single hargs
  obtain ⟨x, rfl⟩ := hasTy_int ht
  simp [VRel] at hg; subst hg
  exact ⟨_, w, _, gw, hsem _ _ _ _, rt_int_to_string hl gw name gty (hl.rt _ _ hrt) _ _ _, by simp [VRel], trivial, hw⟩

/-- the builtins keep their names in Go -/
theorem vn_builtin {b : String} (hb : b ∈ builtinNames) : vn b = b := by
  simp only [builtinNames, List.mem_cons, List.mem_singleton, List.not_mem_nil, or_false] at hb
  rcases hb with rfl | rfl | rfl | rfl | rfl | rfl | rfl | rfl | rfl | rfl | rfl | rfl | rfl <;> decide +kernel

/-- every stage (a) builtin: `Sem.builtin` and the runtime function of that name agree -/
theorem builtin_call {env : Env} {η : Hp} {F : GFile} (hl : RtLink F) {b : String} {ps : List Ty} {r : Ty} {vs : List Val} {gvs : List GVal}
    {w : World} {gw : GWorld} (hb : b ∈ builtinNames) (hsig : builtinSig b = some (ps, r))
    (hargs : ArgsRel env η vs gvs ps) (hw : WRel env η w gw) :
    ∃ v w' gv gw', Sem.builtin b vs w = some (.ok v w') ∧ CallS F gw (.func b) gvs (.ok gv gw') ∧
      VRel env η v r gv ∧ HasTy env η v r ∧ WRel env η w' gw' := by
  simp only [builtinNames, List.mem_cons, List.mem_singleton, List.not_mem_nil, or_false] at hb
  rcases hb with rfl | rfl | rfl | rfl | rfl | rfl | rfl | rfl | rfl | rfl | rfl | rfl | rfl <;>
    (simp only [builtinSig, Option.some.injEq, Prod.mk.injEq] at hsig; obtain ⟨hp, hr⟩ := hsig; subst hp; subst hr)
  · obtain ⟨v, g, rfl, rfl, hg, ht⟩ := argsRel_single hargs
    have := hasTy_unit ht; subst this
    simp [VRel] at hg; subst hg
    exact ⟨_, w, _, gw, rfl, rt_unit_to_string hl gw, by simp [VRel], trivial, hw⟩
  · obtain ⟨v, g, rfl, rfl, hg, ht⟩ := argsRel_single hargs
    obtain ⟨bb, rfl⟩ := hasTy_bool ht
    simp [VRel] at hg; subst hg
    exact ⟨_, w, _, gw, rfl, rt_bool_to_string hl gw bb, by simp [VRel], trivial, hw⟩
  · exact builtin_int hl _ _ _ _ rfl sem_int8_ts hargs hw
  · exact builtin_int hl _ _ _ _ rfl sem_int16_ts hargs hw
  · exact builtin_int hl _ _ _ _ rfl sem_int32_ts hargs hw
  · exact builtin_int hl _ _ _ _ rfl sem_int64_ts hargs hw
  · exact builtin_int hl _ _ _ _ rfl sem_uint8_ts hargs hw
  · exact builtin_int hl _ _ _ _ rfl sem_uint16_ts hargs hw
  · exact builtin_int hl _ _ _ _ rfl sem_uint32_ts hargs hw
  · exact builtin_int hl _ _ _ _ rfl sem_uint64_ts hargs hw
  · obtain ⟨v, g, rfl, rfl, hg, ht⟩ := argsRel_single hargs
    obtain ⟨s, rfl⟩ := hasTy_str ht
    simp [VRel] at hg; subst hg
    exact ⟨_, _, _, _, rfl, rt_string_print hl gw s, by simp [VRel], trivial, hw.print s⟩
  · obtain ⟨v, g, rfl, rfl, hg, ht⟩ := argsRel_single hargs
    obtain ⟨s, rfl⟩ := hasTy_str ht
    simp [VRel] at hg; subst hg
    refine ⟨_, _, _, _, rfl, rt_string_println hl gw s, by simp [VRel], trivial, ?_⟩
    have := (hw.print s).print "\n"
    simpa [String.append_assoc] using this
  · obtain ⟨v, g, rfl, rfl, hg, ht⟩ := argsRel_single hargs
    obtain ⟨s, rfl⟩ := hasTy_str ht
    simp [VRel] at hg; subst hg
    exact ⟨_, w, _, gw, rfl, rt_string_len hl gw s, by simp [VRel], ⟨rfl, rfl, wrap_wrap _ _ _⟩, hw⟩

end Goml.GoComp
