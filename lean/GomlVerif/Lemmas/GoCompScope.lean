import GomlVerif.Lemmas.GoCompStepU
import GomlVerif.Lemmas.DceScope
/-!
T2: the statements `GoCompile` emits for a function of the fragment satisfy Go's scope rules for
locals (`Dce.scopeErrs = []`: declared before use, nothing redeclared or shadowed) and the shape
contract of the DCE theorems (`Dce.shapeOK`), by structural induction over the ANF body.
-/
set_option linter.unusedSimpArgs false
set_option linter.unusedVariables false
namespace Goml.GoComp
open Goml Goml.Go Goml.GoCompile Goml.GoFrag
open Goml.Dce (keys allDecls scopeErrs scopeErrsStmt shapeOK shapeOKStmt varsUsed varsUsedList undecl declScope
  noBlockExpr noBlockList mem_uni undecl_nil Names)

attribute [local irreducible] Goml.GoCompile.vn Goml.GoCompile.gid Goml.GoCompile.rn

/-- scope after a statement list (top-level declarations added) -/
def scopeAfter : List GStmt → Names → Names
  | [], sc => sc
  | s :: rest, sc => scopeAfter rest (declScope s sc)

/-- the two properties T2 is about -/
def Clean (D sc : Names) (S : List GStmt) : Prop := scopeErrs D sc S = [] ∧ shapeOK S = true

theorem clean_nil (D sc : Names) : Clean D sc [] := ⟨by simp [scopeErrs], by simp [shapeOK]⟩

theorem clean_cons {D sc : Names} {s : GStmt} {rest : List GStmt} (h1 : scopeErrsStmt D sc s = [])
    (h2 : shapeOKStmt s = true) (h3 : Clean D (declScope s sc) rest) : Clean D sc (s :: rest) := by
  refine ⟨?_, ?_⟩
  · rw [scopeErrs]; simp [h1, h3.1]
  · rw [shapeOK]; simp [h2, h3.2]

theorem clean_append {D : Names} : ∀ {a b : List GStmt} {sc : Names}, Clean D sc a → Clean D (scopeAfter a sc) b →
    Clean D sc (a ++ b)
  | [], b, sc, _, hb => by simpa [scopeAfter] using hb
  | s :: a, b, sc, ha, hb => by
    obtain ⟨ha1, ha2⟩ := ha
    rw [scopeErrs] at ha1; rw [shapeOK] at ha2
    simp only [List.append_eq_nil_iff, Bool.and_eq_true] at ha1 ha2
    exact clean_cons ha1.1 ha2.1 (clean_append ⟨ha1.2, ha2.2⟩ (by simpa [scopeAfter] using hb))

theorem scopeAfter_sub : ∀ (a : List GStmt) (sc : Names) (y : String), y ∈ scopeAfter a sc → y ∈ sc ∨ y ∈ allDecls a
  | [], sc, y, h => Or.inl h
  | s :: a, sc, y, h => by
    rcases scopeAfter_sub a _ y h with h | h
    · cases s <;> simp only [declScope] at h <;> first
        | exact Or.inl h
        | (rcases List.mem_cons.mp h with rfl | h
           · exact Or.inr (by simp [allDecls, Goml.Dce.declsOf])
           · exact Or.inl h)
    · exact Or.inr (by rw [allDecls_cons]; exact List.mem_append_right _ h)

theorem scopeAfter_sup : ∀ (a : List GStmt) (sc : Names) (y : String), y ∈ sc → y ∈ scopeAfter a sc
  | [], sc, y, h => h
  | s :: a, sc, y, h => by
    apply scopeAfter_sup a
    cases s <;> simp only [declScope] <;> first | exact h | exact List.mem_cons_of_mem _ h

theorem scopeAfter_append (a b : List GStmt) (sc : Names) : scopeAfter (a ++ b) sc = scopeAfter b (scopeAfter a sc) := by
  induction a generalizing sc with
  | nil => rfl
  | cons s a ih => simp [scopeAfter, ih]

theorem scopeAfter_varDecl (x : String) (ty : GTy) (v : Option GExpr) (rest : List GStmt) (sc : Names) :
    scopeAfter (.varDecl x ty v :: rest) sc = scopeAfter rest (x :: sc) := rfl

/-! ### variables of compiled expressions -/

theorem varsUsed_compileImm (env : Env) (i : Imm) :
    varsUsed (compileImm env i) = (match i with | .var x _ => [vn x] | _ => []) ∧ noBlockExpr (compileImm env i) = true := by
  cases i with
  | var x ty => simp [compileImm, varsUsed, noBlockExpr]
  | prim p ty => cases p <;> simp [compileImm, lit, varsUsed, noBlockExpr]
  | tag idx ty => simp [compileImm, varsUsed, Goml.Dce.varsUsedFields, noBlockExpr, Goml.Dce.noBlockFields]

/-- where the variables of a compiled expression may come from: operands in scope, callees -/
def FromCtx (Γ : Ctx) (cs : List String) (y : String) : Prop :=
  (∃ x t, lookupTy Γ x = some t ∧ y = vn x) ∨ (∃ f, f ∈ cs ∧ y = vn f)

theorem imm_fromCtx (env : Env) {Γ : Ctx} {i : Imm} (h : immOK Γ i = true) (cs : List String) :
    (∀ y, y ∈ varsUsed (compileImm env i) → FromCtx Γ cs y) ∧ noBlockExpr (compileImm env i) = true := by
  obtain ⟨h1, h2⟩ := varsUsed_compileImm env i
  refine ⟨fun y hy => ?_, h2⟩
  rw [h1] at hy
  cases i with
  | var x ty =>
    simp only [List.mem_singleton] at hy; subst hy
    simp only [immOK] at h
    cases hl : lookupTy Γ x with
    | none => rw [hl] at h; simp at h
    | some t => exact Or.inl ⟨x, t, hl, rfl⟩
  | prim p ty => cases hy
  | tag idx ty => cases hy

theorem imms_fromCtx (env : Env) {Γ : Ctx} (cs : List String) : ∀ {args : List Imm} {tys : List Ty}, argsOK Γ args tys = true →
    (∀ y, y ∈ varsUsedList (compileImms env args) → FromCtx Γ cs y) ∧ noBlockList (compileImms env args) = true
  | [], tys, _ => by simp [compileImms, varsUsedList, noBlockList]
  | a :: as, [], h => by simp [argsOK] at h
  | a :: as, t :: ts, h => by
    simp only [argsOK, Bool.and_eq_true] at h
    obtain ⟨⟨ha, _⟩, has⟩ := h
    obtain ⟨h1, h2⟩ := imm_fromCtx env ha cs
    obtain ⟨h3, h4⟩ := imms_fromCtx env cs has
    simp only [compileImms, List.map_cons, varsUsedList, noBlockList, mem_uni, Bool.and_eq_true] at *
    exact ⟨fun y hy => hy.elim (h1 y) (h3 y), h2, h4⟩

theorem fields_fromCtx (env : Env) {Γ : Ctx} (cs : List String) : ∀ {args : List Imm} {tys : List Ty} (fields : List (String × Ty)),
    argsOK Γ args tys = true →
    (∀ y, y ∈ Goml.Dce.varsUsedFields (structFieldsOf fields (compileImms env args)) → FromCtx Γ cs y) ∧
      Goml.Dce.noBlockFields (structFieldsOf fields (compileImms env args)) = true
  | [], tys, fields, _ => by simp [compileImms, structFieldsOf, Goml.Dce.varsUsedFields, Goml.Dce.noBlockFields]
  | a :: as, [], fields, h => by simp [argsOK] at h
  | a :: as, t :: ts, [], _ => by simp [compileImms, structFieldsOf, Goml.Dce.varsUsedFields, Goml.Dce.noBlockFields]
  | a :: as, t :: ts, f :: fs, h => by
    simp only [argsOK, Bool.and_eq_true] at h
    obtain ⟨⟨ha, _⟩, has⟩ := h
    obtain ⟨h1, h2⟩ := imm_fromCtx env ha cs
    obtain ⟨h3, h4⟩ := fields_fromCtx env cs fs has
    simp only [compileImms, structFieldsOf, List.map_cons, List.zip_cons_cons, Goml.Dce.varsUsedFields,
      Goml.Dce.noBlockFields, mem_uni, Bool.and_eq_true] at *
    exact ⟨fun y hy => hy.elim (h1 y) (h3 y), h2, h4⟩

theorem cexpr_fromCtx {env : Env} {file : AFile} {G : List String} {Γ : Ctx} {c : CExpr} (hctl : isCtl c = false)
    (h : fragC env file G Γ c = true) :
    (∀ y, y ∈ varsUsed (compileCExpr env c) → FromCtx Γ (calleesC c) y) ∧ noBlockExpr (compileCExpr env c) = true := by
  cases c with
  | imm i => exact imm_fromCtx env h _
  | un op e ty =>
    simp only [fragC, Bool.and_eq_true] at h
    obtain ⟨h1, h2⟩ := imm_fromCtx env h.1 (calleesC (.un op e ty))
    simp only [compileCExpr, varsUsed, noBlockExpr]; exact ⟨h1, h2⟩
  | bin op l r ty =>
    simp only [fragC, Bool.and_eq_true] at h
    obtain ⟨h1, h2⟩ := imm_fromCtx env h.1.1 (calleesC (.bin op l r ty))
    obtain ⟨h3, h4⟩ := imm_fromCtx env h.1.2 (calleesC (.bin op l r ty))
    simp only [compileCExpr, varsUsed, noBlockExpr, mem_uni, Bool.and_eq_true]
    exact ⟨fun y hy => hy.elim (h1 y) (h3 y), h2, h4⟩
  | call f args ty =>
    simp only [fragC] at h
    cases f with
    | var name fty =>
      simp only [compileCExpr, compileCall_frag h, varsUsed, noBlockExpr, mem_uni, Bool.and_eq_true, List.mem_singleton]
      simp only [callOK, Bool.and_eq_true] at h
      obtain ⟨_, hcase⟩ := h
      have hargs : ∃ tys, argsOK Γ args tys = true := by
        cases hs : builtinSig name with
        | some pr => rw [hs] at hcase; simp only [Bool.and_eq_true] at hcase; exact ⟨_, hcase.1.2⟩
        | none =>
          rw [hs] at hcase; simp only at hcase
          cases hf : file.find? (·.name == name) with
          | none => rw [hf] at hcase; simp at hcase
          | some g => rw [hf] at hcase; simp only [Bool.and_eq_true] at hcase; exact ⟨_, hcase.1.2⟩
      obtain ⟨tys, hargs⟩ := hargs
      obtain ⟨h3, h4⟩ := imms_fromCtx env (calleesC (.call (.var name fty) args ty)) hargs
      refine ⟨fun y hy => ?_, trivial, h4⟩
      rcases hy with rfl | hy
      · exact Or.inr ⟨name, by simp [calleesC, calleeName], rfl⟩
      · exact h3 y hy
    | prim p t => simp [callOK] at h
    | tag i t => simp [callOK] at h
  | ite c t e ty => simp [isCtl] at hctl
  | «while» c b ty => simp [isCtl] at hctl
  | matchE s arms d ty => simp [isCtl] at hctl
  | constr c args ty =>
    cases c with
    | enum tn vn' vi => simp [fragC] at h
    | struct sn =>
      simp only [fragC, Bool.and_eq_true] at h
      obtain ⟨_, hcase⟩ := h
      cases hd : env.getStruct sn with
      | none => rw [hd] at hcase; simp at hcase
      | some d =>
        rw [hd] at hcase; simp only at hcase
        obtain ⟨h1, h2⟩ := fields_fromCtx env (calleesC (.constr (.struct sn) args ty)) d.fields hcase
        simp only [compileCExpr, hd, Option.map_some, Option.getD_some, varsUsed, noBlockExpr]
        exact ⟨h1, h2⟩
  | tuple items ty => simp [fragC] at h
  | array items ty => simp [fragC] at h
  | cget e c idx ty =>
    cases c with
    | enum tn vn' vi => simp [fragC] at h
    | struct sn =>
      simp only [fragC, Bool.and_eq_true] at h
      obtain ⟨h1, h2⟩ := imm_fromCtx env h.1.1.1 (calleesC (.cget e (.struct sn) idx ty))
      simp only [compileCExpr, varsUsed, noBlockExpr]; exact ⟨h1, h2⟩
  | toDyn tr forTy e ty => simp [fragC] at h
  | dynCall tr m recv args ty => simp [fragC] at h
  | go e ty => simp [fragC] at h
  | proj e idx ty => simp [fragC] at h

/-! ### the scope invariant -/

/-- what is known about the Go scope `sc` at a program point with ANF context `Γ`; `D` = all locals
    of the function, `cs` = the callee names of the code still to come -/
structure SCtx (D sc : Names) (Γ : Ctx) (cs : List String) : Prop where
  vars : ∀ x t, lookupTy Γ x = some t → vn x ∈ sc
  scD : ∀ y, y ∈ sc → y ∈ D
  nob : ¬ "_" ∈ sc
  cal : ∀ f, f ∈ cs → ¬ vn f ∈ D ∧ vn f ≠ "_"

/-- the declarations of `S` are new, pairwise distinct locals of the function -/
def DeclOK (D sc : Names) (S : List GStmt) : Prop :=
  (allDecls S).Nodup ∧ ∀ y, y ∈ allDecls S → ¬ y ∈ sc ∧ y ∈ D ∧ y ≠ "_"

def TgtSc (m : Mode) (Γ : Ctx) (sc : Names) : Prop :=
  match m with
  | .effect => True
  | .assign t => gid t ∈ sc ∧ ∀ x ty, lookupTy Γ x = some ty → vn x ≠ gid t

theorem SCtx.mono_cs {D sc Γ cs cs'} (h : SCtx D sc Γ cs) (hs : ∀ f, f ∈ cs' → f ∈ cs) : SCtx D sc Γ cs' :=
  ⟨h.vars, h.scD, h.nob, fun f hf => h.cal f (hs f hf)⟩

theorem DeclOK.sub {D sc S S'} (h : DeclOK D sc S) (hs : (allDecls S').Sublist (allDecls S)) : DeclOK D sc S' :=
  ⟨hs.nodup h.1, fun y hy => h.2 y (hs.subset hy)⟩

/-- an expression whose variables come from the context is clean at this point -/
theorem expr_ok {D sc : Names} {Γ : Ctx} {cs : List String} (hctx : SCtx D sc Γ cs) {e : GExpr}
    (hfrom : ∀ y, y ∈ varsUsed e → FromCtx Γ cs y) :
    undecl D sc (varsUsed e) = [] ∧ (varsUsed e).contains "_" = false ∧
      (∀ t, t ∈ sc → (∀ x ty, lookupTy Γ x = some ty → vn x ≠ t) → (varsUsed e).contains t = false) := by
  refine ⟨undecl_nil.mpr (fun y hy hD => ?_), ?_, fun t ht hne => ?_⟩
  · rcases hfrom y hy with ⟨x, t, hx, rfl⟩ | ⟨f, hf, rfl⟩
    · exact hctx.vars x t hx
    · exact absurd hD (hctx.cal f hf).1
  · rw [List.contains_eq_mem]; simp only [decide_eq_false_iff_not]
    intro hy
    rcases hfrom _ hy with ⟨x, t, hx, he⟩ | ⟨f, hf, he⟩
    · exact hctx.nob (he ▸ hctx.vars x t hx)
    · exact (hctx.cal f hf).2 he.symm
  · rw [List.contains_eq_mem]; simp only [decide_eq_false_iff_not]
    intro hy
    rcases hfrom _ hy with ⟨x, tx, hx, he⟩ | ⟨f, hf, he⟩
    · exact hne x tx hx he.symm
    · exact (hctx.cal f hf).1 (he ▸ hctx.scD t ht)

/-- the simple forms in tail position -/
theorem scopeC_simple {env : Env} {file : AFile} {G : List String} {D : Names} (m : Mode) (c : CExpr) (Γ : Ctx) (sc : Names)
    (hctl : isCtl c = false) (hfrag : fragC env file G Γ c = true) (hctx : SCtx D sc Γ (calleesC c))
    (htgt : TgtSc m Γ sc) : Clean D sc (compileSimple env m c) := by
  obtain ⟨hfrom, hnb⟩ := cexpr_fromCtx hctl hfrag
  obtain ⟨h1, h2, h3⟩ := expr_ok hctx hfrom
  cases m with
  | assign t =>
    obtain ⟨htk, hne⟩ := htgt
    have hshape : compileSimple env (.assign t) c = [.assign (gid t) (compileCExpr env c)] := by
      cases c <;> simp [isCtl] at hctl <;> (try (simp [fragC] at hfrag; done)) <;> simp only [compileSimple]
      rename_i f args ty
      simp only [fragC] at hfrag
      simp [not_missing hfrag]
    rw [hshape]
    refine clean_cons ?_ ?_ (clean_nil _ _)
    · simp only [scopeErrsStmt, h1, List.nil_append]
      have : sc.contains (gid t) = true := by simpa using htk
      simp [this, htk]
    · simp only [shapeOKStmt, hnb, h2, h3 (gid t) htk hne]; rfl
  | effect =>
    cases c <;> simp [isCtl] at hctl <;> (try (simp [fragC] at hfrag; done)) <;> simp only [compileSimple] <;>
      first
        | exact clean_nil _ _
        | (refine clean_cons ?_ ?_ (clean_nil _ _)
           · simp only [scopeErrsStmt, h1]
           · simp only [shapeOKStmt, hnb, h2]; rfl)

theorem mem_contains {l : Names} {x : String} (h : x ∈ l) : l.contains x = true := by simpa using h
theorem not_mem_contains {l : Names} {x : String} (h : ¬ x ∈ l) : l.contains x = false := by simpa using h

/-- a fresh declaration `var x T [= e]` is clean -/
theorem varDecl_ok {D sc : Names} {x : String} {ty : GTy} {v : Option GExpr} (hx : ¬ x ∈ sc) (hD : x ∈ D) (hb : x ≠ "_")
    (hv : undecl D sc (match v with | some e => varsUsed e | none => []) = [])
    (hnb : Goml.Dce.noBlockOpt v = true) (hus : (match v with | some e => varsUsed e | none => []).contains "_" = false) :
    scopeErrsStmt D sc (.varDecl x ty v) = [] ∧ shapeOKStmt (.varDecl x ty v) = true := by
  have hus' : ¬ "_" ∈ (match v with | some e => varsUsed e | none => []) := by simpa using hus
  refine ⟨?_, ?_⟩
  · simp [scopeErrsStmt, hv, not_mem_contains hx, mem_contains hD]
    exact ⟨hv, hx, hD⟩
  · simp [shapeOKStmt, hnb, hb, hus']
    exact hus'

mutual
theorem scopeA {env : Env} {file : AFile} {G : List String} {D : Names} :
    ∀ (e : AExpr) (m : Mode) (st : St) (Γ : Ctx) (sc : Names), fragA env file G Γ e = true →
      SCtx D sc Γ (calleesA e) → DeclOK D sc (compileA env m st e).1 → TgtSc m Γ sc →
      Clean D sc (compileA env m st e).1
  | .ret c, m, st, Γ, sc, hfrag, hctx, hdecl, htgt => by
    simp only [compileA, fragA, calleesA] at *
    exact scopeC c m st Γ sc hfrag hctx hdecl htgt
  | .letE x v body ty, m, st, Γ, sc, hfrag, hctx, hdecl, htgt => by
    simp only [fragA, Bool.and_eq_true] at hfrag
    obtain ⟨hfv, hfb⟩ := hfrag
    rw [compileA_let] at hdecl ⊢
    have hctxv : SCtx D sc Γ (calleesC v) := hctx.mono_cs (fun f hf => by simp [calleesA, hf])
    have hda := hdecl.1; rw [allDecls_append] at hda
    obtain ⟨hndP, hndR, hdisj⟩ := List.nodup_append.mp hda
    by_cases hctl : isCtl v = true
    · -- `var x T` then the statements that assign it
      simp only [letPrefix, letBodySt, hctl, if_true] at hdecl hndP hndR hdisj ⊢
      generalize hd : compileTail env (.assign (rn x)) (st.check (okTy (cexprTastTy env v))) v = d at *
      have hxin := hdecl.2 (vn x) (by rw [allDecls_append, allDecls_varDecl]; simp)
      rw [allDecls_varDecl] at hndP
      obtain ⟨hxnd, hndd⟩ := List.nodup_cons.mp hndP
      have hvd := varDecl_ok (ty := cexprTy env v) (v := none) hxin.1 hxin.2.1 hxin.2.2 (by simp [undecl]) rfl rfl
      -- the assigning statements, with `x` declared
      have hctx1 : SCtx D (vn x :: sc) Γ (calleesC v) :=
        ⟨fun y t hy => List.mem_cons_of_mem _ (hctxv.vars y t hy),
         fun y hy => by rcases List.mem_cons.mp hy with rfl | hy; exact hxin.2.1; exact hctxv.scD y hy,
         fun h => by rcases List.mem_cons.mp h with h | h; exact hxin.2.2 h.symm; exact hctxv.nob h, hctxv.cal⟩
      have hdecl1 : DeclOK D (vn x :: sc) d.1 :=
        ⟨hndd, fun y hy => by
          have := hdecl.2 y (by rw [allDecls_append, allDecls_varDecl]; simp [hy])
          refine ⟨fun h => ?_, this.2⟩
          rcases List.mem_cons.mp h with rfl | h
          · exact hxnd hy
          · exact this.1 h⟩
      have htgt1 : TgtSc (.assign (rn x)) Γ (vn x :: sc) := by
        refine ⟨by rw [← vn_def]; exact List.mem_cons_self, fun y ty hy => ?_⟩
        rw [← vn_def]; exact fun e => hxin.1 (e ▸ hctxv.vars y ty hy)
      have hcd := scopeC v (.assign (rn x)) (st.check (okTy (cexprTastTy env v))) Γ (vn x :: sc) hfv hctx1 (hd ▸ hdecl1) htgt1
      rw [hd] at hcd
      have hpre : Clean D sc (GStmt.varDecl (vn x) (cexprTy env v) none :: d.1) := clean_cons hvd.1 hvd.2 hcd
      refine clean_append hpre ?_
      rw [scopeAfter_varDecl]
      -- the body, with `x` in scope
      have hsub := scopeAfter_sub d.1 (vn x :: sc)
      have hsup := scopeAfter_sup d.1 (vn x :: sc)
      have hctx2 : SCtx D (scopeAfter d.1 (vn x :: sc)) ((x, v.annTy) :: Γ) (calleesA body) := by
        refine ⟨fun y t hy => ?_, fun y hy => ?_, fun h => ?_, fun f hf => hctx.cal f (by simp [calleesA, hf])⟩
        · by_cases hxy : x = y
          · subst hxy; exact hsup _ List.mem_cons_self
          · rw [lookupTy_cons_ne _ _ hxy] at hy; exact hsup _ (List.mem_cons_of_mem _ (hctx.vars y t hy))
        · rcases hsub y hy with h | h
          · exact hctx1.scD y h
          · exact hdecl1.2 y h |>.2.1
        · rcases hsub _ h with h | h
          · exact hctx1.nob h
          · exact (hdecl1.2 _ h).2.2 rfl
      have hdecl2 : DeclOK D (scopeAfter d.1 (vn x :: sc)) (compileA env m d.2 body).1 :=
        ⟨hndR, fun y hy => by
          have := hdecl.2 y (by rw [allDecls_append]; exact List.mem_append_right _ hy)
          refine ⟨fun h => ?_, this.2⟩
          rcases hsub y h with h | h
          · rcases List.mem_cons.mp h with rfl | h
            · exact hdisj _ (by rw [allDecls_varDecl]; exact List.mem_cons_self) _ hy rfl
            · exact this.1 h
          · exact hdisj _ (by rw [allDecls_varDecl]; exact List.mem_cons_of_mem _ h) _ hy rfl⟩
      have htgt2 : TgtSc m ((x, v.annTy) :: Γ) (scopeAfter d.1 (vn x :: sc)) := by
        cases m with
        | effect => trivial
        | assign t =>
          obtain ⟨htk, hne⟩ := htgt
          refine ⟨hsup _ (List.mem_cons_of_mem _ htk), fun y ty hy => ?_⟩
          by_cases hxy : x = y
          · subst hxy; exact fun e => hxin.1 (e ▸ htk)
          · rw [lookupTy_cons_ne _ _ hxy] at hy; exact hne y ty hy
      exact scopeA body m d.2 _ _ hfb hctx2 hdecl2 htgt2
    · -- `var x T = e`
      have hctl' : isCtl v = false := by simpa using hctl
      simp only [letPrefix, letBodySt, hctl', Bool.false_eq_true, if_false, bindSimple_shape x hfv] at hdecl hndP hndR hdisj ⊢
      have hxin := hdecl.2 (vn x) (by rw [allDecls_append, allDecls_varDecl]; simp)
      obtain ⟨hfrom, hnb⟩ := cexpr_fromCtx hctl' hfv
      obtain ⟨h1, h2, _⟩ := expr_ok hctxv hfrom
      have hvd := varDecl_ok (ty := goTy v.annTy) (v := some (compileCExpr env v)) hxin.1 hxin.2.1 hxin.2.2 h1 hnb h2
      refine clean_append (clean_cons hvd.1 hvd.2 (clean_nil _ _)) ?_
      simp only [scopeAfter, declScope]
      have hctx2 : SCtx D (vn x :: sc) ((x, v.annTy) :: Γ) (calleesA body) := by
        refine ⟨fun y t hy => ?_, fun y hy => ?_, fun h => ?_, fun f hf => hctx.cal f (by simp [calleesA, hf])⟩
        · by_cases hxy : x = y
          · subst hxy; exact List.mem_cons_self
          · rw [lookupTy_cons_ne _ _ hxy] at hy; exact List.mem_cons_of_mem _ (hctx.vars y t hy)
        · rcases List.mem_cons.mp hy with rfl | hy
          · exact hxin.2.1
          · exact hctx.scD y hy
        · rcases List.mem_cons.mp h with h | h
          · exact hxin.2.2 h.symm
          · exact hctx.nob h
      have hdecl2 : DeclOK D (vn x :: sc) (compileA env m (st.check (okBindSimple env v)) body).1 :=
        ⟨hndR, fun y hy => by
          have := hdecl.2 y (by rw [allDecls_append]; exact List.mem_append_right _ hy)
          refine ⟨fun h => ?_, this.2⟩
          rcases List.mem_cons.mp h with rfl | h
          · exact hdisj _ (by rw [allDecls_varDecl]; exact List.mem_cons_self) _ hy rfl
          · exact this.1 h⟩
      have htgt2 : TgtSc m ((x, v.annTy) :: Γ) (vn x :: sc) := by
        cases m with
        | effect => trivial
        | assign t =>
          obtain ⟨htk, hne⟩ := htgt
          refine ⟨List.mem_cons_of_mem _ htk, fun y ty hy => ?_⟩
          by_cases hxy : x = y
          · subst hxy; exact fun e => hxin.1 (e ▸ htk)
          · rw [lookupTy_cons_ne _ _ hxy] at hy; exact hne y ty hy
      exact scopeA body m _ _ _ hfb hctx2 hdecl2 htgt2
theorem scopeC {env : Env} {file : AFile} {G : List String} {D : Names} :
    ∀ (c : CExpr) (m : Mode) (st : St) (Γ : Ctx) (sc : Names), fragC env file G Γ c = true →
      SCtx D sc Γ (calleesC c) → DeclOK D sc (compileTail env m st c).1 → TgtSc m Γ sc →
      Clean D sc (compileTail env m st c).1
  | .ite c t e ty, m, st, Γ, sc, hfrag, hctx, hdecl, htgt => by
    simp only [fragC, Bool.and_eq_true] at hfrag
    obtain ⟨⟨⟨⟨⟨hc, _⟩, hft⟩, hfe⟩, _⟩, _⟩ := hfrag
    simp only [compileTail] at hdecl ⊢
    obtain ⟨hfrom, hnb⟩ := imm_fromCtx env hc (calleesC (.ite c t e ty))
    obtain ⟨h1, h2, _⟩ := expr_ok hctx hfrom
    have hT := scopeA t m (st.check (okImm env c)) Γ sc hft (hctx.mono_cs (fun f hf => by simp [calleesC, hf]))
      (hdecl.sub (by rw [allDecls_ite]; exact List.sublist_append_left _ _)) htgt
    have hE := scopeA e m (compileA env m (st.check (okImm env c)) t).2 Γ sc hfe (hctx.mono_cs (fun f hf => by simp [calleesC, hf]))
      (hdecl.sub (by rw [allDecls_ite]; exact List.sublist_append_right _ _)) htgt
    refine clean_cons ?_ ?_ (clean_nil _ _)
    · simp only [scopeErrsStmt, h1, hT.1, hE.1]; rfl
    · simp only [shapeOKStmt, hnb, h2, hT.2, hE.2]; rfl
  | .while c b ty, m, st, Γ, sc, hfrag, hctx, hdecl, htgt => by
    simp only [fragC, Bool.and_eq_true] at hfrag
    obtain ⟨⟨⟨⟨hfc, _⟩, hfb⟩, _⟩, _⟩ := hfrag
    rw [tail_while_shape] at hdecl ⊢
    generalize hcv : "cond" ++ toString st.n = cv at hdecl ⊢
    generalize hst : st.next.check (isBoolTy c.annTy) = st' at hdecl ⊢
    simp only [loopBody] at hdecl ⊢
    generalize hA : compileA env (.assign cv) st' c = rA at *
    generalize hB : compileA env .effect rA.2 b = rB at *
    have hdeclS := tail_while_decls (gid cv) (rA.1 ++ [GStmt.ite (.un .not .bool (.var (gid cv) .bool)) [.brk] none] ++ rB.1) m
    have hcvin := hdecl.2 (gid cv) (by rw [hdeclS]; exact List.mem_cons_self)
    have hnd := hdecl.1; rw [hdeclS] at hnd
    obtain ⟨hcvnd, hndB⟩ := List.nodup_cons.mp hnd
    have hvd := varDecl_ok (ty := GTy.bool) (v := none) hcvin.1 hcvin.2.1 hcvin.2.2 (by simp [undecl]) rfl rfl
    have hall : allDecls (rA.1 ++ [GStmt.ite (.un .not .bool (.var (gid cv) .bool)) [.brk] none] ++ rB.1) =
        allDecls rA.1 ++ allDecls rB.1 := by
      simp [allDecls_append, allDecls, Goml.Dce.declsOf]
    rw [hall] at hndB hcvnd
    obtain ⟨hndA, hndBB, hdisjAB⟩ := List.nodup_append.mp hndB
    have hin : ∀ y, y ∈ allDecls rA.1 ++ allDecls rB.1 → ¬ y ∈ sc ∧ y ∈ D ∧ y ≠ "_" := fun y hy =>
      hdecl.2 y (by rw [hdeclS, hall]; exact List.mem_cons_of_mem _ hy)
    have hctx1 : SCtx D (gid cv :: sc) Γ (calleesA c ++ calleesA b) :=
      ⟨fun y t hy => List.mem_cons_of_mem _ (hctx.vars y t hy),
       fun y hy => by rcases List.mem_cons.mp hy with rfl | hy; exact hcvin.2.1; exact hctx.scD y hy,
       fun h => by rcases List.mem_cons.mp h with h | h; exact hcvin.2.2 h.symm; exact hctx.nob h,
       fun f hf => hctx.cal f (by simpa [calleesC] using hf)⟩
    have hdeclA : DeclOK D (gid cv :: sc) rA.1 :=
      ⟨hndA, fun y hy => by
        have := hin y (List.mem_append_left _ hy)
        refine ⟨fun h => ?_, this.2⟩
        rcases List.mem_cons.mp h with rfl | h
        · exact hcvnd (List.mem_append_left _ hy)
        · exact this.1 h⟩
    have htgtA : TgtSc (.assign cv) Γ (gid cv :: sc) :=
      ⟨List.mem_cons_self, fun y ty hy e => hcvin.1 (e ▸ hctx.vars y ty hy)⟩
    have hcA := scopeA c (.assign cv) st' Γ (gid cv :: sc) hfc (hctx1.mono_cs (fun f hf => List.mem_append_left _ hf))
      (hA ▸ hdeclA) htgtA
    rw [hA] at hcA
    have hsub := scopeAfter_sub rA.1 (gid cv :: sc)
    have hsup := scopeAfter_sup rA.1 (gid cv :: sc)
    have hctx2 : SCtx D (scopeAfter rA.1 (gid cv :: sc)) Γ (calleesA b) :=
      ⟨fun y t hy => hsup _ (hctx1.vars y t hy),
       fun y hy => by rcases hsub y hy with h | h; exact hctx1.scD y h; exact (hdeclA.2 y h).2.1,
       fun h => by rcases hsub _ h with h | h; exact hctx1.nob h; exact (hdeclA.2 _ h).2.2 rfl,
       fun f hf => hctx1.cal f (List.mem_append_right _ hf)⟩
    have hdeclB : DeclOK D (scopeAfter rA.1 (gid cv :: sc)) rB.1 :=
      ⟨hndBB, fun y hy => by
        have := hin y (List.mem_append_right _ hy)
        refine ⟨fun h => ?_, this.2⟩
        rcases hsub y h with h | h
        · rcases List.mem_cons.mp h with rfl | h
          · exact hcvnd (List.mem_append_right _ hy)
          · exact this.1 h
        · exact hdisjAB _ h _ hy rfl⟩
    have hcB := scopeA b .effect rA.2 Γ _ hfb hctx2 (hB ▸ hdeclB) trivial
    rw [hB] at hcB
    have hcvsc : gid cv ∈ scopeAfter rA.1 (gid cv :: sc) := hsup _ List.mem_cons_self
    have hite : Clean D (scopeAfter rA.1 (gid cv :: sc))
        (GStmt.ite (.un .not .bool (.var (gid cv) .bool)) [.brk] none :: rB.1) := by
      refine clean_cons ?_ ?_ (by simpa [declScope] using hcB)
      · simp only [scopeErrsStmt, varsUsed]
        rw [undecl_nil.mpr (fun y hy _ => by simp only [List.mem_singleton] at hy; subst hy; exact hcvsc)]
        simp [scopeErrs, scopeErrsStmt]
      · simp only [shapeOKStmt, noBlockExpr, varsUsed, shapeOK]
        have : (gid cv == "_") = false := by simpa using hcvin.2.2
        simp [this]
        exact fun e => hcvin.2.2 e.symm
    have hbody : Clean D (gid cv :: sc) (rA.1 ++ [GStmt.ite (.un .not .bool (.var (gid cv) .bool)) [.brk] none] ++ rB.1) := by
      rw [List.append_assoc]; exact clean_append hcA (by simpa using hite)
    have hloop : scopeErrsStmt D (gid cv :: sc) (.loop (rA.1 ++ [GStmt.ite (.un .not .bool (.var (gid cv) .bool)) [.brk] none] ++ rB.1)) = [] ∧
        shapeOKStmt (.loop (rA.1 ++ [GStmt.ite (.un .not .bool (.var (gid cv) .bool)) [.brk] none] ++ rB.1)) = true :=
      ⟨by simp only [scopeErrsStmt]; exact hbody.1, by simp only [shapeOKStmt]; exact hbody.2⟩
    cases m with
    | effect =>
      exact clean_cons hvd.1 hvd.2 (clean_cons hloop.1 hloop.2 (clean_nil _ _))
    | assign t =>
      obtain ⟨htk, _⟩ := htgt
      refine clean_cons hvd.1 hvd.2 (clean_cons hloop.1 hloop.2 (clean_cons ?_ ?_ (clean_nil _ _)))
      · simp only [scopeErrsStmt, declScope, unitE, varsUsed, undecl, List.filter_nil, List.nil_append]
        have : (gid cv :: sc).contains (gid t) = true := mem_contains (List.mem_cons_of_mem _ htk)
        simp [this]
        exact fun _ _ => htk
      · simp [shapeOKStmt, unitE, noBlockExpr, varsUsed]
  | .imm i, m, st, Γ, sc, hfrag, hctx, hdecl, htgt => by
    rw [compileTail_simple env m st (by rfl)]; exact scopeC_simple m _ Γ sc rfl hfrag hctx htgt
  | .un op e ty, m, st, Γ, sc, hfrag, hctx, hdecl, htgt => by
    rw [compileTail_simple env m st (by rfl)]; exact scopeC_simple m _ Γ sc rfl hfrag hctx htgt
  | .bin op l r ty, m, st, Γ, sc, hfrag, hctx, hdecl, htgt => by
    rw [compileTail_simple env m st (by rfl)]; exact scopeC_simple m _ Γ sc rfl hfrag hctx htgt
  | .call f args ty, m, st, Γ, sc, hfrag, hctx, hdecl, htgt => by
    rw [compileTail_simple env m st (by rfl)]; exact scopeC_simple m _ Γ sc rfl hfrag hctx htgt
  | .matchE s arms d ty, m, st, Γ, sc, hfrag, _, _, _ => by simp [fragC] at hfrag
  | .constr c args ty, m, st, Γ, sc, hfrag, hctx, hdecl, htgt => by
    rw [compileTail_simple env m st (by rfl)]; exact scopeC_simple m _ Γ sc rfl hfrag hctx htgt
  | .tuple items ty, m, st, Γ, sc, hfrag, _, _, _ => by simp [fragC] at hfrag
  | .array items ty, m, st, Γ, sc, hfrag, _, _, _ => by simp [fragC] at hfrag
  | .cget e c idx ty, m, st, Γ, sc, hfrag, hctx, hdecl, htgt => by
    rw [compileTail_simple env m st (by rfl)]; exact scopeC_simple m _ Γ sc rfl hfrag hctx htgt
  | .toDyn tr forTy e ty, m, st, Γ, sc, hfrag, _, _, _ => by simp [fragC] at hfrag
  | .dynCall tr mm recv args ty, m, st, Γ, sc, hfrag, _, _, _ => by simp [fragC] at hfrag
  | .go e ty, m, st, Γ, sc, hfrag, _, _, _ => by simp [fragC] at hfrag
  | .proj e idx ty, m, st, Γ, sc, hfrag, _, _, _ => by simp [fragC] at hfrag
end

theorem lookupTy_mem {Γ : Ctx} {x : String} {t : Ty} (h : lookupTy Γ x = some t) : ∃ p, p ∈ Γ ∧ p.1 = x := by
  unfold lookupTy at h
  cases hf : Γ.find? (·.1 == x) with
  | none => rw [hf] at h; cases h
  | some p => exact ⟨p, List.mem_of_find?_eq_some hf, by simpa using List.find?_some hf⟩

/-- **T2 at function level**: the body `compile_fn` builds for a function that passes the local
    checks of the fragment is scope-clean and inside the shape contract of the DCE theorems -/
theorem fn_clean {env : Env} {file : AFile} {G : List String} {st : St} {g : AFn}
    (hlocal : localOK env file G st g = true) :
    Clean (Goml.Dce.localsOf (compileFn env st g).1) ((compileFn env st g).1.params.map (·.1)) (compileFn env st g).1.body := by
  simp only [localOK, srcLocalOK, goLocalOK, Bool.and_eq_true, Bool.not_eq_true', compileFn_shape] at hlocal
  obtain ⟨⟨⟨⟨hps, hrs⟩, hfrag⟩, hret⟩, ⟨hnodup0, hblank⟩, hcallees⟩ := hlocal
  have hnodup := of_decide_eq_true hnodup0
  clear hnodup0
  rw [compileFn_shape]
  generalize hrn : "ret" ++ toString st.n = retName at *
  generalize hst1 : (st.next.check (okTy g.ret)).check (g.params.all fun p => okTy p.2) = st1 at *
  generalize hS : (compileA env (.assign retName) st1 g.body).1 = S at *
  have hlocals : Goml.Dce.localsOf
      { name := fnName g.name, params := g.params.map fun p => (vn p.1, goTy p.2), ret := some (goTy g.ret),
        body := .varDecl (gid retName) (goTy g.ret) none :: (S ++ [.ret (some (.var (gid retName) (goTy g.ret)))]) } =
      (g.params.map fun p => vn p.1) ++ (gid retName :: allDecls S) := by
    simp [Goml.Dce.localsOf, allDecls_varDecl, allDecls_append, allDecls_ret, allDecls, Goml.Dce.declsOf, List.map_map, Function.comp_def]
  rw [hlocals] at hnodup hblank hcallees ⊢
  simp only [List.map_map, Function.comp_def]
  obtain ⟨hndP, hndR, hdisjPR⟩ := List.nodup_append.mp hnodup
  obtain ⟨hretS, hndS⟩ := List.nodup_cons.mp hndR
  have hnb : ¬ "_" ∈ (g.params.map fun p => vn p.1) ++ (gid retName :: allDecls S) := by
    intro h; rw [List.contains_eq_mem] at hblank; simp [h] at hblank
  generalize hD : (g.params.map fun p => vn p.1) ++ (gid retName :: allDecls S) = D at *
  have hPD : ∀ y, y ∈ (g.params.map fun p => vn p.1) → y ∈ D := fun y hy => hD ▸ List.mem_append_left _ hy
  have hRD : gid retName ∈ D := hD ▸ List.mem_append_right _ List.mem_cons_self
  have hSD : ∀ y, y ∈ allDecls S → y ∈ D := fun y hy => hD ▸ List.mem_append_right _ (List.mem_cons_of_mem _ hy)
  have hretP : ¬ gid retName ∈ (g.params.map fun p => vn p.1) := fun h => hdisjPR _ h _ List.mem_cons_self rfl
  have hvd := varDecl_ok (D := D) (sc := g.params.map fun p => vn p.1) (ty := goTy g.ret) (v := none) hretP hRD
    (fun e => hnb (e ▸ hRD)) (by simp [undecl]) rfl rfl
  -- the body proper
  have hctx : SCtx D (gid retName :: g.params.map fun p => vn p.1) (paramCtx g) (calleesA g.body) := by
    refine ⟨fun x t hx => ?_, fun y hy => ?_, fun h => ?_, fun f hf => ?_⟩
    · obtain ⟨p, hp, rfl⟩ := lookupTy_mem hx
      simp only [paramCtx, List.mem_reverse] at hp
      exact List.mem_cons_of_mem _ (List.mem_map_of_mem (f := fun p => vn p.1) hp)
    · rcases List.mem_cons.mp hy with rfl | hy
      · exact hRD
      · exact hPD y hy
    · rcases List.mem_cons.mp h with h | h
      · exact hnb (h ▸ hRD)
      · exact hnb (hPD _ h)
    · have := List.all_eq_true.mp hcallees f hf
      simp only [Bool.and_eq_true, Bool.not_eq_true', List.contains_eq_mem, decide_eq_false_iff_not, bne_iff_ne] at this
      exact this
  have hdecl : DeclOK D (gid retName :: g.params.map fun p => vn p.1) S :=
    ⟨hndS, fun y hy => ⟨fun h => by
        rcases List.mem_cons.mp h with rfl | h
        · exact hretS hy
        · exact hdisjPR _ h _ (List.mem_cons_of_mem _ hy) rfl, hSD y hy, fun e => hnb (e ▸ hSD y hy)⟩⟩
  have htgt : TgtSc (.assign retName) (paramCtx g) (gid retName :: g.params.map fun p => vn p.1) :=
    ⟨List.mem_cons_self, fun x t hx e => by
      obtain ⟨p, hp, rfl⟩ := lookupTy_mem hx
      simp only [paramCtx, List.mem_reverse] at hp
      exact hretP (e ▸ List.mem_map_of_mem (f := fun p => vn p.1) hp)⟩
  have hbody := scopeA (D := D) g.body (.assign retName) st1 (paramCtx g) _ hfrag hctx (hS ▸ hdecl) htgt
  rw [hS] at hbody
  have hretsc : gid retName ∈ scopeAfter S (gid retName :: g.params.map fun p => vn p.1) :=
    scopeAfter_sup _ _ _ List.mem_cons_self
  have hlast : Clean D (scopeAfter S (gid retName :: g.params.map fun p => vn p.1))
      [GStmt.ret (some (.var (gid retName) (goTy g.ret)))] := by
    refine clean_cons ?_ ?_ (clean_nil _ _)
    · simp only [scopeErrsStmt, varsUsed]
      exact undecl_nil.mpr (fun y hy _ => by simp only [List.mem_singleton] at hy; subst hy; exact hretsc)
    · have : (gid retName == "_") = false := by
        have : gid retName ≠ "_" := fun e => hnb (e ▸ hRD)
        simpa using this
      simp [shapeOKStmt, Goml.Dce.noBlockOpt, noBlockExpr, varsUsed, this]
      exact fun e => hnb (e ▸ hRD)
  exact clean_cons hvd.1 hvd.2 (clean_append hbody hlast)

end Goml.GoComp
