import GomlVerif.Lemmas.GoCompWrites
/-!
T2: the statements `GoCompile` emits for a function of the fragment satisfy Go's scope rules for
locals (`Dce.scopeErrs = []`: declared before use, nothing redeclared or shadowed) and the shape
contract of the DCE theorems (`Dce.shapeOK`), by structural induction over the ANF body.
-/
set_option linter.unusedSimpArgs false
set_option linter.unusedVariables false
namespace Goml.GoComp
open Goml Goml.Go Goml.GoCompile Goml.GoFrag
open Goml.Dce (keys scopeErrs scopeErrsStmt scopeErrsCases scopeErrsTCases shapeOK shapeOKStmt shapeOKCases shapeOKTCases
  varsUsed varsUsedList undecl declScope noBlockExpr noBlockList mem_uni undecl_nil Names writesStmts writesCases writesTCases)

attribute [local irreducible] Goml.GoCompile.vn Goml.GoCompile.gid Goml.GoCompile.rn

/-- the two properties T2 is about -/
def Clean (D sc : Names) (S : List GStmt) : Prop := scopeErrs D sc S = [] ∧ shapeOK S = true

theorem clean_nil (D sc : Names) : Clean D sc [] := ⟨by simp [scopeErrs], by simp [shapeOK]⟩

theorem clean_cons {D sc : Names} {s : GStmt} {rest : List GStmt} (h1 : scopeErrsStmt D sc s = [])
    (h2 : shapeOKStmt s = true) (h3 : Clean D (declScope s sc) rest) : Clean D sc (s :: rest) := by
  refine ⟨?_, ?_⟩
  · rw [scopeErrs]; simp [h1, h3.1]
  · rw [shapeOK]; simp [h2, h3.2]

theorem clean_append {D : Names} : ∀ {a b : List GStmt} {sc : Names}, Clean D sc a → Clean D (scopeAfter a sc) b →
    Clean D sc (a ++ b)
  | [], b, sc, _, hb => by simpa [scopeAfter] using hb
  | s :: a, b, sc, ha, hb => by
    obtain ⟨ha1, ha2⟩ := ha
    rw [scopeErrs] at ha1; rw [shapeOK] at ha2
    simp only [List.append_eq_nil_iff, Bool.and_eq_true] at ha1 ha2
    exact clean_cons ha1.1 ha2.1 (clean_append ⟨ha1.2, ha2.2⟩ (by simpa [scopeAfter] using hb))

theorem scopeAfter_varDecl (x : String) (ty : GTy) (v : Option GExpr) (rest : List GStmt) (sc : Names) :
    scopeAfter (.varDecl x ty v :: rest) sc = scopeAfter rest (x :: sc) := rfl

/-! ### variables of compiled expressions -/

theorem varsUsed_compileImm (env : Env) (i : Imm) :
    varsUsed (compileImm env i) = (match i with | .var x _ => [vn x] | _ => []) ∧ noBlockExpr (compileImm env i) = true := by
  cases i with
  | var x ty => simp [compileImm, varsUsed, noBlockExpr]
  | prim p ty => cases p <;> simp [compileImm, lit, varsUsed, noBlockExpr]
  | tag idx ty => simp [compileImm, varsUsed, Goml.Dce.varsUsedFields, noBlockExpr, Goml.Dce.noBlockFields]

/-- where the variables of a compiled expression may come from: operands in scope, callees -/
def FromCtx (file : AFile) (G : List String) (Γ : Ctx) (cs : List String) (y : String) : Prop :=
  (∃ x t, lookupTy Γ x = some t ∧ y = vn x) ∨ y ∈ cs ∨ ∃ e, e ∈ fnSigs file G ∧ y = vn e.1

theorem imm_fromCtx (env : Env) {Γ : Ctx} {i : Imm} (h : immOK env file G Γ i = true) (cs : List String) :
    (∀ y, y ∈ varsUsed (compileImm env i) → FromCtx file G Γ cs y) ∧ noBlockExpr (compileImm env i) = true := by
  obtain ⟨h1, h2⟩ := varsUsed_compileImm env i
  refine ⟨fun y hy => ?_, h2⟩
  rw [h1] at hy
  cases i with
  | var x ty =>
    simp only [List.mem_singleton] at hy; subst hy
    simp only [immOK] at h
    cases hl : lookupTy Γ x with
    | none =>
      rw [hl] at h; simp only at h
      cases ty <;> simp only [fnValOK] at h <;> try (cases h; done)
      simp only [Bool.and_eq_true] at h
      cases hf : (fnSigs file G).find? (·.1 == x) with
      | none => rw [hf] at h; exact absurd h.2 (by simp)
      | some e =>
        have hx : e.1 = x := by simpa using List.find?_some hf
        exact Or.inr (Or.inr ⟨e, List.mem_of_find?_eq_some hf, by rw [hx]⟩)
    | some t => exact Or.inl ⟨x, t, hl, rfl⟩
  | prim p ty => cases hy
  | tag idx ty => cases hy

theorem imms_fromCtx (env : Env) {Γ : Ctx} (cs : List String) : ∀ {args : List Imm} {tys : List Ty}, argsOK env file G Γ args tys = true →
    (∀ y, y ∈ varsUsedList (compileImms env args) → FromCtx file G Γ cs y) ∧ noBlockList (compileImms env args) = true
  | [], tys, _ => by simp [compileImms, varsUsedList, noBlockList]
  | a :: as, [], h => by simp [argsOK] at h
  | a :: as, t :: ts, h => by
    simp only [argsOK, Bool.and_eq_true] at h
    obtain ⟨⟨ha, _⟩, has⟩ := h
    obtain ⟨h1, h2⟩ := imm_fromCtx env ha cs
    obtain ⟨h3, h4⟩ := imms_fromCtx env cs has
    simp only [compileImms, List.map_cons, varsUsedList, noBlockList, mem_uni, Bool.and_eq_true] at *
    exact ⟨fun y hy => hy.elim (h1 y) (h3 y), h2, h4⟩

theorem fields_fromCtx (env : Env) {Γ : Ctx} (cs : List String) : ∀ {args : List Imm} {tys : List Ty} (fields : List (String × Ty)),
    argsOK env file G Γ args tys = true →
    (∀ y, y ∈ Goml.Dce.varsUsedFields (structFieldsOf fields (compileImms env args)) → FromCtx file G Γ cs y) ∧
      Goml.Dce.noBlockFields (structFieldsOf fields (compileImms env args)) = true
  | [], tys, fields, _ => by simp [compileImms, structFieldsOf, Goml.Dce.varsUsedFields, Goml.Dce.noBlockFields]
  | a :: as, [], fields, h => by simp [argsOK] at h
  | a :: as, t :: ts, [], _ => by simp [compileImms, structFieldsOf, Goml.Dce.varsUsedFields, Goml.Dce.noBlockFields]
  | a :: as, t :: ts, f :: fs, h => by
    simp only [argsOK, Bool.and_eq_true] at h
    obtain ⟨⟨ha, _⟩, has⟩ := h
    obtain ⟨h1, h2⟩ := imm_fromCtx env ha cs
    obtain ⟨h3, h4⟩ := fields_fromCtx env cs fs has
    simp only [compileImms, structFieldsOf, List.map_cons, List.zip_cons_cons, Goml.Dce.varsUsedFields,
      Goml.Dce.noBlockFields, mem_uni, Bool.and_eq_true] at *
    exact ⟨fun y hy => hy.elim (h1 y) (h3 y), h2, h4⟩

theorem tfields_fromCtx (env : Env) {Γ : Ctx} (cs : List String) : ∀ {args : List Imm} {tys : List Ty} (i : Nat),
    argsOK env file G Γ args tys = true →
    (∀ y, y ∈ Goml.Dce.varsUsedFields (tupleFields i (compileImms env args)) → FromCtx file G Γ cs y) ∧
      Goml.Dce.noBlockFields (tupleFields i (compileImms env args)) = true
  | [], tys, i, _ => by simp [compileImms, tupleFields, Goml.Dce.varsUsedFields, Goml.Dce.noBlockFields]
  | a :: as, [], i, h => by simp [argsOK] at h
  | a :: as, t :: ts, i, h => by
    simp only [argsOK, Bool.and_eq_true] at h
    obtain ⟨⟨ha, _⟩, has⟩ := h
    obtain ⟨h1, h2⟩ := imm_fromCtx env ha cs
    obtain ⟨h3, h4⟩ := tfields_fromCtx env cs (i + 1) has
    simp only [compileImms, tupleFields, List.map_cons, Goml.Dce.varsUsedFields,
      Goml.Dce.noBlockFields, mem_uni, Bool.and_eq_true] at *
    exact ⟨fun y hy => hy.elim (h1 y) (h3 y), h2, h4⟩

theorem cexpr_fromCtx {env : Env} {file : AFile} {G : List String} {Γ : Ctx} {K : KCtx} {c : CExpr} (hctl : isCtl c = false)
    (hgoc : isGoC c = false) (h : fragC env file G Γ K c = true) :
    (∀ y, y ∈ varsUsed (compileCExpr env c) → FromCtx file G Γ (calleesC (Γ.map (·.1)) c) y) ∧ noBlockExpr (compileCExpr env c) = true := by
  cases c with
  | imm i => exact imm_fromCtx env h _
  | un op e ty =>
    simp only [fragC, Bool.and_eq_true] at h
    obtain ⟨h1, h2⟩ := imm_fromCtx env h.1 (calleesC (Γ.map (·.1)) (.un op e ty))
    simp only [compileCExpr, varsUsed, noBlockExpr]; exact ⟨h1, h2⟩
  | bin op l r ty =>
    simp only [fragC, Bool.and_eq_true] at h
    obtain ⟨h1, h2⟩ := imm_fromCtx env h.1.1 (calleesC (Γ.map (·.1)) (.bin op l r ty))
    obtain ⟨h3, h4⟩ := imm_fromCtx env h.1.2 (calleesC (Γ.map (·.1)) (.bin op l r ty))
    simp only [compileCExpr, varsUsed, noBlockExpr, mem_uni, Bool.and_eq_true]
    exact ⟨fun y hy => hy.elim (h1 y) (h3 y), h2, h4⟩
  | call f args ty =>
    simp only [fragC, Bool.or_eq_true] at h
    cases f with
    | var name fty =>
      rcases h with (((h | h) | h) | h) | h
      case inl.inl.inl.inr =>
        obtain ⟨helper, hty, tys, hshape, hcs, hargs⟩ := refcall_shape h
        obtain ⟨h3, h4⟩ := imms_fromCtx env (calleesC (Γ.map (·.1)) (.call (.var name fty) args ty)) hargs
        rw [hshape]
        simp only [varsUsed, noBlockExpr, mem_uni, Bool.and_eq_true, List.mem_singleton]
        refine ⟨fun y hy => ?_, trivial, h4⟩
        rcases hy with rfl | hy
        · exact Or.inr (Or.inl (by rw [hcs]; exact List.mem_singleton.mpr rfl))
        · exact h3 y hy
      case inl.inl.inr =>
        obtain ⟨helper, tys, hshape, hcs, hargs⟩ := arrcall_shape h
        obtain ⟨h3, h4⟩ := imms_fromCtx env (calleesC (Γ.map (·.1)) (.call (.var name fty) args ty)) hargs
        rw [hshape]
        simp only [varsUsed, noBlockExpr, mem_uni, Bool.and_eq_true, List.mem_singleton]
        refine ⟨fun y hy => ?_, trivial, h4⟩
        rcases hy with rfl | hy
        · exact Or.inr (Or.inl (by rw [hcs]; exact List.mem_singleton.mpr rfl))
        · exact h3 y hy
      case inl.inr =>
        simp only [localCallOK] at h
        cases hlk : lookupTy Γ name with
        | none => rw [hlk] at h; cases h
        | some t =>
          rw [hlk] at h
          cases t <;> simp only at h <;> try (cases h; done)
          simp only [Bool.and_eq_true, Bool.not_eq_true'] at h
          obtain ⟨⟨⟨⟨_, hsp⟩, hext⟩, hargs⟩, _⟩ := h
          have hext' : env.getExternFn (rn name) = none := by
            cases hx : env.getExternFn (rn name) with
            | none => rfl
            | some p => rw [hx] at hext; simp at hext
          obtain ⟨h3, h4⟩ := imms_fromCtx env (calleesC (Γ.map (·.1)) (.call (.var name fty) args ty)) hargs
          simp only [compileCExpr, compileCall_local hsp hext', varsUsed, noBlockExpr, mem_uni, Bool.and_eq_true, List.mem_singleton]
          refine ⟨fun y hy => ?_, trivial, h4⟩
          rcases hy with rfl | hy
          · exact Or.inl ⟨name, _, hlk, rfl⟩
          · exact h3 y hy
      case inr =>
        simp only [vecCallOK, Bool.and_eq_true, beq_iff_eq] at h
        obtain ⟨⟨hloc, hrn⟩, hcase⟩ := h
        have hnone : lookupTy Γ name = none := by
          cases hx : lookupTy Γ name with
          | none => rfl
          | some p => rw [hx] at hloc; simp at hloc
        have hnb := lookupTy_none_nomem hnone
        by_cases h1 : name = "vec_new"
        · subst h1
          rw [if_pos rfl] at hcase
          cases args with
          | cons a rest => simp at hcase
          | nil =>
            have hshape : compileCExpr env (.call (.var "vec_new" fty) [] ty) = .nil (goTy ty) := by
              simp [compileCExpr, compileCall, callee, hrn]
            rw [hshape]; simp [varsUsed, noBlockExpr]
        · rw [if_neg h1] at hcase
          by_cases h2 : name = "vec_push"
          · subst h2
            rw [if_pos rfl] at hcase
            cases ty <;> simp only at hcase <;> try (cases hcase; done)
            rename_i e
            simp only [Bool.and_eq_true] at hcase
            obtain ⟨h3, h4⟩ := imms_fromCtx env (calleesC (Γ.map (·.1)) (.call (.var "vec_push" fty) args (.vec e))) hcase.1
            have hshape : compileCExpr env (.call (.var "vec_push" fty) args (.vec e)) =
                .call (goTy (.vec e)) (.var "append" (goTy fty)) (compileImms env args) := by
              simp [compileCExpr, compileCall, callee, hrn, Imm.ty]
            rw [hshape]
            simp only [varsUsed, noBlockExpr, mem_uni, Bool.and_eq_true, List.mem_singleton]
            refine ⟨fun y hy => ?_, trivial, h4⟩
            rcases hy with rfl | hy
            · exact Or.inr (Or.inl (by simp [calleesC, goCallee, hrn, hnb]))
            · exact h3 y hy
          · rw [if_neg h2] at hcase
            by_cases h3 : name = "vec_get"
            · subst h3
              rw [if_pos rfl] at hcase
              cases args with
              | nil => cases hcase
              | cons a rest =>
                cases rest with
                | nil => cases hcase
                | cons i rest =>
                  simp only [Bool.and_eq_true] at hcase
                  obtain ⟨⟨_, hargs⟩, _⟩ := hcase
                  simp only [argsOK, Bool.and_eq_true] at hargs
                  obtain ⟨⟨ha, _⟩, ⟨hi, _⟩, hrest⟩ := hargs
                  cases rest with
                  | cons r rs => simp [argsOK] at hrest
                  | nil =>
                    obtain ⟨a1, a2⟩ := imm_fromCtx env ha (calleesC (Γ.map (·.1)) (.call (.var "vec_get" fty) [a, i] ty))
                    obtain ⟨i1, i2⟩ := imm_fromCtx env hi (calleesC (Γ.map (·.1)) (.call (.var "vec_get" fty) [a, i] ty))
                    have hshape : compileCExpr env (.call (.var "vec_get" fty) [a, i] ty) =
                        .index (goTy ty) (compileImm env a) (compileImm env i) := by
                      simp [compileCExpr, compileCall, callee, hrn, compileImms]
                    rw [hshape]
                    simp only [varsUsed, noBlockExpr, mem_uni, Bool.and_eq_true]
                    exact ⟨fun y hy => hy.elim (a1 y) (i1 y), a2, i2⟩
            · rw [if_neg h3] at hcase
              by_cases h4 : name = "vec_len"
              · subst h4
                rw [if_pos rfl] at hcase
                cases args with
                | nil => cases hcase
                | cons a rest =>
                  simp only at hcase
                  cases haty : a.ty with
                  | vec e =>
                    rw [haty] at hcase; simp only [Bool.and_eq_true] at hcase
                    obtain ⟨⟨hargs, _⟩, _⟩ := hcase
                    simp only [argsOK, Bool.and_eq_true] at hargs
                    obtain ⟨⟨ha, _⟩, hrest⟩ := hargs
                    cases rest with
                    | cons r rs => simp [argsOK] at hrest
                    | nil =>
                      obtain ⟨a1, a2⟩ := imm_fromCtx env ha (calleesC (Γ.map (·.1)) (.call (.var "vec_len" fty) [a] ty))
                      have hshape : compileCExpr env (.call (.var "vec_len" fty) [a] ty) =
                          .call (goTy ty) (.var "int32" (.func [.int 32 true] (.int 32 true)))
                            [.call (.int 32 true) (.var "len" (.func [goTy a.ty] (.int 32 true))) [compileImm env a]] := by
                        simp [compileCExpr, compileCall, callee, hrn, compileImms]
                      rw [hshape]
                      simp only [varsUsed, varsUsedList, noBlockExpr, noBlockList, mem_uni, Bool.and_eq_true, List.mem_singleton,
                        List.not_mem_nil, or_false, Bool.and_true]
                      refine ⟨fun y hy => ?_, trivial, trivial, a2⟩
                      rcases hy with rfl | rfl | hy
                      · exact Or.inr (Or.inl (by simp [calleesC, goCallee, hrn, hnb]))
                      · exact Or.inr (Or.inl (by simp [calleesC, goCallee, hrn, hnb]))
                      · exact a1 y hy
                  | _ => rw [haty] at hcase; cases hcase
              · rw [if_neg h4] at hcase; cases hcase
      simp only [compileCExpr, compileCall_frag h, varsUsed, noBlockExpr, mem_uni, Bool.and_eq_true, List.mem_singleton]
      simp only [callOK, Bool.and_eq_true, Bool.not_eq_true', beq_iff_eq] at h
      have hcs : calleesC (Γ.map (·.1)) (.call (.var name fty) args ty) = [vn name] := by
        simp only [calleesC]
        have hnone : lookupTy Γ name = none := by
          cases hx : lookupTy Γ name with
          | none => rfl
          | some p => have := h.1.1.1.1.1; rw [hx] at this; simp at this
        exact goCallee_plain (lookupTy_none_not_mem hnone) h.1.1.1.2 h.1.1.1.1.2
      obtain ⟨_, hcase⟩ := h
      have hargs : ∃ tys, argsOK env file G Γ args tys = true := by
        cases hs : builtinSig name with
        | some pr => rw [hs] at hcase; simp only [Bool.and_eq_true] at hcase; exact ⟨_, hcase.1.2⟩
        | none =>
          rw [hs] at hcase; simp only at hcase
          cases hf : file.find? (·.name == name) with
          | none => rw [hf] at hcase; simp at hcase
          | some g => rw [hf] at hcase; simp only [Bool.and_eq_true] at hcase; exact ⟨_, hcase.1.2⟩
      obtain ⟨tys, hargs⟩ := hargs
      obtain ⟨h3, h4⟩ := imms_fromCtx env (calleesC (Γ.map (·.1)) (.call (.var name fty) args ty)) hargs
      refine ⟨fun y hy => ?_, trivial, h4⟩
      rcases hy with rfl | hy
      · exact Or.inr (Or.inl (by rw [hcs]; exact List.mem_singleton.mpr rfl))
      · exact h3 y hy
    | prim p t => simp [callOK, refCallOK, arrCallOK, localCallOK, vecCallOK] at h
    | tag i t => simp [callOK, refCallOK, arrCallOK, localCallOK, vecCallOK] at h
  | ite c t e ty => simp [isCtl] at hctl
  | «while» c b ty => simp [isCtl] at hctl
  | matchE s arms d ty => simp [isCtl] at hctl
  | constr c args ty =>
    cases c with
    | enum tn vn' vi =>
      simp only [fragC, Bool.and_eq_true] at h
      obtain ⟨_, hcase⟩ := h
      cases hv : variantOf env (.enum tn) vi with
      | none => rw [hv] at hcase; simp at hcase
      | some vv =>
        rw [hv] at hcase; simp only at hcase
        obtain ⟨h1, h2⟩ := tfields_fromCtx env (calleesC (Γ.map (·.1)) (.constr (.enum tn vn' vi) args ty)) 0 hcase
        simp only [compileCExpr, varsUsed, noBlockExpr]
        exact ⟨h1, h2⟩
    | struct sn =>
      simp only [fragC, Bool.and_eq_true] at h
      obtain ⟨_, hcase⟩ := h
      cases hd : env.getStruct sn with
      | none => rw [hd] at hcase; simp at hcase
      | some d =>
        rw [hd] at hcase; simp only at hcase
        obtain ⟨h1, h2⟩ := fields_fromCtx env (calleesC (Γ.map (·.1)) (.constr (.struct sn) args ty)) d.fields hcase
        simp only [compileCExpr, hd, Option.map_some, Option.getD_some, varsUsed, noBlockExpr]
        exact ⟨h1, h2⟩
  | tuple items ty =>
    simp only [fragC] at h
    cases ty with
    | tuple ts =>
      simp only [Bool.and_eq_true] at h
      obtain ⟨h1, h2⟩ := tfields_fromCtx env (calleesC (Γ.map (·.1)) (.tuple items (.tuple ts))) 0 h.1
      simp only [compileCExpr, varsUsed, noBlockExpr]
      exact ⟨h1, h2⟩
    | _ => exact absurd h (by simp)
  | array items ty =>
    simp only [fragC] at h
    cases ty with
    | array len e =>
      simp only [Bool.and_eq_true] at h
      obtain ⟨h1, h2⟩ := imms_fromCtx env (calleesC (Γ.map (·.1)) (.array items (.array len e))) h.1
      simp only [compileCExpr, varsUsed, noBlockExpr]
      exact ⟨h1, h2⟩
    | _ => exact absurd h (by simp)
  | cget e c idx ty =>
    cases c with
    | enum tn vn' vi =>
      simp only [fragC, Bool.and_eq_true] at h
      obtain ⟨h1, h2⟩ := imm_fromCtx env h.1.1.2 (calleesC (Γ.map (·.1)) (.cget e (.enum tn vn' vi) idx ty))
      simp only [compileCExpr, varsUsed, noBlockExpr]; exact ⟨h1, h2⟩
    | struct sn =>
      simp only [fragC, Bool.and_eq_true] at h
      obtain ⟨h1, h2⟩ := imm_fromCtx env h.1.1 (calleesC (Γ.map (·.1)) (.cget e (.struct sn) idx ty))
      simp only [compileCExpr, varsUsed, noBlockExpr]; exact ⟨h1, h2⟩
  | toDyn tr forTy e ty =>
    simp only [fragC, toDynOK, Bool.and_eq_true] at h
    obtain ⟨h1', h2'⟩ := imm_fromCtx env h.1.1.1 (calleesC (Γ.map (·.1)) (.toDyn tr forTy e ty))
    -- the data field: the operand, under a conversion when it is a numeric literal
    have hd : (∀ y, y ∈ varsUsed (dynDataExpr env e) → FromCtx file G Γ (calleesC (Γ.map (·.1)) (.toDyn tr forTy e ty)) y) ∧
        noBlockExpr (dynDataExpr env e) = true := by
      cases e with
      | var x t => exact ⟨h1', h2'⟩
      | tag idx t => exact ⟨h1', h2'⟩
      | prim p t =>
        simp only [dynDataExpr]
        cases hc : convName t with
        | none => exact ⟨h1', h2'⟩
        | some n =>
          simp only [varsUsed, varsUsedList, noBlockExpr, noBlockList, mem_uni, List.mem_singleton, List.not_mem_nil, or_false,
            Bool.and_true, Bool.true_and, h2']
          refine ⟨fun y hy => ?_, trivial⟩
          rcases hy with rfl | hy
          · exact Or.inr (Or.inl (by simp [calleesC, dynDataCallee, hc]))
          · exact h1' y hy
    obtain ⟨h1, h2⟩ := hd
    simp only [compileCExpr, varsUsed, varsUsedList, Goml.Dce.varsUsedFields, noBlockExpr, noBlockList, Goml.Dce.noBlockFields,
      mem_uni, Bool.and_eq_true, List.mem_singleton, List.not_mem_nil, or_false, Bool.and_true]
    refine ⟨fun y hy => ?_, by first | exact h2 | exact ⟨h2, trivial⟩ | simp [h2]⟩
    rcases hy with hy | rfl
    · exact h1 y hy
    · exact Or.inr (Or.inl (by simp [calleesC]))
  | dynCall tr m recv args ty =>
    simp only [fragC, dynCallOK, Bool.and_eq_true] at h
    obtain ⟨⟨hr, _⟩, hcase⟩ := h
    cases hsg : dynSig env tr m with
    | none => rw [hsg] at hcase; cases hcase
    | some s =>
      rw [hsg] at hcase; simp only [Bool.and_eq_true] at hcase
      obtain ⟨r1, r2⟩ := imm_fromCtx env hr (calleesC (Γ.map (·.1)) (.dynCall tr m recv args ty))
      obtain ⟨a1, a2⟩ := imms_fromCtx env (calleesC (Γ.map (·.1)) (.dynCall tr m recv args ty)) hcase.1
      simp only [compileCExpr, varsUsed, varsUsedList, noBlockExpr, noBlockList, mem_uni, Bool.and_eq_true]
      exact ⟨fun y hy => by
        rcases hy with hy | hy | hy
        · exact r1 y hy
        · exact r1 y hy
        · exact a1 y hy, r2, r2, a2⟩
  | go e ty => simp [isGoC] at hgoc
  | proj e idx ty =>
    simp only [fragC, Bool.and_eq_true] at h
    obtain ⟨h1, h2⟩ := imm_fromCtx env h.1 (calleesC (Γ.map (·.1)) (.proj e idx ty))
    simp only [compileCExpr, varsUsed, noBlockExpr]; exact ⟨h1, h2⟩

/-! ### the scope invariant -/

/-- what is known about the Go scope `sc` at a program point with ANF context `Γ`; `D` = all locals
    of the function, `cs` = the callee names of the code still to come -/
structure SCtx (file : AFile) (G : List String) (D sc : Names) (Γ : Ctx) (cs : List String) : Prop where
  vars : ∀ x t, lookupTy Γ x = some t → vn x ∈ sc
  scD : ∀ y, y ∈ sc → y ∈ D
  nob : ¬ "_" ∈ sc
  cal : ∀ f, f ∈ cs → ¬ f ∈ D ∧ f ≠ "_"
  fns : ∀ e, e ∈ fnSigs file G → ¬ vn e.1 ∈ D ∧ vn e.1 ≠ "_"

/-- the test a declared name passes in T2: a local of the function, not `_` -/
def declOKB (D : Names) (x : String) : Bool := D.contains x && x != "_"

/-- the `var` declarations of `S` are locals of the function, not `_`, and new in their scope (block-scoped: `sokB`) -/
abbrev DeclOK (D sc : Names) (S : List GStmt) : Prop := sokB (declOKB D) sc S = true

theorem declOKB_spec {D : Names} {x : String} (h : declOKB D x = true) : x ∈ D ∧ x ≠ "_" := by
  simpa [declOKB] using h

theorem DeclOK.varDecl {D sc : Names} {x : String} {T : GTy} {v : Option GExpr} {rest : List GStmt}
    (h : DeclOK D sc (.varDecl x T v :: rest)) : (¬ x ∈ sc ∧ x ∈ D ∧ x ≠ "_") ∧ DeclOK D (x :: sc) rest := by
  simp only [DeclOK, sokB, sokStmtB, Goml.Dce.declScope, Bool.and_eq_true, Bool.not_eq_true', List.contains_eq_mem,
    decide_eq_false_iff_not] at h
  exact ⟨⟨h.1.1, declOKB_spec h.1.2⟩, h.2⟩

theorem DeclOK.append {D sc : Names} {a b : List GStmt} (h : DeclOK D sc (a ++ b)) :
    DeclOK D sc a ∧ DeclOK D (scopeAfter a sc) b := by
  simpa only [DeclOK, sokB_append, Bool.and_eq_true] using h

theorem DeclOK.top {D sc : Names} {S : List GStmt} (h : DeclOK D sc S) : ∀ y, y ∈ topDecls S → ¬ y ∈ sc ∧ y ∈ D ∧ y ≠ "_" :=
  fun y hy => ⟨(sokB_top S sc h y hy).2, declOKB_spec (sokB_top S sc h y hy).1⟩

mutual
/-- nothing declared anywhere inside is a name of the enclosing scope -/
theorem sokB_nd {ok : String → Bool} : ∀ (S : List GStmt) (K : Names), sokB ok K S = true → ∀ y, y ∈ ndDecls S → ¬ y ∈ K
  | [], _, _, y, hy => by simp [ndDecls] at hy
  | s :: rest, K, h, y, hy => by
    simp only [sokB, Bool.and_eq_true] at h
    rw [ndDecls_cons, List.mem_append] at hy
    rcases hy with hy | hy
    · exact sokStmtB_nd s K h.1 y hy
    · have := sokB_nd rest _ h.2 y hy
      intro hk
      apply this
      cases s <;> simp only [Goml.Dce.declScope] <;> first | exact hk | exact List.mem_cons_of_mem _ hk
theorem sokStmtB_nd {ok : String → Bool} : ∀ (s : GStmt) (K : Names), sokStmtB ok K s = true → ∀ y, y ∈ ndDeclsOf s → ¬ y ∈ K
  | .varDecl x _ _, K, h, y, hy => by
    simp only [sokStmtB, Bool.and_eq_true, Bool.not_eq_true', List.contains_eq_mem, decide_eq_false_iff_not] at h
    simp only [ndDeclsOf, List.mem_singleton] at hy; subst hy; exact h.1
  | .ite _ t none, K, h, y, hy => by
    simp only [sokStmtB, Bool.and_true] at h
    simp only [ndDeclsOf, List.append_nil] at hy; exact sokB_nd t K h y hy
  | .ite _ t (some e), K, h, y, hy => by
    simp only [sokStmtB, Bool.and_eq_true] at h
    simp only [ndDeclsOf, List.mem_append] at hy
    exact hy.elim (sokB_nd t K h.1 y) (sokB_nd e K h.2 y)
  | .loop b, K, h, y, hy => by
    simp only [sokStmtB] at h; simp only [ndDeclsOf] at hy; exact sokB_nd b K h y hy
  | .switch _ cs none, K, h, y, hy => by
    simp only [sokStmtB, Bool.and_true] at h
    simp only [ndDeclsOf, List.append_nil] at hy; exact sokCasesB_nd cs K h y hy
  | .switch _ cs (some d), K, h, y, hy => by
    simp only [sokStmtB, Bool.and_eq_true] at h
    simp only [ndDeclsOf, List.mem_append] at hy
    exact hy.elim (sokCasesB_nd cs K h.1 y) (sokB_nd d K h.2 y)
  | .tswitch _ _ cs none, K, h, y, hy => by
    simp only [sokStmtB, Bool.and_true] at h
    simp only [ndDeclsOf, List.append_nil] at hy; exact sokTCasesB_nd cs K h y hy
  | .tswitch _ _ cs (some d), K, h, y, hy => by
    simp only [sokStmtB, Bool.and_eq_true] at h
    simp only [ndDeclsOf, List.mem_append] at hy
    exact hy.elim (sokTCasesB_nd cs K h.1 y) (sokB_nd d K h.2 y)
  | .expr _, _, _, y, hy | .go _, _, _, y, hy | .assign _ _, _, _, y, hy | .fieldAssign _ _, _, _, y, hy
  | .ptrAssign _ _, _, _, y, hy | .indexAssign _ _ _, _, _, y, hy | .ret _, _, _, y, hy | .brk, _, _, y, hy => by
    simp [ndDeclsOf] at hy
theorem sokCasesB_nd {ok : String → Bool} : ∀ (cs : List GCase) (K : Names), sokCasesB ok K cs = true → ∀ y, y ∈ ndDeclsCases cs → ¬ y ∈ K
  | [], _, _, y, hy => by simp [ndDeclsCases] at hy
  | .mk _ b :: rest, K, h, y, hy => by
    simp only [sokCasesB, Bool.and_eq_true] at h
    simp only [ndDeclsCases, List.mem_append] at hy
    exact hy.elim (sokB_nd b K h.1 y) (sokCasesB_nd rest K h.2 y)
theorem sokTCasesB_nd {ok : String → Bool} : ∀ (cs : List GTCase) (K : Names), sokTCasesB ok K cs = true → ∀ y, y ∈ ndDeclsTCases cs → ¬ y ∈ K
  | [], _, _, y, hy => by simp [ndDeclsTCases] at hy
  | .mk _ b :: rest, K, h, y, hy => by
    simp only [sokTCasesB, Bool.and_eq_true] at h
    simp only [ndDeclsTCases, List.mem_append] at hy
    exact hy.elim (sokB_nd b K h.1 y) (sokTCasesB_nd rest K h.2 y)
end

/-- the clauses of a `switch` and its default, each its own block -/
def DeclOKA (D sc : Names) (ra : List (Imm × List GStmt)) (rd : Option (List GStmt)) : Prop :=
  (∀ p, p ∈ ra → DeclOK D sc p.2) ∧ (match rd with | some b => DeclOK D sc b | none => True)

theorem declOKA_of_tswitch {D sc : Names} {env : Env} {b : Option String} {e : GExpr} {ra : List (Imm × List GStmt)}
    {rd : Option (List GStmt)} (h : DeclOK D sc [.tswitch b e (typeCases env ra) rd]) : DeclOKA D sc ra rd := by
  cases rd with
  | none =>
    simp only [DeclOK, sokB, sokStmtB, Bool.and_eq_true, Bool.and_true] at h
    exact ⟨fun p hp => (sokT_typeCases env _ ra).mp h p hp, trivial⟩
  | some d =>
    simp only [DeclOK, sokB, sokStmtB, Bool.and_eq_true, Bool.and_true] at h
    exact ⟨fun p hp => (sokT_typeCases env _ ra).mp h.1 p hp, h.2⟩

theorem declOKA_of_switch {D sc : Names} {k : MatchKind} {e : GExpr} {ra : List (Imm × List GStmt)}
    {rd : Option (List GStmt)} (h : DeclOK D sc [.switch e (valueCases k ra) rd]) : DeclOKA D sc ra rd := by
  cases rd with
  | none =>
    simp only [DeclOK, sokB, sokStmtB, Bool.and_eq_true, Bool.and_true] at h
    exact ⟨fun p hp => (sokC_valueCases k _ ra).mp h p hp, trivial⟩
  | some d =>
    simp only [DeclOK, sokB, sokStmtB, Bool.and_eq_true, Bool.and_true] at h
    exact ⟨fun p hp => (sokC_valueCases k _ ra).mp h.1 p hp, h.2⟩

/-- nothing the clauses declare (nested included) is a name of the enclosing scope -/
theorem DeclOKA.nd {D sc : Names} {ra : List (Imm × List GStmt)} {rd : Option (List GStmt)} (h : DeclOKA D sc ra rd) :
    (∀ y, y ∈ armDecls ra → ¬ y ∈ sc) ∧ (∀ y, y ∈ optDecls rd → ¬ y ∈ sc) := by
  refine ⟨?_, ?_⟩
  · induction ra with
    | nil => intro y hy; simp [armDecls] at hy
    | cons p rest ih =>
      intro y hy
      simp only [armDecls, List.mem_append] at hy
      rcases hy with hy | hy
      · exact sokB_nd p.2 sc (h.1 p List.mem_cons_self) y hy
      · exact ih ⟨fun q hq => h.1 q (List.mem_cons_of_mem _ hq), h.2⟩ y hy
  · cases rd with
    | none => intro y hy; simp [optDecls] at hy
    | some d => intro y hy; exact sokB_nd d sc h.2 y hy

def TgtSc (m : Mode) (Γ : Ctx) (sc : Names) : Prop :=
  match m with
  | .effect => True
  | .assign t => gid t ∈ sc ∧ ∀ x ty, lookupTy Γ x = some ty → vn x ≠ gid t

theorem SCtx.mono_cs {D sc Γ cs cs'} (h : SCtx file G D sc Γ cs) (hs : ∀ f, f ∈ cs' → f ∈ cs) : SCtx file G D sc Γ cs' :=
  ⟨h.vars, h.scD, h.nob, fun f hf => h.cal f (hs f hf), h.fns⟩

/-- an expression whose variables come from the context is clean at this point -/
theorem expr_ok {D sc : Names} {Γ : Ctx} {cs : List String} (hctx : SCtx file G D sc Γ cs) {e : GExpr}
    (hfrom : ∀ y, y ∈ varsUsed e → FromCtx file G Γ cs y) :
    undecl D sc (varsUsed e) = [] ∧ (varsUsed e).contains "_" = false ∧
      (∀ t, t ∈ sc → (∀ x ty, lookupTy Γ x = some ty → vn x ≠ t) → (varsUsed e).contains t = false) := by
  refine ⟨undecl_nil.mpr (fun y hy hD => ?_), ?_, fun t ht hne => ?_⟩
  · rcases hfrom y hy with ⟨x, t, hx, rfl⟩ | hf | ⟨e, he, rfl⟩
    · exact hctx.vars x t hx
    · exact absurd hD (hctx.cal y hf).1
    · exact absurd hD (hctx.fns e he).1
  · rw [List.contains_eq_mem]; simp only [decide_eq_false_iff_not]
    intro hy
    rcases hfrom _ hy with ⟨x, t, hx, he⟩ | hf | ⟨e, he, heq⟩
    · exact hctx.nob (he ▸ hctx.vars x t hx)
    · exact (hctx.cal _ hf).2 rfl
    · exact (hctx.fns e he).2 heq.symm
  · rw [List.contains_eq_mem]; simp only [decide_eq_false_iff_not]
    intro hy
    rcases hfrom _ hy with ⟨x, tx, hx, he⟩ | hf | ⟨e, he, heq⟩
    · exact hne x tx hx he.symm
    · exact (hctx.cal _ hf).1 (hctx.scD t ht)
    · exact (hctx.fns e he).1 (heq ▸ hctx.scD t ht)

/-- the statement of a `go` of the fragment is clean -/
theorem go_clean {env : Env} {file : AFile} {G : List String} {D : Names} (e : Imm) (ty : Ty) (Γ : Ctx) (K : KCtx) (sc : Names)
    (hfrag : fragC env file G Γ K (.go e ty) = true) (hctx : SCtx file G D sc Γ (calleesC (Γ.map (·.1)) (.go e ty))) :
    scopeErrsStmt D sc (compileGo env e) = [] ∧ shapeOKStmt (compileGo env e) = true := by
  obtain ⟨sn, fty, rty, hety, he, _, hshape⟩ := compileGo_shape hfrag
  obtain ⟨a1, a2⟩ := imm_fromCtx env he (calleesC (Γ.map (·.1)) (.go e ty))
  have hfrom : ∀ y, y ∈ varsUsed (GExpr.call (goTy rty) (.var (vn (applyFnName sn)) (goTy fty)) (compileImms env [e])) →
      FromCtx file G Γ (calleesC (Γ.map (·.1)) (.go e ty)) y := by
    intro y hy
    simp only [varsUsed, varsUsedList, compileImms, List.map_cons, List.map_nil, mem_uni, List.mem_singleton, List.not_mem_nil,
      or_false] at hy
    rcases hy with rfl | hy
    · exact Or.inr (Or.inl (by simp [calleesC, hety]))
    · exact a1 y hy
  obtain ⟨h1, h2, _⟩ := expr_ok hctx hfrom
  rw [hshape]
  refine ⟨by simp only [scopeErrsStmt]; exact h1, ?_⟩
  simp only [shapeOKStmt, h2, Bool.not_false, Bool.and_true]
  simp [noBlockExpr, noBlockList, compileImms, a2]

/-- the simple forms in tail position -/
theorem scopeC_simple {env : Env} {file : AFile} {G : List String} {D : Names} (m : Mode) (c : CExpr) (Γ : Ctx) (K : KCtx) (sc : Names)
    (hctl : isCtl c = false) (hfrag : fragC env file G Γ K c = true) (hctx : SCtx file G D sc Γ (calleesC (Γ.map (·.1)) c))
    (htgt : TgtSc m Γ sc) : Clean D sc (compileSimple env m c) := by
  by_cases hgoc : isGoC c = false
  rotate_left
  · cases c <;> simp [isGoC] at hgoc
    rename_i e ty
    obtain ⟨hg1, hg2⟩ := go_clean e ty Γ K sc hfrag hctx
    obtain ⟨X, hX⟩ := compileGo_isGo env e
    cases m with
    | effect => simp only [compileSimple]; exact clean_cons hg1 hg2 (clean_nil _ _)
    | assign t =>
      obtain ⟨htk, hne⟩ := htgt
      simp only [compileSimple]
      refine clean_cons hg1 hg2 (clean_cons ?_ ?_ (clean_nil _ _))
      · rw [hX]
        simp only [declScope, scopeErrsStmt, unitE, varsUsed, undecl, List.filter_nil, List.nil_append]
        have : sc.contains (gid t) = true := by simpa using htk
        simp [this]
        exact fun _ => htk
      · simp [shapeOKStmt, unitE, noBlockExpr, varsUsed]
  obtain ⟨hfrom, hnb⟩ := cexpr_fromCtx hctl hgoc hfrag
  obtain ⟨h1, h2, h3⟩ := expr_ok hctx hfrom
  cases m with
  | assign t =>
    obtain ⟨htk, hne⟩ := htgt
    have hshape : compileSimple env (.assign t) c = [.assign (gid t) (compileCExpr env c)] := by
      cases c <;> simp [isCtl] at hctl <;> (try (simp [fragC] at hfrag; done)) <;> (try (simp [isGoC] at hgoc; done)) <;>
        simp only [compileSimple]
      rename_i f args ty
      simp only [fragC] at hfrag
      simp [not_missing' hfrag]
    rw [hshape]
    refine clean_cons ?_ ?_ (clean_nil _ _)
    · simp only [scopeErrsStmt, h1, List.nil_append]
      have : sc.contains (gid t) = true := by simpa using htk
      simp [this, htk]
    · simp only [shapeOKStmt, hnb, h2, h3 (gid t) htk hne]; rfl
  | effect =>
    cases c <;> simp [isCtl] at hctl <;> (try (simp [fragC] at hfrag; done)) <;> (try (simp [isGoC] at hgoc; done)) <;>
      simp only [compileSimple] <;>
      first
        | exact clean_nil _ _
        | (refine clean_cons ?_ ?_ (clean_nil _ _)
           · simp only [scopeErrsStmt, h1]
           · simp only [shapeOKStmt, hnb, h2]; rfl)

theorem mem_contains {l : Names} {x : String} (h : x ∈ l) : l.contains x = true := by simpa using h
theorem not_mem_contains {l : Names} {x : String} (h : ¬ x ∈ l) : l.contains x = false := by simpa using h

/-- a fresh declaration `var x T [= e]` is clean -/
theorem varDecl_ok {D sc : Names} {x : String} {ty : GTy} {v : Option GExpr} (hx : ¬ x ∈ sc) (hD : x ∈ D) (hb : x ≠ "_")
    (hv : undecl D sc (match v with | some e => varsUsed e | none => []) = [])
    (hnb : Goml.Dce.noBlockOpt v = true) (hus : (match v with | some e => varsUsed e | none => []).contains "_" = false) :
    scopeErrsStmt D sc (.varDecl x ty v) = [] ∧ shapeOKStmt (.varDecl x ty v) = true := by
  have hus' : ¬ "_" ∈ (match v with | some e => varsUsed e | none => []) := by simpa using hus
  refine ⟨?_, ?_⟩
  · simp [scopeErrsStmt, hv, not_mem_contains hx, mem_contains hD]
    exact ⟨hv, hx, hD⟩
  · simp [shapeOKStmt, hnb, hb, hus']
    exact hus'

def CleanOpt (D sc : Names) : Option (List GStmt) → Prop
  | some b => Clean D sc b
  | none => True

/-- the label of a value-switch case is a literal: no variables, no block expression -/
theorem caseLabel_pure (k : MatchKind) (lhs : Imm) :
    varsUsed ((caseLabel k lhs).getD unitE) = [] ∧ noBlockExpr ((caseLabel k lhs).getD unitE) = true := by
  unfold caseLabel
  split <;> (try split) <;> simp [unitE, varsUsed, noBlockExpr]

theorem tcases_clean {D sc : Names} (env : Env) : ∀ ra : List (Imm × List GStmt), (∀ p, p ∈ ra → Clean D sc p.2) →
    scopeErrsTCases D sc (typeCases env ra) = [] ∧ shapeOKTCases (typeCases env ra) = true
  | [], _ => by simp [typeCases, scopeErrsTCases, shapeOKTCases]
  | (lhs, body) :: rest, h => by
    obtain ⟨h1, h2⟩ := h (lhs, body) List.mem_cons_self
    obtain ⟨h3, h4⟩ := tcases_clean env rest (fun p hp => h p (List.mem_cons_of_mem _ hp))
    simp [typeCases, scopeErrsTCases, shapeOKTCases, h1, h2, h3, h4]

theorem vcases_clean {D sc : Names} (k : MatchKind) : ∀ ra : List (Imm × List GStmt), (∀ p, p ∈ ra → Clean D sc p.2) →
    scopeErrsCases D sc (valueCases k ra) = [] ∧ shapeOKCases (valueCases k ra) = true
  | [], _ => by simp [valueCases, scopeErrsCases, shapeOKCases]
  | (lhs, body) :: rest, h => by
    obtain ⟨h1, h2⟩ := h (lhs, body) List.mem_cons_self
    obtain ⟨h3, h4⟩ := vcases_clean k rest (fun p hp => h p (List.mem_cons_of_mem _ hp))
    obtain ⟨h5, h6⟩ := caseLabel_pure k lhs
    simp [valueCases, scopeErrsCases, shapeOKCases, h1, h2, h3, h4, h5, h6, undecl]

/-- `switch b := b.(type) { … }` with `b` in scope and never assigned inside -/
theorem tswitch_clean {D sc : Names} {b : String} {T : GTy} {cs : List GTCase} {d : Option (List GStmt)}
    (hb : b ∈ sc) (hne : b ≠ "_") (hcs : scopeErrsTCases D sc cs = [] ∧ shapeOKTCases cs = true)
    (hd : CleanOpt D sc d) (hw1 : ¬ b ∈ writesTCases cs) (hw2 : ¬ b ∈ optWrites d) :
    scopeErrsStmt D sc (.tswitch (some b) (.var b T) cs d) = [] ∧ shapeOKStmt (.tswitch (some b) (.var b T) cs d) = true := by
  have hu : undecl D sc [b] = [] := undecl_nil.mpr (fun y hy _ => by simp only [List.mem_singleton] at hy; subst hy; exact hb)
  have hbc : sc.contains b = true := by simpa using hb
  have hne' : (b == "_") = false := by simpa using hne
  have hne'' : ¬ "_" = b := fun e => hne e.symm
  cases d with
  | none =>
    simp only [scopeErrsStmt, shapeOKStmt, varsUsed, hu, hcs.1, hcs.2, hbc, noBlockExpr]
    simp [hne', hne'', hw1, hne]
  | some db =>
    simp only [CleanOpt, Clean] at hd
    simp only [optWrites] at hw2
    simp only [scopeErrsStmt, shapeOKStmt, varsUsed, hu, hcs.1, hcs.2, hbc, noBlockExpr, hd.1, hd.2]
    simp [hne', hne'', hw1, hw2, hne]

theorem switch_clean {D sc : Names} {e : GExpr} {cs : List GCase} {d : Option (List GStmt)}
    (he : undecl D sc (varsUsed e) = []) (hnb : noBlockExpr e = true) (hus : (varsUsed e).contains "_" = false)
    (hcs : scopeErrsCases D sc cs = [] ∧ shapeOKCases cs = true) (hd : CleanOpt D sc d) :
    scopeErrsStmt D sc (.switch e cs d) = [] ∧ shapeOKStmt (.switch e cs d) = true := by
  have hus' : ¬ "_" ∈ varsUsed e := by simpa using hus
  cases d with
  | none => simp [scopeErrsStmt, shapeOKStmt, he, hnb, hus, hus', hcs.1, hcs.2]
  | some db =>
    simp only [CleanOpt, Clean] at hd
    simp [scopeErrsStmt, shapeOKStmt, he, hnb, hus, hus', hcs.1, hcs.2, hd.1, hd.2]

theorem armDecls_cons (lhs : Imm) (body : List GStmt) (rest : List (Imm × List GStmt)) :
    armDecls ((lhs, body) :: rest) = ndDecls body ++ armDecls rest := rfl

mutual
theorem scopeA {env : Env} {file : AFile} {G : List String} {D : Names} :
    ∀ (e : AExpr) (m : Mode) (st : St) (Γ : Ctx) (K : KCtx) (sc : Names), fragA env file G Γ K e = true →
      SCtx file G D sc Γ (calleesA (Γ.map (·.1)) e) → DeclOK D sc (compileA env m st e).1 → TgtSc m Γ sc →
      Clean D sc (compileA env m st e).1
  | .ret c, m, st, Γ, K, sc, hfrag, hctx, hdecl, htgt => by
    simp only [compileA, fragA, calleesA] at *
    exact scopeC c m st Γ K sc hfrag hctx hdecl htgt
  | .letE x v body ty, m, st, Γ, K, sc, hfrag, hctx, hdecl, htgt => by
    simp only [fragA, Bool.and_eq_true] at hfrag
    obtain ⟨hfv, hfb⟩ := hfrag
    rw [compileA_let] at hdecl ⊢
    have hctxv : SCtx file G D sc Γ (calleesC (Γ.map (·.1)) v) := hctx.mono_cs (fun f hf => by simp [calleesA, hf])
    obtain ⟨hdP, hdR⟩ := hdecl.append
    by_cases hctl : isCtl v = true
    · -- `var x T` then the statements that assign it
      simp only [letPrefix, letBodySt, hctl, if_true] at hdP hdR ⊢
      generalize hd : compileTail env (.assign (rn x)) (st.check (okTy (cexprTastTy env v))) v = d at *
      obtain ⟨hxin, hdecl1⟩ := hdP.varDecl
      rw [scopeAfter_varDecl] at hdR
      have hvd := varDecl_ok (ty := cexprTy env v) (v := none) hxin.1 hxin.2.1 hxin.2.2 (by simp [undecl]) rfl rfl
      -- the assigning statements, with `x` declared
      have hctx1 : SCtx file G D (vn x :: sc) Γ (calleesC (Γ.map (·.1)) v) :=
        ⟨fun y t hy => List.mem_cons_of_mem _ (hctxv.vars y t hy),
         fun y hy => by rcases List.mem_cons.mp hy with rfl | hy; exact hxin.2.1; exact hctxv.scD y hy,
         fun h => by rcases List.mem_cons.mp h with h | h; exact hxin.2.2 h.symm; exact hctxv.nob h, hctxv.cal, hctxv.fns⟩
      have htgt1 : TgtSc (.assign (rn x)) Γ (vn x :: sc) := by
        refine ⟨by rw [← vn_def]; exact List.mem_cons_self, fun y ty hy => ?_⟩
        rw [← vn_def]; exact fun e => hxin.1 (e ▸ hctxv.vars y ty hy)
      have hcd := scopeC v (.assign (rn x)) (st.check (okTy (cexprTastTy env v))) Γ K (vn x :: sc) hfv hctx1 (hd ▸ hdecl1) htgt1
      rw [hd] at hcd
      have hpre : Clean D sc (GStmt.varDecl (vn x) (cexprTy env v) none :: d.1) := clean_cons hvd.1 hvd.2 hcd
      refine clean_append hpre ?_
      rw [scopeAfter_varDecl]
      -- the body, with `x` in scope
      have hsub := fun y => (scopeAfter_mem d.1 (vn x :: sc) y).mp
      have hsup : ∀ y, y ∈ vn x :: sc → y ∈ scopeAfter d.1 (vn x :: sc) := fun y h => (scopeAfter_mem d.1 (vn x :: sc) y).mpr (Or.inl h)
      have hctx2 : SCtx file G D (scopeAfter d.1 (vn x :: sc)) ((x, v.annTy) :: Γ) (calleesA (x :: Γ.map (·.1)) body) := by
        refine ⟨fun y t hy => ?_, fun y hy => ?_, fun h => ?_, fun f hf => hctx.cal f (by simp [calleesA, hf]), hctx.fns⟩
        · by_cases hxy : x = y
          · subst hxy; exact hsup _ List.mem_cons_self
          · rw [lookupTy_cons_ne _ _ hxy] at hy; exact hsup _ (List.mem_cons_of_mem _ (hctx.vars y t hy))
        · rcases hsub y hy with h | h
          · exact hctx1.scD y h
          · exact (hdecl1.top y h).2.1
        · rcases hsub _ h with h | h
          · exact hctx1.nob h
          · exact (hdecl1.top _ h).2.2 rfl
      have hdecl2 : DeclOK D (scopeAfter d.1 (vn x :: sc)) (compileA env m d.2 body).1 := hdR
      have htgt2 : TgtSc m ((x, v.annTy) :: Γ) (scopeAfter d.1 (vn x :: sc)) := by
        cases m with
        | effect => trivial
        | assign t =>
          obtain ⟨htk, hne⟩ := htgt
          refine ⟨hsup _ (List.mem_cons_of_mem _ htk), fun y ty hy => ?_⟩
          by_cases hxy : x = y
          · subst hxy; exact fun e => hxin.1 (e ▸ htk)
          · rw [lookupTy_cons_ne _ _ hxy] at hy; exact hne y ty hy
      exact scopeA body m d.2 _ _ _ hfb hctx2 hdecl2 htgt2
    · -- `var x T = e`
      have hctl' : isCtl v = false := by simpa using hctl
      by_cases hgoc : isGoC v = false
      rotate_left
      · -- `go f(env); var x struct{} = struct{}{}`
        cases v <;> simp [isGoC] at hgoc
        rename_i e ty'
        obtain ⟨hg1, hg2⟩ := go_clean e ty' Γ K sc hfv hctxv
        obtain ⟨X, hX⟩ := compileGo_isGo env e
        have hty : ty' = .unit := by
          obtain ⟨_, _, _, _, _, h, _⟩ := compileGo_shape hfv; exact h
        subst hty
        simp only [letPrefix, letBodySt, isCtl, Bool.false_eq_true, if_false, compileBindSimple, CExpr.annTy] at hdP hdR hfb ⊢
        have hds : declScope (compileGo env e) sc = sc := by rw [hX]; rfl
        have hsa : scopeAfter [compileGo env e, GStmt.varDecl (vn x) GTy.unit (some unitE)] sc = vn x :: sc := by
          simp only [scopeAfter, hds]; rfl
        rw [hsa] at hdR
        have hdP' : DeclOK D sc [GStmt.varDecl (vn x) GTy.unit (some unitE)] := by
          have := hdP; simp only [DeclOK, sokB, hds, Bool.and_eq_true] at this ⊢; exact ⟨this.2.1, trivial⟩
        obtain ⟨hxin, -⟩ := hdP'.varDecl
        have hvd := varDecl_ok (D := D) (sc := sc) (x := vn x) (ty := GTy.unit) (v := some unitE) hxin.1 hxin.2.1 hxin.2.2
          (by simp [unitE, varsUsed, undecl]) (by simp [Goml.Dce.noBlockOpt, unitE, noBlockExpr]) (by simp [unitE, varsUsed])
        refine clean_append (clean_cons hg1 hg2 (by rw [hds]; exact clean_cons hvd.1 hvd.2 (clean_nil _ _))) ?_
        rw [hsa]
        have hctx2 : SCtx file G D (vn x :: sc) ((x, .unit) :: Γ) (calleesA (x :: Γ.map (·.1)) body) := by
          refine ⟨fun y t hy => ?_, fun y hy => ?_, fun h => ?_, fun f hf => hctx.cal f (by simp [calleesA, hf]), hctx.fns⟩
          · by_cases hxy : x = y
            · subst hxy; exact List.mem_cons_self
            · rw [lookupTy_cons_ne _ _ hxy] at hy; exact List.mem_cons_of_mem _ (hctx.vars y t hy)
          · rcases List.mem_cons.mp hy with rfl | hy
            · exact hxin.2.1
            · exact hctx.scD y hy
          · rcases List.mem_cons.mp h with h | h
            · exact hxin.2.2 h.symm
            · exact hctx.nob h
        have hdecl2 : DeclOK D (vn x :: sc) (compileA env m (st.check (okBindSimple env (.go e .unit))) body).1 := hdR
        have htgt2 : TgtSc m ((x, .unit) :: Γ) (vn x :: sc) := by
          cases m with
          | effect => trivial
          | assign t =>
            obtain ⟨htk, hne⟩ := htgt
            refine ⟨List.mem_cons_of_mem _ htk, fun y ty hy => ?_⟩
            by_cases hxy : x = y
            · subst hxy; exact fun e => hxin.1 (e ▸ htk)
            · rw [lookupTy_cons_ne _ _ hxy] at hy; exact hne y ty hy
        exact scopeA body m _ _ _ _ hfb hctx2 hdecl2 htgt2
      simp only [letPrefix, letBodySt, hctl', Bool.false_eq_true, if_false, bindSimple_shape x hfv hgoc] at hdP hdR ⊢
      obtain ⟨hxin, -⟩ := hdP.varDecl
      rw [scopeAfter_varDecl] at hdR
      obtain ⟨hfrom, hnb⟩ := cexpr_fromCtx hctl' hgoc hfv
      obtain ⟨h1, h2, _⟩ := expr_ok hctxv hfrom
      have hvd := varDecl_ok (ty := goTy v.annTy) (v := some (compileCExpr env v)) hxin.1 hxin.2.1 hxin.2.2 h1 hnb h2
      refine clean_append (clean_cons hvd.1 hvd.2 (clean_nil _ _)) ?_
      simp only [scopeAfter, declScope]
      have hctx2 : SCtx file G D (vn x :: sc) ((x, v.annTy) :: Γ) (calleesA (x :: Γ.map (·.1)) body) := by
        refine ⟨fun y t hy => ?_, fun y hy => ?_, fun h => ?_, fun f hf => hctx.cal f (by simp [calleesA, hf]), hctx.fns⟩
        · by_cases hxy : x = y
          · subst hxy; exact List.mem_cons_self
          · rw [lookupTy_cons_ne _ _ hxy] at hy; exact List.mem_cons_of_mem _ (hctx.vars y t hy)
        · rcases List.mem_cons.mp hy with rfl | hy
          · exact hxin.2.1
          · exact hctx.scD y hy
        · rcases List.mem_cons.mp h with h | h
          · exact hxin.2.2 h.symm
          · exact hctx.nob h
      have hdecl2 : DeclOK D (vn x :: sc) (compileA env m (st.check (okBindSimple env v)) body).1 := hdR
      have htgt2 : TgtSc m ((x, v.annTy) :: Γ) (vn x :: sc) := by
        cases m with
        | effect => trivial
        | assign t =>
          obtain ⟨htk, hne⟩ := htgt
          refine ⟨List.mem_cons_of_mem _ htk, fun y ty hy => ?_⟩
          by_cases hxy : x = y
          · subst hxy; exact fun e => hxin.1 (e ▸ htk)
          · rw [lookupTy_cons_ne _ _ hxy] at hy; exact hne y ty hy
      exact scopeA body m _ _ _ _ hfb hctx2 hdecl2 htgt2
theorem scopeC {env : Env} {file : AFile} {G : List String} {D : Names} :
    ∀ (c : CExpr) (m : Mode) (st : St) (Γ : Ctx) (K : KCtx) (sc : Names), fragC env file G Γ K c = true →
      SCtx file G D sc Γ (calleesC (Γ.map (·.1)) c) → DeclOK D sc (compileTail env m st c).1 → TgtSc m Γ sc →
      Clean D sc (compileTail env m st c).1
  | .ite c t e ty, m, st, Γ, K, sc, hfrag, hctx, hdecl, htgt => by
    simp only [fragC, Bool.and_eq_true] at hfrag
    obtain ⟨⟨⟨⟨⟨hc, _⟩, hft⟩, hfe⟩, _⟩, _⟩ := hfrag
    simp only [compileTail] at hdecl ⊢
    obtain ⟨hfrom, hnb⟩ := imm_fromCtx env hc (calleesC (Γ.map (·.1)) (.ite c t e ty))
    obtain ⟨h1, h2, _⟩ := expr_ok hctx hfrom
    have hdI : DeclOK D sc (compileA env m (st.check (okImm env c)) t).1 ∧
        DeclOK D sc (compileA env m (compileA env m (st.check (okImm env c)) t).2 e).1 := by
      simpa only [DeclOK, sokB, sokStmtB, Bool.and_eq_true, Bool.and_true] using hdecl
    have hT := scopeA t m (st.check (okImm env c)) Γ K sc hft (hctx.mono_cs (fun f hf => by simp [calleesC, hf]))
      hdI.1 htgt
    have hE := scopeA e m (compileA env m (st.check (okImm env c)) t).2 Γ K sc hfe (hctx.mono_cs (fun f hf => by simp [calleesC, hf]))
      hdI.2 htgt
    refine clean_cons ?_ ?_ (clean_nil _ _)
    · simp only [scopeErrsStmt, h1, hT.1, hE.1]; rfl
    · simp only [shapeOKStmt, hnb, h2, hT.2, hE.2]; rfl
  | .while c b ty, m, st, Γ, K, sc, hfrag, hctx, hdecl, htgt => by
    simp only [fragC, Bool.and_eq_true] at hfrag
    obtain ⟨⟨⟨⟨hfc, _⟩, hfb⟩, _⟩, _⟩ := hfrag
    rw [tail_while_shape] at hdecl ⊢
    generalize hcv : "cond" ++ toString st.n = cv at hdecl ⊢
    generalize hst : st.next.check (isBoolTy c.annTy) = st' at hdecl ⊢
    simp only [loopBody] at hdecl ⊢
    generalize hA : compileA env (.assign cv) st' c = rA at *
    generalize hB : compileA env .effect rA.2 b = rB at *
    obtain ⟨hdW, -⟩ := hdecl.append
    obtain ⟨hcvin, hdL⟩ := hdW.varDecl
    have hdL' : DeclOK D (gid cv :: sc) (rA.1 ++ ([GStmt.ite (.un .not .bool (.var (gid cv) .bool)) [.brk] none] ++ rB.1)) := by
      simpa only [DeclOK, sokB, sokStmtB, Bool.and_true, List.append_assoc] using hdL
    obtain ⟨hdeclA, hdL2⟩ := hdL'.append
    obtain ⟨-, hdeclB⟩ := hdL2.append
    have hsaI : ∀ K', scopeAfter [GStmt.ite (.un .not .bool (.var (gid cv) .bool)) [.brk] none] K' = K' := fun _ => rfl
    rw [hsaI] at hdeclB
    have hvd := varDecl_ok (ty := GTy.bool) (v := none) hcvin.1 hcvin.2.1 hcvin.2.2 (by simp [undecl]) rfl rfl
    have hctx1 : SCtx file G D (gid cv :: sc) Γ (calleesA (Γ.map (·.1)) c ++ calleesA (Γ.map (·.1)) b) :=
      ⟨fun y t hy => List.mem_cons_of_mem _ (hctx.vars y t hy),
       fun y hy => by rcases List.mem_cons.mp hy with rfl | hy; exact hcvin.2.1; exact hctx.scD y hy,
       fun h => by rcases List.mem_cons.mp h with h | h; exact hcvin.2.2 h.symm; exact hctx.nob h,
       fun f hf => hctx.cal f (by simpa [calleesC] using hf), hctx.fns⟩
    have htgtA : TgtSc (.assign cv) Γ (gid cv :: sc) :=
      ⟨List.mem_cons_self, fun y ty hy e => hcvin.1 (e ▸ hctx.vars y ty hy)⟩
    have hcA := scopeA c (.assign cv) st' Γ K (gid cv :: sc) hfc (hctx1.mono_cs (fun f hf => List.mem_append_left _ hf))
      (hA ▸ hdeclA) htgtA
    rw [hA] at hcA
    have hsub := fun y => (scopeAfter_mem rA.1 (gid cv :: sc) y).mp
    have hsup : ∀ y, y ∈ gid cv :: sc → y ∈ scopeAfter rA.1 (gid cv :: sc) := fun y h => (scopeAfter_mem rA.1 (gid cv :: sc) y).mpr (Or.inl h)
    have hctx2 : SCtx file G D (scopeAfter rA.1 (gid cv :: sc)) Γ (calleesA (Γ.map (·.1)) b) :=
      ⟨fun y t hy => hsup _ (hctx1.vars y t hy),
       fun y hy => by rcases hsub y hy with h | h; exact hctx1.scD y h; exact (hdeclA.top y h).2.1,
       fun h => by rcases hsub _ h with h | h; exact hctx1.nob h; exact (hdeclA.top _ h).2.2 rfl,
       fun f hf => hctx1.cal f (List.mem_append_right _ hf), hctx1.fns⟩
    have hcB := scopeA b .effect rA.2 Γ K _ hfb hctx2 (hB ▸ hdeclB) trivial
    rw [hB] at hcB
    have hcvsc : gid cv ∈ scopeAfter rA.1 (gid cv :: sc) := hsup _ List.mem_cons_self
    have hite : Clean D (scopeAfter rA.1 (gid cv :: sc))
        (GStmt.ite (.un .not .bool (.var (gid cv) .bool)) [.brk] none :: rB.1) := by
      refine clean_cons ?_ ?_ (by simpa [declScope] using hcB)
      · simp only [scopeErrsStmt, varsUsed]
        rw [undecl_nil.mpr (fun y hy _ => by simp only [List.mem_singleton] at hy; subst hy; exact hcvsc)]
        simp [scopeErrs, scopeErrsStmt]
      · simp only [shapeOKStmt, noBlockExpr, varsUsed, shapeOK]
        have : (gid cv == "_") = false := by simpa using hcvin.2.2
        simp [this]
        exact fun e => hcvin.2.2 e.symm
    have hbody : Clean D (gid cv :: sc) (rA.1 ++ [GStmt.ite (.un .not .bool (.var (gid cv) .bool)) [.brk] none] ++ rB.1) := by
      rw [List.append_assoc]; exact clean_append hcA (by simpa using hite)
    have hloop : scopeErrsStmt D (gid cv :: sc) (.loop (rA.1 ++ [GStmt.ite (.un .not .bool (.var (gid cv) .bool)) [.brk] none] ++ rB.1)) = [] ∧
        shapeOKStmt (.loop (rA.1 ++ [GStmt.ite (.un .not .bool (.var (gid cv) .bool)) [.brk] none] ++ rB.1)) = true :=
      ⟨by simp only [scopeErrsStmt]; exact hbody.1, by simp only [shapeOKStmt]; exact hbody.2⟩
    cases m with
    | effect =>
      exact clean_cons hvd.1 hvd.2 (clean_cons hloop.1 hloop.2 (clean_nil _ _))
    | assign t =>
      obtain ⟨htk, _⟩ := htgt
      refine clean_cons hvd.1 hvd.2 (clean_cons hloop.1 hloop.2 (clean_cons ?_ ?_ (clean_nil _ _)))
      · simp only [scopeErrsStmt, declScope, unitE, varsUsed, undecl, List.filter_nil, List.nil_append]
        have : (gid cv :: sc).contains (gid t) = true := mem_contains (List.mem_cons_of_mem _ htk)
        simp [this]
        exact fun _ _ => htk
      · simp [shapeOKStmt, unitE, noBlockExpr, varsUsed]
  | .imm i, m, st, Γ, K, sc, hfrag, hctx, hdecl, htgt => by
    rw [compileTail_simple env m st (by rfl)]; exact scopeC_simple m _ Γ K sc rfl hfrag hctx htgt
  | .un op e ty, m, st, Γ, K, sc, hfrag, hctx, hdecl, htgt => by
    rw [compileTail_simple env m st (by rfl)]; exact scopeC_simple m _ Γ K sc rfl hfrag hctx htgt
  | .bin op l r ty, m, st, Γ, K, sc, hfrag, hctx, hdecl, htgt => by
    rw [compileTail_simple env m st (by rfl)]; exact scopeC_simple m _ Γ K sc rfl hfrag hctx htgt
  | .call f args ty, m, st, Γ, K, sc, hfrag, hctx, hdecl, htgt => by
    rw [compileTail_simple env m st (by rfl)]; exact scopeC_simple m _ Γ K sc rfl hfrag hctx htgt
  | .matchE s arms d ty, m, st, Γ, K, sc, hfrag, hctx, hdecl, htgt => by
    simp only [fragC, Bool.and_eq_true] at hfrag
    obtain ⟨⟨hs, _⟩, hcase⟩ := hfrag
    obtain ⟨hfrom, hnb⟩ := imm_fromCtx env hs (calleesC (Γ.map (·.1)) (.matchE s arms d ty))
    obtain ⟨h1, h2, _⟩ := expr_ok hctx hfrom
    have hctxA : SCtx file G D sc Γ (calleesArms (Γ.map (·.1)) arms) := hctx.mono_cs (fun f hf => by simp [calleesC, hf])
    have hctxD : SCtx file G D sc Γ (calleesD (Γ.map (·.1)) d) := hctx.mono_cs (fun f hf => by simp [calleesC, hf])
    -- a clause assigns only the target and its own declarations: never a variable in scope
    have hnw : ∀ (ra : List (Imm × List GStmt)) (rd : Option (List GStmt)) (z : String), z ∈ sc →
        (∀ t, m = .assign t → z ≠ gid t) → DeclOKA D sc ra rd →
        (∀ y, y ∈ armWrites ra → y ∈ tgtName m ∨ y ∈ armDecls ra) →
        (∀ y, y ∈ optWrites rd → y ∈ tgtName m ∨ y ∈ optDecls rd) → ¬ z ∈ armWrites ra ∧ ¬ z ∈ optWrites rd := by
      intro ra rd z hz hzt hdn hwa hwd
      have htg : ¬ z ∈ tgtName m := by
        cases m with
        | effect => simp [tgtName]
        | assign t => simp only [tgtName, List.mem_singleton]; exact hzt t rfl
      refine ⟨fun h => ?_, fun h => ?_⟩
      · rcases hwa z h with h' | h'
        · exact htg h'
        · exact hdn.nd.1 z h' hz
      · rcases hwd z h with h' | h'
        · exact htg h'
        · exact hdn.nd.2 z h' hz
    cases hsty : s.ty with
    | enum en =>
      rw [hsty] at hcase; simp only at hcase
      cases s with
      | prim p t => simp at hcase
      | tag idx t => simp at hcase
      | var x xty =>
        simp only [Imm.ty] at hsty; subst hsty
        simp only [Bool.and_eq_true, beq_iff_eq] at hcase
        obtain ⟨⟨⟨hvn, _⟩, hfa⟩, hfd⟩ := hcase
        simp only [immOK] at hs
        cases hlt : lookupTy Γ x with
        | none => rw [hlt] at hs; simp [fnValOK] at hs
        | some t =>
          have hxsc : vn x ∈ sc := hctx.vars x t hlt
          have hshape : (compileTail env m st (.matchE (.var x (.enum en)) arms d ty)).1 =
              [.tswitch (some (rn x)) (.var (vn x) (goTy (.enum en)))
                (typeCases env (compileArms env m (st.check (okImm env (.var x (.enum en)))) arms).1)
                (compileDflt env m (compileArms env m (st.check (okImm env (.var x (.enum en)))) arms).2 d).1] := by
            simp only [compileTail, Imm.ty, matchKind, compileImm]
          rw [hshape] at hdecl ⊢
          generalize hst1 : st.check (okImm env (.var x (.enum en))) = st1 at hdecl ⊢
          rw [← hvn] at hdecl ⊢
          have hdn : DeclOKA D sc (compileArms env m st1 arms).1 (compileDflt env m (compileArms env m st1 arms).2 d).1 :=
            declOKA_of_tswitch hdecl
          have hA := scopeArms arms m st1 Γ K sc (.enumK x (.enum en)) ty hfa hctxA hdn.1 htgt
          have hDf := scopeD d m (compileArms env m st1 arms).2 Γ K sc ty hfd hctxD hdn.2 htgt
          have hxne : vn x ≠ "_" := fun e => hctx.nob (e ▸ hxsc)
          have hxt : ∀ t', m = .assign t' → vn x ≠ gid t' := fun t' ht' => by subst ht'; exact htgt.2 x t hlt
          obtain ⟨hw1, hw2⟩ := hnw _ _ (vn x) hxsc hxt hdn (writesArms env arms m st1) (writesD env d m _)
          have hc := tswitch_clean (D := D) (T := goTy (.enum en)) hxsc hxne (tcases_clean env _ hA) hDf
            (by rw [mem_writesTCases]; exact hw1) hw2
          exact clean_cons hc.1 hc.2 (clean_nil _ _)
    | unit =>
      rw [hsty] at hcase; simp only at hcase
      have hshape : compileTail env m st (.matchE s arms d ty) = unitStmts env m st arms d := by
        simp only [compileTail, hsty, matchKind, unitStmts]
      rw [hshape] at hdecl ⊢
      by_cases he : arms.isEmpty = true
      · simp only [he, if_true, Bool.and_eq_true] at hcase
        simp only [unitStmts, he, if_true] at hdecl ⊢
        exact scopeDU d m st Γ K sc ty hcase.2 hctxD hdecl htgt
      · simp only [he, if_false] at hcase
        simp only [unitStmts, he, if_false] at hdecl ⊢
        exact scopeFirst arms m st Γ K sc ty hcase hctxA hdecl htgt
    | bool =>
      rw [hsty] at hcase; simp only [Bool.and_eq_true] at hcase
      obtain ⟨⟨_, hfa⟩, hfd⟩ := hcase
      have hshape : (compileTail env m st (.matchE s arms d ty)).1 =
          [.switch (compileImm env s) (valueCases (matchKind .bool) (compileArms env m (st.check (okImm env s)) arms).1)
            (compileDflt env m (compileArms env m (st.check (okImm env s)) arms).2 d).1] := by
        simp only [compileTail, hsty, matchKind]
      rw [hshape] at hdecl ⊢
      generalize hst1 : st.check (okImm env s) = st1 at hdecl ⊢
      have hdn : DeclOKA D sc (compileArms env m st1 arms).1 (compileDflt env m (compileArms env m st1 arms).2 d).1 :=
        declOKA_of_switch hdecl
      have hA := scopeArms arms m st1 Γ K sc (.valK .bool) ty hfa hctxA hdn.1 htgt
      have hDf := scopeD d m (compileArms env m st1 arms).2 Γ K sc ty hfd hctxD hdn.2 htgt
      have hc := switch_clean (D := D) h1 hnb h2 (vcases_clean (matchKind .bool) _ hA) hDf
      exact clean_cons hc.1 hc.2 (clean_nil _ _)
    | int bits sg =>
      rw [hsty] at hcase; simp only [Bool.and_eq_true] at hcase
      obtain ⟨⟨_, hfa⟩, hfd⟩ := hcase
      have hshape : (compileTail env m st (.matchE s arms d ty)).1 =
          [.switch (compileImm env s) (valueCases (matchKind (.int bits sg)) (compileArms env m (st.check (okImm env s)) arms).1)
            (compileDflt env m (compileArms env m (st.check (okImm env s)) arms).2 d).1] := by
        simp only [compileTail, hsty, matchKind]
      rw [hshape] at hdecl ⊢
      generalize hst1 : st.check (okImm env s) = st1 at hdecl ⊢
      have hdn : DeclOKA D sc (compileArms env m st1 arms).1 (compileDflt env m (compileArms env m st1 arms).2 d).1 :=
        declOKA_of_switch hdecl
      have hA := scopeArms arms m st1 Γ K sc (.valK (.int bits sg)) ty hfa hctxA hdn.1 htgt
      have hDf := scopeD d m (compileArms env m st1 arms).2 Γ K sc ty hfd hctxD hdn.2 htgt
      have hc := switch_clean (D := D) h1 hnb h2 (vcases_clean (matchKind (.int bits sg)) _ hA) hDf
      exact clean_cons hc.1 hc.2 (clean_nil _ _)
    | string =>
      rw [hsty] at hcase; simp only [Bool.and_eq_true] at hcase
      obtain ⟨⟨_, hfa⟩, hfd⟩ := hcase
      have hshape : (compileTail env m st (.matchE s arms d ty)).1 =
          [.switch (compileImm env s) (valueCases (matchKind .string) (compileArms env m (st.check (okImm env s)) arms).1)
            (compileDflt env m (compileArms env m (st.check (okImm env s)) arms).2 d).1] := by
        simp only [compileTail, hsty, matchKind]
      rw [hshape] at hdecl ⊢
      generalize hst1 : st.check (okImm env s) = st1 at hdecl ⊢
      have hdn : DeclOKA D sc (compileArms env m st1 arms).1 (compileDflt env m (compileArms env m st1 arms).2 d).1 :=
        declOKA_of_switch hdecl
      have hA := scopeArms arms m st1 Γ K sc (.valK .string) ty hfa hctxA hdn.1 htgt
      have hDf := scopeD d m (compileArms env m st1 arms).2 Γ K sc ty hfd hctxD hdn.2 htgt
      have hc := switch_clean (D := D) h1 hnb h2 (vcases_clean (matchKind .string) _ hA) hDf
      exact clean_cons hc.1 hc.2 (clean_nil _ _)
    | float b => rw [hsty] at hcase; simp [switchTy] at hcase
    | tuple ts => rw [hsty] at hcase; simp [switchTy] at hcase
    | struct sn => rw [hsty] at hcase; simp [switchTy] at hcase
    | dyn tr => rw [hsty] at hcase; simp [switchTy] at hcase
    | app t args => rw [hsty] at hcase; simp [switchTy] at hcase
    | array len e => rw [hsty] at hcase; simp [switchTy] at hcase
    | vec e => rw [hsty] at hcase; simp [switchTy] at hcase
    | ref e => rw [hsty] at hcase; simp [switchTy] at hcase
    | param p => rw [hsty] at hcase; simp [switchTy] at hcase
    | func ps r => rw [hsty] at hcase; simp [switchTy] at hcase
    | tvar k => rw [hsty] at hcase; simp [switchTy] at hcase
  | .constr c args ty, m, st, Γ, K, sc, hfrag, hctx, hdecl, htgt => by
    rw [compileTail_simple env m st (by rfl)]; exact scopeC_simple m _ Γ K sc rfl hfrag hctx htgt
  | .tuple items ty, m, st, Γ, K, sc, hfrag, hctx, hdecl, htgt => by
    rw [compileTail_simple env m st (by rfl)]; exact scopeC_simple m _ Γ K sc rfl hfrag hctx htgt
  | .array items ty, m, st, Γ, K, sc, hfrag, hctx, hdecl, htgt => by
    rw [compileTail_simple env m st (by rfl)]; exact scopeC_simple m _ Γ K sc rfl hfrag hctx htgt
  | .cget e c idx ty, m, st, Γ, K, sc, hfrag, hctx, hdecl, htgt => by
    rw [compileTail_simple env m st (by rfl)]; exact scopeC_simple m _ Γ K sc rfl hfrag hctx htgt
  | .toDyn tr forTy e ty, m, st, Γ, K, sc, hfrag, hctx, hdecl, htgt => by
    rw [compileTail_simple env m st (by rfl)]; exact scopeC_simple m _ Γ K sc rfl hfrag hctx htgt
  | .dynCall tr mm recv args ty, m, st, Γ, K, sc, hfrag, hctx, hdecl, htgt => by
    rw [compileTail_simple env m st (by rfl)]; exact scopeC_simple m _ Γ K sc rfl hfrag hctx htgt
  | .go e ty, m, st, Γ, K, sc, hfrag, hctx, hdecl, htgt => by
    rw [compileTail_simple env m st (by rfl)]; exact scopeC_simple m _ Γ K sc rfl hfrag hctx htgt
  | .proj e idx ty, m, st, Γ, K, sc, hfrag, hctx, hdecl, htgt => by
    rw [compileTail_simple env m st (by rfl)]; exact scopeC_simple m _ Γ K sc rfl hfrag hctx htgt
theorem scopeArms {env : Env} {file : AFile} {G : List String} {D : Names} :
    ∀ (arms : List AArm) (m : Mode) (st : St) (Γ : Ctx) (K : KCtx) (sc : Names) (ak : ArmKind) (ty : Ty),
      fragArms env file G Γ K ak ty arms = true → SCtx file G D sc Γ (calleesArms (Γ.map (·.1)) arms) →
      (∀ p, p ∈ (compileArms env m st arms).1 → DeclOK D sc p.2) → TgtSc m Γ sc →
      ∀ p, p ∈ (compileArms env m st arms).1 → Clean D sc p.2
  | [], m, st, Γ, K, sc, ak, ty, _, _, _, _ => by intro p hp; simp [compileArms] at hp
  | .mk lhs body :: rest, m, st, Γ, K, sc, ak, ty, hfrag, hctx, hdecl, htgt => by
    rw [compileArms_cons] at hdecl ⊢
    have hdb : DeclOK D sc (compileA env m st body).1 := hdecl _ List.mem_cons_self
    simp only [fragArms, Bool.and_eq_true] at hfrag
    obtain ⟨⟨hhead, _⟩, hfr⟩ := hfrag
    have hctxb : SCtx file G D sc Γ (calleesA (Γ.map (·.1)) body) := hctx.mono_cs (fun f hf => by simp [calleesArms, hf])
    have hctxr : SCtx file G D sc Γ (calleesArms (Γ.map (·.1)) rest) := hctx.mono_cs (fun f hf => by simp [calleesArms, hf])
    have hbody : Clean D sc (compileA env m st body).1 := by
      cases ak with
      | enumK x sty =>
        cases lhs with
        | tag idx tty =>
          simp only [Bool.and_eq_true] at hhead
          exact scopeA body m st Γ ((x, idx) :: K) sc hhead.2 hctxb hdb htgt
        | var y t => simp at hhead
        | prim p t => simp at hhead
      | valK sty =>
        cases lhs with
        | prim p pty =>
          simp only [Bool.and_eq_true] at hhead
          exact scopeA body m st Γ K sc hhead.2 hctxb hdb htgt
        | var y t => simp at hhead
        | tag idx t => simp at hhead
    have hrest := scopeArms rest m (compileA env m st body).2 Γ K sc ak ty hfr hctxr (fun p hp => hdecl p (List.mem_cons_of_mem _ hp)) htgt
    intro p hp
    rcases List.mem_cons.mp hp with rfl | hp
    · exact hbody
    · exact hrest p hp
theorem scopeD {env : Env} {file : AFile} {G : List String} {D : Names} :
    ∀ (d : ADflt) (m : Mode) (st : St) (Γ : Ctx) (K : KCtx) (sc : Names) (ty : Ty),
      fragD env file G Γ K ty d = true → SCtx file G D sc Γ (calleesD (Γ.map (·.1)) d) →
      (match (compileDflt env m st d).1 with | some b => DeclOK D sc b | none => True) → TgtSc m Γ sc →
      CleanOpt D sc (compileDflt env m st d).1
  | .none, m, st, Γ, K, sc, ty, _, _, _, _ => by simp [compileDflt, CleanOpt]
  | .some e, m, st, Γ, K, sc, ty, hfrag, hctx, hdecl, htgt => by
    simp only [fragD, Bool.and_eq_true] at hfrag
    simp only [compileDflt, CleanOpt] at hdecl ⊢
    exact scopeA e m st Γ K sc hfrag.1 (hctx.mono_cs (fun f hf => by simpa [calleesD] using hf)) hdecl htgt
theorem scopeFirst {env : Env} {file : AFile} {G : List String} {D : Names} :
    ∀ (arms : List AArm) (m : Mode) (st : St) (Γ : Ctx) (K : KCtx) (sc : Names) (ty : Ty),
      fragFirst env file G Γ K ty arms = true → SCtx file G D sc Γ (calleesArms (Γ.map (·.1)) arms) →
      DeclOK D sc (compileFirstArm env m st arms).1 → TgtSc m Γ sc →
      Clean D sc (compileFirstArm env m st arms).1
  | [], m, st, Γ, K, sc, ty, hfrag, _, _, _ => by simp [fragFirst] at hfrag
  | .mk lhs body :: rest, m, st, Γ, K, sc, ty, hfrag, hctx, hdecl, htgt => by
    simp only [fragFirst, Bool.and_eq_true] at hfrag
    simp only [compileFirstArm] at hdecl ⊢
    exact scopeA body m st Γ K sc hfrag.1.2 (hctx.mono_cs (fun f hf => by simp [calleesArms, hf])) hdecl htgt
theorem scopeDU {env : Env} {file : AFile} {G : List String} {D : Names} :
    ∀ (d : ADflt) (m : Mode) (st : St) (Γ : Ctx) (K : KCtx) (sc : Names) (ty : Ty),
      fragD env file G Γ K ty d = true → SCtx file G D sc Γ (calleesD (Γ.map (·.1)) d) →
      DeclOK D sc (compileDfltUnit env m st d).1 → TgtSc m Γ sc →
      Clean D sc (compileDfltUnit env m st d).1
  | .none, m, st, Γ, K, sc, ty, _, _, _, _ => by simp only [compileDfltUnit]; exact clean_nil _ _
  | .some e, m, st, Γ, K, sc, ty, hfrag, hctx, hdecl, htgt => by
    simp only [fragD, Bool.and_eq_true] at hfrag
    simp only [compileDfltUnit] at hdecl ⊢
    exact scopeA e m st Γ K sc hfrag.1 (hctx.mono_cs (fun f hf => by simpa [calleesD] using hf)) hdecl htgt
end

theorem lookupTy_mem {Γ : Ctx} {x : String} {t : Ty} (h : lookupTy Γ x = some t) : ∃ p, p ∈ Γ ∧ p.1 = x := by
  unfold lookupTy at h
  cases hf : Γ.find? (·.1 == x) with
  | none => rw [hf] at h; cases h
  | some p => exact ⟨p, List.mem_of_find?_eq_some hf, by simpa using List.find?_some hf⟩

/-- **T2 at function level**: the body `compile_fn` builds for a function that passes the local
    checks of the fragment is scope-clean and inside the shape contract of the DCE theorems -/
theorem fn_clean {env : Env} {file : AFile} {G : List String} {st : St} {g : AFn}
    (hlocal : localOK env file G st g = true) :
    Clean (Goml.Dce.localsOf (compileFn env st g).1) ((compileFn env st g).1.params.map (·.1)) (compileFn env st g).1.body := by
  simp only [localOK, srcLocalOK, goLocalOK, Bool.and_eq_true, Bool.not_eq_true', compileFn_shape] at hlocal
  obtain ⟨⟨⟨⟨hps, hrs⟩, hfrag⟩, hret⟩, ⟨⟨hscoped, hblank⟩, hcallees⟩, hfnames⟩ := hlocal
  rw [compileFn_shape]
  generalize hrn : "ret" ++ toString st.n = retName at *
  generalize hst1 : (st.next.check (okTy g.ret)).check (g.params.all fun p => okTy p.2) = st1 at *
  generalize hS : (compileA env (.assign retName) st1 g.body).1 = S at *
  simp only [scopedLocalsOK, Bool.and_eq_true, List.map_map, Function.comp_def] at hscoped
  obtain ⟨-, hsok⟩ := hscoped
  have hlocalsD : Goml.Dce.localsOf
      { name := fnName g.name, params := g.params.map fun p => (vn p.1, goTy p.2), ret := some (goTy g.ret),
        body := .varDecl (gid retName) (goTy g.ret) none :: (S ++ [.ret (some (.var (gid retName) (goTy g.ret)))]) } =
      (g.params.map fun p => vn p.1) ++ (gid retName :: (Goml.Dce.allDecls S ++ [])) := by
    simp [Goml.Dce.localsOf, Goml.Dce.allDecls, Goml.Dce.declsOf, allDecls_append, List.map_map, Function.comp_def]
  simp only [List.map_map, Function.comp_def]
  generalize hD : Goml.Dce.localsOf
      { name := fnName g.name, params := g.params.map fun p => (vn p.1, goTy p.2), ret := some (goTy g.ret),
        body := .varDecl (gid retName) (goTy g.ret) none :: (S ++ [.ret (some (.var (gid retName) (goTy g.ret)))]) } = D at *
  have hnb : ¬ "_" ∈ D := by
    intro h; rw [List.contains_eq_mem] at hblank; simp [h] at hblank
  have hPD : ∀ y, y ∈ (g.params.map fun p => vn p.1) → y ∈ D := fun y hy => by rw [hlocalsD]; exact List.mem_append_left _ hy
  have hRD : gid retName ∈ D := by rw [hlocalsD]; exact List.mem_append_right _ List.mem_cons_self
  have hSD : ∀ y, y ∈ Goml.Dce.allDecls S → y ∈ D := fun y hy => by
    rw [hlocalsD]; exact List.mem_append_right _ (List.mem_cons_of_mem _ (List.mem_append_left _ hy))
  have hsok' : DeclOK D (g.params.map fun p => vn p.1)
      (.varDecl (gid retName) (goTy g.ret) none :: (S ++ [.ret (some (.var (gid retName) (goTy g.ret)))])) := by
    refine sokB_weaken _ (fun y hy => ?_) hsok
    have hyD : y ∈ D := by
      rw [hlocalsD]; refine List.mem_append_right _ ?_
      simpa [Goml.Dce.allDecls, Goml.Dce.declsOf, allDecls_append] using hy
    have : y ≠ "_" := fun e => hnb (e ▸ hyD)
    simp [declOKB, hyD, this]
  obtain ⟨⟨hretP, -, -⟩, hdS⟩ := hsok'.varDecl
  have hdecl : DeclOK D (gid retName :: g.params.map fun p => vn p.1) S := hdS.append.1
  have hvd := varDecl_ok (D := D) (sc := g.params.map fun p => vn p.1) (ty := goTy g.ret) (v := none) hretP hRD
    (fun e => hnb (e ▸ hRD)) (by simp [undecl]) rfl rfl
  -- the body proper
  have hctx : SCtx file G D (gid retName :: g.params.map fun p => vn p.1) (paramCtx g) (calleesA ((paramCtx g).map (·.1)) g.body) := by
    refine ⟨fun x t hx => ?_, fun y hy => ?_, fun h => ?_, fun f hf => ?_, fun e he => ?_⟩
    · obtain ⟨p, hp, rfl⟩ := lookupTy_mem hx
      simp only [paramCtx, List.mem_reverse] at hp
      exact List.mem_cons_of_mem _ (List.mem_map_of_mem (f := fun p => vn p.1) hp)
    · rcases List.mem_cons.mp hy with rfl | hy
      · exact hRD
      · exact hPD y hy
    · rcases List.mem_cons.mp h with h | h
      · exact hnb (h ▸ hRD)
      · exact hnb (hPD _ h)
    · have := List.all_eq_true.mp hcallees f hf
      simp only [Bool.and_eq_true, Bool.not_eq_true', List.contains_eq_mem, decide_eq_false_iff_not, bne_iff_ne] at this
      exact this
    · have := List.all_eq_true.mp hfnames e he
      simp only [Bool.and_eq_true, Bool.not_eq_true', List.contains_eq_mem, decide_eq_false_iff_not, bne_iff_ne] at this
      exact this
  have htgt : TgtSc (.assign retName) (paramCtx g) (gid retName :: g.params.map fun p => vn p.1) :=
    ⟨List.mem_cons_self, fun x t hx e => by
      obtain ⟨p, hp, rfl⟩ := lookupTy_mem hx
      simp only [paramCtx, List.mem_reverse] at hp
      exact hretP (e ▸ List.mem_map_of_mem (f := fun p => vn p.1) hp)⟩
  have hbody := scopeA (D := D) g.body (.assign retName) st1 (paramCtx g) [] _ hfrag hctx (hS ▸ hdecl) htgt
  rw [hS] at hbody
  have hretsc : gid retName ∈ scopeAfter S (gid retName :: g.params.map fun p => vn p.1) :=
    (scopeAfter_mem _ _ _).mpr (Or.inl List.mem_cons_self)
  have hlast : Clean D (scopeAfter S (gid retName :: g.params.map fun p => vn p.1))
      [GStmt.ret (some (.var (gid retName) (goTy g.ret)))] := by
    refine clean_cons ?_ ?_ (clean_nil _ _)
    · simp only [scopeErrsStmt, varsUsed]
      exact undecl_nil.mpr (fun y hy _ => by simp only [List.mem_singleton] at hy; subst hy; exact hretsc)
    · have : (gid retName == "_") = false := by
        have : gid retName ≠ "_" := fun e => hnb (e ▸ hRD)
        simpa using this
      simp [shapeOKStmt, Goml.Dce.noBlockOpt, noBlockExpr, varsUsed, this]
      exact fun e => hnb (e ▸ hRD)
  exact clean_cons hvd.1 hvd.2 (clean_append hbody hlast)

end Goml.GoComp
