import GomlVerif.Lemmas.GoCompDyn
/-!
Forward simulation `Sem` (ANF) ⟶ `Go.Sem` (output of `GoCompile`) for stage (a): statements of the
induction (`SimAt n`, one field per mutually dependent statement, indexed by the `Sem` fuel) and the
expression-level step `SimV`.
-/
set_option linter.unusedSimpArgs false
set_option linter.unusedVariables false
namespace Goml.GoComp
open Goml Goml.Go Goml.GoCompile Goml.GoFrag
open Goml.Sem (Val World Res Fail)
open Goml.C01 (toG)
open Goml.Dce (keys lookup_cons_self lookup_cons_ne lookup_none_of_not_key key_of_lookup_some
  keys_update lookup_update_ne lookup_update_self update_not_key)

attribute [local irreducible] Goml.GoCompile.vn Goml.GoCompile.gid Goml.GoCompile.rn

/-- what the proof needs to know about the two programs: `P` is the `Sem` program of the ANF file,
    `F` the Go file the back end emits for it -/
structure Link (env : Env) (file : AFile) (G : List String) (P : Prog) (F : GFile) : Prop where
  rt : RtLink F
  fnSrc : ∀ g, g ∈ file → g.name ∈ G → P.findFn g.name = some g.toFn
  fnGo : ∀ g, g ∈ file → g.name ∈ G →
    ∃ st, F.findFunc (fnName g.name) = some (compileFn env st g).1 ∧ localOK env file G st g = true
  builtinSrc : ∀ b, b ∈ builtinNames → P.findFn b = none
  refSrc : ∀ b, b ∈ refNames → P.findFn b = none
  refGo : ∀ e, refTyOK env file (.ref e) = true → RefLink F e
  tupGo : ∀ ts, tupleTyOK env file (.tuple ts) = true → TupLink F ts
  arrSrc : ∀ b, b ∈ arrNames → P.findFn b = none
  arrGo : ∀ len e, arrTyOK env file (.array len e) = true → ArrLink F len e
  vecSrc : ∀ b, b ∈ vecNames → P.findFn b = none
  vecGo : VecLink F
  dynGo : ∀ tr forTy, (tr, forTy) ∈ dynTable env file G → DynLink env F tr forTy
  /-- `Sem`'s dynamic dispatch finds the function the wrapper calls (the hypothesis `implsOK` on the program) -/
  impls : ∀ tr forTy, (tr, forTy) ∈ dynTable env file G → ∀ s, s ∈ (traitMethodSigs env tr).getD [] →
    ∃ i, P.impls.find? (fun i => i.1 == tr && i.2.1 == Sem.tyKey forTy && i.2.2.1 == s.1) = some i ∧
      i.2.2.2 = Goml.Mono.traitImplFnName tr forTy s.1
  ty : TyLink env F

/-- the function table of the heap context is `fnSigs file G`, and the Go name of every function in it is one of `Bad`
    (no Go variable is spelled like a function that may be used as a value) -/
structure FCtx (env : Env) (file : AFile) (G : List String) (Bad : List String) (η : Hp) : Prop where
  eq : η.fns = fnSigs file G
  bad : ∀ e, e ∈ η.fns → vn e.1 ∈ Bad
  /-- the table of admissible vtables of the heap context is the one of the fragment -/
  deq : η.dyns = dynTable env file G

theorem FCtx.mono {env : Env} {file : AFile} {G Bad : List String} {η η' : Hp} (h : FCtx env file G Bad η) (hle : η.le η') :
    FCtx env file G Bad η' :=
  ⟨by rw [hle.2.2.1]; exact h.eq, fun e he => h.bad e (by rw [← hle.2.2.1]; exact he), by rw [hle.2.2.2.2]; exact h.deq⟩

theorem FCtx.rel {env : Env} {file : AFile} {G Bad : List String} {η : Hp} (h : FCtx env file G Bad η) {gρ : GEnv}
    (hgood : ∀ y, y ∈ keys gρ → ¬ y ∈ Bad) : FnRel file G η gρ :=
  ⟨h.eq, fun e he => Goml.Dce.lookup_none_of_not_key (fun hk => hgood _ hk (h.bad e he))⟩

/-- where the value of an assigned expression goes -/
def post (m : Mode) (gρ : GEnv) (gv : GVal) : GEnv :=
  match m with
  | .effect => gρ
  | .assign t => updateG gρ (gid t) gv

theorem keys_post (m : Mode) (gρ : GEnv) (gv : GVal) : keys (post m gρ gv) = keys gρ := by
  cases m with
  | effect => rfl
  | assign t => exact keys_update _ _ _

theorem length_post (m : Mode) (gρ : GEnv) (gv : GVal) : (post m gρ gv).length = gρ.length := by
  cases m with
  | effect => rfl
  | assign t => exact length_update _ _ _

/-- the target of an assignment is a declared Go variable that no source variable in scope uses;
    an expression compiled for its effect has type unit -/
def TgtOK (m : Mode) (Γ : Ctx) (gρ : GEnv) (ty : Ty) : Prop :=
  match m with
  | .effect => ty = .unit
  | .assign t => gid t ∈ keys gρ ∧ ∀ x tx, lookupTy Γ x = some tx → vn x ≠ gid t

/-- what a run of the compiled statements `S` must do, given what the `Sem` run did -/
def Concl (env : Env) (η : Hp) (F : GFile) (S : List GStmt) (m : Mode) (gρ : GEnv) (gw : GWorld) (ty : Ty) : Res Val → Prop
  | .ok v w' => ∃ η', η.le η' ∧ ∃ D gv gw', BlockS F gρ gw S (.ok (D ++ post m gρ gv, .normal) gw') ∧ VRel env η' v ty gv ∧
      HasTy env η' v ty ∧ WRel env η' w' gw' ∧ (∀ y, y ∈ keys D → y ∈ topDecls S)
  | .fail (.panic k) w' => ∃ η', η.le η' ∧ ∃ gw', BlockS F gρ gw S (.fail (.panic k) gw') ∧ WRel env η' w' gw'
  | _ => True

/-- forms whose `Sem` evaluation leaves the world as it is (everything but calls) -/
def pureC : CExpr → Bool
  | .imm _ => true
  | .constr _ _ _ => true
  | .tuple _ _ => true
  | .array _ _ => true
  | .cget _ _ _ _ => true
  | .un _ _ _ => true
  | .bin _ _ _ _ => true
  | .proj _ _ _ => true
  | _ => false

/-- forms whose `Sem` evaluation can panic (division, calls) -/
def mayPanicC : CExpr → Bool
  | .bin _ _ _ _ => true
  | .call _ _ _ => true
  | .dynCall _ _ _ _ _ => true
  | _ => false

/-- the same at expression level (a simple `CExpr` compiled by `compile_cexpr`); `pure`: the form
    cannot touch the world, and then the `Sem` world after it is the one before (`w`); only the forms
    of `mayPanic` panic -/
def ConclV (env : Env) (η : Hp) (F : GFile) (e : GExpr) (gρ : GEnv) (gw : GWorld) (ty : Ty) (pure mayPanic : Bool) (w : World) : Res Val → Prop
  | .ok v w' => ∃ η', η.le η' ∧ ∃ gv gw', EvS F gρ gw e (.ok gv gw') ∧ VRel env η' v ty gv ∧ HasTy env η' v ty ∧ WRel env η' w' gw' ∧
      (pure = true → w' = w ∧ η' = η)
  | .fail (.panic k) w' => ∃ η', η.le η' ∧ ∃ gw', EvS F gρ gw e (.fail (.panic k) gw') ∧ WRel env η' w' gw' ∧ mayPanic = true
  | _ => True

/-- a call: `Sem.apply` of a named function against `callG` of its Go name -/
def ConclCall (env : Env) (η : Hp) (F : GFile) (gname : String) (gvs : List GVal) (gw : GWorld) (ty : Ty) : Res Val → Prop
  | .ok v w' => ∃ η', η.le η' ∧ ∃ gv gw', CallS F gw (.func gname) gvs (.ok gv gw') ∧ VRel env η' v ty gv ∧ HasTy env η' v ty ∧
      WRel env η' w' gw'
  | .fail (.panic k) w' => ∃ η', η.le η' ∧ ∃ gw', CallS F gw (.func gname) gvs (.fail (.panic k) gw') ∧ WRel env η' w' gw'
  | _ => True

section
variable (env : Env) (file : AFile) (G : List String) (P : Prog) (F : GFile)

/-- calls of functions of `G` -/
def SimU (n : Nat) : Prop :=
  ∀ g, g ∈ file → g.name ∈ G → ∀ (η : Hp) (vs : List Val) (gvs : List GVal) (w : World) (gw : GWorld),
    η.fns = fnSigs file G → η.dyns = dynTable env file G → ArgsRel env η vs gvs (g.params.map (·.2)) → WRel env η w gw →
    ConclCall env η F (fnName g.name) gvs gw g.ret (Sem.apply n P w (.fn g.name) vs)

/-- calls of builtins -/
def SimB (n : Nat) : Prop :=
  ∀ b ps r, b ∈ builtinNames → builtinSig b = some (ps, r) → ∀ (η : Hp) (vs : List Val) (gvs : List GVal) (w : World) (gw : GWorld),
    ArgsRel env η vs gvs ps → WRel env η w gw → ConclCall env η F b gvs gw r (Sem.apply n P w (.fn b) vs)

/-- simple complex expressions (everything `compile_cexpr` handles) -/
def SimV (n : Nat) : Prop :=
  ∀ (c : CExpr) (η : Hp) (Γ : Ctx) (K : KCtx) (ρ : Sem.Env) (w : World) (gρ : GEnv) (gw : GWorld) (Bad : List String),
    isCtl c = false → isGoC c = false → fragC env file G Γ K c = true → EnvRel env η Γ ρ gρ → KRel K ρ → WRel env η w gw →
    (∀ y, y ∈ keys gρ → ¬ y ∈ Bad) → FCtx env file G Bad η → (∀ x, x ∈ calleesC (Γ.map (·.1)) c → x ∈ Bad) →
    ConclV env η F (compileCExpr env c) gρ gw c.annTy (pureC c) (mayPanicC c) w (Sem.eval n P ρ w c.toExpr)

/-- the statement `go f(env)`: the `Sem` run of `go e` (value unit) against the Go statement, which leaves the Go
    environment as it is -/
def ConclG (η : Hp) (s : GStmt) (gρ : GEnv) (gw : GWorld) : Res Val → Prop
  | .ok v w' => v = .unit ∧ ∃ η', η.le η' ∧ ∃ gw', StmtS F gρ gw s (.ok (gρ, .normal) gw') ∧ WRel env η' w' gw'
  | .fail (.panic k) w' => ∃ η', η.le η' ∧ ∃ gw', StmtS F gρ gw s (.fail (.panic k) gw') ∧ WRel env η' w' gw'
  | _ => True

/-- `go e` as a statement (`compile_go`) -/
def SimG (n : Nat) : Prop :=
  ∀ (e : Imm) (ty : Ty) (η : Hp) (Γ : Ctx) (K : KCtx) (ρ : Sem.Env) (w : World) (gρ : GEnv) (gw : GWorld) (Bad : List String),
    fragC env file G Γ K (.go e ty) = true → EnvRel env η Γ ρ gρ → WRel env η w gw →
    (∀ y, y ∈ keys gρ → ¬ y ∈ Bad) → FCtx env file G Bad η → (∀ x, x ∈ calleesC (Γ.map (·.1)) (.go e ty) → x ∈ Bad) →
    ConclG env F η (compileGo env e) gρ gw (Sem.eval n P ρ w (CExpr.go e ty).toExpr)

/-- `AExpr`s in either statement lowering -/
def SimA (n : Nat) : Prop :=
  ∀ (m : Mode) (st : St) (e : AExpr) (η : Hp) (Γ : Ctx) (K : KCtx) (ρ : Sem.Env) (w : World) (gρ : GEnv) (gw : GWorld) (Bad : List String),
    fragA env file G Γ K e = true → EnvRel env η Γ ρ gρ → KRel K ρ → WRel env η w gw →
    GInv Bad (compileA env m st e).1 gρ → TgtOK m Γ gρ (aTy e) → "_" ∈ Bad → FCtx env file G Bad η → (∀ x, x ∈ calleesA (Γ.map (·.1)) e → x ∈ Bad) →
    Concl env η F (compileA env m st e).1 m gρ gw (aTy e) (Sem.eval n P ρ w e.toExpr)

/-- `CExpr`s in tail position of either statement lowering -/
def SimC (n : Nat) : Prop :=
  ∀ (m : Mode) (st : St) (c : CExpr) (η : Hp) (Γ : Ctx) (K : KCtx) (ρ : Sem.Env) (w : World) (gρ : GEnv) (gw : GWorld) (Bad : List String),
    fragC env file G Γ K c = true → EnvRel env η Γ ρ gρ → KRel K ρ → WRel env η w gw →
    GInv Bad (compileTail env m st c).1 gρ → TgtOK m Γ gρ c.annTy → "_" ∈ Bad → FCtx env file G Bad η → (∀ x, x ∈ calleesC (Γ.map (·.1)) c → x ∈ Bad) →
    Concl env η F (compileTail env m st c).1 m gρ gw c.annTy (Sem.eval n P ρ w c.toExpr)

/-- the loop statement `compile_while` builds, started in an environment that holds the condition variable -/
def loopBody (cv : String) (st : St) (c b : AExpr) : List GStmt :=
  (compileA env (.assign cv) st c).1 ++
    [GStmt.ite (.un .not .bool (.var (gid cv) .bool)) [.brk] none] ++
    (compileA env .effect (compileA env (.assign cv) st c).2 b).1

def SimL (n : Nat) : Prop :=
  ∀ (cv : String) (st : St) (c b : AExpr) (η : Hp) (Γ : Ctx) (K : KCtx) (ρ : Sem.Env) (w : World) (gρ : GEnv) (gw : GWorld) (Bad : List String),
    fragA env file G Γ K c = true → aTy c = .bool → fragA env file G Γ K b = true → aTy b = .unit →
    EnvRel env η Γ ρ gρ → KRel K ρ → WRel env η w gw → GInv Bad (loopBody env cv st c b) gρ → TgtOK (.assign cv) Γ gρ .bool → "_" ∈ Bad → FCtx env file G Bad η →
    (∀ x, x ∈ calleesA (Γ.map (·.1)) c ++ calleesA (Γ.map (·.1)) b → x ∈ Bad) →
    match Sem.eval n P ρ w (.while c.toExpr b.toExpr) with
    | .ok v w' => v = .unit ∧ ∃ η', η.le η' ∧ ∃ gw', StmtS F gρ gw (.loop (loopBody env cv st c b))
        (.ok (updateG gρ (gid cv) (.bool false), .normal) gw') ∧ WRel env η' w' gw'
    | .fail (.panic k) w' => ∃ η', η.le η' ∧ ∃ gw', StmtS F gρ gw (.loop (loopBody env cv st c b)) (.fail (.panic k) gw') ∧ WRel env η' w' gw'
    | _ => True

/-- what the selected clause of a `switch` / type switch must do (the clauses are nested blocks:
    nothing they declare survives) -/
def ConclSw (env : Env) (η : Hp) (run : GRes (GEnv × Sig) → Prop) (m : Mode) (gρ : GEnv) (ty : Ty) : Res Val → Prop
  | .ok v w' => ∃ η', η.le η' ∧ ∃ gv gw', run (.ok (post m gρ gv, .normal) gw') ∧ VRel env η' v ty gv ∧ HasTy env η' v ty ∧
      WRel env η' w' gw'
  | .fail (.panic k) w' => ∃ η', η.le η' ∧ ∃ gw', run (.fail (.panic k) gw') ∧ WRel env η' w' gw'
  | _ => True

/-- the clauses of a `switch` and its default are about to run in `gρ`: each is its own block -/
structure GInvA (Bad : List String) (ra : List (Imm × List GStmt)) (rd : Option (List GStmt)) (gρ : GEnv) : Prop where
  arms : ∀ p, p ∈ ra → GInv Bad p.2 gρ
  dflt : match rd with | some b => GInv Bad b gρ | none => True
  goodK : ∀ y, y ∈ keys gρ → ¬ y ∈ Bad

/-- the arms of a `match` on an enum variable against the clauses of the type switch; `gρ` already
    holds the binding of the switch -/
def SimME (n : Nat) : Prop :=
  ∀ (m : Mode) (st : St) (arms : List AArm) (d : ADflt) (ty : Ty) (η : Hp) (Γ : Ctx) (K : KCtx) (ρ : Sem.Env) (w : World)
    (gρ : GEnv) (gw : GWorld) (Bad : List String) (x en : String) (i : Nat) (vs : List Val) (gv : GVal),
    fragArms env file G Γ K (.enumK x (.enum en)) ty arms = true → fragD env file G Γ K ty d = true →
    EnvRel env η Γ ρ gρ → KRel K ρ → WRel env η w gw →
    Sem.lookupEnv ρ x = some (.enumV en i vs) → HasTy env η (.enumV en i vs) (.enum en) → VRel env η (.enumV en i vs) (.enum en) gv →
    GInvA Bad (compileArms env m st arms).1 (compileDflt env m (compileArms env m st arms).2 d).1 gρ →
    TgtOK m Γ gρ ty → "_" ∈ Bad → FCtx env file G Bad η → (∀ c, c ∈ calleesArms (Γ.map (·.1)) arms ++ calleesD (Γ.map (·.1)) d → c ∈ Bad) →
    ConclSw env η (TSwS F gρ gw gv (typeCases env (compileArms env m st arms).1) (compileDflt env m (compileArms env m st arms).2 d).1)
      m gρ ty (Sem.evalArms n P ρ w (.enumV en i vs) (armsToExpr arms) (dfltToExpr d))

/-- the arms of a `match` on a bool / integer / string against the cases of the value switch -/
def SimMV (n : Nat) : Prop :=
  ∀ (m : Mode) (st : St) (arms : List AArm) (d : ADflt) (ty sty : Ty) (η : Hp) (Γ : Ctx) (K : KCtx) (ρ : Sem.Env) (w : World)
    (gρ : GEnv) (gw : GWorld) (Bad : List String) (v : Val) (gv : GVal),
    switchTy sty = true → fragArms env file G Γ K (.valK sty) ty arms = true → fragD env file G Γ K ty d = true →
    EnvRel env η Γ ρ gρ → KRel K ρ → WRel env η w gw → HasTy env η v sty → VRel env η v sty gv →
    GInvA Bad (compileArms env m st arms).1 (compileDflt env m (compileArms env m st arms).2 d).1 gρ →
    TgtOK m Γ gρ ty → "_" ∈ Bad → FCtx env file G Bad η → (∀ c, c ∈ calleesArms (Γ.map (·.1)) arms ++ calleesD (Γ.map (·.1)) d → c ∈ Bad) →
    ConclSw env η (SwS F gρ gw gv (valueCases (matchKind sty) (compileArms env m st arms).1) (compileDflt env m (compileArms env m st arms).2 d).1)
      m gρ ty (Sem.evalArms n P ρ w v (armsToExpr arms) (dfltToExpr d))

/-- the statements a `match` on unit becomes: the first arm, else the default, in place -/
def unitStmts (m : Mode) (st : St) (arms : List AArm) (d : ADflt) : List GStmt × St :=
  if arms.isEmpty then compileDfltUnit env m st d else compileFirstArm env m st arms

def fragUnit (Γ : Ctx) (K : KCtx) (ty : Ty) (arms : List AArm) (d : ADflt) : Bool :=
  if arms.isEmpty then isSomeD d && fragD env file G Γ K ty d else fragFirst env file G Γ K ty arms

def SimMU (n : Nat) : Prop :=
  ∀ (m : Mode) (st : St) (arms : List AArm) (d : ADflt) (ty : Ty) (η : Hp) (Γ : Ctx) (K : KCtx) (ρ : Sem.Env) (w : World)
    (gρ : GEnv) (gw : GWorld) (Bad : List String),
    fragUnit env file G Γ K ty arms d = true → EnvRel env η Γ ρ gρ → KRel K ρ → WRel env η w gw →
    GInv Bad (unitStmts env m st arms d).1 gρ → TgtOK m Γ gρ ty → "_" ∈ Bad → FCtx env file G Bad η →
    (∀ c, c ∈ calleesArms (Γ.map (·.1)) arms ++ calleesD (Γ.map (·.1)) d → c ∈ Bad) →
    Concl env η F (unitStmts env m st arms d).1 m gρ gw ty (Sem.evalArms n P ρ w .unit (armsToExpr arms) (dfltToExpr d))

structure SimAt (n : Nat) : Prop where
  u : SimU env file G P F n
  b : SimB env P F n
  v : SimV env file G P F n
  a : SimA env file G P F n
  c : SimC env file G P F n
  l : SimL env file G P F n
  me : SimME env file G P F n
  mv : SimMV env file G P F n
  mu : SimMU env file G P F n
  g : SimG env file G P F n
end

end Goml.GoComp
