import GomlVerif.Lemmas.GoCompStepC
/-! `let` chains (`AExpr`) in either statement lowering -/
set_option linter.unusedSimpArgs false
set_option linter.unusedVariables false
namespace Goml.GoComp
open Goml Goml.Go Goml.GoCompile Goml.GoFrag
open Goml.Sem (Val World Res Fail)
open Goml.C01 (toG)
open Goml.Dce (keys lookup_cons_self lookup_cons_ne lookup_none_of_not_key key_of_lookup_some
  keys_update lookup_update_ne lookup_update_self update_not_key)

attribute [local irreducible] Goml.GoCompile.vn Goml.GoCompile.gid Goml.GoCompile.rn

theorem post_append {m : Mode} {D : GEnv} (gρ : GEnv) (gv : GVal) (h : ∀ t, m = .assign t → ¬ gid t ∈ keys D) :
    post m (D ++ gρ) gv = D ++ post m gρ gv := by
  cases m with
  | effect => rfl
  | assign t => exact update_append_left (h t rfl) gρ gv

/-- `cgetField` on a variant of an admitted enum: the payload field -/
theorem cgetField_enum {env : Env} {e : Imm} {tn vname : String} {vi idx : Nat} {n vn' : String} {tys : List Ty} {t : Ty}
    (hv : variantOf env (.enum tn) vi = some (n, vn', tys)) (ht : tys[idx]? = some t) :
    cgetField env e (.enum tn vname vi) idx = some (fieldN idx, t) := by
  obtain ⟨hE, _, d, hd, hvar⟩ := variantOf_spec hv
  injection hE with hE; subst hE
  simp [cgetField, hd, hvar, ht]

theorem cexprTastTy_frag {env : Env} {file : AFile} {G : List String} {Γ : Ctx} {K : KCtx} {c : CExpr}
    (h : fragC env file G Γ K c = true) : cexprTastTy env c = c.annTy := by
  cases c <;> first | rfl | (simp [fragC] at h; done) | skip
  rename_i e c idx ty
  cases c with
  | enum tn vn' vi =>
    simp only [fragC, Bool.and_eq_true] at h
    obtain ⟨_, hcase⟩ := h
    simp only [cexprTastTy, CExpr.annTy]
    cases hv : variantOf env (.enum tn) vi with
    | none => rw [hv] at hcase; simp at hcase
    | some vv =>
      obtain ⟨n, vname, tys⟩ := vv
      rw [hv] at hcase; simp only at hcase
      cases ht : tys[idx]? with
      | none => rw [ht] at hcase; simp at hcase
      | some t =>
        rw [ht] at hcase; simp only at hcase
        rw [cgetField_enum hv ht]; simp [scalarEq_eq hcase]
  | struct sn =>
    simp only [fragC, Bool.and_eq_true] at h
    obtain ⟨_, hcase⟩ := h
    simp only [cexprTastTy, CExpr.annTy]
    cases hf : cgetField env e (.struct sn) idx with
    | none => rw [hf] at hcase; simp at hcase
    | some ft => rw [hf] at hcase; simp only at hcase; simp [scalarEq_eq hcase]

theorem scalar_flat {t : Ty} (h : scalarTy t = true) : flatTy t = true := by
  cases t <;> simp [scalarTy] at h <;> rfl

theorem okPrim_scalar {p : Prim} {ty : Ty} (h : okPrim p ty = true) : flatTy ty = true := by
  cases p <;> cases ty <;> simp [okPrim] at h <;> rfl

theorem scalarEq_scalar_right' {a b : Ty} (h : scalarEq a b = true) : flatTy b = true := by
  have := scalarEq_eq h; subst this; exact scalarEq_flat h

theorem immOK_scalar {env : Env} {Γ : Ctx} {i : Imm} (h : immOK env file G Γ i = true) : flatTy i.ty = true := by
  cases i with
  | var x ty =>
    simp only [immOK] at h
    cases hl : lookupTy Γ x with
    | none =>
      rw [hl] at h; simp only at h
      cases ty <;> simp only [fnValOK] at h <;> try (cases h; done)
      rename_i ps r
      simp only [Bool.and_eq_true] at h
      cases hf : (fnSigs file G).find? (·.1 == x) with
      | none => rw [hf] at h; exact absurd h.2 (by simp)
      | some e =>
        rw [hf] at h; simp only [Bool.and_eq_true] at h
        have h1 := scalarEqs_eq h.2.1; have h2 := scalarEq_eq h.2.2
        simp only [Imm.ty, flatTy, Bool.and_eq_true]
        exact ⟨by rw [← h1]; exact scalarEqs_self_flat (by rw [h1] at h ⊢; exact h.2.1), scalarEq_scalar_right' h.2.2⟩
    | some t => rw [hl] at h; simp only at h; have := scalarEq_eq h; subst this; exact scalarEq_flat h
  | prim p ty => exact okPrim_scalar h
  | tag i t =>
    simp only [immOK] at h
    cases hv : variantOf env t i with
    | none => rw [hv] at h; simp at h
    | some vv =>
      obtain ⟨n, vname, tys⟩ := vv
      obtain ⟨hE, _⟩ := variantOf_spec hv
      simp [Imm.ty, hE, flatTy]

theorem scalarEq_scalar_right {a b : Ty} (h : scalarEq a b = true) : flatTy b = true := by
  have := scalarEq_eq h; subst this; exact scalarEq_flat h

theorem fragC_scalar {env : Env} {file : AFile} {G : List String} {Γ : Ctx} {K : KCtx} {c : CExpr}
    (h : fragC env file G Γ K c = true) : flatTy c.annTy = true := by
  cases c with
  | imm i => exact immOK_scalar h
  | un op e ty =>
    simp only [fragC, Bool.and_eq_true] at h
    cases op <;> simp only [unOK, Bool.and_eq_true] at h <;> exact scalarEq_flat h.2.2
  | bin op l r ty =>
    simp only [fragC, binOK, Bool.and_eq_true] at h
    exact scalarEq_flat h.2.2
  | call f args ty =>
    simp only [fragC, Bool.or_eq_true] at h
    cases f with
    | var name fty =>
      rcases h with (((h | h) | h) | h) | h
      rotate_left 4
      · simp only [vecCallOK, Bool.and_eq_true, beq_iff_eq] at h
        obtain ⟨_, hcase⟩ := h
        simp only [CExpr.annTy]
        by_cases h1 : name = "vec_new"
        · rw [if_pos h1] at hcase
          cases args <;> cases ty <;> simp only at hcase <;> first | (cases hcase; done) | exact valTy_flat hcase
        · rw [if_neg h1] at hcase
          by_cases h2 : name = "vec_push"
          · rw [if_pos h2] at hcase
            cases ty <;> simp only [Bool.and_eq_true] at hcase <;> first | (cases hcase; done) | exact valTy_flat hcase.2
          · rw [if_neg h2] at hcase
            by_cases h3 : name = "vec_get"
            · rw [if_pos h3] at hcase
              cases args with
              | nil => cases hcase
              | cons a rest =>
                cases rest with
                | nil => cases hcase
                | cons i rest =>
                  simp only [Bool.and_eq_true] at hcase
                  have := valTy_flat hcase.2
                  simpa [flatTy] using this
            · rw [if_neg h3] at hcase
              by_cases h4 : name = "vec_len"
              · rw [if_pos h4] at hcase
                cases args with
                | nil => cases hcase
                | cons a rest =>
                  simp only at hcase
                  cases haty : a.ty with
                  | vec e => rw [haty] at hcase; simp only [Bool.and_eq_true] at hcase; exact scalarEq_flat hcase.1.2
                  | _ => rw [haty] at hcase; cases hcase
              · rw [if_neg h4] at hcase; cases hcase
      rotate_left 3
      · simp only [localCallOK] at h
        cases hlk : lookupTy Γ name with
        | none => rw [hlk] at h; cases h
        | some t =>
          rw [hlk] at h
          cases t <;> simp only at h <;> try (cases h; done)
          simp only [Bool.and_eq_true] at h
          exact scalarEq_flat h.2
      · simp only [callOK, Bool.and_eq_true] at h
        obtain ⟨_, hcase⟩ := h
        cases hs : builtinSig name with
        | some pr => rw [hs] at hcase; simp only [Bool.and_eq_true] at hcase; exact scalarEq_flat hcase.2
        | none =>
          rw [hs] at hcase; simp only at hcase
          cases hf : file.find? (·.name == name) with
          | none => rw [hf] at hcase; simp at hcase
          | some g => rw [hf] at hcase; simp only [Bool.and_eq_true] at hcase; exact scalarEq_flat hcase.2
      · simp only [refCallOK, Bool.and_eq_true, beq_iff_eq] at h
        obtain ⟨_, hcase⟩ := h
        simp only [CExpr.annTy]
        by_cases h1 : name = "ref"
        · rw [if_pos h1] at hcase
          cases ty with
          | ref e =>
            simp only [Bool.and_eq_true, refTyOK] at hcase
            exact valTy_flat hcase.2.1
          | _ => exact absurd hcase (by simp)
        · rw [if_neg h1] at hcase
          by_cases h2 : name = "ref_get"
          · rw [if_pos h2] at hcase
            simp only [Bool.and_eq_true, refTyOK] at hcase
            have := valTy_flat hcase.2.1
            simpa [flatTy] using this
          · rw [if_neg h2] at hcase
            by_cases h3 : name = "ref_set"
            · rw [if_pos h3] at hcase
              cases args with
              | nil => cases hcase
              | cons r rest =>
                simp only at hcase
                cases hrty : r.ty with
                | ref e =>
                  rw [hrty] at hcase; simp only [Bool.and_eq_true] at hcase
                  exact scalarEq_flat hcase.1.2
                | _ => rw [hrty] at hcase; cases hcase
            · rw [if_neg h3] at hcase; cases hcase
      · simp only [arrCallOK, Bool.and_eq_true, beq_iff_eq] at h
        obtain ⟨_, hcase⟩ := h
        simp only [CExpr.annTy]
        cases args with
        | nil => cases hcase
        | cons a rest =>
          cases rest with
          | nil => cases hcase
          | cons i rest =>
            simp only at hcase
            cases haty : a.ty with
            | array len e =>
              rw [haty] at hcase; simp only [Bool.and_eq_true] at hcase
              obtain ⟨_, hif⟩ := hcase
              by_cases h1 : name = "array_get"
              · rw [if_pos h1] at hif; simp only [Bool.and_eq_true] at hif; exact scalarEq_flat hif.2
              · rw [if_neg h1] at hif
                by_cases h2 : name = "array_set"
                · rw [if_pos h2] at hif; simp only [Bool.and_eq_true] at hif; exact scalarEq_flat hif.2
                · rw [if_neg h2] at hif; cases hif
            | _ => rw [haty] at hcase; cases hcase
    | prim p t => simp [callOK, refCallOK, arrCallOK, localCallOK, vecCallOK] at h
    | tag i t => simp [callOK, refCallOK, arrCallOK, localCallOK, vecCallOK] at h
  | ite c t e ty => simp only [fragC, Bool.and_eq_true] at h; exact scalarEq_scalar_right h.1.2
  | «while» c b ty => simp only [fragC, Bool.and_eq_true] at h; exact scalarEq_flat h.2
  | matchE s arms d ty => simp only [fragC, Bool.and_eq_true] at h; exact h.1.2
  | constr c args ty =>
    cases c with
    | enum tn vn' vi => simp only [fragC, Bool.and_eq_true] at h; exact scalarEq_flat h.1
    | struct sn => simp only [fragC, Bool.and_eq_true] at h; exact scalarEq_flat h.1.1
  | tuple items ty =>
    simp only [fragC] at h
    cases ty with
    | tuple ts =>
      simp only [Bool.and_eq_true, tupleTyOK] at h
      exact valTy_flat h.2.1
    | _ => exact absurd h (by simp)
  | array items ty =>
    simp only [fragC] at h
    cases ty with
    | array len e =>
      simp only [Bool.and_eq_true] at h
      exact valTy_flat h.2
    | _ => exact absurd h (by simp)
  | cget e c idx ty =>
    cases c with
    | enum tn vn' vi =>
      simp only [fragC, Bool.and_eq_true] at h
      obtain ⟨_, hcase⟩ := h
      cases hv : variantOf env (.enum tn) vi with
      | none => rw [hv] at hcase; simp at hcase
      | some vv =>
        rw [hv] at hcase; simp only at hcase
        cases ht : vv.2.2[idx]? with
        | none => rw [ht] at hcase; simp at hcase
        | some t => rw [ht] at hcase; simp only at hcase; exact scalarEq_flat hcase
    | struct sn =>
      simp only [fragC, Bool.and_eq_true] at h
      obtain ⟨_, hcase⟩ := h
      cases hf : cgetField env e (.struct sn) idx with
      | none => rw [hf] at hcase; simp at hcase
      | some ft => rw [hf] at hcase; simp only at hcase; exact scalarEq_flat hcase
  | toDyn tr forTy e ty =>
    simp only [fragC, toDynOK, Bool.and_eq_true] at h
    exact scalarEq_flat h.1.2
  | dynCall tr m recv args ty =>
    simp only [fragC, dynCallOK, Bool.and_eq_true] at h
    obtain ⟨_, hcase⟩ := h
    cases hsg : dynSig env tr m with
    | none => rw [hsg] at hcase; cases hcase
    | some s => rw [hsg] at hcase; simp only [Bool.and_eq_true] at hcase; exact scalarEq_flat hcase.2
  | go e ty =>
    simp only [fragC, goOK] at h
    cases hety : e.ty <;> rw [hety] at h <;> try (cases h; done)
    simp only [Bool.and_eq_true] at h
    exact scalarEq_flat h.1.2
  | proj e idx ty =>
    simp only [fragC, Bool.and_eq_true] at h
    obtain ⟨_, hcase⟩ := h
    cases hety : e.ty with
    | tuple ts =>
      rw [hety] at hcase; simp only [Bool.and_eq_true] at hcase
      cases hti : ts[idx]? with
      | none => rw [hti] at hcase; exact absurd hcase.2 (by simp)
      | some t => rw [hti] at hcase; exact scalarEq_flat hcase.2
    | _ => rw [hety] at hcase; exact absurd hcase (by simp)

theorem bindSimple_shape {env : Env} {file : AFile} {G : List String} {Γ : Ctx} {K : KCtx} {v : CExpr} (x : String)
    (h : fragC env file G Γ K v = true) (hgo : isGoC v = false) :
    compileBindSimple env x v = [.varDecl (vn x) (goTy v.annTy) (some (compileCExpr env v))] := by
  have := cexprTastTy_frag h
  cases v <;> first | (simp [fragC] at h; done) | (simp [isGoC] at hgo; done) | simp only [compileBindSimple, cexprTy, this]

/-- the rest of a `let`: the binding `x` has just been made by the prefix `var x … ; d1`, which
    left `D1` (declarations of `d1`) on top of it -/
theorem let_body {env : Env} {η η1 : Hp} {file : AFile} {G : List String} {P : Prog} {F : GFile} {n : Nat}
    (ha : SimA env file G P F n) (m : Mode) (st2 : St) (x : String) (tx : Ty) (body : AExpr) (Γ : Ctx) (K : KCtx) (ρ : Sem.Env)
    (gρ : GEnv) (gw : GWorld) (Bad : List String) (Pre : List GStmt)
    (D1 : GEnv) (vv : Val) (gv : GVal) (w1 : World) (gw1 : GWorld)
    (hpre : BlockS F gρ gw Pre (.ok (D1 ++ (vn x, gv) :: gρ, .normal) gw1))
    (hDtop : ∀ y, y ∈ keys (D1 ++ [(vn x, gv)]) → y ∈ topDecls Pre)
    (hD1x : ¬ vn x ∈ keys D1)
    (hinv : GInv Bad (Pre ++ (compileA env m st2 body).1) gρ)
    (hrel0 : EnvRel env η Γ ρ gρ) (hle1 : η.le η1) (hkrel : KRel K ρ) (h3 : VRel env η1 vv tx gv) (h4 : HasTy env η1 vv tx) (hw1 : WRel env η1 w1 gw1)
    (hfb : fragA env file G ((x, tx) :: Γ) (eraseK K x) body = true) (htgt : TgtOK m Γ gρ (aTy body)) (hus : "_" ∈ Bad)
    (hfx : FCtx env file G Bad η) (hcal : ∀ c, c ∈ calleesA (x :: Γ.map (·.1)) body → c ∈ Bad) :
    Concl env η F (Pre ++ (compileA env m st2 body).1) m gρ gw (aTy body)
      (Sem.eval n P ((x, vv) :: ρ) w1 body.toExpr) := by
  have hrel : EnvRel env η1 Γ ρ gρ := hrel0.mono hle1
  have htopfresh : ∀ y, y ∈ topDecls Pre → ¬ y ∈ keys gρ := fun y hy => (sokB_top Pre _ hinv.left.sok y hy).2
  have hfresh : ¬ vn x ∈ keys gρ := htopfresh _ (hDtop _ (by simp [keys_append]))
  have hD1disj : ∀ y, y ∈ keys D1 → ¬ y ∈ keys gρ := fun y hy =>
    htopfresh y (hDtop y (by rw [keys_append]; exact List.mem_append_left _ hy))
  -- environments after the prefix
  have hrel2 : EnvRel env η1 ((x, tx) :: Γ) ((x, vv) :: ρ) (D1 ++ (vn x, gv) :: gρ) := by
    refine (hrel.cons hfresh h3 h4).go_agree (fun y ty hy => lookup_append_right ?_ _)
    obtain ⟨_, _, _, h2, _, _⟩ := (hrel.cons hfresh h3 h4).1 y ty hy
    have hk := key_of_lookup_some h2
    simp only [Goml.Dce.keys_cons, List.mem_cons] at hk
    rcases hk with hk | hk
    · rw [hk]; exact hD1x
    · exact fun h => hD1disj _ h hk
  have hinv2 : GInv Bad (compileA env m st2 body).1 (D1 ++ (vn x, gv) :: gρ) := by
    have := GInv.right (D := D1 ++ [(vn x, gv)]) (U := gρ) hinv rfl hDtop
    simpa [List.append_assoc] using this
  have htgt2 : TgtOK m ((x, tx) :: Γ) (D1 ++ (vn x, gv) :: gρ) (aTy body) := by
    cases m with
    | effect => exact htgt
    | assign t =>
      obtain ⟨htk, hne⟩ := htgt
      refine ⟨by rw [keys_append]; exact List.mem_append_right _ (List.mem_cons_of_mem _ htk), fun y ty hy => ?_⟩
      by_cases hxy : x = y
      · subst hxy; exact fun e => hfresh (e ▸ htk)
      · rw [lookupTy_cons_ne _ _ hxy] at hy; exact hne y ty hy
  have hpost : ∀ gv2, post m (D1 ++ (vn x, gv) :: gρ) gv2 = (D1 ++ [(vn x, gv)]) ++ post m gρ gv2 := fun gv2 => by
    rw [show D1 ++ (vn x, gv) :: gρ = (D1 ++ [(vn x, gv)]) ++ gρ by simp]
    refine post_append gρ gv2 (fun t ht => ?_)
    subst ht
    obtain ⟨htk, _⟩ := htgt
    rw [keys_append, List.mem_append]
    rintro (h | h)
    · exact hD1disj _ h htk
    · simp only [Goml.Dce.keys_cons, Goml.Dce.keys_nil, List.mem_singleton] at h; exact hfresh (h ▸ htk)
  have hB := ha m st2 body η1 ((x, tx) :: Γ) (eraseK K x) ((x, vv) :: ρ) w1 (D1 ++ (vn x, gv) :: gρ) gw1 Bad hfb hrel2 (hkrel.bind x vv) hw1 hinv2 htgt2 hus (hfx.mono hle1) hcal
  revert hB
  cases hres : Sem.eval n P ((x, vv) :: ρ) w1 body.toExpr with
  | ok v2 w2 =>
    rintro ⟨η2, hle2, D2, gv2, gw2, hb, g3, g4, g5, hD2⟩
    rw [hpost gv2] at hb
    refine ⟨η2, Hp.le_trans hle1 hle2, D2 ++ (D1 ++ [(vn x, gv)]), gv2, gw2, ?_, g3, g4, g5, fun y hy => ?_⟩
    · have := block_append hpre hb
      simpa [List.append_assoc] using this
    · rw [topDecls_append]
      rw [keys_append, List.mem_append] at hy
      rcases hy with hy | hy
      · exact List.mem_append_right _ (hD2 y hy)
      · exact List.mem_append_left _ (hDtop y hy)
  | fail fl w2 =>
    cases fl with
    | panic k =>
      rintro ⟨η2, hle2, gw2, hb, g5⟩
      exact ⟨η2, Hp.le_trans hle1 hle2, gw2, block_append hpre hb, g5⟩
    | fuel => intro _; trivial
    | stuck s => intro _; trivial

theorem stepA {env : Env} {file : AFile} {G : List String} {P : Prog} {F : GFile} {n : Nat}
    (hc1 : SimC env file G P F (n + 1)) (hv : SimV env file G P F n) (hc : SimC env file G P F n)
    (ha : SimA env file G P F n) (hg : SimG env file G P F n) : SimA env file G P F (n + 1) := by
  intro m st e η Γ K ρ w gρ gw Bad hfrag hrel hkrel hw hinv htgt hus hfx hcal
  cases e with
  | ret c =>
    simp only [compileA, AExpr.toExpr, aTy, fragA, calleesA] at *
    exact hc1 m st c η Γ K ρ w gρ gw Bad hfrag hrel hkrel hw hinv htgt hus hfx hcal
  | letE x v body ty =>
    simp only [fragA, Bool.and_eq_true] at hfrag
    obtain ⟨hfv, hfb⟩ := hfrag
    simp only [AExpr.toExpr, aTy] at htgt ⊢
    have hcalv : ∀ c, c ∈ calleesC (Γ.map (·.1)) v → c ∈ Bad := fun c hc' => hcal c (by simp [calleesA, hc'])
    have hcalb : ∀ c, c ∈ calleesA (x :: Γ.map (·.1)) body → c ∈ Bad := fun c hc' => hcal c (by simp [calleesA, hc'])
    have hsc := fragC_scalar hfv
    rw [Sem.eval]
    by_cases hctl : isCtl v = true
    · -- `var x T; <statements assigning x>; rest`
      simp only [compileA, hctl, if_true] at hinv ⊢
      rw [show cexprTy env v = goTy v.annTy by simp [cexprTy, cexprTastTy_frag hfv]] at hinv ⊢
      generalize hst1 : st.check (okTy (cexprTastTy env v)) = st1 at hinv ⊢
      generalize hd : compileTail env (.assign (rn x)) st1 v = d at hinv ⊢
      have hcons : ∀ (l1 l2 : List GStmt), GStmt.varDecl (vn x) (goTy v.annTy) none :: (l1 ++ l2) =
          (GStmt.varDecl (vn x) (goTy v.annTy) none :: l1) ++ l2 := fun _ _ => rfl
      rw [hcons] at hinv ⊢
      have hinvP : GInv Bad (GStmt.varDecl (vn x) (goTy v.annTy) none :: d.1) gρ := hinv.left
      obtain ⟨hfresh, _, hsokd⟩ := hinvP.varDecl
      have hvd : StmtS F gρ gw (.varDecl (vn x) (goTy v.annTy) none) (.ok ((vn x, zero F (goTy v.annTy)) :: gρ, .normal) gw) :=
        stmt_varDecl_none (flat_not_absurd hsc)
      have hne : ∀ y ty, lookupTy Γ y = some ty → vn y ≠ vn x := fun y ty hy e => by
        obtain ⟨_, _, _, h2, _, _⟩ := hrel.1 y ty hy
        exact hfresh (e ▸ key_of_lookup_some h2)
      have hrel1 : EnvRel env η Γ ρ ((vn x, zero F (goTy v.annTy)) :: gρ) :=
        hrel.go_agree (fun y ty hy => lookup_cons_ne _ _ (fun e => hne y ty hy e.symm))
      have hinvd : GInv Bad d.1 ((vn x, zero F (goTy v.annTy)) :: gρ) := hinvP.after_varDecl _
      have htgtd : TgtOK (.assign (rn x)) Γ ((vn x, zero F (goTy v.annTy)) :: gρ) v.annTy := by
        refine ⟨by rw [← vn_def]; simp, fun y ty hy => ?_⟩
        rw [← vn_def]; exact hne y ty hy
      have hD := hc (.assign (rn x)) st1 v η Γ K ρ w _ gw Bad hfv hrel1 hkrel hw (hd ▸ hinvd) htgtd hus hfx hcalv
      rw [hd] at hD
      revert hD
      cases hres : Sem.eval n P ρ w v.toExpr with
      | ok vv w1 =>
        rintro ⟨η1, hle1, D1, gv, gw1, hb, h3, h4, h5, hD1⟩
        simp only
        have hup : post (.assign (rn x)) ((vn x, zero F (goTy v.annTy)) :: gρ) gv = (vn x, gv) :: gρ := by
          simp only [post]; rw [← vn_def]; exact update_cons_self _ _ _ _
        rw [hup] at hb
        have htopd : ∀ y, y ∈ topDecls d.1 → ¬ y ∈ vn x :: keys gρ := fun y hy => (sokB_top d.1 _ hsokd y hy).2
        exact let_body ha m d.2 x v.annTy body Γ K ρ gρ gw Bad _ D1 vv gv w1 gw1 (block_cons hvd hb)
          (fun y hy => by
            rw [keys_append, List.mem_append] at hy
            simp only [topDecls, List.mem_cons]
            rcases hy with hy | hy
            · exact Or.inr (hD1 y hy)
            · simp only [Goml.Dce.keys_cons, Goml.Dce.keys_nil, List.mem_singleton] at hy; exact Or.inl hy)
          (fun h => htopd _ (hD1 _ h) List.mem_cons_self)
          hinv hrel hle1 hkrel h3 h4 h5 hfb htgt hus hfx hcalb
      | fail fl w1 =>
        cases fl with
        | panic k =>
          rintro ⟨η1, hle1, gw1, hb, h5⟩
          simp only
          refine ⟨η1, hle1, gw1, ?_, h5⟩
          rw [← hcons]
          exact block_cons hvd (block_append_panic hb)
        | fuel => intro _; trivial
        | stuck s => intro _; trivial
    · -- `var x T = <expr>; rest`
      have hctl' : isCtl v = false := by simpa using hctl
      by_cases hgoc : isGoC v = false
      rotate_left
      · -- `go f(env); var x struct{} = struct{}{}; rest`
        cases v <;> simp [isGoC] at hgoc
        rename_i e ty
        have hty : ty = .unit := by
          simp only [fragC, goOK] at hfv
          cases hety : e.ty <;> rw [hety] at hfv <;> try (cases hfv; done)
          simp only [Bool.and_eq_true] at hfv
          exact scalarEq_eq hfv.1.2
        subst hty
        simp only [compileA, isCtl, Bool.false_eq_true, if_false, compileBindSimple] at hinv ⊢
        generalize hst1 : st.check (okBindSimple env (.go e .unit)) = st1 at hinv ⊢
        obtain ⟨X, hX⟩ := compileGo_isGo env e
        have hdP : topDecls [compileGo env e, .varDecl (vn x) .unit (some unitE)] = [vn x] := by
          rw [hX]; simp [topDecls]
        have hG := hg e .unit η Γ K ρ w gρ gw Bad hfv hrel hw hinv.goodK hfx hcalv
        revert hG
        cases hres : Sem.eval n P ρ w (CExpr.go e .unit).toExpr with
        | ok vv w1 =>
          rintro ⟨rfl, η1, hle1, gw1, hs, h5⟩
          simp only
          have hvd : StmtS F gρ gw1 (.varDecl (vn x) .unit (some unitE)) (.ok ((vn x, .unit) :: gρ, .normal) gw1) :=
            stmt_varDecl_some (by simp [absurdTy]) ev_unitv
          exact let_body ha m st1 x .unit body Γ K ρ gρ gw Bad _ [] .unit .unit w1 gw1
            (block_cons hs (block_cons hvd block_nil))
            (fun y hy => by rw [hdP]; simpa [keys] using hy) (by simp [keys]) hinv hrel hle1 hkrel (by simp [VRel]) trivial h5
            hfb htgt hus hfx hcalb
        | fail fl w1 =>
          cases fl with
          | panic k =>
            rintro ⟨η1, hle1, gw1, hs, h5⟩
            simp only
            exact ⟨η1, hle1, gw1, block_cons_fail hs, h5⟩
          | fuel => intro _; trivial
          | stuck s => intro _; trivial
      simp only [compileA, hctl', Bool.false_eq_true, if_false, bindSimple_shape x hfv hgoc] at hinv ⊢
      generalize hst1 : st.check (okBindSimple env v) = st1 at hinv ⊢
      have hV := hv v η Γ K ρ w gρ gw Bad hctl' hgoc hfv hrel hkrel hw hinv.goodK hfx hcalv
      revert hV
      cases hres : Sem.eval n P ρ w v.toExpr with
      | ok vv w1 =>
        rintro ⟨η1, hle1, gv, gw1, he, h3, h4, h5, _⟩
        simp only
        have hvd : StmtS F gρ gw (.varDecl (vn x) (goTy v.annTy) (some (compileCExpr env v)))
            (.ok ((vn x, gv) :: gρ, .normal) gw1) := stmt_varDecl_some (flat_not_absurd hsc) he
        exact let_body ha m st1 x v.annTy body Γ K ρ gρ gw Bad _ [] vv gv w1 gw1 (block_cons hvd block_nil)
          (fun y hy => by simpa [keys, topDecls] using hy) (by simp [keys]) hinv hrel hle1 hkrel h3 h4 h5 hfb htgt hus hfx hcalb
      | fail fl w1 =>
        cases fl with
        | panic k =>
          rintro ⟨η1, hle1, gw1, he, h5, _⟩
          simp only
          exact ⟨η1, hle1, gw1, block_cons_fail (stmt_varDecl_fail (flat_not_absurd hsc) he), h5⟩
        | fuel => intro _; trivial
        | stuck s => intro _; trivial

/-- the statements a `let x = v` contributes, before those of its body -/
def letPrefix (env : Env) (st : St) (x : String) (v : CExpr) : List GStmt :=
  if isCtl v then
    .varDecl (vn x) (cexprTy env v) none ::
      (compileTail env (.assign (rn x)) (st.check (okTy (cexprTastTy env v))) v).1
  else compileBindSimple env x v

/-- the counter / flag state with which the body of the `let` is compiled -/
def letBodySt (env : Env) (st : St) (x : String) (v : CExpr) : St :=
  if isCtl v then (compileTail env (.assign (rn x)) (st.check (okTy (cexprTastTy env v))) v).2
  else st.check (okBindSimple env v)

theorem compileA_let (env : Env) (m : Mode) (st : St) (x : String) (v : CExpr) (body : AExpr) (ty : Ty) :
    (compileA env m st (.letE x v body ty)).1 =
      letPrefix env st x v ++ (compileA env m (letBodySt env st x v) body).1 := by
  simp only [compileA, letPrefix, letBodySt]
  split <;> rfl

/-- **ordering**: the statements of `v` run to completion — leaving the `Sem` world after `v` and
    the value of `v` in `x` — before any statement of the body; if `v` panics, nothing after it runs -/
theorem let_order {env : Env} {η : Hp} {file : AFile} {G : List String} {P : Prog} {F : GFile} {n : Nat}
    (hv : SimV env file G P F n) (hc : SimC env file G P F n) (hg : SimG env file G P F n)
    (m : Mode) (st : St) (x : String) (v : CExpr) (body : AExpr) (ty : Ty) (Γ : Ctx) (K : KCtx) (ρ : Sem.Env) (w : World)
    (gρ : GEnv) (gw : GWorld) (Bad : List String)
    (hfrag : fragA env file G Γ K (.letE x v body ty) = true) (hrel : EnvRel env η Γ ρ gρ) (hkrel : KRel K ρ) (hw : WRel env η w gw)
    (hinv : GInv Bad (compileA env m st (.letE x v body ty)).1 gρ) (hus : "_" ∈ Bad) (hfx : FCtx env file G Bad η)
    (hcal : ∀ c, c ∈ calleesA (Γ.map (·.1)) (.letE x v body ty) → c ∈ Bad) :
    match Sem.eval n P ρ w v.toExpr with
    | .ok vv w1 => ∃ η1, η.le η1 ∧ ∃ env1 gv gw1, BlockS F gρ gw (letPrefix env st x v) (.ok (env1, .normal) gw1) ∧ WRel env η1 w1 gw1 ∧
        lookupG env1 (vn x) = some gv ∧ VRel env η1 vv v.annTy gv
    | .fail (.panic k) w1 => ∀ rest, ∃ η1, η.le η1 ∧ ∃ gw1, BlockS F gρ gw (letPrefix env st x v ++ rest) (.fail (.panic k) gw1) ∧ WRel env η1 w1 gw1
    | _ => True := by
  simp only [fragA, Bool.and_eq_true] at hfrag
  obtain ⟨hfv, hfb⟩ := hfrag
  have hcalv : ∀ c, c ∈ calleesC (Γ.map (·.1)) v → c ∈ Bad := fun c hc' => hcal c (by simp [calleesA, hc'])
  have hsc := fragC_scalar hfv
  rw [compileA_let] at hinv
  have hinvP := hinv.left
  by_cases hctl : isCtl v = true
  · simp only [letPrefix, hctl, if_true] at hinvP ⊢
    rw [show cexprTy env v = goTy v.annTy by simp [cexprTy, cexprTastTy_frag hfv]] at hinvP ⊢
    generalize hd : compileTail env (.assign (rn x)) (st.check (okTy (cexprTastTy env v))) v = d at hinvP ⊢
    obtain ⟨hfresh, _, hsokd⟩ := hinvP.varDecl
    have hvd : StmtS F gρ gw (.varDecl (vn x) (goTy v.annTy) none) (.ok ((vn x, zero F (goTy v.annTy)) :: gρ, .normal) gw) :=
      stmt_varDecl_none (flat_not_absurd hsc)
    have hne : ∀ y ty, lookupTy Γ y = some ty → vn y ≠ vn x := fun y ty hy e => by
      obtain ⟨_, _, _, h2, _, _⟩ := hrel.1 y ty hy
      exact hfresh (e ▸ Goml.Dce.key_of_lookup_some h2)
    have hrel1 : EnvRel env η Γ ρ ((vn x, zero F (goTy v.annTy)) :: gρ) :=
      hrel.go_agree (fun y ty hy => Goml.Dce.lookup_cons_ne _ _ (fun e => hne y ty hy e.symm))
    have hinvd : GInv Bad d.1 ((vn x, zero F (goTy v.annTy)) :: gρ) := hinvP.after_varDecl _
    have htgtd : TgtOK (.assign (rn x)) Γ ((vn x, zero F (goTy v.annTy)) :: gρ) v.annTy := by
      refine ⟨by rw [← vn_def]; simp, fun y ty hy => ?_⟩
      rw [← vn_def]; exact hne y ty hy
    have hD := hc (.assign (rn x)) _ v η Γ K ρ w _ gw Bad hfv hrel1 hkrel hw (hd ▸ hinvd) htgtd hus hfx hcalv
    rw [hd] at hD
    revert hD
    cases hres : Sem.eval n P ρ w v.toExpr with
    | ok vv w1 =>
      rintro ⟨η1, hle1, D1, gv, gw1, hb, h3, h4, h5, hD1⟩
      have hup : post (.assign (rn x)) ((vn x, zero F (goTy v.annTy)) :: gρ) gv = (vn x, gv) :: gρ := by
        simp only [post]; rw [← vn_def]; exact update_cons_self _ _ _ _
      rw [hup] at hb
      have hxD1 : ¬ vn x ∈ Goml.Dce.keys D1 := fun h =>
        (sokB_top d.1 _ hsokd _ (hD1 _ h)).2 List.mem_cons_self
      exact ⟨η1, hle1, _, gv, gw1, block_cons hvd hb, h5, by rw [lookup_append_right hxD1]; exact Goml.Dce.lookup_cons_self _ _ _, h3⟩
    | fail fl w1 =>
      cases fl with
      | panic k =>
        rintro ⟨η1, hle1, gw1, hb, h5⟩
        intro rest
        exact ⟨η1, hle1, gw1, block_cons hvd (block_append_panic (b := rest) hb), h5⟩
      | fuel => intro _; trivial
      | stuck s => intro _; trivial
  · have hctl' : isCtl v = false := by simpa using hctl
    by_cases hgoc : isGoC v = false
    rotate_left
    · cases v <;> simp [isGoC] at hgoc
      rename_i e ty'
      have hty : ty' = .unit := by
        simp only [fragC, goOK] at hfv
        cases hety : e.ty <;> rw [hety] at hfv <;> try (cases hfv; done)
        simp only [Bool.and_eq_true] at hfv
        exact scalarEq_eq hfv.1.2
      subst hty
      simp only [letPrefix, isCtl, Bool.false_eq_true, if_false, compileBindSimple] at hinvP ⊢
      have hG := hg e .unit η Γ K ρ w gρ gw Bad hfv hrel hw hinvP.goodK hfx hcalv
      revert hG
      cases hres : Sem.eval n P ρ w (CExpr.go e .unit).toExpr with
      | ok vv w1 =>
        rintro ⟨rfl, η1, hle1, gw1, hs, h5⟩
        have hvd : StmtS F gρ gw1 (.varDecl (vn x) .unit (some unitE)) (.ok ((vn x, .unit) :: gρ, .normal) gw1) :=
          stmt_varDecl_some (by simp [absurdTy]) ev_unitv
        exact ⟨η1, hle1, _, .unit, gw1, block_cons hs (block_cons hvd block_nil), h5, Goml.Dce.lookup_cons_self _ _ _, by simp [VRel]⟩
      | fail fl w1 =>
        cases fl with
        | panic k =>
          rintro ⟨η1, hle1, gw1, hs, h5⟩
          intro rest
          exact ⟨η1, hle1, gw1, block_cons_fail hs, h5⟩
        | fuel => intro _; trivial
        | stuck s => intro _; trivial
    simp only [letPrefix, hctl', Bool.false_eq_true, if_false, bindSimple_shape x hfv hgoc] at hinvP ⊢
    have hV := hv v η Γ K ρ w gρ gw Bad hctl' hgoc hfv hrel hkrel hw hinvP.goodK hfx hcalv
    revert hV
    cases hres : Sem.eval n P ρ w v.toExpr with
    | ok vv w1 =>
      rintro ⟨η1, hle1, gv, gw1, he, h3, h4, h5, _⟩
      exact ⟨η1, hle1, _, gv, gw1, block_cons (stmt_varDecl_some (flat_not_absurd hsc) he) block_nil, h5,
        Goml.Dce.lookup_cons_self _ _ _, h3⟩
    | fail fl w1 =>
      cases fl with
      | panic k =>
        rintro ⟨η1, hle1, gw1, he, h5, _⟩
        intro rest
        exact ⟨η1, hle1, gw1, block_cons_fail (stmt_varDecl_fail (flat_not_absurd hsc) he), h5⟩
      | fuel => intro _; trivial
      | stuck s => intro _; trivial

end Goml.GoComp
