import GomlVerif.Lemmas.GoCompStepM
/-! statement-level steps of the simulation: builtin calls, tail expressions, `let`, loops -/
set_option linter.unusedSimpArgs false
set_option linter.unusedVariables false
namespace Goml.GoComp
open Goml Goml.Go Goml.GoCompile Goml.GoFrag
open Goml.Sem (Val World Res Fail)
open Goml.C01 (toG)
open Goml.Dce (keys lookup_cons_self lookup_cons_ne lookup_none_of_not_key key_of_lookup_some
  keys_update lookup_update_ne lookup_update_self update_not_key)

attribute [local irreducible] Goml.GoCompile.vn Goml.GoCompile.gid Goml.GoCompile.rn

theorem stepB {env : Env} {file : AFile} {G : List String} {P : Prog} {F : GFile} (hl : Link env file G P F) (n : Nat) :
    SimB env P F (n + 1) := by
  intro b ps r hb hsig η vs gvs w gw hargs hw
  obtain ⟨v, w', gv, gw', hs, hc, h3, h4, h5⟩ := builtin_call hl.rt hb hsig hargs hw
  rw [Sem.apply]; simp only [hl.builtinSrc b hb, hs]
  exact ⟨η, η.le_refl, gv, gw', hc, h3, h4, h5⟩

theorem sim0 {env : Env} {file : AFile} {G : List String} {P : Prog} {F : GFile} : SimAt env file G P F 0 := by
  refine ⟨?_, ?_, ?_, ?_, ?_, ?_, ?_, ?_, ?_, ?_⟩
  · intro g _ _ η vs gvs w gw _ _ _ _; rw [Sem.apply]; trivial
  · intro b ps r _ _ η vs gvs w gw _ _; rw [Sem.apply]; trivial
  · intro c η Γ K ρ w gρ gw Bad _ _ _ _ _ _ _ _ _; rw [Sem.eval]; trivial
  · intro m st e η Γ K ρ w gρ gw Bad _ _ _ _ _ _ _ _ _; rw [Sem.eval]; trivial
  · intro m st c η Γ K ρ w gρ gw Bad _ _ _ _ _ _ _ _ _; rw [Sem.eval]; trivial
  · intro cv st c b η Γ K ρ w gρ gw Bad _ _ _ _ _ _ _ _ _ _ _ _; rw [Sem.eval]; trivial
  · intro m st arms d ty η Γ K ρ w gρ gw Bad x en i vs gv _ _ _ _ _ _ _ _ _ _ _ _ _; rw [Sem.evalArms.eq_def]; trivial
  · intro m st arms d ty sty η Γ K ρ w gρ gw Bad v gv _ _ _ _ _ _ _ _ _ _ _ _ _; rw [Sem.evalArms.eq_def]; trivial
  · intro m st arms d ty η Γ K ρ w gρ gw Bad _ _ _ _ _ _ _ _ _; rw [Sem.evalArms.eq_def]; trivial
  · intro e ty η Γ K ρ w gρ gw Bad _ _ _ _ _ _; simp only [CExpr.toExpr]; rw [Sem.eval]; trivial

/-! ### tail expressions -/

theorem block_single {F ρ w s r} (h : StmtS F ρ w s r) (hr : ∀ ρ' sig w', r = .ok (ρ', sig) w' → sig = .normal) :
    BlockS F ρ w [s] r := by
  cases r with
  | fail f w' => exact block_cons_fail h
  | ok p w' =>
    obtain ⟨ρ', sig⟩ := p
    have := hr ρ' sig w' rfl; subst this
    exact block_cons h block_nil

theorem EvS.unique {F ρ w e r1 r2} (h1 : EvS F ρ w e r1) (h2 : EvS F ρ w e r2) : r1 = r2 := by
  obtain ⟨m1, h1⟩ := h1
  obtain ⟨m2, h2⟩ := h2
  rw [← h1 (max m1 m2) (by omega), ← h2 (max m1 m2) (by omega)]

theorem compileTail_simple (env : Env) (m : Mode) (st : St) {c : CExpr} (h : isCtl c = false) :
    (compileTail env m st c).1 = compileSimple env m c := by
  cases c <;> simp [isCtl] at h <;> rfl

theorem unOK_not_unit (op : UnOp) (te : Ty) : unOK op te .unit = false := by
  cases op <;> cases te <;> simp [unOK, intTy, scalarEq]

theorem binOK_not_unit (op : BinOp) (tl tr : Ty) : binOK op tl tr .unit = false := by
  cases op <;> cases tl <;> simp [binOK, binDom, binResTy, scalarEq, scalarTy]

theorem not_missing {env : Env} {file : AFile} {G : List String} {Γ : Ctx} {f : Imm} {args : List Imm} {ty : Ty}
    (h : callOK env file G Γ f args ty = true) : isMissingCall f ty = false := by
  cases f with
  | var name fty =>
    simp only [callOK, Bool.and_eq_true, Bool.not_eq_true', beq_iff_eq] at h
    obtain ⟨⟨⟨⟨⟨_, hrn⟩, hsp⟩, _⟩, _⟩, _⟩ := h
    simp only [specialCallees, List.contains_cons, List.contains_nil, Bool.or_false, Bool.or_eq_false_iff, beq_eq_false_iff_ne] at hsp
    simp [isMissingCall, callee, hrn, hsp.2.2.2.2.2.2.2.2.2]
  | prim p t => simp [callOK] at h
  | tag i t => simp [callOK] at h

/-- the same for a call of the fragment, ordinary or of a reference / array builtin -/
theorem not_missing' {env : Env} {file : AFile} {G : List String} {Γ : Ctx} {f : Imm} {args : List Imm} {ty : Ty}
    (h : (callOK env file G Γ f args ty || refCallOK env file G Γ f args ty || arrCallOK env file G Γ f args ty ||
      localCallOK env file G Γ f args ty || vecCallOK env file G Γ f args ty) = true) :
    isMissingCall f ty = false := by
  simp only [Bool.or_eq_true] at h
  rcases h with (((h | h) | h) | h) | h
  rotate_left 4
  · -- a `Vec` builtin
    cases f with
    | var name fty =>
      simp only [vecCallOK, Bool.and_eq_true, beq_iff_eq] at h
      obtain ⟨⟨_, hrn⟩, hcase⟩ := h
      by_cases h1 : name = "vec_new"
      · subst h1; simp [isMissingCall, callee, hrn]
      · rw [if_neg h1] at hcase
        by_cases h2 : name = "vec_push"
        · subst h2; simp [isMissingCall, callee, hrn]
        · rw [if_neg h2] at hcase
          by_cases h3 : name = "vec_get"
          · subst h3; simp [isMissingCall, callee, hrn]
          · rw [if_neg h3] at hcase
            by_cases h4 : name = "vec_len"
            · subst h4; simp [isMissingCall, callee, hrn]
            · rw [if_neg h4] at hcase; cases hcase
    | prim p t => simp [vecCallOK] at h
    | tag i t => simp [vecCallOK] at h
  rotate_left 3
  · -- a call through a local
    cases f with
    | var x fty =>
      simp only [localCallOK] at h
      cases hlk : lookupTy Γ x with
      | none => rw [hlk] at h; cases h
      | some t =>
        rw [hlk] at h
        cases t <;> simp only at h <;> try (cases h; done)
        simp only [Bool.and_eq_true, Bool.not_eq_true'] at h
        obtain ⟨⟨⟨⟨_, hsp⟩, _⟩, _⟩, _⟩ := h
        simp only [specialCallees, List.contains_cons, List.contains_nil, Bool.or_false, Bool.or_eq_false_iff, beq_eq_false_iff_ne] at hsp
        simp [isMissingCall, callee, hsp.2.2.2.2.2.2.2.2.2]
    | prim p t => simp [localCallOK] at h
    | tag i t => simp [localCallOK] at h
  · exact not_missing h
  · cases f with
    | var name fty =>
      simp only [refCallOK, Bool.and_eq_true, beq_iff_eq] at h
      obtain ⟨⟨_, hrn⟩, hcase⟩ := h
      by_cases h1 : name = "ref"
      · subst h1; simp [isMissingCall, callee, hrn]
      · rw [if_neg h1] at hcase
        by_cases h2 : name = "ref_get"
        · subst h2; simp [isMissingCall, callee, hrn]
        · rw [if_neg h2] at hcase
          by_cases h3 : name = "ref_set"
          · subst h3; simp [isMissingCall, callee, hrn]
          · rw [if_neg h3] at hcase; cases hcase
    | prim p t => simp [refCallOK] at h
    | tag i t => simp [refCallOK] at h
  · cases f with
    | var name fty =>
      obtain ⟨hrn, hn | hn⟩ := arrcall_name h <;> subst hn <;> simp [isMissingCall, callee, hrn]
    | prim p t => simp [arrCallOK] at h
    | tag i t => simp [arrCallOK] at h

theorem gid_ne_blank {Bad : List String} {gρ : GEnv} {t : String} (hk : gid t ∈ keys gρ)
    (hgood : ∀ y, y ∈ keys gρ → ¬ y ∈ Bad) (hus : "_" ∈ Bad) : gid t ≠ "_" :=
  fun e => hgood _ hk (e ▸ hus)

/-- the simple forms in tail position: nothing / a call statement / an assignment -/
theorem tail_simple {env : Env} {η : Hp} {file : AFile} {G : List String} {P : Prog} {F : GFile} {n : Nat}
    (hv : SimV env file G P F (n + 1)) (m : Mode) (st : St) (c : CExpr) (Γ : Ctx) (K : KCtx) (ρ : Sem.Env) (w : World)
    (gρ : GEnv) (gw : GWorld) (Bad : List String) (hctl : isCtl c = false) (hgoc : isGoC c = false)
    (hfrag : fragC env file G Γ K c = true) (hrel : EnvRel env η Γ ρ gρ) (hkrel : KRel K ρ) (hw : WRel env η w gw)
    (hgood : ∀ y, y ∈ keys gρ → ¬ y ∈ Bad) (htgt : TgtOK m Γ gρ c.annTy) (hus : "_" ∈ Bad) (hfx : FCtx env file G Bad η)
    (hcal : ∀ x, x ∈ calleesC (Γ.map (·.1)) c → x ∈ Bad) :
    Concl env η F (compileSimple env m c) m gρ gw c.annTy (Sem.eval (n + 1) P ρ w c.toExpr) := by
  have hV := hv c η Γ K ρ w gρ gw Bad hctl hgoc hfrag hrel hkrel hw hgood hfx hcal
  cases m with
  | assign t =>
    obtain ⟨htk, _⟩ := htgt
    have hne := gid_ne_blank htk hgood hus
    have hshape : compileSimple env (.assign t) c = [.assign (gid t) (compileCExpr env c)] := by
      cases c <;> simp [isCtl] at hctl <;> (try (simp [fragC] at hfrag; done)) <;> (try (simp [isGoC] at hgoc; done)) <;>
        simp only [compileSimple]
      rename_i f args ty
      simp only [fragC] at hfrag
      simp [not_missing' hfrag]
    rw [hshape]
    revert hV
    cases hres : Sem.eval (n + 1) P ρ w c.toExpr with
    | ok v w' =>
      rintro ⟨η1, hle1, gv, gw', he, h3, h4, h5, _⟩
      exact ⟨η1, hle1, [], gv, gw', block_single (stmt_assign hne he) (fun _ _ _ h => by injection h with h; injection h with _ h; exact h.symm),
        h3, h4, h5, fun y hy => by cases hy⟩
    | fail fl w' =>
      cases fl with
      | panic k =>
        rintro ⟨η1, hle1, gw', he, h5, _⟩
        exact ⟨η1, hle1, gw', block_single (stmt_assign_fail he) (fun _ _ _ h => by cases h), h5⟩
      | fuel => intro _; trivial
      | stuck s => intro _; trivial
  | effect =>
    have hunit : c.annTy = .unit := htgt
    by_cases hp : pureC c = true
    · -- a pure form compiled for its effect: no statement, and the `Sem` world does not change
      have hshape : compileSimple env .effect c = [] := by
        cases c <;> simp [pureC] at hp <;> rfl
      rw [hshape]
      revert hV
      cases hres : Sem.eval (n + 1) P ρ w c.toExpr with
      | ok v w' =>
        rintro ⟨η1, hle1, gv, gw', he, h3, h4, h5, hpw⟩
        obtain ⟨hw1, hη1⟩ := hpw hp
        subst hw1; subst hη1
        exact ⟨η1, hle1, [], gv, gw, block_nil, h3, h4, hw, fun y hy => by cases hy⟩
      | fail fl w' =>
        cases fl with
        | panic k =>
          rintro ⟨η1, hle1, gw', he, h5, hmp⟩
          -- only a binary operator is pure and can panic; none has type unit
          cases c <;> simp [pureC] at hp <;> simp [mayPanicC] at hmp
          rename_i op l r ty
          simp only [fragC, Bool.and_eq_true, CExpr.annTy] at hfrag hunit
          rw [hunit, binOK_not_unit] at hfrag; simp at hfrag
        | fuel => intro _; trivial
        | stuck s => intro _; trivial
    · cases c with
      | call f args ty =>
        simp only [compileSimple]
        revert hV
        cases hres : Sem.eval (n + 1) P ρ w (CExpr.call f args ty).toExpr with
        | ok v w' =>
          rintro ⟨η1, hle1, gv, gw', he, h3, h4, h5, _⟩
          exact ⟨η1, hle1, [], gv, gw', block_single (stmt_expr he) (fun _ _ _ h => by injection h with h; injection h with _ h; exact h.symm),
            h3, h4, h5, fun y hy => by cases hy⟩
        | fail fl w' =>
          cases fl with
          | panic k =>
            rintro ⟨η1, hle1, gw', he, h5, _⟩
            exact ⟨η1, hle1, gw', block_single (stmt_expr_fail he) (fun _ _ _ h => by cases h), h5⟩
          | fuel => intro _; trivial
          | stuck s => intro _; trivial
      | ite c t e ty => simp [isCtl] at hctl
      | «while» c b ty => simp [isCtl] at hctl
      | matchE s arms d ty => simp [isCtl] at hctl
      | toDyn tr forTy e ty =>
        exfalso
        simp only [fragC, toDynOK, Bool.and_eq_true, CExpr.annTy] at hfrag hunit
        have := scalarEq_eq hfrag.1.2
        rw [hunit] at this; cases this
      | dynCall tr m recv args ty =>
        simp only [compileSimple]
        revert hV
        cases hres : Sem.eval (n + 1) P ρ w (CExpr.dynCall tr m recv args ty).toExpr with
        | ok v w' =>
          rintro ⟨η1, hle1, gv, gw', he, h3, h4, h5, _⟩
          exact ⟨η1, hle1, [], gv, gw', block_single (stmt_expr he) (fun _ _ _ h => by injection h with h; injection h with _ h; exact h.symm),
            h3, h4, h5, fun y hy => by cases hy⟩
        | fail fl w' =>
          cases fl with
          | panic k =>
            rintro ⟨η1, hle1, gw', he, h5, _⟩
            exact ⟨η1, hle1, gw', block_single (stmt_expr_fail he) (fun _ _ _ h => by cases h), h5⟩
          | fuel => intro _; trivial
          | stuck s => intro _; trivial
      | go e ty => simp [isGoC] at hgoc
      | imm i => simp [pureC] at hp
      | un op e ty => simp [pureC] at hp
      | bin op l r ty => simp [pureC] at hp
      | constr c args ty => simp [pureC] at hp
      | tuple items ty => simp [pureC] at hp
      | array items ty => simp [pureC] at hp
      | cget e c idx ty => simp [pureC] at hp
      | proj e idx ty => simp [pureC] at hp

/-! ### `if` -/

/-- a statement that runs `S` as a nested block inherits the conclusion about `S` -/
theorem concl_of_nest {env : Env} {η : Hp} {F : GFile} {S : List GStmt} {m : Mode} {gρ : GEnv} {gw : GWorld} {ty : Ty} {r : Res Val}
    {s : GStmt} (h : Concl env η F S m gρ gw ty r) (hs : ∀ r0, NestS F gρ gw S r0 → StmtS F gρ gw s r0) :
    Concl env η F [s] m gρ gw ty r := by
  cases r with
  | ok v w' =>
    obtain ⟨η1, hle1, D, gv, gw', hb, h3, h4, h5, _⟩ := h
    have hn := hs _ (nest_of_block hb)
    simp only [popTo, pop_append D _ gρ (length_post m gρ gv)] at hn
    exact ⟨η1, hle1, [], gv, gw', block_cons hn block_nil, h3, h4, h5, fun y hy => by cases hy⟩
  | fail fl w' =>
    cases fl with
    | panic k =>
      obtain ⟨η1, hle1, gw', hb, h5⟩ := h
      have hn := hs _ (nest_of_block hb)
      exact ⟨η1, hle1, gw', block_cons_fail hn, h5⟩
    | fuel => trivial
    | stuck s => trivial

theorem compileGo_isGo (env : Env) (e : Imm) : ∃ X, compileGo env e = .go X := by
  unfold compileGo; split <;> exact ⟨_, rfl⟩

/-- `go e` in tail position: the `go` statement (and the assignment of unit to the target) -/
theorem tail_go {env : Env} {η : Hp} {file : AFile} {G : List String} {P : Prog} {F : GFile} {n : Nat}
    (hg : SimG env file G P F (n + 1)) (m : Mode) (e : Imm) (ty : Ty) (Γ : Ctx) (K : KCtx) (ρ : Sem.Env) (w : World)
    (gρ : GEnv) (gw : GWorld) (Bad : List String)
    (hfrag : fragC env file G Γ K (.go e ty) = true) (hrel : EnvRel env η Γ ρ gρ) (hw : WRel env η w gw)
    (hgood : ∀ y, y ∈ keys gρ → ¬ y ∈ Bad) (htgt : TgtOK m Γ gρ ty) (hus : "_" ∈ Bad) (hfx : FCtx env file G Bad η)
    (hcal : ∀ x, x ∈ calleesC (Γ.map (·.1)) (.go e ty) → x ∈ Bad) :
    Concl env η F (compileSimple env m (.go e ty)) m gρ gw ty (Sem.eval (n + 1) P ρ w (CExpr.go e ty).toExpr) := by
  have hG := hg e ty η Γ K ρ w gρ gw Bad hfrag hrel hw hgood hfx hcal
  have hty : ty = .unit := by
    simp only [fragC, goOK] at hfrag
    cases hety : e.ty <;> rw [hety] at hfrag <;> try (cases hfrag; done)
    simp only [Bool.and_eq_true] at hfrag
    exact scalarEq_eq hfrag.1.2
  subst hty
  obtain ⟨X, hX⟩ := compileGo_isGo env e
  cases m with
  | effect =>
    simp only [compileSimple]
    revert hG
    cases hres : Sem.eval (n + 1) P ρ w (CExpr.go e .unit).toExpr with
    | ok v w' =>
      rintro ⟨rfl, η1, hle1, gw', hs, h5⟩
      exact ⟨η1, hle1, [], .unit, gw', block_single hs (fun _ _ _ h => by injection h with h; injection h with _ h; exact h.symm),
        by simp [VRel], trivial, h5, fun y hy => by cases hy⟩
    | fail fl w' =>
      cases fl with
      | panic k =>
        rintro ⟨η1, hle1, gw', hs, h5⟩
        exact ⟨η1, hle1, gw', block_single hs (fun _ _ _ h => by cases h), h5⟩
      | fuel => intro _; trivial
      | stuck s => intro _; trivial
  | assign t =>
    obtain ⟨htk, _⟩ := htgt
    have hne := gid_ne_blank htk hgood hus
    simp only [compileSimple]
    revert hG
    cases hres : Sem.eval (n + 1) P ρ w (CExpr.go e .unit).toExpr with
    | ok v w' =>
      rintro ⟨rfl, η1, hle1, gw', hs, h5⟩
      have hasg : StmtS F gρ gw' (.assign (gid t) unitE) (.ok (updateG gρ (gid t) .unit, .normal) gw') :=
        stmt_assign hne ev_unitv
      exact ⟨η1, hle1, [], .unit, gw', block_cons hs (block_cons hasg block_nil),
        by simp [VRel], trivial, h5, fun y hy => by cases hy⟩
    | fail fl w' =>
      cases fl with
      | panic k =>
        rintro ⟨η1, hle1, gw', hs, h5⟩
        exact ⟨η1, hle1, gw', block_cons_fail hs, h5⟩
      | fuel => intro _; trivial
      | stuck s => intro _; trivial

theorem tail_ite {env : Env} {η : Hp} {file : AFile} {G : List String} {P : Prog} {F : GFile} {n : Nat}
    (hl : Link env file G P F) (ha : SimA env file G P F n) (m : Mode) (st : St) (c : Imm) (t e : AExpr) (ty : Ty) (Γ : Ctx) (K : KCtx) (ρ : Sem.Env)
    (w : World) (gρ : GEnv) (gw : GWorld) (Bad : List String)
    (hfrag : fragC env file G Γ K (.ite c t e ty) = true) (hrel : EnvRel env η Γ ρ gρ) (hkrel : KRel K ρ) (hw : WRel env η w gw)
    (hinv : GInv Bad (compileTail env m st (.ite c t e ty)).1 gρ) (htgt : TgtOK m Γ gρ ty) (hus : "_" ∈ Bad) (hfx : FCtx env file G Bad η)
    (hcal : ∀ x, x ∈ calleesC (Γ.map (·.1)) (.ite c t e ty) → x ∈ Bad) :
    Concl env η F (compileTail env m st (.ite c t e ty)).1 m gρ gw ty (Sem.eval (n + 1) P ρ w (CExpr.ite c t e ty).toExpr) := by
  simp only [fragC, Bool.and_eq_true] at hfrag
  obtain ⟨⟨⟨⟨⟨hc, hcb⟩, hft⟩, hfe⟩, htt⟩, hte⟩ := hfrag
  have htt' := scalarEq_eq htt
  have hte' := scalarEq_eq hte
  have hcb' := scalarEq_eq hcb
  obtain ⟨v, gv, hs, hg, h3, h4⟩ := imm_both P hl.ty hc hrel (hfx.rel hinv.goodK)
  rw [hcb'] at h4
  obtain ⟨b, rfl⟩ := hasTy_bool h4
  have := toG_bool h3; subst this
  simp only [compileTail] at hinv ⊢
  simp only [CExpr.toExpr]
  rw [Sem.eval]
  rcases sem_imm_any hs (w := w) n with h1 | h1
  · rw [h1]; trivial
  · rw [h1]
    cases b with
    | true =>
      simp only
      have hinv' : GInv Bad (compileA env m (st.check (okImm env c)) t).1 gρ := hinv.ite.1
      have := ha m _ t η Γ K ρ w gρ gw Bad hft hrel hkrel hw hinv' (htt' ▸ htgt) hus hfx
        (fun x hx => hcal x (by simp [calleesC, hx]))
      rw [htt'] at this
      exact concl_of_nest this (fun r0 hn => stmt_ite_true (hg gw) hn)
    | false =>
      simp only
      have hinv' : GInv Bad (compileA env m (compileA env m (st.check (okImm env c)) t).2 e).1 gρ := hinv.ite.2
      have := ha m _ e η Γ K ρ w gρ gw Bad hfe hrel hkrel hw hinv' (hte' ▸ htgt) hus hfx
        (fun x hx => hcal x (by simp [calleesC, hx]))
      rw [hte'] at this
      exact concl_of_nest this (fun r0 hn => stmt_ite_false (hg gw) hn)

/-! ### `while` in tail position (the loop itself is `SimL`) -/

theorem tail_while_shape (env : Env) (m : Mode) (st : St) (c b : AExpr) (ty : Ty) :
    (compileTail env m st (.while c b ty)).1 =
      [GStmt.varDecl (gid ("cond" ++ toString st.n)) .bool none,
       .loop (loopBody env ("cond" ++ toString st.n) (st.next.check (isBoolTy c.annTy)) c b)] ++
      (match m with
       | .effect => []
       | .assign tgt => [.assign (gid tgt) unitE]) := by
  cases m <;> simp [compileTail, loopBody]

theorem tail_while_decls (x : String) (body : List GStmt) (m : Mode) :
    ndDecls ([GStmt.varDecl x .bool none, .loop body] ++
      (match m with | .effect => [] | .assign tgt => [GStmt.assign (gid tgt) unitE])) = x :: ndDecls body := by
  cases m <;> simp [ndDecls, ndDeclsOf]

theorem tail_while_top (x : String) (body : List GStmt) (m : Mode) :
    topDecls ([GStmt.varDecl x .bool none, .loop body] ++
      (match m with | .effect => [] | .assign tgt => [GStmt.assign (gid tgt) unitE])) = [x] := by
  cases m <;> simp [topDecls]

theorem tail_while {env : Env} {η : Hp} {file : AFile} {G : List String} {P : Prog} {F : GFile} {n : Nat}
    (hL : SimL env file G P F (n + 1)) (m : Mode) (st : St) (c b : AExpr) (ty : Ty) (Γ : Ctx) (K : KCtx) (ρ : Sem.Env)
    (w : World) (gρ : GEnv) (gw : GWorld) (Bad : List String)
    (hfrag : fragC env file G Γ K (.while c b ty) = true) (hrel : EnvRel env η Γ ρ gρ) (hkrel : KRel K ρ) (hw : WRel env η w gw)
    (hinv : GInv Bad (compileTail env m st (.while c b ty)).1 gρ) (htgt : TgtOK m Γ gρ ty) (hus : "_" ∈ Bad) (hfx : FCtx env file G Bad η)
    (hcal : ∀ x, x ∈ calleesC (Γ.map (·.1)) (.while c b ty) → x ∈ Bad) :
    Concl env η F (compileTail env m st (.while c b ty)).1 m gρ gw ty (Sem.eval (n + 1) P ρ w (CExpr.while c b ty).toExpr) := by
  simp only [fragC, Bool.and_eq_true] at hfrag
  obtain ⟨⟨⟨⟨hfc, hcb⟩, hfb⟩, hbu⟩, htu⟩ := hfrag
  have hcb' := scalarEq_eq hcb
  have hbu' := scalarEq_eq hbu
  have htu' := scalarEq_eq htu
  subst htu'
  rw [tail_while_shape] at hinv ⊢
  simp only [CExpr.toExpr]
  generalize hcv : "cond" ++ toString st.n = cv at hinv ⊢
  generalize hst : st.next.check (isBoolTy c.annTy) = st' at hinv ⊢
  -- names
  have hdecl := tail_while_top (gid cv) (loopBody env cv st' c b) m
  have hinvL := hinv.left (a := [GStmt.varDecl (gid cv) .bool none, .loop (loopBody env cv st' c b)])
  obtain ⟨hcvfresh, hcvgood, _⟩ := hinvL.varDecl
  have habs : absurdTy GTy.bool = false := rfl
  have hdecl1 : StmtS F gρ gw (.varDecl (gid cv) .bool none) (.ok ((gid cv, zero F .bool) :: gρ, .normal) gw) :=
    stmt_varDecl_none habs
  let env1 : GEnv := (gid cv, zero F .bool) :: gρ
  have hne : ∀ x tx, lookupTy Γ x = some tx → vn x ≠ gid cv := fun x tx hx e => by
    obtain ⟨_, _, _, h2, _, _⟩ := hrel.1 x tx hx
    exact hcvfresh (e ▸ key_of_lookup_some h2)
  have hrel1 : EnvRel env η Γ ρ env1 := hrel.go_agree (fun x tx hx => lookup_cons_ne _ _ (fun e => hne x tx hx e.symm))
  have hinv1 : GInv Bad (loopBody env cv st' c b) env1 := (hinvL.after_varDecl (zero F .bool)).loop
  have htgt1 : TgtOK (.assign cv) Γ env1 .bool := ⟨by simp [env1], hne⟩
  have hloop := hL cv st' c b η Γ K ρ w env1 gw Bad hfc hcb' hfb hbu' hrel1 hkrel hw hinv1 htgt1 hus hfx
    (fun x hx => hcal x (by simpa [calleesC] using hx))
  revert hloop
  cases hres : Sem.eval (n + 1) P ρ w (.while c.toExpr b.toExpr) with
  | ok v w' =>
    rintro ⟨rfl, η1, hle1, gw', hlp, h5⟩
    rw [show updateG env1 (gid cv) (.bool false) = (gid cv, .bool false) :: gρ from update_cons_self _ _ _ _] at hlp
    cases m with
    | effect =>
      refine ⟨η1, hle1, [(gid cv, .bool false)], .unit, gw', ?_, rfl, trivial, h5, fun y hy => ?_⟩
      · exact block_cons hdecl1 (block_cons hlp block_nil)
      · simp only [Goml.Dce.keys_cons, Goml.Dce.keys_nil, List.mem_singleton] at hy
        subst hy; rw [hdecl]; exact List.mem_cons_self
    | assign t =>
      obtain ⟨htk, _⟩ := htgt
      have hne' : gid t ≠ "_" := gid_ne_blank htk hinv.goodK hus
      have hnecv : ¬ gid t ∈ keys [(gid cv, GVal.bool false)] := by
        simp only [Goml.Dce.keys_cons, Goml.Dce.keys_nil, List.mem_singleton]
        intro e; exact hcvfresh (e ▸ htk)
      have hasg : StmtS F ((gid cv, .bool false) :: gρ) gw' (.assign (gid t) unitE)
          (.ok (updateG ((gid cv, .bool false) :: gρ) (gid t) .unit, .normal) gw') := stmt_assign hne' ev_unitv
      rw [show ((gid cv, GVal.bool false) :: gρ) = [(gid cv, GVal.bool false)] ++ gρ from rfl,
        update_append_left hnecv] at hasg
      refine ⟨η1, hle1, [(gid cv, .bool false)], .unit, gw', ?_, rfl, trivial, h5, fun y hy => ?_⟩
      · exact block_cons hdecl1 (block_cons hlp (block_cons hasg block_nil))
      · simp only [Goml.Dce.keys_cons, Goml.Dce.keys_nil, List.mem_singleton] at hy
        subst hy; rw [hdecl]; exact List.mem_cons_self
  | fail fl w' =>
    cases fl with
    | panic k =>
      rintro ⟨η1, hle1, gw', hlp, h5⟩
      exact ⟨η1, hle1, gw', block_cons hdecl1 (block_cons_fail hlp), h5⟩
    | fuel => intro _; trivial
    | stuck s => intro _; trivial

/-! ### `match` -/

/-- a `switch` statement inherits the conclusion about its selected clause -/
theorem concl_of_sw {env : Env} {η : Hp} {F : GFile} {s : GStmt} {m : Mode} {gρ : GEnv} {gw : GWorld} {ty : Ty} {res : Res Val}
    {run : GRes (GEnv × Sig) → Prop} (h : ConclSw env η run m gρ ty res) (hs : ∀ r, run r → StmtS F gρ gw s r) :
    Concl env η F [s] m gρ gw ty res := by
  cases res with
  | ok v w' =>
    obtain ⟨η1, hle1, gv, gw', hr, h3, h4, h5⟩ := h
    exact ⟨η1, hle1, [], gv, gw', block_cons (hs _ hr) block_nil, h3, h4, h5, fun y hy => by cases hy⟩
  | fail fl w' =>
    cases fl with
    | panic k =>
      obtain ⟨η1, hle1, gw', hr, h5⟩ := h
      exact ⟨η1, hle1, gw', block_cons_fail (hs _ hr), h5⟩
    | fuel => trivial
    | stuck s => trivial

theorem post_cons_ne {m : Mode} {b : String} (sv : GVal) (gρ : GEnv) (gv : GVal) (h : ∀ t, m = .assign t → b ≠ gid t) :
    post m ((b, sv) :: gρ) gv = (b, sv) :: post m gρ gv := by
  cases m with
  | effect => rfl
  | assign t =>
    have hb : (b == gid t) = false := by simpa using h t rfl
    show (if b == gid t then _ else _) = _
    rw [hb]; rfl

/-- a type switch inherits the conclusion about its selected clause; the binding is popped -/
theorem concl_of_tsw {env : Env} {η : Hp} {F : GFile} {b : String} {e : GExpr} {cs : List GTCase} {d : Option (List GStmt)} {sv : GVal}
    {m : Mode} {gρ : GEnv} {gw : GWorld} {ty : Ty} {res : Res Val}
    (h : ConclSw env η (TSwS F ((b, sv) :: gρ) gw sv cs d) m ((b, sv) :: gρ) ty res) (hb : b ≠ "_")
    (he : EvS F gρ gw e (.ok sv gw)) (hbt : ∀ t, m = .assign t → b ≠ gid t) :
    Concl env η F [.tswitch (some b) e cs d] m gρ gw ty res := by
  cases res with
  | ok v w' =>
    obtain ⟨η1, hle1, gv, gw', hr, h3, h4, h5⟩ := h
    have hst := stmt_tswitch hb he hr
    rw [post_cons_ne sv gρ gv hbt] at hst
    have hdrop : ((b, sv) :: post m gρ gv).drop (((b, sv) :: post m gρ gv).length - gρ.length) = post m gρ gv := by
      have : ((b, sv) :: post m gρ gv).length - gρ.length = 1 := by simp [length_post]
      rw [this]; rfl
    simp only [popTo, hdrop] at hst
    exact ⟨η1, hle1, [], gv, gw', block_cons hst block_nil, h3, h4, h5, fun y hy => by cases hy⟩
  | fail fl w' =>
    cases fl with
    | panic k =>
      obtain ⟨η1, hle1, gw', hr, h5⟩ := h
      exact ⟨η1, hle1, gw', block_cons_fail (stmt_tswitch hb he hr), h5⟩
    | fuel => trivial
    | stuck s => trivial

theorem tail_match {env : Env} {η : Hp} {file : AFile} {G : List String} {P : Prog} {F : GFile} {n : Nat}
    (hl : Link env file G P F) (hme : SimME env file G P F n) (hmv : SimMV env file G P F n) (hmu : SimMU env file G P F n)
    (m : Mode) (st : St) (s : Imm) (arms : List AArm) (d : ADflt) (ty : Ty) (Γ : Ctx) (K : KCtx) (ρ : Sem.Env)
    (w : World) (gρ : GEnv) (gw : GWorld) (Bad : List String)
    (hfrag : fragC env file G Γ K (.matchE s arms d ty) = true) (hrel : EnvRel env η Γ ρ gρ) (hkrel : KRel K ρ) (hw : WRel env η w gw)
    (hinv : GInv Bad (compileTail env m st (.matchE s arms d ty)).1 gρ) (htgt : TgtOK m Γ gρ ty) (hus : "_" ∈ Bad) (hfx : FCtx env file G Bad η)
    (hcal : ∀ x, x ∈ calleesC (Γ.map (·.1)) (.matchE s arms d ty) → x ∈ Bad) :
    Concl env η F (compileTail env m st (.matchE s arms d ty)).1 m gρ gw ty
      (Sem.eval (n + 1) P ρ w (CExpr.matchE s arms d ty).toExpr) := by
  simp only [fragC, Bool.and_eq_true] at hfrag
  obtain ⟨⟨hs, hflat⟩, hcase⟩ := hfrag
  obtain ⟨v, gv, hsv, hgs, h3, h4⟩ := imm_both P hl.ty hs hrel (hfx.rel hinv.goodK)
  have hcal' : ∀ c, c ∈ calleesArms (Γ.map (·.1)) arms ++ calleesD (Γ.map (·.1)) d → c ∈ Bad := fun c hc => hcal c (by simpa [calleesC] using hc)
  simp only [CExpr.toExpr]
  rw [Sem.eval]
  rcases sem_imm_any hsv (w := w) n with h1 | h1
  · rw [h1]; trivial
  rw [h1]; simp only
  cases hsty : s.ty with
  | enum en =>
    rw [hsty] at hcase h4; simp only at hcase
    cases s with
    | prim p t => simp at hcase
    | tag idx t => simp at hcase
    | var x xty =>
      simp only [Imm.ty] at hsty; subst hsty
      simp only [Bool.and_eq_true, beq_iff_eq] at hcase
      obtain ⟨⟨⟨hvn, hen⟩, hfa⟩, hfd⟩ := hcase
      -- the scrutinee in both environments
      simp only [immOK] at hs
      cases hlt : lookupTy Γ x with
      | none => rw [hlt] at hs; simp [fnValOK] at hs
      | some t =>
        rw [hlt] at hs; simp only at hs
        have := scalarEq_eq hs; subst this
        obtain ⟨v', gv', hlk, hlg, h3', h4'⟩ := hrel.1 x _ hlt
        have h0 := hsv 0 w
        simp only [Imm.toExpr] at h0
        rw [Sem.eval] at h0; simp only [hlk] at h0
        injection h0 with h0; subst h0
        have hgeq : gv = gv' := by
          have h1 : EvS F gρ gw (.var (vn x) (goTy (.enum en))) (.ok gv' gw) := ev_var_some hlg
          have h2 := hgs gw
          simp only [compileImm] at h2
          have := EvS.unique h2 h1
          injection this with this
        subst hgeq
        cases v' <;> simp only [HasTy] at h4 <;> try exact h4.elim
        rename_i en' i vs
        have hen' : en' = en := h4.1
        subst hen'
        have h4'' : HasTy env η (.enumV en' i vs) (.enum en') := by simp only [HasTy]; exact ⟨trivial, h4.2⟩
        -- the statement
        have hshape : (compileTail env m st (.matchE (.var x (.enum en')) arms d ty)).1 =
            [.tswitch (some (rn x)) (.var (vn x) (goTy (.enum en')))
              (typeCases env (compileArms env m (st.check (okImm env (.var x (.enum en')))) arms).1)
              (compileDflt env m (compileArms env m (st.check (okImm env (.var x (.enum en')))) arms).2 d).1] := by
          simp only [compileTail, Imm.ty, matchKind, compileImm]
        rw [hshape] at hinv ⊢
        generalize hst1 : st.check (okImm env (.var x (.enum en'))) = st1 at hinv ⊢
        rw [← hvn] at hinv ⊢
        have hxk : vn x ∈ keys gρ := key_of_lookup_some hlg
        have hxb : vn x ≠ "_" := fun e => hinv.goodK _ hxk (e ▸ hus)
        have hrelb : EnvRel env η Γ ρ ((vn x, gv) :: gρ) :=
          hrel.go_agree (fun y ty' hy => lookup_rebind hlg (vn y))
        have hinvb : GInvA Bad (compileArms env m st1 arms).1 (compileDflt env m (compileArms env m st1 arms).2 d).1
            ((vn x, gv) :: gρ) := (ginvA_of_tswitch hinv).rebind hxk gv
        have htgtb : TgtOK m Γ ((vn x, gv) :: gρ) ty := by
          cases m with
          | effect => exact htgt
          | assign t => exact ⟨List.mem_cons_of_mem _ htgt.1, htgt.2⟩
        have hbt : ∀ t, m = .assign t → vn x ≠ gid t := fun t ht => by
          subst ht; exact htgt.2 x _ hlt
        have hR := hme m st1 arms d ty η Γ K ρ w ((vn x, gv) :: gρ) gw Bad x en' i vs gv hfa hfd hrelb hkrel hw hlk h4'' h3
          hinvb htgtb hus hfx hcal'
        exact concl_of_tsw hR hxb (ev_var_some hlg) hbt
  | unit =>
    rw [hsty] at hcase h4; simp only at hcase
    have := hasTy_unit h4; subst this
    have hshape : compileTail env m st (.matchE s arms d ty) = unitStmts env m st arms d := by
      simp only [compileTail, hsty, matchKind, unitStmts]
    rw [hshape] at hinv ⊢
    exact hmu m st arms d ty η Γ K ρ w gρ gw Bad (by simpa [fragUnit] using hcase) hrel hkrel hw hinv htgt hus hfx hcal'
  | bool =>
    rw [hsty] at hcase h4; simp only [Bool.and_eq_true] at hcase
    obtain ⟨⟨hsw, hfa⟩, hfd⟩ := hcase
    have hshape : (compileTail env m st (.matchE s arms d ty)).1 =
        [.switch (compileImm env s) (valueCases (matchKind .bool) (compileArms env m (st.check (okImm env s)) arms).1)
          (compileDflt env m (compileArms env m (st.check (okImm env s)) arms).2 d).1] := by
      simp only [compileTail, hsty, matchKind]
    rw [hshape] at hinv ⊢
    generalize hst1 : st.check (okImm env s) = st1 at hinv ⊢
    have hinv' : GInvA Bad (compileArms env m st1 arms).1 (compileDflt env m (compileArms env m st1 arms).2 d).1 gρ :=
      ginvA_of_switch hinv
    have hR := hmv m st1 arms d ty .bool η Γ K ρ w gρ gw Bad v gv hsw hfa hfd hrel hkrel hw h4 (hsty ▸ h3) hinv' htgt hus hfx hcal'
    exact concl_of_sw hR (fun r hr => stmt_switch (hgs gw) hr)
  | int bits sg =>
    rw [hsty] at hcase h4; simp only [Bool.and_eq_true] at hcase
    obtain ⟨⟨hsw, hfa⟩, hfd⟩ := hcase
    have hshape : (compileTail env m st (.matchE s arms d ty)).1 =
        [.switch (compileImm env s) (valueCases (matchKind (.int bits sg)) (compileArms env m (st.check (okImm env s)) arms).1)
          (compileDflt env m (compileArms env m (st.check (okImm env s)) arms).2 d).1] := by
      simp only [compileTail, hsty, matchKind]
    rw [hshape] at hinv ⊢
    generalize hst1 : st.check (okImm env s) = st1 at hinv ⊢
    have hinv' : GInvA Bad (compileArms env m st1 arms).1 (compileDflt env m (compileArms env m st1 arms).2 d).1 gρ :=
      ginvA_of_switch hinv
    have hR := hmv m st1 arms d ty (.int bits sg) η Γ K ρ w gρ gw Bad v gv hsw hfa hfd hrel hkrel hw h4 (hsty ▸ h3) hinv' htgt hus hfx hcal'
    exact concl_of_sw hR (fun r hr => stmt_switch (hgs gw) hr)
  | string =>
    rw [hsty] at hcase h4; simp only [Bool.and_eq_true] at hcase
    obtain ⟨⟨hsw, hfa⟩, hfd⟩ := hcase
    have hshape : (compileTail env m st (.matchE s arms d ty)).1 =
        [.switch (compileImm env s) (valueCases (matchKind .string) (compileArms env m (st.check (okImm env s)) arms).1)
          (compileDflt env m (compileArms env m (st.check (okImm env s)) arms).2 d).1] := by
      simp only [compileTail, hsty, matchKind]
    rw [hshape] at hinv ⊢
    generalize hst1 : st.check (okImm env s) = st1 at hinv ⊢
    have hinv' : GInvA Bad (compileArms env m st1 arms).1 (compileDflt env m (compileArms env m st1 arms).2 d).1 gρ :=
      ginvA_of_switch hinv
    have hR := hmv m st1 arms d ty .string η Γ K ρ w gρ gw Bad v gv hsw hfa hfd hrel hkrel hw h4 (hsty ▸ h3) hinv' htgt hus hfx hcal'
    exact concl_of_sw hR (fun r hr => stmt_switch (hgs gw) hr)
  | float b => rw [hsty] at hcase; simp [switchTy] at hcase
  | tuple ts => rw [hsty] at hcase; simp [switchTy] at hcase
  | struct sn => rw [hsty] at hcase; simp [switchTy] at hcase
  | dyn tr => rw [hsty] at hcase; simp [switchTy] at hcase
  | app t args => rw [hsty] at hcase; simp [switchTy] at hcase
  | array len e => rw [hsty] at hcase; simp [switchTy] at hcase
  | vec e => rw [hsty] at hcase; simp [switchTy] at hcase
  | ref e => rw [hsty] at hcase; simp [switchTy] at hcase
  | param p => rw [hsty] at hcase; simp [switchTy] at hcase
  | func ps r => rw [hsty] at hcase; simp [switchTy] at hcase
  | tvar k => rw [hsty] at hcase; simp [switchTy] at hcase

/-- tail expressions: `compile_aexpr_effect` / `compile_aexpr_assign` on an `ACExpr` -/
theorem stepC {env : Env} {file : AFile} {G : List String} {P : Prog} {F : GFile} {n : Nat} (hl : Link env file G P F)
    (hv : SimV env file G P F (n + 1)) (ha : SimA env file G P F n) (hL : SimL env file G P F (n + 1))
    (hme : SimME env file G P F n) (hmv : SimMV env file G P F n) (hmu : SimMU env file G P F n)
    (hg : SimG env file G P F (n + 1)) :
    SimC env file G P F (n + 1) := by
  intro m st c η Γ K ρ w gρ gw Bad hfrag hrel hkrel hw hinv htgt hus hfx hcal
  by_cases hctl : isCtl c = false
  · rw [compileTail_simple env m st hctl] at hinv ⊢
    by_cases hgoc : isGoC c = false
    · exact tail_simple hv m st c Γ K ρ w gρ gw Bad hctl hgoc hfrag hrel hkrel hw hinv.goodK htgt hus hfx hcal
    · cases c <;> simp [isGoC] at hgoc
      rename_i e ty
      exact tail_go hg m e ty Γ K ρ w gρ gw Bad hfrag hrel hw hinv.goodK htgt hus hfx hcal
  · cases c with
    | ite c t e ty => exact tail_ite hl ha m st c t e ty Γ K ρ w gρ gw Bad hfrag hrel hkrel hw hinv htgt hus hfx hcal
    | «while» c b ty => exact tail_while hL m st c b ty Γ K ρ w gρ gw Bad hfrag hrel hkrel hw hinv htgt hus hfx hcal
    | matchE s arms d ty => exact tail_match hl hme hmv hmu m st s arms d ty Γ K ρ w gρ gw Bad hfrag hrel hkrel hw hinv htgt hus hfx hcal
    | _ => simp [isCtl] at hctl

end Goml.GoComp
